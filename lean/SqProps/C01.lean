/-
  C01 — the op budget is enforced exactly, on every evaluation path.
  Property theorems about `Sq.step` / `Sq.run` (model of ast_ops.py's `Op.eval` protocol).
-/
import Sq.Machine
import SqLemmas.MachineLemmas
import SqLemmas.LogLemmas
namespace SqProps.C01
open Sq

/-- the configuration is about to start an operation that reaches the budget of its VM -/
def HitsLimit (c : Cfg) : Prop :=
  ∃ op vmi vm N, c.ctl = .ev op vmi ∧ c.w.vm? vmi = some vm ∧ c.budgets[vmi]? = some N ∧ vm.ops + 1 ≥ N

/-- **charge first**: the operation that reaches the budget is charged and raises the ops-limit
    error (a `ParserError` subclass) *before it has any effect*: control becomes `raise`, the op
    counter of that VM is advanced, and nothing else — heap, scopes, log, continuation — changes. -/
theorem charge_first (c : Cfg) (op : Op) (vmi : Nat) (vm : VM) (N : Nat)
    (hctl : c.ctl = .ev op vmi) (hvm : c.w.vm? vmi = some vm) (hb : c.budgets[vmi]? = some N)
    (hlim : vm.ops + 1 ≥ N) :
    step c = { c with ctl := .raise (.opsLimit N),
                      w := c.w.setVM vmi { vm with ops := vm.ops + 1 } } := by
  unfold step stepCore charge Cfg.core Core.withBudgets
  simp [hctl, hvm, hb, hlim]

theorem opsLimit_is_parser_error (N : Nat) : (PyErr.opsLimit N).isParserError = true := rfl

/-- below the budget the operation is charged exactly once and then dispatched -/
theorem charge_then_enter (c : Cfg) (op : Op) (vmi : Nat) (vm : VM) (N : Nat)
    (hctl : c.ctl = .ev op vmi) (hvm : c.w.vm? vmi = some vm) (hb : c.budgets[vmi]? = some N)
    (hlim : vm.ops + 1 < N) :
    step c = (enter op vmi c.k (c.w.setVM vmi { vm with ops := vm.ops + 1 })).withBudgets c.budgets := by
  unfold step stepCore charge Cfg.core
  have : ¬ (vm.ops + 1 ≥ N) := by omega
  simp [hctl, hvm, hb, this]

/-- `stepCore` reads the budgets only through the limit test: two budget assignments under which
    the current configuration does not hit the limit give the same step. -/
theorem stepCore_budget_irrelevant (B B' : List Nat) (c : Core)
    (h : ∀ op vmi, c.ctl = .ev op vmi →
        ∃ vm N M, c.w.vm? vmi = some vm ∧ B[vmi]? = some N ∧ B'[vmi]? = some M ∧ vm.ops + 1 < N ∧ vm.ops + 1 < M) :
    stepCore B c = stepCore B' c := by
  unfold stepCore
  split
  · rename_i op vmi hc
    obtain ⟨vm, N, M, hvm, hN, hM, h1, h2⟩ := h op vmi hc
    have a : ¬ (vm.ops + 1 ≥ N) := by omega
    have b : ¬ (vm.ops + 1 ≥ M) := by omega
    simp [charge, hvm, hN, hM, a, b]
  all_goals rfl

/-- pointwise order on budget assignments -/
def BudgetsLe (B B' : List Nat) : Prop :=
  B.length = B'.length ∧ ∀ (i N : Nat), B[i]? = some N → ∃ M : Nat, B'[i]? = some M ∧ N ≤ M

/-- configurations that differ at most in their budgets -/
def SameCore (c c' : Cfg) : Prop := c.core = c'.core

/-- every VM index that control refers to has a VM state and a budget -/
def Valid (c : Cfg) : Prop :=
  ∀ op vmi, c.ctl = .ev op vmi → ∃ vm N, c.w.vm? vmi = some vm ∧ c.budgets[vmi]? = some N

/-- one step of lock-step simulation: if the smaller-budget run does not hit its limit here,
    the larger-budget run does exactly the same thing. -/
theorem step_mono (c c' : Cfg) (hs : SameCore c c') (hle : BudgetsLe c.budgets c'.budgets)
    (hvalid : Valid c) (hno : ¬ HitsLimit c) :
    SameCore (step c) (step c') := by
  unfold SameCore at *
  have key : stepCore c.budgets c.core = stepCore c'.budgets c.core := by
    apply stepCore_budget_irrelevant
    intro op vmi hc
    have hc' : c.ctl = .ev op vmi := hc
    obtain ⟨vm, N, hvm, hN⟩ := hvalid op vmi hc'
    obtain ⟨M, hM, hNM⟩ := hle.2 vmi N hN
    have hlt : vm.ops + 1 < N := by
      rcases Nat.lt_or_ge (vm.ops + 1) N with h | h
      · exact h
      · exact absurd ⟨op, vmi, vm, N, hc', hvm, hN, h⟩ hno
    exact ⟨vm, N, M, hvm, hN, hM, hlt, by omega⟩
  show (step c).core = (step c').core
  unfold step
  rw [← hs]
  simp only [Core.withBudgets, Cfg.core] at *
  rw [key]

/-- **monotone in N**: run `n` steps from two configurations that differ only in their budgets,
    the second having budgets at least as large.  If the first run never reaches a limit, the
    second run is in lock-step with it: same control, continuation, heap, scopes, counters, log. -/
theorem budget_mono (n : Nat) (c c' : Cfg) (hs : SameCore c c') (hle : BudgetsLe c.budgets c'.budgets)
    (hvalid : ∀ i, i < n → Valid (run i c)) (hno : ∀ i, i < n → ¬ HitsLimit (run i c)) :
    SameCore (run n c) (run n c') := by
  induction n generalizing c c' with
  | zero => exact hs
  | succ n ih =>
    have h0 := step_mono c c' hs hle (hvalid 0 (by omega)) (hno 0 (by omega))
    have hb : BudgetsLe (step c).budgets (step c').budgets := by
      simpa [step, Core.withBudgets] using hle
    show SameCore (run n (step c)) (run n (step c'))
    apply ih (step c) (step c') h0 hb
    · intro i hi; exact hvalid (i + 1) (by omega)
    · intro i hi; exact hno (i + 1) (by omega)

/-! ### the counter equals the number of operations started -/

theorem opsOf_setVM_ops (w : World) (i : Nat) (vm : VM) (n : Nat) (h : w.vm? i = some vm) :
    opsOf (w.setVM i { vm with ops := n }) = (opsOf w).set i n := by
  unfold opsOf World.setVM
  simp [List.map_set]

/-- **every operation is charged exactly once, and nothing else is charged**: a step that starts
    an operation (`ev`) on VM `i` advances exactly that VM's counter by one — whether or not the limit
    is reached, and whatever the node kind — … -/
theorem ev_charges_one (c : Cfg) (op : Op) (i : Nat) (vm : VM) (N : Nat)
    (hctl : c.ctl = .ev op i) (hvm : c.w.vm? i = some vm) (hb : c.budgets[i]? = some N) :
    opsOf (step c).w = (opsOf c.w).set i (vm.ops + 1) := by
  rcases Nat.lt_or_ge (vm.ops + 1) N with hlt | hge
  · rw [charge_then_enter c op i vm N hctl hvm hb hlt]
    show opsOf (enter op i c.k _).w = _
    rw [enter_ops]
    exact opsOf_setVM_ops c.w i vm _ hvm
  · rw [charge_first c op i vm N hctl hvm hb hge]
    exact opsOf_setVM_ops c.w i vm _ hvm

/-- … and a step that returns a value to a frame, unwinds an error, or sits in a final state
    charges nothing (so lambda bodies driven by map / filter / reduce / sorted / host callbacks are
    charged through their own `ev` steps and only through them) -/
theorem other_steps_charge_nothing (c : Cfg) (h : ∀ op i, c.ctl ≠ .ev op i) :
    opsOf (step c).w = opsOf c.w := by
  unfold step stepCore Cfg.core Core.withBudgets
  cases hc : c.ctl with
  | ev op i => exact absurd hc (h op i)
  | ret v =>
    simp only []
    cases hk : c.k with
    | nil => rfl
    | cons fr k => exact resume_ops fr v k c.w
  | raise e =>
    simp only []
    cases hk : c.k with
    | nil => rfl
    | cons fr k => exact unwind_ops fr e k c.w
  | done v => rfl
  | failed e => rfl

/-! ### an aborted run only unwinds -/

def noTry : List Frame → Prop
  | [] => True
  | .tryK :: _ => False
  | _ :: k => noTry k

/-- with no catching host frame on the continuation, a raised error reaches the top: after at most
    `k.length + 1` steps the run has failed with that very error, and unwinding appends no event -/
theorem raise_unwinds_to_failed (e : PyErr) : ∀ (k : List Frame) (w : World) (bs : List Nat), noTry k →
    ∃ w', run (k.length + 1) { ctl := .raise e, k := k, w := w, budgets := bs } =
            { ctl := .failed e, k := [], w := w', budgets := bs } ∧ w'.log = w.log ∧ w'.heap = w.heap := by
  intro k
  induction k with
  | nil =>
    intro w bs _
    exact ⟨w, by simp [run, step, stepCore, Cfg.core, Core.withBudgets], rfl, rfl⟩
  | cons fr k ih =>
    intro w bs hnt
    have hstep : ∃ w1, step { ctl := .raise e, k := fr :: k, w := w, budgets := bs } =
        { ctl := .raise e, k := k, w := w1, budgets := bs } ∧ w1.log = w.log ∧ w1.heap = w.heap ∧ noTry k := by
      cases fr with
      | tryK => exact absurd hnt (by simp [noTry])
      | popScopeK vm =>
        simp only [step, stepCore, Cfg.core, Core.withBudgets, unwind]
        cases hv : w.vm? vm with
        | none => exact ⟨w, by simp [mkRaise], rfl, rfl, by simpa [noTry] using hnt⟩
        | some vmv =>
          exact ⟨w.setVM vm { vmv with scopes := vmv.scopes.tail }, by simp [mkRaise], rfl, rfl, by simpa [noTry] using hnt⟩
      | _ => exact ⟨w, by simp [step, stepCore, Cfg.core, Core.withBudgets, unwind, mkRaise], rfl, rfl, by simpa [noTry] using hnt⟩
    obtain ⟨w1, hs, hl, hh, hnt'⟩ := hstep
    obtain ⟨w', hr, hl', hh'⟩ := ih w1 bs hnt'
    refine ⟨w', ?_, by rw [hl', hl], by rw [hh', hh]⟩
    show run (k.length + 1) (step _) = _
    rw [hs]
    exact hr

/-- **the N-th operation aborts the run** (hosts that propagate errors): when the operation that
    reaches the budget is started and no `try_apply` frame is pending, the run ends with the
    ops-limit error, the heap and the log being exactly what they were before that operation -/
theorem limit_is_fatal_without_try (c : Cfg) (op : Op) (vmi : Nat) (vm : VM) (N : Nat)
    (hctl : c.ctl = .ev op vmi) (hvm : c.w.vm? vmi = some vm) (hb : c.budgets[vmi]? = some N)
    (hlim : vm.ops + 1 ≥ N) (hnt : noTry c.k) :
    ∃ w', run (c.k.length + 2) c = { ctl := .failed (.opsLimit N), k := [], w := w', budgets := c.budgets } ∧
          w'.log = c.w.log ∧ w'.heap = c.w.heap := by
  have h1 := charge_first c op vmi vm N hctl hvm hb hlim
  obtain ⟨w', hr, hl, hh⟩ := raise_unwinds_to_failed (.opsLimit N) c.k (c.w.setVM vmi { vm with ops := vm.ops + 1 }) c.budgets hnt
  refine ⟨w', ?_, hl, hh⟩
  show run (c.k.length + 1) (step c) = _
  rw [h1]
  exact hr

/-- the host-visible log only grows, along any run (newest event first) -/
theorem log_only_grows (n : Nat) (c : Cfg) : ∃ new, (run n c).w.log = new ++ c.w.log := run_log n c

/-- **the effects of an aborted run are a prefix of those of every longer-budget run** (hosts that propagate
    errors).  Two runs from the same start whose budgets differ, `c'` having at least the budgets of `c`.
    Suppose the smaller-budget run first reaches its limit at step `n` with no catching host frame pending.  Then
    * it ends, `|k| + 2` steps later, with the ops-limit error, its heap and log being those of step `n`;
    * up to step `n` the larger-budget run was in lock-step (same control, heap, scopes, counters, log);
    * at every later moment the larger-budget run's log is the aborted run's final log plus newer events. -/
theorem aborted_prefix (n : Nat) (c c' : Cfg) (hs : SameCore c c') (hle : BudgetsLe c.budgets c'.budgets)
    (hvalid : ∀ i, i < n → Valid (run i c)) (hno : ∀ i, i < n → ¬ HitsLimit (run i c))
    (op : Op) (vmi : Nat) (vm : VM) (N : Nat)
    (hctl : (run n c).ctl = .ev op vmi) (hvm : (run n c).w.vm? vmi = some vm)
    (hb : (run n c).budgets[vmi]? = some N) (hlim : vm.ops + 1 ≥ N) (hnt : noTry (run n c).k) :
    ∃ wf, run (n + ((run n c).k.length + 2)) c =
            { ctl := .failed (.opsLimit N), k := [], w := wf, budgets := (run n c).budgets } ∧
          wf.heap = (run n c).w.heap ∧ wf.log = (run n c).w.log ∧
          SameCore (run n c) (run n c') ∧
          ∀ m, ∃ newer, (run (n + m) c').w.log = newer ++ wf.log := by
  obtain ⟨wf, hr, hl, hh⟩ := limit_is_fatal_without_try (run n c) op vmi vm N hctl hvm hb hlim hnt
  have hsame := budget_mono n c c' hs hle hvalid hno
  refine ⟨wf, by rw [run_add]; exact hr, hh, hl, hsame, ?_⟩
  intro m
  obtain ⟨newer, hn⟩ := run_log m (run n c')
  refine ⟨newer, ?_⟩
  rw [run_add, hn, hl]
  have : (run n c').w = (run n c).w := by
    have := congrArg Core.w hsame
    exact this.symm
  rw [this]

/-! ### the counter IS the number of operations started, over whole runs -/

/-- does this configuration start an operation on VM `i`? -/
def startsOn (c : Cfg) (i : Nat) : Nat :=
  match c.ctl with
  | .ev _ j => if j = i then 1 else 0
  | _ => 0

/-- number of operations started on VM `i` during the first `n` steps from `c` -/
def evCount : Nat → Cfg → Nat → Nat
  | 0, _, _ => 0
  | n + 1, c, i => startsOn c i + evCount n (step c) i

theorem step_counts (c : Cfg) (hv : Valid c) (i : Nat) :
    (opsOf (step c).w)[i]? = ((opsOf c.w)[i]?).map (· + startsOn c i) := by
  cases hc : c.ctl with
  | ev op j =>
    obtain ⟨vm, N, hvm, hb⟩ := hv op j hc
    rw [ev_charges_one c op j vm N hc hvm hb]
    have hlen : j < (opsOf c.w).length := by
      unfold opsOf; rw [List.length_map]
      unfold World.vm? at hvm
      exact (List.getElem?_eq_some_iff.mp hvm).1
    have hj : (opsOf c.w)[j]? = some vm.ops := by
      unfold opsOf World.vm? at *
      rw [List.getElem?_map, hvm]; rfl
    unfold startsOn
    simp only [hc]
    by_cases hji : j = i
    · subst hji
      rw [List.getElem?_set]
      simp only [if_true, hlen, hj, Option.map_some]
    · simp [List.getElem?_set, hji]
  | ret v =>
    rw [other_steps_charge_nothing c (by intro op i h; rw [hc] at h; cases h)]
    simp [startsOn, hc]
  | raise e =>
    rw [other_steps_charge_nothing c (by intro op i h; rw [hc] at h; cases h)]
    simp [startsOn, hc]
  | done v =>
    rw [other_steps_charge_nothing c (by intro op i h; rw [hc] at h; cases h)]
    simp [startsOn, hc]
  | failed e =>
    rw [other_steps_charge_nothing c (by intro op i h; rw [hc] at h; cases h)]
    simp [startsOn, hc]

/-- **the op counter of every VM equals its initial value plus the number of operations started on it**, after
    any number of steps of any run (every node evaluation is charged exactly once, nothing else is) -/
theorem ops_counted (n : Nat) (c : Cfg) (hvalid : ∀ k, k < n → Valid (run k c)) (i : Nat) :
    (opsOf (run n c).w)[i]? = ((opsOf c.w)[i]?).map (· + evCount n c i) := by
  induction n generalizing c with
  | zero => simp [run, evCount]
  | succ n ih =>
    rw [run, ih (step c) (fun k hk => by have := hvalid (k + 1) (by omega); rwa [run] at this)]
    rw [step_counts c (hvalid 0 (by omega)) i]
    simp only [evCount, Option.map_map]
    congr 1
    funext x
    simp [Function.comp, Nat.add_assoc]

end SqProps.C01
