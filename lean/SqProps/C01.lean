/-
  C01 — the op budget is enforced exactly, on every evaluation path.
  Property theorems about `Sq.step` / `Sq.run` (model of ast_ops.py's `Op.eval` protocol).
-/
import Sq.Machine
namespace SqProps.C01
open Sq

/-- the configuration is about to start an operation that reaches the budget of its VM -/
def HitsLimit (c : Cfg) : Prop :=
  ∃ op vmi vm N, c.ctl = .ev op vmi ∧ c.w.vm? vmi = some vm ∧ c.budgets[vmi]? = some N ∧ vm.ops + 1 ≥ N

/-- **charge first**: the operation that reaches the budget is charged and raises the ops-limit
    error (a `ParserError` subclass) *before it has any effect*: control becomes `raise`, the op
    counter of that VM is advanced, and nothing else — heap, scopes, log, continuation — changes. -/
theorem charge_first (c : Cfg) (op : Op) (vmi : Nat) (vm : VM) (N : Nat)
    (hctl : c.ctl = .ev op vmi) (hvm : c.w.vm? vmi = some vm) (hb : c.budgets[vmi]? = some N)
    (hlim : vm.ops + 1 ≥ N) :
    step c = { c with ctl := .raise (.opsLimit N),
                      w := c.w.setVM vmi { vm with ops := vm.ops + 1 } } := by
  unfold step stepCore charge Cfg.core Core.withBudgets
  simp [hctl, hvm, hb, hlim]

theorem opsLimit_is_parser_error (N : Nat) : (PyErr.opsLimit N).isParserError = true := rfl

/-- below the budget the operation is charged exactly once and then dispatched -/
theorem charge_then_enter (c : Cfg) (op : Op) (vmi : Nat) (vm : VM) (N : Nat)
    (hctl : c.ctl = .ev op vmi) (hvm : c.w.vm? vmi = some vm) (hb : c.budgets[vmi]? = some N)
    (hlim : vm.ops + 1 < N) :
    step c = (enter op vmi c.k (c.w.setVM vmi { vm with ops := vm.ops + 1 })).withBudgets c.budgets := by
  unfold step stepCore charge Cfg.core
  have : ¬ (vm.ops + 1 ≥ N) := by omega
  simp [hctl, hvm, hb, this]

/-- `stepCore` reads the budgets only through the limit test: two budget assignments under which
    the current configuration does not hit the limit give the same step. -/
theorem stepCore_budget_irrelevant (B B' : List Nat) (c : Core)
    (h : ∀ op vmi, c.ctl = .ev op vmi →
        ∃ vm N M, c.w.vm? vmi = some vm ∧ B[vmi]? = some N ∧ B'[vmi]? = some M ∧ vm.ops + 1 < N ∧ vm.ops + 1 < M) :
    stepCore B c = stepCore B' c := by
  unfold stepCore
  split
  · rename_i op vmi hc
    obtain ⟨vm, N, M, hvm, hN, hM, h1, h2⟩ := h op vmi hc
    have a : ¬ (vm.ops + 1 ≥ N) := by omega
    have b : ¬ (vm.ops + 1 ≥ M) := by omega
    simp [charge, hvm, hN, hM, a, b]
  all_goals rfl

/-- pointwise order on budget assignments -/
def BudgetsLe (B B' : List Nat) : Prop :=
  B.length = B'.length ∧ ∀ (i N : Nat), B[i]? = some N → ∃ M : Nat, B'[i]? = some M ∧ N ≤ M

/-- configurations that differ at most in their budgets -/
def SameCore (c c' : Cfg) : Prop := c.core = c'.core

/-- every VM index that control refers to has a VM state and a budget -/
def Valid (c : Cfg) : Prop :=
  ∀ op vmi, c.ctl = .ev op vmi → ∃ vm N, c.w.vm? vmi = some vm ∧ c.budgets[vmi]? = some N

/-- one step of lock-step simulation: if the smaller-budget run does not hit its limit here,
    the larger-budget run does exactly the same thing. -/
theorem step_mono (c c' : Cfg) (hs : SameCore c c') (hle : BudgetsLe c.budgets c'.budgets)
    (hvalid : Valid c) (hno : ¬ HitsLimit c) :
    SameCore (step c) (step c') := by
  unfold SameCore at *
  have key : stepCore c.budgets c.core = stepCore c'.budgets c.core := by
    apply stepCore_budget_irrelevant
    intro op vmi hc
    have hc' : c.ctl = .ev op vmi := hc
    obtain ⟨vm, N, hvm, hN⟩ := hvalid op vmi hc'
    obtain ⟨M, hM, hNM⟩ := hle.2 vmi N hN
    have hlt : vm.ops + 1 < N := by
      rcases Nat.lt_or_ge (vm.ops + 1) N with h | h
      · exact h
      · exact absurd ⟨op, vmi, vm, N, hc', hvm, hN, h⟩ hno
    exact ⟨vm, N, M, hvm, hN, hM, hlt, by omega⟩
  show (step c).core = (step c').core
  unfold step
  rw [← hs]
  simp only [Core.withBudgets, Cfg.core] at *
  rw [key]

/-- **monotone in N**: run `n` steps from two configurations that differ only in their budgets,
    the second having budgets at least as large.  If the first run never reaches a limit, the
    second run is in lock-step with it: same control, continuation, heap, scopes, counters, log. -/
theorem budget_mono (n : Nat) (c c' : Cfg) (hs : SameCore c c') (hle : BudgetsLe c.budgets c'.budgets)
    (hvalid : ∀ i, i < n → Valid (run i c)) (hno : ∀ i, i < n → ¬ HitsLimit (run i c)) :
    SameCore (run n c) (run n c') := by
  induction n generalizing c c' with
  | zero => exact hs
  | succ n ih =>
    have h0 := step_mono c c' hs hle (hvalid 0 (by omega)) (hno 0 (by omega))
    have hb : BudgetsLe (step c).budgets (step c').budgets := by
      simpa [step, Core.withBudgets] using hle
    show SameCore (run n (step c)) (run n (step c'))
    apply ih (step c) (step c') h0 hb
    · intro i hi; exact hvalid (i + 1) (by omega)
    · intro i hi; exact hno (i + 1) (by omega)

end SqProps.C01
