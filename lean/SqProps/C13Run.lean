/-
  C13 (continued) — [B] over whole programs: sorted, reversed, shuffle, map, filter, reduce, enumerate, keys, values, items,
  join, split, sum, min, max, get, index_of, pretty, len, str, the string and regex functions — in any combination, with
  lambdas as callbacks, inside lambdas, under host trampolines — leave lists, dicts and host objects exactly as they were:
  a program that names none of the seven mutators and has no compound assignment changes NO object that existed before
  it ran (only the names mapping, which top-level assignments write).  SqLemmas/InvHeap.lean + InvQuiet.lean, on top of
  the generic configuration invariant (InvMachine).
-/
import SqLemmas.InvQuiet
namespace SqProps.C13
open Sq Sq.Inv

/-- one machine step, stated generically: under the configuration invariant with "no mutator is a value" and "no compound
    assignment is pending", only scope dictionaries change -/
theorem step_changes_only_scopes {Pc : List Op → Op → Nat → Prop} {Pb Pq : String → Prop} {Pr : Nat → Prop} {Po : Op → Prop} {Pn : Name → Prop}
    {Psh : Prop} (hok : OpsOK Pc Pb Po Pn Psh) (hb : ∀ n, Pb n → n ∉ mutatorNames) (hsh : ¬ Psh) (budgets : List Nat) (c : Core)
    (hc : CorePDg Pc Pb Pq Pr Po Pn Psh c) : HPres c.w (stepCore budgets c).w :=
  (step_hp (M := fun _ => False) hok (pureOK_of_nonmut hb) (inplOK_of_not hsh) budgets c hc).toHStep.toHPres

/-- **a program without mutators changes no host object**, at any step of its evaluation -/
theorem quiet_program_changes_no_host_object (w : World) (bs : List Nat) (namesAddr budget : Nat) (tree : Op)
    (astNames : List (Name × Op)) (hw : QuietWorld w) (ht : Quiet tree) (ha : ∀ p, p ∈ astNames → Quiet p.2) (i a : Nat)
    (hlt : a < w.heap.size) (hs : a ∉ scopesOf w) (hn : a ≠ namesAddr) :
    (run i (initCfg w bs namesAddr budget tree astNames)).w.heap.get? a = w.heap.get? a :=
  quiet_run_preserves w bs namesAddr budget tree astNames hw ht ha i a hlt hs hn

/-- the seven excluded names are exactly the mutators of the builtin table -/
theorem quiet_excludes_exactly_the_mutators (n : Name) : QuietName n ↔ String.ofList n ∉ mutatorNames := Iff.rfl

/-- non-vacuity: `sorted(map(xs, v => v + 1))` is such a program … -/
example : Quiet (.call "sorted".toList [.call "map".toList [.name "xs".toList,
    .lambda [.name "v".toList] (.bin .add (.name "v".toList) (.value (.num ⟨false, 1, 0⟩)))]]) := by
  refine .call (by unfold QuietName; decide) ?_
  intro a ha; simp at ha; subst ha
  refine .call (by unfold QuietName; decide) ?_
  intro a ha; simp at ha
  rcases ha with rfl | rfl
  · exact .name (by unfold QuietName; decide)
  · exact .lambda (.bin (.name (by unfold QuietName; decide)) .value)

/-- … and `xs.push(1)` (= `push(xs, 1)`) is not -/
example : ¬ Quiet (.call "push".toList [.name "xs".toList, .value (.num ⟨false, 1, 0⟩)]) := by
  intro h; cases h with | call h _ => exact absurd h (by unfold QuietName; decide)

end SqProps.C13
