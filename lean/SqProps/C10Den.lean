/-
  C10 — [B] the scoping rules read off the compositional semantics (`Sq/Denote.lean`), which the machine implements exactly
  (`SqProps/C07Den.lean`).
-/
import Sq.Denote
import SqLemmas.DenoteScopes
import SqProps.C09Den
namespace SqProps.C10Den
open Sq Sq.Den

/-- **bindings made during lambda calls vanish**: whatever a node evaluates — lambda calls nested and re-entrant, callbacks
    of map / filter / reduce / sorted, host callbacks that catch errors — when its evaluation ends, by returning OR by
    raising, every VM state has exactly the scope stack it had before: no parameter scope is left behind, none is lost -/
theorem evaluation_keeps_every_scope_stack (B : List Nat) (f : Nat) (op : Op) (vmi : Nat) (w : World) (o : Out) (w' : World)
    (h : evalOp B f op vmi w = some (o, w')) (i : Nat) : scopesAt w' i = scopesAt w i :=
  evalOp_keeps_scopes f op vmi w o w' h i

/-- … in particular around every function application -/
theorem application_keeps_every_scope_stack (B : List Nat) (f tf : Nat) (fn : Val) (args : List Val) (w : World) (o : Out)
    (w' : World) (h : applyVal B f tf fn args w = some (o, w')) (i : Nat) : scopesAt w' i = scopesAt w i :=
  applyVal_keeps_scopes f tf fn args w o w' h i

/-- **a name is read innermost-first**: the value of a name node is what `lookupName` finds walking the scope stack of the
    node's VM from the top — the lambda call in progress, …, the host's mapping — and the builtins last; an unbound name is a
    ParserError -/
theorem name_reads_innermost_first (B : List Nat) (f : Nat) (n : Name) (vmi : Nat) (w0 w : World) (vm : VM)
    (hc : charge w0 B vmi = some (w, none)) (hv : w.vm? vmi = some vm) :
    evalOp B (f + 1) (.name n) vmi w0 =
      match lookupName w.heap vm.scopes n with
      | some v => some (.ret v, w)
      | none => some (.raise (.parser "Undefined variable"), w) := by
  rw [evalOp]; simp only [hc, nameAct, hv]
  cases lookupName w.heap vm.scopes n <;> rfl

/-- **a lambda is called in a fresh scope on the VM it was created on**: the parameters are bound in a new dictionary pushed on
    top, the body is evaluated there, and `popScope` removes the scope whatever the outcome -/
theorem lambda_call_scoping (B : List Nat) (f tf : Nat) (ps : List Op) (body : Op) (vmi : Nat) (args : List Val) (w : World)
    (kvs : List (Val × Val)) (vm : VM) (hb : bindParams ps args [] = some kvs) (hv : w.vm? vmi = some vm) :
    applyVal B (f + 1) (tf + 1) (.closure ps body vmi) args w =
      match evalOp B f body vmi (({ w with heap := (w.heap.alloc (.dict kvs)).1 }).setVM vmi
              { vm with scopes := (w.heap.alloc (.dict kvs)).2 :: vm.scopes }) with
      | none => none
      | some (o, w1) => some (popScope vmi o w1) := by
  simp only [applyVal, hb, hv]
  split <;> (rename_i he; rw [he])

end SqProps.C10Den
