/-
  C04 — arithmetic stays in bounded-precision decimals; numbers cannot blow up.
  [A]: `*` and `**` (as operators) return a 28-digit Decimal or raise, for operands of every host
  numeric type, and never repeat strings or lists; `+ - /` and unary minus on decimals go through
  `fix` (≤ 28 digits).  Counterexamples (findings): compound `*=` uses the native operator (D12),
  `int()` of a huge-exponent decimal is exact (D13).
-/
import Sq.Machine
import SqLemmas.DecLemmas
namespace SqProps.C04
open Sq

/-- every result of the decimal operations that go through the context has ≤ 28 digits -/
theorem liftDec_fix_digits (x : Dec) (v : Val) (h : liftDec (Dec.fix x) = .ok v) :
    ∃ d, v = .dec d false ∧ d.digits ≤ 28 := by
  unfold liftDec at h
  split at h
  · rename_i d hd
    simp only [Except.ok.injEq] at h
    exact ⟨d, h.symm, Dec.fix_digits x d hd⟩
  · simp at h

/-- **`*` computes in 28-digit decimal arithmetic or raises**, for every pair of operands of
    every type: the result is never a str / list / tuple (no repetition) and never a long int -/
theorem mul_is_decimal (w : World) (a b : Val) (v : Val) (w' : World)
    (h : applyBin w .mul a b = .ok (v, w')) : ∃ d, v = .dec d false ∧ d.digits ≤ 28 := by
  unfold applyBin at h
  simp only [] at h
  split at h
  · -- a non-number operand: ParserError (or the model's explicit unmodelled), never a value
    split at h <;> simp [U] at h
  · split at h
    · rename_i x y _ _
      cases hm : liftDec (Dec.mul x y) with
      | error e => simp [hm, Except.map] at h
      | ok r =>
        simp [hm, Except.map] at h
        obtain ⟨rfl, _⟩ := h
        exact liftDec_fix_digits _ _ hm
    · simp [U] at h

/-- a non-numeric operand of `*` is refused with a ParserError -/
theorem mul_refuses_non_numbers (w : World) (s : List Char) (b : Val) :
    applyBin w .mul (.str s) b = .error (.parser "Can't multiply non-numbers") ∨
    ∃ u, applyBin w .mul (.str s) b = .error (.unmodelled u) := by
  cases b <;> simp [applyBin, isNumeric, U]

theorem digits_zero (n : Bool) (e : Int) : Dec.digits { neg := n, coeff := 0, exp := e } = 1 := rfl

/-- the modelled part of `Decimal ** Decimal` returns ≤ 28 digits -/
theorem decPow_digits (x y : Dec) (v : Val) (hp : decPow x y = .ok v) : ∃ d, v = .dec d false ∧ d.digits ≤ 28 := by
  unfold decPow at hp
  split at hp
  · simp [U] at hp
  · simp only [] at hp
    split at hp
    · simp [U] at hp
    · split at hp
      · simp [U] at hp
      · split at hp
        · simp at hp
        · split at hp
          · split at hp
            · simp [U] at hp
            · simp only [Except.ok.injEq] at hp
              exact ⟨_, hp.symm, by rw [digits_zero]; omega⟩
          · split at hp
            · simp [U] at hp
            · split at hp
              · simp [U] at hp
              · exact liftDec_fix_digits _ _ hp

/-- **`**` likewise**: a decimal with ≤ 28 digits, or an error -/
theorem pow_is_decimal (w : World) (a b : Val) (v : Val) (w' : World)
    (h : applyBin w .pow a b = .ok (v, w')) : ∃ d, v = .dec d false ∧ d.digits ≤ 28 := by
  unfold applyBin at h
  simp only [] at h
  split at h
  · simp at h
  · split at h
    · simp at h
    · rename_i _ x _ _ y _
      cases hp : decPow x y with
      | error e => simp [hp, Except.map] at h
      | ok r =>
        simp [hp, Except.map] at h
        obtain ⟨rfl, _⟩ := h
        exact decPow_digits x y _ hp

/-- `+`, `-`, `/` and unary minus on two decimals are rounded to 28 digits -/
theorem add_dec_digits (h : Heap) (x y : Dec) (cx cy : Bool) (v : Val) (h' : Heap)
    (hh : pyAdd h (.dec x cx) (.dec y cy) = .ok (v, h')) : ∃ d, v = .dec d false ∧ d.digits ≤ 28 := by
  simp [pyAdd, toInt?, toDec?, Dec.add, Except.map] at hh
  cases hm : liftDec (Dec.fix (Dec.addExact x y)) with
  | error e => simp [hm] at hh
  | ok r => simp [hm] at hh; rw [← hh.1]; exact liftDec_fix_digits _ _ hm

theorem neg_dec_digits (x : Dec) (c : Bool) (v : Val) (hh : pyNeg (.dec x c) = .ok v) :
    ∃ d, v = .dec d false ∧ d.digits ≤ 28 := by
  simp only [pyNeg, Dec.neg'] at hh
  split at hh <;> exact liftDec_fix_digits _ _ hh

/-- two host ints added stay ints and grow by at most one digit (exact integer addition) -/
theorem add_int_exact (h : Heap) (x y : Int) : pyAdd h (.int x) (.int y) = .ok (.int (x + y), h) := by
  simp [pyAdd, toInt?]

/-- D12 (finding): the compound assignment `*=` uses the NATIVE operator — on two host ints the
    exact product (digits add up), on a str and a host int repetition -/
theorem imul_native_counterexample :
    pyMulNative #[] (.int (10 ^ 30)) (.int (10 ^ 30)) = .ok (.int (10 ^ 60), #[]) ∧
    pyMulNative #[] (.str ['a', 'b']) (.int 3) = .ok (.str ['a', 'b', 'a', 'b', 'a', 'b'], #[]) := by
  constructor
  · simp [pyMulNative, toInt?]
  · rfl

theorem imul_is_native (s : BState) (cur v : Val) :
    pyInplace s .imul cur v = match cur with
      | .ref a => (match s.heap.get? a, toInt? v with
        | some (.list xs), some n =>
          if xs.length * n.toNat > 1000000 then U "repeat-huge" else
          ret (.ref a) { s with heap := s.heap.set a (.list ((List.replicate n.toNat xs).flatten)) }
        | _, _ => .error .typeError)
      | _ => (pyMulNative s.heap cur v).map (fun (r, h) => (r, { s with heap := h })) := by
  cases cur <;> rfl

/-- D13 (finding): `int()` of a decimal is exact, whatever its exponent — `int(1E+k)` has k+1
    digits (parametric in k; the monitor replays k = 99999 on the implementation) -/
theorem int_of_power_of_ten (k : Nat) :
    Dec.toInt { neg := false, coeff := 1, exp := k } = ((10 ^ k : Nat) : Int) := by
  simp [Dec.toInt]

/-- every context operation of the decimal model ends in `fix`: its result has ≤ 28 digits -/
theorem dec_ops_fix_digits (x y d : Dec) :
    (Dec.add x y = .ok d → d.digits ≤ 28) ∧ (Dec.sub x y = .ok d → d.digits ≤ 28) ∧
    (Dec.mul x y = .ok d → d.digits ≤ 28) ∧ (Dec.div x y = .ok d → d.digits ≤ 28) ∧
    (Dec.neg' x = .ok d → d.digits ≤ 28) ∧ (Dec.abs' x = .ok d → d.digits ≤ 28) := by
  refine ⟨?_, ?_, ?_, ?_, ?_, ?_⟩
  · intro h; exact Dec.fix_digits _ _ h
  · intro h; exact Dec.fix_digits _ _ h
  · intro h; exact Dec.fix_digits _ _ h
  · intro h
    unfold Dec.div at h
    split at h
    · split at h <;> cases h
    · exact Dec.fix_digits _ _ h
  · intro h
    unfold Dec.neg' at h
    split at h <;> exact Dec.fix_digits _ _ h
  · intro h
    unfold Dec.abs' Dec.neg' Dec.pos' at h
    split at h <;> split at h <;> exact Dec.fix_digits _ _ h

/-- `-` and `/` as operators: whatever the operand types, a Decimal result has ≤ 28 digits -/
theorem sub_div_digits (a b v : Val) :
    (pySub a b = .ok v → (∃ d, v = .dec d false ∧ d.digits ≤ 28) ∨ ∃ i, v = .int i) ∧
    (pyDiv a b = .ok v → ∃ d, v = .dec d false ∧ d.digits ≤ 28) := by
  constructor
  · intro h
    unfold pySub at h
    split at h
    · cases h; exact Or.inr ⟨_, rfl⟩
    · split at h
      · rename_i x y _ _
        left
        unfold liftDec at h
        split at h
        · rename_i d hd
          cases h
          exact ⟨d, rfl, (dec_ops_fix_digits x y d).2.1 hd⟩
        · cases h
      · split at h <;> simp [U] at h
  · intro h
    unfold pyDiv at h
    split at h
    · split at h
      · cases h
      · simp [U] at h
    · split at h
      · rename_i x y _ _
        unfold liftDec at h
        split at h
        · rename_i d hd
          cases h
          exact ⟨d, rfl, (dec_ops_fix_digits x y d).2.2.2.1 hd⟩
        · cases h
      · split at h <;> simp [U] at h

/-! ### numeric builtins that select: `min` / `max` return one of their arguments -/

theorem extreme_go_mem (h : Heap) (isMax : Bool) : ∀ (ys : List Val) (best r : Val),
    extreme.go h isMax ys best = .ok r → r = best ∨ r ∈ ys := by
  intro ys
  induction ys with
  | nil => intro best r hr; simp [extreme.go] at hr; exact Or.inl hr.symm
  | cons y ys ih =>
    intro best r hr
    simp only [extreme.go] at hr
    split at hr
    · cases hr
    · rcases ih y r hr with e | e
      · exact Or.inr (by simp [e])
      · exact Or.inr (by simp [e])
    · rcases ih best r hr with e | e
      · exact Or.inl e
      · exact Or.inr (by simp [e])

theorem extreme_mem (h : Heap) (isMax : Bool) (xs : List Val) (r : Val) (hr : extreme h isMax xs = .ok r) : r ∈ xs := by
  cases xs with
  | nil => simp [extreme] at hr
  | cons x xs =>
    rcases extreme_go_mem h isMax xs x r hr with e | e
    · simp [e]
    · simp [e]

theorem sel_result (h0 : Heap) (isMax : Bool) (xs : List Val) (s : BState) (v : Val) (s' : BState)
    (h : (extreme h0 isMax xs).map (·, s) = .ok (v, s')) : s' = s ∧ v ∈ xs := by
  cases he : extreme h0 isMax xs with
  | error e => rw [he] at h; cases h
  | ok r =>
    rw [he] at h
    simp [Except.map] at h
    obtain ⟨rfl, rfl⟩ := h
    exact ⟨rfl, extreme_mem _ _ _ _ he⟩

/-- **`min` never widens a number**: called with several arguments it returns ONE OF THEM (so its digits are those of an
    argument), called with one container it returns one of its elements -/
theorem min_returns_an_argument (args : List Val) (s : BState) (v : Val) (s' : BState) (h : b_min args s = .ok (v, s')) :
    s' = s ∧ (v ∈ args ∨ ∃ c items, args = [c] ∧ iterItems s.heap c = .ok items ∧ v ∈ items) := by
  unfold b_min at h
  split at h
  · cases h
  · rename_i c
    split at h
    · rename_i items hi
      obtain ⟨e, hm⟩ := sel_result _ _ _ _ _ _ h
      exact ⟨e, Or.inr ⟨c, items, rfl, hi, hm⟩⟩
    · cases h
  · obtain ⟨e, hm⟩ := sel_result _ _ _ _ _ _ h
    exact ⟨e, Or.inl hm⟩

/-- … and so does `max` -/
theorem max_returns_an_argument (args : List Val) (s : BState) (v : Val) (s' : BState) (h : b_max args s = .ok (v, s')) :
    s' = s ∧ (v ∈ args ∨ ∃ c items, args = [c] ∧ iterItems s.heap c = .ok items ∧ v ∈ items) := by
  unfold b_max at h
  split at h
  · cases h
  · rename_i c
    split at h
    · rename_i items hi
      obtain ⟨e, hm⟩ := sel_result _ _ _ _ _ _ h
      exact ⟨e, Or.inr ⟨c, items, rfl, hi, hm⟩⟩
    · cases h
  · obtain ⟨e, hm⟩ := sel_result _ _ _ _ _ _ h
    exact ⟨e, Or.inl hm⟩

/-- `abs` of a decimal goes through the context: ≤ 28 digits -/
theorem abs_dec_digits (x d : Dec) (h : Dec.abs' x = .ok d) : d.digits ≤ 28 := (dec_ops_fix_digits x x d).2.2.2.2.2 h



/-! ### `sum` over decimals and `round(x, n)` stay within 28 digits -/

/-- adding a decimal to an int, a bool or a decimal goes through the 28-digit context -/
theorem add_to_dec_digits (h : Heap) (acc : Val) (y : Dec) (cy : Bool) (v : Val) (h' : Heap)
    (hacc : ∃ a, toDec? acc = some a) (hh : pyAdd h acc (.dec y cy) = .ok (v, h')) :
    ∃ d, v = .dec d false ∧ d.digits ≤ 28 := by
  obtain ⟨a, ha⟩ := hacc
  have hi : toInt? (.dec y cy) = none := rfl
  have hd : toDec? (.dec y cy) = some y := rfl
  unfold pyAdd at hh
  rw [hi, hd, ha] at hh
  have hh' : (liftDec (Dec.add a y)).map (·, h) = .ok (v, h') := by
    cases hti : toInt? acc <;> simp only [hti] at hh <;> exact hh
  cases hm : liftDec (Dec.fix (Dec.addExact a y)) with
  | error e => simp [Dec.add, hm, Except.map] at hh'
  | ok r =>
    simp [Dec.add, hm, Except.map] at hh'
    rw [← hh'.1]; exact liftDec_fix_digits _ _ hm

/-- the running total of `sum` over decimals stays a 28-digit decimal -/
theorem sum_go_digits : ∀ (xs : List Val) (acc : Val) (h : Heap) (v : Val) (h' : Heap),
    (∀ x ∈ xs, ∃ d c, x = .dec d c) → (∃ d, acc = .dec d false ∧ d.digits ≤ 28) →
    xs.foldlM (fun (acc : Val × Heap) x => pyAdd acc.2 acc.1 x) (acc, h) = .ok (v, h') →
    ∃ d, v = .dec d false ∧ d.digits ≤ 28
  | [], acc, h, v, h', _, hacc, hr => by
    simp only [List.foldlM, pure, Except.pure, Except.ok.injEq, Prod.mk.injEq] at hr
    rw [← hr.1]; exact hacc
  | x :: xs, acc, h, v, h', hx, hacc, hr => by
    obtain ⟨d, c, rfl⟩ := hx x (List.mem_cons_self ..)
    simp only [List.foldlM, bind, Except.bind] at hr
    split at hr
    · cases hr
    · rename_i p hp
      obtain ⟨d0, rfl, _⟩ := hacc
      exact sum_go_digits xs p.1 p.2 v h' (fun y hy => hx y (List.mem_cons_of_mem _ hy))
        (add_to_dec_digits h _ d c p.1 p.2 ⟨d0, rfl⟩ hp) hr

/-- **`sum` over a non-empty list of decimals is a decimal of at most 28 significant digits** (each partial sum goes
    through the context: 0 + x₁ is already a decimal), however long the list and however large its elements -/
theorem sum_of_decimals_digits (a : Nat) (xs : List Val) (s : BState) (v : Val) (s' : BState)
    (hl : s.heap.get? a = some (.list xs)) (hne : xs ≠ []) (hx : ∀ x ∈ xs, ∃ d c, x = .dec d c)
    (h : b_sum [.ref a] s = .ok (v, s')) : ∃ d, v = .dec d false ∧ d.digits ≤ 28 := by
  unfold b_sum at h
  simp only [hl] at h
  split at h
  · rename_i v0 h0 hr
    simp only [ret, Except.ok.injEq, Prod.mk.injEq] at h
    rw [← h.1]
    cases xs with
    | nil => exact absurd rfl hne
    | cons x xs =>
      obtain ⟨d, c, rfl⟩ := hx x (List.mem_cons_self ..)
      simp only [List.foldlM, bind, Except.bind] at hr
      split at hr
      · cases hr
      · rename_i p hp
        exact sum_go_digits xs p.1 p.2 v0 h0 (fun y hy => hx y (List.mem_cons_of_mem _ hy))
          (add_to_dec_digits s.heap _ d c p.1 p.2 ⟨Dec.ofInt 0, rfl⟩ hp) hr
  · cases h

theorem quantize_digits (d : Dec) (e : Int) (r : Dec) (h : Dec.quantize d e = .ok r) : r.digits ≤ 28 := by
  unfold Dec.quantize at h
  simp only [] at h
  repeat' split at h
  all_goals first | (cases h; done) | exact Dec.fix_digits _ r h

/-- **`round(x, n)` of a decimal is a decimal of at most 28 digits** (it is `quantize` under the default context, which
    refuses — InvalidOperation — a result that would need more) -/
theorem round_digits_arg (d : Dec) (c : Bool) (nd v : Val) (hnd : nd ≠ .none) (h : bRound [.dec d c, nd] = .ok v) :
    ∃ r, v = .dec r true ∧ r.digits ≤ 28 := by
  unfold bRound at h
  simp only [] at h
  cases hn : pyInt nd with
  | error e =>
    cases nd <;> first | exact absurd rfl hnd | (simp [hn, Except.map] at h)
  | ok k =>
    rw [hn] at h
    simp only [Except.map] at h
    split at h
    · rename_i r hr
      cases h
      exact ⟨r, rfl, quantize_digits _ _ _ hr⟩
    · cases h
end SqProps.C04
