/-
  C12 — [B] `x = e`, end to end (`assign_binds_same_content`): afterwards every lookup of the name finds, in the top scope, a
  value that reads exactly like the value of `e` did and lives in new objects only.
-/
import SqProps.C12
import SqProps.C10
import SqLemmas.CopyIso
import Sq.Denote
namespace SqProps.C12
open Sq Sq.Den

/-- reading a value whose addresses are all new (≥ `b`) looks only at new objects: two heaps that agree on the addresses
    ≥ `b` — where new objects mention only new addresses — give the same unfolding -/
theorem unfold_new_only {b : Nat} {h1 h2 : Heap} (hag : ∀ a, a ≥ b → h2.get? a = h1.get? a)
    (hobj : ∀ a, a ≥ b → ∀ o, h1.get? a = some o → ObjGe b o) :
    ∀ (n : Nat) (v : Val), RefsGe b v → unfoldT n h2 v = unfoldT n h1 v := by
  intro n
  induction n with
  | zero => intro v _; rfl
  | succ n ih =>
    intro v hge
    cases hge with
    | ref ha =>
      rename_i a
      simp only [unfoldT, hag a ha]
      cases g : h1.get? a with
      | none => rfl
      | some o =>
        have ho := hobj a ha o g
        cases o with
        | list xs =>
          simp only []
          congr 1
          exact List.map_congr_left (fun v hv => ih v (ho v hv))
        | dict kvs =>
          simp only []
          congr 1
          exact List.map_congr_left (fun kv hkv => ih kv.2 (ho kv hkv).2)
    | tuple hall =>
      simp only [unfoldT]
      congr 1
      exact List.map_congr_left (fun v hv => ih v (hall v hv))
    | _ => rfl

/-- **`x = e`, end to end**: when the assignment succeeds (`assignAct` returns None), the name is afterwards bound — in
    the top scope, found first by every lookup — to a value that reads exactly like the value of `e` did before (equal
    unfoldings at every depth) and shares no object with anything that existed before (`stored_copy_is_independent`) -/
theorem assign_binds_same_content (n : Name) (vmi : Nat) (v : Val) (w w' : World) (vm : VM) (a : Nat) (rest : List Nat)
    (hcl : Closed w.heap) (hk : KeysPlain w.heap) (hv : RefsLt w.heap.size v) (hvm : w.vm? vmi = some vm)
    (hsc : vm.scopes = a :: rest) (ha : a < w.heap.size)
    (h : assignAct n vmi v w = (.ret .none, w')) :
    ∃ v', lookupName w'.heap vm.scopes n = some v' ∧ RefsGe w.heap.size v' ∧
      ∀ k, unfoldT k w'.heap v' = unfoldT k w.heap v := by
  unfold assignAct at h
  split at h
  · cases h
  · rename_i v' h' hd
    simp only [hvm] at h
    split at h
    · rename_i h'' hwt
      have e : w' = { w with heap := h'' } := by injection h with _ h2; exact h2.symm
      subst e
      obtain ⟨hfresh, hobjs, _⟩ := deepcopy'_fresh w.heap v v' h' hk hd
      have hext := deepcopy'_frame w.heap v v' h' hd
      refine ⟨v', ?_, hfresh, ?_⟩
      · -- the lookup finds the new binding in the top scope
        rw [hsc] at hwt ⊢
        simp only [writeTop] at hwt
        split at hwt
        · rename_i kvs hg
          injection hwt with hwt
          subst hwt
          apply SqProps.C10.lookup_innermost_first
          unfold scopeFind
          have hlt : a < h'.size := Nat.lt_of_lt_of_le ha hext.1
          have : (Heap.set h' a (.dict (kvSet kvs n v'))).get? a = some (.dict (kvSet kvs n v')) := by
            rw [get?_set]; simp [hlt]
          simp only [this]
          exact SqProps.C10.kvSet_find kvs n v'
        · cases hwt
      · -- the content: the write changed the (old) top scope only; the copy lives in new objects
        intro k
        have hag : ∀ x, x ≥ w.heap.size → Heap.get? h'' x = Heap.get? h' x := by
          intro x hx
          rw [hsc] at hwt
          exact SqProps.C10.writes_go_to_top h' h'' a rest n v' hwt x (by omega)
        rw [unfold_new_only hag hobjs k v' hfresh]
        exact (stored_copy_has_same_content w.heap v v' h' hcl hv hd k).1
    · cases h
end SqProps.C12
