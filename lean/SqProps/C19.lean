/-
  C19 — random builtins stay within their documented range.
  The Mersenne Twister is not modelled: `rand` / `shuffle` draw from an abstract generator state
  (`BState.rng`, any natural number); the theorems hold for EVERY state, i.e. for every admissible
  draw.  Assumed of the library (trusted base): `random()` ∈ [0,1), `randint(a,b)` ∈ [a,b],
  `choice(l)` ∈ l.
-/
import Sq.Machine
import SqLemmas.RandLemmas
namespace SqProps.C19
open Sq

/-- `randint` stand-in: for every generator state the draw lies in [lo, hi] -/
theorem randInt_range (lo hi : Int) (s : BState) (hle : lo ≤ hi) :
    ∃ n : Int, ∃ s', randInt lo hi s = .ok (.dec (Dec.ofInt n) true, s') ∧ lo ≤ n ∧ n ≤ hi := by
  have hnot : ¬ (lo > hi) := by omega
  refine ⟨lo + (((lcgHigh (lcgNext s.rng)) % (hi - lo + 1).toNat : Nat) : Int), { s with rng := lcgNext s.rng }, ?_, ?_, ?_⟩
  · simp [randInt, hnot, ret]
  · omega
  · have hpos : 0 < (hi - lo + 1).toNat := by omega
    have := Nat.mod_lt (lcgHigh (lcgNext s.rng)) hpos
    omega

/-- `rand(a, b)` for integer bounds a ≤ b of any numeric type the language's `int()` accepts:
    the result is the integer n as a Decimal with a ≤ n ≤ b — for every generator state -/
theorem rand_ab_range (a b : Val) (lo hi : Int) (s : BState)
    (ha : pyInt a = .ok lo) (hb : pyInt b = .ok hi) (hle : lo ≤ hi) :
    ∃ n : Int, ∃ s', b_rand [a, b] s = .ok (.dec (Dec.ofInt n) true, s') ∧ lo ≤ n ∧ n ≤ hi := by
  obtain ⟨n, s', h, h1, h2⟩ := randInt_range lo hi s hle
  refine ⟨n, s', ?_, h1, h2⟩
  cases a <;> cases b <;> simp_all [b_rand]

/-- a == b: the only possible result is a -/
theorem rand_aa (a : Val) (lo : Int) (s : BState) (ha : pyInt a = .ok lo) :
    ∃ s', b_rand [a, a] s = .ok (.dec (Dec.ofInt lo) true, s') := by
  obtain ⟨n, s', h, h1, h2⟩ := rand_ab_range a a lo lo s ha ha (Int.le_refl _)
  have : n = lo := by omega
  subst this
  exact ⟨s', h⟩

/-- the language's own numbers are accepted as bounds (true since the fix of D5): an integral
    decimal literal casts to its integer value -/
theorem decimal_bound_accepted (d : Dec) (c : Bool) : pyInt (.dec d c) = .ok d.toInt := rfl

/-- `random.choice` stand-in returns an element and leaves the heap alone -/
theorem randChoice_member (xs : List Val) (s : BState) (v : Val) (s' : BState)
    (h : randChoice xs s = .ok (v, s')) : v ∈ xs ∧ s'.heap = s.heap := by
  unfold randChoice at h
  split at h
  · simp at h
  · simp only [] at h
    split at h
    · rename_i w hw
      simp [ret] at h
      obtain ⟨rfl, rfl⟩ := h
      exact ⟨List.mem_of_getElem? hw, rfl⟩
    · simp [U] at h

/-- `rand(list)` on a list returns one of its elements and changes no object -/
theorem rand_list_member (a : Nat) (xs : List Val) (s : BState) (v : Val) (s' : BState)
    (hg : s.heap.get? a = some (.list xs))
    (h : b_rand [.ref a] s = .ok (v, s')) : v ∈ xs ∧ s'.heap = s.heap := by
  simp only [b_rand, hg] at h
  exact randChoice_member xs s v s' h

/-- `shuffle(list)` returns a NEW list object and leaves every existing object — in particular
    its argument — exactly as it was -/
theorem shuffle_new_list_arg_unchanged (a : Nat) (xs : List Val) (s : BState) (v : Val) (s' : BState)
    (hg : s.heap.get? a = some (.list xs))
    (h : b_shuffle [.ref a] s = .ok (v, s')) :
    v = .ref s.heap.size ∧ (∀ b, b < s.heap.size → s'.heap.get? b = s.heap.get? b) ∧
    ∃ ys, s'.heap.get? s.heap.size = some (.list ys) ∧ ys.length = xs.length := by
  simp only [b_shuffle, hg, allocList, Heap.alloc] at h
  simp at h
  obtain ⟨rfl, rfl⟩ := h
  refine ⟨rfl, ?_, ?_⟩
  · intro b hb
    simp [Heap.get?, Array.getElem?_push, Nat.ne_of_lt hb]
  · -- the Fisher–Yates loop only swaps: the length is invariant
    have key : ∀ (n : Nat) (l : List Val) (r : Nat), (b_shuffle.go n l r).1.length = l.length := by
      intro n
      induction n with
      | zero => intro l r; rfl
      | succ i ih =>
        intro l r
        simp only [b_shuffle.go]
        split
        · rw [ih]; simp
        · rfl
    exact ⟨(b_shuffle.go (xs.length - 1) xs s.rng).1, by simp [Heap.get?], key _ _ _⟩

/-- **[B] rand() ∈ [0, 1)** for every generator state: a non-negative decimal `c · 10^(-k)` with `c < 10^k`;
    no object changes -/
theorem rand0_range (s : BState) :
    ∃ (c k : Nat) (s' : BState), b_rand [] s = .ok (.dec { neg := false, coeff := c, exp := -(k : Int) } true, s') ∧
      c < 10 ^ k ∧ s'.heap = s.heap := by
  obtain ⟨c, k, s', h, hlt, hh⟩ := randUnit_range s
  exact ⟨c, k, s', by simpa [b_rand] using h, hlt, hh⟩

/-- **[B] shuffle returns a permutation** of its argument (as a new list), for every generator state -/
theorem shuffle_is_permutation (a : Nat) (xs : List Val) (s : BState) (v : Val) (s' : BState)
    (hg : s.heap.get? a = some (.list xs))
    (h : b_shuffle [.ref a] s = .ok (v, s')) :
    ∃ ys, s'.heap.get? s.heap.size = some (.list ys) ∧ v = .ref s.heap.size ∧ List.Perm ys xs := by
  simp only [b_shuffle, hg, allocList, Heap.alloc] at h
  simp at h
  obtain ⟨rfl, rfl⟩ := h
  exact ⟨(b_shuffle.go (xs.length - 1) xs s.rng).1, by simp [Heap.get?], rfl, shuffle_go_perm _ _ _⟩

end SqProps.C19
