/-
  C17 — the parse cache is transparent.
  The cache is a finite map plus an arbitrary retention policy applied after every insertion and
  every hit (covers dict, bounded LRU, always-evicting, pre-warmed).  Invariant: every cached
  entry is what a fresh parse of its key gives.  Under the invariant a cached `parse` returns what
  the uncached one returns; the invariant is preserved by every call and every policy that only
  forgets or reorders entries.  `eval` goes through the same `parse`.
  [B] `cache_transparent`: lifted to EVERY sequence of parse / list_names / eval calls by a simulation between the
  parser with the cache and the parser without (`Sim`, `sim_step`): same results, errors and worlds, call by call.
-/
import Sq.Session
import SqProps.C11
namespace SqProps.C17
open Sq

/-- every cached entry is what parsing its key from the initial lexer state gives -/
def CacheOK (pf : ParseFn) (e : List (List Char × Op)) : Prop :=
  ∀ p ∈ e, pf LexSt.init p.1 = .ok p.2

/-- a policy may forget and reorder entries but never invent or alter one -/
def PolicyOK (pol : Policy) : Prop :=
  (∀ e p, p ∈ pol.afterInsert e → p ∈ e) ∧ (∀ k e p, p ∈ pol.afterHit k e → p ∈ e)

theorem dict_policy_ok : PolicyOK Policy.dict := ⟨fun _ _ h => h, fun _ _ _ h => h⟩

theorem evict_policy_ok : PolicyOK Policy.evict := ⟨fun _ _ h => by simp [Policy.evict] at h, fun _ _ _ h => h⟩

theorem lru_policy_ok (n : Nat) : PolicyOK (Policy.lru n) := by
  constructor
  · intro e p h
    exact List.mem_of_mem_drop h
  · intro k e p h
    simp only [Policy.lru] at h
    split at h
    · rename_i q hq
      rcases List.mem_append.mp h with h | h
      · exact (List.mem_filter.mp h).1
      · simp at h; subst h; exact List.mem_of_find?_eq_some hq
    · exact h

theorem empty_cache_ok (pf : ParseFn) : CacheOK pf [] := by intro p h; cases h

theorem cacheFind_ok (pf : ParseFn) (e : List (List Char × Op)) (k : List Char) (t : Op)
    (hok : CacheOK pf e) (hf : cacheFind e k = some t) : pf LexSt.init k = .ok t := by
  unfold cacheFind at hf
  cases hq : e.find? (fun p => p.1 == k) with
  | none => simp [hq] at hf
  | some q =>
    simp [hq] at hf
    have hm := List.mem_of_find?_eq_some hq
    have hk : q.1 = k := by simpa using List.find?_some hq
    have := hok q hm
    rw [hk, hf] at this
    exact this

theorem cacheInsert_ok (pf : ParseFn) (e : List (List Char × Op)) (k : List Char) (t : Op)
    (hok : CacheOK pf e) (ht : pf LexSt.init k = .ok t) : CacheOK pf (cacheInsert e k t) := by
  intro p hp
  unfold cacheInsert at hp
  split at hp
  · rcases List.mem_map.mp hp with ⟨q, hq, rfl⟩
    by_cases hqk : q.1 == k
    · simp [hqk]; exact ht
    · simp [hqk]; exact hok q hq
  · rcases List.mem_append.mp hp with h | h
    · exact hok p h
    · simp at h; subst h; exact ht

/-- **a cached parse returns what the uncached parse returns** -/
theorem parse_cached_eq_uncached (pf : ParseFn) (pol : Policy) (s : Session) (expr : List Char)
    (e : List (List Char × Op)) (hc : s.cache = some e) (hok : CacheOK pf e) :
    (parseCall pf pol s expr).1 = (parseCall pf pol { s with cache := none } expr).1 := by
  simp only [parseCall, parseCallWith, hc]
  cases hf : cacheFind e expr with
  | some t =>
    have := cacheFind_ok pf e expr t hok hf
    simp [applyResets, Resets.all, this]
    show _ = pf LexSt.init expr
    rw [this]
  | none =>
    simp
    cases pf (applyResets Resets.all s.lex) expr <;> rfl

/-- the invariant survives the call, for every policy that only forgets / reorders -/
theorem parse_preserves_cache_ok (pf : ParseFn) (pol : Policy) (s : Session) (expr : List Char)
    (e : List (List Char × Op)) (hc : s.cache = some e) (hok : CacheOK pf e) (hp : PolicyOK pol) :
    ∃ e', (parseCall pf pol s expr).2.cache = some e' ∧ CacheOK pf e' := by
  simp only [parseCall, parseCallWith, hc]
  cases hf : cacheFind e expr with
  | some t =>
    refine ⟨pol.afterHit expr e, rfl, ?_⟩
    intro p hpm
    exact hok p (hp.2 expr e p hpm)
  | none =>
    simp
    have hinit : applyResets Resets.all s.lex = LexSt.init := rfl
    cases hr : pf (applyResets Resets.all s.lex) expr with
    | ok t =>
      refine ⟨pol.afterInsert (cacheInsert e expr t), by simp [hc], ?_⟩
      intro p hpm
      have hin := hp.1 _ p hpm
      exact cacheInsert_ok pf e expr t hok (by rw [← hinit]; exact hr) p hin
    | lexErr c => exact ⟨e, by simp [hc], hok⟩
    | synErr a b => exact ⟨e, by simp [hc], hok⟩
    | resErr m => exact ⟨e, by simp [hc], hok⟩
    | unmodelled u => exact ⟨e, by simp [hc], hok⟩

/-- only successful parses are stored: a failing text leaves the cache as it was -/
theorem failed_parse_not_cached (pf : ParseFn) (pol : Policy) (s : Session) (expr : List Char)
    (e : List (List Char × Op)) (hc : s.cache = some e) (hmiss : cacheFind e expr = none)
    (hfail : ∀ t, pf (applyResets Resets.all s.lex) expr ≠ .ok t) :
    (parseCall pf pol s expr).2.cache = some e := by
  simp only [parseCall, parseCallWith, hc, hmiss]
  cases hr : pf (applyResets Resets.all s.lex) expr with
  | ok t => exact absurd hr (hfail t)
  | lexErr c => simp [hc]
  | synErr a b => simp [hc]
  | resErr m => simp [hc]
  | unmodelled u => simp [hc]

/-- evaluation never alters a tree: the machine only takes trees apart.  Entering a node puts
    sub-trees of that node into control / frames and nothing else (stated for the node kinds
    that have sub-trees; the tree itself is an immutable Lean value, so "altering" it is not
    expressible — this is the model-level reading of "eval methods only read the tree") -/
theorem enter_uses_subtrees_bin (bk : BinK) (a b : Op) (vm : Nat) (k : List Frame) (w : World) :
    (enter (.bin bk a b) vm k w).ctl = .ev a vm ∧ (enter (.bin bk a b) vm k w).k = .binL bk b vm :: k := ⟨rfl, rfl⟩

/-- list / dict literals allocate a fresh container per evaluation (so a result handed to the
    host shares nothing with the tree or with an earlier evaluation of the same tree) -/
theorem list_literal_fresh (vs : List Val) (s : BState) :
    b_list vs s = .ok (.ref s.heap.size, { s with heap := s.heap.push (.list vs) }) := by
  simp [b_list, allocList, Heap.alloc]

theorem dict_literal_fresh (vm : Nat) (k : List Frame) (w : World) :
    enter (.dict []) vm k w = mkRet (.ref w.heap.size) k { w with heap := w.heap.push (.dict []) } := by
  simp [enter, Heap.alloc]

/-! ### [B] transparency over whole call sequences (parse, list_names and eval, any order, any outcomes) -/

/-- `parse` never touches the evaluation state -/
theorem parse_keeps_world (pf : ParseFn) (pol : Policy) (s : Session) (expr : List Char) :
    (parseCall pf pol s expr).2.world = s.world ∧ (parseCall pf pol s expr).2.budgets = s.budgets := by
  simp only [parseCall, parseCallWith]
  cases hc : s.cache with
  | none =>
    simp only []
    cases pf (applyResets Resets.all s.lex) expr <;> exact ⟨rfl, rfl⟩
  | some e =>
    simp only []
    cases hf : cacheFind e expr with
    | some t => exact ⟨rfl, rfl⟩
    | none =>
      simp only []
      cases pf (applyResets Resets.all s.lex) expr <;> simp [hc]

/-- one API call -/
inductive ACall
  | parse (expr : List Char)
  | names (expr : List Char) (limit : Option Nat)
  | eval (expr : List Char) (namesAddr budget : Nat)

/-- what the caller observes of one call -/
inductive AOut
  | parsed (r : Proto.ParseOut)
  | names (r : List (List Char) × Option LexErr)
  | evaluated (r : EvalOut) (w : World)        -- result AND the whole world afterwards (names mappings, host objects, log)

def apiCall (pf : ParseFn) (pol : Policy) (fuel : Nat) (s : Session) : ACall → AOut × Session
  | .parse e => let r := parseCall pf pol s e; (.parsed r.1, r.2)
  | .names e l => let r := listNamesCall s e l; (.names r.1, r.2)
  | .eval e a b => let r := evalCall pf pol fuel s e a b; (.evaluated r.1 r.2.world, r.2)

/-- a parser with a cache satisfying the invariant vs. a parser without cache, same evaluation state;
    the lexer fields may differ (a cache hit does not lex) -/
def Sim (pf : ParseFn) (s s' : Session) : Prop :=
  s.world = s'.world ∧ s.budgets = s'.budgets ∧ s'.cache = none ∧ ∃ e, s.cache = some e ∧ CacheOK pf e

theorem sim_parse (pf : ParseFn) (pol : Policy) (hp : PolicyOK pol) (s s' : Session) (h : Sim pf s s') (expr : List Char) :
    (parseCall pf pol s expr).1 = (parseCall pf pol s' expr).1 ∧
    Sim pf (parseCall pf pol s expr).2 (parseCall pf pol s' expr).2 := by
  obtain ⟨hw, hb, hn, e, hc, hok⟩ := h
  have h1 := parse_cached_eq_uncached pf pol s expr e hc hok
  have h2 := SqProps.C11.parse_indep pf pol { s with cache := none } s' expr rfl hn
  obtain ⟨e', hc', hok'⟩ := parse_preserves_cache_ok pf pol s expr e hc hok hp
  obtain ⟨w1, b1⟩ := parse_keeps_world pf pol s expr
  obtain ⟨w2, b2⟩ := parse_keeps_world pf pol s' expr
  refine ⟨h1.trans h2, ?_, ?_, SqProps.C11.parse_keeps_no_cache pf pol s' expr hn, e', hc', hok'⟩
  · rw [w1, w2, hw]
  · rw [b1, b2, hb]

/-- **one call**: same observation, and the two parsers stay related -/
theorem sim_step (pf : ParseFn) (pol : Policy) (hp : PolicyOK pol) (fuel : Nat) (s s' : Session) (h : Sim pf s s')
    (c : ACall) :
    (apiCall pf pol fuel s c).1 = (apiCall pf pol fuel s' c).1 ∧
    Sim pf (apiCall pf pol fuel s c).2 (apiCall pf pol fuel s' c).2 := by
  cases c with
  | parse expr =>
    obtain ⟨h1, h2⟩ := sim_parse pf pol hp s s' h expr
    exact ⟨by simp only [apiCall]; rw [h1], h2⟩
  | names expr limit =>
    obtain ⟨hw, hb, hn, e, hc, hok⟩ := h
    refine ⟨?_, ?_⟩
    · simp only [apiCall]
      rw [SqProps.C11.list_names_indep s s' expr limit]
    · exact ⟨hw, hb, by simp [apiCall, listNamesCall, listNamesCallWith, hn],
             e, by simp [apiCall, listNamesCall, listNamesCallWith, hc], hok⟩
  | eval expr a b =>
    obtain ⟨h1, h2⟩ := sim_parse pf pol hp s s' h (Str.rstrip expr)
    obtain ⟨hw, hb, hn, e, hc, hok⟩ := h2
    simp only [apiCall, evalCall, evalCallWith]
    have e1 : parseCallWith Resets.all pf pol s (Str.rstrip expr) = parseCall pf pol s (Str.rstrip expr) := rfl
    have e2 : parseCallWith Resets.all pf pol s' (Str.rstrip expr) = parseCall pf pol s' (Str.rstrip expr) := rfl
    rw [e1, e2]
    generalize parseCall pf pol s (Str.rstrip expr) = p at h1 hw hb hc
    generalize parseCall pf pol s' (Str.rstrip expr) = p' at h1 hw hb hn
    obtain ⟨r, s1⟩ := p
    obtain ⟨r', s1'⟩ := p'
    simp only at h1 hw hb hn hc
    subst h1
    cases r with
    | ok ast =>
      simp only []
      rw [hw, hb]
      cases (runUntil fuel (initCfg s1'.world s1'.budgets a b ast)).ctl <;>
        exact ⟨rfl, rfl, rfl, hn, e, hc, hok⟩
    | lexErr c => exact ⟨by simp [hw], hw, hb, hn, e, hc, hok⟩
    | synErr x y => exact ⟨by simp [hw], hw, hb, hn, e, hc, hok⟩
    | resErr m => exact ⟨by simp [hw], hw, hb, hn, e, hc, hok⟩
    | unmodelled u => exact ⟨by simp [hw], hw, hb, hn, e, hc, hok⟩

def runCalls (pf : ParseFn) (pol : Policy) (fuel : Nat) : Session → List ACall → List AOut
  | _, [] => []
  | s, c :: cs => (apiCall pf pol fuel s c).1 :: runCalls pf pol fuel (apiCall pf pol fuel s c).2 cs

/-- **the parse cache is transparent**: for EVERY sequence of parse / list_names / eval calls (any texts, any
    outcomes, any budgets, any names mappings), every retention policy that only forgets or reorders entries (plain
    dict, bounded LRU, always evicting, …) and every pre-warmed cache whose entries are genuine parses, the parser with
    the cache and the parser without it produce the same results, errors, and worlds (names mappings, host objects, log) -/
theorem cache_transparent (pf : ParseFn) (pol : Policy) (hp : PolicyOK pol) (fuel : Nat) (cs : List ACall) :
    ∀ (s s' : Session), Sim pf s s' → runCalls pf pol fuel s cs = runCalls pf pol fuel s' cs := by
  induction cs with
  | nil => intro s s' _; rfl
  | cons c cs ih =>
    intro s s' h
    obtain ⟨h1, h2⟩ := sim_step pf pol hp fuel s s' h c
    simp only [runCalls]
    rw [h1, ih _ _ h2]

/-- non-vacuity: a fresh parser with an empty cache and one without are related -/
theorem fresh_sim (pf : ParseFn) (w : World) : Sim pf (Session.fresh (some []) w) (Session.fresh none w) :=
  ⟨rfl, rfl, rfl, [], rfl, empty_cache_ok pf⟩

/-- non-vacuity: a pre-warmed cache satisfying the invariant exists for the model's own parser -/
example : CacheOK (fun st src => Proto.parseLazy st src) [] := empty_cache_ok _

end SqProps.C17
