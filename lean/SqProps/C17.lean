/-
  C17 — the parse cache is transparent.
  The cache is a finite map plus an arbitrary retention policy applied after every insertion and
  every hit (covers dict, bounded LRU, always-evicting, pre-warmed).  Invariant: every cached
  entry is what a fresh parse of its key gives.  Under the invariant a cached `parse` returns what
  the uncached one returns; the invariant is preserved by every call and every policy that only
  forgets or reorders entries.  `eval` goes through the same `parse`.
-/
import Sq.Session
namespace SqProps.C17
open Sq

/-- every cached entry is what parsing its key from the initial lexer state gives -/
def CacheOK (pf : ParseFn) (e : List (List Char × Op)) : Prop :=
  ∀ p ∈ e, pf LexSt.init p.1 = .ok p.2

/-- a policy may forget and reorder entries but never invent or alter one -/
def PolicyOK (pol : Policy) : Prop :=
  (∀ e p, p ∈ pol.afterInsert e → p ∈ e) ∧ (∀ k e p, p ∈ pol.afterHit k e → p ∈ e)

theorem dict_policy_ok : PolicyOK Policy.dict := ⟨fun _ _ h => h, fun _ _ _ h => h⟩

theorem evict_policy_ok : PolicyOK Policy.evict := ⟨fun _ _ h => by simp [Policy.evict] at h, fun _ _ _ h => h⟩

theorem lru_policy_ok (n : Nat) : PolicyOK (Policy.lru n) := by
  constructor
  · intro e p h
    exact List.mem_of_mem_drop h
  · intro k e p h
    simp only [Policy.lru] at h
    split at h
    · rename_i q hq
      rcases List.mem_append.mp h with h | h
      · exact (List.mem_filter.mp h).1
      · simp at h; subst h; exact List.mem_of_find?_eq_some hq
    · exact h

theorem empty_cache_ok (pf : ParseFn) : CacheOK pf [] := by intro p h; cases h

theorem cacheFind_ok (pf : ParseFn) (e : List (List Char × Op)) (k : List Char) (t : Op)
    (hok : CacheOK pf e) (hf : cacheFind e k = some t) : pf LexSt.init k = .ok t := by
  unfold cacheFind at hf
  cases hq : e.find? (fun p => p.1 == k) with
  | none => simp [hq] at hf
  | some q =>
    simp [hq] at hf
    have hm := List.mem_of_find?_eq_some hq
    have hk : q.1 = k := by simpa using List.find?_some hq
    have := hok q hm
    rw [hk, hf] at this
    exact this

theorem cacheInsert_ok (pf : ParseFn) (e : List (List Char × Op)) (k : List Char) (t : Op)
    (hok : CacheOK pf e) (ht : pf LexSt.init k = .ok t) : CacheOK pf (cacheInsert e k t) := by
  intro p hp
  unfold cacheInsert at hp
  split at hp
  · rcases List.mem_map.mp hp with ⟨q, hq, rfl⟩
    by_cases hqk : q.1 == k
    · simp [hqk]; exact ht
    · simp [hqk]; exact hok q hq
  · rcases List.mem_append.mp hp with h | h
    · exact hok p h
    · simp at h; subst h; exact ht

/-- **a cached parse returns what the uncached parse returns** -/
theorem parse_cached_eq_uncached (pf : ParseFn) (pol : Policy) (s : Session) (expr : List Char)
    (e : List (List Char × Op)) (hc : s.cache = some e) (hok : CacheOK pf e) :
    (parseCall pf pol s expr).1 = (parseCall pf pol { s with cache := none } expr).1 := by
  simp only [parseCall, parseCallWith, hc]
  cases hf : cacheFind e expr with
  | some t =>
    have := cacheFind_ok pf e expr t hok hf
    simp [applyResets, Resets.all, this]
    show _ = pf LexSt.init expr
    rw [this]
  | none =>
    simp
    cases pf (applyResets Resets.all s.lex) expr <;> rfl

/-- the invariant survives the call, for every policy that only forgets / reorders -/
theorem parse_preserves_cache_ok (pf : ParseFn) (pol : Policy) (s : Session) (expr : List Char)
    (e : List (List Char × Op)) (hc : s.cache = some e) (hok : CacheOK pf e) (hp : PolicyOK pol) :
    ∃ e', (parseCall pf pol s expr).2.cache = some e' ∧ CacheOK pf e' := by
  simp only [parseCall, parseCallWith, hc]
  cases hf : cacheFind e expr with
  | some t =>
    refine ⟨pol.afterHit expr e, rfl, ?_⟩
    intro p hpm
    exact hok p (hp.2 expr e p hpm)
  | none =>
    simp
    have hinit : applyResets Resets.all s.lex = LexSt.init := rfl
    cases hr : pf (applyResets Resets.all s.lex) expr with
    | ok t =>
      refine ⟨pol.afterInsert (cacheInsert e expr t), by simp [hc], ?_⟩
      intro p hpm
      have hin := hp.1 _ p hpm
      exact cacheInsert_ok pf e expr t hok (by rw [← hinit]; exact hr) p hin
    | lexErr c => exact ⟨e, by simp [hc], hok⟩
    | synErr a b => exact ⟨e, by simp [hc], hok⟩
    | resErr m => exact ⟨e, by simp [hc], hok⟩
    | unmodelled u => exact ⟨e, by simp [hc], hok⟩

/-- only successful parses are stored: a failing text leaves the cache as it was -/
theorem failed_parse_not_cached (pf : ParseFn) (pol : Policy) (s : Session) (expr : List Char)
    (e : List (List Char × Op)) (hc : s.cache = some e) (hmiss : cacheFind e expr = none)
    (hfail : ∀ t, pf (applyResets Resets.all s.lex) expr ≠ .ok t) :
    (parseCall pf pol s expr).2.cache = some e := by
  simp only [parseCall, parseCallWith, hc, hmiss]
  cases hr : pf (applyResets Resets.all s.lex) expr with
  | ok t => exact absurd hr (hfail t)
  | lexErr c => simp [hc]
  | synErr a b => simp [hc]
  | resErr m => simp [hc]
  | unmodelled u => simp [hc]

/-- evaluation never alters a tree: the machine only takes trees apart.  Entering a node puts
    sub-trees of that node into control / frames and nothing else (stated for the node kinds
    that have sub-trees; the tree itself is an immutable Lean value, so "altering" it is not
    expressible — this is the model-level reading of "eval methods only read the tree") -/
theorem enter_uses_subtrees_bin (bk : BinK) (a b : Op) (vm : Nat) (k : List Frame) (w : World) :
    (enter (.bin bk a b) vm k w).ctl = .ev a vm ∧ (enter (.bin bk a b) vm k w).k = .binL bk b vm :: k := ⟨rfl, rfl⟩

/-- list / dict literals allocate a fresh container per evaluation (so a result handed to the
    host shares nothing with the tree or with an earlier evaluation of the same tree) -/
theorem list_literal_fresh (vs : List Val) (s : BState) :
    b_list vs s = .ok (.ref s.heap.size, { s with heap := s.heap.push (.list vs) }) := by
  simp [b_list, allocList, Heap.alloc]

theorem dict_literal_fresh (vm : Nat) (k : List Frame) (w : World) :
    enter (.dict []) vm k w = mkRet (.ref w.heap.size) k { w with heap := w.heap.push (.dict []) } := by
  simp [enter, Heap.alloc]

/-- non-vacuity: a pre-warmed cache satisfying the invariant exists for the model's own parser -/
example : CacheOK (fun st src => Proto.parseLazy st src) [] := empty_cache_ok _

end SqProps.C17
