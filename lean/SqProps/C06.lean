/-
  C06 — the parser accepts exactly the grammar and groups by the operator table.
  [A] theorems: the binding powers used by the parser model ARE the 13 declared levels with their
  associativity (with SqTie.prec_tie this pins them to `lexer.precedence`), and the operator loop
  decides by that table alone.  Counterexamples D7 / D8 (findings) are machine-checked on the
  model and replayed on the implementation by the monitor.  [B] `complete_expr`: completeness of the
  parser w.r.t. the levelled derivation relation for ALL expressions (unbounded; SqLemmas/ParseComplete).
  `complete`: the same for whole programs (statements, separators) — every program the relation derives is
  accepted by `parseTokens` with exactly the derived tree.  `sound_*`: the converse — whatever the parser
  accepts (with any fuel) the relation derives, with exactly the returned tree (SqLemmas/ParseSound).  Hence
  `parser_accepts_exactly_the_grammar`: parseTokens ts = ok (code out) ↔ RCode [] ts out.
  `accepted_is_derivable_in_published_grammar` (SqLemmas/ParseCFG): the levelled relation — hence everything the parser
  accepts — lies inside the context-free language of the 77 productions generated from rules.py.  The converse inclusion
  is false by design (the operator table rejects `a < b < c`) and by the findings D7 / D8.
-/
import Sq.Proto
import SqLemmas.ParseComplete
import SqLemmas.ParseSound
import SqLemmas.ParseCFG
namespace SqProps.C06
open Sq

/-- the levels and associativities of the binary operators, as read off the table -/
theorem prec_levels :
    levelOf (some .OR) = some (3, .left) ∧ levelOf (some .AND) = some (4, .left) ∧
    levelOf (some .EQ) = some (5, .nonassoc) ∧ levelOf (some .NE) = some (5, .nonassoc) ∧
    levelOf (some .GT) = some (5, .nonassoc) ∧ levelOf (some .LT) = some (5, .nonassoc) ∧
    levelOf (some .GTE) = some (5, .nonassoc) ∧ levelOf (some .LTE) = some (5, .nonassoc) ∧
    levelOf (some .IN) = some (5, .nonassoc) ∧
    levelOf (some .PLUS) = some (6, .left) ∧ levelOf (some .MINUS) = some (6, .left) ∧
    levelOf (some .TIMES) = some (7, .left) ∧ levelOf (some .DIVIDE) = some (7, .left) ∧
    levelOf (some .POWER) = some (8, .right) ∧ levelOf (some .PIPE) = some (9, .left) ∧
    levelOf (some .DOT) = some (10, .left) ∧ levelOf (some .NOT) = some (11, .right) ∧
    levelOf none = some (12, .right) ∧ levelOf (some .LBRACKET) = some (13, .left) := by
  repeat' constructor
  all_goals decide

/-- or < and < comparisons/in < + - < * / < ** < pipe < method < not < unary minus < index -/
theorem level_order : (3 : Nat) < 4 ∧ 4 < 5 ∧ 5 < 6 ∧ 6 < 7 ∧ 7 < 8 ∧ 8 < 9 ∧ 9 < 10 ∧ 10 < 11 ∧
    notLevel = 11 ∧ uminusLevel = 12 ∧ inLevel = 5 := by decide

/-- **the operator loop decides by the table**: with a complete left operand in a context of
    level `m` and associativity `a`, a following operator `p` of level `l`, associativity `la`
    is consumed iff `l > m`, or `l = m` and the context is right-associative; at an equal
    non-associative level the input is rejected; otherwise the loop stops (the operator belongs
    to an enclosing context). -/
theorem binloop_decides_by_table (m : Nat) (a : Assoc) (p : Tk) (l : Nat) (la : Assoc)
    (hl : opLevel p = some (l, la)) :
    decide' m a p =
      if l > m ∨ (l = m ∧ a = .right) then .take l la
      else if l = m ∧ a = .nonassoc then .reject else .stop := by
  simp [decide', hl]

/-- a token that is not an operator / suffix / `if` ends the expression -/
theorem non_operator_stops (m : Nat) (a : Assoc) (p : Tk) (h : opLevel p = none) :
    decide' m a p = .stop := by
  simp [decide', h]

/-- every binary operator sits below level 9 (pipe), i.e. suffixes bind tighter than every binary
    operator; unary minus and `not` bind tighter than method / pipe suffixes but looser than indexing -/
theorem binary_below_suffixes (t : Tk) (ht : (binKind t).isSome = true) :
    ((levelOf (some t)).map (·.1)).all (· < 9) = true := by
  cases t <;> first | decide | (simp [binKind] at ht)

theorem unary_between_suffix_and_index :
    (9 < notLevel ∧ 10 < notLevel ∧ 10 < uminusLevel) ∧ (uminusLevel < 13 ∧ notLevel < 13) := by decide

/-! ### completeness w.r.t. the levelled derivation relation (SqLemmas/ParseSpec.lean)

`RExpr m a ts t b nxt` is the declarative statement of "grammar + operator table": one constructor per
surface form, the table's side condition `decide'` on every operator a context takes, operands read at
the operator's own level, suffixes (`.f(…)`, `| f(…)`, `| f`, `[…]`) taken by the same loop, unary minus /
`not` reading their operand at levels 12 / 11, conditional and lambda bodies at level 0, optional trailing
commas, redundant parentheses.  The theorem: whatever the relation says reads as `t`, the parser parses
back to exactly `t` — for every continuation whose first token has the recorded look-ahead type. -/

/-- **complete** (expressions): unbounded — every derivation, any depth, any continuation -/
theorem complete_expr {m : Nat} {a : Assoc} {ts : List Token} {t : Op} {b : Bool} {nxt : LA}
    (h : RExpr m a ts t b nxt) :
    ∃ n, n ≤ 2 * ts.length + 1 ∧
      ∀ f, n ≤ f → ∀ tl, peekTy tl = nxt → pExpr f m a (ts ++ tl) = .ok ((t, b), tl) := cExpr h

/-- **complete** (statements): assignment, augmented assignment, `del e[k]`, `e[k] = v`, `e[k] op= v`,
    expression statements and the empty statement -/
theorem complete_stmt {ts : List Token} {s : Option Op} {nxt : LA} (h : RStmt ts s nxt) :
    ∀ f, 2 * ts.length + 1 ≤ f → ∀ tl, peekTy tl = nxt → pStatement f (ts ++ tl) = .ok (s, tl) := cStmt h

/-- **complete** (programs): every token list the levelled grammar derives as a program is accepted by the
    parser — with the fuel `parseTokens` itself supplies — and yields exactly the derived tree -/
theorem complete_program {ts : List Token} {out : List Op} (h : RCode [] ts out) :
    parseTokens ts = .ok (.code out) := complete h

/-- **sound** (expressions): whatever `pExpr` returns — any fuel, any context, any continuation — is a derivation
    of the consumed prefix, with the look-ahead the parser actually saw -/
theorem sound_expr {f m : Nat} {a : Assoc} {ts : List Token} {t : Op} {b : Bool} {tl : List Token}
    (h : pExpr f m a ts = .ok ((t, b), tl)) : ∃ ts0, ts = ts0 ++ tl ∧ RExpr m a ts0 t b (peekTy tl) := sExpr h

/-- **sound** (programs): an accepted token list is derivable, with exactly the returned tree -/
theorem sound_program {ts : List Token} {tree : Op} (h : parseTokens ts = .ok tree) :
    ∃ out, tree = .code out ∧ RCode [] ts out := sound h

/-- **the parser accepts exactly the levelled grammar, with exactly the derived tree**: for every token list
    and every tree -/
theorem parser_accepts_exactly_the_grammar (ts : List Token) (out : List Op) :
    parseTokens ts = .ok (.code out) ↔ RCode [] ts out := parse_iff ts out

/-- rejection is exactly non-derivability: the parser reports an error iff the relation derives no program -/
theorem rejected_iff_not_derivable (ts : List Token) :
    (∃ e, parseTokens ts = .error e) ↔ ¬ ∃ out, RCode [] ts out := by
  constructor
  · rintro ⟨e, he⟩ ⟨out, hr⟩
    rw [complete hr] at he
    cases he
  · intro hn
    cases hp : parseTokens ts with
    | error e => exact ⟨e, rfl⟩
    | ok tree =>
      obtain ⟨out, _, hr⟩ := sound hp
      exact absurd ⟨out, hr⟩ hn

/-- **[B] accepted ⇒ derivable in the published grammar**: every token list the parser accepts is a sentence of the
    context-free grammar whose productions are `Sq.cfg` — by `SqTie.cfg_is_generated` exactly the 77 productions PLY
    builds from /repo's rules.py in this run (`Der "S'"` = derivable from the start symbol; `tys` = the token types) -/
theorem accepted_is_derivable_in_published_grammar {ts : List Token} {tree : Op} (h : parseTokens ts = .ok tree) :
    Der "S'" (tys ts) := accepted_is_grammatical h

/-- … in particular everything the levelled relation derives (it adds only the operator table's choices) -/
theorem levelled_relation_refines_grammar {ts : List Token} {out : List Op} (h : RCode [] ts out) :
    Der "S'" (tys ts) := relation_derives_grammar h

/-- **the tree is unique**: the levelled grammar is unambiguous — two derivations of the same token list as a
    program derive the same tree (both are what the deterministic parser returns) -/
theorem derived_tree_unique {ts : List Token} {out out' : List Op} (h : RCode [] ts out) (h' : RCode [] ts out') :
    out = out' := by
  have e := complete h
  rw [complete h'] at e
  injection e with e
  injection e with e
  exact e.symm

/-- … and likewise for expressions in any context: same tokens, same look-ahead ⇒ same tree -/
theorem derived_expr_unique {m : Nat} {a : Assoc} {ts : List Token} {t t' : Op} {b b' : Bool} {nxt : LA}
    (h : RExpr m a ts t b nxt) (h' : RExpr m a ts t' b' nxt) : t = t' ∧ b = b' := by
  obtain ⟨n, _, hn⟩ := cExpr h
  obtain ⟨n', _, hn'⟩ := cExpr h'
  -- a continuation with the recorded look-ahead
  have ⟨tl, htl⟩ : ∃ tl : List Token, peekTy tl = nxt := by
    cases nxt with
    | none => exact ⟨[], rfl⟩
    | some ty => exact ⟨[{ ty := ty, val := [], pos := 0, line := 0 }], rfl⟩
  have e := hn (n + n') (by omega) tl htl
  rw [hn' (n + n') (by omega) tl htl] at e
  injection e with e
  injection e with e1 _
  injection e1 with e2 e3
  exact ⟨e2.symm, e3.symm⟩

/-- non-vacuity: the relation derives `x = a + b * c ; y` (for any tokens of these types) with the table's
    grouping, so `complete_program` says the parser returns exactly that tree -/
theorem derivation_example {x eq a pl b ti c nl y : Token}
    (hx : x.ty = .NAME) (heq : eq.ty = .ASSIGN) (ha : a.ty = .NAME) (hpl : pl.ty = .PLUS) (hb : b.ty = .NAME)
    (hti : ti.ty = .TIMES) (hc : c.ty = .NAME) (hnl : nl.ty = .NEWLINE) (hy : y.ty = .NAME) :
    RCode [] [x, eq, a, pl, b, ti, c, nl, y]
      [.assign x.val (.bin .add (.name a.val) (.bin .mul (.name b.val) (.name c.val))), .name y.val] := by
  have hmul : RExpr 6 .left ([b] ++ [ti, c]) (.bin .mul (.name b.val) (.name c.val)) false (some .NEWLINE) :=
    RExpr.mk (RPrim.name hb (by simp [peekTy, hti]) (by simp [peekTy, hti]))
      (RSpine.bin (tsr := [c]) (rest := []) (lv := 7) (la := .left) (k := .mul) (by rw [hti]; rfl) (by rw [hti]; rfl)
        (RExpr.mk (ts0 := [c]) (ts := []) (RPrim.name hc (by simp [peekTy]) (by simp [peekTy])) (RSpine.nil rfl))
        (RSpine.nil rfl))
  have hadd : RExpr 0 .right ([a] ++ [pl, b, ti, c]) (.bin .add (.name a.val) (.bin .mul (.name b.val) (.name c.val)))
      false (some .NEWLINE) :=
    RExpr.mk (RPrim.name ha (by simp [peekTy, hpl]) (by simp [peekTy, hpl]))
      (RSpine.bin (tsr := [b, ti, c]) (rest := []) (lv := 6) (la := .left) (k := .add) (by rw [hpl]; rfl) (by rw [hpl]; rfl)
        hmul (RSpine.nil rfl))
  have hy' : RExpr 0 .right ([y] ++ []) (.name y.val) false none :=
    RExpr.mk (RPrim.name hy (by simp [peekTy]) (by simp [peekTy])) (RSpine.nil trivial)
  exact RCode.more (ts := [x, eq, a, pl, b, ti, c]) (RStmt.assign (Or.inr rfl) hx heq hadd) hnl
    (RCode.last (RStmt.expr (Or.inl rfl) hy'))

/-- redundant parentheses never change the tree: if `ts` reads as `e` inside parentheses, then
    `( ts )` reads as the same `e` wherever a primary may stand -/
theorem parens_read_as_inner {lp rp : Token} {ts : List Token} {e : Op} {b : Bool} {la : LA}
    (hl : lp.ty = .LPAREN) (hr : rp.ty = .RPAREN) (h : RExpr 0 .right ts e b (some .RPAREN)) :
    RPrim (lp :: ts ++ [rp]) e la := RPrim.paren hl h hr

/-- the three call styles denote the same call: `r.f(a…)`, `r | f(a…)` continue the spine with the
    very tree `f(r, a…)` that the prefix form builds -/
theorem method_and_pipe_same_tree {m : Nat} {a : Assoc} {l : Op} {b : Bool} {o1 o2 n lp : Token} {lv1 lv2 : Nat}
    {la1 la2 : Assoc} {tsa rest : List Token} {args : List Op} {t : Op} {bt : Bool} {nxt : LA}
    (h1 : o1.ty = .DOT) (d1 : decide' m a .DOT = .take lv1 la1) (h2 : o2.ty = .PIPE) (d2 : decide' m a .PIPE = .take lv2 la2)
    (hn : n.ty = .NAME) (hl : lp.ty = .LPAREN) (ha : RArgs .RPAREN tsa args)
    (hs : RSpine m a (.call n.val (l :: args)) false rest t bt nxt) :
    RSpine m a l b (o1 :: n :: lp :: tsa ++ rest) t bt nxt ∧ RSpine m a l b (o2 :: n :: lp :: tsa ++ rest) t bt nxt :=
  ⟨RSpine.dot h1 d1 hn hl ha hs, RSpine.pipe h2 d2 hn hl ha hs⟩

/-- an operator a context takes continues the spine with its right operand read at the operator's
    OWN level and associativity: this is "groups by the declared levels and associativity" -/
theorem operand_read_at_operator_level {m : Nat} {a : Assoc} {l : Op} {b : Bool} {o : Token} {lv : Nat} {la : Assoc}
    {k : BinK} {tsr rest : List Token} {r : Op} {br : Bool} {t : Op} {bt : Bool} {nxt : LA}
    (hd : decide' m a o.ty = .take lv la) (hk : binKind o.ty = some k)
    (he : RExpr lv la tsr r br ((peekTy rest).or nxt)) (hs : RSpine m a (.bin k l r) false rest t bt nxt) :
    RSpine m a l b (o :: tsr ++ rest) t bt nxt := RSpine.bin hd hk he hs

/-! finite tests inside Lean (labelled as tests, not as the unbounded claim): adjacent-operator
    grouping for a representative of every level pair -/
example : Proto.sameTree "a or b and c" "a or (b and c)" = true := by decide +kernel
example : Proto.sameTree "a and b or c" "(a and b) or c" = true := by decide +kernel
example : Proto.sameTree "a + b * c" "a + (b * c)" = true := by decide +kernel
example : Proto.sameTree "a * b + c" "(a * b) + c" = true := by decide +kernel
example : Proto.sameTree "a - b - c" "(a - b) - c" = true := by decide +kernel
example : Proto.sameTree "a / b * c" "(a / b) * c" = true := by decide +kernel
example : Proto.sameTree "a ** b ** c" "a ** (b ** c)" = true := by decide +kernel
example : Proto.sameTree "a * b ** c" "a * (b ** c)" = true := by decide +kernel
example : Proto.sameTree "a < b + c" "a < (b + c)" = true := by decide +kernel
example : Proto.sameTree "a + b < c" "(a + b) < c" = true := by decide +kernel
example : Proto.sameTree "a and b == c" "a and (b == c)" = true := by decide +kernel
example : Proto.sameTree "a in b or c" "(a in b) or c" = true := by decide +kernel
example : (Proto.outcome "a < b < c").1 = .syn := by decide +kernel          -- non-associative
example : (Proto.outcome "a == b in c").1 = .syn := by decide +kernel
example : Proto.sameTree "a + b.f()" "a + (b.f())" = true := by decide +kernel
example : Proto.sameTree "a ** b | f" "a ** (b | f)" = true := by decide +kernel
example : Proto.sameTree "-a.f()" "(-a).f()" = true := by decide +kernel
example : Proto.sameTree "not a.f()" "(not a).f()" = true := by decide +kernel
example : Proto.sameTree "-a[0]" "-(a[0])" = true := by decide +kernel
example : Proto.sameTree "-a ** b" "(-a) ** b" = true := by decide +kernel
example : Proto.sameTree "a if b else c + d" "a if b else (c + d)" = true := by decide +kernel
example : Proto.sameTree "a + b if c else d" "(a + b) if c else d" = true := by decide +kernel
example : Proto.sameTree "x => a + b" "x => (a + b)" = true := by decide +kernel
example : Proto.sameTree "a + x => b + c" "a + (x => (b + c))" = true := by decide +kernel

/-- D7 (finding): `not in` is entered on the look-ahead NOT, whose level 11 makes the automaton
    shift after any lower operator: `a + b not in c` groups as `a + (b not in c)` although the
    table puts `in` (level 5) below `+` (level 6) -/
theorem not_in_counterexample :
    Proto.sameTree "a + b not in c" "a + (b not in c)" = true ∧
    Proto.sameTree "a + b in c" "(a + b) in c" = true := by decide +kernel

/-- D8 (finding): `(a) => a` is derivable from the published grammar
    (`LPAREN arglist_def RPAREN LAMBDA expression` with `arglist_def -> NAME`) but rejected -/
theorem paren_single_param_counterexample : (Proto.outcome "(a) => a").1 = .syn := by decide +kernel

end SqProps.C06
