/-
  C10 — scoping: innermost-first lookup, host write-back, no leaking lambda scopes.
  [A] the lookup / write / push / pop lemmas of one transition.  [B] `scope_balanced` and corollaries
  (SqLemmas/ScopeLemmas.lean): along EVERY run of the machine — any length, through every builtin, host callback,
  iteration and error path — the scopes beneath the pending lambda-call scopes are exactly the initial ones;
  so after a run that started outside any lambda call, whenever no lambda call is pending (in particular when the
  evaluation has finished or failed) the scope stack of every VM is exactly what it was: parameter scopes vanish.
-/
import Sq.Machine
import SqLemmas.ScopeLemmas
namespace SqProps.C10
open Sq

/-- a name bound in the top scope resolves there, whatever the scopes below hold -/
theorem lookup_innermost_first (h : Heap) (a : Nat) (rest : List Nat) (n : Name) (v : Val)
    (hf : scopeFind h a n = some v) : lookupName h (a :: rest) n = some v := by
  simp [lookupName, hf]

/-- a name not bound in the top scope is looked up in the rest of the stack -/
theorem lookup_falls_through (h : Heap) (a : Nat) (rest : List Nat) (n : Name)
    (hf : scopeFind h a n = none) : lookupName h (a :: rest) n = lookupName h rest n := by
  simp [lookupName, hf]

/-- the builtins are consulted last: with an empty stack of host / call scopes a name resolves to
    the builtin of that name iff it is a key of FUNCTIONS -/
theorem builtins_last (h : Heap) (n : Name) :
    lookupName h [] n = if builtinNames.contains (String.ofList n) then some (.builtin (String.ofList n)) else none := rfl

/-- host bindings override builtins: a single host scope binding `n` wins -/
theorem host_overrides_builtin (h : Heap) (host : Nat) (n : Name) (v : Val)
    (hf : scopeFind h host n = some v) : lookupName h [host] n = some v :=
  lookup_innermost_first h host [] n v hf

/-- writes go to the top scope and change no other object -/
theorem writes_go_to_top (h h' : Heap) (a : Nat) (rest : List Nat) (n : Name) (v : Val)
    (hw : writeTop h (a :: rest) n v = some h') :
    ∀ b, b ≠ a → h'.get? b = h.get? b := by
  intro b hb
  simp only [writeTop] at hw
  split at hw
  · rename_i kvs hg
    injection hw with hw
    subst hw
    simp [Heap.get?, Heap.set, Array.getElem?_setIfInBounds, Ne.symm hb]
  · simp at hw

/-- after a write the top scope binds the name to the written value -/
theorem kvSet_find (kvs : List (Val × Val)) (n : Name) (v : Val) :
    ((kvSet kvs n v).find? (fun kv => keyIsName kv.1 n)).map (·.2) = some v := by
  induction kvs with
  | nil => simp [kvSet, keyIsName]
  | cons kv r ih =>
    obtain ⟨k, v'⟩ := kv
    by_cases hk : keyIsName k n
    · simp [kvSet, hk]
    · simp [kvSet, hk, ih]

/-- a lambda call pushes exactly one fresh scope on the VM the closure captured … -/
theorem call_pushes_scope (fuel : Nat) (ps : List Op) (body : Op) (vmi : Nat) (args : List Val)
    (k : List Frame) (w : World) (kvs : List (Val × Val)) (vm : VM)
    (hb : bindParams ps args [] = some kvs) (hv : w.vm? vmi = some vm) :
    callVal (fuel + 1) (.closure ps body vmi) args k w =
      { ctl := .ev body vmi, k := .popScopeK vmi :: k,
        w := ({ w with heap := w.heap.push (.dict kvs) }).setVM vmi { vm with scopes := w.heap.size :: vm.scopes } } := by
  simp [callVal, callClosure, hb, hv, Heap.alloc]

/-- … and that scope is popped when the call returns … -/
theorem return_pops_scope (vmi : Nat) (v : Val) (k : List Frame) (w : World) (vm : VM)
    (hv : w.vm? vmi = some vm) :
    resume (.popScopeK vmi) v k w = mkRet v k (w.setVM vmi { vm with scopes := vm.scopes.tail }) := by
  simp [resume, hv]

/-- … or raises (the `finally` of make_scope): the error continues to propagate -/
theorem raise_pops_scope (vmi : Nat) (e : PyErr) (k : List Frame) (w : World) (vm : VM)
    (hv : w.vm? vmi = some vm) :
    unwind (.popScopeK vmi) e k w = mkRaise e k (w.setVM vmi { vm with scopes := vm.scopes.tail }) := by
  simp [unwind, hv]

/-- a host callback that catches the error (`try_apply`) resumes the program with `None`;
    scope frames between the raise and the catch have been popped one by one on the way -/
theorem try_catches (e : PyErr) (k : List Frame) (w : World) (h : ∀ s, e ≠ .unmodelled s) :
    unwind .tryK e k w = mkRet .none k { w with log := .caught e.cls :: w.log } := by
  cases e <;> simp_all [unwind]

/-- top-level assignment writes the (copied) value into the top scope of the eval's VM, which
    outside any call is the host's mapping -/
theorem toplevel_assign_writes_host (n : Name) (vmi : Nat) (v v' : Val) (k : List Frame) (w : World)
    (h' h'' : Heap) (vm : VM)
    (hc : deepcopy' w.heap v = .ok (v', h')) (hv : w.vm? vmi = some vm)
    (hw : writeTop h' vm.scopes n v' = some h'') :
    resume (.assignK n vmi) v k w = mkRet .none k { w with heap := h'' } := by
  simp [resume, hc, hv, hw]

/-- **[B] scope_balanced**: for every configuration, every number of steps and every VM state `i`: the scope
    stack of VM `i` minus its `popCount i k` topmost entries (one per pending lambda call on that VM) never changes -/
theorem scope_balanced (n : Nat) (c : Cfg) (i : Nat) :
    bal (run n c).w (run n c).k i = bal c.w c.k i := run_bal n c i

/-- **[B] no leaking lambda scopes**: start anywhere no lambda call on VM `i` is pending (e.g. `initCfg`);
    at every later moment at which none is pending — after any number of lambda calls have returned or raised,
    in particular when the evaluation is over — VM `i` has exactly its original scope stack -/
theorem scopes_restored (n : Nat) (c : Cfg) (i : Nat) (vm vm' : VM)
    (h0 : popCount i c.k = 0) (h1 : popCount i (run n c).k = 0)
    (hv : c.w.vms[i]? = some vm) (hv' : (run n c).w.vms[i]? = some vm') : vm'.scopes = vm.scopes := by
  have := run_bal n c i
  unfold bal at this
  rw [hv, hv', h0, h1] at this
  simpa using this

/-- … and while lambda calls are pending, the original scopes sit exactly beneath the `popCount` call scopes:
    the host's mapping is never removed, replaced or buried deeper than the pending calls -/
theorem host_scope_beneath (n : Nat) (c : Cfg) (i : Nat) (vm vm' : VM)
    (h0 : popCount i c.k = 0)
    (hv : c.w.vms[i]? = some vm) (hv' : (run n c).w.vms[i]? = some vm') :
    vm'.scopes.drop (popCount i (run n c).k) = vm.scopes := by
  have := run_bal n c i
  unfold bal at this
  rw [hv, hv', h0] at this
  simpa using this

/-- the initial configuration of an `eval` call has no pending lambda call, and its VM's only scope is the
    host's names mapping — so the two theorems above apply to every evaluation (non-vacuity) -/
theorem initCfg_balanced (w : World) (bs : List Nat) (namesAddr budget : Nat) (ast : Op) (an : List (Name × Op)) :
    popCount w.vms.length (initCfg w bs namesAddr budget ast an).k = 0 ∧
    (initCfg w bs namesAddr budget ast an).w.vms[w.vms.length]? = some { scopes := [namesAddr], ops := 0 } := by
  unfold initCfg
  constructor
  · cases an with
    | nil => rfl
    | cons p r => obtain ⟨n, op⟩ := p; rfl
  · simp

/-- **every evaluation ends with the host mapping as the only scope**: whatever the program, budget and number
    of steps, once the continuation is empty the eval's VM holds `[namesAddr]` -/
theorem eval_ends_with_host_scope_only (w : World) (bs : List Nat) (namesAddr budget : Nat) (ast : Op)
    (an : List (Name × Op)) (n : Nat) (vm' : VM)
    (hk : (run n (initCfg w bs namesAddr budget ast an)).k = [])
    (hv' : (run n (initCfg w bs namesAddr budget ast an)).w.vms[w.vms.length]? = some vm') :
    vm'.scopes = [namesAddr] := by
  obtain ⟨h0, hv⟩ := initCfg_balanced w bs namesAddr budget ast an
  exact scopes_restored n _ _ _ vm' h0 (by rw [hk]; rfl) hv hv'

end SqProps.C10
