/-
  C07 — evaluation agrees with the reference semantics.  The model IS the reference; the decision
  for this property is the correspondence of the G-prog slices at scale.  The theorems below
  establish that the reference has the characteristics the statement names.
-/
import Sq.Machine
import Sq.Proto
import SqProps.C01
import SqProps.C09
namespace SqProps.C07
open Sq

/-- a program's value is the value of its last line -/
theorem code_last_line (vm : Nat) (v : Val) (k : List Frame) (w : World) :
    resume (.codeK [] vm) v k w = mkRet v k w := rfl

/-- lines are evaluated in order; the value of a line that is not the last is dropped -/
theorem code_next_line (l : Op) (rest : List Op) (vm : Nat) (v : Val) (k : List Frame) (w : World) :
    resume (.codeK (l :: rest) vm) v k w = { ctl := .ev l vm, k := .codeK rest vm :: k, w := w } := rfl

/-- an empty program yields None -/
theorem empty_program_none (vm : Nat) (k : List Frame) (w : World) : enter (.code []) vm k w = mkRet .none k w := rfl

/-- `x = e` yields None (and stores a deep copy, see C12) -/
theorem assign_yields_none (n : Name) (vmi : Nat) (v v' : Val) (k : List Frame) (w : World) (h' h'' : Heap) (vm : VM)
    (hc : deepcopy' w.heap v = .ok (v', h')) (hv : w.vm? vmi = some vm)
    (hw : writeTop h' vm.scopes n v' = some h'') :
    (resume (.assignK n vmi) v k w).ctl = .ret .none := by
  simp [resume, hc, hv, hw, mkRet]

/-- string on the left coerces the right operand with `str` … -/
theorem add_str_left_coerces (w : World) (s : List Char) (b : Val) (t : List Char)
    (hb : ∀ x, b ≠ .str x) (hs : pyStr w.heap b = .ok t) :
    applyBin w .add (.str s) b = .ok (.str (s ++ t), w) := by
  cases b <;> simp_all [applyBin, pyAdd, toInt?, toDec?, Except.map]

/-- … but not the other way round: a number plus a string is a TypeError -/
theorem add_str_right_no_coercion (w : World) (d : Dec) (c : Bool) (s : List Char) :
    applyBin w .add (.dec d c) (.str s) = .error .typeError := by
  simp [applyBin, pyAdd, toInt?, toDec?, Except.map]

/-- decimal list indices address the truncated integer position -/
theorem index_cast_truncates (d : Dec) (c : Bool) : listKeyCast (.dec d c) = .int d.toInt := rfl

/-- dict keys are cast with `str` -/
theorem dict_key_cast_str (h : Heap) (k : Val) : dictKeyCast h k = (pyStr h k).map Val.str := rfl

/-- the index / slice / del / assign sugar are calls of the four helpers (tree-building actions of
    rules.py; finite tests on the model's parser) -/
example : Proto.parsesTo "a[0]" (.code [.call "__getitem__".toList [.name ['a'], .value (.num ⟨false, 0, 0⟩)]]) = true := by decide +kernel
example : Proto.parsesTo "a[0] = 1" (.code [.call "__setitem__".toList [.name ['a'], .value (.num ⟨false, 0, 0⟩), .value (.num ⟨false, 1, 0⟩)]]) = true := by decide +kernel
example : Proto.parsesTo "a[0] += 1" (.code [.call "__setitem_with_op__".toList [.name ['a'], .value (.num ⟨false, 0, 0⟩), .value (.str ['+', '=']), .value (.num ⟨false, 1, 0⟩)]]) = true := by decide +kernel
example : Proto.parsesTo "del a[0]" (.code [.call "__delitem__".toList [.name ['a'], .value (.num ⟨false, 0, 0⟩)]]) = true := by decide +kernel
example : Proto.parsesTo "a[1:]" (.code [.call "__getitem__".toList [.name ['a'], .slice (.value (.num ⟨false, 1, 0⟩)) (.value .none) (.value .none)]]) = true := by decide +kernel

/-- lambda parameters bind positionally with `zip` truncation: extra arguments are dropped,
    missing ones leave the name unbound -/
theorem params_zip_truncates_extra (ps : List Op) (acc : List (Val × Val)) :
    bindParams ps [] acc = some acc := by
  cases ps <;> rfl

theorem params_zip_truncates_missing (args : List Val) (acc : List (Val × Val)) :
    bindParams [] args acc = some acc := rfl

/-- free names of a lambda body resolve at *call* time in the scope stack of the VM captured at
    creation: creating a lambda captures only parameters, body and the VM index -/
theorem lambda_captures_vm_only (ps : List Op) (body : Op) (vm : Nat) (k : List Frame) (w : World) :
    enter (.lambda ps body) vm k w = mkRet (.closure ps body vm) k w := rfl

/-- the number of operations charged equals the number of node evaluations: the counter moves
    only in the charge step of `ev` (see C01.charge_then_enter / count_exact) -/
theorem ret_does_not_charge (c : Cfg) (v : Val) (hc : c.ctl = .ret v) (hk : c.k = []) :
    (step c).w = c.w := by
  simp [step, stepCore, Cfg.core, Core.withBudgets, hc, hk]

/-- **the number of operations charged equals the number of syntax-tree node evaluations**: after any number of
    steps of any run, every VM's counter is its initial value plus the number of `ev` steps (node evaluations started)
    on it — lambda bodies driven by map / filter / reduce / sorted / host callbacks included (C01.ops_counted) -/
theorem ops_equal_node_evaluations (n : Nat) (c : Cfg) (hvalid : ∀ k, k < n → SqProps.C01.Valid (run k c)) (i : Nat) :
    (opsOf (run n c).w)[i]? = ((opsOf c.w)[i]?).map (· + SqProps.C01.evCount n c i) :=
  SqProps.C01.ops_counted n c hvalid i

/-- **compositionality of the machine (frame lemma)**: an evaluation that stays within its own continuation runs
    exactly the same steps — same values, same world, same charges — beneath any pending frames `k0`, and leaves
    them untouched.  This is what makes the reference semantics a semantics of EXPRESSIONS: the meaning of a
    subexpression does not depend on where it stands. -/
theorem evaluation_is_compositional (n : Nat) (c : Cfg) (k0 : List Frame)
    (h : ∀ i, i < n → ¬ Underflow (run i c).core) : run n (c.app k0) = (run n c).app k0 :=
  run_app n c k0 h

open SqProps.C09 in
/-- **statement lists, big step**: the lines of a program (or lambda body) are evaluated in order, each completely
    and exactly once, each in the world its predecessor left, and the value of the LAST line is the result -/
theorem code_big_step {B vmi} (k : List Frame) (rest : List Op) :
    ∀ {a w n v w1 m vs w2}, EvalsTo B a vmi w n v w1 → EvalsSeq B vmi w1 rest m vs w2 →
    run (n + 1 + m) { ctl := .ev a vmi, k := .codeK rest vmi :: k, w := w, budgets := B } =
      (mkRet ((v :: vs).getLast (by simp)) k w2).withBudgets B := by
  induction rest with
  | nil =>
    intro a w n v w1 m vs w2 ha hs
    cases hs
    rw [run_add (n + 1) 0, run_add n 1, eval_in_context ha]
    rfl
  | cons b rest ih =>
    intro a w n v w1 m vs w2 ha hs
    cases hs with
    | cons hb hs' =>
      rename_i n' v' w1' m' vs'
      have e1 : run 1 { ctl := .ret v, k := .codeK (b :: rest) vmi :: k, w := w1, budgets := B } =
          { ctl := .ev b vmi, k := .codeK rest vmi :: k, w := w1, budgets := B } := rfl
      rw [run_add (n + 1) (n' + 1 + m'), run_add n 1, eval_in_context ha, e1, ih hb hs']
      simp


end SqProps.C07
