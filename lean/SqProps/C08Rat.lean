/-
  C08 — [B] the statements of SqProps/C08.lean against ℚ (SqLemmas/RatSpec.lean): every operation returns the real result
  of the operands' values, rounded once to within half a unit of the result's last place; comparisons are the order of ℚ.
-/
import SqProps.C08
import SqLemmas.RatSpec
import SqLemmas.PowSpec
namespace SqProps.C08
open Sq Sq.Dec

/-! ### [B] the same statements against ℚ: every operation returns the real result, rounded once -/

/-- a literal denotes exactly the rational it spells: all its digits over 10^(number of fraction digits) -/
theorem literal_denotes_its_spelling (ip fp : List Char) (d : Dec) (h : ofLiteral ip fp = some d) :
    ∃ c : Nat, digitsVal? (ip ++ fp) 0 = some c ∧ d.toRat = (c : ℚ) / 10 ^ fp.length := by
  obtain ⟨h1, h2, h3⟩ := literal_exact ip fp d h
  refine ⟨d.coeff, h1, ?_⟩
  unfold toRat
  rw [h2, h3, zpow_neg, zpow_natCast]
  simp [sgn, div_eq_mul_inv]

/-- **`+ - * /` are the operations of ℚ, rounded once**: whenever the operation returns `r`, `r` is within half a unit of
    its own last place (`10^r.exp`) of the real sum / difference / product / quotient of the operands' values; `r` has at
    most 28 significant digits (`fix_result_digits`), ties go to the even coefficient (`fix_rounds_to_nearest`,
    `division_is_correctly_rounded`).  There is no binary fraction anywhere: 0.1 denotes 1/10. -/
theorem arithmetic_is_correctly_rounded (a b r : Dec) :
    (Dec.add a b = .ok r → |r.toRat - (a.toRat + b.toRat)| ≤ (1 / 2) * 10 ^ r.exp) ∧
    (Dec.sub a b = .ok r → |r.toRat - (a.toRat - b.toRat)| ≤ (1 / 2) * 10 ^ r.exp) ∧
    (Dec.mul a b = .ok r → |r.toRat - a.toRat * b.toRat| ≤ (1 / 2) * 10 ^ r.exp) ∧
    (Dec.div a b = .ok r → |r.toRat - a.toRat / b.toRat| ≤ (1 / 2) * 10 ^ r.exp) :=
  ⟨add_half_ulp a b r, sub_half_ulp a b r, mul_half_ulp a b r, div_half_ulp a b r⟩

/-- **exact whenever the real result fits**: if the exact sum / product has at most 28 digits (and its exponent is in
    range), the operation returns a decimal denoting EXACTLY the real result -/
theorem add_exact_in_Q (a b : Dec) (hnz : (addExact a b).coeff ≠ 0) (hd : ndigits (addExact a b).coeff ≤ 28)
    (he1 : etiny ≤ (addExact a b).exp) (he2 : (ndigits (addExact a b).coeff : Int) + (addExact a b).exp - prec ≤ etop) :
    ∃ r, Dec.add a b = .ok r ∧ r.toRat = a.toRat + b.toRat := by
  refine ⟨addExact a b, fix_id_when_fits _ hnz hd he1 he2, addExact_toRat a b⟩

theorem mul_exact_in_Q (a b : Dec) (hnz : (mulExact a b).coeff ≠ 0) (hd : ndigits (mulExact a b).coeff ≤ 28)
    (he1 : etiny ≤ (mulExact a b).exp) (he2 : (ndigits (mulExact a b).coeff : Int) + (mulExact a b).exp - prec ≤ etop) :
    ∃ r, Dec.mul a b = .ok r ∧ r.toRat = a.toRat * b.toRat := by
  refine ⟨mulExact a b, fix_id_when_fits _ hnz hd he1 he2, mulExact_toRat a b⟩

/-- `a / b = ± (divNum / divDen) · 10^divExp` as an identity of rationals (what `division_is_correctly_rounded` rounds) -/
theorem quotient_identity (a b : Dec) (hb : b.coeff ≠ 0) :
    a.toRat / b.toRat = sgn (a.neg != b.neg) * ((divNum a b : ℚ) / (divDen a b : ℚ)) * (10 : ℚ) ^ (divExp a b) :=
  toRat_div a b hb

/-- **comparisons are the order of ℚ** -/
theorem comparisons_are_rational_order (a b : Dec) :
    (Dec.lt a b = true ↔ a.toRat < b.toRat) ∧ (Dec.eq a b = true ↔ a.toRat = b.toRat) ∧ (Dec.le a b = true ↔ a.toRat ≤ b.toRat) :=
  cmp_toRat a b

/-- **`round(x, n)` in ℚ** (the builtin computes `quantize x (-n)`, Sq/Builtins.lean `round`): whenever it returns `r`, `r` has
    exactly `n` fraction digits (exponent `-n`), lies within half a unit of that place of `x`, and IS `x` when `x` has no
    more than `n` fraction digits; a value exactly half-way goes to the even neighbour -/
theorem round_to_places_is_nearest (a r : Dec) (e : Int) (h : quantize a e = .ok r) :
    r.exp = e ∧ |r.toRat - a.toRat| ≤ (1 / 2) * 10 ^ e ∧ (e ≤ a.exp → r.toRat = a.toRat) ∧
    (a.coeff ≠ 0 → a.exp < e →
      (2 * a.coeff = 2 * (r.coeff * 10 ^ (e - a.exp).toNat) + 10 ^ (e - a.exp).toNat ∨
       2 * (r.coeff * 10 ^ (e - a.exp).toNat) = 2 * a.coeff + 10 ^ (e - a.exp).toNat) → r.coeff % 2 = 0) := by
  obtain ⟨h1, h2, h3⟩ := quantize_half_ulp a r e h
  refine ⟨h1, h2, h3, fun hz hlt => ?_⟩
  rw [quantize_is_rescale a r e h]
  exact rescale_tie_even a e hz hlt

/-- **one-argument `round(x)` in ℚ**: the integer returned is within 1/2 of `x` -/
theorem round_to_integer_is_nearest (a : Dec) : |((toIntRound a .halfEven : Int) : ℚ) - a.toRat| ≤ 1 / 2 :=
  toIntRound_half a

/-- round(2.675, 2) = 2.68 and round(2.665, 2) = 2.66 (ties to even; binary floats give 2.67 / 2.67), round(2.5) = 2 -/
example : quantize ⟨false, 2675, -3⟩ (-2) = .ok ⟨false, 268, -2⟩ ∧ quantize ⟨false, 2665, -3⟩ (-2) = .ok ⟨false, 266, -2⟩ ∧
    toIntRound ⟨false, 25, -1⟩ .halfEven = 2 := by decide +kernel

/-- **`**` in ℚ** (the part of `**` the model speaks about: an integral exponent 0..200 written plainly and an exact power of
    at most 28 digits; the rest is `unmodelled` and decided by correspondence with CPython): the result is within half a unit
    of its last place of the real power -/
theorem power_is_correctly_rounded (x y r : Dec) (c : Bool) (h : decPow x y = .ok (.dec r c)) :
    ∃ N : Nat, y.toRat = (N : ℚ) ∧ |r.toRat - x.toRat ^ N| ≤ (1 / 2) * 10 ^ r.exp :=
  decPow_half_ulp x y r c h

/-- 1.1 ** 2 = 1.21, (-0.5) ** 3 = -0.125 -/
example : decPow ⟨false, 11, -1⟩ ⟨false, 2, 0⟩ = .ok (.dec ⟨false, 121, -2⟩ false) ∧
    decPow ⟨true, 5, -1⟩ ⟨false, 3, 0⟩ = .ok (.dec ⟨true, 125, -3⟩ false) := ⟨by rfl, by rfl⟩

/-- 0.1 + 0.2 denotes exactly 3/10 (the float sum does not) -/
example : ∃ r, Dec.add ⟨false, 1, -1⟩ ⟨false, 2, -1⟩ = .ok r ∧ r.toRat = 3 / 10 := by
  refine ⟨⟨false, 3, -1⟩, by decide +kernel, ?_⟩
  norm_num [toRat, sgn]

end SqProps.C08
