/-
  C10 (continued) — [B] over whole runs, for programs without mutators and compound assignments: parameter bindings and
  assignments made during a lambda call go to the call's own scope dictionary and nowhere else — a scope dictionary that
  is covered (the host's names mapping, or the scope of an enclosing lambda call, while an inner call is in progress)
  cannot change.  One machine step changes at most the TOP scope dictionaries (`HStep`, SqLemmas/InvHeap.lean); together
  with `scope_balanced` / `host_scope_beneath` (which scopes ARE on top during a call) this is the "never alter an outer
  or host binding of the same name" clause.
-/
import SqLemmas.InvQuiet
import SqLemmas.InvSep
namespace SqProps.C10
open Sq Sq.Inv

/-- one machine step, generically: under the configuration invariant with no mutator as a value and no compound assignment
    pending, every existing object other than the top scope dictionaries is unchanged -/
theorem step_writes_only_top_scopes {Pc : List Op → Op → Nat → Prop} {Pb Pq : String → Prop} {Pr : Nat → Prop} {Po : Op → Prop} {Pn : Name → Prop}
    {Psh : Prop} (hok : OpsOK Pc Pb Po Pn Psh) (hb : ∀ n, Pb n → n ∉ mutatorNames) (hsh : ¬ Psh) (budgets : List Nat) (c : Core)
    (hc : CorePDg Pc Pb Pq Pr Po Pn Psh c) (a : Nat) (ha : a < c.w.heap.size) (hna : a ∉ topsOf c.w) :
    (stepCore budgets c).w.heap.get? a = c.w.heap.get? a :=
  (step_hp (M := fun _ => False) hok (pureOK_of_nonmut hb) (inplOK_of_not hsh) budgets c hc).toHStep.keep a ha hna

/-- **assignments made during a lambda call never alter a covered (outer or host) scope** -/
theorem assignments_in_calls_leave_covered_scopes (w : World) (bs : List Nat) (namesAddr budget : Nat) (tree : Op)
    (astNames : List (Name × Op)) (hw : QuietWorld w) (ht : Quiet tree) (ha : ∀ p, p ∈ astNames → Quiet p.2) (i n a : Nat)
    (hlt : a < (run i (initCfg w bs namesAddr budget tree astNames)).w.heap.size)
    (hcov : ∀ j, j < n → a ∉ topsOf (run (i + j) (initCfg w bs namesAddr budget tree astNames)).w) :
    (run (i + n) (initCfg w bs namesAddr budget tree astNames)).w.heap.get? a =
      (run i (initCfg w bs namesAddr budget tree astNames)).w.heap.get? a :=
  quiet_covered_scope_unchanged w bs namesAddr budget tree astNames hw ht ha i n a hlt hcov

/-- the top scopes are scope dictionaries (so "not a scope dictionary at all" is a special case of "covered") -/
theorem tops_are_scopes {w : World} {a : Nat} (h : a ∈ topsOf w) : a ∈ scopesOf w := tops_sub_scopes h


/-! ### programs WITH mutators and compound assignments: nobody refers to a scope dictionary -/

/-- "no value of the world mentions the address `a`" — in any object of the heap, any pending engine answer, any probe
    answer; closures, builtins, host callables and opaque objects of any kind are allowed -/
abbrev Unmentioned (a : Nat) (w : World) : Prop :=
  WorldNPg (fun _ _ _ => True) (fun _ => True) (fun _ => True) (· ≠ a) w

theorem opsOK_any : OpsOK (fun _ _ _ => True) (fun _ => True) (fun _ => True) (fun _ => True) True where
  builtin := fun _ _ _ => trivial
  name := fun _ _ => trivial
  call := fun _ _ _ => ⟨trivial, fun _ _ => trivial⟩
  short := fun _ _ _ _ => ⟨trivial, trivial, trivial⟩
  assign := fun _ _ _ => trivial
  lambda := fun _ _ _ _ => trivial
  body := fun _ _ _ _ => trivial
  code := fun _ _ _ _ => trivial
  bin := fun _ _ _ _ => ⟨trivial, trivial⟩
  unary := fun _ _ _ => trivial
  ifx := fun _ _ _ _ => ⟨trivial, trivial, trivial⟩
  slice := fun _ _ _ _ => ⟨trivial, trivial, trivial⟩
  dict := fun _ _ _ _ => trivial

/-- **a covered scope dictionary survives every program** — mutators (`push`, `pop`, `insert`, `remove`, index assignment,
    compound index assignment, `del`) and compound assignments included: if no value of the host's world mentions the
    address `a` (nobody holds a reference to that dictionary — in particular `a` may be the host's names mapping or any
    scope beneath a lambda call), then along the whole evaluation of ANY program the object at `a` keeps its content for
    as long as `a` is not the top scope of a VM state.  Assignments write to the top scope only; mutators reach objects
    only through values, and no value ever comes to mention `a`. -/
theorem covered_scopes_survive_any_program (w : World) (bs : List Nat) (namesAddr budget : Nat) (tree : Op)
    (astNames : List (Name × Op)) (a : Nat) (ha : a < w.heap.size) (hw : Unmentioned a w) (n : Nat)
    (hcov : ∀ i, i < n → a ∉ topsOf (run i (initCfg w bs namesAddr budget tree astNames)).w) :
    (run n (initCfg w bs namesAddr budget tree astNames)).w.heap.get? a = w.heap.get? a := by
  have hw' : Unmentioned a { w with vms := w.vms ++ [{ scopes := [namesAddr], ops := 0 }] } := ⟨hw.heap, hw.rx, hw.probes⟩
  have h0 : CoreNPg (fun _ _ _ => True) (fun _ => True) (fun _ => True) (· ≠ a) (fun _ => True) (fun _ => True) True
      (initCfg w bs namesAddr budget tree astNames).core := by
    cases astNames with
    | nil => exact ⟨trivial, fun fr hfr => (by cases hfr), hw'⟩
    | cons p rest =>
      obtain ⟨nm, op⟩ := p
      refine ⟨trivial, ?_, hw'⟩
      intro fr hfr
      simp only [initCfg, Cfg.core, List.mem_singleton] at hfr
      subst hfr
      exact ⟨fun _ _ => trivial, trivial⟩
  have := unmentioned_object_unchanged opsOK_any (fun _ => trivial) (initCfg w bs namesAddr budget tree astNames) h0 a
    (by cases astNames <;> exact ha) (fun h => h rfl) n hcov
  rw [this]
  cases astNames <;> rfl

/-- non-vacuity: the host's names mapping at address 0 holding a list (address 1) of numbers: nobody mentions 0 -/
example : Unmentioned 0
    { heap := #[.dict [(.str ['x'], .ref 1)], .list [.int 1, .int 2]], vms := [], log := [], rng := 0, rx := [],
      probes := [] } := by
  refine ⟨⟨?_, fun b hb => by simp at hb; omega⟩, fun a h => (by cases h), fun p h => (by cases h)⟩
  intro b o hg
  match b with
  | 0 =>
    simp [Heap.get?] at hg; subst hg
    intro kv hkv; simp at hkv; subst hkv; exact ⟨.str, .ref (by decide)⟩
  | 1 =>
    simp [Heap.get?] at hg; subst hg
    intro v hv; simp at hv; rcases hv with e | e <;> subst e <;> exact .int
  | n + 2 => simp [Heap.get?] at hg

end SqProps.C10
