/-
  C10 (continued) — [B] over whole runs, for programs without mutators and compound assignments: parameter bindings and
  assignments made during a lambda call go to the call's own scope dictionary and nowhere else — a scope dictionary that
  is covered (the host's names mapping, or the scope of an enclosing lambda call, while an inner call is in progress)
  cannot change.  One machine step changes at most the TOP scope dictionaries (`HStep`, SqLemmas/InvHeap.lean); together
  with `scope_balanced` / `host_scope_beneath` (which scopes ARE on top during a call) this is the "never alter an outer
  or host binding of the same name" clause.
-/
import SqLemmas.InvQuiet
namespace SqProps.C10
open Sq Sq.Inv

/-- one machine step, generically: under the configuration invariant with no mutator as a value and no compound assignment
    pending, every existing object other than the top scope dictionaries is unchanged -/
theorem step_writes_only_top_scopes {Pc : List Op → Op → Nat → Prop} {Pb Pq : String → Prop} {Pr : Nat → Prop} {Po : Op → Prop} {Pn : Name → Prop}
    {Psh : Prop} (hok : OpsOK Pc Pb Po Pn Psh) (hb : ∀ n, Pb n → n ∉ mutatorNames) (hsh : ¬ Psh) (budgets : List Nat) (c : Core)
    (hc : CorePDg Pc Pb Pq Pr Po Pn Psh c) (a : Nat) (ha : a < c.w.heap.size) (hna : a ∉ topsOf c.w) :
    (stepCore budgets c).w.heap.get? a = c.w.heap.get? a :=
  (step_hp hok hb hsh budgets c hc).keep a ha hna

/-- **assignments made during a lambda call never alter a covered (outer or host) scope** -/
theorem assignments_in_calls_leave_covered_scopes (w : World) (bs : List Nat) (namesAddr budget : Nat) (tree : Op)
    (astNames : List (Name × Op)) (hw : QuietWorld w) (ht : Quiet tree) (ha : ∀ p, p ∈ astNames → Quiet p.2) (i n a : Nat)
    (hlt : a < (run i (initCfg w bs namesAddr budget tree astNames)).w.heap.size)
    (hcov : ∀ j, j < n → a ∉ topsOf (run (i + j) (initCfg w bs namesAddr budget tree astNames)).w) :
    (run (i + n) (initCfg w bs namesAddr budget tree astNames)).w.heap.get? a =
      (run i (initCfg w bs namesAddr budget tree astNames)).w.heap.get? a :=
  quiet_covered_scope_unchanged w bs namesAddr budget tree astNames hw ht ha i n a hlt hcov

/-- the top scopes are scope dictionaries (so "not a scope dictionary at all" is a special case of "covered") -/
theorem tops_are_scopes {w : World} {a : Nat} (h : a ∈ topsOf w) : a ∈ scopesOf w := tops_sub_scopes h

end SqProps.C10
