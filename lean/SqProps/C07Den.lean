/-
  C07 — [B] a reference semantics defined independently of the machine, and proved to agree with it.
  `Sq/Denote.lean` defines `evalOp` compositionally (the meaning of a node from the meanings of its children: charge first,
  lazy `and` / `or` / if-else, left-to-right operands / arguments / dict parts / slice bounds, errors propagate, a lambda
  call pushes a scope on the VM it was created on and pops it on return and on error, map / filter / reduce / sorted apply
  the callback element by element).  `SqLemmas/DenoteSound.lean` proves that the abstract machine — the model the
  correspondence check ties to the implementation — computes exactly that.
-/
import Sq.Denote
import SqLemmas.DenoteSound
import SqLemmas.DenoteComplete
import SqLemmas.DenoteHalt
import SqLemmas.DenoteAst
namespace SqProps.C07Den
open Sq Sq.Den

/-- **the machine implements the compositional semantics**: whenever the semantics gives a node the outcome `o` (a value
    or an error) and the world `w'`, the machine started on that node reaches exactly `o` and `w'` — same value, heap,
    scopes, operation counters and log — and does not leave the node's own continuation before -/
theorem machine_implements_semantics (B : List Nat) (f : Nat) (op : Op) (vmi : Nat) (w : World) (o : Out) (w' : World)
    (h : evalOp B f op vmi w = some (o, w')) :
    ∃ n, run n { ctl := .ev op vmi, k := [], w := w, budgets := B } = { ctl := o.ctl, k := [], w := w', budgets := B } ∧
      ∀ i, i < n → ¬ Underflow (run i { ctl := .ev op vmi, k := [], w := w, budgets := B }).core :=
  evalOp_sound f op vmi w o w' h

/-- … for a whole `eval` call: the machine halts with the outcome and world the semantics prescribes -/
theorem eval_call_implements_semantics (f : Nat) (w : World) (bs : List Nat) (namesAddr budget : Nat) (ast : Op) (o : Out)
    (w' : World)
    (h : evalOp (bs ++ [budget]) f ast w.vms.length
          { w with vms := w.vms ++ [{ scopes := [namesAddr], ops := 0 }] } = some (o, w')) :
    ∃ n, ∀ m, run (n + 1 + m) (initCfg w bs namesAddr budget ast) =
      { ctl := o.halt, k := [], w := w', budgets := bs ++ [budget] } :=
  eval_call_sound f w bs namesAddr budget ast o w' h

/-- … and for every function value applied to arguments (lambdas, builtins, the higher-order builtins, host callbacks) -/
theorem application_implements_semantics (B : List Nat) (f tf : Nat) (fn : Val) (args : List Val) (w : World) (o : Out)
    (w' : World) (h : applyVal B f tf fn args w = some (o, w')) :
    ∃ n, run n ((callVal tf fn args [] w).withBudgets B) = { ctl := o.ctl, k := [], w := w', budgets := B } ∧
      ∀ i, i < n → ¬ Underflow (run i ((callVal tf fn args [] w).withBudgets B)).core :=
  applyVal_sound f tf fn args w o w' h

/-- **the meaning does not depend on the fuel**: any two fuels that suffice give the same outcome and world -/
theorem semantics_is_fuel_independent (B : List Nat) (f1 f2 : Nat) (op : Op) (vmi : Nat) (w : World) (r1 r2 : Out × World)
    (h1 : evalOp B f1 op vmi w = some r1) (h2 : evalOp B f2 op vmi w = some r2) : r1 = r2 :=
  evalOp_fuel_irrelevant f1 f2 op vmi w r1 r2 h1 h2

/-- a world with one VM state and an empty host scope -/
def w1 : World := { heap := #[.dict []], vms := [{ scopes := [0], ops := 0 }], log := [], rng := 0, rx := [], probes := [] }

/-- `f = (a) => a + a ; f(2)` as a tree -/
def prog : Op :=
  .code [.assign ['f'] (.lambda [.name ['a']] (.bin .add (.name ['a']) (.name ['a']))),
         .call ['f'] [.value (.num ⟨false, 2, 0⟩)]]

/-- the observable part of a result: returned decimal or ops-limit error, and the operations charged to VM 0 -/
def observe (r : Res) : Option (Option Dec × Option Nat × Option Nat) :=
  r.map fun p =>
    ((match p.1 with | .ret (.dec d _) => some d | _ => none),
     (match p.1 with | .raise (.opsLimit m) => some m | _ => none),
     (p.2.vm? 0).map (·.ops))

/-- non-vacuity: the semantics is defined on a program with an assignment, a lambda, a call and arithmetic: value 4,
    eight node evaluations charged -/
example : observe (evalOp [100] 20 prog 0 w1) = some (some ⟨false, 4, 0⟩, none, some 8) := by decide +kernel

/-- … and with the budget 5 the same program raises the ops-limit error at the 5th node -/
example : observe (evalOp [5] 20 prog 0 w1) = some (none, some 5, some 5) := by decide +kernel

/-- **the machine computes nothing the semantics does not prescribe**: whenever the machine, started on a node alone,
    finishes — returns a value or raises an error to an empty continuation, for the first time, after any number `n` of
    steps — some fuel makes `evalOp` yield exactly that outcome and world -/
theorem semantics_covers_machine (B : List Nat) (op : Op) (vmi : Nat) (w : World) (n : Nat) (o : Out) (w' : World)
    (h : run n { ctl := .ev op vmi, k := [], w := w, budgets := B } = { ctl := o.ctl, k := [], w := w', budgets := B })
    (hu : ∀ i, i < n → ¬ Underflow (run i { ctl := .ev op vmi, k := [], w := w, budgets := B }).core) :
    ∃ f, evalOp B f op vmi w = some (o, w') :=
  evalOp_complete op vmi w n o w' h hu

/-- **semantics and machine define the same relation** between a node in a world and its outcome and final world -/
theorem semantics_iff_machine (B : List Nat) (op : Op) (vmi : Nat) (w : World) (o : Out) (w' : World) :
    (∃ f, evalOp B f op vmi w = some (o, w')) ↔
    (∃ n, run n { ctl := .ev op vmi, k := [], w := w, budgets := B } = { ctl := o.ctl, k := [], w := w', budgets := B } ∧
      ∀ i, i < n → ¬ Underflow (run i { ctl := .ev op vmi, k := [], w := w, budgets := B }).core) :=
  ⟨fun ⟨f, hf⟩ => evalOp_sound f op vmi w o w' hf, fun ⟨n, h, hu⟩ => evalOp_complete op vmi w n o w' h hu⟩

/-- more fuel never changes a verdict -/
theorem semantics_is_monotone_in_fuel (B : List Nat) (f g : Nat) (hfg : f ≤ g) (op : Op) (vmi : Nat) (w : World)
    (r : Out × World) (h : evalOp B f op vmi w = some r) : evalOp B g op vmi w = some r :=
  evalOp_mono hfg h

/-- **`eval` returns exactly what the semantics prescribes**: the machine started by `initCfg` for one `eval` call halts
    with `done v` (resp. `failed e`) in world `w'` after some number of steps IF AND ONLY IF the compositional semantics
    gives the program the outcome `ret v` (resp. `raise e`) and the world `w'` for some fuel — same value or error, same
    host names, same heap, same operation count -/
theorem eval_call_iff_semantics (w : World) (bs : List Nat) (namesAddr budget : Nat) (ast : Op) (o : Out) (w' : World) :
    (∃ N, run N (initCfg w bs namesAddr budget ast) = { ctl := o.halt, k := [], w := w', budgets := bs ++ [budget] }) ↔
    (∃ f, evalOp (bs ++ [budget]) f ast w.vms.length { w with vms := w.vms ++ [{ scopes := [namesAddr], ops := 0 }] } =
      some (o, w')) := by
  constructor
  · rintro ⟨N, h⟩
    exact evalOp_complete_halt (B := bs ++ [budget]) ast w.vms.length _ N o w' [] h
  · rintro ⟨f, hf⟩
    obtain ⟨n, hn⟩ := eval_call_sound f w bs namesAddr budget ast o w' hf
    exact ⟨n + 1 + 0, hn 0⟩

/-- **… including AST-supplied names** (`ast_names`: each entry evaluated in turn and bound in the host's mapping, then the
    program — `evalAst`): the machine started by `initCfg` halts with `done v` / `failed e` in world `w'` if and only if
    the semantics prescribes `ret v` / `raise e` and `w'`.  This covers every way `SqParser.eval` starts an evaluation. -/
theorem eval_call_iff_semantics_with_ast_names (w : World) (bs : List Nat) (namesAddr budget : Nat) (ast : Op)
    (astNames : List (Name × Op)) (o : Out) (w' : World) :
    (∃ N, run N (initCfg w bs namesAddr budget ast astNames) = { ctl := o.halt, k := [], w := w', budgets := bs ++ [budget] }) ↔
    (∃ f, evalAst (bs ++ [budget]) f astNames ast w.vms.length
      { w with vms := w.vms ++ [{ scopes := [namesAddr], ops := 0 }] } = some (o, w')) :=
  eval_call_iff w bs namesAddr budget ast astNames o w'

end SqProps.C07Den
