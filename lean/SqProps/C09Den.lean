/-
  C09 — [B] the evaluation order read off the compositional semantics (`Sq/Denote.lean`), which the machine implements
  exactly (`SqProps/C07Den.lean`: `semantics_iff_machine`): the statements below are about `evalOp` / `iterate` and hold of
  every run of the machine through that equivalence.
-/
import Sq.Denote
import SqProps.C07Den
namespace SqProps.C09Den
open Sq Sq.Den

/-- `a and b`: when `a` is falsy the result is `a`'s own outcome and world — `b` contributes nothing (it is not evaluated) -/
theorem and_is_lazy (B : List Nat) (f : Nat) (a b : Op) (vmi : Nat) (w0 w w1 : World) (va : Val)
    (hc : charge w0 B vmi = some (w, none)) (ha : evalOp B f a vmi w = some (.ret va, w1)) (hf : truthy w1.heap va = false) :
    evalOp B (f + 1) (.bin .and a b) vmi w0 = some (.ret va, w1) := by
  rw [evalOp]; simp only [hc]
  rw [andThen_ret ha]
  simp [hf]

/-- `a or b`: when `a` is truthy the result is `a`'s own outcome and world -/
theorem or_is_lazy (B : List Nat) (f : Nat) (a b : Op) (vmi : Nat) (w0 w w1 : World) (va : Val)
    (hc : charge w0 B vmi = some (w, none)) (ha : evalOp B f a vmi w = some (.ret va, w1)) (ht : truthy w1.heap va = true) :
    evalOp B (f + 1) (.bin .or a b) vmi w0 = some (.ret va, w1) := by
  rw [evalOp]; simp only [hc]
  rw [andThen_ret ha]
  simp [ht]

/-- `x if c else y`: exactly one branch contributes -/
theorem ifelse_one_branch (B : List Nat) (f : Nat) (c x y : Op) (vmi : Nat) (w0 w w1 : World) (vc : Val)
    (hc : charge w0 B vmi = some (w, none)) (hcond : evalOp B f c vmi w = some (.ret vc, w1)) :
    evalOp B (f + 1) (.ifx c x y) vmi w0 = if truthy w1.heap vc then evalOp B f x vmi w1 else evalOp B f y vmi w1 := by
  rw [evalOp]; simp only [hc]
  rw [andThen_ret hcond]

/-- an error raised by the left operand of ANY binary operator is the outcome: the right operand contributes nothing -/
theorem left_error_skips_right (B : List Nat) (f : Nat) (bk : BinK) (a b : Op) (vmi : Nat) (w0 w w1 : World) (e : PyErr)
    (hc : charge w0 B vmi = some (w, none)) (ha : evalOp B f a vmi w = some (.raise e, w1)) :
    evalOp B (f + 1) (.bin bk a b) vmi w0 = some (.raise e, w1) := by
  rw [evalOp]; simp only [hc]
  rw [andThen_raise ha]

/-- **a callback that raises stops the iteration**: map / filter / reduce / sorted hand the error on, in the world the callback
    left; no later element is fetched, no later application is evaluated -/
theorem callback_error_stops_iteration (B : List Nat) (f tf : Nat) (kind : IterKind) (g : Val) (src src' : IterSrc)
    (item acc : List Val) (w w1 : World) (e : PyErr) (hn : nextItem w.heap src = some (item, src'))
    (hcb : applyVal B f tf g (cbArgs kind acc item) w = some (.raise e, w1)) :
    iterate B (f + 1) (tf + 1) kind g src acc w = some (.raise e, w1) := by
  simp only [iterate, hn]
  rw [andThen_raise hcb]

/-- … and one that returns is followed by the next element, fetched in the world the callback left -/
theorem callback_value_then_next (B : List Nat) (f tf : Nat) (kind : IterKind) (g : Val) (src src' : IterSrc)
    (item acc : List Val) (w w1 : World) (v : Val) (hn : nextItem w.heap src = some (item, src'))
    (hcb : applyVal B f tf g (cbArgs kind acc item) w = some (.ret v, w1)) :
    iterate B (f + 1) (tf + 1) kind g src acc w =
      iterate B f callFuel kind g src' (accAfter kind w1.heap v (item.headD .none) acc) w1 := by
  simp only [iterate, hn]
  rw [andThen_ret hcb]

end SqProps.C09Den
