/-
  C16 — language-level failures are ParserErrors; nothing worse ever escapes.
  One classification theorem per listed failure; each is a statement about a single machine /
  builtin / parser transition with the surrounding continuation universally quantified, i.e. it
  holds at every syntactic position at which the failure can occur.  `PyErr` has no constructor
  for a non-`Exception` `BaseException`; that half of the property ("never a bare BaseException,
  never a crash") is decided by the fuzzing monitor and is labelled measured, not proved.
-/
import Sq.Session
namespace SqProps.C16
open Sq

/-- reading an undefined variable -/
theorem undefined_variable_is_parser_error (n : Name) (vmi : Nat) (k : List Frame) (w : World) (vm : VM)
    (hv : w.vm? vmi = some vm) (hl : lookupName w.heap vm.scopes n = none) :
    enter (.name n) vmi k w = mkRaise (.parser "Undefined variable") k w := by
  simp [enter, hv, hl]

/-- calling an undefined function (after its arguments were evaluated) -/
theorem undefined_function_is_parser_error (n : Name) (args : List Val) (vmi : Nat) (k : List Frame)
    (w : World) (vm : VM) (hv : w.vm? vmi = some vm) (hl : lookupName w.heap vm.scopes n = none) :
    doCall n args vmi k w = mkRaise (.parser "Undefined function") k w := by
  simp [doCall, hv, hl]

/-- compound assignment to an undefined name (true since the fix of D2) -/
theorem undefined_in_compound_assign_is_parser_error (n : Name) (sk : ShortK) (vmi : Nat) (v v' : Val)
    (h' : Heap) (k : List Frame) (w : World) (vm : VM)
    (hc : deepcopy' w.heap v = .ok (v', h')) (hv : w.vm? vmi = some vm)
    (hl : lookupName h' vm.scopes n = none) :
    resume (.shortK n sk vmi) v k w = mkRaise (.parser "Undefined variable") k w := by
  simp [resume, hc, hv, hl]

/-- reading a missing key or an out-of-range index: `_get_item` converts LookupError -/
theorem missing_key_or_index_read_is_parser_error (s : BState) (c k k' : Val)
    (hk : keyCast s.heap c k = .ok k')
    (hm : pyGetItem s c k' = .error .keyError ∨ pyGetItem s c k' = .error .indexError) :
    bGetItem s c k = .error (.parser "Key error") := by
  rcases hm with hm | hm <;> simp [bGetItem, hk, hm]

/-- popping an empty list -/
theorem pop_empty_is_parser_error (s : BState) (a : Nat) (hg : s.heap.get? a = some (.list [])) :
    b_pop [.ref a] s = .error (.parser "pop from empty list") := by
  simp [b_pop, hg]

/-- exceeding the op budget is reported as the ops-limit subclass of ParserError -/
theorem budget_is_ops_limit (c : Cfg) (op : Op) (vmi : Nat) (vm : VM) (N : Nat)
    (hctl : c.ctl = .ev op vmi) (hvm : c.w.vm? vmi = some vm) (hb : c.budgets[vmi]? = some N)
    (hlim : vm.ops + 1 ≥ N) :
    ∃ e, (step c).ctl = .raise e ∧ e.isParserError = true := by
  refine ⟨.opsLimit N, ?_, rfl⟩
  unfold step stepCore charge Cfg.core Core.withBudgets
  simp [hctl, hvm, hb, hlim]

/-- every outcome of parsing a text is a tree or one of the three ParserError kinds (or the
    model's explicit `unmodelled`): there is no other way out of `parseLazy` -/
theorem parse_outcomes (st : LexSt) (src : List Char) :
    (∃ t, Proto.parseLazy st src = .ok t) ∨ (∃ c, Proto.parseLazy st src = .lexErr c) ∨
    (∃ p m, Proto.parseLazy st src = .synErr p m) ∨ (∃ m, Proto.parseLazy st src = .resErr m) ∨
    (∃ u, Proto.parseLazy st src = .unmodelled u) := by
  cases h : Proto.parseLazy st src with
  | ok t => exact Or.inl ⟨t, rfl⟩
  | lexErr c => exact Or.inr (Or.inl ⟨c, rfl⟩)
  | synErr p m => exact Or.inr (Or.inr (Or.inl ⟨p, m, rfl⟩))
  | resErr m => exact Or.inr (Or.inr (Or.inr (Or.inl ⟨m, rfl⟩)))
  | unmodelled u => exact Or.inr (Or.inr (Or.inr (Or.inr ⟨u, rfl⟩)))

/-- a syntax error at the very end of the text is reported as such (true since the fix of D1) -/
theorem end_of_input_message : Proto.syntaxMessage [] = "Syntax error: unexpected end of input".toList := rfl

/-- examples on the model's own parser (finite tests, labelled as such) -/
example : Proto.outcome "1 +" = (.syn, "Syntax error: unexpected end of input".toList) := by decide +kernel
example : Proto.outcome "f(" = (.syn, "Syntax error: unexpected end of input".toList) := by decide +kernel
example : Proto.outcome "x = for" = (.res, "for is reserved keyword".toList) := by decide +kernel
example : Proto.outcome "1 $" = (.lex, "Illegal character $".toList) := by decide +kernel

end SqProps.C16
