/-
  C12 — assignment has value semantics: stored values are independent copies.
  [A]: `deepcopy` never changes an existing object (frame), scalars are returned as they are, a
  copied container lives at a FRESH address (≥ the old heap size), and all four assignment forms
  store the result of `deepcopy`.  [B] `copy_reaches_only_new_objects` / `old_values_reach_only_old_objects` /
  `stored_copy_is_independent` (SqLemmas/CopyLemmas.lean, induction over the copy with its memo): everything
  reachable from the stored copy was created by the copy; everything reachable from any older value is an old,
  unchanged object; the two sets of objects are disjoint, so no mutation on one side is visible on the other.
  Pending: `deepcopy_iso` (the copy's aliasing-aware canonical form equals the original's).
-/
import Sq.Machine
import SqProps.C13
import SqLemmas.CopyLemmas
import SqLemmas.CopyIso
namespace SqProps.C12
open Sq SqProps.C13

theorem set_fresh_ext {h h2 : Heap} (hx : HeapExt h h2) (a : Nat) (o : HObj) (ha : a ≥ h.size) :
    HeapExt h (h2.set a o) := by
  refine ⟨by simpa [Heap.set] using hx.1, ?_⟩
  intro b hb
  have hne : a ≠ b := by omega
  simp [Heap.get?, Heap.set, Array.getElem?_setIfInBounds, hne]
  simpa [Heap.get?] using hx.2 b hb

/-- **frame**: whatever `deepcopy` does, every object that existed before is unchanged -/
theorem deepcopy_frame : ∀ (f : Nat),
    (∀ h memo v v' h' memo', deepcopy f h memo v = some (v', h', memo') → HeapExt h h') ∧
    (∀ h memo vs vs' h' memo', deepcopy.copyList f h memo vs = some (vs', h', memo') → HeapExt h h') := by
  intro f
  induction f with
  | zero => exact ⟨by intro h memo v v' h' memo' hh; simp [deepcopy] at hh,
                   by intro h memo vs vs' h' memo' hh; simp [deepcopy.copyList] at hh⟩
  | succ f ih =>
    obtain ⟨ihd, ihl⟩ := ih
    constructor
    · intro h memo v v' h' memo' hh
      unfold deepcopy at hh
      split at hh
      · -- tuple
        split at hh
        · rename_i r hr
          simp only [Option.some.injEq, Prod.mk.injEq] at hh
          obtain ⟨_, rfl, _⟩ := hh
          exact ihl _ _ _ _ _ _ hr
        · simp at hh
      · -- ref
        split at hh
        · simp only [Option.some.injEq, Prod.mk.injEq] at hh
          obtain ⟨_, rfl, _⟩ := hh
          exact HeapExt.refl _
        · split at hh
          · -- list
            simp only [Heap.alloc] at hh
            split at hh
            · rename_i r hr
              simp only [Option.some.injEq, Prod.mk.injEq] at hh
              obtain ⟨_, rfl, _⟩ := hh
              have h1 := ihl _ _ _ _ _ _ hr
              have h0 : HeapExt h (h.push (HObj.list [])) := by simpa [Heap.alloc] using alloc_ext h (.list [])
              exact set_fresh_ext (HeapExt.trans h0 h1) _ _ (Nat.le_refl _)
            · simp at hh
          · -- dict
            simp only [Heap.alloc] at hh
            split at hh
            · rename_i r hr
              simp only [Option.some.injEq, Prod.mk.injEq] at hh
              obtain ⟨_, rfl, _⟩ := hh
              have h1 := ihl _ _ _ _ _ _ hr
              have h0 : HeapExt h (h.push (HObj.dict [])) := by simpa [Heap.alloc] using alloc_ext h (.dict [])
              exact set_fresh_ext (HeapExt.trans h0 h1) _ _ (Nat.le_refl _)
            · simp at hh
          · simp at hh
      · -- scalar
        simp only [Option.some.injEq, Prod.mk.injEq] at hh
        obtain ⟨_, rfl, _⟩ := hh
        exact HeapExt.refl _
    · intro h memo vs vs' h' memo' hh
      cases vs with
      | nil =>
        simp only [deepcopy.copyList, Option.some.injEq, Prod.mk.injEq] at hh
        obtain ⟨_, rfl, _⟩ := hh
        exact HeapExt.refl _
      | cons x xs =>
        simp only [deepcopy.copyList] at hh
        split at hh
        · simp at hh
        · rename_i x' h1 m1 hx
          split at hh
          · rename_i xs' h2 m2 hxs
            simp only [Option.some.injEq, Prod.mk.injEq] at hh
            obtain ⟨_, rfl, _⟩ := hh
            exact HeapExt.trans (ihd _ _ _ _ _ _ hx) (ihl _ _ _ _ _ _ hxs)
          · simp at hh

/-- the public form: a successful `copy.deepcopy` leaves every existing object — the original,
    host objects, other variables' values — exactly as it was -/
theorem deepcopy'_frame (h : Heap) (v v' : Val) (h' : Heap) (hc : deepcopy' h v = .ok (v', h')) :
    HeapExt h h' := by
  unfold deepcopy' at hc
  split at hc
  · rename_i r hr
    simp only [Except.ok.injEq, Prod.mk.injEq] at hc
    obtain ⟨_, rfl⟩ := hc
    exact (deepcopy_frame _).1 _ _ _ _ _ _ hr
  · simp [U] at hc

/-- the copy of a list or dict is a NEW object: its address is at least the old heap size, so it
    is distinct from every object reachable before the assignment -/
theorem deepcopy'_container_fresh (h : Heap) (a : Nat) (v' : Val) (h' : Heap)
    (hc : deepcopy' h (.ref a) = .ok (v', h')) : v' = .ref h.size := by
  unfold deepcopy' at hc
  split at hc
  · rename_i r hr
    simp only [Except.ok.injEq, Prod.mk.injEq] at hc
    obtain ⟨rfl, _⟩ := hc
    have hf : heapWeight h + 64 = (heapWeight h + 63) + 1 := by omega
    rw [hf] at hr
    unfold deepcopy at hr
    simp only [List.find?_nil, Heap.alloc] at hr
    split at hr
    · split at hr <;> simp at hr; exact hr.1.symm
    · split at hr <;> simp at hr; exact hr.1.symm
    · simp at hr
  · simp [U] at hc

/-- immutable scalars are not copied (CPython shares them too; C12 is about mutable containers) -/
theorem deepcopy'_scalar (h : Heap) (v : Val) (hs : (∀ a, v ≠ .ref a) ∧ (∀ vs, v ≠ .tuple vs)) :
    deepcopy' h v = .ok (v, h) := by
  obtain ⟨h1, h2⟩ := hs
  have hf : heapWeight h + 64 = (heapWeight h + 63) + 1 := by omega
  unfold deepcopy'
  rw [hf]
  cases v <;> simp_all [deepcopy]

/-- all four assignment forms store the deepcopy, never the value itself:
    `x = e` … -/
theorem assign_stores_copy (n : Name) (vmi : Nat) (v : Val) (k : List Frame) (w : World) :
    resume (.assignK n vmi) v k w =
      match deepcopy' w.heap v with
      | .error e => mkRaise e k w
      | .ok (v', h') =>
        match w.vm? vmi with
        | none => mkRaise (.unmodelled "vm") k w
        | some vm => match writeTop h' vm.scopes n v' with
          | some h'' => mkRet .none k { w with heap := h'' }
          | none => mkRaise (.unmodelled "scope") k w := rfl

/-- … `c[k] = e` … -/
theorem setitem_stores_copy (s : BState) (c k v : Val) :
    bSetItem s c k v =
      match checkArraySize s.heap c with
      | .error e => .error e
      | .ok () => match keyCast s.heap c k with
        | .error e => .error e
        | .ok k' => match deepcopy' s.heap v with
          | .error e => .error e
          | .ok (v', h') => match pySetItem { s with heap := h' } c k' v' with
            | .ok s' => ret v s'
            | .error e => .error e := rfl

/-- … and the compound forms copy their right-hand side before combining -/
theorem short_copies_rhs (n : Name) (sk : ShortK) (vmi : Nat) (v : Val) (k : List Frame) (w : World) (e : PyErr)
    (hc : deepcopy' w.heap v = .error e) : resume (.shortK n sk vmi) v k w = mkRaise e k w := by
  simp [resume, hc]

/-- **[B] the copy reaches only objects created by the copy**: after `copy.deepcopy` (heap `h` → `h'`), every
    object reachable from the result — through any depth of lists, dicts and tuples — is NEW (address ≥ |h|) -/
theorem copy_reaches_only_new_objects (h : Heap) (v v' : Val) (h' : Heap) (hk : KeysPlain h)
    (hc : deepcopy' h v = .ok (v', h')) : ∀ c, Reach h' v' c → c ≥ h.size := by
  obtain ⟨hv, hobj, _⟩ := deepcopy'_fresh h v v' h' hk hc
  exact fun c hr => reach_ge hobj hr hv

/-- **[B] older values reach only old, unchanged objects**: any value that existed before the copy (all its
    addresses < |h|) still reaches, in the new heap, only objects < |h| — each exactly as it was -/
theorem old_values_reach_only_old_objects (h : Heap) (v v' : Val) (h' : Heap) (hcl : Closed h)
    (hc : deepcopy' h v = .ok (v', h')) (u : Val) (hu : RefsLt h.size u) :
    ∀ c, Reach h' u c → c < h.size ∧ h'.get? c = h.get? c := by
  have hx := deepcopy'_frame h v v' h' hc
  intro c hr
  have hlt : c < h.size := by
    refine reach_lt (n := h.size) ?_ hr hu
    intro a ha o hg
    rw [hx.2 a ha] at hg
    exact hcl a o hg
  exact ⟨hlt, hx.2 c hlt⟩

/-- **[B] independence of the stored copy**: no object is reachable both from the copy and from an older value.
    Hence a mutation applied through any other variable, container or host object (it can only touch objects
    reachable from an older value) is invisible through the stored value, and vice versa. -/
theorem stored_copy_is_independent (h : Heap) (v v' : Val) (h' : Heap) (hk : KeysPlain h) (hcl : Closed h)
    (hc : deepcopy' h v = .ok (v', h')) (u : Val) (hu : RefsLt h.size u) :
    ∀ c, ¬ (Reach h' v' c ∧ Reach h' u c) := by
  intro c ⟨h1, h2⟩
  have := copy_reaches_only_new_objects h v v' h' hk hc c h1
  have := (old_values_reach_only_old_objects h v v' h' hcl hc u hu c h2).1
  omega

/-- non-vacuity: a heap with a nested list satisfies the hypotheses, and its copy succeeds -/
example : KeysPlain #[.list [.ref 1], .list [.int 7]] ∧ Closed #[.list [.ref 1], .list [.int 7]] ∧
    (deepcopy' #[.list [.ref 1], .list [.int 7]] (.ref 0)).isOk = true := by
  refine ⟨?_, ?_, by decide⟩
  · intro a kvs hg
    match a, hg with
    | 0, hg => cases hg
    | 1, hg => cases hg
    | n + 2, hg => simp [Heap.get?] at hg
  · intro a o hg
    match a, hg with
    | 0, hg =>
      simp [Heap.get?] at hg; subst hg
      intro v hv; simp at hv; subst hv; exact RefsLt.ref (by decide)
    | 1, hg =>
      simp [Heap.get?] at hg; subst hg
      intro v hv; simp at hv; subst hv; exact RefsLt.int
    | n + 2, hg => simp [Heap.get?] at hg

/-! ### [B] the stored copy has the CONTENT of the value it was made from -/

/-- **deepcopy_iso**: the copy stored by `x = e` / `c[k] = e` reads exactly like the value it was made from: at every
    depth the two unfold to the same tree — same scalars in the same places, same lengths, same dict keys (cycles
    included: copy and original are bisimilar as rooted graphs) — and the original still reads as before.  Together with
    `stored_copy_is_independent` (no object shared with anything older) this is value semantics: same content, disjoint
    objects. -/
theorem stored_copy_has_same_content (h : Heap) (v v' : Val) (h' : Heap) (hcl : Closed h) (hv : RefsLt h.size v)
    (hc : deepcopy' h v = .ok (v', h')) (n : Nat) :
    unfoldT n h' v' = unfoldT n h v ∧ unfoldT n h' v = unfoldT n h v :=
  deepcopy'_unfold h v v' h' hcl hv hc n

/-- the invariant of the walk, for the record: every pair of the memo is finished at the end — the new object is the old
    one with its children replaced through the memo -/
theorem copy_walk_invariant (b : Nat) (h0 : Heap) (hcl : ∀ a o, a < b → h0.get? a = some o → ObjLt b o) (f : Nat)
    (h : Heap) (m : Memo) (v v' : Val) (h2 : Heap) (m2 : Memo) (hc : deepcopy f h m v = some (v', h2, m2))
    (hi : CI b h0 h m) (hv : RefsLt b v) : Spec b h0 h m h2 m2 ∧ Via m2 v v' :=
  (copy_spec b h0 hcl f).1 h m v v' h2 m2 hc hi hv

/-- non-vacuity: the nested list of the example above; its copy consists of two new objects and reads `[[7]]` -/
example : (deepcopy' #[.list [.ref 1], .list [.int 7]] (.ref 0)).toOption.map (fun r => r.2.size) = some 4 ∧
    (∀ h' v', deepcopy' #[.list [.ref 1], .list [.int 7]] (.ref 0) = .ok (v', h') →
      unfoldT 3 h' v' = .list [.list [.leaf (.int 7)]]) := by
  refine ⟨by decide +kernel, ?_⟩
  intro h' v' hc
  have hcl : Closed #[.list [.ref 1], .list [.int 7]] := by
    intro a o hg
    match a, hg with
    | 0, hg =>
      simp [Heap.get?] at hg; subst hg
      intro v hv; simp at hv; subst hv; exact RefsLt.ref (by decide)
    | 1, hg =>
      simp [Heap.get?] at hg; subst hg
      intro v hv; simp at hv; subst hv; exact RefsLt.int
    | n + 2, hg => simp [Heap.get?] at hg
  rw [(stored_copy_has_same_content _ _ _ _ hcl (RefsLt.ref (by decide)) hc 3).1]
  rfl

/-- **the copy keeps the aliasing structure**: the stored copy is the original with every address replaced through ONE map that
    sends two addresses to the same new address exactly when they are the same address — what was shared inside the value
    stays shared inside the copy (two paths to one object), what was distinct stays distinct, cycles stay cycles; every
    new object is the old one with its children replaced through that map (`Done`) -/
theorem stored_copy_keeps_sharing (h : Heap) (v v' : Val) (h' : Heap) (hcl : Closed h) (hv : RefsLt h.size v)
    (hc : deepcopy' h v = .ok (v', h')) :
    ∃ m : Memo, Via m v v' ∧ (∀ p, p ∈ m → Done h h' m p) ∧
      ∀ a1 a2 p1 p2, m.get a1 = some p1 → m.get a2 = some p2 → (p1.2 = p2.2 ↔ a1 = a2) :=
  deepcopy'_sharing h v v' h' hcl hv hc

end SqProps.C12
