/-
  C02 — sandbox confinement: programs only touch plain data and do no I/O.
  Model-level content: the value domain separates plain data (None, bool, numbers, str, tuple,
  slice, list / dict references), callables the language itself provides (builtin, closure, host)
  and `opaque` — any Python object that is NOT plain data.  [A]: literals and operators never
  produce an opaque value; the builtins that wrap library calls return lists / strings, not views,
  iterators or match objects; the machine's event type has no I/O constructor.  D15 (finding):
  subscripting the builtin `dict` (the *type*) yields a `types.GenericAlias`.  The I/O half of the
  property is carried by the external-call whitelist tie (SqTie.Imports) and the audit-hook
  monitor, not by a semantic theorem about CPython.
  [B] `every_builtin_returns_plain_data` (SqLemmas/PlainAll.lean, one lemma per entry of the table, 42 entries): plain
  arguments, a plain heap and plain regex-engine answers give a plain result and leave heap and answers plain — the
  ONLY exception being an index read whose container is the type object `dict` (D15).  `copy.deepcopy`, all arithmetic
  primitives and the in-place operators are covered on the way.  `plain_step` / `plain_run` (SqLemmas/PlainMachine.lean):
  the same for the whole machine — control, every continuation frame, iteration state, heap, probe table — over whole runs.
-/
import Sq.Machine
import SqProps.C13
import SqLemmas.PlainAll
import SqLemmas.PlainMachine
namespace SqProps.C02
open Sq

def notOpaque : Val → Prop
  | .opaque _ => False
  | _ => True

/-- literals evaluate to plain scalars -/
theorem literal_plain (l : Lit) (vm : Nat) (k : List Frame) (w : World) :
    ∃ v, enter (.value l) vm k w = mkRet v k w ∧ notOpaque v := by
  cases l <;> exact ⟨_, rfl, trivial⟩

/-- a lambda expression evaluates to a closure of the language (not a Python function object
    the program could introspect: closures have no attributes in the language — there is no
    attribute access in the grammar, SqTie.grammar_tie) -/
theorem lambda_is_closure (ps : List Op) (b : Op) (vm : Nat) (k : List Frame) (w : World) :
    enter (.lambda ps b) vm k w = mkRet (.closure ps b vm) k w := rfl

/-- comparison and membership operators return booleans -/
theorem comparisons_return_bool (w : World) (bk : BinK) (a b v : Val) (w' : World)
    (hk : bk = .eq ∨ bk = .ne ∨ bk = .lt ∨ bk = .gt ∨ bk = .le ∨ bk = .ge ∨ bk = .isin ∨ bk = .notin)
    (h : applyBin w bk a b = .ok (v, w')) : ∃ t, v = .bool t := by
  rcases hk with rfl | rfl | rfl | rfl | rfl | rfl | rfl | rfl <;>
  · simp only [applyBin] at h
    first
      | (cases hx : pyEq' w.heap a b <;> simp [hx, Except.map] at h; exact ⟨_, h.1.symm⟩)
      | (cases hx : pyLt' w.heap a b <;> simp [hx, Except.map] at h; exact ⟨_, h.1.symm⟩)
      | (cases hx : pyLt' w.heap b a <;> simp [hx, Except.map] at h; exact ⟨_, h.1.symm⟩)
      | (cases hx : pyLe' w.heap a b <;> simp [hx, Except.map] at h; exact ⟨_, h.1.symm⟩)
      | (cases hx : pyLe' w.heap b a <;> simp [hx, Except.map] at h; exact ⟨_, h.1.symm⟩)
      | (cases hx : pyIn w.heap a b <;> simp [hx, Except.map] at h; exact ⟨_, h.1.symm⟩)

/-- `not` returns a boolean -/
theorem not_returns_bool (w : World) (a : Val) : applyUn w .not a = .ok (.bool (!truthy w.heap a)) := rfl

/-- `keys` / `values` / `items` / `enumerate` / `reversed` return LISTS (new heap objects), not
    dict views or iterators: a successful result is a value-with-unchanged-heap or a freshly
    allocated list / dict (C13.Harmless) -/
theorem views_are_lists (args : List Val) (s : BState) :
    C13.Harmless s (b_keys args s) ∧ C13.Harmless s (b_values args s) ∧ C13.Harmless s (b_items args s) ∧
    C13.Harmless s (b_enumerate args s) ∧ C13.Harmless s (b_reversed args s) :=
  ⟨C13.keys_harmless args s, C13.values_harmless args s, C13.items_harmless args s,
   C13.enumerate_harmless args s, C13.reversed_harmless args s⟩

/-- the machine can record only host-probe calls and swallowed exceptions: there is no event
    for file, process, network, import or dynamic-code activity -/
theorem effects_closed (e : Event) : (∃ a, e = .probe a) ∨ (∃ c, e = .caught c) := by
  cases e with
  | probe a => exact Or.inl ⟨a, rfl⟩
  | caught c => exact Or.inr ⟨c, rfl⟩

/-- D15 (finding): `dict[k]` subscripts the builtin *type* and yields a non-plain object -/
theorem dict_alias_counterexample (s : BState) (k : Val) :
    pyGetItem s (.builtin "dict") k = .ok (.opaque "GenericAlias", s) := by
  simp [pyGetItem, ret]

/-- … and only `dict`: subscripting any other builtin or a closure is a TypeError -/
theorem other_callables_not_subscriptable (s : BState) (ps : List Op) (b : Op) (vm : Nat) (k : Val) :
    pyGetItem s (.closure ps b vm) k = .error .typeError := by
  simp [pyGetItem]

/-- **[B] every builtin returns plain data**: for every entry of the builtin table, all argument lists and states —
    if no argument, no heap object and no regex-engine answer contains a non-plain Python object, then neither does the
    result, the heap afterwards, nor the answers left; unless the first argument is the type object `dict` (D15) -/
theorem every_builtin_returns_plain_data : ∀ p, p ∈ callPureTable → ∀ args s v s', AllNP args → StNP s →
    args.head? ≠ some (.builtin "dict") → p.2 args s = .ok (v, s') → NP v ∧ StNP s' := table_plain

theorem builtin_call_returns_plain_data (name : String) (args : List Val) (s : BState) (v : Val) (s' : BState)
    (ha : AllNP args) (hs : StNP s) (hnd : args.head? ≠ some (.builtin "dict"))
    (h : callPure name args s = .ok (v, s')) : NP v ∧ StNP s' := callPure_plain name args s v s' ha hs hnd h

/-- `NP` really excludes the non-plain objects, at any depth -/
theorem np_excludes_opaque (k : String) (vs ws : List Val) : ¬ NP (.tuple (vs ++ [.tuple (.opaque k :: ws)])) := by
  intro h
  cases h with
  | tuple hall =>
    have := hall (.tuple (.opaque k :: ws)) (by simp)
    cases this with
    | tuple h2 =>
      have := h2 (.opaque k) (by simp)
      cases this

/-- stored copies are plain too: `copy.deepcopy` of plain data in a plain heap -/
theorem deepcopy_returns_plain_data {h : Heap} {v v' : Val} {h' : Heap} (hh : HeapNP h) (hv : NP v)
    (hc : deepcopy' h v = .ok (v', h')) : HeapNP h' ∧ NP v' := deepcopy'_np hh hv hc

/-- **[B] plain_step**: if every value of a configuration (control, continuation frames incl. iteration state, heap,
    regex answers, probe table) is plain data and the type object `dict` is not among them, then after one machine
    step — whatever it does: any builtin, lambda call, map / filter / reduce / sorted, host callback, assignment with its
    deep copy, error unwinding — every value of the configuration is plain data -/
theorem plain_data_is_closed_under_steps (budgets : List Nat) (c : Core) (hc : CorePD c) : CoreNP (stepCore budgets c) :=
  plain_step budgets c hc

/-- … and along whole runs, as long as the type object `dict` does not turn up as a value (the D15 side condition) -/
theorem plain_data_along_runs (n : Nat) (c : Cfg) (h0 : CorePD c.core)
    (hfree : ∀ i, i < n → CoreNP (run (i + 1) c).core → CorePD (run (i + 1) c).core) :
    ∀ i, i ≤ n → CoreNP (run i c).core := fun i hi => (plain_run n c h0 hfree i hi).1

/-- non-vacuity: a configuration about to evaluate `1 + 2` over a heap holding one empty names mapping satisfies the
    hypothesis of `plain_step` -/
example : CorePD ({ ctl := .ev (.bin .add (.value (.num (Dec.ofInt 1))) (.value (.num (Dec.ofInt 2)))) 0, k := [], w := { heap := #[.dict []], vms := [{ scopes := [0], ops := 0 }], log := [], rng := 1, rx := [], probes := [] } } : Core) := by
  refine ⟨trivial, fun fr h => (by cases h), ⟨?_, fun a h => (by cases h), fun p h => (by cases h)⟩⟩
  intro a o hg
  match a, hg with
  | 0, hg =>
    have : o = .dict [] := by simp [Heap.get?] at hg; exact hg.symm
    subst this
    exact fun kv h => by cases h
  | n + 1, hg => simp [Heap.get?] at hg

end SqProps.C02
