/-
  C05 — regular-expression builtins cannot hang the host (PARTIAL: the logic part).
  What a theorem can carry: every engine call made by `match`, `match_groups`, `match_all` carries
  the timeout, the timeout is the 50 ms constant, and the builtin itself does no work that depends
  on the subject beyond handing it to the engine (`bRegex` consumes exactly one engine answer).
  The wall-clock behaviour of the third-party engine (whether it honours the timeout; pattern
  *compilation*, which the timeout does not cover: finding D14) is measured by the monitor.
-/
import Sq.Machine
namespace SqProps.C05
open Sq

theorem rxGo_timeout (name : String) (s p fl : Val) (req : RxReq)
    (h : rxGo name s p fl = .ok req) : req.timeout = some regexTimeoutMicros := by
  unfold rxGo at h
  split at h
  · simp at h
  · split at h
    · simp only [Except.ok.injEq] at h
      rw [← h]
    · simp [U] at h

/-- every engine request produced by a regex builtin carries `timeout = 50000 µs` -/
theorem regex_timeout_passed (name : String) (args : List Val) (req : RxReq)
    (h : rxRequest name args = .ok req) : req.timeout = some regexTimeoutMicros := by
  unfold rxRequest at h
  split at h
  · exact rxGo_timeout _ _ _ _ _ h
  · exact rxGo_timeout _ _ _ _ _ h
  · simp at h

theorem timeout_is_small_and_positive : 0 < regexTimeoutMicros ∧ regexTimeoutMicros ≤ 50000 := by decide

/-- the three builtins reach the engine only through `rxRequest` (so the previous theorem covers
    every call): if `rxRequest` fails, no engine answer is consumed -/
theorem regex_no_request_no_call (name : String) (args : List Val) (s : BState) (e : PyErr)
    (h : rxRequest name args = .error e) : bRegex name args s = .error e := by
  simp [bRegex, h]

/-- one successful builtin call consumes exactly one engine answer -/
theorem regex_one_engine_call (name : String) (args : List Val) (s : BState) (v : Val) (s' : BState)
    (h : bRegex name args s = .ok (v, s')) : ∃ ans, s.rx = ans :: s'.rx := by
  unfold bRegex at h
  split at h
  · simp at h
  · split at h
    · simp [U] at h
    · rename_i ans rest hrx
      refine ⟨ans, ?_⟩
      rw [hrx]
      split at h <;> simp [ret, allocList, U, Heap.alloc] at h <;> (try (obtain ⟨_, h2⟩ := h; rw [← h2]))

/-- the dispatch table routes the three names to `bRegex` -/
theorem match_dispatch (args : List Val) (s : BState) (hg : typeObjectGuard "match" args = false) :
    callPure "match" args s = bRegex "match" args s := by
  simp [callPure, callPureTable, hg, b_match]

/-- non-vacuity: a concrete call produces a request with the timeout -/
example : (rxRequest "match" [.str ['a'], .str ['a']]).toOption.map (·.timeout) = some (some 50000) := by decide

end SqProps.C05
