/-
  C11 — history independence: every call depends only on its own arguments.
  The session threads exactly the mutable per-parser state the code has (lexer fields left by the
  previous call, cache, the world of earlier evals).  The calls perform the code's resets and then
  read the fields from the session; the theorems say the results do not depend on what the session
  held; the examples show that without a reset they would (non-vacuity).
-/
import Sq.Session
namespace SqProps.C11
open Sq

/-- with all three resets the lexer starts every call from the initial state, whatever the
    previous call left behind -/
theorem resets_establish_init (st : LexSt) : applyResets Resets.all st = LexSt.init := rfl

/-- `parse` (no cache): the result is the parse function applied to the text from the initial
    lexer state — independent of the session -/
theorem parse_indep (pf : ParseFn) (pol : Policy) (s s' : Session) (expr : List Char)
    (h : s.cache = none) (h' : s'.cache = none) :
    (parseCall pf pol s expr).1 = (parseCall pf pol s' expr).1 := by
  simp [parseCall, parseCallWith, h, h', resets_establish_init]

theorem parse_is_fresh (pf : ParseFn) (pol : Policy) (s : Session) (expr : List Char) (h : s.cache = none) :
    (parseCall pf pol s expr).1 = pf LexSt.init expr := by
  simp [parseCall, parseCallWith, h, resets_establish_init]

/-- `list_names` (consumed fully, partially, or not at all): independent of the session -/
theorem list_names_indep (s s' : Session) (expr : List Char) (limit : Option Nat) :
    (listNamesCall s expr limit).1 = (listNamesCall s' expr limit).1 := by
  simp [listNamesCall, listNamesCallWith, resets_establish_init]

/-- after any call the cache is still absent and the next call is again independent: lifts to
    every finite sequence of parse / list_names calls, whatever their outcome -/
theorem parse_keeps_no_cache (pf : ParseFn) (pol : Policy) (s : Session) (expr : List Char) (h : s.cache = none) :
    (parseCall pf pol s expr).2.cache = none := by
  simp [parseCall, parseCallWith, h]

theorem list_names_keeps_cache (s : Session) (expr : List Char) (limit : Option Nat) :
    (listNamesCall s expr limit).2.cache = s.cache := by
  simp [listNamesCall, listNamesCallWith]

/-- a history of parse / list_names calls (any outcomes, generators abandoned anywhere) followed
    by a parse: the last result is what a fresh session gives -/
inductive Call
  | parse (expr : List Char)
  | names (expr : List Char) (limit : Option Nat)

def runCall (pf : ParseFn) (pol : Policy) (s : Session) : Call → Session
  | .parse e => (parseCall pf pol s e).2
  | .names e l => (listNamesCall s e l).2

theorem history_keeps_no_cache (pf : ParseFn) (pol : Policy) (cs : List Call) (s : Session) (h : s.cache = none) :
    (cs.foldl (runCall pf pol) s).cache = none := by
  induction cs generalizing s with
  | nil => exact h
  | cons c cs ih =>
    apply ih
    cases c with
    | parse e => exact parse_keeps_no_cache pf pol s e h
    | names e l => simp [runCall, list_names_keeps_cache, h]

theorem history_indep_parse (pf : ParseFn) (pol : Policy) (cs : List Call) (s : Session) (h : s.cache = none)
    (expr : List Char) :
    (parseCall pf pol (cs.foldl (runCall pf pol) s) expr).1 = pf LexSt.init expr :=
  parse_is_fresh pf pol _ expr (history_keeps_no_cache pf pol cs s h)

theorem history_indep_names (pf : ParseFn) (pol : Policy) (cs : List Call) (s : Session)
    (expr : List Char) (limit : Option Nat) :
    (listNamesCall (cs.foldl (runCall pf pol) s) expr limit).1 = (listNamesCall s expr limit).1 :=
  list_names_indep _ _ _ _

/-- `parse` and `list_names` never touch the evaluation state (heap, VM states, log, budgets) -/
theorem parse_keeps_world_nocache (pf : ParseFn) (pol : Policy) (s : Session) (expr : List Char) (h : s.cache = none) :
    (parseCall pf pol s expr).2.world = s.world ∧ (parseCall pf pol s expr).2.budgets = s.budgets := by
  simp only [parseCall, parseCallWith, h]
  cases pf (applyResets Resets.all s.lex) expr <;> exact ⟨rfl, rfl⟩

theorem history_keeps_world (pf : ParseFn) (pol : Policy) (cs : List Call) (s : Session) (h : s.cache = none) :
    (cs.foldl (runCall pf pol) s).world = s.world ∧ (cs.foldl (runCall pf pol) s).budgets = s.budgets := by
  induction cs generalizing s with
  | nil => exact ⟨rfl, rfl⟩
  | cons c cs ih =>
    simp only [List.foldl_cons]
    cases c with
    | parse e =>
      obtain ⟨h1, h2⟩ := ih (runCall pf pol s (.parse e)) (parse_keeps_no_cache pf pol s e h)
      obtain ⟨w1, b1⟩ := parse_keeps_world_nocache pf pol s e h
      exact ⟨h1.trans w1, h2.trans b1⟩
    | names e l =>
      obtain ⟨h1, h2⟩ := ih (runCall pf pol s (.names e l)) (by simp [runCall, list_names_keeps_cache, h])
      exact ⟨h1, h2⟩

/-- **[B] `eval` after any history of parse / list_names calls** — successful, failed with lexical or syntax errors,
    generators abandoned midway — gives the result, the error and the world (names mappings, host objects, log) that the
    same `eval` gives without that history -/
theorem history_indep_eval (pf : ParseFn) (pol : Policy) (fuel : Nat) (cs : List Call) (s : Session) (h : s.cache = none)
    (expr : List Char) (namesAddr budget : Nat) :
    (evalCall pf pol fuel (cs.foldl (runCall pf pol) s) expr namesAddr budget).1 = (evalCall pf pol fuel s expr namesAddr budget).1 ∧
    (evalCall pf pol fuel (cs.foldl (runCall pf pol) s) expr namesAddr budget).2.world =
      (evalCall pf pol fuel s expr namesAddr budget).2.world := by
  obtain ⟨hw, hb⟩ := history_keeps_world pf pol cs s h
  have hn := history_keeps_no_cache pf pol cs s h
  generalize cs.foldl (runCall pf pol) s = s2 at hw hb hn
  simp only [evalCall, evalCallWith]
  have e1 : parseCallWith Resets.all pf pol s2 (Str.rstrip expr) = parseCall pf pol s2 (Str.rstrip expr) := rfl
  have e2 : parseCallWith Resets.all pf pol s (Str.rstrip expr) = parseCall pf pol s (Str.rstrip expr) := rfl
  rw [e1, e2]
  have hp := parse_indep pf pol s2 s (Str.rstrip expr) hn h
  obtain ⟨w1, b1⟩ := parse_keeps_world_nocache pf pol s2 (Str.rstrip expr) hn
  obtain ⟨w2, b2⟩ := parse_keeps_world_nocache pf pol s (Str.rstrip expr) h
  generalize parseCall pf pol s2 (Str.rstrip expr) = p at hp w1 b1
  generalize parseCall pf pol s (Str.rstrip expr) = p' at hp w2 b2
  obtain ⟨r, s1⟩ := p
  obtain ⟨r', s1'⟩ := p'
  simp only at hp w1 b1 w2 b2
  subst hp
  have hww : s1.world = s1'.world := by rw [w1, w2, hw]
  have hbb : s1.budgets = s1'.budgets := by rw [b1, b2, hb]
  cases r with
  | ok ast =>
    simp only []
    rw [hww, hbb]
    cases (runUntil fuel (initCfg s1'.world s1'.budgets namesAddr budget ast)).ctl <;> exact ⟨rfl, rfl⟩
  | lexErr c => exact ⟨rfl, hww⟩
  | synErr x y => exact ⟨rfl, hww⟩
  | resErr m => exact ⟨rfl, hww⟩
  | unmodelled u => exact ⟨rfl, hww⟩

/-- `eval`: the parse stage is independent of the session; the evaluation runs on a *fresh* VM
    state carrying the caller's budget, whose scope stack holds only the caller's mapping -/
theorem eval_fresh_vm (w : World) (bs : List Nat) (namesAddr budget : Nat) (ast : Op) :
    let c := initCfg w bs namesAddr budget ast
    c.w.vms = w.vms ++ [{ scopes := [namesAddr], ops := 0 }] ∧ c.budgets = bs ++ [budget] ∧
    c.ctl = .ev ast w.vms.length ∧ c.k = [] := by
  simp [initCfg]

/-! non-vacuity: the lexer really reads the fields — WITHOUT the `paren_count` reset, a session
    left at depth 1 by an unbalanced earlier text lexes `1\n2` differently (the line break is
    swallowed), and without the `lineno` reset the reported line differs. -/
example :
    let stale : LexSt := { pos := 0, line := 1, depth := 1 }
    ((lexFrom stale "1\n2".toList).toOption.map (·.1.length), (lexFrom LexSt.init "1\n2".toList).toOption.map (·.1.length))
      = (some 2, some 3) := by decide +kernel

example :
    let noDepthReset : Resets := { depth := false }
    applyResets noDepthReset { pos := 7, line := 3, depth := 1 } = { pos := 0, line := 1, depth := 1 } := by decide

/-- D9 (finding): what is NOT independent — a lambda stored in a names mapping by an earlier
    `eval` keeps charging the VM state of the eval that created it.  The closure value records
    that VM index, and calling it evaluates the body on that VM (C10.call_pushes_scope), so its
    operations are counted against the old budget, not the current call's. -/
theorem closure_charges_creator_vm (fuel : Nat) (ps : List Op) (body : Op) (vmOld : Nat) (args : List Val)
    (k : List Frame) (w : World) (kvs : List (Val × Val)) (vm : VM)
    (hb : bindParams ps args [] = some kvs) (hv : w.vm? vmOld = some vm) :
    (callVal (fuel + 1) (.closure ps body vmOld) args k w).ctl = .ev body vmOld := by
  simp [callVal, callClosure, hb, hv]

end SqProps.C11
