/-
  C14 — lists and dicts behave like their models under any operation sequence.
  Spec: a list is a `List Val` addressed by Python index normalisation (`normIndex`), a dict is an
  insertion-ordered association list keyed by the `str()` of the key.  [A]: one key-cast shared by
  literal / read / write / get / del / compound write; write-then-read on str-keyed dicts; decimal
  indices truncate; negative indices count from the end; failing reads and pop-from-empty are
  ParserErrors and (being errors) change nothing.
-/
import Sq.Machine
import SqLemmas.DictRefine
import SqLemmas.ListRefine
import SqLemmas.SliceLemmas
import SqProps.C13
namespace SqProps.C14
open Sq

/-! ### the key cast is one function, used identically everywhere -/

theorem read_uses_keyCast (s : BState) (c k : Val) :
    bGetItem s c k = match keyCast s.heap c k with
      | .error e => .error e
      | .ok k' => match pyGetItem s c k' with
        | .error .keyError => .error (.parser "Key error")
        | .error .indexError => .error (.parser "Key error")
        | r => r := rfl

theorem literal_uses_dictKeyCast (h : Heap) (k v : Val) (rest : List Val) (acc : List (Val × Val)) :
    buildDict h (k :: v :: rest) acc = match dictKeyCast h k with
      | .error e => .error e
      | .ok (.str ks) => buildDict h rest (kvSet acc ks v)
      | .ok _ => U "dict-key" := rfl

/-- for a dict container every operation casts the key with `str` -/
theorem keyCast_dict (h : Heap) (c k : Val) (hd : isDict h c = true) : keyCast h c k = dictKeyCast h k := by
  simp [keyCast, hd]

/-- for a list (or any non-dict) container: decimals are truncated to ints, other keys unchanged -/
theorem keyCast_list (h : Heap) (c k : Val) (hd : isDict h c = false) : keyCast h c k = .ok (listKeyCast k) := by
  simp [keyCast, hd]

theorem decimal_index_truncates (d : Dec) (c : Bool) : listKeyCast (.dec d c) = .int d.toInt := rfl

/-! ### index normalisation -/

theorem negative_index_from_end (n : Nat) (i : Int) (hi : i < 0) (hr : -(n : Int) ≤ i) :
    normIndex n i = some (i + n).toNat := by
  have h1 : 0 ≤ i + (n : Int) := by omega
  have h2 : i + (n : Int) < n := by omega
  simp [normIndex, hi, h1, h2]

theorem nonneg_index (n : Nat) (i : Int) (h0 : 0 ≤ i) (hn : i < n) : normIndex n i = some i.toNat := by
  have : ¬ i < 0 := by omega
  simp [normIndex, this, h0, hn]

theorem out_of_range_index (n : Nat) (i : Int) (h : i ≥ n ∨ i < -(n : Int)) : normIndex n i = none := by
  unfold normIndex
  rcases h with h | h
  · have : ¬ i < 0 := by omega
    simp [this]; omega
  · have : i < 0 := by omega
    simp [this]; omega

/-! ### string-keyed association lists (what every dict access of the language goes through) -/

/-- writing under a string key and then looking that key up yields the written value -/
theorem kvSet_then_find (kvs : List (Val × Val)) (n : Name) (v : Val) :
    ((kvSet kvs n v).find? (fun kv => keyIsName kv.1 n)).map (·.2) = some v := by
  induction kvs with
  | nil => simp [kvSet, keyIsName]
  | cons kv r ih =>
    obtain ⟨k, v'⟩ := kv
    by_cases hk : keyIsName k n
    · simp [kvSet, hk]
    · simp [kvSet, hk, ih]

/-- … and leaves every other string key as it was -/
theorem kvSet_other_key (kvs : List (Val × Val)) (n m : Name) (v : Val) (hne : (m == n) = false)
    (hstr : ∀ p ∈ kvs, ∃ s, p.1 = .str s) :
    ((kvSet kvs n v).find? (fun kv => keyIsName kv.1 m)).map (·.2) =
    (kvs.find? (fun kv => keyIsName kv.1 m)).map (·.2) := by
  induction kvs with
  | nil =>
    have : (n == m) = false := by
      cases h : n == m
      · rfl
      · have := eq_of_beq h; subst this; simp at hne
    simp [kvSet, keyIsName, this]
  | cons kv r ih =>
    obtain ⟨k, v'⟩ := kv
    obtain ⟨s, hs⟩ := hstr (k, v') (by simp)
    simp at hs; subst hs
    have ih' := ih (fun p hp => hstr p (by simp [hp]))
    by_cases hk : s == n
    · have hsm : (s == m) = false := by
        have := eq_of_beq hk; subst this
        cases h : s == m
        · rfl
        · have := eq_of_beq h; subst this; simp at hne
      simp [kvSet, keyIsName, hk, hsm]
    · by_cases hm : s == m
      · simp [kvSet, keyIsName, hk, hm]
      · have e1 : keyIsName (Val.str s) n = false := by simp [keyIsName, hk]
        have e2 : keyIsName (Val.str s) m = false := by simp [keyIsName, hm]
        simp only [kvSet, e1, Bool.false_eq_true, if_false, List.find?_cons, e2]
        exact ih'

/-- deleting a string key makes a later read of that key miss (a dict holds a key at most once) -/
theorem kvErase_then_find_fresh (n : Name) (v : Val) (kvs : List (Val × Val))
    (hno : ∀ p ∈ kvs, keyIsName p.1 n = false) :
    ∀ p ∈ kvErase (kvSet kvs n v) n, keyIsName p.1 n = false := by
  induction kvs with
  | nil => simp [kvSet, kvErase, keyIsName]
  | cons kv r ih =>
    obtain ⟨k, v'⟩ := kv
    have hk : keyIsName k n = false := hno (k, v') (by simp)
    have ih' := ih (fun p hp => hno p (by simp [hp]))
    intro p hp
    simp [kvSet, kvErase, hk] at hp
    rcases hp with hp | hp
    · subst hp; exact hk
    · exact ih' p hp

/-- `d[k] = v` then `d[k]`: the dict-level write/read pair on the heap object -/
theorem dict_write_then_read (s s' : BState) (a : Nat) (ks : List Char) (v : Val)
    (hw : pySetItem s (.ref a) (.str ks) v = .ok s') (hd : isDict s.heap (.ref a) = true) :
    pyGetItem s' (.ref a) (.str ks) = .ok (v, s') := by
  unfold isDict at hd
  cases hg : s.heap.get? a with
  | none => simp [hg] at hd
  | some o =>
    cases o with
    | list xs => simp [hg] at hd
    | dict kvs =>
      simp [pySetItem, hg, isHashable, dictSet] at hw
      subst hw
      have hsz : a < s.heap.size := by
        simp [Heap.get?] at hg
        exact (Array.getElem?_eq_some_iff.mp hg).1
      simp [pyGetItem, Heap.get?, Heap.set, hsz, isHashable, dictFind, kvSet_then_find, ret]

/-- `d[k] = v` is followed by `d[k'] == v` whenever `str k = str k'`: both go through the same
    cast, so they address the same string key -/
theorem same_str_same_key (h : Heap) (k k' : Val) (hs : pyStr h k = pyStr h k') :
    dictKeyCast h k = dictKeyCast h k' := by
  simp [dictKeyCast, hs]

/-! ### failing reads and pops are ParserErrors; an error carries no new state -/

theorem read_missing_key_is_parser_error (s : BState) (a : Nat) (kvs : List (Val × Val)) (k : Val) (ks : List Char)
    (hg : s.heap.get? a = some (.dict kvs)) (hk : pyStr s.heap k = .ok ks)
    (hm : kvs.find? (fun kv => keyIsName kv.1 ks) = none) :
    bGetItem s (.ref a) k = .error (.parser "Key error") := by
  have hd : isDict s.heap (.ref a) = true := by simp [isDict, hg]
  simp [bGetItem, keyCast, hd, dictKeyCast, hk, Except.map, pyGetItem, hg, isHashable, dictFind, hm]

theorem read_out_of_range_is_parser_error (s : BState) (a : Nat) (xs : List Val) (i : Int)
    (hg : s.heap.get? a = some (.list xs)) (ho : normIndex xs.length i = none) :
    bGetItem s (.ref a) (.int i) = .error (.parser "Key error") := by
  have hd : isDict s.heap (.ref a) = false := by simp [isDict, hg]
  simp [bGetItem, keyCast, hd, listKeyCast, pyGetItem, hg, toInt?, ho]

theorem pop_empty_is_parser_error (s : BState) (a : Nat) (hg : s.heap.get? a = some (.list [])) :
    b_pop [.ref a] s = .error (.parser "pop from empty list") := by
  simp [b_pop, hg]

/-- `pop()` on a non-empty list returns the last element and removes exactly it -/
theorem pop_last (s : BState) (a : Nat) (xs : List Val) (x : Val)
    (hg : s.heap.get? a = some (.list (xs ++ [x]))) :
    b_pop [.ref a] s = .ok (x, { s with heap := s.heap.set a (.list xs) }) := by
  simp [b_pop, hg, ret, List.eraseIdx_append_of_length_le]

/-- `push` then `len` / last read: the pushed value is the last element -/
theorem push_appends (s : BState) (a : Nat) (xs : List Val) (v : Val)
    (hg : s.heap.get? a = some (.list xs)) (hl : xs.length < maxArraySize) :
    b_push [.ref a, v] s = .ok (.none, { s with heap := s.heap.set a (.list (xs ++ [v])) }) := by
  have : ¬ (xs.length ≥ maxArraySize) := by omega
  simp [b_push, checkArraySize, pyLen, hg, this, ret]

/-! ### [B] refinement over whole operation sequences (SqLemmas/DictRefine.lean) -/

/-- on string keys (every key the language produces, after `_dict_key_cast`) the heap-level write and delete
    ARE the association-list operations the refinement theorem is about -/
theorem dictSet_is_implStep (h : Heap) (kvs : List (Val × Val)) (ks : Name) (v : Val) :
    dictSet h kvs (.str ks) v = .ok (implStep kvs (.set ks v)) := rfl

theorem dictErase_is_implStep (h : Heap) (kvs : List (Val × Val)) (ks : Name) :
    dictErase h kvs (.str ks) = .ok (implStep kvs (.del ks)) := rfl

/-- **ops_refine (dict)**: under ANY sequence of writes and deletes, starting from any well-formed dict (string
    keys, none twice — e.g. the empty dict or a dict literal), the dict holds exactly what the mathematical dict
    holds: the same map from keys to values, the same key order; and stays well-formed -/
theorem ops_refine_dict (ops : List DOp) (kvs : List (Val × Val)) (hw : WFD kvs) :
    absMap (ops.foldl implStep kvs) = ops.foldl specMap (absMap kvs) ∧
    absOrder (ops.foldl implStep kvs) = ops.foldl specOrder (absOrder kvs) ∧
    WFD (ops.foldl implStep kvs) := dict_ops_refine ops kvs hw

/-- … what `keys`, `len`, and every read / `values` / `items` entry observe is that mathematical dict -/
theorem observers_see_the_spec (kvs : List (Val × Val)) (hw : WFD kvs) :
    kvs.map (·.1) = (absOrder kvs).map Val.str ∧ kvs.length = (absOrder kvs).length ∧
    (∀ s v, (Val.str s, v) ∈ kvs → absMap kvs s = some v) ∧
    (∀ s, dictFind #[] kvs (.str s) = .ok (absMap kvs s)) :=
  ⟨keys_are_order kvs hw, len_is_order_length kvs hw, entry_is_mapped kvs hw, fun _ => rfl⟩

/-- the empty dict is well-formed (non-vacuity), and a write followed by a delete of another key, then reads -/
example : WFD [] := wfd_nil
example : absMap ([DOp.set ['a'] (.int 1), .set ['b'] (.int 2), .del ['a'], .set ['b'] (.int 3)].foldl implStep []) ['b']
    = some (.int 3) := by rfl

/-! ### [B] lists through the heap (SqLemmas/ListRefine.lean) -/

/-- **one list operation**: `push`, `pop` (last / at a position), `insert`, the store of `c[i] = v`, `del c[i]` do to the
    object at address `a` exactly what Python's list does to the mathematical list (`specL`: append; removal at a
    position, negative positions counted from the end; clamped insertion; replacement) — the new heap is the old one
    with that object replaced — and fail, changing nothing, exactly when the specification refuses (empty pop, position
    out of range, 10000 elements reached) -/
theorem list_op_refines (s : BState) (a : Nat) (xs : List Val) (hg : s.heap.get? a = some (.list xs)) (op : LOp) :
    match specL xs op with
    | some ys => implL s a op = .ok { s with heap := s.heap.set a (.list ys) }
    | none => ∃ e, implL s a op = .error e ∧ Refusal e := implL_refines s a xs hg op

/-- **ops_refine for lists**: under any sequence of such operations the list object holds exactly the mathematical
    list, and no other object, nor the random state, nor the pending engine answers change -/
theorem ops_refine_list' (ops : List LOp) (s : BState) (a : Nat) (xs : List Val) (hg : s.heap.get? a = some (.list xs)) :
    (runImplL s a ops).heap.get? a = some (.list (runSpecL xs ops)) ∧
    (∀ b, b ≠ a → (runImplL s a ops).heap.get? b = s.heap.get? b) ∧
    (runImplL s a ops).rng = s.rng ∧ (runImplL s a ops).rx = s.rx := ops_refine_list ops s a xs hg

/-- the index normalisation of the builtins IS "negative positions count from the end" -/
theorem index_normalisation (n : Nat) (i : Int) : normIndex n i = pos? n i := normIndex_eq_pos n i

/-- a refusal is a language-level failure (ParserError / IndexError → ParserError at the call boundary), never an
    unmodelled case -/
example : Refusal (.parser "pop from empty list") ∧ Refusal .indexError ∧ ¬ Refusal (.unmodelled "x") :=
  ⟨trivial, trivial, fun h => h⟩

/-- non-vacuity: push 1, push 2, pop at -2, insert at 5 (clamped), write [0] = 9, refused pop at 7 -/
example : runSpecL [] [.push (.int 1), .push (.int 2), .popAt (-2), .insert 5 (.int 3), .set 0 (.int 9), .popAt 7] =
    [.int 9, .int 3] := by rfl
example : (runImplL { heap := #[.list []], rng := 0, rx := [] } 0
    [.push (.int 1), .push (.int 2), .popAt (-2), .insert 5 (.int 3), .set 0 (.int 9), .popAt 7]).heap.get? 0 =
    some (.list [.int 9, .int 3]) := by rfl


/-! ### [B] slices -/

/-- **`xs[a:b]` is the contiguous segment between its bounds** (`pyGetItem` on a list with a slice key returns
    `pick xs (sliceIndices …)`, Sq/Builtins.lean; `sliceIndices` transcribes `slice.indices`): a bound counts from the end when
    negative and is clamped to `0 .. len`; the elements between the bounds come out in order, none when the bounds cross -/
theorem slice_is_contiguous_segment (xs : List Val) (a b : Option Int) :
    ∃ idx, sliceIndices xs.length a b none = .ok idx ∧
      pick xs idx = (xs.drop (sliceBound xs.length a 0)).take (sliceBound xs.length b xs.length - sliceBound xs.length a 0) :=
  slice_is_segment xs a b

/-- a slice is never longer than its source, and `xs[:]` is all of `xs` -/
theorem slice_no_longer_than_source (xs : List Val) (a b : Option Int) :
    ∃ idx, sliceIndices xs.length a b none = .ok idx ∧ (pick xs idx).length ≤ xs.length ∧ (a = none → b = none → pick xs idx = xs) := by
  obtain ⟨idx, h1, h2⟩ := slice_is_segment xs a b
  refine ⟨idx, h1, ?_, ?_⟩
  · rw [h2, List.length_take, List.length_drop]; omega
  · intro ha hb; subst ha; subst hb
    rw [h2]; simp [sliceBound]

/-- **`xs[::-1]` is `xs` reversed** (the one slice form with a step the grammar spells: `[::k]`, here `k = -1`) -/
theorem slice_with_step_minus_one_reverses (xs : List Val) :
    ∃ idx, sliceIndices xs.length none none (some (-1)) = .ok idx ∧ pick xs idx = xs.reverse :=
  slice_reverse xs

/-- **`xs[::k]` with `k > 0` takes every `k`-th element, starting with the first**: the result has as many elements as
    there are multiples of `k` below the length (`⌈n / k⌉`), its `j`-th element is `xs[j * k]`, and every selected position
    lies inside the list (nothing is skipped silently by `pick`) -/
theorem slice_with_positive_step_takes_every_kth (xs : List Val) (k : Nat) (hk : 0 < k) :
    ∃ idx, sliceIndices xs.length none none (some (k : Int)) = .ok idx ∧
      (∀ i, i ∈ idx → i < xs.length) ∧
      (pick xs idx).length = (xs.length + k - 1) / k ∧
      ∀ j, j < (xs.length + k - 1) / k → (pick xs idx)[j]? = xs[j * k]? := by
  obtain ⟨h1, h2⟩ := slice_step_indices xs.length k hk
  obtain ⟨h3, h4⟩ := slice_step_elems xs k hk
  exact ⟨_, h1, h2, h3, h4⟩

/-- **`xs[::-k]` with `k > 0` takes every `k`-th element counted from the LAST one backwards**: `⌈n / k⌉` elements, the `j`-th
    being `xs[n - 1 - j * k]`, and `j * k < n` for each of them (so every selected position lies inside the list).
    `k = 1` is the reversal of `slice_with_step_minus_one_reverses`. With the positive case and the refused zero step this
    settles `[::k]` for every integer `k` -/
theorem slice_with_negative_step_takes_every_kth_from_the_end (xs : List Val) (k : Nat) (hk : 0 < k) :
    ∃ idx, sliceIndices xs.length none none (some (-(k : Int))) = .ok idx ∧
      (∀ j, j < (xs.length + k - 1) / k → j * k < xs.length) ∧
      (pick xs idx).length = (xs.length + k - 1) / k ∧
      ∀ j, j < (xs.length + k - 1) / k → (pick xs idx)[j]? = xs[xs.length - 1 - j * k]? := by
  obtain ⟨h1, h2⟩ := slice_neg_step_indices xs.length k hk
  obtain ⟨h3, h4⟩ := slice_neg_step_elems xs k hk
  exact ⟨_, h1, h2, h3, h4⟩

/-- **a zero step is refused** whatever the bounds (`ValueError: slice step cannot be zero`), it never selects anything -/
theorem slice_with_zero_step_is_refused (n : Nat) (a b : Option Int) :
    sliceIndices n a b (some 0) = .error .valueError :=
  slice_step_zero n a b

/-- `[10, 20, 30, 40, 50][::2]` = `[10, 30, 50]` (⌈5 / 2⌉ = 3 elements) -/
example : pick [10, 20, 30, 40, 50] ((sliceIndices 5 none none (some 2)).toOption.getD []) = [10, 30, 50] := by decide +kernel

/-- **every slice, whatever its bounds and step, selects positions inside the list and returns exactly one element per selected
    position**: the model's `pick` (which would skip a position outside the list) never skips, so nothing is lost or invented
    between `slice.indices` and the list the read returns -/
theorem slice_positions_inside_none_dropped (xs : List Val) (a b c : Option Int) (idx : List Nat)
    (h : sliceIndices xs.length a b c = .ok idx) :
    (∀ i, i ∈ idx → i < xs.length) ∧ (pick xs idx).length = idx.length ∧ idx.length ≤ xs.length :=
  ⟨sliceIndices_mem_lt _ _ _ _ _ h, pick_slice_length_eq xs a b c idx h, sliceIndices_length_le _ _ _ _ _ h⟩

/-- **the `j`-th element any slice returns is the element at the `j`-th position `slice.indices` selected** — with
    `slice_positions_inside_none_dropped` this determines the result of every slice read from the position list alone -/
theorem slice_elements_are_the_selected_positions (xs : List Val) (a b c : Option Int) (idx : List Nat)
    (h : sliceIndices xs.length a b c = .ok idx) (j : Nat) (hj : j < idx.length) :
    (pick xs idx)[j]? = xs[idx[j]]? :=
  slice_getElem xs a b c idx h j hj

/-- non-vacuity: `[::-2]`, `[-100:100]`, `[5:1]` on three elements all succeed -/
example : ((sliceIndices 3 none none (some (-2))).toOption.isSome ∧ (sliceIndices 3 (some (-100)) (some 100) none).toOption.isSome ∧
    (sliceIndices 3 (some 5) (some 1) none).toOption.isSome) := by decide +kernel

/-- **reading `c[a:b]` from a list object** returns a NEW list object holding exactly that segment, and leaves every object
    that existed before as it was (`HeapExt`): the slice is a copy of the spine, never a view -/
theorem slice_read_returns_new_segment (s : BState) (a : Nat) (xs : List Val) (lo hi : Option Int)
    (hg : s.heap.get? a = some (.list xs)) :
    pyGetItem s (.ref a) (.slice lo hi none) =
      .ok (allocList s ((xs.drop (sliceBound xs.length lo 0)).take (sliceBound xs.length hi xs.length - sliceBound xs.length lo 0))) ∧
    SqProps.C13.HeapExt s.heap (allocList s ((xs.drop (sliceBound xs.length lo 0)).take
      (sliceBound xs.length hi xs.length - sliceBound xs.length lo 0))).2.heap := by
  obtain ⟨idx, h1, h2⟩ := slice_is_segment xs lo hi
  refine ⟨?_, SqProps.C13.of_allocList rfl⟩
  unfold pyGetItem
  simp only [hg, h1, h2]

/-- **reading `c[::k]` (`k > 0`) from a list object** returns a NEW list object holding every `k`-th element, and leaves every
    object that existed before as it was -/
theorem step_slice_read_returns_new_list (s : BState) (a : Nat) (xs : List Val) (k : Nat) (hk : 0 < k)
    (hg : s.heap.get? a = some (.list xs)) :
    ∃ ys, pyGetItem s (.ref a) (.slice none none (some (k : Int))) = .ok (allocList s ys) ∧
      ys.length = (xs.length + k - 1) / k ∧ (∀ j, j < (xs.length + k - 1) / k → ys[j]? = xs[j * k]?) ∧
      SqProps.C13.HeapExt s.heap (allocList s ys).2.heap := by
  obtain ⟨idx, h1, _, h3, h4⟩ := slice_with_positive_step_takes_every_kth xs k hk
  refine ⟨pick xs idx, ?_, h3, h4, SqProps.C13.of_allocList rfl⟩
  unfold pyGetItem
  simp only [hg, h1]

/-- **reading `c[::-k]` (`k > 0`) from a list object** returns a NEW list object holding every `k`-th element from the end
    backwards, and leaves every object that existed before as it was -/
theorem negative_step_slice_read_returns_new_list (s : BState) (a : Nat) (xs : List Val) (k : Nat) (hk : 0 < k)
    (hg : s.heap.get? a = some (.list xs)) :
    ∃ ys, pyGetItem s (.ref a) (.slice none none (some (-(k : Int)))) = .ok (allocList s ys) ∧
      ys.length = (xs.length + k - 1) / k ∧ (∀ j, j < (xs.length + k - 1) / k → ys[j]? = xs[xs.length - 1 - j * k]?) ∧
      SqProps.C13.HeapExt s.heap (allocList s ys).2.heap := by
  obtain ⟨idx, h1, _, h3, h4⟩ := slice_with_negative_step_takes_every_kth_from_the_end xs k hk
  refine ⟨pick xs idx, ?_, h3, h4, SqProps.C13.of_allocList rfl⟩
  unfold pyGetItem
  simp only [hg, h1]

/-- `[10, 20, 30, 40, 50][::-2]` = `[50, 30, 10]`, `[10, 20, 30, 40][::-3]` = `[40, 10]` -/
example : pick [10, 20, 30, 40, 50] ((sliceIndices 5 none none (some (-2))).toOption.getD []) = [50, 30, 10] ∧
    pick [10, 20, 30, 40] ((sliceIndices 4 none none (some (-3))).toOption.getD []) = [40, 10] := by decide +kernel

/-- reading `c[a:b:0]`-shaped slice values from a list object is refused and allocates nothing -/
theorem zero_step_slice_read_is_refused (s : BState) (a : Nat) (xs : List Val) (lo hi : Option Int)
    (hg : s.heap.get? a = some (.list xs)) :
    pyGetItem s (.ref a) (.slice lo hi (some 0)) = .error .valueError := by
  unfold pyGetItem
  simp only [hg, slice_with_zero_step_is_refused]

/-- `[10, 20, 30, 40][-3:3]` = `[20, 30]`; `[1:100]` clamps; crossing bounds give `[]` -/
example : pick [10, 20, 30, 40] ((sliceIndices 4 (some (-3)) (some 3) none).toOption.getD []) = [20, 30] ∧
    pick [10, 20, 30, 40] ((sliceIndices 4 (some 1) (some 100) none).toOption.getD []) = [20, 30, 40] ∧
    pick [10, 20, 30, 40] ((sliceIndices 4 (some 3) (some 1) none).toOption.getD []) = [] := by decide +kernel

end SqProps.C14
