/-
  C03 — the 10000-element cap on lists and dicts.
  Proved here: every element-adding operation on a container that already holds 10000 elements
  fails with a ParserError and leaves the container unchanged (the "in particular" clause at full
  strength); below the cap `push` grows the list by exactly one.  The global bound is NOT a
  theorem: list concatenation (`+`, `+=`) is unchecked in the code — `concat_doubles` is the
  machine-checked counterexample (finding D10), replayed on the implementation by the monitor.
-/
import Sq.Machine
import SqLemmas.CopyLemmas
import SqLemmas.SliceLemmas
namespace SqProps.C03
open Sq

/-- an error result carries no state: the caller keeps the old heap (`ofBR` passes `w` through) -/
theorem error_keeps_world (e : PyErr) (k : List Frame) (w : World) :
    (ofBR (.error e) k w).w = w := rfl

theorem check_at_cap_list (h : Heap) (a : Nat) (xs : List Val)
    (hg : h.get? a = some (.list xs)) (hl : xs.length ≥ maxArraySize) :
    checkArraySize h (.ref a) = .error (.parser "Array size overflow") := by
  simp [checkArraySize, pyLen, hg, hl]

theorem check_at_cap_dict (h : Heap) (a : Nat) (kvs : List (Val × Val))
    (hg : h.get? a = some (.dict kvs)) (hl : kvs.length ≥ maxArraySize) :
    checkArraySize h (.ref a) = .error (.parser "Array size overflow") := by
  simp [checkArraySize, pyLen, hg, hl]

/-- `push` on a full list: ParserError, and (since the result is an error) no new state -/
theorem push_at_cap (s : BState) (a : Nat) (xs : List Val) (v : Val)
    (hg : s.heap.get? a = some (.list xs)) (hl : xs.length ≥ maxArraySize) :
    callPure "push" [.ref a, v] s = .error (.parser "Array size overflow") := by
  have hc := check_at_cap_list s.heap a xs hg hl
  simp [callPure, callPureTable, typeObjectGuard, storesArgs, isTypeObject, b_push, hc]

theorem insert_at_cap (s : BState) (a : Nat) (xs : List Val) (i v : Val)
    (hg : s.heap.get? a = some (.list xs)) (hl : xs.length ≥ maxArraySize) :
    callPure "insert" [.ref a, i, v] s = .error (.parser "Array size overflow") := by
  have hc := check_at_cap_list s.heap a xs hg hl
  simp [callPure, callPureTable, typeObjectGuard, storesArgs, isTypeObject, b_insert, hc]

/-- index assignment on a full list or dict (even overwriting an existing element) -/
theorem setitem_at_cap (s : BState) (a : Nat) (k v : Val)
    (hc : checkArraySize s.heap (.ref a) = .error (.parser "Array size overflow")) :
    callPure "__setitem__" [.ref a, k, v] s = .error (.parser "Array size overflow") := by
  simp [callPure, callPureTable, typeObjectGuard, storesArgs, isTypeObject, b_setitem, bSetItem, hc]

theorem setitem_with_op_at_cap (s : BState) (a : Nat) (k o v : Val)
    (hc : checkArraySize s.heap (.ref a) = .error (.parser "Array size overflow")) :
    callPure "__setitem_with_op__" [.ref a, k, o, v] s = .error (.parser "Array size overflow") := by
  simp [callPure, callPureTable, typeObjectGuard, storesArgs, isTypeObject, b_setitem_with_op, bSetItemWithOp, hc]

/-- below the cap, `push` appends exactly one element to that list and touches nothing else -/
theorem push_grows_by_one (s : BState) (a : Nat) (xs : List Val) (v : Val)
    (hg : s.heap.get? a = some (.list xs)) (hl : xs.length < maxArraySize) :
    callPure "push" [.ref a, v] s = .ok (.none, { s with heap := s.heap.set a (.list (xs ++ [v])) }) := by
  have hc : checkArraySize s.heap (.ref a) = .ok () := by
    have : ¬ (xs.length ≥ maxArraySize) := by omega
    simp [checkArraySize, pyLen, hg, this]
  simp [callPure, callPureTable, typeObjectGuard, storesArgs, isTypeObject, b_push, hc, hg, ret]

/-- D10 (finding): list concatenation is not size-checked — `l + l` has twice the length, for
    every length (parametric, not a test on one list). -/
theorem concat_doubles (h : Heap) (a : Nat) (xs : List Val) (hg : h.get? a = some (.list xs)) :
    ∃ h' b, pyAdd h (.ref a) (.ref a) = .ok (.ref b, h') ∧ h'.get? b = some (.list (xs ++ xs)) := by
  refine ⟨h.push (.list (xs ++ xs)), h.size, ?_, ?_⟩
  · simp [pyAdd, toInt?, toDec?, hg, Heap.alloc]
  · simp [Heap.get?]

/-- non-vacuity: full lists exist, and any list can sit in a heap at an address, so the
    hypotheses of `push_at_cap` are satisfiable -/
example : ∃ xs : List Val, xs.length ≥ maxArraySize :=
  ⟨List.replicate maxArraySize .none, by rw [List.length_replicate]; exact Nat.le_refl _⟩

example (xs : List Val) : ∃ (s : BState) (a : Nat), s.heap.get? a = some (.list xs) :=
  ⟨{ heap := #[.list xs], rng := 0, rx := [] }, 0, by simp [Heap.get?]⟩

/-! ### [B] the converse direction: a successful adder had room, and no object ends up beyond the cap -/

/-- number of elements of a heap object (0 for a missing one) -/
def objLen : Option HObj → Nat
  | some (.list xs) => xs.length
  | some (.dict kvs) => kvs.length
  | none => 0

theorem check_ok_list (h : Heap) (a : Nat) (xs : List Val) (hg : h.get? a = some (.list xs))
    (hc : checkArraySize h (.ref a) = .ok ()) : xs.length < maxArraySize := by
  simp only [checkArraySize, pyLen, hg] at hc
  split at hc
  · cases hc
  · omega

/-- **a successful `push` had room**: whatever the arguments, if `push` returns, its first argument was a list object with
    fewer than 10000 elements, which now has exactly one more — the pushed value, at the end — and the state is otherwise
    the same -/
theorem push_success_shape (args : List Val) (s : BState) (v : Val) (s' : BState) (h : b_push args s = .ok (v, s')) :
    ∃ a xs x, args = [.ref a, x] ∧ s.heap.get? a = some (.list xs) ∧ xs.length < maxArraySize ∧
      s' = { s with heap := s.heap.set a (.list (xs ++ [x])) } := by
  unfold b_push at h
  split at h
  · rename_i c x
    split at h
    · cases h
    · rename_i hc
      split at h
      · rename_i a
        split at h
        · rename_i xs hg
          simp only [ret] at h
          injection h with h; injection h with h1 h2
          exact ⟨a, xs, x, rfl, hg, check_ok_list _ _ _ hg hc, h2.symm⟩
        · cases h
      · cases h
      · cases h
  · cases h

/-- **a successful `insert` had room**: the list had fewer than 10000 elements and now holds the same elements with the new
    one somewhere in between — exactly one more -/
theorem insert_success_shape (args : List Val) (s : BState) (v : Val) (s' : BState) (h : b_insert args s = .ok (v, s')) :
    ∃ a xs x j, s.heap.get? a = some (.list xs) ∧ xs.length < maxArraySize ∧
      s' = { s with heap := s.heap.set a (.list (xs.take j ++ x :: xs.drop j)) } := by
  unfold b_insert at h
  split at h
  · rename_i c i x
    split at h
    · cases h
    · rename_i hc
      split at h
      · rename_i a
        split at h
        · rename_i xs hg
          split at h
          · cases h
          · rename_i k hk
            simp only [ret] at h
            injection h with h; injection h with h1 h2
            exact ⟨a, xs, x, _, hg, check_ok_list _ _ _ hg hc, h2.symm⟩
        · cases h
      · cases h
      · cases h
  · cases h

/-- **`push` and `insert` never take any object beyond the cap**: after a successful call every object of the heap has at most
    `max 10000 (its length before)` elements — in fact the receiver has one more (at most 10000) and every other object is
    untouched -/
theorem push_insert_keep_cap (args : List Val) (s : BState) (v : Val) (s' : BState)
    (h : b_push args s = .ok (v, s') ∨ b_insert args s = .ok (v, s')) (b : Nat) :
    objLen (s'.heap.get? b) ≤ max maxArraySize (objLen (s.heap.get? b)) := by
  have key : ∀ (a : Nat) (xs ys : List Val), s.heap.get? a = some (.list xs) → ys.length = xs.length + 1 →
      xs.length < maxArraySize → s' = { s with heap := s.heap.set a (.list ys) } →
      objLen (s'.heap.get? b) ≤ max maxArraySize (objLen (s.heap.get? b)) := by
    intro a xs ys hg hl hlt hs
    subst hs
    simp only [get?_set]
    split
    · simp only [objLen]; omega
    · omega
  rcases h with h | h
  · obtain ⟨a, xs, x, _, hg, hlt, hs⟩ := push_success_shape args s v s' h
    exact key a xs _ hg (by simp) hlt hs
  · obtain ⟨a, xs, x, j, hg, hlt, hs⟩ := insert_success_shape args s v s' h
    refine key a xs _ hg ?_ hlt hs
    simp only [List.length_append, List.length_cons, List.length_take, List.length_drop]
    omega

/-- **a slice is no way around the cap**: whatever the bounds and the step (positive, negative, huge, absent), the positions
    `slice.indices` selects are at most as many as the sequence has, so the list a slice read builds is never longer than the
    list it was read from -/
theorem slice_selects_at_most_length (xs : List Val) (a b c : Option Int) (idx : List Nat)
    (h : sliceIndices xs.length a b c = .ok idx) : idx.length ≤ xs.length ∧ (pick xs idx).length ≤ xs.length :=
  ⟨sliceIndices_length_le _ _ _ _ _ h, pick_slice_length_le xs a b c idx h⟩

/-- through the subscript operator: a successful slice read of a list object returns a new list object of at most the
    source's length -/
theorem slice_read_no_longer_than_source (s : BState) (a : Nat) (xs : List Val) (lo hi st : Option Int) (r : Val × BState)
    (hg : s.heap.get? a = some (.list xs)) (hr : pyGetItem s (.ref a) (.slice lo hi st) = .ok r) :
    ∃ ys, r = allocList s ys ∧ ys.length ≤ xs.length := by
  unfold pyGetItem at hr
  simp only [hg] at hr
  cases hsl : sliceIndices xs.length lo hi st with
  | error e => rw [hsl] at hr; cases hr
  | ok idx =>
    rw [hsl] at hr
    injection hr with hr
    exact ⟨pick xs idx, hr.symm, pick_slice_length_le xs lo hi st idx hsl⟩

/-- the same for a string and for a host tuple: a successful slice read returns a string / tuple of at most the source's
    length and allocates nothing (the state is returned as it was) -/
theorem string_slice_no_longer_than_source (s : BState) (cs : List Char) (lo hi st : Option Int) (r : Val × BState)
    (hr : pyGetItem s (.str cs) (.slice lo hi st) = .ok r) :
    ∃ ys, r = (.str ys, s) ∧ ys.length ≤ cs.length := by
  unfold pyGetItem at hr
  simp only at hr
  cases hsl : sliceIndices cs.length lo hi st with
  | error e => rw [hsl] at hr; cases hr
  | ok idx =>
    rw [hsl] at hr
    injection hr with hr
    exact ⟨pick cs idx, hr.symm, pick_slice_length_le cs lo hi st idx hsl⟩

theorem tuple_slice_no_longer_than_source (s : BState) (vs : List Val) (lo hi st : Option Int) (r : Val × BState)
    (hr : pyGetItem s (.tuple vs) (.slice lo hi st) = .ok r) :
    ∃ ys, r = (.tuple ys, s) ∧ ys.length ≤ vs.length := by
  unfold pyGetItem at hr
  simp only at hr
  cases hsl : sliceIndices vs.length lo hi st with
  | error e => rw [hsl] at hr; cases hr
  | ok idx =>
    rw [hsl] at hr
    injection hr with hr
    exact ⟨pick vs idx, hr.symm, pick_slice_length_le vs lo hi st idx hsl⟩

/-- non-vacuity: `[1, 2, 3][::-2]` selects two positions, `[1, 2, 3][-100:100]` three -/
example : (sliceIndices 3 none none (some (-2))).toOption.map List.length = some 2 ∧
    (sliceIndices 3 (some (-100)) (some 100) none).toOption.map List.length = some 3 := by decide +kernel

end SqProps.C03
