/-
  C03 — the 10000-element cap on lists and dicts.
  Proved here: every element-adding operation on a container that already holds 10000 elements
  fails with a ParserError and leaves the container unchanged (the "in particular" clause at full
  strength); below the cap `push` grows the list by exactly one.  The global bound is NOT a
  theorem: list concatenation (`+`, `+=`) is unchecked in the code — `concat_doubles` is the
  machine-checked counterexample (finding D10), replayed on the implementation by the monitor.
-/
import Sq.Machine
namespace SqProps.C03
open Sq

/-- an error result carries no state: the caller keeps the old heap (`ofBR` passes `w` through) -/
theorem error_keeps_world (e : PyErr) (k : List Frame) (w : World) :
    (ofBR (.error e) k w).w = w := rfl

theorem check_at_cap_list (h : Heap) (a : Nat) (xs : List Val)
    (hg : h.get? a = some (.list xs)) (hl : xs.length ≥ maxArraySize) :
    checkArraySize h (.ref a) = .error (.parser "Array size overflow") := by
  simp [checkArraySize, pyLen, hg, hl]

theorem check_at_cap_dict (h : Heap) (a : Nat) (kvs : List (Val × Val))
    (hg : h.get? a = some (.dict kvs)) (hl : kvs.length ≥ maxArraySize) :
    checkArraySize h (.ref a) = .error (.parser "Array size overflow") := by
  simp [checkArraySize, pyLen, hg, hl]

/-- `push` on a full list: ParserError, and (since the result is an error) no new state -/
theorem push_at_cap (s : BState) (a : Nat) (xs : List Val) (v : Val)
    (hg : s.heap.get? a = some (.list xs)) (hl : xs.length ≥ maxArraySize) :
    callPure "push" [.ref a, v] s = .error (.parser "Array size overflow") := by
  have hc := check_at_cap_list s.heap a xs hg hl
  simp [callPure, callPureTable, typeObjectGuard, storesArgs, isTypeObject, b_push, hc]

theorem insert_at_cap (s : BState) (a : Nat) (xs : List Val) (i v : Val)
    (hg : s.heap.get? a = some (.list xs)) (hl : xs.length ≥ maxArraySize) :
    callPure "insert" [.ref a, i, v] s = .error (.parser "Array size overflow") := by
  have hc := check_at_cap_list s.heap a xs hg hl
  simp [callPure, callPureTable, typeObjectGuard, storesArgs, isTypeObject, b_insert, hc]

/-- index assignment on a full list or dict (even overwriting an existing element) -/
theorem setitem_at_cap (s : BState) (a : Nat) (k v : Val)
    (hc : checkArraySize s.heap (.ref a) = .error (.parser "Array size overflow")) :
    callPure "__setitem__" [.ref a, k, v] s = .error (.parser "Array size overflow") := by
  simp [callPure, callPureTable, typeObjectGuard, storesArgs, isTypeObject, b_setitem, bSetItem, hc]

theorem setitem_with_op_at_cap (s : BState) (a : Nat) (k o v : Val)
    (hc : checkArraySize s.heap (.ref a) = .error (.parser "Array size overflow")) :
    callPure "__setitem_with_op__" [.ref a, k, o, v] s = .error (.parser "Array size overflow") := by
  simp [callPure, callPureTable, typeObjectGuard, storesArgs, isTypeObject, b_setitem_with_op, bSetItemWithOp, hc]

/-- below the cap, `push` appends exactly one element to that list and touches nothing else -/
theorem push_grows_by_one (s : BState) (a : Nat) (xs : List Val) (v : Val)
    (hg : s.heap.get? a = some (.list xs)) (hl : xs.length < maxArraySize) :
    callPure "push" [.ref a, v] s = .ok (.none, { s with heap := s.heap.set a (.list (xs ++ [v])) }) := by
  have hc : checkArraySize s.heap (.ref a) = .ok () := by
    have : ¬ (xs.length ≥ maxArraySize) := by omega
    simp [checkArraySize, pyLen, hg, this]
  simp [callPure, callPureTable, typeObjectGuard, storesArgs, isTypeObject, b_push, hc, hg, ret]

/-- D10 (finding): list concatenation is not size-checked — `l + l` has twice the length, for
    every length (parametric, not a test on one list). -/
theorem concat_doubles (h : Heap) (a : Nat) (xs : List Val) (hg : h.get? a = some (.list xs)) :
    ∃ h' b, pyAdd h (.ref a) (.ref a) = .ok (.ref b, h') ∧ h'.get? b = some (.list (xs ++ xs)) := by
  refine ⟨h.push (.list (xs ++ xs)), h.size, ?_, ?_⟩
  · simp [pyAdd, toInt?, toDec?, hg, Heap.alloc]
  · simp [Heap.get?]

/-- non-vacuity: full lists exist, and any list can sit in a heap at an address, so the
    hypotheses of `push_at_cap` are satisfiable -/
example : ∃ xs : List Val, xs.length ≥ maxArraySize :=
  ⟨List.replicate maxArraySize .none, by rw [List.length_replicate]; exact Nat.le_refl _⟩

example (xs : List Val) : ∃ (s : BState) (a : Nat), s.heap.get? a = some (.list xs) :=
  ⟨{ heap := #[.list xs], rng := 0, rx := [] }, 0, by simp [Heap.get?]⟩

end SqProps.C03
