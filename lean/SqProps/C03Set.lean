/-
  C03 — [B] the converse direction for index assignment: `c[k] = v` copies its operand first (new objects only,
  `C12.deepcopy'_frame`) and then writes; if it returns, the container had room and is within the cap afterwards.
-/
import SqProps.C03
import SqProps.C12
import SqLemmas.SetLen
namespace SqProps.C03
open Sq SqProps.C13

/-- what a successful `c[k] = v` does to the heap: the operand copy extends it (`HeapExt`: every existing object as it was),
    then the container object alone is replaced, by an object of at most 10000 elements; the container had fewer before -/
theorem setitem_heap_shape (s : BState) (a : Nat) (k v r : Val) (s' : BState)
    (h : bSetItem s (.ref a) k v = .ok (r, s')) :
    objLen (s.heap.get? a) < maxArraySize ∧ a < s.heap.size ∧
    ∃ h' o, HeapExt s.heap h' ∧ s'.heap = h'.set a o ∧ objLen (some o) ≤ maxArraySize := by
  unfold bSetItem at h
  split at h
  · cases h
  · rename_i hc
    have hlen : objLen (s.heap.get? a) < maxArraySize ∧ (s.heap.get? a).isSome := by
      simp only [checkArraySize, pyLen] at hc
      cases hg : s.heap.get? a with
      | none => rw [hg] at hc; simp [U] at hc
      | some o =>
        rw [hg] at hc
        cases o with
        | list xs => simp only at hc; split at hc; cases hc; exact ⟨by simp only [objLen]; omega, rfl⟩
        | dict kvs => simp only at hc; split at hc; cases hc; exact ⟨by simp only [objLen]; omega, rfl⟩
    have hlt : a < s.heap.size := by
      cases hg : s.heap.get? a with
      | none => rw [hg] at hlen; cases hlen.2
      | some o =>
        unfold Heap.get? at hg
        by_cases hlt : a < s.heap.size
        · exact hlt
        · have : s.heap[a]? = none := Array.getElem?_eq_none (by omega)
          rw [this] at hg; cases hg
    refine ⟨hlen.1, hlt, ?_⟩
    split at h
    · cases h
    · split at h
      · cases h
      · rename_i v' h' hd
        have hx := SqProps.C12.deepcopy'_frame _ _ _ _ hd
        have hsame : h'.get? a = s.heap.get? a := hx.2 a hlt
        split at h
        · rename_i s2 hp
          simp only [ret] at h
          injection h with h; injection h with h1 h2; subst h2
          unfold pySetItem at hp
          simp only [hsame] at hp
          cases hg : s.heap.get? a with
          | none => rw [hg] at hlen; cases hlen.2
          | some o =>
            rw [hg] at hp hlen
            cases o with
            | list xs =>
              simp only at hp
              split at hp
              · simp [U] at hp
              · simp [U] at hp
              · split at hp
                · split at hp
                  · cases hp
                    refine ⟨h', _, hx, rfl, ?_⟩
                    simp only [objLen, List.length_set]; have := hlen.1; simp only [objLen] at this; omega
                  · cases hp
                · cases hp
            | dict kvs =>
              simp only at hp
              split at hp
              · cases hp
              · split at hp
                · rename_i kvs' hds
                  cases hp
                  have hl := dictSet_length_le _ _ _ _ _ hds
                  refine ⟨h', _, hx, rfl, ?_⟩
                  simp only [objLen]; have := hlen.1; simp only [objLen] at this; omega
                · cases hp
        · cases h

/-- **a successful index assignment had room**: if `c[k] = v` returns for a container object `a`, then `a` had fewer than
    10000 elements and has at most 10000 now (a list keeps its length, a dict gains at most one entry) -/
theorem setitem_success_within_cap (s : BState) (a : Nat) (k v r : Val) (s' : BState)
    (h : bSetItem s (.ref a) k v = .ok (r, s')) :
    objLen (s.heap.get? a) < maxArraySize ∧ objLen (s'.heap.get? a) ≤ maxArraySize := by
  obtain ⟨h1, hlt, h', o, hx, hs, ho⟩ := setitem_heap_shape s a k v r s' h
  refine ⟨h1, ?_⟩
  rw [hs, get?_set]
  have : a < h'.size := Nat.lt_of_lt_of_le hlt hx.1
  simp only [this, and_self, if_true]
  exact ho

/-- … and it takes no object that existed before beyond `max 10000 (its length before)`: every other existing object is
    exactly as it was (the operand is copied into NEW objects) -/
theorem setitem_keeps_existing_objects_within_cap (s : BState) (a : Nat) (k v r : Val) (s' : BState)
    (h : bSetItem s (.ref a) k v = .ok (r, s')) (b : Nat) (hb : b < s.heap.size) :
    objLen (s'.heap.get? b) ≤ max maxArraySize (objLen (s.heap.get? b)) ∧ (b ≠ a → s'.heap.get? b = s.heap.get? b) := by
  obtain ⟨h1, hlt, h', o, hx, hs, ho⟩ := setitem_heap_shape s a k v r s' h
  rw [hs, get?_set]
  by_cases hab : a = b
  · subst hab
    have : a < h'.size := Nat.lt_of_lt_of_le hlt hx.1
    simp only [this, and_self, if_true]
    exact ⟨by omega, fun hne => absurd rfl hne⟩
  · simp only [hab, false_and, if_false]
    rw [hx.2 b hb]
    exact ⟨by omega, fun _ => rfl⟩

/-- non-vacuity: `d["k"] = 1` on an empty dict object succeeds -/
example : ∃ r s', bSetItem { heap := #[.dict []], rng := 0, rx := [] } (.ref 0) (.str ['k']) (.int 1) = .ok (r, s') :=
  ⟨_, _, rfl⟩

end SqProps.C03
