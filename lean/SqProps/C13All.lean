/-
  C13 (continued) — [B] every non-mutating entry of the builtin table, whatever its arguments, leaves all existing
  objects exactly as they were (SqLemmas/HarmlessAll.lean: one lemma per `b_*`, assembled over the whole table).
  The higher-order builtins map / filter / reduce / sorted are not table entries: they only iterate and call the
  user's function (machine lemmas `sortFinish_nonmutating`, C13.lean); whatever their callback mutates is the
  callback's own doing.
-/
import SqLemmas.HarmlessAll
namespace SqProps.C13
open Sq

/-- **all 35 non-mutating table entries**: len, int, float, str, dict, list, startswith, endswith, lower, upper, strip,
    replace, match, match_groups, match_all, pretty, keys, values, items, sum, get, __getitem__, join, split, round,
    floor, ceil, abs, min, max, rand, reversed, enumerate, shuffle, index_of -/
theorem every_nonmutating_builtin_preserves : ∀ p, p ∈ callPureTable → p.1 ∉ mutatorNames →
    ∀ args s v s', p.2 args s = .ok (v, s') → HeapExt s.heap s'.heap := table_nonmutating

/-- through the dispatcher the machine uses -/
theorem nonmutating_call_preserves (name : String) (hn : name ∉ mutatorNames) (args : List Val) (s : BState) (v : Val)
    (s' : BState) (h : callPure name args s = .ok (v, s')) :
    ∀ a, a < s.heap.size → s'.heap.get? a = s.heap.get? a :=
  (callPure_nonmutating name hn args s v s' h).2

/-- the classification covers the table: every entry is one of the 7 mutators or one of the 35 above -/
theorem table_is_classified : callPureTable.length = 42 ∧ mutatorNames.length = 7 ∧
    (callPureTable.filter (fun p => !mutatorNames.contains p.1)).length = 35 := by decide

end SqProps.C13
