/-
  C18 — list_names reports every name an evaluation can ask the host for.
  [A]: `list_names` yields exactly the NAME tokens of the very lexer the parser uses, in order, up
  to the first lexical error; a NAME token is never a keyword; name lookups of the evaluator go
  only through `NameOp`, `CallOp` and compound assignment and ask for the name written in that
  node.  [B] `tree_names_from_tokens` / `mentioned_names_are_listed`: every identifier occurring anywhere in a
  parsed tree (variable, callee, parameter, assignment target) is the value of a NAME token of the text — hence
  in `list_names(src)` — or one of the six implicit names (mutual induction over the levelled derivation
  relation, lifted to the parser by the soundness theorem of C06; SqLemmas/ParseNames.lean).
  [B] `evaluation_looks_up_only_listed_names`: over WHOLE RUNS of the machine — through lambdas, map / filter /
  reduce / sorted callbacks, host trampolines, assignments and their deep copies — every name the evaluator looks up
  is a name `list_names(src)` reports or an implicit one (generic configuration invariant, SqLemmas/Inv*.lean).
-/
import Sq.Session
import SqLemmas.ParseNames
import SqLemmas.InvRun
namespace SqProps.C18
open Sq

/-- `list_names(src)` fully consumed = the values of the NAME tokens the lexer delivers (in
    order), and the lexical error if there is one -/
theorem list_names_eq_name_tokens (s : Session) (src : List Char) :
    (listNamesCall s src none).1 =
      match lexFrom LexSt.init src with
      | .ok (ts, _) => ((ts.filter (·.ty == .NAME)).map (·.val), none)
      | .error (e, pre) => ((pre.filter (·.ty == .NAME)).map (·.val), some e) := by
  simp [listNamesCall, listNamesCallWith, listNamesResult, applyResets, Resets.all, LexSt.init]
  cases lexFrom { pos := 0, line := 1, depth := 0 } src with
  | ok p => rfl
  | error p => rfl

/-- a keyword is never reported: identifiers and %…% lexemes get type NAME only if they are not
    in the keyword table -/
theorem keyword_is_not_name (v : List Char) (t : Tk) (h : (reservedTable.find? (fun p => p.1.toList == v)) = some (v', t)) :
    lookupReserved v = t := by
  simp [lookupReserved, h]

theorem keywords_are_not_NAME : ∀ p ∈ reservedTable, p.2 ≠ Tk.NAME := by decide

/-- strings and comments produce no NAME token: a quoted string is one STRING token … -/
theorem dq_string_is_string_token (st : LexSt) (cs b r : List Char) (hb : strBody '"' cs = some (b, r)) :
    ∃ v, lexStep st ('"' :: cs) = mk .STRING v st (b.length + 2) 0 r := by
  refine ⟨Str.replace (Str.replace (Str.replace (Str.replace b ['\\', 'n'] ['\n'] none) ['\\', 't'] ['\t'] none)
            ['\\', '\''] ['\''] none) ['\\', '"'] ['"'] none, ?_⟩
  simp [lexStep, lexBracket, lexWord, matchString, isQuote, hb]

theorem sq_string_is_string_token (st : LexSt) (cs b r : List Char) (hb : strBody '\'' cs = some (b, r)) :
    ∃ v, lexStep st ('\'' :: cs) = mk .STRING v st (b.length + 2) 0 r := by
  refine ⟨Str.replace (Str.replace (Str.replace (Str.replace b ['\\', 'n'] ['\n'] none) ['\\', 't'] ['\t'] none)
            ['\\', '\''] ['\''] none) ['\\', '"'] ['"'] none, ?_⟩
  simp [lexStep, lexBracket, lexWord, matchString, isQuote, hb]

/-- … and a comment produces no token at all -/
theorem comment_no_token (st : LexSt) (cs : List Char) :
    ∃ st', lexStep st ('#' :: cs) = .skip st' (dropLine cs) := by
  exact ⟨{ st with pos := st.pos + 1 + (cs.length - (dropLine cs).length) }, by simp [lexStep, lexBracket, lexWord, lexPunct, matchString, isQuote, classify]⟩

/-- the evaluator asks the scope stack for exactly the name written in the node -/
theorem nameop_looks_up_its_name (n : Name) (vmi : Nat) (k : List Frame) (w : World) (vm : VM)
    (hv : w.vm? vmi = some vm) :
    enter (.name n) vmi k w =
      match lookupName w.heap vm.scopes n with
      | some v => mkRet v k w
      | none => mkRaise (.parser "Undefined variable") k w := by
  simp only [enter, hv]
  cases lookupName w.heap vm.scopes n <;> rfl

theorem callop_looks_up_its_name (n : Name) (args : List Val) (vmi : Nat) (k : List Frame) (w : World) (vm : VM)
    (hv : w.vm? vmi = some vm) :
    doCall n args vmi k w =
      match lookupName w.heap vm.scopes n with
      | none => mkRaise (.parser "Undefined function") k w
      | some f => callVal callFuel f args k w := by
  simp only [doCall, hv]
  cases lookupName w.heap vm.scopes n <;> rfl

/-- literals, operators, conditionals, lambdas creation, slices do not consult the names at all:
    entering them leaves the world untouched and looks nothing up -/
theorem other_nodes_do_not_look_up (vm : Nat) (k : List Frame) (w : World) :
    (∀ l, (enter (.value l) vm k w).w = w) ∧ (∀ bk a b, (enter (.bin bk a b) vm k w).w = w) ∧
    (∀ c a b, (enter (.ifx c a b) vm k w).w = w) ∧ (∀ ps b, (enter (.lambda ps b) vm k w).w = w) ∧
    (∀ a b c, (enter (.slice a b c) vm k w).w = w) ∧ (∀ n v, (enter (.assign n v) vm k w).w = w) := by
  refine ⟨?_, ?_, ?_, ?_, ?_, ?_⟩
  · intro l; cases l <;> rfl
  all_goals intros; rfl

/-- the implicit names that syntax sugar maps to -/
def implicitNames : List String := ["list", "dict", "__getitem__", "__setitem__", "__delitem__", "__setitem_with_op__"]

theorem implicit_names_are_builtins : ∀ n ∈ implicitNames, n ∈ builtinNames := by decide

/-- **[B]** every identifier of a parsed tree is a NAME token of the token list it was parsed from,
    or an implicit name — for every token list the parser accepts -/
theorem tree_names_from_tokens {ts : List Token} {tree : Op} (h : parseTokens ts = .ok tree) :
    ∀ x, Mentions tree x → TokName ts x ∨ x ∈ implicitNameList := parsed_names_are_tokens h

/-- the implicit names of the lemma are the six documented ones, all builtins -/
theorem implicit_list_is_documented : implicitNameList = implicitNames.map String.toList := by decide

/-- **[B] list_names covers the tree**: for every text that lexes and parses, every identifier the tree
    mentions is reported by `list_names(src)` (or is implicit).  With `nameop_looks_up_its_name` /
    `callop_looks_up_its_name` (the evaluator asks only for names written in nodes) this is the
    "consequently" clause of the property. -/
theorem mentioned_names_are_listed (s : Session) (src : List Char) (ts : List Token) (st' : LexSt)
    (hlex : lexFrom LexSt.init src = .ok (ts, st')) (tree : Op) (hp : parseTokens ts = .ok tree) :
    ∀ x, Mentions tree x → x ∈ (listNamesCall s src none).1.1 ∨ x ∈ implicitNameList := by
  intro x hx
  rcases parsed_names_are_tokens hp x hx with ⟨t, hm, hty, hv⟩ | hi
  · left
    rw [list_names_eq_name_tokens, hlex]
    simp only
    rw [List.mem_map]
    exact ⟨t, List.mem_filter.mpr ⟨hm, by simp [hty]⟩, hv⟩
  · exact Or.inr hi

/-! ### [B] whole runs -/

open Sq.Inv in
/-- **every lookup of a whole evaluation is for a mentioned name**: let the program `tree`, the `ast_names` trees and the
    closures already present in the host's world mention only names in `S`; then at every step of the run, through
    every lambda call, callback of map / filter / reduce / sorted, host trampoline and assignment, the name the machine
    looks up (`lookupOf`) is in `S` -/
theorem lookups_are_mentioned (S : Name → Prop) (w : World) (bs : List Nat) (namesAddr budget : Nat) (tree : Op)
    (astNames : List (Name × Op))
    (hw : WorldNPg (fun _ body _ => MentionsIn S body) (fun _ => True) (fun _ => True) (fun _ => True) w)
    (ht : MentionsIn S tree) (ha : ∀ p, p ∈ astNames → MentionsIn S p.2) (i : Nat) (n : Name)
    (hl : lookupOf (run i (initCfg w bs namesAddr budget tree astNames)).core = some n) : S n :=
  run_lookups_in S _ (init_names_inv S w bs namesAddr budget tree astNames hw ht ha) i n hl

open Sq.Inv in
/-- **the "consequently" clause of C18, over whole runs**: for a text that lexes and parses, evaluated against a host
    world that holds no closures (plain data, builtins, host callables), every name any step of the evaluation looks
    up — in the host's names mapping first, then in the builtins — is reported by `list_names(src)` or is one of the
    six implicit names -/
theorem evaluation_looks_up_only_listed_names (s : Session) (src : List Char) (ts : List Token) (st' : LexSt)
    (hlex : lexFrom LexSt.init src = .ok (ts, st')) (tree : Op) (hp : parseTokens ts = .ok tree)
    (w : World) (bs : List Nat) (namesAddr budget : Nat)
    (hw : WorldNPg (fun _ _ _ => False) (fun _ => True) (fun _ => True) (fun _ => True) w) (i : Nat) (n : Name)
    (hl : lookupOf (run i (initCfg w bs namesAddr budget tree)).core = some n) :
    n ∈ (listNamesCall s src none).1.1 ∨ n ∈ implicitNameList := by
  refine lookups_are_mentioned (fun x => x ∈ (listNamesCall s src none).1.1 ∨ x ∈ implicitNameList) w bs namesAddr budget
    tree [] (hw.mono (fun _ _ _ h => h.elim) (fun _ h => h) (fun _ h => h)) ?_ (fun p hp => by cases hp) i n hl
  exact mentioned_names_are_listed s src ts st' hlex tree hp

open Sq.Inv in
/-- the lookup classifier agrees with the one-transition lemmas above: a variable node looks up its own name -/
example (n : Name) (vmi : Nat) (k : List Frame) (w : World) :
    lookupOf { ctl := .ev (.name n) vmi, k := k, w := w } = some n := rfl

open Sq.Inv in
/-- non-vacuity: a host world binding `x` to a list of numbers and strings satisfies the hypothesis -/
example : WorldNPg (fun _ _ _ => False) (fun _ => True) (fun _ => True) (fun _ => True)
    { heap := #[.dict [(.str ['x'], .ref 1)], .list [.int 1, .str ['a']]], vms := [], log := [], rng := 0, rx := [],
      probes := [] } := by
  refine ⟨⟨?_, fun _ _ => trivial⟩, fun a h => (by cases h), fun p h => (by cases h)⟩
  intro a o hg
  match a with
  | 0 =>
    simp [Heap.get?] at hg; subst hg
    intro kv hkv; simp at hkv; subst hkv; exact ⟨.str, .ref trivial⟩
  | 1 =>
    simp [Heap.get?] at hg; subst hg
    intro v hv; simp at hv; rcases hv with e | e <;> subst e
    · exact .int
    · exact .str
  | n + 2 => simp [Heap.get?] at hg

/-! finite tests -/
example : (listNamesResult LexSt.init "f(x, %my var%) + 'str' # c\nfor y".toList none).1 =
    ["f".toList, "x".toList, "%my var%".toList, "y".toList] := by decide +kernel
example : (listNamesResult LexSt.init "a = b.c(d => d)".toList none).1 =
    ["a".toList, "b".toList, "c".toList, "d".toList, "d".toList] := by decide +kernel

end SqProps.C18
