/-
  C09 — lazy and / or / if-else; all other operands evaluated once, left to right.
  Statements about one machine transition (`enter` on a node, `resume` on a returned value); they
  hold for every continuation `k` and world `w`, hence at every position of every program.
-/
import Sq.Machine
namespace SqProps.C09
open Sq

/-- `a and b` starts by evaluating `a` only; `b` waits unevaluated in the frame -/
theorem and_or_enter (bk : BinK) (a b : Op) (vm : Nat) (k : List Frame) (w : World) :
    enter (.bin bk a b) vm k w = { ctl := .ev a vm, k := .binL bk b vm :: k, w := w } := rfl

/-- `a and b` with `a` falsy: the result is `a`'s value itself and `b` is never entered -/
theorem and_lazy (b : Op) (vm : Nat) (v : Val) (k : List Frame) (w : World)
    (h : truthy w.heap v = false) : resume (.binL .and b vm) v k w = mkRet v k w := by
  simp [resume, h]

/-- `a and b` with `a` truthy: `b` is evaluated next and its value is the result (no frame left) -/
theorem and_takes_rhs (b : Op) (vm : Nat) (v : Val) (k : List Frame) (w : World)
    (h : truthy w.heap v = true) : resume (.binL .and b vm) v k w = { ctl := .ev b vm, k := k, w := w } := by
  simp [resume, h]

theorem or_lazy (b : Op) (vm : Nat) (v : Val) (k : List Frame) (w : World)
    (h : truthy w.heap v = true) : resume (.binL .or b vm) v k w = mkRet v k w := by
  simp [resume, h]

theorem or_takes_rhs (b : Op) (vm : Nat) (v : Val) (k : List Frame) (w : World)
    (h : truthy w.heap v = false) : resume (.binL .or b vm) v k w = { ctl := .ev b vm, k := k, w := w } := by
  simp [resume, h]

/-- `x if c else y`: `c` first … -/
theorem ifexpr_cond_first (c a b : Op) (vm : Nat) (k : List Frame) (w : World) :
    enter (.ifx c a b) vm k w = { ctl := .ev c vm, k := .ifK a b vm :: k, w := w } := rfl

/-- … then exactly one branch; the other one is dropped with the frame -/
theorem ifexpr_one_branch (a b : Op) (vm : Nat) (v : Val) (k : List Frame) (w : World) :
    resume (.ifK a b vm) v k w =
      { ctl := .ev (if truthy w.heap v then a else b) vm, k := k, w := w } := by
  by_cases h : truthy w.heap v <;> simp [resume, h]

/-- every other binary operator: left operand, then right operand, then the operation -/
theorem strict_bin_left_then_right (bk : BinK) (b : Op) (vm : Nat) (v : Val) (k : List Frame) (w : World)
    (h1 : bk ≠ .and) (h2 : bk ≠ .or) :
    resume (.binL bk b vm) v k w = { ctl := .ev b vm, k := .binR bk v :: k, w := w } := by
  cases bk <;> simp_all [resume]

/-- call arguments, left to right: a returned argument value is recorded and the next argument
    is evaluated; nothing is re-evaluated -/
theorem args_left_to_right (n : Name) (done : List Val) (nxt : Op) (rest : List Op) (vm : Nat)
    (v : Val) (k : List Frame) (w : World) :
    resume (.argsK n done (nxt :: rest) vm) v k w =
      { ctl := .ev nxt vm, k := .argsK n (v :: done) rest vm :: k, w := w } := rfl

/-- the callee is looked up and called only after the last argument, with the arguments in
    source order -/
theorem call_after_last_arg (n : Name) (done : List Val) (vm : Nat) (v : Val) (k : List Frame) (w : World) :
    resume (.argsK n done [] vm) v k w = doCall n (v :: done).reverse vm k w := rfl

/-- dict literal parts k₁, v₁, k₂, v₂, … in source order -/
theorem dict_parts_in_order (done : List Val) (nxt : Op) (rest : List Op) (vm : Nat)
    (v : Val) (k : List Frame) (w : World) :
    resume (.dictK done (nxt :: rest) vm) v k w =
      { ctl := .ev nxt vm, k := .dictK (v :: done) rest vm :: k, w := w } := rfl

/-- slice bounds start, stop, step in order -/
theorem slice_bounds_in_order (a b c : Op) (vm : Nat) (k : List Frame) (w : World) :
    enter (.slice a b c) vm k w = { ctl := .ev a vm, k := .sliceK [] [b, c] vm :: k, w := w } := rfl

/-- list elements / call arguments start with the first one -/
theorem call_first_arg_first (n : Name) (a : Op) (rest : List Op) (vm : Nat) (k : List Frame) (w : World) :
    enter (.call n (a :: rest)) vm k w = { ctl := .ev a vm, k := .argsK n [] rest vm :: k, w := w } := rfl

/-- if an operand raises, the pending operands stored in the frame are discarded unevaluated:
    unwinding a non-catching, non-scope frame just drops it -/
theorem raise_skips_pending_args (n : Name) (done : List Val) (todo : List Op) (vm : Nat)
    (e : PyErr) (k : List Frame) (w : World) :
    unwind (.argsK n done todo vm) e k w = mkRaise e k w := rfl

theorem raise_skips_rhs (bk : BinK) (b : Op) (vm : Nat) (e : PyErr) (k : List Frame) (w : World) :
    unwind (.binL bk b vm) e k w = mkRaise e k w := rfl

end SqProps.C09
