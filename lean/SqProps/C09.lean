/-
  C09 — lazy and / or / if-else; all other operands evaluated once, left to right.
  Statements about one machine transition (`enter` on a node, `resume` on a returned value); they
  hold for every continuation `k` and world `w`, hence at every position of every program.
-/
import Sq.Machine
import SqLemmas.LogLemmas
import SqLemmas.FrameLemmas
namespace SqProps.C09
open Sq

/-- `a and b` starts by evaluating `a` only; `b` waits unevaluated in the frame -/
theorem and_or_enter (bk : BinK) (a b : Op) (vm : Nat) (k : List Frame) (w : World) :
    enter (.bin bk a b) vm k w = { ctl := .ev a vm, k := .binL bk b vm :: k, w := w } := rfl

/-- `a and b` with `a` falsy: the result is `a`'s value itself and `b` is never entered -/
theorem and_lazy (b : Op) (vm : Nat) (v : Val) (k : List Frame) (w : World)
    (h : truthy w.heap v = false) : resume (.binL .and b vm) v k w = mkRet v k w := by
  simp [resume, h]

/-- `a and b` with `a` truthy: `b` is evaluated next and its value is the result (no frame left) -/
theorem and_takes_rhs (b : Op) (vm : Nat) (v : Val) (k : List Frame) (w : World)
    (h : truthy w.heap v = true) : resume (.binL .and b vm) v k w = { ctl := .ev b vm, k := k, w := w } := by
  simp [resume, h]

theorem or_lazy (b : Op) (vm : Nat) (v : Val) (k : List Frame) (w : World)
    (h : truthy w.heap v = true) : resume (.binL .or b vm) v k w = mkRet v k w := by
  simp [resume, h]

theorem or_takes_rhs (b : Op) (vm : Nat) (v : Val) (k : List Frame) (w : World)
    (h : truthy w.heap v = false) : resume (.binL .or b vm) v k w = { ctl := .ev b vm, k := k, w := w } := by
  simp [resume, h]

/-- `x if c else y`: `c` first … -/
theorem ifexpr_cond_first (c a b : Op) (vm : Nat) (k : List Frame) (w : World) :
    enter (.ifx c a b) vm k w = { ctl := .ev c vm, k := .ifK a b vm :: k, w := w } := rfl

/-- … then exactly one branch; the other one is dropped with the frame -/
theorem ifexpr_one_branch (a b : Op) (vm : Nat) (v : Val) (k : List Frame) (w : World) :
    resume (.ifK a b vm) v k w =
      { ctl := .ev (if truthy w.heap v then a else b) vm, k := k, w := w } := by
  by_cases h : truthy w.heap v <;> simp [resume, h]

/-- every other binary operator: left operand, then right operand, then the operation -/
theorem strict_bin_left_then_right (bk : BinK) (b : Op) (vm : Nat) (v : Val) (k : List Frame) (w : World)
    (h1 : bk ≠ .and) (h2 : bk ≠ .or) :
    resume (.binL bk b vm) v k w = { ctl := .ev b vm, k := .binR bk v :: k, w := w } := by
  cases bk <;> simp_all [resume]

/-- call arguments, left to right: a returned argument value is recorded and the next argument
    is evaluated; nothing is re-evaluated -/
theorem args_left_to_right (n : Name) (done : List Val) (nxt : Op) (rest : List Op) (vm : Nat)
    (v : Val) (k : List Frame) (w : World) :
    resume (.argsK n done (nxt :: rest) vm) v k w =
      { ctl := .ev nxt vm, k := .argsK n (v :: done) rest vm :: k, w := w } := rfl

/-- the callee is looked up and called only after the last argument, with the arguments in
    source order -/
theorem call_after_last_arg (n : Name) (done : List Val) (vm : Nat) (v : Val) (k : List Frame) (w : World) :
    resume (.argsK n done [] vm) v k w = doCall n (v :: done).reverse vm k w := rfl

/-- dict literal parts k₁, v₁, k₂, v₂, … in source order -/
theorem dict_parts_in_order (done : List Val) (nxt : Op) (rest : List Op) (vm : Nat)
    (v : Val) (k : List Frame) (w : World) :
    resume (.dictK done (nxt :: rest) vm) v k w =
      { ctl := .ev nxt vm, k := .dictK (v :: done) rest vm :: k, w := w } := rfl

/-- slice bounds start, stop, step in order -/
theorem slice_bounds_in_order (a b c : Op) (vm : Nat) (k : List Frame) (w : World) :
    enter (.slice a b c) vm k w = { ctl := .ev a vm, k := .sliceK [] [b, c] vm :: k, w := w } := rfl

/-- list elements / call arguments start with the first one -/
theorem call_first_arg_first (n : Name) (a : Op) (rest : List Op) (vm : Nat) (k : List Frame) (w : World) :
    enter (.call n (a :: rest)) vm k w = { ctl := .ev a vm, k := .argsK n [] rest vm :: k, w := w } := rfl

/-- if an operand raises, the pending operands stored in the frame are discarded unevaluated:
    unwinding a non-catching, non-scope frame just drops it -/
theorem raise_skips_pending_args (n : Name) (done : List Val) (todo : List Op) (vm : Nat)
    (e : PyErr) (k : List Frame) (w : World) :
    unwind (.argsK n done todo vm) e k w = mkRaise e k w := rfl

theorem raise_skips_rhs (bk : BinK) (b : Op) (vm : Nat) (e : PyErr) (k : List Frame) (w : World) :
    unwind (.binL bk b vm) e k w = mkRaise e k w := rfl

/-! ### whole sub-evaluations (frame lemma)

The statements above are about single transitions.  With the frame lemma (`Sq.run_app`) they lift to
whole sub-evaluations of arbitrary length: an operand that — run ALONE — returns `v` after `n` steps
returns the same `v` after the same `n` steps beneath any pending frames, and leaves them untouched. -/

/-- the expression `op`, evaluated alone from world `w`, returns `v` in world `w'` after `n` steps -/
def EvalsTo (B : List Nat) (op : Op) (vmi : Nat) (w : World) (n : Nat) (v : Val) (w' : World) : Prop :=
  run n { ctl := .ev op vmi, k := [], w := w, budgets := B } = { ctl := .ret v, k := [], w := w', budgets := B } ∧
  ∀ i, i < n → ¬ Underflow (run i { ctl := .ev op vmi, k := [], w := w, budgets := B }).core

/-- the expression `op`, evaluated alone from world `w`, raises `e` in world `w'` after `n` steps -/
def RaisesIn (B : List Nat) (op : Op) (vmi : Nat) (w : World) (n : Nat) (e : PyErr) (w' : World) : Prop :=
  run n { ctl := .ev op vmi, k := [], w := w, budgets := B } = { ctl := .raise e, k := [], w := w', budgets := B } ∧
  ∀ i, i < n → ¬ Underflow (run i { ctl := .ev op vmi, k := [], w := w, budgets := B }).core

/-- **evaluation in context**: the pending frames `k0` neither influence a sub-evaluation nor are touched by it -/
theorem eval_in_context {B op vmi w n v w'} (h : EvalsTo B op vmi w n v w') (k0 : List Frame) :
    run n { ctl := .ev op vmi, k := k0, w := w, budgets := B } = { ctl := .ret v, k := k0, w := w', budgets := B } := by
  have := run_app n { ctl := .ev op vmi, k := [], w := w, budgets := B } k0 h.2
  rw [h.1] at this
  simpa [Cfg.app] using this

theorem raise_in_context {B op vmi w n e w'} (h : RaisesIn B op vmi w n e w') (k0 : List Frame) :
    run n { ctl := .ev op vmi, k := k0, w := w, budgets := B } = { ctl := .raise e, k := k0, w := w', budgets := B } := by
  have := run_app n { ctl := .ev op vmi, k := [], w := w, budgets := B } k0 h.2
  rw [h.1] at this
  simpa [Cfg.app] using this

private theorem step_ret (fr : Frame) (v : Val) (k : List Frame) (w : World) (B : List Nat) :
    step { ctl := .ret v, k := fr :: k, w := w, budgets := B } = (resume fr v k w).withBudgets B := rfl

private theorem step_raise (fr : Frame) (e : PyErr) (k : List Frame) (w : World) (B : List Nat) :
    step { ctl := .raise e, k := fr :: k, w := w, budgets := B } = (unwind fr e k w).withBudgets B := rfl

/-- **any pending operation waits for its operand**: whatever frame `fr` is waiting (a unary operator, an
    assignment or compound assignment, a slice bound, a pending argument list …), the operand beneath it is evaluated
    completely — its own `n` steps, exactly as if alone — and exactly once, and only then is the frame resumed,
    with the operand's value and in the world the operand left -/
theorem operand_then_frame (fr : Frame) {B a vmi w n v w1} (ha : EvalsTo B a vmi w n v w1) (k : List Frame) :
    run (n + 1) { ctl := .ev a vmi, k := fr :: k, w := w, budgets := B } = (resume fr v k w1).withBudgets B := by
  rw [run_add, eval_in_context ha]
  rfl

/-- … and if the operand raises, the frame is unwound instead: its operation is never applied -/
theorem operand_raises_then_unwind (fr : Frame) {B a vmi w n e w1} (ha : RaisesIn B a vmi w n e w1) (k : List Frame) :
    run (n + 1) { ctl := .ev a vmi, k := fr :: k, w := w, budgets := B } = (unwind fr e k w1).withBudgets B := by
  rw [run_add, raise_in_context ha]
  rfl

/-- **strict binary operator, big step**: once `a` is being evaluated with `b` pending, the machine evaluates `a`
    completely (its `na` steps, exactly as if alone), then `b` completely (its `nb` steps, in the world `a` left),
    then applies the operator ONCE to the two values — for operands of any size, under any pending context `k` -/
theorem strict_bin_big_step (bk : BinK) (h1 : bk ≠ .and) (h2 : bk ≠ .or) {B a b vmi w na va wa nb vb wb}
    (ha : EvalsTo B a vmi w na va wa) (hb : EvalsTo B b vmi wa nb vb wb) (k : List Frame) :
    run (na + 1 + nb + 1) { ctl := .ev a vmi, k := .binL bk b vmi :: k, w := w, budgets := B } =
      (match applyBin wb bk va vb with
       | .ok (r, w') => mkRet r k w'
       | .error e => mkRaise e k wb).withBudgets B := by
  have e1 : run 1 { ctl := .ret va, k := .binL bk b vmi :: k, w := wa, budgets := B } =
      { ctl := .ev b vmi, k := .binR bk va :: k, w := wa, budgets := B } := by
    show step _ = _
    rw [step_ret, strict_bin_left_then_right bk b vmi va k wa h1 h2]; rfl
  rw [run_add, run_add, run_add, eval_in_context ha, e1, eval_in_context hb]
  show step _ = _
  rw [step_ret]
  simp only [resume]
  cases hab : applyBin wb bk va vb with
  | ok r => rfl
  | error e => rfl

/-- `a and b`, `a` falsy: after `a`'s own steps plus one, the result is `a`'s value; `b` is never entered -/
theorem and_big_step_lazy {B a b vmi w na va wa} (ha : EvalsTo B a vmi w na va wa)
    (hf : truthy wa.heap va = false) (k : List Frame) :
    run (na + 1) { ctl := .ev a vmi, k := .binL .and b vmi :: k, w := w, budgets := B } =
      (mkRet va k wa).withBudgets B := by
  rw [run_add, eval_in_context ha]
  show step _ = _
  rw [step_ret, and_lazy b vmi va k wa hf]

/-- `a or b`, `a` truthy: likewise -/
theorem or_big_step_lazy {B a b vmi w na va wa} (ha : EvalsTo B a vmi w na va wa)
    (hf : truthy wa.heap va = true) (k : List Frame) :
    run (na + 1) { ctl := .ev a vmi, k := .binL .or b vmi :: k, w := w, budgets := B } =
      (mkRet va k wa).withBudgets B := by
  rw [run_add, eval_in_context ha]
  show step _ = _
  rw [step_ret, or_lazy b vmi va k wa hf]

/-- `a and b`, `a` truthy: then `b` is evaluated in the world `a` left and ITS value is the result -/
theorem and_big_step_rhs {B a b vmi w na va wa nb vb wb} (ha : EvalsTo B a vmi w na va wa)
    (ht : truthy wa.heap va = true) (hb : EvalsTo B b vmi wa nb vb wb) (k : List Frame) :
    run (na + 1 + nb) { ctl := .ev a vmi, k := .binL .and b vmi :: k, w := w, budgets := B } =
      { ctl := .ret vb, k := k, w := wb, budgets := B } := by
  have e1 : run 1 { ctl := .ret va, k := .binL .and b vmi :: k, w := wa, budgets := B } =
      { ctl := .ev b vmi, k := k, w := wa, budgets := B } := by
    show step _ = _
    rw [step_ret, and_takes_rhs b vmi va k wa ht]; rfl
  rw [run_add, run_add, eval_in_context ha, e1]
  exact eval_in_context hb k

theorem or_big_step_rhs {B a b vmi w na va wa nb vb wb} (ha : EvalsTo B a vmi w na va wa)
    (ht : truthy wa.heap va = false) (hb : EvalsTo B b vmi wa nb vb wb) (k : List Frame) :
    run (na + 1 + nb) { ctl := .ev a vmi, k := .binL .or b vmi :: k, w := w, budgets := B } =
      { ctl := .ret vb, k := k, w := wb, budgets := B } := by
  have e1 : run 1 { ctl := .ret va, k := .binL .or b vmi :: k, w := wa, budgets := B } =
      { ctl := .ev b vmi, k := k, w := wa, budgets := B } := by
    show step _ = _
    rw [step_ret, or_takes_rhs b vmi va k wa ht]; rfl
  rw [run_add, run_add, eval_in_context ha, e1]
  exact eval_in_context hb k

/-- `x if c else y`: the condition completely, then exactly the chosen branch, in the world the condition left;
    the branch not chosen contributes no step at all (the step count is `nc + 1 + nx`) -/
theorem ifexpr_big_step {B c x y vmi w nc vc wc nx vx wx} (hc : EvalsTo B c vmi w nc vc wc)
    (hx : EvalsTo B (if truthy wc.heap vc then x else y) vmi wc nx vx wx) (k : List Frame) :
    run (nc + 1 + nx) { ctl := .ev c vmi, k := .ifK x y vmi :: k, w := w, budgets := B } =
      { ctl := .ret vx, k := k, w := wx, budgets := B } := by
  have e1 : run 1 { ctl := .ret vc, k := .ifK x y vmi :: k, w := wc, budgets := B } =
      { ctl := .ev (if truthy wc.heap vc then x else y) vmi, k := k, w := wc, budgets := B } := by
    show step _ = _
    rw [step_ret, ifexpr_one_branch x y vmi vc k wc]; rfl
  rw [run_add, run_add, eval_in_context hc, e1]
  exact eval_in_context hx k

/-- an operand that raises aborts the strict operator before the right operand is entered: after `a`'s own steps
    plus one the exception is propagating out of the operator's frame, whatever `b` is -/
theorem strict_bin_left_raises (bk : BinK) {B a b vmi w na e wa} (ha : RaisesIn B a vmi w na e wa) (k : List Frame) :
    run (na + 1) { ctl := .ev a vmi, k := .binL bk b vmi :: k, w := w, budgets := B } =
      (mkRaise e k wa).withBudgets B := by
  rw [run_add, raise_in_context ha]
  show step _ = _
  rw [step_raise, raise_skips_rhs bk b vmi e k wa]

/-- the expressions `ops`, evaluated one after the other (each alone, each in the world its predecessor left),
    return the values `vs`; `n` is the total number of steps including one hand-over step after each -/
inductive EvalsSeq (B : List Nat) (vmi : Nat) : World → List Op → Nat → List Val → World → Prop
  | nil (w : World) : EvalsSeq B vmi w [] 0 [] w
  | cons {w a n v w1 rest m vs w2} : EvalsTo B a vmi w n v w1 → EvalsSeq B vmi w1 rest m vs w2 →
      EvalsSeq B vmi w (a :: rest) (n + 1 + m) (v :: vs) w2

/-- **call arguments, big step**: with any number of arguments of any size, the machine evaluates them one after
    the other in source order, each exactly once and completely before the next is entered, and only then looks
    the callee up and calls it with the values in source order -/
theorem args_big_step (nm : Name) {B vmi} (k : List Frame) (rest : List Op) :
    ∀ (done : List Val) {a w n v w1 m vs w2}, EvalsTo B a vmi w n v w1 → EvalsSeq B vmi w1 rest m vs w2 →
    run (n + 1 + m) { ctl := .ev a vmi, k := .argsK nm done rest vmi :: k, w := w, budgets := B } =
      (doCall nm (done.reverse ++ v :: vs) vmi k w2).withBudgets B := by
  induction rest with
  | nil =>
    intro done a w n v w1 m vs w2 ha hs
    cases hs
    rw [run_add (n + 1) 0, run_add n 1, eval_in_context ha]
    show step _ = _
    rw [step_ret, call_after_last_arg]
    simp
  | cons b rest ih =>
    intro done a w n v w1 m vs w2 ha hs
    cases hs with
    | cons hb hs' =>
      have e1 : run 1 { ctl := .ret v, k := .argsK nm done (b :: rest) vmi :: k, w := w1, budgets := B } =
          { ctl := .ev b vmi, k := .argsK nm (v :: done) rest vmi :: k, w := w1, budgets := B } := rfl
      rename_i n' v' w1' m' vs'
      rw [run_add (n + 1) (n' + 1 + m'), run_add n 1, eval_in_context ha, e1, ih (v :: done) hb hs']
      simp

/-- a whole call expression: `f(a, rest…)` -/
theorem call_big_step (nm : Name) {B vmi a rest w n v w1 m vs w2} (k : List Frame)
    (ha : EvalsTo B a vmi w n v w1) (hs : EvalsSeq B vmi w1 rest m vs w2) :
    run (n + 1 + m) ((enter (.call nm (a :: rest)) vmi k w).withBudgets B) =
      (doCall nm (v :: vs) vmi k w2).withBudgets B := by
  have := args_big_step nm k rest [] ha hs
  simp only [List.reverse_nil, List.nil_append] at this
  exact this

/-- what a dict literal does once all its parts are values: build the dict (casting keys), allocate it -/
def dictFinish (parts : List Val) (k : List Frame) (w : World) : Core :=
  match buildDict w.heap parts [] with
  | .error e => mkRaise e k w
  | .ok kvs => mkRet (.ref (w.heap.alloc (.dict kvs)).2) k { w with heap := (w.heap.alloc (.dict kvs)).1 }

theorem dict_after_last_part (done : List Val) (vmi : Nat) (v : Val) (k : List Frame) (w : World) :
    resume (.dictK done [] vmi) v k w = dictFinish (v :: done).reverse k w := by
  unfold dictFinish
  simp only [resume]
  cases buildDict w.heap (v :: done).reverse [] <;> rfl

/-- **dict literal, big step**: the parts k₁, v₁, k₂, v₂, … are evaluated in source order, each once and completely
    before the next, and the dict is built from the values in source order afterwards -/
theorem dict_big_step {B vmi} (k : List Frame) (rest : List Op) :
    ∀ (done : List Val) {a w n v w1 m vs w2}, EvalsTo B a vmi w n v w1 → EvalsSeq B vmi w1 rest m vs w2 →
    run (n + 1 + m) { ctl := .ev a vmi, k := .dictK done rest vmi :: k, w := w, budgets := B } =
      (dictFinish (done.reverse ++ v :: vs) k w2).withBudgets B := by
  induction rest with
  | nil =>
    intro done a w n v w1 m vs w2 ha hs
    cases hs
    rw [run_add (n + 1) 0, run_add n 1, eval_in_context ha]
    show step _ = _
    rw [step_ret, dict_after_last_part]
    simp
  | cons b rest ih =>
    intro done a w n v w1 m vs w2 ha hs
    cases hs with
    | cons hb hs' =>
      have e1 : run 1 { ctl := .ret v, k := .dictK done (b :: rest) vmi :: k, w := w1, budgets := B } =
          { ctl := .ev b vmi, k := .dictK (v :: done) rest vmi :: k, w := w1, budgets := B } := rfl
      rename_i n' v' w1' m' vs'
      rw [run_add (n + 1) (n' + 1 + m'), run_add n 1, eval_in_context ha, e1, ih (v :: done) hb hs']
      simp

/-- a world with one VM state and a host scope -/
def w1 : World := { heap := #[.dict []], vms := [{ scopes := [0], ops := 0 }], log := [], rng := 0, rx := [], probes := [] }

/-- non-vacuity: `None` evaluates alone in one step (charge + enter) when the budget allows -/
example : ∃ w', EvalsTo [100] (.value .none) 0 w1 1 .none w' := by
  refine ⟨(run 1 { ctl := .ev (.value .none) 0, k := [], w := w1, budgets := [100] }).w, rfl, ?_⟩
  intro i hi
  have : i = 0 := by omega
  subst this
  intro ⟨_, h⟩
  rcases h with ⟨v, hv⟩ | ⟨e, he⟩
  · cases hv
  · cases he

end SqProps.C09
