/-
  C09 — lazy and / or / if-else; all other operands evaluated once, left to right.
  Statements about one machine transition (`enter` on a node, `resume` on a returned value); they
  hold for every continuation `k` and world `w`, hence at every position of every program.
-/
import Sq.Machine
import SqLemmas.LogLemmas
import SqLemmas.FrameLemmas
namespace SqProps.C09
open Sq

/-- `a and b` starts by evaluating `a` only; `b` waits unevaluated in the frame -/
theorem and_or_enter (bk : BinK) (a b : Op) (vm : Nat) (k : List Frame) (w : World) :
    enter (.bin bk a b) vm k w = { ctl := .ev a vm, k := .binL bk b vm :: k, w := w } := rfl

/-- `a and b` with `a` falsy: the result is `a`'s value itself and `b` is never entered -/
theorem and_lazy (b : Op) (vm : Nat) (v : Val) (k : List Frame) (w : World)
    (h : truthy w.heap v = false) : resume (.binL .and b vm) v k w = mkRet v k w := by
  simp [resume, h]

/-- `a and b` with `a` truthy: `b` is evaluated next and its value is the result (no frame left) -/
theorem and_takes_rhs (b : Op) (vm : Nat) (v : Val) (k : List Frame) (w : World)
    (h : truthy w.heap v = true) : resume (.binL .and b vm) v k w = { ctl := .ev b vm, k := k, w := w } := by
  simp [resume, h]

theorem or_lazy (b : Op) (vm : Nat) (v : Val) (k : List Frame) (w : World)
    (h : truthy w.heap v = true) : resume (.binL .or b vm) v k w = mkRet v k w := by
  simp [resume, h]

theorem or_takes_rhs (b : Op) (vm : Nat) (v : Val) (k : List Frame) (w : World)
    (h : truthy w.heap v = false) : resume (.binL .or b vm) v k w = { ctl := .ev b vm, k := k, w := w } := by
  simp [resume, h]

/-- `x if c else y`: `c` first … -/
theorem ifexpr_cond_first (c a b : Op) (vm : Nat) (k : List Frame) (w : World) :
    enter (.ifx c a b) vm k w = { ctl := .ev c vm, k := .ifK a b vm :: k, w := w } := rfl

/-- … then exactly one branch; the other one is dropped with the frame -/
theorem ifexpr_one_branch (a b : Op) (vm : Nat) (v : Val) (k : List Frame) (w : World) :
    resume (.ifK a b vm) v k w =
      { ctl := .ev (if truthy w.heap v then a else b) vm, k := k, w := w } := by
  by_cases h : truthy w.heap v <;> simp [resume, h]

/-- every other binary operator: left operand, then right operand, then the operation -/
theorem strict_bin_left_then_right (bk : BinK) (b : Op) (vm : Nat) (v : Val) (k : List Frame) (w : World)
    (h1 : bk ≠ .and) (h2 : bk ≠ .or) :
    resume (.binL bk b vm) v k w = { ctl := .ev b vm, k := .binR bk v :: k, w := w } := by
  cases bk <;> simp_all [resume]

/-- call arguments, left to right: a returned argument value is recorded and the next argument
    is evaluated; nothing is re-evaluated -/
theorem args_left_to_right (n : Name) (done : List Val) (nxt : Op) (rest : List Op) (vm : Nat)
    (v : Val) (k : List Frame) (w : World) :
    resume (.argsK n done (nxt :: rest) vm) v k w =
      { ctl := .ev nxt vm, k := .argsK n (v :: done) rest vm :: k, w := w } := rfl

/-- the callee is looked up and called only after the last argument, with the arguments in
    source order -/
theorem call_after_last_arg (n : Name) (done : List Val) (vm : Nat) (v : Val) (k : List Frame) (w : World) :
    resume (.argsK n done [] vm) v k w = doCall n (v :: done).reverse vm k w := rfl

/-- dict literal parts k₁, v₁, k₂, v₂, … in source order -/
theorem dict_parts_in_order (done : List Val) (nxt : Op) (rest : List Op) (vm : Nat)
    (v : Val) (k : List Frame) (w : World) :
    resume (.dictK done (nxt :: rest) vm) v k w =
      { ctl := .ev nxt vm, k := .dictK (v :: done) rest vm :: k, w := w } := rfl

/-- slice bounds start, stop, step in order -/
theorem slice_bounds_in_order (a b c : Op) (vm : Nat) (k : List Frame) (w : World) :
    enter (.slice a b c) vm k w = { ctl := .ev a vm, k := .sliceK [] [b, c] vm :: k, w := w } := rfl

/-- list elements / call arguments start with the first one -/
theorem call_first_arg_first (n : Name) (a : Op) (rest : List Op) (vm : Nat) (k : List Frame) (w : World) :
    enter (.call n (a :: rest)) vm k w = { ctl := .ev a vm, k := .argsK n [] rest vm :: k, w := w } := rfl

/-- if an operand raises, the pending operands stored in the frame are discarded unevaluated:
    unwinding a non-catching, non-scope frame just drops it -/
theorem raise_skips_pending_args (n : Name) (done : List Val) (todo : List Op) (vm : Nat)
    (e : PyErr) (k : List Frame) (w : World) :
    unwind (.argsK n done todo vm) e k w = mkRaise e k w := rfl

theorem raise_skips_rhs (bk : BinK) (b : Op) (vm : Nat) (e : PyErr) (k : List Frame) (w : World) :
    unwind (.binL bk b vm) e k w = mkRaise e k w := rfl

/-! ### whole sub-evaluations (frame lemma)

The statements above are about single transitions.  With the frame lemma (`Sq.run_app`) they lift to
whole sub-evaluations of arbitrary length: an operand that — run ALONE — returns `v` after `n` steps
returns the same `v` after the same `n` steps beneath any pending frames, and leaves them untouched. -/

/-- the expression `op`, evaluated alone from world `w`, returns `v` in world `w'` after `n` steps -/
def EvalsTo (B : List Nat) (op : Op) (vmi : Nat) (w : World) (n : Nat) (v : Val) (w' : World) : Prop :=
  run n { ctl := .ev op vmi, k := [], w := w, budgets := B } = { ctl := .ret v, k := [], w := w', budgets := B } ∧
  ∀ i, i < n → ¬ Underflow (run i { ctl := .ev op vmi, k := [], w := w, budgets := B }).core

/-- the expression `op`, evaluated alone from world `w`, raises `e` in world `w'` after `n` steps -/
def RaisesIn (B : List Nat) (op : Op) (vmi : Nat) (w : World) (n : Nat) (e : PyErr) (w' : World) : Prop :=
  run n { ctl := .ev op vmi, k := [], w := w, budgets := B } = { ctl := .raise e, k := [], w := w', budgets := B } ∧
  ∀ i, i < n → ¬ Underflow (run i { ctl := .ev op vmi, k := [], w := w, budgets := B }).core

/-- **evaluation in context**: the pending frames `k0` neither influence a sub-evaluation nor are touched by it -/
theorem eval_in_context {B op vmi w n v w'} (h : EvalsTo B op vmi w n v w') (k0 : List Frame) :
    run n { ctl := .ev op vmi, k := k0, w := w, budgets := B } = { ctl := .ret v, k := k0, w := w', budgets := B } := by
  have := run_app n { ctl := .ev op vmi, k := [], w := w, budgets := B } k0 h.2
  rw [h.1] at this
  simpa [Cfg.app] using this

theorem raise_in_context {B op vmi w n e w'} (h : RaisesIn B op vmi w n e w') (k0 : List Frame) :
    run n { ctl := .ev op vmi, k := k0, w := w, budgets := B } = { ctl := .raise e, k := k0, w := w', budgets := B } := by
  have := run_app n { ctl := .ev op vmi, k := [], w := w, budgets := B } k0 h.2
  rw [h.1] at this
  simpa [Cfg.app] using this

private theorem step_ret (fr : Frame) (v : Val) (k : List Frame) (w : World) (B : List Nat) :
    step { ctl := .ret v, k := fr :: k, w := w, budgets := B } = (resume fr v k w).withBudgets B := rfl

private theorem step_raise (fr : Frame) (e : PyErr) (k : List Frame) (w : World) (B : List Nat) :
    step { ctl := .raise e, k := fr :: k, w := w, budgets := B } = (unwind fr e k w).withBudgets B := rfl

/-- **any pending operation waits for its operand**: whatever frame `fr` is waiting (a unary operator, an
    assignment or compound assignment, a slice bound, a pending argument list …), the operand beneath it is evaluated
    completely — its own `n` steps, exactly as if alone — and exactly once, and only then is the frame resumed,
    with the operand's value and in the world the operand left -/
theorem operand_then_frame (fr : Frame) {B a vmi w n v w1} (ha : EvalsTo B a vmi w n v w1) (k : List Frame) :
    run (n + 1) { ctl := .ev a vmi, k := fr :: k, w := w, budgets := B } = (resume fr v k w1).withBudgets B := by
  rw [run_add, eval_in_context ha]
  rfl

/-- … and if the operand raises, the frame is unwound instead: its operation is never applied -/
theorem operand_raises_then_unwind (fr : Frame) {B a vmi w n e w1} (ha : RaisesIn B a vmi w n e w1) (k : List Frame) :
    run (n + 1) { ctl := .ev a vmi, k := fr :: k, w := w, budgets := B } = (unwind fr e k w1).withBudgets B := by
  rw [run_add, raise_in_context ha]
  rfl

/-- **strict binary operator, big step**: once `a` is being evaluated with `b` pending, the machine evaluates `a`
    completely (its `na` steps, exactly as if alone), then `b` completely (its `nb` steps, in the world `a` left),
    then applies the operator ONCE to the two values — for operands of any size, under any pending context `k` -/
theorem strict_bin_big_step (bk : BinK) (h1 : bk ≠ .and) (h2 : bk ≠ .or) {B a b vmi w na va wa nb vb wb}
    (ha : EvalsTo B a vmi w na va wa) (hb : EvalsTo B b vmi wa nb vb wb) (k : List Frame) :
    run (na + 1 + nb + 1) { ctl := .ev a vmi, k := .binL bk b vmi :: k, w := w, budgets := B } =
      (match applyBin wb bk va vb with
       | .ok (r, w') => mkRet r k w'
       | .error e => mkRaise e k wb).withBudgets B := by
  have e1 : run 1 { ctl := .ret va, k := .binL bk b vmi :: k, w := wa, budgets := B } =
      { ctl := .ev b vmi, k := .binR bk va :: k, w := wa, budgets := B } := by
    show step _ = _
    rw [step_ret, strict_bin_left_then_right bk b vmi va k wa h1 h2]; rfl
  rw [run_add, run_add, run_add, eval_in_context ha, e1, eval_in_context hb]
  show step _ = _
  rw [step_ret]
  simp only [resume]
  cases hab : applyBin wb bk va vb with
  | ok r => rfl
  | error e => rfl

/-- `a and b`, `a` falsy: after `a`'s own steps plus one, the result is `a`'s value; `b` is never entered -/
theorem and_big_step_lazy {B a b vmi w na va wa} (ha : EvalsTo B a vmi w na va wa)
    (hf : truthy wa.heap va = false) (k : List Frame) :
    run (na + 1) { ctl := .ev a vmi, k := .binL .and b vmi :: k, w := w, budgets := B } =
      (mkRet va k wa).withBudgets B := by
  rw [run_add, eval_in_context ha]
  show step _ = _
  rw [step_ret, and_lazy b vmi va k wa hf]

/-- `a or b`, `a` truthy: likewise -/
theorem or_big_step_lazy {B a b vmi w na va wa} (ha : EvalsTo B a vmi w na va wa)
    (hf : truthy wa.heap va = true) (k : List Frame) :
    run (na + 1) { ctl := .ev a vmi, k := .binL .or b vmi :: k, w := w, budgets := B } =
      (mkRet va k wa).withBudgets B := by
  rw [run_add, eval_in_context ha]
  show step _ = _
  rw [step_ret, or_lazy b vmi va k wa hf]

/-- `a and b`, `a` truthy: then `b` is evaluated in the world `a` left and ITS value is the result -/
theorem and_big_step_rhs {B a b vmi w na va wa nb vb wb} (ha : EvalsTo B a vmi w na va wa)
    (ht : truthy wa.heap va = true) (hb : EvalsTo B b vmi wa nb vb wb) (k : List Frame) :
    run (na + 1 + nb) { ctl := .ev a vmi, k := .binL .and b vmi :: k, w := w, budgets := B } =
      { ctl := .ret vb, k := k, w := wb, budgets := B } := by
  have e1 : run 1 { ctl := .ret va, k := .binL .and b vmi :: k, w := wa, budgets := B } =
      { ctl := .ev b vmi, k := k, w := wa, budgets := B } := by
    show step _ = _
    rw [step_ret, and_takes_rhs b vmi va k wa ht]; rfl
  rw [run_add, run_add, eval_in_context ha, e1]
  exact eval_in_context hb k

theorem or_big_step_rhs {B a b vmi w na va wa nb vb wb} (ha : EvalsTo B a vmi w na va wa)
    (ht : truthy wa.heap va = false) (hb : EvalsTo B b vmi wa nb vb wb) (k : List Frame) :
    run (na + 1 + nb) { ctl := .ev a vmi, k := .binL .or b vmi :: k, w := w, budgets := B } =
      { ctl := .ret vb, k := k, w := wb, budgets := B } := by
  have e1 : run 1 { ctl := .ret va, k := .binL .or b vmi :: k, w := wa, budgets := B } =
      { ctl := .ev b vmi, k := k, w := wa, budgets := B } := by
    show step _ = _
    rw [step_ret, or_takes_rhs b vmi va k wa ht]; rfl
  rw [run_add, run_add, eval_in_context ha, e1]
  exact eval_in_context hb k

/-- `x if c else y`: the condition completely, then exactly the chosen branch, in the world the condition left;
    the branch not chosen contributes no step at all (the step count is `nc + 1 + nx`) -/
theorem ifexpr_big_step {B c x y vmi w nc vc wc nx vx wx} (hc : EvalsTo B c vmi w nc vc wc)
    (hx : EvalsTo B (if truthy wc.heap vc then x else y) vmi wc nx vx wx) (k : List Frame) :
    run (nc + 1 + nx) { ctl := .ev c vmi, k := .ifK x y vmi :: k, w := w, budgets := B } =
      { ctl := .ret vx, k := k, w := wx, budgets := B } := by
  have e1 : run 1 { ctl := .ret vc, k := .ifK x y vmi :: k, w := wc, budgets := B } =
      { ctl := .ev (if truthy wc.heap vc then x else y) vmi, k := k, w := wc, budgets := B } := by
    show step _ = _
    rw [step_ret, ifexpr_one_branch x y vmi vc k wc]; rfl
  rw [run_add, run_add, eval_in_context hc, e1]
  exact eval_in_context hx k

/-- an operand that raises aborts the strict operator before the right operand is entered: after `a`'s own steps
    plus one the exception is propagating out of the operator's frame, whatever `b` is -/
theorem strict_bin_left_raises (bk : BinK) {B a b vmi w na e wa} (ha : RaisesIn B a vmi w na e wa) (k : List Frame) :
    run (na + 1) { ctl := .ev a vmi, k := .binL bk b vmi :: k, w := w, budgets := B } =
      (mkRaise e k wa).withBudgets B := by
  rw [run_add, raise_in_context ha]
  show step _ = _
  rw [step_raise, raise_skips_rhs bk b vmi e k wa]

/-- the expressions `ops`, evaluated one after the other (each alone, each in the world its predecessor left),
    return the values `vs`; `n` is the total number of steps including one hand-over step after each -/
inductive EvalsSeq (B : List Nat) (vmi : Nat) : World → List Op → Nat → List Val → World → Prop
  | nil (w : World) : EvalsSeq B vmi w [] 0 [] w
  | cons {w a n v w1 rest m vs w2} : EvalsTo B a vmi w n v w1 → EvalsSeq B vmi w1 rest m vs w2 →
      EvalsSeq B vmi w (a :: rest) (n + 1 + m) (v :: vs) w2

/-- **call arguments, big step**: with any number of arguments of any size, the machine evaluates them one after
    the other in source order, each exactly once and completely before the next is entered, and only then looks
    the callee up and calls it with the values in source order -/
theorem args_big_step (nm : Name) {B vmi} (k : List Frame) (rest : List Op) :
    ∀ (done : List Val) {a w n v w1 m vs w2}, EvalsTo B a vmi w n v w1 → EvalsSeq B vmi w1 rest m vs w2 →
    run (n + 1 + m) { ctl := .ev a vmi, k := .argsK nm done rest vmi :: k, w := w, budgets := B } =
      (doCall nm (done.reverse ++ v :: vs) vmi k w2).withBudgets B := by
  induction rest with
  | nil =>
    intro done a w n v w1 m vs w2 ha hs
    cases hs
    rw [run_add (n + 1) 0, run_add n 1, eval_in_context ha]
    show step _ = _
    rw [step_ret, call_after_last_arg]
    simp
  | cons b rest ih =>
    intro done a w n v w1 m vs w2 ha hs
    cases hs with
    | cons hb hs' =>
      have e1 : run 1 { ctl := .ret v, k := .argsK nm done (b :: rest) vmi :: k, w := w1, budgets := B } =
          { ctl := .ev b vmi, k := .argsK nm (v :: done) rest vmi :: k, w := w1, budgets := B } := rfl
      rename_i n' v' w1' m' vs'
      rw [run_add (n + 1) (n' + 1 + m'), run_add n 1, eval_in_context ha, e1, ih (v :: done) hb hs']
      simp

/-- a whole call expression: `f(a, rest…)` -/
theorem call_big_step (nm : Name) {B vmi a rest w n v w1 m vs w2} (k : List Frame)
    (ha : EvalsTo B a vmi w n v w1) (hs : EvalsSeq B vmi w1 rest m vs w2) :
    run (n + 1 + m) ((enter (.call nm (a :: rest)) vmi k w).withBudgets B) =
      (doCall nm (v :: vs) vmi k w2).withBudgets B := by
  have := args_big_step nm k rest [] ha hs
  simp only [List.reverse_nil, List.nil_append] at this
  exact this

/-- what a dict literal does once all its parts are values: build the dict (casting keys), allocate it -/
def dictFinish (parts : List Val) (k : List Frame) (w : World) : Core :=
  match buildDict w.heap parts [] with
  | .error e => mkRaise e k w
  | .ok kvs => mkRet (.ref (w.heap.alloc (.dict kvs)).2) k { w with heap := (w.heap.alloc (.dict kvs)).1 }

theorem dict_after_last_part (done : List Val) (vmi : Nat) (v : Val) (k : List Frame) (w : World) :
    resume (.dictK done [] vmi) v k w = dictFinish (v :: done).reverse k w := by
  unfold dictFinish
  simp only [resume]
  cases buildDict w.heap (v :: done).reverse [] <;> rfl

/-- **dict literal, big step**: the parts k₁, v₁, k₂, v₂, … are evaluated in source order, each once and completely
    before the next, and the dict is built from the values in source order afterwards -/
theorem dict_big_step {B vmi} (k : List Frame) (rest : List Op) :
    ∀ (done : List Val) {a w n v w1 m vs w2}, EvalsTo B a vmi w n v w1 → EvalsSeq B vmi w1 rest m vs w2 →
    run (n + 1 + m) { ctl := .ev a vmi, k := .dictK done rest vmi :: k, w := w, budgets := B } =
      (dictFinish (done.reverse ++ v :: vs) k w2).withBudgets B := by
  induction rest with
  | nil =>
    intro done a w n v w1 m vs w2 ha hs
    cases hs
    rw [run_add (n + 1) 0, run_add n 1, eval_in_context ha]
    show step _ = _
    rw [step_ret, dict_after_last_part]
    simp
  | cons b rest ih =>
    intro done a w n v w1 m vs w2 ha hs
    cases hs with
    | cons hb hs' =>
      have e1 : run 1 { ctl := .ret v, k := .dictK done (b :: rest) vmi :: k, w := w1, budgets := B } =
          { ctl := .ev b vmi, k := .dictK (v :: done) rest vmi :: k, w := w1, budgets := B } := rfl
      rename_i n' v' w1' m' vs'
      rw [run_add (n + 1) (n' + 1 + m'), run_add n 1, eval_in_context ha, e1, ih (v :: done) hb hs']
      simp

/-- a world with one VM state and a host scope -/
def w1 : World := { heap := #[.dict []], vms := [{ scopes := [0], ops := 0 }], log := [], rng := 0, rx := [], probes := [] }

/-- non-vacuity: `None` evaluates alone in one step (charge + enter) when the budget allows -/
example : ∃ w', EvalsTo [100] (.value .none) 0 w1 1 .none w' := by
  refine ⟨(run 1 { ctl := .ev (.value .none) 0, k := [], w := w1, budgets := [100] }).w, rfl, ?_⟩
  intro i hi
  have : i = 0 := by omega
  subst this
  intro ⟨_, h⟩
  rcases h with ⟨v, hv⟩ | ⟨e, he⟩
  · cases hv
  · cases he


/-! ### the three-part slice node and the callbacks of the higher-order builtins, big step -/

/-- **three-part slice, big step**: the bounds `a : b : c` are evaluated in source order, each completely and exactly once,
    each cast to an integer (or None) as soon as it is a value, and the slice object is built from the three casts -/
theorem slice_big_step {B a b c vmi w na va wa nb vb wb nc vc wc xa xb xc}
    (ha : EvalsTo B a vmi w na va wa) (hb : EvalsTo B b vmi wa nb vb wb) (hc : EvalsTo B c vmi wb nc vc wc)
    (ca : safeCastInt va = .ok xa) (cb : safeCastInt vb = .ok xb) (cc : safeCastInt vc = .ok xc) (k : List Frame) :
    run (na + 1 + (nb + 1) + (nc + 1)) ((enter (.slice a b c) vmi k w).withBudgets B) =
      (mkRet (.slice xa xb xc) k wc).withBudgets B := by
  have e0 : (enter (.slice a b c) vmi k w).withBudgets B =
      { ctl := .ev a vmi, k := .sliceK [] [b, c] vmi :: k, w := w, budgets := B } := rfl
  have e1 : (resume (.sliceK [] [b, c] vmi) va k wa).withBudgets B =
      { ctl := .ev b vmi, k := .sliceK [xa] [c] vmi :: k, w := wa, budgets := B } := by
    simp only [resume, ca]; rfl
  have e2 : (resume (.sliceK [xa] [c] vmi) vb k wb).withBudgets B =
      { ctl := .ev c vmi, k := .sliceK [xb, xa] [] vmi :: k, w := wb, budgets := B } := by
    simp only [resume, cb]; rfl
  have e3 : (resume (.sliceK [xb, xa] [] vmi) vc k wc).withBudgets B = (mkRet (.slice xa xb xc) k wc).withBudgets B := by
    simp only [resume, cc]; rfl
  rw [e0, run_add (na + 1 + (nb + 1)) (nc + 1), run_add (na + 1) (nb + 1), operand_then_frame _ ha, e1, operand_then_frame _ hb, e2, operand_then_frame _ hc, e3]

/-- … and a bound that is not an integer stops the evaluation there: the later bounds are never entered -/
theorem slice_first_bound_rejected {B a b c vmi w na va wa e}
    (ha : EvalsTo B a vmi w na va wa) (ca : safeCastInt va = .error e) (k : List Frame) :
    run (na + 1) ((enter (.slice a b c) vmi k w).withBudgets B) = (mkRaise e k wa).withBudgets B := by
  have e0 : (enter (.slice a b c) vmi k w).withBudgets B =
      { ctl := .ev a vmi, k := .sliceK [] [b, c] vmi :: k, w := w, budgets := B } := rfl
  rw [e0, operand_then_frame _ ha]
  simp only [resume, ca]

/-- … and if a bound raises, the later bounds are never entered and no slice is built -/
theorem slice_first_bound_raises {B a b c vmi w na e wa}
    (ha : RaisesIn B a vmi w na e wa) (k : List Frame) :
    run (na + 1) ((enter (.slice a b c) vmi k w).withBudgets B) = (unwind (.sliceK [] [b, c] vmi) e k wa).withBudgets B := by
  have e0 : (enter (.slice a b c) vmi k w).withBudgets B =
      { ctl := .ev a vmi, k := .sliceK [] [b, c] vmi :: k, w := w, budgets := B } := rfl
  rw [e0, operand_raises_then_unwind _ ha]

/-- the function value `g`, applied to `args` alone from world `w`, returns `v` in world `w'` after `n` steps
    (`fuel` is the trampoline bound of `callVal`; the callbacks of map / filter / reduce / sorted run with `callFuel - 1`) -/
def CallsTo (B : List Nat) (fuel : Nat) (g : Val) (args : List Val) (w : World) (n : Nat) (v : Val) (w' : World) : Prop :=
  run n ((callVal fuel g args [] w).withBudgets B) = { ctl := .ret v, k := [], w := w', budgets := B } ∧
  ∀ i, i < n → ¬ Underflow (run i ((callVal fuel g args [] w).withBudgets B)).core

theorem call_in_context {B fuel g args w n v w'} (h : CallsTo B fuel g args w n v w') (k0 : List Frame) :
    run n ((callVal fuel g args k0 w).withBudgets B) = { ctl := .ret v, k := k0, w := w', budgets := B } := by
  have e : (callVal fuel g args k0 w).withBudgets B = ((callVal fuel g args [] w).withBudgets B).app k0 := by
    have := (call_app (k0 := k0) fuel).1 g args [] w
    simp only [List.nil_append] at this
    rw [this]; rfl
  rw [e, run_app n _ k0 h.2, h.1]
  simp [Cfg.app]

/-- the accumulator after a callback returned `v` for element `cur` (what `resume (.iterK …)` computes) -/
def accAfter (kind : IterKind) (h : Heap) (v cur : Val) (acc : List Val) : List Val :=
  match kind with
  | .map => v :: acc
  | .filter => if truthy h v then cur :: acc else acc
  | .reduce => [v]
  | .sortKeys _ _ _ => v :: acc

/-- the arguments the callback gets for `item` -/
def cbArgs (kind : IterKind) (acc item : List Val) : List Val :=
  match kind with
  | .reduce => acc.headD .none :: item
  | _ => item

/-- the callbacks of one higher-order call, one after the other: the next element is fetched (`nextItem`: from the live
    list, or from the snapshot) in the world the previous callback left, `g` is applied to it alone, the accumulator is
    updated; `n` counts all steps including one hand-over step after each callback -/
inductive IterRuns (B : List Nat) (kind : IterKind) (g : Val) : World → IterSrc → List Val → Nat → IterSrc → List Val → World → Prop
  | done {w src acc} : nextItem w.heap src = none → IterRuns B kind g w src acc 0 src acc w
  | next {w src acc item src' n v w1 m srcE accE w2} : nextItem w.heap src = some (item, src') →
      CallsTo B (callFuel - 1) g (cbArgs kind acc item) w n v w1 →
      IterRuns B kind g w1 src' (accAfter kind w1.heap v (item.headD .none) acc) m srcE accE w2 →
      IterRuns B kind g w src acc (n + 1 + m) srcE accE w2

/-- **callbacks of map / filter / reduce / sorted, big step**: the callback is applied to the elements in iteration
    order, each application completely (its own `n` steps, exactly as if alone) and exactly once before the next
    element is fetched, and only after the last one is the result built from the accumulated values -/
theorem hof_big_step {B kind g} (k : List Frame) {w src acc n srcE accE w2}
    (h : IterRuns B kind g w src acc n srcE accE w2) :
    run n ((iterNext callFuel kind g src acc k w).withBudgets B) =
      (iterNext callFuel kind g srcE accE k w2).withBudgets B ∧ nextItem w2.heap srcE = none := by
  induction h with
  | done hn => exact ⟨rfl, hn⟩
  | @next w src acc item src' n v w1 m srcE accE w2 hn hc _ ih =>
    refine ⟨?_, ih.2⟩
    have e0 : (iterNext callFuel kind g src acc k w).withBudgets B =
        (callVal (callFuel - 1) g (cbArgs kind acc item) (.iterK kind g src' (item.headD .none) acc :: k) w).withBudgets B := by
      show (iterNext (63 + 1) kind g src acc k w).withBudgets B = _
      simp only [iterNext, hn]
      cases kind <;> rfl
    have e1 : run 1 { ctl := .ret v, k := .iterK kind g src' (item.headD .none) acc :: k, w := w1, budgets := B } =
        (iterNext callFuel kind g src' (accAfter kind w1.heap v (item.headD .none) acc) k w1).withBudgets B := by
      show step _ = _
      cases kind <;> rfl
    rw [run_add (n + 1) m, run_add n 1, e0, call_in_context hc, e1, ih.1]

/-- what happens after the last callback of `map` / `filter`: the accumulated values, in iteration order, become a new list -/
theorem map_filter_finish (kind : IterKind) (hk : kind = .map ∨ kind = .filter) (g : Val) (src : IterSrc) (acc : List Val)
    (k : List Frame) (w : World) (hn : nextItem w.heap src = none) :
    iterNext callFuel kind g src acc k w =
      mkRet (.ref (w.heap.alloc (.list acc.reverse)).2) k { w with heap := (w.heap.alloc (.list acc.reverse)).1 } := by
  show iterNext (63 + 1) kind g src acc k w = _
  rcases hk with rfl | rfl <;> simp only [iterNext, hn]

/-- … of `reduce`: the last callback's value is the result -/
theorem reduce_finish (g : Val) (src : IterSrc) (acc : List Val) (k : List Frame) (w : World)
    (hn : nextItem w.heap src = none) : iterNext callFuel .reduce g src acc k w = mkRet (acc.headD .none) k w := by
  show iterNext (63 + 1) .reduce g src acc k w = _
  simp only [iterNext, hn]

/-- non-vacuity: `map` of the builtin `str` over a one-element snapshot -/
example : ∃ n srcE accE w2, IterRuns [100] .map (.builtin "str") w1 (.snap [[.str ['a']]]) [] n srcE accE w2 :=
  ⟨_, _, _, _, IterRuns.next (n := 0) (v := .str ['a']) (w1 := w1) rfl ⟨by rfl, fun i hi => by omega⟩ (IterRuns.done rfl)⟩
end SqProps.C09
