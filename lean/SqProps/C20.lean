/-
  C20 — syntax-error messages name the offending token and its physical line.
  The message format; the line bookkeeping of each lexer step; and the whole-text theorem
  `lineno_is_physical_line`: every token of every text carries the physical line of its first
  character (loop invariant of the token loop, SqLemmas/LexLemmas.lean).  [B] `offending_token_is_a_token_of_the_text`
  (SqLemmas/ParseErr.lean, induction over the parser like the soundness proof): whatever syntax error the parser
  reports, the token it names is one of the tokens of the text (or the end of the input), and a reserved-word error
  names a token of the text.  Together: `syntax_error_names_a_token_and_its_physical_line`.
-/
import Sq.Proto
import SqLemmas.LexLemmas
import SqLemmas.ParseErr
namespace SqProps.C20
open Sq

/-- the message names the token's value and the token's own line -/
theorem message_format (t : Token) (rest : List Token) :
    Proto.syntaxMessage (t :: rest) =
      "Syntax error: ".toList ++ Proto.tokenText t ++ " at line ".toList ++ Dec.natDigits t.line := rfl

/-- an error at the very end of the text is reported as an unexpected end of input -/
theorem end_of_input_message : Proto.syntaxMessage [] = "Syntax error: unexpected end of input".toList := rfl

/-- `;` never advances the line counter -/
theorem semicolon_keeps_line (st : LexSt) (cs : List Char) :
    ∃ t st', lexStep st (';' :: cs) = .tok t st' cs ∧ st'.line = st.line ∧ t.line = st.line := by
  exact ⟨{ ty := .NEWLINE, val := [';'], pos := st.pos, line := st.line },
         { st with pos := st.pos + 1, depth := st.depth + 0 }, by simp [lexStep, mk], rfl, rfl⟩

/-- a line break advances the counter by one, at depth 0 (token carries the line it ends) … -/
theorem newline_advances_line_depth0 (st : LexSt) (cs : List Char) (h : st.depth = 0) :
    ∃ t st', lexStep st ('\n' :: cs) = .tok t st' cs ∧ st'.line = st.line + 1 ∧ t.line = st.line := by
  exact ⟨{ ty := .NEWLINE, val := ['\n'], pos := st.pos, line := st.line },
         { st with pos := st.pos + 1, line := st.line + 1 }, by simp [lexStep, h, mkNL], rfl, rfl⟩

/-- … and inside brackets (where no token is produced) -/
theorem newline_advances_line_in_brackets (st : LexSt) (cs : List Char) (h : st.depth ≠ 0) :
    ∃ st', lexStep st ('\n' :: cs) = .skip st' cs ∧ st'.line = st.line + 1 := by
  exact ⟨{ st with pos := st.pos + 1, line := st.line + 1 }, by simp [lexStep, h], rfl⟩

/-- every token produced by `mk` carries the line counter at its start and leaves it unchanged -/
theorem mk_line (ty : Tk) (v : List Char) (st : LexSt) (n : Nat) (dd : Int) (rest : List Char) :
    ∃ t st', mk ty v st n dd rest = .tok t st' rest ∧ t.line = st.line ∧ st'.line = st.line :=
  ⟨_, _, rfl, rfl, rfl⟩

/-- **the reported line is the physical line**: for EVERY text, every token the lexer delivers (also those delivered
    before a lexical error) carries `1 +` the number of line feeds that precede its first character — whatever mixture
    of `;`, LF, CRLF, comments and multi-line bracketed literals comes before it.  (Loop invariant of the token loop:
    `lineno = 1 + line feeds consumed`; no token except a line break contains a line feed.) -/
theorem lineno_is_physical_line (text : List Char) :
    ∀ t ∈ tokensOf (lexFrom LexSt.init text), t.line = 1 + nl (text.take t.pos) := by
  intro t ht
  unfold lexFrom at ht
  have hline : LexSt.init.line = 1 + nl [] := rfl
  have hpos : LexSt.init.pos = ([] : List Char).length := rfl
  exact lexAll_lines text (text.length + 1) LexSt.init text [] [] rfl hpos hline
    (fun t h => by cases h) t ht

/-- … and its offset is the number of characters before it, so "the line of the token" is well defined -/
theorem message_line_is_token_line (t : Token) (rest : List Token) :
    ∃ pre, Proto.syntaxMessage (t :: rest) = pre ++ " at line ".toList ++ Dec.natDigits t.line :=
  ⟨"Syntax error: ".toList ++ Proto.tokenText t, rfl⟩

/-- **[B]** the token a syntax error points at is a token of the token list (`rest` is a suffix of it);
    an empty `rest` is the end of the input -/
theorem offending_token_is_a_token_of_the_text (ts : List Token) (rest : List Token)
    (h : parseTokens ts = .error (.syn rest)) : ∃ pre, ts = pre ++ rest :=
  parse_error_in_text h

theorem reserved_word_error_names_a_token (ts : List Token) (t : Token) (h : parseTokens ts = .error (.res t)) : t ∈ ts :=
  parse_error_in_text h

/-- **[B] the whole clause**: for every text the lexer reads completely and the parser rejects at a token `t`, the
    message is "Syntax error: <text of t> at line <n>" where `t` is one of the text's tokens and
    `n = 1 +` the number of line feeds before `t` — whatever `;`, line breaks inside brackets, CRLF or comments precede -/
theorem syntax_error_names_a_token_and_its_physical_line (text : List Char) (ts : List Token) (st' : LexSt)
    (t : Token) (rest : List Token)
    (hlex : lexFrom LexSt.init text = .ok (ts, st')) (hp : parseTokens ts = .error (.syn (t :: rest))) :
    t ∈ ts ∧ t.line = 1 + nl (text.take t.pos) ∧
    Proto.parseText LexSt.init text = .synErr (some t.pos)
      ("Syntax error: ".toList ++ Proto.tokenText t ++ " at line ".toList ++ Dec.natDigits (1 + nl (text.take t.pos))) := by
  obtain ⟨pre, hpre⟩ := parse_error_in_text hp
  have hm : t ∈ ts := by rw [hpre]; simp
  have hl : t.line = 1 + nl (text.take t.pos) := by
    have := lineno_is_physical_line text t
    rw [hlex] at this
    exact this hm
  refine ⟨hm, hl, ?_⟩
  unfold Proto.parseText
  rw [hlex]
  simp only [hp]
  rw [message_format, hl]
  rfl

/-- … and a rejection at the very end of the text is reported as an unexpected end of input -/
theorem end_of_text_error (text : List Char) (ts : List Token) (st' : LexSt)
    (hlex : lexFrom LexSt.init text = .ok (ts, st')) (hp : parseTokens ts = .error (.syn [])) :
    Proto.parseText LexSt.init text = .synErr none "Syntax error: unexpected end of input".toList := by
  unfold Proto.parseText
  rw [hlex]
  simp only [hp]
  rfl

/-! finite tests on the model (the D6 witnesses, now reporting the physical line) -/
example : Proto.outcome "1;2 3" = (.syn, "Syntax error: 3 at line 1".toList) := by decide +kernel
example : Proto.outcome "[1,\n2] x" = (.syn, "Syntax error: x at line 2".toList) := by decide +kernel
example : Proto.outcome "a\nb\r\nc d" = (.syn, "Syntax error: d at line 3".toList) := by decide +kernel
example : Proto.outcome "f(1,\n\n2); x y" = (.syn, "Syntax error: y at line 3".toList) := by decide +kernel
example : Proto.outcome "x = [\n1,\n2" = (.syn, "Syntax error: unexpected end of input".toList) := by decide +kernel

end SqProps.C20
