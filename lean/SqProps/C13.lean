/-
  C13 — non-mutating builtins never modify their arguments.
  `HeapExt h h'`: every object of `h` is still in `h'`, unchanged (new objects may have been
  appended).  [A]: allocation is an extension; the non-mutators proved so far return either a value
  with the heap untouched or a freshly allocated container (extension); every name of the table is
  classified.  Pending: the remaining entries of the table and `writes_classified` for the machine
  step (the monitor snapshots every argument of every entry meanwhile).
-/
import Sq.Machine
namespace SqProps.C13
open Sq

/-- all existing objects are preserved -/
def HeapExt (h h' : Heap) : Prop := h.size ≤ h'.size ∧ ∀ a, a < h.size → h'.get? a = h.get? a

theorem HeapExt.refl (h : Heap) : HeapExt h h := ⟨Nat.le_refl _, fun _ _ => rfl⟩

theorem HeapExt.trans {a b c : Heap} (h1 : HeapExt a b) (h2 : HeapExt b c) : HeapExt a c :=
  ⟨Nat.le_trans h1.1 h2.1, fun x hx => by rw [h2.2 x (Nat.lt_of_lt_of_le hx h1.1), h1.2 x hx]⟩

theorem alloc_ext (h : Heap) (o : HObj) : HeapExt h (h.alloc o).1 := by
  refine ⟨by simp [Heap.alloc], ?_⟩
  intro a ha
  simp [Heap.alloc, Heap.get?, Array.getElem?_push, Nat.ne_of_lt ha]

theorem allocList_ext (s : BState) (xs : List Val) : HeapExt s.heap (allocList s xs).2.heap := by
  simpa [allocList] using alloc_ext s.heap (.list xs)

theorem allocDict_ext (s : BState) (kvs : List (Val × Val)) : HeapExt s.heap (allocDict s kvs).2.heap := by
  simpa [allocDict] using alloc_ext s.heap (.dict kvs)

/-- the classification is total: every entry of the table is either a listed mutator or not -/
theorem mutators_are_builtins : ∀ n ∈ mutatorNames, n ∈ builtinNames := by decide

theorem of_allocList {s : BState} {xs : List Val} {v : Val} {s' : BState}
    (h : allocList s xs = (v, s')) : HeapExt s.heap s'.heap := by
  have := allocList_ext s xs; rw [h] at this; exact this

theorem of_ret {s : BState} {r v : Val} {s' : BState} (h : ret r s = .ok (v, s')) : HeapExt s.heap s'.heap := by
  simp [ret] at h; rw [← h.2]; exact HeapExt.refl _

/-- a result produced by one of the three "harmless" forms -/
inductive Harmless (s : BState) : BR → Prop
  | err (e : PyErr) : Harmless s (.error e)
  | ret (v : Val) : Harmless s (.ok (v, s))
  | newList (xs : List Val) : Harmless s (.ok (allocList s xs))
  | newDict (kvs : List (Val × Val)) : Harmless s (.ok (allocDict s kvs))

theorem Harmless.ext {s : BState} {r : BR} (hh : Harmless s r) (v : Val) (s' : BState)
    (h : r = .ok (v, s')) : HeapExt s.heap s'.heap := by
  cases hh with
  | err e => simp at h
  | ret v0 => simp at h; rw [← h.2]; exact HeapExt.refl _
  | newList xs => simp only [Except.ok.injEq] at h; exact of_allocList h
  | newDict kvs =>
    simp only [Except.ok.injEq] at h
    have := allocDict_ext s kvs; rw [h] at this; exact this

/-- `keys` / `values` / `items`: a new list; nothing existing changes -/
theorem keys_harmless (args : List Val) (s : BState) : Harmless s (b_keys args s) := by
  unfold b_keys
  split
  · split
    · exact .newList _
    · exact .err _
  all_goals first | exact .err _ | exact (by simp [U]; exact .err _)

theorem values_harmless (args : List Val) (s : BState) : Harmless s (b_values args s) := by
  unfold b_values
  split
  · split
    · exact .newList _
    · exact .err _
  all_goals first | exact .err _ | exact (by simp [U]; exact .err _)

theorem items_harmless (args : List Val) (s : BState) : Harmless s (b_items args s) := by
  unfold b_items
  split
  · split
    · exact .newList _
    · exact .err _
  all_goals first | exact .err _ | exact (by simp [U]; exact .err _)

/-- `reversed`: a string, or a new list -/
theorem reversed_harmless (args : List Val) (s : BState) : Harmless s (b_reversed args s) := by
  unfold b_reversed
  split
  · exact .ret _
  · exact .newList _
  · split
    · exact .newList _
    · exact .newList _
    · exact .err _
  all_goals exact .err _

/-- `list(...)` (list literals): a new list holding the argument values -/
theorem list_harmless (args : List Val) (s : BState) : Harmless s (b_list args s) := by
  unfold b_list
  exact .newList _

theorem enumerate_harmless (args : List Val) (s : BState) : Harmless s (b_enumerate args s) := by
  unfold b_enumerate
  split
  · split
    · exact .newList _
    · exact .err _
  · exact .err _

/-- the corollary in the property's words: after a successful call every pre-existing object —
    in particular every argument — is exactly as it was -/
theorem nonmutating_of_harmless {s : BState} {r : BR} (hh : Harmless s r) (v : Val) (s' : BState)
    (h : r = .ok (v, s')) (a : Nat) (ha : a < s.heap.size) : s'.heap.get? a = s.heap.get? a :=
  (hh.ext v s' h).2 a ha

/-- the result of `sorted` (with or without key) is a freshly allocated container -/
theorem sortFinish_nonmutating (keys items : List Val) (rev dm : Bool) (k : List Frame) (w : World) :
    HeapExt w.heap (sortFinish keys items rev dm k w).w.heap := by
  unfold sortFinish
  split
  · exact HeapExt.refl _
  · split
    · simpa [mkRet] using alloc_ext w.heap _
    · simpa [mkRet] using alloc_ext w.heap _

/-- the mutators, for contrast, write exactly the object they are applied to: `push` -/
theorem push_writes_only_target (s : BState) (a : Nat) (v r : Val) (s' : BState)
    (h : b_push [.ref a, v] s = .ok (r, s')) : ∀ b, b ≠ a → s'.heap.get? b = s.heap.get? b := by
  intro b hb
  unfold b_push at h
  simp only [] at h
  split at h
  · simp at h
  · split at h
    · rename_i xs hg
      simp [ret] at h
      rw [← h.2]
      simp [Heap.get?, Heap.set, Ne.symm hb]
    · simp at h

end SqProps.C13
