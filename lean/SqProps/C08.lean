/-
  C08 — decimal arithmetic is exact: no binary floating-point error.
  A decimal is (-1)^neg · coeff · 10^exp with `coeff : Nat`, `exp : Int` — there is no float in the
  model of literals and arithmetic at all.  Exactness is stated over integers scaled to a common
  exponent (no rationals needed):  `scaled d e = ± coeff · 10^(exp - e)` for `e ≤ exp`.
  [A]: literals are exact; `+` / `-` / `*` compute the exact result and then round ONCE with `fix`;
  `fix` is the identity when the exact result fits (≤ 28 digits, exponent in range) and otherwise
  rounds half-even to 28 digits (nearest, ties to even — `roundDiv_halfEven_nearest`);
  comparisons are comparisons of the exact scaled integers.  [B]: `fix` rounds to nearest / ties to even over its
  whole domain (`fix_rounds_to_nearest`), and `/` returns the half-even rounding of the TRUE quotient
  (`division_is_correctly_rounded`, SqLemmas/DivLemmas.lean + FixLemmas.lean).
-/
import Sq.Machine
import SqLemmas.DecLemmas
import SqLemmas.DivLemmas
import SqLemmas.FixLemmas
namespace SqProps.C08
open Sq Sq.Dec

/-- the exact value of `d`, as an integer multiple of 10^e (for e ≤ d.exp) -/
def scaled (d : Dec) (e : Int) : Int :=
  (if d.neg then -1 else 1) * ((d.coeff * 10 ^ (d.exp - e).toNat : Nat) : Int)

/-- a literal denotes exactly its written value: the coefficient is the integer spelled by all
    its digits, the exponent is minus the number of fraction digits; nothing is rounded, however
    many digits are written -/
theorem literal_exact (ip fp : List Char) (d : Dec) (h : ofLiteral ip fp = some d) :
    digitsVal? (ip ++ fp) 0 = some d.coeff ∧ d.exp = -(fp.length : Int) ∧ d.neg = false := by
  unfold ofLiteral at h
  split at h
  · rename_i c hc
    simp only [Option.some.injEq] at h
    rw [← h]
    exact ⟨hc, rfl, rfl⟩
  · simp at h

/-- `+` and `*` are "exact result, then one rounding" -/
theorem add_is_exact_then_fix (a b : Dec) : Dec.add a b = fix (addExact a b) := rfl
theorem mul_is_exact_then_fix (a b : Dec) : Dec.mul a b = fix (mulExact a b) := rfl
theorem sub_is_add_neg (a b : Dec) : Dec.sub a b = fix (addExact a (negate b)) := rfl

/-- the exact sum: at the common exponent `min a.exp b.exp` the scaled values add up -/
theorem addExact_exact (a b : Dec) :
    scaled (addExact a b) (min a.exp b.exp) = scaled a (min a.exp b.exp) + scaled b (min a.exp b.exp)
    ∧ (addExact a b).exp = min a.exp b.exp := by
  unfold addExact
  simp only []
  generalize hca : ((if a.neg then -1 else 1) * ((a.coeff * 10 ^ (a.exp - min a.exp b.exp).toNat : Nat) : Int)) = ca
  generalize hcb : ((if b.neg then -1 else 1) * ((b.coeff * 10 ^ (b.exp - min a.exp b.exp).toNat : Nat) : Int)) = cb
  have ha : scaled a (min a.exp b.exp) = ca := hca
  have hb : scaled b (min a.exp b.exp) = cb := hcb
  rw [ha, hb]
  split
  · rename_i h0
    refine ⟨?_, rfl⟩
    simp [scaled]
    omega
  · rename_i hne
    refine ⟨?_, rfl⟩
    simp only [scaled, Int.sub_self, Int.toNat_zero, Nat.pow_zero, Nat.mul_one]
    by_cases hneg : ca + cb < 0
    · simp [hneg]; omega
    · simp [hneg]; omega

/-- the exact product: coefficients multiply, exponents add, signs xor -/
theorem mulExact_exact (a b : Dec) :
    (mulExact a b).coeff = a.coeff * b.coeff ∧ (mulExact a b).exp = a.exp + b.exp ∧
    (mulExact a b).neg = (a.neg != b.neg) := ⟨rfl, rfl, rfl⟩

/-- **`fix` is the identity whenever the exact result fits**: a non-zero coefficient of at most
    28 digits with its exponent inside the context's range is returned unchanged -/
theorem fix_id_when_fits (d : Dec) (hnz : d.coeff ≠ 0) (hd : ndigits d.coeff ≤ 28)
    (hlo : etiny ≤ d.exp) (hhi : (ndigits d.coeff : Int) + d.exp - 28 ≤ etop) :
    fix d = .ok d := by
  unfold fix
  split
  · contradiction
  · simp only []
    split
    · rename_i h; exfalso; simp only [prec] at h; omega
    · split
      · rename_i h; exfalso; simp only [prec] at h; omega
      · rfl

/-- arithmetic core of half-even rounding, with the products named: `c = m + r`, `r < p`, and the
    kept multiple `qp` is `m` or `m + p` -/
theorem halfEven_core (c m r p : Nat) (hc : c = m + r) (hr : r < p) :
    (2 * r > p → (2 * c ≤ 2 * (m + p) + p ∧ 2 * (m + p) ≤ 2 * c + p) ∧ ¬ (2 * c = 2 * (m + p) + p) ∧ ¬ (2 * (m + p) = 2 * c + p)) ∧
    (2 * r = p → (2 * c ≤ 2 * (m + p) + p ∧ 2 * (m + p) ≤ 2 * c + p) ∧ (2 * c ≤ 2 * m + p ∧ 2 * m ≤ 2 * c + p)) ∧
    (2 * r < p → (2 * c ≤ 2 * m + p ∧ 2 * m ≤ 2 * c + p) ∧ ¬ (2 * c = 2 * m + p) ∧ ¬ (2 * m = 2 * c + p)) := by
  refine ⟨?_, ?_, ?_⟩ <;> intro h <;> omega

/-- rounding half-even is to the NEAREST multiple of 10^k, ties to the EVEN quotient -/
theorem roundDiv_halfEven_nearest (neg : Bool) (c k : Nat) :
    (2 * c ≤ 2 * (roundDiv .halfEven neg c k * 10 ^ k) + 10 ^ k ∧
     2 * (roundDiv .halfEven neg c k * 10 ^ k) ≤ 2 * c + 10 ^ k) ∧
    ((2 * c = 2 * (roundDiv .halfEven neg c k * 10 ^ k) + 10 ^ k ∨
      2 * (roundDiv .halfEven neg c k * 10 ^ k) = 2 * c + 10 ^ k) → roundDiv .halfEven neg c k % 2 = 0) := by
  generalize hp : 10 ^ k = p
  have hpos : 0 < p := by rw [← hp]; exact Nat.pos_of_ne_zero (by simp)
  have hr : c % p < p := Nat.mod_lt c hpos
  have hdm : c = p * (c / p) + c % p := (Nat.div_add_mod c p).symm
  obtain ⟨hup, htie, hdown⟩ := halfEven_core c (p * (c / p)) (c % p) p hdm hr
  have e1 : (c / p + 1) * p = p * (c / p) + p := by rw [Nat.add_mul, Nat.mul_comm]; simp
  have e0 : (c / p) * p = p * (c / p) := Nat.mul_comm _ _
  unfold roundDiv
  simp only [hp]
  by_cases h1 : 2 * (c % p) > p
  · simp only [h1, if_true, e1]
    obtain ⟨hb, hn1, hn2⟩ := hup h1
    exact ⟨hb, fun h => by rcases h with h | h; exact absurd h hn1; exact absurd h hn2⟩
  · simp only [h1, if_false]
    by_cases h2 : 2 * (c % p) = p ∧ c / p % 2 = 1
    · simp only [h2, and_self, if_true, e1]
      obtain ⟨hb, _⟩ := htie h2.1
      exact ⟨hb, fun _ => by omega⟩
    · simp only [h2, if_false, e0]
      by_cases h3 : 2 * (c % p) = p
      · obtain ⟨_, hb⟩ := htie h3
        refine ⟨hb, fun _ => ?_⟩
        rcases Nat.mod_two_eq_zero_or_one (c / p) with h0 | h1'
        · exact h0
        · exact absurd ⟨h3, h1'⟩ h2
      · have hlt : 2 * (c % p) < p := by omega
        obtain ⟨hb, hn1, hn2⟩ := hdown hlt
        exact ⟨hb, fun h => by rcases h with h | h; exact absurd h hn1; exact absurd h hn2⟩

/-- when `fix` rounds, the kept coefficient is that half-even quotient (or, if rounding up
    produced 10^28, the same value written with 28 digits) and has at most 28 digits -/
theorem fix_result_digits (d r : Dec) (h : fix d = .ok r) : r.digits ≤ 28 := fix_digits d r h

/-- comparisons compare the exact values (scaled to the common exponent): no rounding, no float -/
theorem cmp_is_exact_order (a b : Dec) :
    cmp a b = compare (scaled a (min a.exp b.exp)) (scaled b (min a.exp b.exp)) := rfl

theorem eq_iff_scaled_eq (a b : Dec) :
    Dec.eq a b = true ↔ scaled a (min a.exp b.exp) = scaled b (min a.exp b.exp) := by
  simp [Dec.eq, cmp_is_exact_order, Int.compare_eq_eq]

/-- on decimal operands the `+` node IS the decimal addition: there is no float conversion on
    that path -/
theorem binop_add_uses_dec (w : World) (x y : Dec) (cx cy : Bool) :
    applyBin w .add (.dec x cx) (.dec y cy) = (liftDec (Dec.add x y)).map (fun v => (v, w)) := by
  simp [applyBin, pyAdd, toInt?, toDec?, Except.map]
  cases liftDec (Dec.add x y) <;> rfl

/-- 0.1 + 0.2 == 0.3 (and the sum is exactly the decimal 0.3) -/
theorem point_one_plus_point_two :
    (Dec.add ⟨false, 1, -1⟩ ⟨false, 2, -1⟩).toOption = some ⟨false, 3, -1⟩ ∧
    Dec.eq ⟨false, 3, -1⟩ ⟨false, 3, -1⟩ = true := by
  decide +kernel

/-- -0 == 0; 1.0 == 1.00 -/
example : Dec.eq ⟨true, 0, 0⟩ ⟨false, 0, 0⟩ = true ∧ Dec.eq ⟨false, 10, -1⟩ ⟨false, 100, -2⟩ = true := by decide +kernel

/-! ### [B] division is correctly rounded (SqLemmas/DivLemmas.lean) -/

/-- **the sticky digit suffices**: `num / den` with a last digit 0 or 5 bumped by one (what `__truediv__` computes for
    an inexact division), rounded half-even at any digit position k ≥ 1, IS the half-even rounding of the rational
    `num / den` at that position — for all naturals -/
theorem sticky_digit_suffices (neg : Bool) (num den k : Nat) (hd : 0 < den) (hk : 1 ≤ k) (hr : num % den ≠ 0) :
    roundDiv .halfEven neg (sticky num den) k = roundRat num (den * 10 ^ k) := sticky_round neg num den k hd hk hr

/-- **div_correct**: for every pair of non-zero decimals whose quotient is inexact, what `/` hands to the context
    rounding has at least 29 significant digits (so at least one digit is rounded away), and rounding it half-even at
    any position k ≥ 1 gives exactly the half-even rounding of the TRUE quotient `divNum / divDen` at that position -/
theorem div_correct (a b : Dec) (ha : a.coeff ≠ 0) (hb : b.coeff ≠ 0) (hr : divNum a b % divDen a b ≠ 0) :
    29 ≤ (divPre a b).digits ∧
    ∀ k, 1 ≤ k → roundDiv .halfEven (divPre a b).neg (divPre a b).coeff k = roundRat (divNum a b) (divDen a b * 10 ^ k) :=
  ⟨divPre_digits a b ha hb hr, fun k hk => div_rounding_correct a b ha hb hr k hk⟩

/-- … and an exact quotient is kept exactly (rounding it is rounding the true quotient) -/
theorem div_exact (neg : Bool) (num den k : Nat) (hd : 0 < den) (hr : num % den = 0) :
    roundDiv .halfEven neg (num / den) k = roundRat num (den * 10 ^ k) := exact_round neg num den k hd hr

/-- non-vacuity: 1 / 3 is such an inexact division, 2 / 3 rounds up in the last place -/
example : divNum ⟨false, 1, 0⟩ ⟨false, 3, 0⟩ % divDen ⟨false, 1, 0⟩ ⟨false, 3, 0⟩ ≠ 0 := by decide +kernel
example : (Dec.div ⟨false, 2, 0⟩ ⟨false, 3, 0⟩).toOption = some ⟨false, 6666666666666666666666666667, -28⟩ := by decide +kernel

/-! ### [B] assembled: `fix` over its whole domain, and `+ - * /` as "exact, then rounded once to nearest-even" -/

/-- **`fix` rounds to nearest, ties to even — for every decimal it accepts**: the result keeps the sign, stands `j ≥ 0`
    places higher, differs from the exact argument by at most half a unit of its own last place, and in the half-way
    case its coefficient is even; with at most 28 significant digits (`fix_result_digits`) -/
theorem fix_rounds_to_nearest (d r : Dec) (h : fix d = .ok r) (hnz : d.coeff ≠ 0) :
    r.neg = d.neg ∧ ∃ j : Nat, r.exp = d.exp + j ∧
      (2 * d.coeff ≤ 2 * (r.coeff * 10 ^ j) + 10 ^ j ∧ 2 * (r.coeff * 10 ^ j) ≤ 2 * d.coeff + 10 ^ j) ∧
      ((2 * d.coeff = 2 * (r.coeff * 10 ^ j) + 10 ^ j ∨ 2 * (r.coeff * 10 ^ j) = 2 * d.coeff + 10 ^ j) → r.coeff % 2 = 0) :=
  fix_nearest d r h hnz

/-- the three cases of `fix`, by name: unchanged / half-even quotient at the 28-digit exponent / carry to 10^27 -/
theorem fix_case_analysis (d r : Dec) (h : fix d = .ok r) (hnz : d.coeff ≠ 0) :
    (fixExp d ≤ d.exp ∧ r = d) ∨
    (d.exp < fixExp d ∧ ndigits (fixQ d) ≤ 28 ∧ r = { d with coeff := fixQ d, exp := fixExp d }) ∨
    (d.exp < fixExp d ∧ fixQ d = 10 ^ 28 ∧ r = { d with coeff := 10 ^ 27, exp := fixExp d + 1 }) :=
  fix_cases d r h hnz

/-- **`+`, `-`, `*` are correctly rounded**: the result is the EXACT sum / difference / product (`addExact`,
    `mulExact`: integer arithmetic on coefficients, no rounding) rounded ONCE, to nearest, ties to even -/
theorem add_sub_mul_correctly_rounded (a b r : Dec) :
    (Dec.add a b = .ok r → (addExact a b).coeff ≠ 0 → ∃ j : Nat, r.exp = (addExact a b).exp + j ∧
      2 * (addExact a b).coeff ≤ 2 * (r.coeff * 10 ^ j) + 10 ^ j ∧ 2 * (r.coeff * 10 ^ j) ≤ 2 * (addExact a b).coeff + 10 ^ j) ∧
    (Dec.sub a b = .ok r → (addExact a (negate b)).coeff ≠ 0 → ∃ j : Nat, r.exp = (addExact a (negate b)).exp + j ∧
      2 * (addExact a (negate b)).coeff ≤ 2 * (r.coeff * 10 ^ j) + 10 ^ j ∧
      2 * (r.coeff * 10 ^ j) ≤ 2 * (addExact a (negate b)).coeff + 10 ^ j) ∧
    (Dec.mul a b = .ok r → a.coeff * b.coeff ≠ 0 → ∃ j : Nat, r.exp = a.exp + b.exp + j ∧
      2 * (a.coeff * b.coeff) ≤ 2 * (r.coeff * 10 ^ j) + 10 ^ j ∧ 2 * (r.coeff * 10 ^ j) ≤ 2 * (a.coeff * b.coeff) + 10 ^ j) := by
  refine ⟨fun h hnz => ?_, fun h hnz => ?_, fun h hnz => ?_⟩
  · obtain ⟨_, j, he, hb, _⟩ := fix_nearest _ r h hnz
    exact ⟨j, he, hb⟩
  · obtain ⟨_, j, he, hb, _⟩ := fix_nearest _ r h hnz
    exact ⟨j, he, hb⟩
  · obtain ⟨_, j, he, hb, _⟩ := fix_nearest (mulExact a b) r h hnz
    exact ⟨j, he, hb⟩

/-- `roundRat n d` is the integer nearest to the rational `n / d`, ties to even (the specification of half-even
    rounding, stated without rationals: `|n − roundRat·d| ≤ d / 2`) -/
theorem roundRat_is_nearest (n d : Nat) (hd : 0 < d) :
    (2 * n ≤ 2 * (roundRat n d * d) + d ∧ 2 * (roundRat n d * d) ≤ 2 * n + d) ∧
    ((2 * n = 2 * (roundRat n d * d) + d ∨ 2 * (roundRat n d * d) = 2 * n + d) → roundRat n d % 2 = 0) :=
  roundRat_nearest n d hd

/-- **`/` is correctly rounded**: for non-zero operands and an inexact quotient, the coefficient `/` returns IS the
    half-even rounding of the true rational quotient `divNum / divDen` at the digit position `k ≥ 1` chosen by the
    context (28 significant digits), at exponent `divExp + k` — or, when that rounding is exactly 10^28, the same
    number written 10^27 · 10^(divExp + k + 1).  `a / b = (divNum / divDen) · 10^divExp` holds by construction
    (`divNum`, `divDen`, `divExp` only move powers of ten between numerator, denominator and exponent). -/
theorem division_is_correctly_rounded (a b r : Dec) (ha : a.coeff ≠ 0) (hb : b.coeff ≠ 0)
    (hr : divNum a b % divDen a b ≠ 0) (h : Dec.div a b = .ok r) :
    r.neg = (a.neg != b.neg) ∧ ∃ k : Nat, 1 ≤ k ∧
      ((r.coeff = roundRat (divNum a b) (divDen a b * 10 ^ k) ∧ r.exp = divExp a b + (k : Int) ∧ r.digits ≤ 28) ∨
       (roundRat (divNum a b) (divDen a b * 10 ^ k) = 10 ^ 28 ∧ r.coeff = 10 ^ 27 ∧ r.exp = divExp a b + (k : Int) + 1)) :=
  div_correctly_rounded a b r ha hb hr h

/-- non-vacuity of the carry case of `fix`: 28 nines and a five round up to 10^27 · 10^2 -/
example : (fix ⟨false, 99999999999999999999999999995, 0⟩).toOption = some ⟨false, 10 ^ 27, 2⟩ := by decide +kernel


end SqProps.C08
