/-
  C15 — insignificant surface syntax never changes the parsed program.
  [A]: character-level lemmas about the lexer step (blank, tab, `;`, line break, CRLF, bracket
  depth, comment) and action-level equalities.  [B] token level, unbounded (SqLemmas/ParseLayout.lean on top
  of the completeness theorem of C06): blank statements, a trailing separator, the kind of closer that follows an
  expression, and a trailing comma after the last argument / element / entry never change the derived — hence
  the parsed — program; redundant parentheses and the three call styles are `C06.parens_read_as_inner` /
  `C06.method_and_pipe_same_tree`.  Pending: the character-level half over whole texts (`lex_extra_blank`).
-/
import Sq.Proto
import SqLemmas.ParseLayout
import SqLemmas.LexBlank
import SqLemmas.ParseErase
import Sq.Proto
import SqLemmas.LexExtraBlank
namespace SqProps.C15
open Sq

/-- a blank or tab between tokens produces no token and changes nothing but the position -/
theorem blank_is_skipped (st : LexSt) (cs : List Char) :
    lexStep st (' ' :: cs) = .skip { st with pos := st.pos + 1 } cs ∧
    lexStep st ('\t' :: cs) = .skip { st with pos := st.pos + 1 } cs := by
  constructor <;> simp [lexStep]

/-- `;` is a NEWLINE token at every bracket depth and does not advance the line counter -/
theorem semicolon_is_newline_token (st : LexSt) (cs : List Char) :
    lexStep st (';' :: cs) = mk .NEWLINE [';'] st 1 0 cs := by
  simp [lexStep]

/-- a line break at bracket depth 0 is the same NEWLINE token type (so `;` and newline are
    interchangeable for the parser) -/
theorem newline_at_depth0_is_newline_token (st : LexSt) (cs : List Char) (h : st.depth = 0) :
    lexStep st ('\n' :: cs) = mkNL ['\n'] st 1 cs := by
  simp [lexStep, h]

/-- CRLF is one NEWLINE token, like LF -/
theorem crlf_at_depth0_is_newline_token (st : LexSt) (cs : List Char) (h : st.depth = 0) :
    lexStep st ('\r' :: '\n' :: cs) = mkNL ['\r', '\n'] st 2 cs := by
  simp [lexStep, h]

/-- inside brackets a line break (LF or CRLF) produces no token; only the line counter moves -/
theorem newline_inside_brackets_ignored (st : LexSt) (cs : List Char) (h : st.depth ≠ 0) :
    lexStep st ('\n' :: cs) = .skip { st with pos := st.pos + 1, line := st.line + 1 } cs ∧
    lexStep st ('\r' :: '\n' :: cs) = .skip { st with pos := st.pos + 2, line := st.line + 1 } cs := by
  constructor <;> simp [lexStep, h]

/-- a comment produces no token: everything up to (not including) the next line break is dropped -/
theorem comment_is_skipped (st : LexSt) (cs : List Char) :
    lexStep st ('#' :: cs) =
      .skip { st with pos := st.pos + 1 + (cs.length - (dropLine cs).length) } (dropLine cs) := by
  simp [lexStep, lexBracket, lexWord, lexPunct, matchString, isQuote, classify]

/-- opening / closing brackets move the depth by ±1 -/
theorem brackets_track_depth (st : LexSt) (cs : List Char) :
    lexStep st ('(' :: cs) = mk .LPAREN ['('] st 1 1 cs ∧ lexStep st (')' :: cs) = mk .RPAREN [')'] st 1 (-1) cs ∧
    lexStep st ('[' :: cs) = mk .LBRACKET ['['] st 1 1 cs ∧ lexStep st (']' :: cs) = mk .RBRACKET [']'] st 1 (-1) cs ∧
    lexStep st ('{' :: cs) = mk .LBRACE ['{'] st 1 1 cs ∧ lexStep st ('}' :: cs) = mk .RBRACE ['}'] st 1 (-1) cs := by
  refine ⟨?_, ?_, ?_, ?_, ?_, ?_⟩ <;> simp [lexStep, lexBracket]

/-- blank statements are dropped: an empty statement contributes no line to the program -/
theorem blank_statement_dropped (f : Nat) (t : Token) (rest : List Token) (h : t.ty = .NEWLINE) :
    pStatement f (t :: rest) = .ok (none, t :: rest) := by
  simp [pStatement, h]

/-! ### token level, every program (by completeness of the parser w.r.t. the levelled relation) -/

/-- a blank statement in front of a derivable program: same parse result -/
theorem leading_blank_insignificant {ts : List Token} {out : List Op} {nl : Token} (hnl : nl.ty = .NEWLINE)
    (h : RCode [] ts out) : parseTokens (nl :: ts) = parseTokens ts := by
  rw [complete h, complete (rcode_leading_blank hnl h)]

/-- a separator (`;`, LF or CRLF — one NEWLINE token) after the last statement: same parse result -/
theorem trailing_separator_insignificant {ts : List Token} {out : List Op} {nl : Token} (hnl : nl.ty = .NEWLINE)
    (h : RCode [] ts out) : parseTokens (ts ++ [nl]) = parseTokens ts := by
  rw [complete h, complete (rcode_trailing_sep h hnl)]

/-- a doubled separator between two statements (a blank statement): same derived program -/
theorem blank_between_statements {acc : List Op} {ts : List Token} {s : Option Op} {nl nl2 : Token} {rest : List Token}
    {out : List Op} (hs : RStmt ts s (some .NEWLINE)) (hnl : nl.ty = .NEWLINE) (hnl2 : nl2.ty = .NEWLINE)
    (h : RCode (pushStmt acc s) rest out) :
    RCode acc (ts ++ nl :: rest) out ∧ RCode acc (ts ++ nl :: nl2 :: rest) out :=
  ⟨RCode.more hs hnl h, rcode_double_sep hs hnl hnl2 h⟩

/-- the tree an expression reads as does not depend on which closing token follows it
    (end of text, separator, `)`, `]`, `}`, `,`, `:`) -/
theorem closer_irrelevant {m : Nat} {a : Assoc} {ts : List Token} {t : Op} {b : Bool} {nxt nxt' : LA}
    (h : RExpr m a ts t b nxt) (hc : closer nxt) (hc' : closer nxt') : RExpr m a ts t b nxt' :=
  swExpr h nxt' (Or.inr ⟨hc, hc'⟩)

/-- trailing comma after the last of several arguments (`close` = `)`) or elements (`]`) -/
theorem trailing_comma_last_arg {close : Tk} {acc : List Op} {cm cm' c : Token} {ts0 : List Token} {e : Op} {b : Bool}
    (hclose : close = .RPAREN ∨ close = .RBRACKET)
    (hcm : cm.ty = .COMMA) (hcm' : cm'.ty = .COMMA) (hc : c.ty = close)
    (hfirst : peekTy (ts0 ++ [c]) ≠ some close)
    (he : RExpr 0 .right ts0 e b (some close)) :
    RArgsTail close acc (cm :: ts0 ++ [c]) (e :: acc).reverse ∧
    RArgsTail close acc (cm :: ts0 ++ [cm', c]) (e :: acc).reverse := by
  rcases hclose with h | h <;> subst h
  · exact last_arg_trailing_comma closer_rparen (by decide) hcm hcm' hc hfirst he
  · exact last_arg_trailing_comma closer_rbracket (by decide) hcm hcm' hc hfirst he

/-- trailing comma after a single argument / element -/
theorem trailing_comma_only_arg {close : Tk} {cm c : Token} {ts0 : List Token} {e : Op} {b : Bool}
    (hclose : close = .RPAREN ∨ close = .RBRACKET) (hcm : cm.ty = .COMMA) (hc : c.ty = close)
    (he : RExpr 0 .right ts0 e b (some close)) :
    RArgs close (ts0 ++ [c]) [e] ∧ RArgs close (ts0 ++ [cm, c]) [e] := by
  rcases hclose with h | h <;> subst h
  · exact only_arg_trailing_comma closer_rparen (by decide) hcm hc he
  · exact only_arg_trailing_comma closer_rbracket (by decide) hcm hc he

/-- trailing comma after the last dict entry -/
theorem trailing_comma_last_entry {acc : List Op} {tsk tsv : List Token} {k v : Op} {bk bv : Bool} {col cm rb : Token}
    (hk : RExpr 0 .right tsk k bk (some .COLON)) (hcol : col.ty = .COLON)
    (hv : RExpr 0 .right tsv v bv (some .RBRACE)) (hcm : cm.ty = .COMMA) (hrb : rb.ty = .RBRACE) :
    RDict acc (tsk ++ col :: tsv ++ [rb]) (v :: k :: acc).reverse ∧
    RDict acc (tsk ++ col :: tsv ++ [cm, rb]) (v :: k :: acc).reverse :=
  last_entry_trailing_comma hk hcol hv hcm hrb

/-! action-level equalities as finite tests on the model's parser (labelled as tests) -/
-- redundant parentheses
example : Proto.sameTree "(a)" "a" = true := by decide +kernel
example : Proto.sameTree "((a + b)) * (c)" "(a + b) * c" = true := by decide +kernel
example : Proto.sameTree "f((a), (b))" "f(a, b)" = true := by decide +kernel
-- the three call styles
example : Proto.sameTree "r.f(a)" "f(r, a)" = true := by decide +kernel
example : Proto.sameTree "r | f(a)" "f(r, a)" = true := by decide +kernel
example : Proto.sameTree "r | f" "f(r)" = true := by decide +kernel
example : Proto.sameTree "r.f()" "f(r)" = true := by decide +kernel
-- trailing commas in the four bracket forms (D3 / D4 fixed)
example : Proto.sameTree "f(a, b,)" "f(a, b)" = true := by decide +kernel
example : Proto.sameTree "x.f(a, b,)" "x.f(a, b)" = true := by decide +kernel
example : Proto.sameTree "x | f(a, b,)" "x | f(a, b)" = true := by decide +kernel
example : Proto.sameTree "[a, b,]" "[a, b]" = true := by decide +kernel
example : Proto.sameTree "{a: 1, b: 2,}" "{a: 1, b: 2}" = true := by decide +kernel
-- separators, blank statements, CRLF, comments, line breaks inside brackets
example : Proto.sameTree "a;b" "a\nb" = true := by decide +kernel
example : Proto.sameTree "a\r\nb" "a\nb" = true := by decide +kernel
example : Proto.sameTree "a;;\n;b\n" "a\nb" = true := by decide +kernel
example : Proto.sameTree "a # c\nb" "a\nb" = true := by decide +kernel
example : Proto.sameTree "f(a,\n  b\n)" "f(a, b)" = true := by decide +kernel
example : Proto.sameTree "[1,\r\n 2]" "[1, 2]" = true := by decide +kernel
example : Proto.sameTree "a  +\tb" "a + b" = true := by decide +kernel

/-! ### character level (suffix half): a blank where the lexer begins a step -/

/-- shifting offsets changes nothing the parser or an error message reads: kind, value and line of a token stay -/
theorem shift_keeps_kind_value_line (d : Nat) (t : Token) :
    (t.shift d).ty = t.ty ∧ (t.shift d).val = t.val ∧ (t.shift d).line = t.line := ⟨rfl, rfl, rfl⟩

/-- **an extra space or tab where the lexer begins a step is insignificant**: in every lexer state (any bracket depth,
    any line) and before any remaining text, the blank is skipped and the rest is lexed to the same tokens — kinds,
    values, line numbers — the same lexical error if any, every offset one further -/
theorem blank_where_a_step_begins (fuel : Nat) (st : LexSt) (b : Char) (hb : isBlank b) (s : List Char) :
    lexAllAux (fuel + 1) st (b :: s) [] = shiftOut 1 (lexAllAux fuel st s []) := blank_before_rest fuel st b hb s

/-- leading blanks of a text -/
theorem leading_blank_of_text (b : Char) (hb : isBlank b) (s : List Char) :
    lexFrom LexSt.init (b :: s) = shiftOut 1 (lexFrom LexSt.init s) := leading_blank b hb s

/-- the lexer reads its offset only to stamp tokens: one step commutes with shifting the offset -/
theorem lexer_is_offset_invariant (d : Nat) (st : LexSt) (s : List Char) :
    lexStep (st.shift d) s = (lexStep st s).shift d := lexStep_shift d st s

example : (lexFrom LexSt.init " \t1 +  2".toList).toOption.map (fun p => p.1.map (fun t => (t.ty, t.val))) =
    (lexFrom LexSt.init "1 +  2".toList).toOption.map (fun p => p.1.map (fun t => (t.ty, t.val))) := by decide +kernel

/-! ### from the lexer to the parsed program -/

/-- **the parser reads only token kinds and values**: offsets and line stamps never influence the tree -/
theorem parser_reads_kind_and_value (f : Token → Token) (hty : ∀ t, (f t).ty = t.ty) (hval : ∀ t, (f t).val = t.val)
    (ts : List Token) (out : List Op) (h : parseTokens ts = .ok (.code out)) : parseTokens (ts.map f) = .ok (.code out) :=
  parse_reads_kind_and_value f hty hval ts out h

/-! ### character level, the whole statement: an extra blank BETWEEN TOKENS -/

/-- **an extra space or tab between tokens never changes the tokens**: if lexing `s` passes through the point where `post`
    remains (`LexReach`: a point between two steps of the lexer — not inside a string literal, a %…% name or a
    multi-character token), then `s = u ++ post` and lexing `u ++ b :: post` delivers the same tokens before the blank and
    the same tokens after it — kinds, values, line numbers; offsets one further — and the same lexical error if any -/
theorem extra_blank_between_tokens_same_tokens (b : Char) (hb : isBlank b) {post s : List Char} {st1 : LexSt}
    {acc1 : List Token} (h : LexReach post LexSt.init s [] st1 acc1) :
    ∃ u, s = u ++ post ∧
      lexFrom LexSt.init s = preOut acc1 (lexAll st1 post []) ∧
      lexFrom LexSt.init (u ++ b :: post) = preOut acc1 (shiftOut 1 (lexAll st1 post [])) :=
  lex_extra_blank b hb h

open Proto in
/-- **… and never changes the parsed program**: the text with the blank parses to a tree iff the text without it does,
    and then to the same tree -/
theorem extra_blank_between_tokens_same_program (b : Char) (hb : isBlank b) {post s : List Char} {st1 : LexSt}
    {acc1 : List Token} (h : LexReach post LexSt.init s [] st1 acc1) (tree : Op) :
    ∃ u, s = u ++ post ∧ (parseText LexSt.init (u ++ b :: post) = .ok tree ↔ parseText LexSt.init s = .ok tree) :=
  extra_blank_same_program b hb h tree

open Proto in
/-- a leading blank is the special case `u = []` -/
theorem leading_blank_same_program (b : Char) (hb : isBlank b) (s : List Char) (t : Op) :
    parseText LexSt.init (b :: s) = .ok t ↔ parseText LexSt.init s = .ok t := by
  obtain ⟨u, e, h⟩ := extra_blank_same_program b hb (LexReach.here (post := s) LexSt.init []) t
  have : u = [] := append_self_nil e
  subst this
  exact h

/-- non-vacuity: lexing `1+2` passes through the point where `+2` remains (after the NUMBER token) -/
example : ∃ st1 acc1, LexReach "+2".toList LexSt.init "1+2".toList [] st1 acc1 :=
  ⟨_, _, LexReach.tok (t := ⟨.NUMBER, ['1'], 0, 1⟩) (st' := ⟨1, 1, 0⟩) (by rfl) (LexReach.here _ _)⟩

/-- … and a blank between `=` and `>` of `a=>b` changes the tokens (it is not between tokens: `=>` is one LAMBDA token) -/
example : (lexFrom LexSt.init "a=>b".toList).toOption.map (fun p => p.1.map (·.ty)) = some [.NAME, .LAMBDA, .NAME] ∧
    (lexFrom LexSt.init "a= >b".toList).toOption.map (fun p => p.1.map (·.ty)) = some [.NAME, .ASSIGN, .GT, .NAME] := by
  decide +kernel

/-! ### character level: a comment at the end of a line -/

/-- **a comment never changes the tokens**: if lexing `s` passes through the point where `post` remains (a point between two
    lexer steps) and `post` is the end of the text or starts with a line feed, then inserting `#` and any comment text `cs`
    without a line feed there gives the same tokens before and after it — kinds, values, line numbers; later offsets moved by
    the length of the comment — and the same lexical error if any -/
theorem comment_at_line_end_same_tokens (cs : List Char) (hcs : nl cs = 0) {post s : List Char}
    (hp : post = [] ∨ ∃ t, post = '\n' :: t) {st1 : LexSt} {acc1 : List Token}
    (h : LexReach post LexSt.init s [] st1 acc1) :
    ∃ u, s = u ++ post ∧
      lexFrom LexSt.init s = preOut acc1 (lexAll st1 post []) ∧
      lexFrom LexSt.init (u ++ '#' :: (cs ++ post)) = preOut acc1 (shiftOut (1 + cs.length) (lexAll st1 post [])) :=
  lex_extra_comment cs hcs hp h

open Proto in
/-- **… and never changes the parsed program** -/
theorem comment_at_line_end_same_program (cs : List Char) (hcs : nl cs = 0) {post s : List Char}
    (hp : post = [] ∨ ∃ t, post = '\n' :: t) {st1 : LexSt} {acc1 : List Token}
    (h : LexReach post LexSt.init s [] st1 acc1) (tree : Op) :
    ∃ u, s = u ++ post ∧
      (parseText LexSt.init (u ++ '#' :: (cs ++ post)) = .ok tree ↔ parseText LexSt.init s = .ok tree) :=
  extra_comment_same_program cs hcs hp h tree

/-- non-vacuity: lexing `a\nb` passes through the point where `\nb` remains (after the NAME `a`) — a comment may be put there -/
example : ∃ st1 acc1, LexReach "\nb".toList LexSt.init "a\nb".toList [] st1 acc1 :=
  ⟨_, _, LexReach.tok (t := ⟨.NAME, ['a'], 0, 1⟩) (st' := ⟨1, 1, 0⟩) (by rfl) (LexReach.here _ _)⟩

/-- … and concretely: `a # note` + line feed + `b` lexes to the kinds of `a` + line feed + `b` -/
example : (lexFrom LexSt.init "a # note\nb".toList).toOption.map (fun p => p.1.map (·.ty)) =
    (lexFrom LexSt.init "a \nb".toList).toOption.map (fun p => p.1.map (·.ty)) := by decide +kernel

/-! ### character level: a line break inside brackets -/

open Proto in
/-- **a line break between tokens inside brackets never changes the parsed program** — `\n` as well as `\r\n`: if lexing `s`
    passes through the point where `post` remains while the lexer is inside brackets (`st1.depth ≠ 0`), the text with a line
    break inserted there parses to a tree iff `s` does, and to the same tree (the later tokens keep kind and value; their
    offsets and LINE numbers move — `lex_extra_linefeed`, `lex_extra_crlf` — and the parser reads neither) -/
theorem line_break_in_brackets_same_program {post s : List Char} {st1 : LexSt} {acc1 : List Token}
    (h : LexReach post LexSt.init s [] st1 acc1) (hd : st1.depth ≠ 0) (tree : Op) :
    ∃ u, s = u ++ post ∧
      (parseText LexSt.init (u ++ '\n' :: post) = .ok tree ↔ parseText LexSt.init s = .ok tree) ∧
      (parseText LexSt.init (u ++ '\r' :: '\n' :: post) = .ok tree ↔ parseText LexSt.init s = .ok tree) :=
  extra_linebreak_same_program h hd tree

/-- non-vacuity: lexing `f(a,b)` passes through the point where `b)` remains, inside the bracket (depth 1) -/
example : ∃ st1 acc1, LexReach "b)".toList LexSt.init "f(a,b)".toList [] st1 acc1 ∧ st1.depth ≠ 0 :=
  ⟨⟨4, 1, 1⟩, _, LexReach.tok (t := ⟨.NAME, ['f'], 0, 1⟩) (st' := ⟨1, 1, 0⟩) (by rfl)
    (LexReach.tok (t := ⟨.LPAREN, ['('], 1, 1⟩) (st' := ⟨2, 1, 1⟩) (by rfl)
      (LexReach.tok (t := ⟨.NAME, ['a'], 2, 1⟩) (st' := ⟨3, 1, 1⟩) (by rfl)
        (LexReach.tok (t := ⟨.COMMA, [','], 3, 1⟩) (st' := ⟨4, 1, 1⟩) (by rfl) (LexReach.here _ _)))), by decide⟩

/-- … while at depth 0 a line break is a statement separator: `a\nb` and `ab` differ -/
example : (lexFrom LexSt.init "a\nb".toList).toOption.map (fun p => p.1.map (·.ty)) = some [.NAME, .NEWLINE, .NAME] := by
  decide +kernel

end SqProps.C15
