/-
  C15 — insignificant surface syntax never changes the parsed program.
  [A]: character-level lemmas about the lexer step (blank, tab, `;`, line break, CRLF, bracket
  depth, comment) and action-level equalities.  The token-level half (redundant parentheses,
  trailing commas and call styles at *every* position) is carried by the pending completeness
  theorem of C06 and, until then, by the layout correspondence slice + metamorphic monitor.
-/
import Sq.Proto
namespace SqProps.C15
open Sq

/-- a blank or tab between tokens produces no token and changes nothing but the position -/
theorem blank_is_skipped (st : LexSt) (cs : List Char) :
    lexStep st (' ' :: cs) = .skip { st with pos := st.pos + 1 } cs ∧
    lexStep st ('\t' :: cs) = .skip { st with pos := st.pos + 1 } cs := by
  constructor <;> simp [lexStep]

/-- `;` is a NEWLINE token at every bracket depth and does not advance the line counter -/
theorem semicolon_is_newline_token (st : LexSt) (cs : List Char) :
    lexStep st (';' :: cs) = mk .NEWLINE [';'] st 1 0 cs := by
  simp [lexStep]

/-- a line break at bracket depth 0 is the same NEWLINE token type (so `;` and newline are
    interchangeable for the parser) -/
theorem newline_at_depth0_is_newline_token (st : LexSt) (cs : List Char) (h : st.depth = 0) :
    lexStep st ('\n' :: cs) = mkNL ['\n'] st 1 cs := by
  simp [lexStep, h]

/-- CRLF is one NEWLINE token, like LF -/
theorem crlf_at_depth0_is_newline_token (st : LexSt) (cs : List Char) (h : st.depth = 0) :
    lexStep st ('\r' :: '\n' :: cs) = mkNL ['\r', '\n'] st 2 cs := by
  simp [lexStep, h]

/-- inside brackets a line break (LF or CRLF) produces no token; only the line counter moves -/
theorem newline_inside_brackets_ignored (st : LexSt) (cs : List Char) (h : st.depth ≠ 0) :
    lexStep st ('\n' :: cs) = .skip { st with pos := st.pos + 1, line := st.line + 1 } cs ∧
    lexStep st ('\r' :: '\n' :: cs) = .skip { st with pos := st.pos + 2, line := st.line + 1 } cs := by
  constructor <;> simp [lexStep, h]

/-- a comment produces no token: everything up to (not including) the next line break is dropped -/
theorem comment_is_skipped (st : LexSt) (cs : List Char) :
    lexStep st ('#' :: cs) =
      .skip { st with pos := st.pos + 1 + (cs.length - (dropLine cs).length) } (dropLine cs) := by
  simp [lexStep, lexBracket, lexWord, lexPunct, matchString, isQuote, classify]

/-- opening / closing brackets move the depth by ±1 -/
theorem brackets_track_depth (st : LexSt) (cs : List Char) :
    lexStep st ('(' :: cs) = mk .LPAREN ['('] st 1 1 cs ∧ lexStep st (')' :: cs) = mk .RPAREN [')'] st 1 (-1) cs ∧
    lexStep st ('[' :: cs) = mk .LBRACKET ['['] st 1 1 cs ∧ lexStep st (']' :: cs) = mk .RBRACKET [']'] st 1 (-1) cs ∧
    lexStep st ('{' :: cs) = mk .LBRACE ['{'] st 1 1 cs ∧ lexStep st ('}' :: cs) = mk .RBRACE ['}'] st 1 (-1) cs := by
  refine ⟨?_, ?_, ?_, ?_, ?_, ?_⟩ <;> simp [lexStep, lexBracket]

/-- blank statements are dropped: an empty statement contributes no line to the program -/
theorem blank_statement_dropped (f : Nat) (t : Token) (rest : List Token) (h : t.ty = .NEWLINE) :
    pStatement f (t :: rest) = .ok (none, t :: rest) := by
  simp [pStatement, h]

/-! action-level equalities as finite tests on the model's parser (labelled as tests) -/
-- redundant parentheses
example : Proto.sameTree "(a)" "a" = true := by decide +kernel
example : Proto.sameTree "((a + b)) * (c)" "(a + b) * c" = true := by decide +kernel
example : Proto.sameTree "f((a), (b))" "f(a, b)" = true := by decide +kernel
-- the three call styles
example : Proto.sameTree "r.f(a)" "f(r, a)" = true := by decide +kernel
example : Proto.sameTree "r | f(a)" "f(r, a)" = true := by decide +kernel
example : Proto.sameTree "r | f" "f(r)" = true := by decide +kernel
example : Proto.sameTree "r.f()" "f(r)" = true := by decide +kernel
-- trailing commas in the four bracket forms (D3 / D4 fixed)
example : Proto.sameTree "f(a, b,)" "f(a, b)" = true := by decide +kernel
example : Proto.sameTree "x.f(a, b,)" "x.f(a, b)" = true := by decide +kernel
example : Proto.sameTree "x | f(a, b,)" "x | f(a, b)" = true := by decide +kernel
example : Proto.sameTree "[a, b,]" "[a, b]" = true := by decide +kernel
example : Proto.sameTree "{a: 1, b: 2,}" "{a: 1, b: 2}" = true := by decide +kernel
-- separators, blank statements, CRLF, comments, line breaks inside brackets
example : Proto.sameTree "a;b" "a\nb" = true := by decide +kernel
example : Proto.sameTree "a\r\nb" "a\nb" = true := by decide +kernel
example : Proto.sameTree "a;;\n;b\n" "a\nb" = true := by decide +kernel
example : Proto.sameTree "a # c\nb" "a\nb" = true := by decide +kernel
example : Proto.sameTree "f(a,\n  b\n)" "f(a, b)" = true := by decide +kernel
example : Proto.sameTree "[1,\r\n 2]" "[1, 2]" = true := by decide +kernel
example : Proto.sameTree "a  +\tb" "a + b" = true := by decide +kernel

end SqProps.C15
