import Sq.Proto
import Sq.ProtoEval
open Sq Sq.Proto

def handle (line : String) : String :=
  if line.startsWith "EVAL " then evalCmd (line.drop 5).toString else
  if line.startsWith "SESSION " then sessionCmd (line.drop 8).toString else
  match line.splitOn " " with
  | ["LEX", h] => match unhex h with
    | some s => lexCmd s
    | none => "bad-hex"
  | ["PARSE", h] => match unhex h with
    | some s => (parseLazy LexSt.init s).render
    | none => "bad-hex"
  | ["NAMES", h] => match unhex h with
    | some s => namesCmd LexSt.init s
    | none => "bad-hex"
  | _ => "bad-op"

partial def loop (h : IO.FS.Stream) (out : IO.FS.Stream) : IO Unit := do
  let line ← h.getLine
  if line.isEmpty then return ()
  out.putStrLn (handle (line.trimAsciiEnd.toString))
  loop h out

def main : IO Unit := do
  let out ← IO.getStdout
  loop (← IO.getStdin) out
  out.flush
