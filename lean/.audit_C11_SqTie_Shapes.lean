import SqTie.Shapes
#print axioms SqTie.resets_shape
