import SqLemmas.DecLemmas
