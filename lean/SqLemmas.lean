import SqLemmas.DecLemmas
import SqLemmas.LexLemmas
import SqLemmas.MachineLemmas
import SqLemmas.ParseSpec
import SqLemmas.ParseComplete
import SqLemmas.ParseLayout
import SqLemmas.ParseSound
import SqLemmas.ParseNames
