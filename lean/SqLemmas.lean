import SqLemmas.DecLemmas
import SqLemmas.LexLemmas
