import SqLemmas.DecLemmas
import SqLemmas.LexLemmas
import SqLemmas.MachineLemmas
