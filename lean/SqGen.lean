import SqGen.Generated
