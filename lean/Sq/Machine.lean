/-
  Sq/Machine.lean — the evaluator of smartquery/ast_ops.py as a small-step abstract machine with
  an explicit continuation stack (DESIGN.md §2.3).  `step` on `ev op vm` first performs the
  charge-and-compare of `Op.eval` and only then dispatches on the node kind (`enter`);
  `resume` pops one frame on a returned value; `unwind` pops one frame on a raised error.
  `enter`, `resume` and `unwind` never read a VM's budget.
-/
import Sq.Builtins
namespace Sq

/-- what a host probe does when called with a given integer id -/
inductive ProbeAct
  | ret (v : Val)
  | raise (e : PyErr)
  deriving Repr, Inhabited

structure World where
  heap : Heap
  vms : List VM
  log : List Event                      -- newest first
  rng : Nat
  rx : List RxAns
  probes : List (Int × ProbeAct)
  deriving Repr, Inhabited

inductive IterKind
  | map
  | filter
  | reduce
  | sortKeys (items : List Val) (rev : Bool) (dictMode : Bool)
  deriving Repr, Inhabited

/-- where an iteration takes its next element from -/
inductive IterSrc
  | live (addr : Nat) (idx : Nat)        -- a list object, re-read every round (Python's list iterator)
  | snap (items : List (List Val))       -- precomputed argument lists
  deriving Repr, Inhabited

inductive Frame
  | codeK (rest : List Op) (vm : Nat)
  | binL (k : BinK) (b : Op) (vm : Nat)
  | binR (k : BinK) (va : Val)
  | unK (k : UnK)
  | assignK (n : Name) (vm : Nat)
  | shortK (n : Name) (k : ShortK) (vm : Nat)
  | ifK (a b : Op) (vm : Nat)
  | sliceK (done : List (Option Int)) (todo : List Op) (vm : Nat)     -- done: newest first
  | argsK (n : Name) (done : List Val) (todo : List Op) (vm : Nat)    -- done: newest first
  | dictK (done : List Val) (todo : List Op) (vm : Nat)               -- done: newest first
  | popScopeK (vm : Nat)                                              -- the `finally` of make_scope
  | iterK (kind : IterKind) (f : Val) (src : IterSrc) (cur : Val) (acc : List Val)
  | tryK                                                              -- host try_apply
  | astK (n : Name) (rest : List (Name × Op)) (main : Op) (vm : Nat)   -- `scoped_names[k] = v.eval(state)` of ast_names
  deriving Repr, Inhabited

inductive Ctl
  | ev (op : Op) (vm : Nat)
  | ret (v : Val)
  | raise (e : PyErr)
  | done (v : Val)
  | failed (e : PyErr)
  deriving Repr, Inhabited

/-- control, continuation and world: everything `enter` / `resume` / `unwind` can see -/
structure Core where
  ctl : Ctl
  k : List Frame
  w : World
  deriving Repr, Inhabited

/-- a machine configuration: the core plus the budget of every VM state (`max_ops_evaluated`) -/
structure Cfg where
  ctl : Ctl
  k : List Frame
  w : World
  budgets : List Nat
  deriving Repr, Inhabited

def Cfg.core (c : Cfg) : Core := { ctl := c.ctl, k := c.k, w := c.w }
def Core.withBudgets (r : Core) (b : List Nat) : Cfg := { ctl := r.ctl, k := r.k, w := r.w, budgets := b }

/-! ### scopes -/

def scopeFind (h : Heap) (addr : Nat) (n : Name) : Option Val :=
  match h.get? addr with
  | some (.dict kvs) => (kvs.find? (fun kv => keyIsName kv.1 n)).map (·.2)
  | _ => none

/-- `ScopedDict.__getitem__`: scopes from the top; the bottom scope is the per-eval copy of FUNCTIONS -/
def lookupName (h : Heap) (scopes : List Nat) (n : Name) : Option Val :=
  match scopes with
  | [] => if builtinNames.contains (String.ofList n) then some (.builtin (String.ofList n)) else none
  | a :: rest => match scopeFind h a n with
    | some v => some v
    | none => lookupName h rest n

/-- `ScopedDict.__setitem__`: write to the top scope -/
def writeTop (h : Heap) (scopes : List Nat) (n : Name) (v : Val) : Option Heap :=
  match scopes with
  | [] => none
  | a :: _ => match h.get? a with
    | some (.dict kvs) => some (h.set a (.dict (kvSet kvs n v)))
    | _ => none

def World.vm? (w : World) (i : Nat) : Option VM := w.vms[i]?

def World.setVM (w : World) (i : Nat) (vm : VM) : World := { w with vms := w.vms.set i vm }

def World.bstate (w : World) : BState := { heap := w.heap, rng := w.rng, rx := w.rx }

def World.withB (w : World) (s : BState) : World := { w with heap := s.heap, rng := s.rng, rx := s.rx }

/-- `k.name` of a lambda parameter node -/
def paramName : Op → Option Name
  | .name n => some n
  | .call n _ => some n
  | .assign n _ => some n
  | .short n _ _ => some n
  | _ => none

/-- `{k.name: v for k, v in zip(self.args, args)}` -/
def bindParams : List Op → List Val → List (Val × Val) → Option (List (Val × Val))
  | [], _, acc => some acc
  | _, [], acc => some acc
  | p :: ps, v :: vs, acc => match paramName p with
    | some n => bindParams ps vs (kvSet acc n v)
    | none => none

def isCallable : Val → Bool
  | .builtin _ => true | .closure _ _ _ => true | .host _ => true | _ => false

def errOfClass (c : String) : PyErr :=
  if c == "ValueError" then .valueError else if c == "TypeError" then .typeError
  else if c == "KeyError" then .keyError else if c == "IndexError" then .indexError
  else if c == "AttributeError" then .attributeError else if c == "ZeroDivisionError" then .zeroDivision
  else if c == "parser" then .parser "host" else .unmodelled ("host-raise:" ++ c)

/-! ### applying operators -/

def applyBin (w : World) (k : BinK) (a b : Val) : R (Val × World) :=
  let h := w.heap
  match k with
  | .add =>
    let b' : R Val := match a, b with
      | .str _, .str _ => .ok b
      | .str _, _ => (pyStr h b).map Val.str
      | _, _ => .ok b
    (match b' with
     | .error e => .error e
     | .ok b2 => (pyAdd h a b2).map (fun (v, h') => (v, { w with heap := h' })))
  | .sub => (pySub a b).map (·, w)
  | .mul =>
    if ¬ isNumeric a ∨ ¬ isNumeric b then
      (match a, b with
       | .opaque _, _ => U "mul-opaque"
       | _, .opaque _ => U "mul-opaque"
       | _, _ => .error (.parser "Can't multiply non-numbers"))
    else match toDec? a, toDec? b with
      | some x, some y => (liftDec (Dec.mul x y)).map (·, w)
      | _, _ => U "mul"
  | .pow =>
    (match decCtor a with
     | .error e => .error e
     | .ok x => match decCtor b with
       | .error e => .error e
       | .ok y => (decPow x y).map (·, w))
  | .div => (pyDiv a b).map (·, w)
  | .eq => (pyEq' h a b).map (fun r => (.bool r, w))
  | .ne => (pyEq' h a b).map (fun r => (.bool (!r), w))
  | .gt => (pyLt' h b a).map (fun r => (.bool r, w))
  | .lt => (pyLt' h a b).map (fun r => (.bool r, w))
  | .ge => (pyLe' h b a).map (fun r => (.bool r, w))
  | .le => (pyLe' h a b).map (fun r => (.bool r, w))
  | .notin => (pyIn h a b).map (fun r => (.bool (!r), w))
  | .isin => (pyIn h a b).map (fun r => (.bool r, w))
  | .and => U "and-strict"     -- never applied: `and`/`or` do not evaluate op2 eagerly
  | .or => U "or-strict"

def applyUn (w : World) (k : UnK) (a : Val) : R Val :=
  match k with
  | .neg => pyNeg a
  | .not => .ok (.bool (!truthy w.heap a))

/-- `safe_cast(v, int)` -/
def safeCastInt : Val → R (Option Int)
  | .none => .ok none
  | v => (pyInt v).map some

/-! ### calls -/

def mkRet (v : Val) (k : List Frame) (w : World) : Core := { ctl := .ret v, k := k, w := w }
def mkRaise (e : PyErr) (k : List Frame) (w : World) : Core := { ctl := .raise e, k := k, w := w }

def ofBR (r : BR) (k : List Frame) (w : World) : Core :=
  match r with
  | .ok (v, s) => mkRet v k (w.withB s)
  | .error e => mkRaise e k w

def nextItem (h : Heap) : IterSrc → Option (List Val × IterSrc)
  | .live a i => match h.get? a with
    | some (.list xs) => match xs[i]? with
      | some x => some ([x], .live a (i + 1))
      | none => none
    | _ => none
  | .snap [] => none
  | .snap (x :: r) => some (x, .snap r)

def sortFinish (keys items : List Val) (rev dictMode : Bool) (k : List Frame) (w : World) : Core :=
  match sortedBy w.heap keys items rev with
  | .error e => mkRaise e k w
  | .ok sorted =>
    if dictMode then
      let kvs := sorted.filterMap (fun v => match v with | .tuple [a, b] => some (a, b) | _ => none)
      let (h', a) := w.heap.alloc (.dict kvs)
      mkRet (.ref a) k { w with heap := h' }
    else
      let (h', a) := w.heap.alloc (.list sorted)
      mkRet (.ref a) k { w with heap := h' }

/-- the iteration continuation handed to the higher-order builtins (`iterNext fuel` in `callVal`) -/
abbrev IterFn := IterKind → Val → IterSrc → List Val → List Frame → World → Core

/-- calling a lambda: bind the parameters in a fresh scope pushed on the VM the closure captured,
    evaluate the body there, pop the scope afterwards (`popScopeK` = the `finally` of make_scope) -/
def callClosure (params : List Op) (body : Op) (vmi : Nat) (args : List Val) (k : List Frame) (w : World) : Core :=
  match bindParams params args [] with
  | none => mkRaise .attributeError k w
  | some kvs =>
    match w.vm? vmi with
    | none => mkRaise (.unmodelled "vm") k w
    | some vm =>
      let (h', a) := w.heap.alloc (.dict kvs)
      let w' := ({ w with heap := h' }).setVM vmi { vm with scopes := a :: vm.scopes }
      { ctl := .ev body vmi, k := .popScopeK vmi :: k, w := w' }

/-- `_map(container, f)` -/
def callMap (it : IterFn) (args : List Val) (k : List Frame) (w : World) : Core :=
  match args with
  | [c, g] =>
    (match c with
     | .str cs => it .map g (.snap (cs.map (fun ch => [Val.str [ch]]))) [] k w
     | .ref a => match w.heap.get? a with
       | some (.list _) => it .map g (.live a 0) [] k w
       | some (.dict kvs) => it .map g (.snap (kvs.map (fun kv => [kv.1, kv.2]))) [] k w
       | none => mkRaise (.unmodelled "dangling") k w
     | .opaque _ => mkRaise (.unmodelled "map-opaque") k w
     | _ => mkRaise (.parser "not a string, list or dict") k w)
  | _ => mkRaise .typeError k w

/-- `_filter(container, f)` -/
def callFilter (it : IterFn) (args : List Val) (k : List Frame) (w : World) : Core :=
  match args with
  | [c, .none] =>
    -- `filter(None, xs)`: the truthy elements
    (match c with
     | .ref a => match w.heap.get? a with
       | some (.list xs) =>
         let (h', a') := w.heap.alloc (.list (xs.filter (truthy w.heap)))
         mkRet (.ref a') k { w with heap := h' }
       | _ => mkRaise (.parser "not a list") k w
     | .opaque _ => mkRaise (.unmodelled "filter-opaque") k w
     | _ => mkRaise (.parser "not a list") k w)
  | [c, g] =>
    (match c with
     | .ref a => match w.heap.get? a with
       | some (.list _) => it .filter g (.live a 0) [] k w
       | _ => mkRaise (.parser "not a list") k w
     | .opaque _ => mkRaise (.unmodelled "filter-opaque") k w
     | _ => mkRaise (.parser "not a list") k w)
  | _ => mkRaise .typeError k w

/-- `_reduce(container, f)` -/
def callReduce (it : IterFn) (args : List Val) (k : List Frame) (w : World) : Core :=
  match args with
  | [c, g] =>
    (match c with
     | .opaque _ => mkRaise (.unmodelled "reduce-opaque") k w
     | _ =>
       match iterItems w.heap c with
       | .error .typeError => mkRaise (.parser "not an Iterable") k w
       | .error e => mkRaise e k w
       | .ok [] => mkRaise .typeError k w
       | .ok (x :: rest) =>
         let src : IterSrc := match c with
           | .ref a => (match w.heap.get? a with
             | some (.list _) => .live a 1
             | _ => .snap (rest.map (fun v => [v])))
           | _ => .snap (rest.map (fun v => [v]))
         it .reduce g src [x] k w)
  | _ => mkRaise .typeError k w

/-- `_sorted(container, key=None, reverse=False)` -/
def callSorted (it : IterFn) (args : List Val) (k : List Frame) (w : World) : Core :=
  match args with
  | c :: rest =>
    if rest.length > 2 then mkRaise .typeError k w else
    let key := rest.headD .none
    let revV := (rest.drop 1).headD (.bool false)
    let dictMode := isDict w.heap c
    let itemsR : R (List Val) :=
      if dictMode then
        (match c with
         | .ref a => match w.heap.get? a with
           | some (.dict kvs) => .ok (kvs.map (fun kv => .tuple [kv.1, kv.2]))
           | _ => U "dangling"
         | _ => U "dangling")
      else iterItems w.heap c
    (match itemsR, reverseFlag w.heap revV with
     | .error e, _ => mkRaise e k w
     | _, .error e => mkRaise e k w
     | .ok items, .ok rev =>
       match key with
       | .none => sortFinish items items rev dictMode k w
       | .opaque _ => mkRaise (.unmodelled "sorted-key-opaque") k w
       | _ =>
         if isCallable key then
           let argsOf (itm : Val) : List Val :=
             if dictMode then (match itm with | .tuple [a, b] => [a, b] | v => [v]) else [itm]
           it (.sortKeys items rev dictMode) key (.snap (items.map argsOf)) [] k w
         else if items.isEmpty then sortFinish [] [] rev dictMode k w
         else mkRaise .typeError k w)
  | [] => mkRaise .typeError k w

/-- the host probe: logs its argument, then returns / raises what the probe table says -/
def callProbe (args : List Val) (k : List Frame) (w : World) : Core :=
  match args with
  | [a] =>
    let w' := { w with log := .probe a :: w.log }
    let key? : Option Int := match a with
      | .dec d _ => if d.isIntegral then some d.toInt else none
      | .int i => some i
      | _ => none
    let act? : Option ProbeAct := key?.bind (fun i => (w.probes.find? (fun p => p.1 == i)).map (·.2))
    (match act? with
     | some (ProbeAct.ret v) => mkRet v k w'
     | some (ProbeAct.raise e) => mkRaise e k w'
     | none => mkRet a k w')
  | _ => mkRaise .typeError k w

mutual
/-- call a function value with evaluated arguments.  `fuel` bounds the chain
    apply(apply(apply(…))) of host trampolines inside one step. -/
def callVal : Nat → Val → List Val → List Frame → World → Core
  | 0, _, _, k, w => mkRaise (.unmodelled "call-fuel") k w
  | fuel + 1, f, args, k, w =>
    match f with
    | .closure params body vmi => callClosure params body vmi args k w
    | .builtin name =>
      if name == "map" then callMap (iterNext fuel) args k w
      else if (args.head?.map isTypeObject).getD false then mkRaise (.unmodelled "type-object-arg") k w
      else if name == "filter" then callFilter (iterNext fuel) args k w
      else if name == "reduce" then callReduce (iterNext fuel) args k w
      else if name == "sorted" then callSorted (iterNext fuel) args k w
      else ofBR (callPure name args w.bstate) k w
    | .host id =>
      if id == "probe" then callProbe args k w
      else if id == "apply" then
        (match args with
         | g :: rest => callVal fuel g rest k w
         | [] => mkRaise .typeError k w)
      else if id == "try_apply" then
        (match args with
         | g :: rest => callVal fuel g rest (.tryK :: k) w
         | [] => mkRaise .typeError k w)
      else mkRaise (.unmodelled "host") k w
    | .opaque _ => mkRaise (.unmodelled "call-opaque") k w
    | _ => mkRaise .typeError k w

/-- fetch the next element of an iteration and call `g` on it, or finish -/
def iterNext : Nat → IterKind → Val → IterSrc → List Val → List Frame → World → Core
  | 0, _, _, _, _, k, w => mkRaise (.unmodelled "call-fuel") k w
  | fuel + 1, kind, g, src, acc, k, w =>
    match nextItem w.heap src with
    | some (item, src') =>
      let cur := item.headD .none
      let args := match kind with
        | .reduce => acc.headD .none :: item
        | _ => item
      callVal fuel g args (.iterK kind g src' cur acc :: k) w
    | none =>
      match kind with
      | .map | .filter =>
        let (h', a) := w.heap.alloc (.list acc.reverse)
        mkRet (.ref a) k { w with heap := h' }
      | .reduce => mkRet (acc.headD .none) k w
      | .sortKeys items rev dictMode => sortFinish acc.reverse items rev dictMode k w
end

def callFuel : Nat := 64

/-- default of `SqParser.eval(..., max_ops_evaluated=100)` -/
def defaultBudget : Nat := 100

/-- `CallOp.eval` after the arguments: look the name up, then call -/
def doCall (n : Name) (args : List Val) (vmi : Nat) (k : List Frame) (w : World) : Core :=
  match w.vm? vmi with
  | none => mkRaise (.unmodelled "vm") k w
  | some vm => match lookupName w.heap vm.scopes n with
    | none => mkRaise (.parser "Undefined function") k w
    | some f => callVal callFuel f args k w

/-! ### the three phases of a step -/

/-- dispatch on the node kind (the body of each `eval` override after `super().eval(state)`) -/
def enter (op : Op) (vmi : Nat) (k : List Frame) (w : World) : Core :=
  match op with
  | .noop => mkRet .none k w
  | .value .none => mkRet .none k w
  | .value (.bool b) => mkRet (.bool b) k w
  | .value (.num d) => mkRet (.dec d true) k w
  | .value (.str s) => mkRet (.str s) k w
  | .code [] => mkRet .none k w
  | .code (l :: rest) => { ctl := .ev l vmi, k := .codeK rest vmi :: k, w := w }
  | .bin bk a b => { ctl := .ev a vmi, k := .binL bk b vmi :: k, w := w }
  | .unary uk a => { ctl := .ev a vmi, k := .unK uk :: k, w := w }
  | .assign n v => { ctl := .ev v vmi, k := .assignK n vmi :: k, w := w }
  | .short n sk v => { ctl := .ev v vmi, k := .shortK n sk vmi :: k, w := w }
  | .name n =>
    (match w.vm? vmi with
     | none => mkRaise (.unmodelled "vm") k w
     | some vm => match lookupName w.heap vm.scopes n with
       | some v => mkRet v k w
       | none => mkRaise (.parser "Undefined variable") k w)
  | .ifx c a b => { ctl := .ev c vmi, k := .ifK a b vmi :: k, w := w }
  | .slice a b c => { ctl := .ev a vmi, k := .sliceK [] [b, c] vmi :: k, w := w }
  | .call n [] => doCall n [] vmi k w
  | .call n (a :: rest) => { ctl := .ev a vmi, k := .argsK n [] rest vmi :: k, w := w }
  | .dict [] =>
    let (h', a) := w.heap.alloc (.dict [])
    mkRet (.ref a) k { w with heap := h' }
  | .dict (a :: rest) => { ctl := .ev a vmi, k := .dictK [] rest vmi :: k, w := w }
  | .lambda ps body => mkRet (.closure ps body vmi) k w

/-- build the dict of a DictOp from the evaluated k₁, v₁, k₂, v₂, … (keys cast with `str`) -/
def buildDict (h : Heap) : List Val → List (Val × Val) → R (List (Val × Val))
  | k :: v :: rest, acc =>
    (match dictKeyCast h k with
     | .error e => .error e
     | .ok (.str ks) => buildDict h rest (kvSet acc ks v)
     | .ok _ => U "dict-key")
  | _, acc => .ok acc

/-- a value came back to frame `fr` -/
def resume (fr : Frame) (v : Val) (k : List Frame) (w : World) : Core :=
  match fr with
  | .codeK [] _ => mkRet v k w
  | .codeK (l :: rest) vmi => { ctl := .ev l vmi, k := .codeK rest vmi :: k, w := w }
  | .binL bk b vmi =>
    (match bk with
     | .and => if truthy w.heap v then { ctl := .ev b vmi, k := k, w := w } else mkRet v k w
     | .or => if truthy w.heap v then mkRet v k w else { ctl := .ev b vmi, k := k, w := w }
     | _ => { ctl := .ev b vmi, k := .binR bk v :: k, w := w })
  | .binR bk va =>
    (match applyBin w bk va v with
     | .ok (r, w') => mkRet r k w'
     | .error e => mkRaise e k w)
  | .unK uk =>
    (match applyUn w uk v with
     | .ok r => mkRet r k w
     | .error e => mkRaise e k w)
  | .assignK n vmi =>
    (match deepcopy' w.heap v with
     | .error e => mkRaise e k w
     | .ok (v', h') =>
       match w.vm? vmi with
       | none => mkRaise (.unmodelled "vm") k w
       | some vm => match writeTop h' vm.scopes n v' with
         | some h'' => mkRet .none k { w with heap := h'' }
         | none => mkRaise (.unmodelled "scope") k w)
  | .shortK n sk vmi =>
    (match deepcopy' w.heap v with
     | .error e => mkRaise e k w
     | .ok (v', h') =>
       match w.vm? vmi with
       | none => mkRaise (.unmodelled "vm") k w
       | some vm =>
         match lookupName h' vm.scopes n with
         | none => mkRaise (.parser "Undefined variable") k w
         | some cur =>
           match pyInplace { heap := h', rng := w.rng, rx := w.rx } sk cur v' with
           | .error e => mkRaise e k w
           | .ok (nv, s) =>
             match writeTop s.heap vm.scopes n nv with
             | some h'' => mkRet .none k { w with heap := h'' }
             | none => mkRaise (.unmodelled "scope") k w)
  | .ifK a b vmi =>
    if truthy w.heap v then { ctl := .ev a vmi, k := k, w := w } else { ctl := .ev b vmi, k := k, w := w }
  | .sliceK done todo vmi =>
    (match safeCastInt v with
     | .error e => mkRaise e k w
     | .ok x =>
       match todo with
       | nxt :: rest => { ctl := .ev nxt vmi, k := .sliceK (x :: done) rest vmi :: k, w := w }
       | [] =>
         match (x :: done).reverse with
         | [a, b, c] => mkRet (.slice a b c) k w
         | _ => mkRaise (.unmodelled "slice-arity") k w)
  | .argsK n done todo vmi =>
    (match todo with
     | nxt :: rest => { ctl := .ev nxt vmi, k := .argsK n (v :: done) rest vmi :: k, w := w }
     | [] =>
       doCall n (v :: done).reverse vmi k w)
  | .dictK done todo vmi =>
    (match todo with
     | nxt :: rest => { ctl := .ev nxt vmi, k := .dictK (v :: done) rest vmi :: k, w := w }
     | [] =>
       match buildDict w.heap (v :: done).reverse [] with
       | .error e => mkRaise e k w
       | .ok kvs =>
         let (h', a) := w.heap.alloc (.dict kvs)
         mkRet (.ref a) k { w with heap := h' })
  | .popScopeK vmi =>
    (match w.vm? vmi with
     | none => mkRaise (.unmodelled "vm") k w
     | some vm => mkRet v k (w.setVM vmi { vm with scopes := vm.scopes.tail }))
  | .iterK kind g src cur acc =>
    let acc' : List Val := match kind with
      | .map => v :: acc
      | .filter => if truthy w.heap v then cur :: acc else acc
      | .reduce => [v]
      | .sortKeys _ _ _ => v :: acc
    iterNext callFuel kind g src acc' k w
  | .tryK => mkRet v k w
  | .astK n rest main vmi =>
    -- `scoped_names[k] = v.eval(state)`: bound in the top scope (the host's mapping), no copy
    (match w.vm? vmi with
     | none => mkRaise (.unmodelled "vm") k w
     | some vm => match writeTop w.heap vm.scopes n v with
       | none => mkRaise (.unmodelled "scope") k w
       | some h' =>
         match rest with
         | [] => { ctl := .ev main vmi, k := k, w := { w with heap := h' } }
         | (n', op') :: rest' => { ctl := .ev op' vmi, k := .astK n' rest' main vmi :: k, w := { w with heap := h' } })

/-- an error passes frame `fr` -/
def unwind (fr : Frame) (e : PyErr) (k : List Frame) (w : World) : Core :=
  match fr with
  | .popScopeK vmi =>
    (match w.vm? vmi with
     | none => mkRaise e k w
     | some vm => mkRaise e k (w.setVM vmi { vm with scopes := vm.scopes.tail }))
  | .tryK =>
    (match e with
     | .unmodelled _ => mkRaise e k w
     | _ => mkRet .none k { w with log := .caught e.cls :: w.log })
  | _ => mkRaise e k w

/-- `Op.eval`: `state.ops_evaluated += 1; if state.ops_evaluated >= state.max_ops_evaluated: raise`.
    Returns the world with the counter advanced and whether the limit is hit. -/
def charge (w : World) (budgets : List Nat) (vmi : Nat) : Option (World × Option Nat) :=
  match w.vm? vmi, budgets[vmi]? with
  | some vm, some max =>
    let vm' := { vm with ops := vm.ops + 1 }
    some (w.setVM vmi vm', if vm'.ops ≥ max then some max else none)
  | _, _ => none

/-- one machine step on the core, given the budgets -/
def stepCore (budgets : List Nat) (c : Core) : Core :=
  match c.ctl with
  | .ev op vmi =>
    (match charge c.w budgets vmi with
     | none => { c with ctl := .raise (.unmodelled "vm") }
     | some (w', some m) => { c with ctl := .raise (.opsLimit m), w := w' }
     | some (w', none) => enter op vmi c.k w')
  | .ret v =>
    (match c.k with
     | [] => { c with ctl := .done v }
     | fr :: k => resume fr v k c.w)
  | .raise e =>
    (match c.k with
     | [] => { c with ctl := .failed e }
     | fr :: k => unwind fr e k c.w)
  | .done _ => c
  | .failed _ => c

def step (c : Cfg) : Cfg := (stepCore c.budgets c.core).withBudgets c.budgets

def run : Nat → Cfg → Cfg
  | 0, c => c
  | n + 1, c => run n (step c)

def Cfg.halted (c : Cfg) : Bool :=
  match c.ctl with | .done _ => true | .failed _ => true | _ => false

/-- iterate until halted, at most `n` steps (the driver's loop; avoids stepping a halted
    configuration millions of times) -/
def runUntil : Nat → Cfg → Cfg
  | 0, c => c
  | n + 1, c => if c.halted then c else runUntil n (step c)

/-- initial configuration of one `eval` call on world `w` with VM budgets `bs` so far
    (`bs.length = w.vms.length`):
    the names mapping lives at `namesAddr`; a fresh VM state carrying the caller's budget -/
def initCfg (w : World) (bs : List Nat) (namesAddr : Nat) (budget : Nat) (ast : Op)
    (astNames : List (Name × Op) := []) : Cfg :=
  let vmi := w.vms.length
  { ctl := (match astNames with | [] => .ev ast vmi | (_, op) :: _ => .ev op vmi),
    k := (match astNames with | [] => [] | (n, _) :: rest => [.astK n rest ast vmi]),
    w := { w with vms := w.vms ++ [{ scopes := [namesAddr], ops := 0 }] },
    budgets := bs ++ [budget] }

end Sq
