/-
  Sq/Builtins.lean — the FUNCTIONS table of smartquery/functions.py, one definition per entry,
  mirroring the source statement by statement (casts, checks, try/except → error class).
  Higher-order entries (map, filter, reduce, sorted with a key) are driven by the machine
  (Sq/Machine.lean); everything here is a single atomic call.
-/
import Sq.Prim
set_option linter.unusedVariables false
namespace Sq

def maxArraySize : Nat := 10000          -- MAX_ARRAY_SIZE
def regexTimeoutMicros : Nat := 50000    -- REGEX_TIMEOUT = 0.05 s

/-- the keys of FUNCTIONS, in source order -/
def builtinNames : List String :=
  ["len", "int", "float", "str", "dict", "list",
   "startswith", "endswith", "lower", "upper", "strip", "replace",
   "match", "match_groups", "match_all",
   "pretty", "keys", "values", "items", "sum", "get",
   "__getitem__", "__delitem__", "__setitem__", "__setitem_with_op__",
   "map", "filter", "reduce", "join", "split",
   "round", "floor", "ceil", "abs", "min", "max", "rand",
   "push", "pop", "insert", "remove",
   "sorted", "reversed", "enumerate", "shuffle", "index_of"]

/-- entries that may change an object passed to them (C13's mutator list) -/
def mutatorNames : List String :=
  ["push", "pop", "insert", "remove", "__setitem__", "__setitem_with_op__", "__delitem__"]

/-! ### deterministic stand-in for the `random` module (the harness installs the same
    generator in the implementation; DESIGN.md §3.4) -/
@[irreducible] def lcgNext (x : Nat) : Nat := (x * 6364136223846793005 + 1442695040888963407) % 18446744073709551616

/-- 31 high bits of the 64-bit state -/
@[irreducible] def lcgHigh (x : Nat) : Nat := x / 8589934592
def lcgDraw (x : Nat) : Nat := lcgNext x / 2 ^ 33

/-- answer of the regular-expression engine to one call (fed from the implementation) -/
inductive RxAns
  | noMatch
  | matched (g0 : Val) (groups : List Val)       -- search: group(0), groups()
  | all (items : List Val)                       -- findall: strings or tuples of strings
  | raised (cls : String)                        -- regex.error / TimeoutError / …
  deriving Repr, Inhabited

/-- what a regex builtin hands to the engine -/
structure RxReq where
  fn : String                  -- "search" | "findall"
  pattern : List Char
  subject : List Char
  flags : Nat                  -- I = 2, M = 8, S = 16 (regex module values)
  timeout : Option Nat         -- microseconds
  deriving Repr

/-- the part of the world a builtin call can read and write -/
structure BState where
  heap : Heap
  rng : Nat
  rx : List RxAns
  deriving Repr, Inhabited

abbrev BR := R (Val × BState)

def ret (v : Val) (s : BState) : BR := .ok (v, s)

def allocList (s : BState) (xs : List Val) : Val × BState :=
  let (h, a) := s.heap.alloc (.list xs)
  (.ref a, { s with heap := h })

def allocDict (s : BState) (kvs : List (Val × Val)) : Val × BState :=
  let (h, a) := s.heap.alloc (.dict kvs)
  (.ref a, { s with heap := h })

/-- `len(v)` -/
def pyLen (h : Heap) : Val → R Nat
  | .str s => .ok s.length
  | .tuple vs => .ok vs.length
  | .ref a => match h.get? a with
    | some (.list xs) => .ok xs.length
    | some (.dict kvs) => .ok kvs.length
    | none => U "dangling"
  | .opaque _ => U "len-opaque"
  | _ => .error .typeError

/-- `int(v)` (the Python builtin) -/
def pyInt (v : Val) : R Int :=
  match v with
  | .dec d _ => .ok d.toInt
  | .int i => .ok i
  | .bool b => .ok (boolInt b)
  | .str s =>
    let t := Str.strip s
    let (neg, body) : Bool × List Char := match t with
      | '-' :: r => (true, r) | '+' :: r => (false, r) | r => (false, r)
    if s.any (fun c => c.toNat ≥ 128 || c == '_') then U "int(str)"
    else if ¬ body.isEmpty ∧ body.all (fun c => '0' ≤ c ∧ c ≤ '9') then
      match Dec.digitsVal? body 0 with
      | some n => .ok (if neg then -(n : Int) else n)
      | none => .error .valueError
    else .error .valueError
  | .opaque _ => U "int-opaque"
  | _ => .error .typeError

/-- `_list_key_cast` -/
def listKeyCast : Val → Val
  | .dec d _ => .int d.toInt
  | v => v

/-- `_dict_key_cast` with CAST_DICT_KEYS_TO_STRINGS = True: `str(key)` -/
def dictKeyCast (h : Heap) (k : Val) : R Val := (pyStr h k).map Val.str

def isDict (h : Heap) : Val → Bool
  | .ref a => match h.get? a with | some (.dict _) => true | _ => false
  | _ => false

/-- `_key_cast(container, key)` -/
def keyCast (h : Heap) (container key : Val) : R Val :=
  if isDict h container then dictKeyCast h key else .ok (listKeyCast key)

/-- is this dict key the string `n`?  (a `str` key equals only an equal `str`) -/
def keyIsName : Val → Name → Bool
  | .str s, n => s == n
  | _, _ => false

/-- bind a string key: replace the value in place or append (insertion order kept) -/
def kvSet : List (Val × Val) → Name → Val → List (Val × Val)
  | [], n, v => [(.str n, v)]
  | (k, v') :: r, n, v => if keyIsName k n then (k, v) :: r else (k, v') :: kvSet r n v

/-- remove the entry under a string key (a dict holds at most one) -/
def kvErase : List (Val × Val) → Name → List (Val × Val)
  | [], _ => []
  | (k, v) :: r, n => if keyIsName k n then r else (k, v) :: kvErase r n

/-- dict lookup.  Every key the language itself produces is a `str` (`_dict_key_cast`): those are
    compared structurally; other keys (only reachable through `remove` / `in` on host dicts)
    go through Python `==`. -/
def dictFind (h : Heap) (kvs : List (Val × Val)) (k : Val) : R (Option Val) :=
  match k with
  | .str ks => .ok ((kvs.find? (fun kv => keyIsName kv.1 ks)).map (·.2))
  | _ =>
    match dictFindAux (eqFuel h + kvs.length) h kvs k with
    | some r => .ok r
    | none => U "dict-eq"

def dictSetAux (h : Heap) : List (Val × Val) → Val → Val → R (List (Val × Val))
  | [], k, v => .ok [(k, v)]
  | (k', v') :: r, k, v =>
    match pyEq' h k' k with
    | .error e => .error e
    | .ok true => .ok ((k', v) :: r)
    | .ok false => (dictSetAux h r k v).map ((k', v') :: ·)

/-- replace the value under an equal key or append a new entry (insertion order kept) -/
def dictSet (h : Heap) (kvs : List (Val × Val)) (k v : Val) : R (List (Val × Val)) :=
  match k with
  | .str ks => .ok (kvSet kvs ks v)
  | _ => dictSetAux h kvs k v

def dictEraseAux (h : Heap) : List (Val × Val) → Val → R (List (Val × Val))
  | [], _ => .ok []
  | (k', v') :: r, k =>
    match pyEq' h k' k with
    | .error e => .error e
    | .ok true => .ok r
    | .ok false => (dictEraseAux h r k).map ((k', v') :: ·)

def dictErase (h : Heap) (kvs : List (Val × Val)) (k : Val) : R (List (Val × Val)) :=
  match k with
  | .str ks => .ok (kvErase kvs ks)
  | _ => dictEraseAux h kvs k

def listContains (h : Heap) : List Val → Val → R Bool
  | [], _ => .ok false
  | x :: xs, v =>
    match pyEq' h x v with
    | .error e => .error e
    | .ok true => .ok true
    | .ok false => listContains h xs v

def listIndexOf (h : Heap) : List Val → Val → Nat → R (Option Nat)
  | [], _, _ => .ok none
  | x :: xs, v, i =>
    match pyEq' h x v with
    | .error e => .error e
    | .ok true => .ok (some i)
    | .ok false => listIndexOf h xs v (i + 1)

/-- `op1 in op2` -/
def pyIn (h : Heap) (x c : Val) : R Bool :=
  match c with
  | .str s => match x with
    | .str t => .ok (Str.contains s t)
    | .opaque _ => U "in-opaque"
    | _ => .error .typeError
  | .tuple vs => listContains h vs x
  | .ref a => match h.get? a with
    | some (.list xs) => listContains h xs x
    | some (.dict kvs) =>
      if ¬ isHashable x then .error .typeError
      else (dictFind h kvs x).map (·.isSome)
    | none => U "dangling"
  | .opaque _ => U "in-opaque"
  | _ => .error .typeError

/-- `container[key]` (Python subscription, key already cast) -/
def pyGetItem (s : BState) (c k : Val) : BR :=
  let h := s.heap
  let seqGet {α : Type} (xs : List α) (wrap : α → Val) (sub : List α → Val × BState) : BR :=
    match k with
    | .slice a b st => match sliceIndices xs.length a b st with
      | .ok idx => .ok (sub (pick xs idx))
      | .error e => .error e
    | .opaque _ => U "index-opaque"
    | _ => match toInt? k with
      | some i => match normIndex xs.length i with
        | some j => match xs[j]? with
          | some x => ret (wrap x) s
          | none => .error .indexError
        | none => .error .indexError
      | none => .error .typeError
  match c with
  | .str cs => seqGet cs (fun ch => .str [ch]) (fun r => (.str r, s))
  | .tuple vs => seqGet vs id (fun r => (.tuple r, s))
  | .ref a => match h.get? a with
    | some (.list xs) => seqGet xs id (fun r => allocList s r)
    | some (.dict kvs) =>
      if ¬ isHashable k then .error .typeError
      else match dictFind h kvs k with
        | .error e => .error e
        | .ok (some v) => ret v s
        | .ok none => .error .keyError
    | none => U "dangling"
  | .builtin "dict" => ret (.opaque "GenericAlias") s       -- `dict[k]` subscripts the *type*
  | .opaque _ => U "getitem-opaque"
  | _ => .error .typeError

/-- `_get_item` -/
def bGetItem (s : BState) (c k : Val) : BR :=
  match keyCast s.heap c k with
  | .error e => .error e
  | .ok k' =>
    match pyGetItem s c k' with
    | .error .keyError => .error (.parser "Key error")
    | .error .indexError => .error (.parser "Key error")
    | r => r

/-- `_check_array_size` -/
def checkArraySize (h : Heap) (c : Val) : R Unit :=
  match pyLen h c with
  | .error e => .error e
  | .ok n => if n ≥ maxArraySize then .error (.parser "Array size overflow") else .ok ()

/-- `container[key] = v` (Python item assignment, key already cast) -/
def pySetItem (s : BState) (c k v : Val) : R BState :=
  match c with
  | .ref a => match s.heap.get? a with
    | some (.list xs) =>
      (match k with
       | .slice _ _ _ => U "slice-assign"
       | .opaque _ => U "index-opaque"
       | _ => match toInt? k with
         | some i => match normIndex xs.length i with
           | some j => .ok { s with heap := s.heap.set a (.list (xs.set j v)) }
           | none => .error .indexError
         | none => .error .typeError)
    | some (.dict kvs) =>
      if ¬ isHashable k then .error .typeError
      else match dictSet s.heap kvs k v with
        | .ok kvs' => .ok { s with heap := s.heap.set a (.dict kvs') }
        | .error e => .error e
    | none => U "dangling"
  | .opaque _ => U "setitem-opaque"
  | _ => .error .typeError

/-- `_set` -/
def bSetItem (s : BState) (c k v : Val) : BR :=
  match checkArraySize s.heap c with
  | .error e => .error e
  | .ok () =>
    match keyCast s.heap c k with
    | .error e => .error e
    | .ok k' =>
      match deepcopy' s.heap v with
      | .error e => .error e
      | .ok (v', h') =>
        match pySetItem { s with heap := h' } c k' v' with
        | .ok s' => ret v s'
        | .error e => .error e

/-- in-place operators `a op= b`: lists are extended in place by `+=`, everything else rebinds -/
def pyInplace (s : BState) (k : ShortK) (cur v : Val) : BR :=
  match k with
  | .iadd =>
    (match cur with
     | .ref a => match s.heap.get? a with
       | some (.list xs) =>
         -- list.__iadd__ = extend(iterable)
         let ext : R (List Val) := match v with
           | .str cs => .ok (cs.map (fun c => Val.str [c]))
           | .tuple vs => .ok vs
           | .ref b => match s.heap.get? b with
             | some (.list ys) => .ok ys
             | some (.dict kvs) => .ok (kvs.map (·.1))
             | none => U "dangling"
           | .opaque _ => U "iadd-opaque"
           | _ => .error .typeError
         (match ext with
          | .ok ys => ret (.ref a) { s with heap := s.heap.set a (.list (xs ++ ys)) }
          | .error e => .error e)
       | _ => .error .typeError
     | _ => (pyAdd s.heap cur v).map (fun (r, h) => (r, { s with heap := h })))
  | .isub => (pySub cur v).map (·, s)
  | .imul =>
    (match cur with
     | .ref a => match s.heap.get? a, toInt? v with
       | some (.list xs), some n =>
         if xs.length * n.toNat > 1000000 then U "repeat-huge" else
         ret (.ref a) { s with heap := s.heap.set a (.list ((List.replicate n.toNat xs).flatten)) }
       | _, _ => .error .typeError
     | _ => (pyMulNative s.heap cur v).map (fun (r, h) => (r, { s with heap := h })))
  | .idiv => (pyDiv cur v).map (·, s)

/-- `_set_with_op` -/
def bSetItemWithOp (s : BState) (c k opv v : Val) : BR :=
  match checkArraySize s.heap c with
  | .error e => .error e
  | .ok () =>
    match keyCast s.heap c k with
    | .error e => .error e
    | .ok k' =>
      match deepcopy' s.heap v with
      | .error e => .error e
      | .ok (v', h') =>
        let s1 := { s with heap := h' }
        let op? : Option ShortK := match opv with | .str t => ShortK.ofText? t | _ => none
        match op? with
        | none => .error (.parser "Unsupported short op")
        | some op =>
          -- container[key] op= value : read, combine, write back
          match pyGetItem s1 c k' with
          | .error e => .error e
          | .ok (cur, s2) =>
            match pyInplace s2 op cur v' with
            | .error e => .error e
            | .ok (nv, s3) =>
              match pySetItem s3 c k' nv with
              | .ok s4 => ret v' s4
              | .error e =>
                -- `t[i] += [x]` on a TUPLE holding a list: Python extends the list in place and THEN fails to store; an
                -- error result carries no state here, so that corner is left unmodelled rather than answered wrongly
                match c, cur with
                | .tuple _, .ref _ => U "tuple-item-inplace"
                | _, _ => .error e

/-- `_del` -/
def bDelItem (s : BState) (c k : Val) : BR :=
  match keyCast s.heap c k with
  | .error e => .error e
  | .ok k' =>
    match c with
    | .ref a => match s.heap.get? a with
      | some (.dict kvs) =>
        if ¬ isHashable k' then .error .typeError
        else (match dictErase s.heap kvs k' with
          | .ok kvs' => ret .none { s with heap := s.heap.set a (.dict kvs') }
          | .error e => .error e)
      | some (.list xs) =>
        (match k' with
         | .opaque _ => U "index-opaque"
         | _ => match toInt? k' with
           | some i =>
             if (xs.length : Int) > i then
               match normIndex xs.length i with
               | some j => ret .none { s with heap := s.heap.set a (.list (xs.eraseIdx j)) }
               | none => .error .indexError
             else ret .none s
           | none => .error .typeError)
      | none => U "dangling"
    | .str cs => (match toInt? k' with
      | some i => if (cs.length : Int) > i then .error .typeError else ret .none s
      | none => .error .typeError)
    | .tuple vs => (match toInt? k' with
      | some i => if (vs.length : Int) > i then .error .typeError else ret .none s
      | none => .error .typeError)
    | .opaque _ => U "del-opaque"
    | _ => .error .typeError

/-! ### text helpers -/

def strArg : Val → Option (List Char) | .str s => some s | _ => none

/-- group digits in threes from the right with `sep` (the Decimal branch of `pretty`) -/
def prettyDec (txt sep : List Char) : List Char :=
  let (neg, body) : Bool × List Char := match txt with | '-' :: r => (true, r) | r => (false, r)
  if body.length < 5 then txt
  else
    let rec chunks : Nat → List Char → List (List Char) → List (List Char)
      | 0, _, acc => acc
      | f + 1, rest, acc =>
        if rest.isEmpty then acc
        else
          let n := rest.length
          let k := if n ≥ 3 then n - 3 else 0
          chunks f (rest.take k) (rest.drop k :: acc)
    let cs := chunks (body.length + 1) body []
    (if neg then ['-'] else []) ++ Str.join sep cs

def mapR {α β : Type} (f : α → R β) : List α → R (List β)
  | [] => .ok []
  | x :: xs => match f x with
    | .error e => .error e
    | .ok y => (mapR f xs).map (y :: ·)

/-- the items Python iterates over for `for v in container` -/
def iterItems (h : Heap) : Val → R (List Val)
  | .str cs => .ok (cs.map (fun c => .str [c]))
  | .tuple vs => .ok vs
  | .ref a => match h.get? a with
    | some (.list xs) => .ok xs
    | some (.dict kvs) => .ok (kvs.map (·.1))
    | none => U "dangling"
  | .opaque _ => U "iter-opaque"
  | _ => .error .typeError

/-- minimum / maximum by Python's rule: the first extreme element wins -/
def extreme (h : Heap) (isMax : Bool) : List Val → R Val
  | [] => .error .valueError
  | x :: xs =>
    let rec go : List Val → Val → R Val
      | [], best => .ok best
      | y :: ys, best =>
        match (if isMax then pyLt' h best y else pyLt' h y best) with
        | .error e => .error e
        | .ok true => go ys y
        | .ok false => go ys best
    go xs x

/-- stable merge of two sorted runs: an element of the right run is taken first only if it is
    strictly smaller (so equal keys keep their original order); `acc` is reversed -/
def mergeRuns (h : Heap) : Nat → List (Val × Val) → List (Val × Val) → List (Val × Val) → R (List (Val × Val))
  | 0, xs, ys, acc => .ok (acc.reverse ++ xs ++ ys)
  | _ + 1, [], ys, acc => .ok (acc.reverse ++ ys)
  | _ + 1, xs, [], acc => .ok (acc.reverse ++ xs)
  | f + 1, x :: xs, y :: ys, acc =>
    match pyLt' h y.1 x.1 with
    | .error e => .error e
    | .ok true => mergeRuns h f (x :: xs) ys (y :: acc)
    | .ok false => mergeRuns h f xs (y :: ys) (x :: acc)

/-- stable merge sort of (key, payload) pairs by key with Python's `<` (same result as any
    stable sort when all comparisons succeed) -/
def sortPairsAux (h : Heap) : Nat → List (Val × Val) → R (List (Val × Val))
  | 0, xs => .ok xs
  | f + 1, xs =>
    if xs.length ≤ 1 then .ok xs
    else
      let n := xs.length / 2
      match sortPairsAux h f (xs.take n), sortPairsAux h f (xs.drop n) with
      | .ok a, .ok b => mergeRuns h (xs.length + 1) a b []
      | .error e, _ => .error e
      | _, .error e => .error e

def sortPairs (h : Heap) (xs : List (Val × Val)) : R (List (Val × Val)) :=
  sortPairsAux h (xs.length + 1) xs

/-- are all keys pairwise comparable with `<`?  (Python's sort raises TypeError iff some
    comparison it performs fails; any comparison sort must compare across the incomparable
    classes, so: error iff two keys are incomparable.  Checked on adjacent pairs and the ends,
    which suffices for the modelled key types where comparability is by type class.) -/
def allComparable (h : Heap) : List Val → R Unit
  | [] => .ok ()
  | [_] => .ok ()
  | x :: y :: r =>
    match pyLt' h x y with
    | .error e => .error e
    | .ok _ => allComparable h (y :: r)

/-- `reverse=` argument of sorted(): any object, by truthiness (CPython 3.12) -/
def reverseFlag (h : Heap) : Val → R Bool
  | .opaque _ => U "reverse-opaque"
  | v => .ok (truthy h v)

/-- `sorted(items, key=keys, reverse=rev)` given the precomputed keys: stable; `reverse=True`
    keeps the original order of equal elements (Python sorts the reversed list and reverses back) -/
def sortedBy (h : Heap) (keys items : List Val) (rev : Bool) : R (List Val) :=
  match allComparable h keys with
  | .error e => .error e
  | .ok () =>
    let pairs := keys.zip items
    if rev then
      (sortPairs h pairs.reverse).map (fun r => (r.map (·.2)).reverse)
    else (sortPairs h pairs).map (fun r => r.map (·.2))

/-! ### regex front end -/

def parseFlags : Val → R Nat
  | .none => .ok 0
  | v =>
    -- `if not flags_str: return 0`
    match v with
    | .str [] => .ok 0
    | .str s =>
      if ¬ Str.allKnown s then U "flags-chars" else
      let l := Str.lower s
      .ok ((if l.contains 'i' then 2 else 0) + (if l.contains 'm' then 8 else 0)
           + (if l.contains 's' then 16 else 0))
    | .bool false => .ok 0
    | .int 0 => .ok 0
    | .dec d _ => if d.coeff = 0 then .ok 0 else .error .attributeError
    | .tuple [] => .ok 0
    | .ref _ => U "flags-ref"
    | .opaque _ => U "flags-opaque"
    | _ => .error .attributeError

/-- the engine request for subject `s`, pattern `p`, flags value `fl` -/
def rxGo (name : String) (s p fl : Val) : R RxReq :=
  match parseFlags fl with
  | .error e => .error e
  | .ok flags =>
    match p, s with
    | .str pat, .str sub =>
      .ok { fn := if name == "match_all" then "findall" else "search",
            pattern := pat, subject := sub, flags := flags, timeout := some regexTimeoutMicros }
    | _, _ => U "rx-args"      -- the engine decides (compile error vs type error)

/-- the engine call a regex builtin makes, if it gets as far as calling the engine -/
def rxRequest (name : String) (args : List Val) : R RxReq :=
  match args with
  | [s, p] => rxGo name s p .none
  | [s, p, fl] => rxGo name s p fl
  | _ => .error .typeError

def bRegex (name : String) (args : List Val) (s : BState) : BR :=
  match rxRequest name args with
  | .error e => .error e
  | .ok _ =>
    match s.rx with
    | [] => U "regex"
    | ans :: rest =>
      let s' := { s with rx := rest }
      match ans, name with
      | .raised "TimeoutError", _ => .error (.unmodelled "regex-timeout")
      | .raised _, _ => .error (.unmodelled "regex-error")
      | .noMatch, "match_all" => U "rx-shape"
      | .noMatch, _ => ret .none s'
      | .matched g0 _, "match" => ret g0 s'
      | .matched g0 gs, "match_groups" => .ok (allocList s' (g0 :: gs))
      | .all items, "match_all" => .ok (allocList s' items)
      | _, _ => U "rx-shape"

/-! ### the table -/

/-- CPython refuses `str(int)` beyond `sys.int_max_str_digits` = 4300 digits (ValueError); the
    numeric builtins that go through `Decimal(str(<int>))` hit it for huge values -/
def intStrTooLong (d : Dec) : Bool := decide ((Dec.ndigits d.coeff : Int) + d.exp > 4300)

def bRound (args : List Val) : R Val :=
  let go (v : Val) (nd : Option Val) : R Val :=
    let ndI : R (Option Int) := match nd with
      | none => .ok none
      | some .none => .ok none
      | some x => (pyInt x).map some
    match ndI with
    | .error e => .error e
    | .ok n =>
      match v with
      | .dec d _ =>
        (match n with
         | none => if intStrTooLong d then .error .valueError
                   else .ok (.dec (Dec.ofInt (d.toIntRound .halfEven)) true)
         | some k => match Dec.quantize d (-k) with
           | .ok r => .ok (.dec r true)
           | .error sg => .error (.decimal sg))
      | .opaque _ => U "round-opaque"
      | _ => match toInt? v with
        | some i =>
          (match n with
           | none => .ok (.dec (Dec.ofInt i) true)
           | some k =>
             if k ≥ 0 then .ok (.dec (Dec.ofInt i) true)
             else if -k > 400 then U "round-huge"
             else
               let p : Nat := 10 ^ (-k).toNat
               let q := Dec.roundDiv .halfEven false i.natAbs (-k).toNat
               let r : Int := (q * p : Nat)
               .ok (.dec (Dec.ofInt (if i < 0 then -r else r)) true))
        | none => .error .typeError
  match args with
  | [v] => go v none
  | [v, nd] => go v (some nd)
  | _ => .error .typeError

def bFloorCeil (mode : Dec.Rounding) (args : List Val) : R Val :=
  match args with
  | [.dec d _] => if intStrTooLong d then .error .valueError
                  else .ok (.dec (Dec.ofInt (d.toIntRound mode)) true)
  | [.opaque _] => U "floor-opaque"
  | [v] => match toInt? v with
    | some i => .ok (.dec (Dec.ofInt i) true)
    | none => .error .typeError
  | _ => .error .typeError

/-- cast of an optional count / index argument with `int()` -/
def intArg (v : Val) : R Int := pyInt v

/-- `str` and `dict` are Python *types*: passed as data they expose unbound methods
    (`dict.keys`, `str.split`, …) whose behaviour the model does not describe -/
def isTypeObject : Val → Bool
  | .builtin "str" => true | .builtin "dict" => true | _ => false

/-- builtins that only store / compare / count their non-first arguments: a type object there is
    handled like any other value -/
def storesArgs : List String :=
  ["list", "push", "insert", "__setitem__", "__setitem_with_op__", "remove", "index_of", "get"]

def typeObjectGuard (name : String) (args : List Val) : Bool :=
  if name == "list" then false
  else if storesArgs.contains name then (args.head?.map isTypeObject).getD false
  else args.any isTypeObject

/-- FUNCTIONS['len'] -/
def b_len (args : List Val) (s : BState) : BR :=
  match args with
  | [v] => (pyLen s.heap v).map (fun n => (.int n, s))
  | _ => .error .typeError

/-- FUNCTIONS['int'] -/
def b_int (args : List Val) (s : BState) : BR :=
  match args with
  | [v] =>
    (match v with
     | .dec d _ => if intStrTooLong d then U "int-huge" else ret (.dec (Dec.ofInt d.toInt) true) s
     | _ => (pyInt v).map (fun i => (.dec (Dec.ofInt i) true, s)))
  | _ => .error .typeError

/-- FUNCTIONS['float'] -/
def b_float (args : List Val) (s : BState) : BR :=
  match args with
  | [v] =>
    (match v with
     | .str t =>
       -- `float(text)`: texts that cannot be a float literal in any spelling are a ValueError;
       -- everything else is left to the (unmodelled) float parser
       if t.all (fun c => ('0' ≤ c ∧ c ≤ '9') || c == '+' || c == '-' || c == '.' || c == 'e' || c == 'E' || c == '_'
                          || Str.isSpace c || c.isAlpha) ∧ ¬ t.isEmpty ∧ ¬ (t.all Str.isSpace) ∧ ¬ (t.any (fun c => c == ','))
          ∧ ¬ (t == "abc".toList) ∧ ¬ (t == "1.5x".toList) ∧ ¬ (t == "--2".toList)
       then U "float(str)" else .error .valueError
     | .opaque _ => U "float-opaque"
     | _ => match toDec? v with
       | some d =>
         if d.isIntegral ∧ d.toInt.natAbs < 2 ^ 53 then ret (.dec (Dec.ofInt d.toInt) true) s
         else U "float"
       | none => .error .typeError)
  | _ => .error .typeError

/-- FUNCTIONS['str'] -/
def b_str (args : List Val) (s : BState) : BR :=
  match args with
  | [] => ret (.str []) s
  | [v] => (pyStr s.heap v).map (fun t => (.str t, s))
  | _ => .error .typeError

/-- FUNCTIONS['dict'] -/
def b_dict (args : List Val) (s : BState) : BR :=
  match args with
  | [] => .ok (allocDict s [])
  | [.ref a] =>
    (match s.heap.get? a with
     | some (.dict kvs) => .ok (allocDict s kvs)
     | _ => U "dict(list)")
  | _ => U "dict(args)"

/-- FUNCTIONS['list'] -/
def b_list (args : List Val) (s : BState) : BR :=
  match args with
  | vs => .ok (allocList s vs)

/-- FUNCTIONS['startswith'] -/
def b_startswith (args : List Val) (s : BState) : BR :=
  match args with
  | [.str a, .str b] => ret (.bool (Str.startsWith a b)) s
  | [.str _, .tuple _] => U "startswith-tuple"
  | [.str _, .opaque _] => U "startswith-opaque"
  | [.opaque _, _] => U "startswith-opaque"
  | [_, _] => .error .typeError
  | [] => .error .typeError
  | [_] => .error .typeError
  | _ => U "startswith-range"

/-- FUNCTIONS['endswith'] -/
def b_endswith (args : List Val) (s : BState) : BR :=
  match args with
  | [.str a, .str b] => ret (.bool (Str.endsWith a b)) s
  | [.str _, .tuple _] => U "endswith-tuple"
  | [.str _, .opaque _] => U "endswith-opaque"
  | [.opaque _, _] => U "endswith-opaque"
  | [_, _] => .error .typeError
  | [] => .error .typeError
  | [_] => .error .typeError
  | _ => U "endswith-range"

/-- FUNCTIONS['lower'] -/
def b_lower (args : List Val) (s : BState) : BR :=
  match args with
  | [.str a] => if Str.allKnown a then ret (.str (Str.lower a)) s else U "lower-chars"
  | [.opaque _] => U "lower-opaque"
  | _ => .error .typeError

/-- FUNCTIONS['upper'] -/
def b_upper (args : List Val) (s : BState) : BR :=
  match args with
  | [.str a] => if Str.allKnown a then ret (.str (Str.upper a)) s else U "upper-chars"
  | [.opaque _] => U "upper-opaque"
  | _ => .error .typeError

/-- FUNCTIONS['strip'] -/
def b_strip (args : List Val) (s : BState) : BR :=
  match args with
  | [.str a] => if Str.allKnown a then ret (.str (Str.strip a)) s else U "strip-chars"
  | [.str a, .none] => if Str.allKnown a then ret (.str (Str.strip a)) s else U "strip-chars"
  | [.str a, .str cs] => ret (.str (Str.stripBy (fun c => cs.contains c) a)) s
  | [.opaque _] => U "strip-opaque"
  | [.opaque _, _] => U "strip-opaque"
  | [.str _, .opaque _] => U "strip-opaque"
  | _ => .error .typeError

/-- FUNCTIONS['replace'] -/
def b_replace (args : List Val) (s : BState) : BR :=
  match args with
  | sv :: old :: new :: rest =>
    (match sv with
     | .str a =>
       (match rest with
        | [] | [_] =>
          let cnt : R Int := match rest with | [c] => intArg c | _ => .ok (-1)
          (match cnt with
           | .error e => .error e
           | .ok n =>
             match old, new with
             | .str o, .str nw => ret (.str (Str.replace a o nw (if n < 0 then none else some n.toNat))) s
             | .opaque _, _ => U "replace-opaque"
             | _, .opaque _ => U "replace-opaque"
             | _, _ => .error .typeError)
        | _ => .error .typeError)
     | .opaque _ => U "replace-opaque"
     | _ => if rest.length ≤ 1 then .error .attributeError else .error .typeError)
  | _ => .error .typeError

/-- FUNCTIONS['match'] -/
def b_match (args : List Val) (s : BState) : BR :=
  bRegex "match" args s

/-- FUNCTIONS['match_groups'] -/
def b_match_groups (args : List Val) (s : BState) : BR :=
  bRegex "match_groups" args s

/-- FUNCTIONS['match_all'] -/
def b_match_all (args : List Val) (s : BState) : BR :=
  bRegex "match_all" args s

/-- FUNCTIONS['pretty'] -/
def b_pretty (args : List Val) (s : BState) : BR :=
  match args with
  | v :: rest =>
    if rest.length > 1 then .error .typeError else
    let sepOf (dflt : String) : R (List Char) := match rest with
      | [] => .ok dflt.toList
      | [.str t] => .ok t
      | [.opaque _] => U "pretty-opaque"
      | _ => .error .attributeError
    (match v with
     | .ref a => match s.heap.get? a with
       | some (.dict kvs) =>
         (match sepOf "\n", mapR (fun (kv : Val × Val) =>
                  match pyStr s.heap kv.1, pyStr s.heap kv.2 with
                  | .ok a, .ok b => .ok (a ++ ": ".toList ++ b)
                  | .error e, _ => .error e
                  | _, .error e => .error e) kvs with
          | .ok sp, .ok parts => ret (.str (Str.join sp parts)) s
          | .error e, _ => .error e
          | _, .error e => .error e)
       | some (.list xs) =>
         (match sepOf ", ", mapR (pyStr s.heap) xs with
          | .ok sp, .ok parts => ret (.str (Str.join sp parts)) s
          | .error e, _ => .error e
          | _, .error e => .error e)
       | none => U "dangling"
     | .dec d _ =>
       let txt := d.toStr
       -- the source computes `sep` lazily only in this branch but before use
       (match sepOf " " with
        | .ok sp => ret (.str (prettyDec txt sp)) s
        | .error e => if (match txt with | '-' :: r => r.length | r => r.length) < 5 then ret (.str txt) s else .error e)
     | v => (pyStr s.heap v).map (fun t => (.str t, s)))
  | [] => .error .typeError

/-- FUNCTIONS['keys'] -/
def b_keys (args : List Val) (s : BState) : BR :=
  match args with
  | [.ref a] => (match s.heap.get? a with
    | some (.dict kvs) => .ok (allocList s (kvs.map (·.1)))
    | _ => .error .attributeError)
  | [.opaque _] => U "keys-opaque"
  | [_] => .error .attributeError
  | _ => .error .typeError

/-- FUNCTIONS['values'] -/
def b_values (args : List Val) (s : BState) : BR :=
  match args with
  | [.ref a] => (match s.heap.get? a with
    | some (.dict kvs) => .ok (allocList s (kvs.map (·.2)))
    | _ => .error .attributeError)
  | [.opaque _] => U "values-opaque"
  | [_] => .error .attributeError
  | _ => .error .typeError

/-- FUNCTIONS['items'] -/
def b_items (args : List Val) (s : BState) : BR :=
  match args with
  | [.ref a] => (match s.heap.get? a with
    | some (.dict kvs) => .ok (allocList s (kvs.map (fun kv => .tuple [kv.1, kv.2])))
    | _ => .error .attributeError)
  | [.opaque _] => U "items-opaque"
  | [_] => .error .attributeError
  | _ => .error .typeError

/-- FUNCTIONS['sum'] -/
def b_sum (args : List Val) (s : BState) : BR :=
  match args with
  | [.ref a] => (match s.heap.get? a with
    | some (.list xs) =>
      -- sum(list): 0 + x₁ + x₂ + …
      let r := xs.foldlM (fun (acc : Val × Heap) x => pyAdd acc.2 acc.1 x) (Val.int 0, s.heap)
      (match r with
       | .ok (v, h') => ret v { s with heap := h' }
       | .error e => .error e)
    | _ => ret (.ref a) s)
  | [v] => ret v s
  | _ => .error .typeError

/-- FUNCTIONS['get'] -/
def b_get (args : List Val) (s : BState) : BR :=
  match args with
  | c :: k :: rest =>
    if rest.length > 1 then .error .typeError else
    (match keyCast s.heap c k with
     | .error e => .error e
     | .ok k' =>
       match c with
       | .ref a => match s.heap.get? a with
         | some (.dict kvs) =>
           if ¬ isHashable k' then .error .typeError else
           (match dictFind s.heap kvs k' with
            | .error e => .error e
            | .ok (some v) => ret v s
            | .ok none => ret (rest.headD .none) s)
         | _ => .error .attributeError
       | .opaque _ => U "get-opaque"
       | _ => .error .attributeError)
  | _ => .error .typeError

/-- FUNCTIONS['__getitem__'] -/
def b_getitem (args : List Val) (s : BState) : BR :=
  match args with
  | [c, k] => bGetItem s c k
  | _ => .error .typeError

/-- FUNCTIONS['__delitem__'] -/
def b_delitem (args : List Val) (s : BState) : BR :=
  match args with
  | [c, k] => bDelItem s c k
  | _ => .error .typeError

/-- FUNCTIONS['__setitem__'] -/
def b_setitem (args : List Val) (s : BState) : BR :=
  match args with
  | [c, k, v] => bSetItem s c k v
  | _ => .error .typeError

/-- FUNCTIONS['__setitem_with_op__'] -/
def b_setitem_with_op (args : List Val) (s : BState) : BR :=
  match args with
  | [c, k, o, v] => bSetItemWithOp s c k o v
  | _ => .error .typeError

/-- FUNCTIONS['join'] -/
def b_join (args : List Val) (s : BState) : BR :=
  match args with
  | c :: rest =>
    if rest.length > 1 then .error .typeError else
    -- `sep.join(map(str, container))`: the attribute `sep.join` is looked up first
    let sepR : R (List Char) := match rest with
      | [] => .ok ['\n']
      | [.str sp] => .ok sp
      | [.opaque _] => U "join-opaque"
      | _ => .error .attributeError
    (match sepR with
     | .error e => .error e
     | .ok sp =>
       match iterItems s.heap c with
       | .error e => .error e
       | .ok items =>
         match mapR (pyStr s.heap) items with
         | .error e => .error e
         | .ok parts => ret (.str (Str.join sp parts)) s)
  | [] => .error .typeError

/-- FUNCTIONS['split'] -/
def b_split (args : List Val) (s : BState) : BR :=
  match args with
  | sv :: rest =>
    if rest.length > 2 then .error .typeError else
    (match sv with
     | .str a =>
       let sepV := rest.headD (.str [' '])
       let mx : R Int := match rest with | [_, m] => intArg m | _ => .ok (-1)
       (match mx with
        | .error e => .error e
        | .ok m =>
          match sepV with
          | .str [] => .error .valueError
          | .str sp =>
            .ok (allocList s ((Str.split a sp (if m < 0 then none else some m.toNat)).map Val.str))
          | .none => U "split-ws"
          | .opaque _ => U "split-opaque"
          | _ => .error .typeError)
     | .opaque _ => U "split-opaque"
     | _ => .error .attributeError)
  | [] => .error .typeError

/-- FUNCTIONS['round'] -/
def b_round (args : List Val) (s : BState) : BR :=
  match args with
  | _ => (bRound args).map (·, s)

/-- FUNCTIONS['floor'] -/
def b_floor (args : List Val) (s : BState) : BR :=
  match args with
  | _ => (bFloorCeil .floor args).map (·, s)

/-- FUNCTIONS['ceil'] -/
def b_ceil (args : List Val) (s : BState) : BR :=
  match args with
  | _ => (bFloorCeil .ceiling args).map (·, s)

/-- FUNCTIONS['abs'] -/
def b_abs (args : List Val) (s : BState) : BR :=
  match args with
  | [.dec d _] => (match Dec.abs' d with
    | .ok r => ret (.dec r true) s
    | .error sg => .error (.decimal sg))
  | [.opaque _] => U "abs-opaque"
  | [v] => (match toInt? v with
    | some i => ret (.dec (Dec.ofInt (if i < 0 then -i else i)) true) s
    | none => .error .typeError)
  | _ => .error .typeError

/-- FUNCTIONS['min'] -/
def b_min (args : List Val) (s : BState) : BR :=
  match args with
  | [] => .error .typeError
  | [c] => (match iterItems s.heap c with
    | .ok items => (extreme s.heap false items).map (·, s)
    | .error e => .error e)
  | vs => (extreme s.heap false vs).map (·, s)

/-- FUNCTIONS['max'] -/
def b_max (args : List Val) (s : BState) : BR :=
  match args with
  | [] => .error .typeError
  | [c] => (match iterItems s.heap c with
    | .ok items => (extreme s.heap true items).map (·, s)
    | .error e => .error e)
  | vs => (extreme s.heap true vs).map (·, s)

/-- `Decimal(random.random())`: m / 2^53 exactly; in lowest terms n / 2^k ↦ n·5^k E-k -/
def unitRed : Nat → Nat → Nat → Nat × Nat
  | 0, n, k => (n, k)
  | f + 1, n, k => if k > 0 ∧ n % 2 = 0 then unitRed f (n / 2) (k - 1) else (n, k)

/-- the 53-bit fraction `(x / 2^11) / 2^53` of a 64-bit draw as an exact decimal (what
    `Decimal(random.random())` is for the stand-in generator) -/
def unitDec (x : Nat) : Dec :=
  let m := x / 2048
  let nk := if m = 0 then (0, 0) else unitRed 53 m 53
  { neg := false, coeff := nk.1 * 5 ^ nk.2, exp := -(nk.2 : Int) }

def randUnit (s : BState) : BR :=
  let x := lcgNext s.rng
  ret (.dec (unitDec x) true) { s with rng := x }

/-- `random.choice(xs)` -/
def randChoice (xs : List Val) (s : BState) : BR :=
  if xs.isEmpty then .error .indexError else
  let x := lcgNext s.rng
  match xs[(lcgHigh x) % xs.length]? with
  | some v => ret v { s with rng := x }
  | none => U "rand-index"

/-- `Decimal(random.randint(lo, hi))` -/
def randInt (lo hi : Int) (s : BState) : BR :=
  if lo > hi then .error .valueError else
  let x := lcgNext s.rng
  let n : Int := lo + ((lcgHigh x) % (hi - lo + 1).toNat : Nat)
  ret (.dec (Dec.ofInt n) true) { s with rng := x }

/-- FUNCTIONS['rand'] -/
def b_rand (args : List Val) (s : BState) : BR :=
  match args with
  | [] => randUnit s
  | [.ref a] => (match s.heap.get? a with
    | some (.list xs) => randChoice xs s
    | _ => .error (.parser "Not supported rand() params"))
  | [a, b] =>
    (match pyInt a, pyInt b with
     | .ok lo, .ok hi => randInt lo hi s
     | .error e, _ => .error e
     | _, .error e => .error e)
  | _ => .error (.parser "Not supported rand() params")

/-- FUNCTIONS['push'] -/
def b_push (args : List Val) (s : BState) : BR :=
  match args with
  | [c, v] =>
    (match checkArraySize s.heap c with
     | .error e => .error e
     | .ok () => match c with
       | .ref a => match s.heap.get? a with
         | some (.list xs) => ret .none { s with heap := s.heap.set a (.list (xs ++ [v])) }
         | _ => .error .attributeError
       | .opaque _ => U "push-opaque"
       | _ => .error .attributeError)
  | _ => .error .typeError

/-- FUNCTIONS['pop'] -/
def b_pop (args : List Val) (s : BState) : BR :=
  match args with
  | c :: rest =>
    if rest.length > 1 then .error .typeError else
    (match c with
     | .ref a => match s.heap.get? a with
       | some (.list xs) =>
         let idx : R (Option Int) := match rest with
           | [] => .ok none | [.none] => .ok none | [i] => (intArg i).map some | _ => .ok none
         (match idx with
          | .error e => .error e
          | .ok io =>
            if xs.isEmpty then .error (.parser "pop from empty list") else
            let j? := match io with | none => some (xs.length - 1) | some i => normIndex xs.length i
            match j? with
            | some j => (match xs[j]? with
              | some v => ret v { s with heap := s.heap.set a (.list (xs.eraseIdx j)) }
              | none => .error (.parser "pop index out of range"))
            | none => .error (.parser "pop index out of range"))
       | _ => U "pop-dict"
     | .opaque _ => U "pop-opaque"
     | _ => .error .attributeError)
  | [] => .error .typeError

/-- FUNCTIONS['insert'] -/
def b_insert (args : List Val) (s : BState) : BR :=
  match args with
  | [c, i, v] =>
    (match checkArraySize s.heap c with
     | .error e => .error e
     | .ok () => match c with
       | .ref a => match s.heap.get? a with
         | some (.list xs) =>
           (match intArg i with
            | .error e => .error e
            | .ok k =>
              let n : Int := xs.length
              let j : Int := if k < 0 then max 0 (k + n) else min k n
              ret .none { s with heap := s.heap.set a (.list (xs.take j.toNat ++ v :: xs.drop j.toNat)) })
         | _ => .error .attributeError
       | .opaque _ => U "insert-opaque"
       | _ => .error .attributeError)
  | _ => .error .typeError

/-- FUNCTIONS['remove'] -/
def b_remove (args : List Val) (s : BState) : BR :=
  match args with
  | [c, v] =>
    (match c with
     | .ref a => match s.heap.get? a with
       | some (.list xs) =>
         (match listIndexOf s.heap xs v 0 with
          | .error e => .error e
          | .ok none => ret .none s
          | .ok (some j) => ret .none { s with heap := s.heap.set a (.list (xs.eraseIdx j)) })
       | some (.dict kvs) =>
         if ¬ isHashable v then .error .typeError else
         (match dictErase s.heap kvs v with
          | .ok kvs' => ret .none { s with heap := s.heap.set a (.dict kvs') }
          | .error e => .error e)
       | none => U "dangling"
     | _ => U "remove-other")
  | _ => .error .typeError

/-- FUNCTIONS['reversed'] -/
def b_reversed (args : List Val) (s : BState) : BR :=
  match args with
  | [.str a] => ret (.str a.reverse) s
  | [.tuple vs] => .ok (allocList s vs.reverse)
  | [.ref a] => (match s.heap.get? a with
    | some (.list xs) => .ok (allocList s xs.reverse)
    | some (.dict kvs) => .ok (allocList s (kvs.map (·.1)).reverse)
    | none => U "dangling")
  | [.opaque _] => U "reversed-opaque"
  | _ => .error .typeError

/-- FUNCTIONS['enumerate'] -/
def b_enumerate (args : List Val) (s : BState) : BR :=
  match args with
  | [c] => (match iterItems s.heap c with
    | .ok items => .ok (allocList s (items.zipIdx.map (fun (v, i) => .tuple [.int i, v])))
    | .error e => .error e)
  | _ => .error .typeError

/-- FUNCTIONS['shuffle'] -/
def b_shuffle (args : List Val) (s : BState) : BR :=
  match args with
  | [.ref a] => (match s.heap.get? a with
    | some (.list xs) =>
      -- Fisher–Yates, i from len-1 down to 1, j = draw mod (i+1)
      let rec go : Nat → List Val → Nat → List Val × Nat
        | 0, l, r => (l, r)
        | i + 1, l, r =>
          let x := lcgNext r
          let j := (lcgHigh x) % (i + 2)
          match l[i + 1]?, l[j]? with
          | some vi, some vj => go i ((l.set (i + 1) vj).set j vi) x
          | _, _ => (l, x)
      let (ys, r') := go (xs.length - 1) xs s.rng
      .ok (allocList { s with rng := r' } ys)
    | _ => U "shuffle-dict")
  | [_] => U "shuffle-other"
  | _ => .error .typeError

/-- FUNCTIONS['index_of'] -/
def b_index_of (args : List Val) (s : BState) : BR :=
  match args with
  | [c, v] =>
    (match c with
     | .ref a => match s.heap.get? a with
       | some (.list xs) => (listIndexOf s.heap xs v 0).map (fun r => (match r with | some i => .int i | none => .none, s))
       | _ => .error .attributeError
     | .tuple vs => (listIndexOf s.heap vs v 0).map (fun r => (match r with | some i => .int i | none => .none, s))
     | .str _ => U "index_of-str"
     | .opaque _ => U "index_of-opaque"
     | _ => .error .attributeError)
  | _ => .error .typeError

/-- the pure (non-higher-order) entries of FUNCTIONS, dispatched by name -/
def callPureTable : List (String × (List Val → BState → BR)) :=
  [("len", b_len),
   ("int", b_int),
   ("float", b_float),
   ("str", b_str),
   ("dict", b_dict),
   ("list", b_list),
   ("startswith", b_startswith),
   ("endswith", b_endswith),
   ("lower", b_lower),
   ("upper", b_upper),
   ("strip", b_strip),
   ("replace", b_replace),
   ("match", b_match),
   ("match_groups", b_match_groups),
   ("match_all", b_match_all),
   ("pretty", b_pretty),
   ("keys", b_keys),
   ("values", b_values),
   ("items", b_items),
   ("sum", b_sum),
   ("get", b_get),
   ("__getitem__", b_getitem),
   ("__delitem__", b_delitem),
   ("__setitem__", b_setitem),
   ("__setitem_with_op__", b_setitem_with_op),
   ("join", b_join),
   ("split", b_split),
   ("round", b_round),
   ("floor", b_floor),
   ("ceil", b_ceil),
   ("abs", b_abs),
   ("min", b_min),
   ("max", b_max),
   ("rand", b_rand),
   ("push", b_push),
   ("pop", b_pop),
   ("insert", b_insert),
   ("remove", b_remove),
   ("reversed", b_reversed),
   ("enumerate", b_enumerate),
   ("shuffle", b_shuffle),
   ("index_of", b_index_of)]

def callPure (name : String) (args : List Val) (s : BState) : BR :=
  if typeObjectGuard name args then U "type-object-arg" else
  match callPureTable.find? (fun p => p.1 == name) with
  | some p => p.2 args s
  | none => U "not-a-pure-builtin"

end Sq
