/-
  Sq/Parse.lean — the parser model: precedence climbing over the token list, driven by the
  13-level operator table of smartquery/lexer.py, with the special forms coded as the LALR
  automaton PLY builds from smartquery/rules.py resolves them (DESIGN.md §2.4).  Tree-building
  actions are those of rules.py.  Faithfulness to the real automaton is checked by the
  correspondence slices `parse_tok` (exhaustive token strings) and `parse_rand`.
-/
import Sq.Ast
import Sq.Lex
namespace Sq

inductive Assoc | left | right | nonassoc
  deriving DecidableEq, Repr, Inhabited

/-- `lexer.precedence`, lowest level first.  `none` stands for the fictitious token UMINUS. -/
def precTable : List (Assoc × List (Option Tk)) :=
  [ (.left, [some .ASSIGN]),
    (.left, [some .SHORT_OP]),
    (.left, [some .OR]),
    (.left, [some .AND]),
    (.nonassoc, [some .EQ, some .NE, some .GT, some .LT, some .GTE, some .LTE, some .IN]),
    (.left, [some .PLUS, some .MINUS]),
    (.left, [some .TIMES, some .DIVIDE]),
    (.right, [some .POWER]),
    (.left, [some .PIPE]),
    (.left, [some .DOT]),
    (.right, [some .NOT]),
    (.right, [none]),
    (.left, [some .LBRACKET]) ]

def levelIn : List (Assoc × List (Option Tk)) → Nat → Option Tk → Option (Nat × Assoc)
  | [], _, _ => none
  | (a, ts) :: rest, i, t => if ts.contains t then some (i, a) else levelIn rest (i + 1) t

/-- 1-based level and associativity of a token in the operator table -/
def levelOf (t : Option Tk) : Option (Nat × Assoc) := levelIn precTable 1 t

def uminusLevel : Nat := (levelOf none).map (·.1) |>.getD 0     -- 12
def notLevel : Nat := (levelOf (some .NOT)).map (·.1) |>.getD 0 -- 11
def inLevel : Nat := (levelOf (some .IN)).map (·.1) |>.getD 0   -- 5

def binKind : Tk → Option BinK
  | .PLUS => some .add | .MINUS => some .sub | .TIMES => some .mul | .POWER => some .pow
  | .DIVIDE => some .div | .EQ => some .eq | .NE => some .ne | .GT => some .gt | .LT => some .lt
  | .GTE => some .ge | .LTE => some .le | .IN => some .isin | .AND => some .and | .OR => some .or
  | _ => none

/-- tokens that may follow a complete expression (the look-aheads on which the automaton
    reduces `expression -> FOR` and so runs the "reserved keyword" action) -/
def exprFollow (t : Option Tk) : Bool :=
  match t with
  | none => true
  | some t =>
    (binKind t).isSome || t == .NOT || t == .LBRACKET || t == .DOT || t == .PIPE || t == .IF
    || t == .ELSE || t == .RPAREN || t == .RBRACKET || t == .RBRACE || t == .COMMA || t == .COLON
    || t == .NEWLINE

inductive PErr
  | syn (rest : List Token)     -- offending token = head of `rest`; `[]` = end of input
  | res (t : Token)             -- "<kw> is reserved keyword"
  | badnum (t : Token)          -- a NUMBER lexeme the Dec model cannot read (unmodelled digits)
  | fuel
  deriving Repr

abbrev PR (α : Type) := Except PErr (α × List Token)

def peekTy (ts : List Token) : Option Tk := ts.head?.map (·.ty)

def eat (ty : Tk) : List Token → PR Token
  | t :: ts => if t.ty = ty then .ok (t, ts) else .error (.syn (t :: ts))
  | [] => .error (.syn [])

def noneOp : Op := .value .none

/-- what the loop of `pExpr` is about to do with the look-ahead `p` in a context of level `m`
    and associativity `a` -/
inductive Decision | take (lvl : Nat) (assoc : Assoc) | stop | reject
  deriving DecidableEq, Repr

def opLevel (p : Tk) : Option (Nat × Assoc) :=
  if (binKind p).isSome || p == .NOT || p == .LBRACKET || p == .DOT || p == .PIPE then levelOf (some p)
  else if p == .IF then some (0, .right)
  else none

def decide' (m : Nat) (a : Assoc) (p : Tk) : Decision :=
  match opLevel p with
  | none => .stop
  | some (l, la) =>
    if l > m ∨ (l = m ∧ a = .right) then .take l la
    else if l = m ∧ a = .nonassoc then .reject
    else .stop

/-- the `(container, key)` of a plain-index expression -/
def indexParts : Op → Option (Op × Op)
  | .call _ [c, k] => some (c, k)
  | _ => none

mutual

/-- `expr(m, a)`: returns the tree and whether the last suffix applied in *this* loop was a
    plain index `e[k]` (needed by the statement forms). -/
def pExpr : Nat → Nat → Assoc → List Token → PR (Op × Bool)
  | 0, _, _, _ => .error .fuel
  | f + 1, m, a, ts =>
    match pPrefix f ts with
    | .error e => .error e
    | .ok (lhs, ts') => pLoop f m a lhs false ts'

def pLoop : Nat → Nat → Assoc → Op → Bool → List Token → PR (Op × Bool)
  | 0, _, _, _, _, _ => .error .fuel
  | f + 1, m, a, lhs, topidx, ts =>
    match ts with
    | [] => .ok ((lhs, topidx), [])
    | t :: rest =>
      match decide' m a t.ty with
      | .stop => .ok ((lhs, topidx), ts)
      | .reject => .error (.syn ts)
      | .take l la =>
        match binKind t.ty with
        | some k =>
          match pExpr f l la rest with
          | .error e => .error e
          | .ok ((rhs, _), ts') => pLoop f m a (.bin k lhs rhs) false ts'
        | none =>
          if t.ty = .NOT then
            match eat .IN rest with
            | .error e => .error e
            | .ok (_, r2) =>
              match pExpr f inLevel .nonassoc r2 with
              | .error e => .error e
              | .ok ((rhs, _), ts') => pLoop f m a (.bin .notin lhs rhs) false ts'
          else if t.ty = .IF then
            match pExpr f 0 .right rest with
            | .error e => .error e
            | .ok ((c, _), r2) =>
              match eat .ELSE r2 with
              | .error e => .error e
              | .ok (_, r3) =>
                match pExpr f 0 .right r3 with
                | .error e => .error e
                | .ok ((e2, _), ts') => pLoop f m a (.ifx c lhs e2) false ts'
          else if t.ty = .LBRACKET then
            match pSubscript f rest with
            | .error e => .error e
            | .ok ((k, plain), ts') =>
              pLoop f m a (.call "__getitem__".toList [lhs, k]) plain ts'
          else if t.ty = .DOT then
            match eat .NAME rest with
            | .error e => .error e
            | .ok (n, r2) =>
              match eat .LPAREN r2 with
              | .error e => .error e
              | .ok (_, r3) =>
                if peekTy r3 = some .RPAREN then pLoop f m a (.call n.val [lhs]) false r3.tail
                else
                  match pArgs f .RPAREN r3 with
                  | .error e => .error e
                  | .ok (args, ts') => pLoop f m a (.call n.val (lhs :: args)) false ts'
          else -- PIPE
            match eat .NAME rest with
            | .error e => .error e
            | .ok (n, r2) =>
              if peekTy r2 = some .LPAREN then
                match pArgs f .RPAREN r2.tail with
                | .error e => .error e
                | .ok (args, ts') => pLoop f m a (.call n.val (lhs :: args)) false ts'
              else pLoop f m a (.call n.val [lhs]) false r2

/-- `expr (COMMA expr)* [COMMA] close` -/
def pArgs : Nat → Tk → List Token → PR (List Op)
  | 0, _, _ => .error .fuel
  | f + 1, close, ts =>
    match pExpr f 0 .right ts with
    | .error e => .error e
    | .ok ((e, _), ts') => pArgsTail f close [e] ts'

/-- after an argument: `, close` | `close` | `, expr …`; `acc` is reversed -/
def pArgsTail : Nat → Tk → List Op → List Token → PR (List Op)
  | 0, _, _, _ => .error .fuel
  | f + 1, close, acc, ts =>
    match ts with
    | [] => .error (.syn [])
    | t :: rest =>
      if t.ty = .COMMA then
        if peekTy rest = some close then .ok (acc.reverse, rest.tail)
        else
          match pExpr f 0 .right rest with
          | .error e => .error e
          | .ok ((e, _), ts') => pArgsTail f close (e :: acc) ts'
      else if t.ty = close then .ok (acc.reverse, rest)
      else .error (.syn ts)

/-- after `{` when the next token is not `}`: `k : v (, k : v)* [,] }`; `acc` reversed, flat -/
def pDictItems : Nat → List Op → List Token → PR (List Op)
  | 0, _, _ => .error .fuel
  | f + 1, acc, ts =>
    match pExpr f 0 .right ts with
    | .error e => .error e
    | .ok ((k, _), r1) =>
      match eat .COLON r1 with
      | .error e => .error e
      | .ok (_, r2) =>
        match pExpr f 0 .right r2 with
        | .error e => .error e
        | .ok ((v, _), r3) =>
          let acc' := v :: k :: acc
          match r3 with
          | [] => .error (.syn [])
          | t :: rest =>
            if t.ty = .RBRACE then .ok (acc'.reverse, rest)
            else if t.ty = .COMMA then
              if peekTy rest = some .RBRACE then .ok (acc'.reverse, rest.tail)
              else pDictItems f acc' rest
            else .error (.syn r3)

/-- after `( e ,`: the remaining lambda parameters up to `NAME )`; `acc` reversed -/
def pParams : Nat → List Op → List Token → PR (List Op)
  | 0, _, _ => .error .fuel
  | f + 1, acc, ts =>
    match ts with
    | n :: r :: rest =>
      if n.ty = .NAME ∧ r.ty = .RPAREN then .ok ((Op.name n.val :: acc).reverse, rest)
      else
        match pExpr f 0 .right ts with
        | .error e => .error e
        | .ok ((e, _), r1) =>
          match eat .COMMA r1 with
          | .error e => .error e
          | .ok (_, r2) => pParams f (e :: acc) r2
    | _ =>
      match pExpr f 0 .right ts with
      | .error e => .error e
      | .ok ((e, _), r1) =>
        match eat .COMMA r1 with
        | .error e => .error e
        | .ok (_, r2) => pParams f (e :: acc) r2

/-- after `[` of a suffix: an index or one of the eight slice forms; Bool = plain index -/
def pSubscript : Nat → List Token → PR (Op × Bool)
  | 0, _ => .error .fuel
  | f + 1, ts =>
    if peekTy ts = some .COLON then
      let r1 := ts.tail
      if peekTy r1 = some .RBRACKET then .ok ((.slice noneOp noneOp noneOp, false), r1.tail)
      else if peekTy r1 = some .COLON then
        match pExpr f 0 .right r1.tail with
        | .error e => .error e
        | .ok ((e, _), r2) =>
          match eat .RBRACKET r2 with
          | .error e => .error e
          | .ok (_, r3) => .ok ((.slice noneOp noneOp e, false), r3)
      else
        match pExpr f 0 .right r1 with
        | .error e => .error e
        | .ok ((e, _), r2) =>
          if peekTy r2 = some .COLON then
            match eat .RBRACKET r2.tail with
            | .error e => .error e
            | .ok (_, r3) => .ok ((.slice noneOp e noneOp, false), r3)
          else
            match eat .RBRACKET r2 with
            | .error e => .error e
            | .ok (_, r3) => .ok ((.slice noneOp e noneOp, false), r3)
    else
      match pExpr f 0 .right ts with
      | .error e => .error e
      | .ok ((e, _), r1) =>
        if peekTy r1 = some .RBRACKET then .ok ((e, true), r1.tail)
        else
          match eat .COLON r1 with
          | .error e => .error e
          | .ok (_, r2) =>
            if peekTy r2 = some .RBRACKET then .ok ((.slice e noneOp noneOp, false), r2.tail)
            else if peekTy r2 = some .COLON then
              match eat .RBRACKET r2.tail with
              | .error e => .error e
              | .ok (_, r3) => .ok ((.slice e noneOp noneOp, false), r3)
            else
              match pExpr f 0 .right r2 with
              | .error e => .error e
              | .ok ((e2, _), r3) =>
                match eat .RBRACKET r3 with
                | .error e => .error e
                | .ok (_, r4) => .ok ((.slice e e2 noneOp, false), r4)

def pPrefix : Nat → List Token → PR Op
  | 0, _ => .error .fuel
  | f + 1, ts =>
    match ts with
    | [] => .error (.syn [])
    | t :: rest =>
      if reservedUnused.contains t.ty then
        if exprFollow (peekTy rest) then .error (.res t) else .error (.syn rest)
      else match t.ty with
      | .NUMBER =>
        match Dec.ofLexeme t.val with
        | some d => .ok (.value (.num d), rest)
        | none => .error (.badnum t)
      | .STRING => .ok (.value (.str t.val), rest)
      | .TRUE => .ok (.value (.bool true), rest)
      | .FALSE => .ok (.value (.bool false), rest)
      | .NONE => .ok (.value .none, rest)
      | .NAME =>
        if peekTy rest = some .LPAREN then
          let r1 := rest.tail
          if peekTy r1 = some .RPAREN then .ok (.call t.val [], r1.tail)
          else
            match pArgs f .RPAREN r1 with
            | .error e => .error e
            | .ok (args, ts') => .ok (.call t.val args, ts')
        else if peekTy rest = some .LAMBDA then
          match pExpr f 0 .right rest.tail with
          | .error e => .error e
          | .ok ((b, _), ts') => .ok (.lambda [.name t.val] b, ts')
        else .ok (.name t.val, rest)
      | .LPAREN =>
        match pExpr f 0 .right rest with
        | .error e => .error e
        | .ok ((e, _), r1) =>
          if peekTy r1 = some .RPAREN then .ok (e, r1.tail)
          else
            match eat .COMMA r1 with
            | .error e => .error e
            | .ok (_, r2) =>
              match pParams f [e] r2 with
              | .error e => .error e
              | .ok (ps, r3) =>
                match eat .LAMBDA r3 with
                | .error e => .error e
                | .ok (_, r4) =>
                  match pExpr f 0 .right r4 with
                  | .error e => .error e
                  | .ok ((b, _), ts') => .ok (.lambda ps b, ts')
      | .LBRACKET =>
        if peekTy rest = some .RBRACKET then .ok (.call "list".toList [], rest.tail)
        else
          match pArgs f .RBRACKET rest with
          | .error e => .error e
          | .ok (args, ts') => .ok (.call "list".toList args, ts')
      | .LBRACE =>
        if peekTy rest = some .RBRACE then .ok (.call "dict".toList [], rest.tail)
        else
          match pDictItems f [] rest with
          | .error e => .error e
          | .ok (kvs, ts') => .ok (.dict kvs, ts')
      | .MINUS =>
        match pExpr f uminusLevel .right rest with
        | .error e => .error e
        | .ok ((e, _), ts') => .ok (.unary .neg e, ts')
      | .NOT =>
        match pExpr f notLevel .right rest with
        | .error e => .error e
        | .ok ((e, _), ts') => .ok (.unary .not e, ts')
      | _ => .error (.syn ts)

end

/-- one statement; `none` = empty statement -/
def pStatement (f : Nat) (ts : List Token) : PR (Option Op) :=
  match ts with
  | [] => .ok (none, [])
  | t :: rest =>
    if t.ty = .NEWLINE then .ok (none, ts)
    else if t.ty = .NAME ∧ peekTy rest = some .ASSIGN then
      match pExpr f 0 .right rest.tail with
      | .error e => .error e
      | .ok ((v, _), ts') => .ok (some (.assign t.val v), ts')
    else if t.ty = .NAME ∧ peekTy rest = some .SHORT_OP then
      match rest with
      | o :: r2 =>
        (match ShortK.ofText? o.val with
         | none => .error (.syn rest)
         | some k =>
           match pExpr f 0 .right r2 with
           | .error e => .error e
           | .ok ((v, _), ts') => .ok (some (.short t.val k v), ts'))
      | [] => .error (.syn [])
    else if t.ty = .DEL then
      match pExpr f 0 .right rest with
      | .error e => .error e
      | .ok ((e, topidx), ts') =>
        match topidx, indexParts e with
        | true, some (c, k) => .ok (some (.call "__delitem__".toList [c, k]), ts')
        | _, _ => .error (.syn ts')
    else
      match pExpr f 0 .right ts with
      | .error e => .error e
      | .ok ((e, topidx), ts') =>
        match topidx, indexParts e, ts' with
        | true, some (c, k), o :: r2 =>
          if o.ty = .ASSIGN then
            match pExpr f 0 .right r2 with
            | .error e => .error e
            | .ok ((v, _), r3) => .ok (some (.call "__setitem__".toList [c, k, v]), r3)
          else if o.ty = .SHORT_OP then
            match pExpr f 0 .right r2 with
            | .error e => .error e
            | .ok ((v, _), r3) =>
              .ok (some (.call "__setitem_with_op__".toList [c, k, .value (.str o.val), v]), r3)
          else .ok (some e, ts')
        | _, _, _ => .ok (some e, ts')

/-- `code : line | code NEWLINE line`; `acc` reversed -/
def pCode : Nat → Nat → List Op → List Token → Except PErr (List Op)
  | 0, _, _, _ => .error .fuel
  | n + 1, f, acc, ts =>
    match pStatement f ts with
    | .error e => .error e
    | .ok (s, ts') =>
      let acc' := match s with | some o => o :: acc | none => acc
      match ts' with
      | [] => .ok acc'.reverse
      | t :: rest => if t.ty = .NEWLINE then pCode n f acc' rest else .error (.syn ts')

/-- the COMMENT token never reaches the parser (the rule function returns None);
    the model's lexer does not produce it either. -/
def parseTokens (ts : List Token) : Except PErr Op :=
  let f := 4 * ts.length + 8
  match pCode (ts.length + 1) f [] ts with
  | .ok ls => .ok (.code ls)
  | .error e => .error e

end Sq
