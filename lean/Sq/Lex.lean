/-
  Sq/Lex.lean — character-level model of the PLY lexer built from smartquery/lexer.py.

  PLY tries the rules in master-regex order (function rules in definition order: NEWLINE,
  the six brackets, STRING, NUMBER, NAME, COMMENT; then the string rules by decreasing regex
  length: SHORT_OP, POWER, DOT, EQ, GTE, LAMBDA, LTE, NE, PIPE, PLUS, TIMES, ASSIGN, COLON,
  COMMA, DIVIDE, GT, LT, MINUS) and takes the first alternative that matches at the current
  position.  `lexStep` reproduces exactly that order; `SqTie/LexRules.lean` pins the order to
  the rule list extracted from the live lexer object.
-/
import Sq.Str
namespace Sq

inductive Tk
  | NAME | NUMBER | STRING
  | EQ | NE | GT | LT | LTE | GTE
  | PLUS | MINUS | TIMES | POWER | DIVIDE
  | LPAREN | RPAREN | LBRACKET | RBRACKET | COMMA | DOT | PIPE
  | ASSIGN | SHORT_OP | LAMBDA | COMMENT | COLON | LBRACE | RBRACE | NEWLINE
  | AND | OR | IN | NOT | IF | ELSE | TRUE | FALSE | NONE | DEL
  | FOR | WHILE | BREAK | CONTINUE | DEF | RAISE | ELIF
  deriving DecidableEq, Repr, Inhabited

def Tk.name : Tk → String
  | .NAME => "NAME" | .NUMBER => "NUMBER" | .STRING => "STRING"
  | .EQ => "EQ" | .NE => "NE" | .GT => "GT" | .LT => "LT" | .LTE => "LTE" | .GTE => "GTE"
  | .PLUS => "PLUS" | .MINUS => "MINUS" | .TIMES => "TIMES" | .POWER => "POWER" | .DIVIDE => "DIVIDE"
  | .LPAREN => "LPAREN" | .RPAREN => "RPAREN" | .LBRACKET => "LBRACKET" | .RBRACKET => "RBRACKET"
  | .COMMA => "COMMA" | .DOT => "DOT" | .PIPE => "PIPE"
  | .ASSIGN => "ASSIGN" | .SHORT_OP => "SHORT_OP" | .LAMBDA => "LAMBDA" | .COMMENT => "COMMENT"
  | .COLON => "COLON" | .LBRACE => "LBRACE" | .RBRACE => "RBRACE" | .NEWLINE => "NEWLINE"
  | .AND => "AND" | .OR => "OR" | .IN => "IN" | .NOT => "NOT" | .IF => "IF" | .ELSE => "ELSE"
  | .TRUE => "TRUE" | .FALSE => "FALSE" | .NONE => "NONE" | .DEL => "DEL"
  | .FOR => "FOR" | .WHILE => "WHILE" | .BREAK => "BREAK" | .CONTINUE => "CONTINUE"
  | .DEF => "DEF" | .RAISE => "RAISE" | .ELIF => "ELIF"

/-- `lexer.reserved` (keyword text ↦ token type), in source order. -/
def reservedTable : List (String × Tk) :=
  [("and", .AND), ("or", .OR), ("in", .IN), ("not", .NOT), ("if", .IF), ("else", .ELSE),
   ("True", .TRUE), ("False", .FALSE), ("None", .NONE), ("del", .DEL),
   ("for", .FOR), ("while", .WHILE), ("break", .BREAK), ("continue", .CONTINUE),
   ("def", .DEF), ("raise", .RAISE), ("elif", .ELIF)]

/-- `lexer.reserved_unused` -/
def reservedUnused : List Tk := [.FOR, .WHILE, .BREAK, .CONTINUE, .DEF, .RAISE, .ELIF]

def lookupReserved (v : List Char) : Tk :=
  match reservedTable.find? (fun p => p.1.toList == v) with
  | some p => p.2
  | none => .NAME

structure Token where
  ty : Tk
  val : List Char      -- the token value as the lexer delivers it (strings: unquoted/unescaped)
  pos : Nat            -- lexpos
  line : Nat           -- tok.lineno: the lexer's line counter when the token starts
  deriving DecidableEq, Repr, Inhabited

/-- the per-lexer mutable fields that `parse`/`list_names` reset -/
structure LexSt where
  pos : Nat
  line : Nat
  depth : Int          -- paren_count
  deriving DecidableEq, Repr, Inhabited

def LexSt.init : LexSt := { pos := 0, line := 1, depth := 0 }

inductive CC | digit | letter | other | unknown
  deriving DecidableEq, Repr

/-- `\d` / `\w` classification (Python `re`, str patterns) on the modelled alphabet. -/
def classify (c : Char) : CC :=
  if c.toNat < 128 then
    (if c.isDigit then .digit else if c.isAlpha || c == '_' then .letter else .other)
  else if 0x400 ≤ c.toNat ∧ c.toNat ≤ 0x45F then .letter
  else if 0x660 ≤ c.toNat ∧ c.toNat ≤ 0x669 then .digit
  else .unknown

inductive LexErr
  | illegal (c : Char) (pos : Nat)    -- t_error: ParserError("Illegal character c")
  | unmodelled (c : Char)             -- a character the classification table does not cover
  deriving DecidableEq, Repr

/-- body of a quoted string after the opening quote `q`: `([^\\\n]|(\\.))*?` then `q`.
    Returns (body, rest after the closing quote). -/
def strBody (q : Char) : List Char → Option (List Char × List Char)
  | [] => none
  | [c] => if c = q then some ([], []) else none
  | c :: d :: ds =>
    if c = q then some ([], d :: ds)
    else if c = '\\' then
      if d = '\n' then none
      else match strBody q ds with
        | some (b, r) => some (c :: d :: b, r)
        | none => none
    else if c = '\n' then none
    else match strBody q (d :: ds) with
      | some (b, r) => some (c :: b, r)
      | none => none

def isQuote (c : Char) : Bool := c == '"' || c == '\''

/-- `t_STRING`: returns (token value, number of characters consumed, rest). -/
def matchString : List Char → Option (List Char × Nat × List Char)
  | 'r' :: q :: cs =>
    if isQuote q then
      match strBody q cs with
      | some (b, r) => some (b, b.length + 3, r)
      | none => none
    else none
  | q :: cs =>
    if isQuote q then
      match strBody q cs with
      | some (b, r) =>
        let v := Str.replace (Str.replace (Str.replace (Str.replace b
                  ['\\', 'n'] ['\n'] none) ['\\', 't'] ['\t'] none)
                  ['\\', '\''] ['\''] none) ['\\', '"'] ['"'] none
        some (v, b.length + 2, r)
      | none => none
    else none
  | [] => none

/-- longest prefix of characters satisfying `p` whose class is known; `none` if an unknown
    character stops the scan (the model cannot tell whether the lexeme continues). -/
def spanClass (p : CC → Bool) : List Char → Option (List Char × List Char)
  | [] => some ([], [])
  | c :: cs =>
    match classify c with
    | .unknown => none
    | k => if p k then
        match spanClass p cs with
        | some (a, r) => some (c :: a, r)
        | none => none
      else some ([], c :: cs)

def isDigitCC : CC → Bool | .digit => true | _ => false
def isWordCC : CC → Bool | .digit => true | .letter => true | _ => false

/-- `%.*?%`: from just after the opening `%` to the next `%`, not crossing `\n`. -/
def pctBody : List Char → Option (List Char × List Char)
  | [] => none
  | c :: cs =>
    if c = '%' then some ([], cs)
    else if c = '\n' then none
    else match pctBody cs with
      | some (b, r) => some (c :: b, r)
      | none => none

/-- `.*` of the comment rule: up to (not including) the next `\n`. -/
def dropLine : List Char → List Char
  | [] => []
  | c :: cs => if c = '\n' then c :: cs else dropLine cs

inductive LexRes
  | tok (t : Token) (st : LexSt) (rest : List Char)
  | skip (st : LexSt) (rest : List Char)
  | eof
  | err (e : LexErr)

def mk (ty : Tk) (v : List Char) (st : LexSt) (n : Nat) (dd : Int) (rest : List Char) : LexRes :=
  .tok { ty := ty, val := v, pos := st.pos, line := st.line }
       { st with pos := st.pos + n, depth := st.depth + dd } rest

/-- a line-break NEWLINE token at bracket depth 0.  PLY stamps `tok.lineno` *before* the rule
    function runs, so the token carries the line it ends; the counter is then advanced. -/
def mkNL (v : List Char) (st : LexSt) (n : Nat) (rest : List Char) : LexRes :=
  .tok { ty := .NEWLINE, val := v, pos := st.pos, line := st.line }
       { st with pos := st.pos + n, line := st.line + 1 } rest

/-- the string-defined rules, in master-regex order, after SHORT_OP / POWER / DOT -/
def simpleOps : List (List Char × Tk) :=
  [(['=', '='], .EQ), (['>', '='], .GTE), (['=', '>'], .LAMBDA), (['<', '='], .LTE),
   (['!', '='], .NE), (['|'], .PIPE), (['+'], .PLUS), (['*'], .TIMES), (['='], .ASSIGN),
   ([':'], .COLON), ([','], .COMMA), (['/'], .DIVIDE), (['>'], .GT), (['<'], .LT), (['-'], .MINUS)]

def matchSimple (s : List Char) : Option (List Char × Tk) :=
  simpleOps.find? (fun p => Str.startsWith s p.1)

/-- punctuation and operators: `%…%` names, comments, SHORT_OP, POWER, DOT, the one/two-character operators -/
def lexPunct (st : LexSt) (c : Char) (cs : List Char) : LexRes :=
  if c = '%' then
    match pctBody cs with
    | some (b, rest) => mk (lookupReserved ('%' :: b ++ ['%'])) ('%' :: b ++ ['%']) st (b.length + 2) 0 rest
    | none => .err (.illegal c st.pos)
  else if c = '#' then
    .skip { st with pos := st.pos + 1 + (cs.length - (dropLine cs).length) } (dropLine cs)
  else if (c = '+' ∨ c = '-' ∨ c = '*' ∨ c = '/') ∧ cs.head? = some '=' then
    mk .SHORT_OP [c, '='] st 2 0 cs.tail
  else if c = '*' ∧ cs.head? = some '*' then mk .POWER ['*', '*'] st 2 0 cs.tail
  else if c = '.' then mk .DOT ['.'] st 1 0 cs
  else match matchSimple (c :: cs) with
    | some (lit, ty) => mk ty lit st lit.length 0 ((c :: cs).drop lit.length)
    | none => .err (.illegal c st.pos)

/-- `t_NUMBER`  \d+(\.\d+)? -/
def lexNumber (st : LexSt) (c : Char) (cs : List Char) : LexRes :=
  match spanClass isDigitCC (c :: cs) with
  | none => .err (.unmodelled c)
  | some (ip, rest) =>
    match rest with
    | '.' :: d :: r2 =>
      (match classify d with
       | .unknown => .err (.unmodelled d)
       | .digit =>
         (match spanClass isDigitCC (d :: r2) with
          | none => .err (.unmodelled d)
          | some (fp, rest2) => mk .NUMBER (ip ++ '.' :: fp) st (ip.length + 1 + fp.length) 0 rest2)
       | _ => mk .NUMBER ip st ip.length 0 rest)
    | _ => mk .NUMBER ip st ip.length 0 rest

/-- strings, numbers, names, then punctuation (rule order STRING, NUMBER, NAME, COMMENT, …) -/
def lexWord (st : LexSt) (c : Char) (cs : List Char) : LexRes :=
  match matchString (c :: cs) with
  | some (v, n, rest) => mk .STRING v st n 0 rest
  | none =>
    match classify c with
    | .unknown => .err (.unmodelled c)
    | .digit => lexNumber st c cs
    | .letter =>
      (match spanClass isWordCC (c :: cs) with
       | none => .err (.unmodelled c)
       | some (w, rest) => mk (lookupReserved w) w st w.length 0 rest)
    | .other => lexPunct st c cs

/-- the six bracket rules (they move `paren_count`) -/
def lexBracket (st : LexSt) (c : Char) (cs : List Char) : LexRes :=
  if c = '(' then mk .LPAREN ['('] st 1 1 cs
  else if c = ')' then mk .RPAREN [')'] st 1 (-1) cs
  else if c = '[' then mk .LBRACKET ['['] st 1 1 cs
  else if c = ']' then mk .RBRACKET [']'] st 1 (-1) cs
  else if c = '{' then mk .LBRACE ['{'] st 1 1 cs
  else if c = '}' then mk .RBRACE ['}'] st 1 (-1) cs
  else lexWord st c cs

/-- One step of `lexer.token()`: skip ignored characters one at a time, or produce one token. -/
def lexStep (st : LexSt) : List Char → LexRes
  | [] => .eof
  | c :: cs =>
    if c = ' ' ∨ c = '\t' then .skip { st with pos := st.pos + 1 } cs
    else if c = '\r' ∧ cs.head? = some '\n' then
      if st.depth = 0 then mkNL ['\r', '\n'] st 2 cs.tail
      else .skip { st with pos := st.pos + 2, line := st.line + 1 } cs.tail
    else if c = '\n' then
      if st.depth = 0 then mkNL ['\n'] st 1 cs
      else .skip { st with pos := st.pos + 1, line := st.line + 1 } cs
    else if c = ';' then mk .NEWLINE [';'] st 1 0 cs
    else lexBracket st c cs

/-- All tokens of `s` starting in lexer state `st` (fuel = remaining characters + 1 per call). -/
def lexAllAux : Nat → LexSt → List Char → List Token → Except (LexErr × List Token) (List Token × LexSt)
  | 0, st, _, acc => .ok (acc.reverse, st)
  | fuel + 1, st, s, acc =>
    match lexStep st s with
    | .eof => .ok (acc.reverse, st)
    | .err e => .error (e, acc.reverse)
    | .skip st' rest => lexAllAux fuel st' rest acc
    | .tok t st' rest => lexAllAux fuel st' rest (t :: acc)

/-- tokens of the whole text; on a lexical error also the tokens delivered before it -/
def lexFrom (st : LexSt) (s : List Char) : Except (LexErr × List Token) (List Token × LexSt) :=
  lexAllAux (s.length + 1) st s []

def lex (s : List Char) : Except (LexErr × List Token) (List Token) :=
  match lexFrom LexSt.init s with
  | .ok (ts, _) => .ok ts
  | .error e => .error e

end Sq
