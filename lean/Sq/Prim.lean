/-
  Sq/Prim.lean — Python-level primitives on values: numeric tower, comparison, truthiness,
  str()/repr(), indexing, slicing, deepcopy.  Each returns `Except PyErr …`; where the model does
  not know what Python does it returns `.unmodelled` instead of guessing (DESIGN.md §2.6).
-/
import Sq.Value
namespace Sq

abbrev R (α : Type) := Except PyErr α

def U {α : Type} (why : String) : R α := .error (.unmodelled why)

/-- `isinstance(v, (Decimal_, int, float))` on the modelled domain (bool is an int) -/
def isNumeric : Val → Bool
  | .dec _ _ => true | .int _ => true | .bool _ => true | _ => false

def boolInt (b : Bool) : Int := if b then 1 else 0

/-- exact value of a number as a decimal -/
def toDec? : Val → Option Dec
  | .dec d _ => some d
  | .int i => some (Dec.ofInt i)
  | .bool b => some (Dec.ofInt (boolInt b))
  | _ => none

/-- Python int view (int or bool) -/
def toInt? : Val → Option Int
  | .int i => some i
  | .bool b => some (boolInt b)
  | _ => none

def liftDec (r : Except DecSignal Dec) : R Val :=
  match r with
  | .ok d => .ok (.dec d false)
  | .error s => .error (.decimal s)

/-! ### truthiness -/
def truthy (h : Heap) : Val → Bool
  | .none => false
  | .bool b => b
  | .dec d _ => d.coeff != 0
  | .int i => i != 0
  | .str s => !s.isEmpty
  | .tuple vs => !vs.isEmpty
  | .ref a => match h.get? a with
    | some (.list xs) => !xs.isEmpty
    | some (.dict kvs) => !kvs.isEmpty
    | none => false
  | _ => true

/-! ### equality and order -/

/-- numeric comparison across int / bool / Decimal -/
def numCmp (a b : Val) : Option Ordering :=
  match toInt? a, toInt? b with
  | some x, some y => some (compare x y)
  | _, _ => match toDec? a, toDec? b with
    | some x, some y => some (Dec.cmp x y)
    | _, _ => none

def listCmpChars : List Char → List Char → Ordering
  | [], [] => .eq
  | [], _ :: _ => .lt
  | _ :: _, [] => .gt
  | a :: as, b :: bs => if a.toNat < b.toNat then .lt else if a.toNat > b.toNat then .gt else listCmpChars as bs

mutual
/-- Python `==` on the modelled domain; `none` = the model cannot decide (function identity,
    cyclic structure deeper than the fuel). -/
def pyEq : Nat → Heap → Val → Val → Option Bool
  | 0, _, _, _ => none
  | f + 1, h, a, b =>
    match numCmp a b with
    | some o => some (o == .eq)
    | none =>
      match a, b with
      | .none, .none => some true
      | .str x, .str y => some (x == y)
      | .tuple xs, .tuple ys => pyEqList f h xs ys
      | .slice a1 b1 c1, .slice a2 b2 c2 => some (a1 == a2 && b1 == b2 && c1 == c2)
      | .builtin x, .builtin y => some (x == y)
      | .host x, .host y => some (x == y)
      | .closure _ _ _, .closure _ _ _ => none
      | .opaque _, _ => none
      | _, .opaque _ => none
      | .ref x, .ref y =>
        if x = y then some true else
        match h.get? x, h.get? y with
        | some (.list xs), some (.list ys) => pyEqList f h xs ys
        | some (.dict xs), some (.dict ys) =>
          if xs.length ≠ ys.length then some false else pyEqDict f h xs ys
        | some _, some _ => some false
        | _, _ => none
      | _, _ => some false

def pyEqList : Nat → Heap → List Val → List Val → Option Bool
  | 0, _, _, _ => none
  | _ + 1, _, [], [] => some true
  | _ + 1, _, [], _ :: _ => some false
  | _ + 1, _, _ :: _, [] => some false
  | f + 1, h, x :: xs, y :: ys =>
    match pyEq f h x y with
    | some true => pyEqList f h xs ys
    | r => r

/-- every entry of `xs` has an equal-keyed, equal-valued entry in `ys` -/
def pyEqDict : Nat → Heap → List (Val × Val) → List (Val × Val) → Option Bool
  | 0, _, _, _ => none
  | _ + 1, _, [], _ => some true
  | f + 1, h, (k, v) :: xs, ys =>
    match dictFindAux f h ys k with
    | none => none
    | some none => some false
    | some (some v') =>
      match pyEq f h v v' with
      | some true => pyEqDict f h xs ys
      | r => r

/-- value stored under a key equal to `k` (dict lookup by `==`; hashing is not modelled, which is
    sound because equal keys hash equal and the modelled key types have no `==` collisions
    across unequal hashes) -/
def dictFindAux : Nat → Heap → List (Val × Val) → Val → Option (Option Val)
  | 0, _, _, _ => none
  | _ + 1, _, [], _ => some none
  | f + 1, h, (k', v) :: r, k =>
    match pyEq f h k' k with
    | some true => some (some v)
    | some false => dictFindAux f h r k
    | none => none
end

def eqFuel (h : Heap) : Nat := 64 + 4 * h.size

def pyEq' (h : Heap) (a b : Val) : R Bool :=
  match pyEq (eqFuel h) h a b with
  | some r => .ok r
  | none => U "eq"

mutual
/-- Python `<` -/
def pyLt : Nat → Heap → Val → Val → R Bool
  | 0, _, _, _ => U "lt-fuel"
  | f + 1, h, a, b =>
    match numCmp a b with
    | some o => .ok (o == .lt)
    | none =>
      match a, b with
      | .str x, .str y => .ok (listCmpChars x y == .lt)
      | .tuple xs, .tuple ys => pyLtList f h xs ys
      | .ref x, .ref y =>
        match h.get? x, h.get? y with
        | some (.list xs), some (.list ys) => pyLtList f h xs ys
        | _, _ => .error .typeError
      | .opaque _, _ => U "lt-opaque"
      | _, .opaque _ => U "lt-opaque"
      | _, _ => .error .typeError

/-- lexicographic `<` of sequences: first position where the elements differ (by `==`) decides -/
def pyLtList : Nat → Heap → List Val → List Val → R Bool
  | 0, _, _, _ => U "lt-fuel"
  | _ + 1, _, [], [] => .ok false
  | _ + 1, _, [], _ :: _ => .ok true
  | _ + 1, _, _ :: _, [] => .ok false
  | f + 1, h, x :: xs, y :: ys =>
    match pyEq f h x y with
    | none => U "eq"
    | some true => pyLtList f h xs ys
    | some false => pyLt f h x y
end

def pyLt' (h : Heap) (a b : Val) : R Bool := pyLt (eqFuel h) h a b

/-- `a <= b`: numbers and strings directly; sequences via Python's rule (first differing
    element decides with `<=`, which for differing elements equals `<`) -/
def pyLe' (h : Heap) (a b : Val) : R Bool :=
  match numCmp a b with
  | some o => .ok (o != .gt)
  | none =>
    match a, b with
    | .str x, .str y => .ok (listCmpChars x y != .gt)
    | _, _ =>
      match pyLt' h a b with
      | .ok true => .ok true
      | .ok false =>
        (match a, b with
         | .tuple _, .tuple _ => pyEq' h a b
         | .ref _, .ref _ => pyEq' h a b
         | _, _ => .error .typeError)
      | .error e => .error e

def isHashable : Val → Bool
  | .ref _ => false
  | .tuple vs => vs.all (fun v => match v with | .ref _ => false | .tuple _ => false | _ => true)
  | _ => true

/-! ### str() and repr() -/

def reprChar (q : Char) (c : Char) : Option (List Char) :=
  if c = '\\' then some ['\\', '\\']
  else if c = q then some ['\\', q]
  else if c = '\n' then some ['\\', 'n']
  else if c = '\r' then some ['\\', 'r']
  else if c = '\t' then some ['\\', 't']
  else if c.toNat < 32 ∨ c.toNat = 127 then
    some ['\\', 'x', Str.hexDigit (c.toNat / 16), Str.hexDigit (c.toNat % 16)]
  else if Str.known c then some [c]
  else none

def reprStr (s : List Char) : Option (List Char) :=
  let q : Char := if s.contains '\'' ∧ ¬ s.contains '"' then '"' else '\''
  let rec go : List Char → Option (List Char)
    | [] => some []
    | c :: cs => match reprChar q c, go cs with
      | some a, some b => some (a ++ b)
      | _, _ => none
  match go s with
  | some b => some (q :: b ++ [q])
  | none => none

def optIntStr : Option Int → List Char
  | none => "None".toList
  | some i => Dec.intDigits i

mutual
/-- `repr(v)`; `path` = addresses of containers being printed (Python prints `[...]` for a
    cycle; the model returns `none` = unmodelled there). -/
def pyRepr : Nat → Heap → Val → Option (List Char)
  | 0, _, _ => none
  | f + 1, h, v =>
    match v with
    | .none => some "None".toList
    | .bool b => some (if b then "True" else "False").toList
    | .dec d true => some d.toStr
    | .dec d false => some ("Decimal('".toList ++ d.toStr ++ "')".toList)
    | .int i => some (Dec.intDigits i)
    | .str s => reprStr s
    | .tuple [x] => match pyRepr f h x with
      | some r => some ('(' :: r ++ ",)".toList)
      | none => none
    | .tuple vs => match pyReprList f h vs with
      | some r => some ('(' :: r ++ [')'])
      | none => none
    | .slice a b c => some ("slice(".toList ++ optIntStr a ++ ", ".toList ++ optIntStr b ++ ", ".toList
                            ++ optIntStr c ++ [')'])
    | .ref a => match h.get? a with
      | some (.list xs) => match pyReprList f h xs with
        | some r => some ('[' :: r ++ [']'])
        | none => none
      | some (.dict kvs) => match pyReprDict f h kvs with
        | some r => some ('{' :: r ++ ['}'])
        | none => none
      | none => none
    | _ => none

def pyReprList : Nat → Heap → List Val → Option (List Char)
  | 0, _, _ => none
  | _ + 1, _, [] => some []
  | f + 1, h, [x] => pyRepr f h x
  | f + 1, h, x :: y :: r =>
    match pyRepr f h x, pyReprList f h (y :: r) with
    | some a, some b => some (a ++ ", ".toList ++ b)
    | _, _ => none

def pyReprDict : Nat → Heap → List (Val × Val) → Option (List Char)
  | 0, _, _ => none
  | _ + 1, _, [] => some []
  | f + 1, h, (k, v) :: r =>
    match pyRepr f h k, pyRepr f h v, pyReprDict f h r with
    | some a, some b, some c =>
      some (a ++ ": ".toList ++ b ++ (if r.isEmpty then [] else ", ".toList ++ c))
    | _, _, _ => none
end

/-- `str(v)` -/
def pyStr (h : Heap) (v : Val) : R (List Char) :=
  match v with
  | .str s => .ok s
  | .dec d _ => .ok d.toStr
  | _ => match pyRepr (eqFuel h) h v with
    | some r => .ok r
    | none => U "str"

/-! ### arithmetic (Python operator semantics on the modelled domain) -/

def pyAdd (h : Heap) (a b : Val) : R (Val × Heap) :=
  match toInt? a, toInt? b with
  | some x, some y => .ok (.int (x + y), h)
  | _, _ =>
    match toDec? a, toDec? b with
    | some x, some y => (liftDec (Dec.add x y)).map (·, h)
    | _, _ =>
      match a, b with
      | .str x, .str y => .ok (.str (x ++ y), h)
      | .tuple x, .tuple y => .ok (.tuple (x ++ y), h)
      | .ref x, .ref y =>
        match h.get? x, h.get? y with
        | some (.list xs), some (.list ys) =>
          let (h', addr) := h.alloc (.list (xs ++ ys))
          .ok (.ref addr, h')
        | _, _ => .error .typeError
      | .opaque _, _ => U "add-opaque"
      | _, .opaque _ => U "add-opaque"
      | _, _ => .error .typeError

def pySub (a b : Val) : R Val :=
  match toInt? a, toInt? b with
  | some x, some y => .ok (.int (x - y))
  | _, _ =>
    match toDec? a, toDec? b with
    | some x, some y => liftDec (Dec.sub x y)
    | _, _ => match a, b with
      | .opaque _, _ => U "sub-opaque"
      | _, .opaque _ => U "sub-opaque"
      | _, _ => .error .typeError

/-- `a / b`: int / int is a float (not modelled) -/
def pyDiv (a b : Val) : R Val :=
  match toInt? a, toInt? b with
  | some _, some y => if y = 0 then .error .zeroDivision else U "float"
  | _, _ =>
    match toDec? a, toDec? b with
    | some x, some y => liftDec (Dec.div x y)
    | _, _ => match a, b with
      | .opaque _, _ => U "div-opaque"
      | _, .opaque _ => U "div-opaque"
      | _, _ => .error .typeError

def repList {α : Type} (xs : List α) (n : Int) : List α := (List.replicate n.toNat xs).flatten

/-- length of a sequence value (0 for everything else) -/
def seqLen (h : Heap) : Val → Nat
  | .str s => s.length
  | .tuple s => s.length
  | .ref x => (match h.get? x with | some (.list xs) => xs.length | _ => 0)
  | _ => 0

/-- the repetition count of `a * b` when one side is an int / bool -/
def repCount (a b : Val) : Int :=
  match toInt? a, toInt? b with | some n, _ => n | _, some n => n | _, _ => 0

/-- the model does not build repetitions beyond a million elements, and CPython refuses a count that does not fit a
    machine index (OverflowError, also when negative) -/
def repUnmodelled (h : Heap) (a b : Val) : Option String :=
  if repCount a b ≥ 9223372036854775808 ∨ repCount a b < -9223372036854775808 then some "repeat-index-overflow"
  else if max (seqLen h a) (seqLen h b) * (repCount a b).toNat > 1000000 then some "repeat-huge"
  else none

/-- native `a * b` (used by the compound assignments only) -/
def pyMulNative (h : Heap) (a b : Val) : R (Val × Heap) :=
  match toInt? a, toInt? b with
  | some x, some y => .ok (.int (x * y), h)
  | _, _ =>
    match toDec? a, toDec? b with
    | some x, some y => (liftDec (Dec.mul x y)).map (·, h)
    | _, _ =>
      match repUnmodelled h a b with
      | some why => U why
      | none =>
      match a, b with
      | .str s, .int n => .ok (.str (repList s n), h)
      | .str s, .bool n => .ok (.str (repList s (boolInt n)), h)
      | .int n, .str s => .ok (.str (repList s n), h)
      | .bool n, .str s => .ok (.str (repList s (boolInt n)), h)
      | .tuple s, .int n => .ok (.tuple (repList s n), h)
      | .int n, .tuple s => .ok (.tuple (repList s n), h)
      | .ref x, n =>
        (match h.get? x, toInt? n with
         | some (.list xs), some k =>
           let (h', addr) := h.alloc (.list (repList xs k))
           .ok (.ref addr, h')
         | _, _ => .error .typeError)
      | n, .ref x =>
        (match h.get? x, toInt? n with
         | some (.list xs), some k =>
           let (h', addr) := h.alloc (.list (repList xs k))
           .ok (.ref addr, h')
         | _, _ => .error .typeError)
      | .opaque _, _ => U "mul-opaque"
      | _, .opaque _ => U "mul-opaque"
      | _, _ => .error .typeError

/-- does `s` look like something `Decimal(str)` may accept in a form the model does not parse? -/
def decStrExotic (s : List Char) : Bool :=
  s.any (fun c => c.toNat ≥ 128 || c == '_' || c == 'i' || c == 'I' || c == 'n' || c == 'N'
                  || c == 's' || c == 'S' || c == 'e' || c == 'E' || Str.isSpace c)

/-- `Decimal(text)` for `[+-]digits[.digits]` / `[+-].digits` / `[+-]digits.` -/
def decOfStr (s : List Char) : R Dec :=
  let (neg, body) : Bool × List Char := match s with
    | '-' :: r => (true, r)
    | '+' :: r => (false, r)
    | r => (false, r)
  let ok (cs : List Char) : Bool := cs.all (fun c => '0' ≤ c ∧ c ≤ '9')
  let (ip, fp) := Dec.splitDot body
  let fp' := fp.getD []
  if decStrExotic s then U "Decimal(str)"
  else if ok ip ∧ ok fp' ∧ ¬ (ip.isEmpty ∧ fp'.isEmpty) then
    match Dec.ofLiteral ip fp' with
    | some d => .ok { d with neg := neg }
    | none => .error (.decimal .invalidOperation)
  else .error (.decimal .invalidOperation)

/-- `Decimal(v)` as the constructor behaves -/
def decCtor : Val → R Dec
  | .dec d _ => .ok d
  | .int i => .ok (Dec.ofInt i)
  | .bool b => .ok (Dec.ofInt (boolInt b))
  | .str s => decOfStr s
  | .tuple _ => U "Decimal(tuple)"
  | .ref _ => U "Decimal(list)"
  | .opaque _ => U "Decimal(opaque)"
  | _ => .error .typeError

/-- `Decimal(a) ** Decimal(b)` where the model can say what the result is: integral exponent
    `n ≥ 0` and an exact result of at most 28 digits.  Everything else is `unmodelled`. -/
def decPow (x y : Dec) : R Val :=
  if ¬ y.isIntegral then U "pow-frac"
  else
    let n := y.toInt
    if n < 0 then U "pow-neg"
    else if n > 200 then U "pow-big"
    else if x.coeff = 0 ∧ n = 0 then .error (.decimal .invalidOperation)
    else if x.coeff = 0 then
      -- 0 ** n (n > 0): a zero with exponent 0, negative iff the base is -0 and n is odd
      if y.exp ≠ 0 ∨ y.neg then U "pow-exp-form"
      else .ok (.dec { neg := x.neg && n % 2 = 1, coeff := 0, exp := 0 } false)
    else
      let c := x.coeff ^ n.toNat
      if Dec.ndigits c > Dec.prec then U "pow-inexact"
      else if y.exp ≠ 0 ∨ y.neg then U "pow-exp-form"
      else liftDec (Dec.fix { neg := x.neg && n % 2 = 1, coeff := c, exp := x.exp * n })

def pyNeg : Val → R Val
  | .dec d _ => liftDec (Dec.neg' d)
  | .int i => .ok (.int (-i))
  | .bool b => .ok (.int (-(boolInt b)))
  | .opaque _ => U "neg-opaque"
  | _ => .error .typeError

/-! ### sequences: index normalisation and slicing -/

/-- Python index normalisation for a sequence of length `n` -/
def normIndex (n : Nat) (i : Int) : Option Nat :=
  let j := if i < 0 then i + n else i
  if 0 ≤ j ∧ j < n then some j.toNat else none

def clampI (lo hi x : Int) : Int := max lo (min hi x)

/-- indices selected by `slice(a, b, c)` on a sequence of length `n` (`slice.indices`) -/
def sliceIndices (n : Nat) (a b c : Option Int) : R (List Nat) :=
  let step := c.getD 1
  if step = 0 then .error .valueError
  else
    let len : Int := n
    let lower : Int := if step < 0 then -1 else 0
    let upper : Int := if step < 0 then len - 1 else len
    let norm (x : Int) : Int := if x < 0 then max (x + len) lower else min x upper
    let start := match a with | none => (if step < 0 then upper else lower) | some x => norm x
    let stop := match b with | none => (if step < 0 then lower else upper) | some x => norm x
    let count : Nat :=
      if step > 0 then (if start < stop then ((stop - start - 1) / step + 1).toNat else 0)
      else (if start > stop then ((start - stop - 1) / (-step) + 1).toNat else 0)
    .ok ((List.range count).map (fun (k : Nat) => (start + step * (k : Int)).toNat))

def pick {α : Type} (xs : List α) (idx : List Nat) : List α := idx.filterMap (fun i => xs[i]?)

/-! ### deepcopy -/

/-- `copy.deepcopy(v)` with memo: lists and dicts are copied once per object (internal sharing and
    cycles preserved), everything else is returned as is (immutable or copied by reference). -/
def deepcopy : Nat → Heap → List (Nat × Nat) → Val → Option (Val × Heap × List (Nat × Nat))
  | 0, _, _, _ => none
  | f + 1, h, memo, v =>
    match v with
    | .tuple vs =>
      match copyList f h memo vs with
      | some (vs', h', memo') => some (.tuple vs', h', memo')
      | none => none
    | .ref a =>
      match memo.find? (fun p => p.1 == a) with
      | some p => some (.ref p.2, h, memo)
      | none =>
        match h.get? a with
        | some (.list xs) =>
          let (h1, a') := h.alloc (.list [])
          (match copyList f h1 ((a, a') :: memo) xs with
           | some (xs', h2, memo') => some (.ref a', h2.set a' (.list xs'), memo')
           | none => none)
        | some (.dict kvs) =>
          let (h1, a') := h.alloc (.dict [])
          (match copyList f h1 ((a, a') :: memo) (kvs.map (·.2)) with
           | some (vs', h2, memo') => some (.ref a', h2.set a' (.dict ((kvs.map (·.1)).zip vs')), memo')
           | none => none)
        | none => none
    | v => some (v, h, memo)
where
  copyList : Nat → Heap → List (Nat × Nat) → List Val → Option (List Val × Heap × List (Nat × Nat))
    | 0, _, _, _ => none
    | _ + 1, h, memo, [] => some ([], h, memo)
    | f + 1, h, memo, x :: xs =>
      match deepcopy f h memo x with
      | none => none
      | some (x', h', memo') =>
        match copyList f h' memo' xs with
        | some (xs', h'', memo'') => some (x' :: xs', h'', memo'')
        | none => none

def heapWeight (h : Heap) : Nat :=
  h.foldl (fun n o => n + 2 + match o with | .list xs => xs.length | .dict kvs => kvs.length) 0

def deepcopy' (h : Heap) (v : Val) : R (Val × Heap) :=
  match deepcopy (heapWeight h + 64) h [] v with
  | some (v', h', _) => .ok (v', h')
  | none => U "deepcopy"

end Sq
