/-
  Sq/Str.lean — Python `str` primitives on `List Char` that the lexer and the builtins use.
  Everything is total and structurally recursive.  Case mapping / whitespace are modelled for
  ASCII and the Cyrillic block U+0400–U+045F only (`known`); callers return `unmodelled`
  for other characters where the classification matters.
-/
namespace Sq
namespace Str

abbrev S := List Char

/-- `s.startswith(p)` -/
def startsWith : S → S → Bool
  | _, [] => true
  | [], _ :: _ => false
  | c :: cs, p :: ps => c == p && startsWith cs ps

def endsWith (s p : S) : Bool := startsWith s.reverse p.reverse

/-- `str.replace(old, new, count)` for non-empty `old` (`cnt = none`: all occurrences).
    `skip` = characters of the current occurrence still to be dropped. -/
def replaceGo (old new : S) : Nat → Option Nat → S → S
  | _, _, [] => []
  | k + 1, cnt, _ :: cs => replaceGo old new k cnt cs
  | 0, cnt, c :: cs =>
    if cnt == some 0 then c :: cs
    else if startsWith (c :: cs) old then
      new ++ replaceGo old new (old.length - 1) (cnt.map (· - 1)) cs
    else c :: replaceGo old new 0 cnt cs

/-- `str.replace("", new, count)` -/
def replaceEmpty (new : S) : Option Nat → S → S
  | cnt, [] => if cnt == some 0 then [] else new
  | cnt, c :: cs => if cnt == some 0 then c :: cs else new ++ c :: replaceEmpty new (cnt.map (· - 1)) cs

def replace (s old new : S) (cnt : Option Nat) : S :=
  match old with
  | [] => replaceEmpty new cnt s
  | _ :: _ => replaceGo old new 0 cnt s

/-- `sub in s` -/
def contains : S → S → Bool
  | [], sub => sub.isEmpty
  | c :: cs, sub => startsWith (c :: cs) sub || contains cs sub

/-- `s.split(sep, maxsplit)` for non-empty `sep`; `maxsplit = none` is unlimited.
    `cur` accumulates (reversed) the piece being built. -/
def splitGo (sep : S) : Nat → Option Nat → S → S → List S
  | _, _, cur, [] => [cur.reverse]
  | k + 1, m, cur, _ :: cs => splitGo sep k m cur cs
  | 0, m, cur, c :: cs =>
    if m == some 0 then [cur.reverse ++ c :: cs]
    else if startsWith (c :: cs) sep then
      cur.reverse :: splitGo sep (sep.length - 1) (m.map (· - 1)) [] cs
    else splitGo sep 0 m (c :: cur) cs

/-- a pending skip at the end of input would mean a separator matched beyond the end: impossible,
    `startsWith` guarantees the characters are there. -/
def split (s sep : S) (maxsplit : Option Nat) : List S := splitGo sep 0 maxsplit [] s

def join (sep : S) : List S → S
  | [] => []
  | [x] => x
  | x :: y :: r => x ++ sep ++ join sep (y :: r)

def known (c : Char) : Bool := c.toNat < 128 || (0x400 ≤ c.toNat && c.toNat ≤ 0x45F)
def allKnown (s : S) : Bool := s.all known

def lowerChar (c : Char) : Char :=
  if c.toNat < 128 then c.toLower
  else if 0x410 ≤ c.toNat ∧ c.toNat ≤ 0x42F then Char.ofNat (c.toNat + 0x20)
  else if 0x400 ≤ c.toNat ∧ c.toNat ≤ 0x40F then Char.ofNat (c.toNat + 0x50)
  else c

def upperChar (c : Char) : Char :=
  if c.toNat < 128 then c.toUpper
  else if 0x430 ≤ c.toNat ∧ c.toNat ≤ 0x44F then Char.ofNat (c.toNat - 0x20)
  else if 0x450 ≤ c.toNat ∧ c.toNat ≤ 0x45F then Char.ofNat (c.toNat - 0x50)
  else c

def lower (s : S) : S := s.map lowerChar
def upper (s : S) : S := s.map upperChar

/-- Python's `str.isspace` restricted to the known alphabet -/
def isSpace (c : Char) : Bool :=
  let n := c.toNat
  n == 32 || (9 ≤ n && n ≤ 13) || (28 ≤ n && n ≤ 31)

def lstripBy (p : Char → Bool) : S → S
  | [] => []
  | c :: cs => if p c then lstripBy p cs else c :: cs

def stripBy (p : Char → Bool) (s : S) : S := (lstripBy p (lstripBy p s).reverse).reverse
def rstripBy (p : Char → Bool) (s : S) : S := (lstripBy p s.reverse).reverse

def strip (s : S) : S := stripBy isSpace s
def rstrip (s : S) : S := rstripBy isSpace s

def hexDigit (n : Nat) : Char :=
  if n < 10 then Char.ofNat (48 + n) else Char.ofNat (87 + n)

end Str
end Sq
