/-
  Sq/Dec.lean — model of CPython's `decimal.Decimal` under the default context
  (prec 28, ROUND_HALF_EVEN, Emin -999999, Emax 999999, traps InvalidOperation,
  DivisionByZero, Overflow), finite numbers only.  Transcribed from `_pydecimal.py`
  with digit strings replaced by natural-number coefficients: `s[:k]` / rounding on
  digit strings become `/ 10^k`, `% 10^k`.  No imports outside core Lean.
-/
namespace Sq

/-- A finite decimal: (-1)^neg * coeff * 10^exp. -/
structure Dec where
  neg : Bool
  coeff : Nat
  exp : Int
  deriving DecidableEq, Repr, Inhabited

/-- Arithmetic signals that the default context traps (they surface as Python exceptions). -/
inductive DecSignal
  | overflow | divisionByZero | invalidOperation
  deriving DecidableEq, Repr

namespace Dec

def prec : Nat := 28
def emax : Int := 999999
def emin : Int := -999999
def etiny : Int := emin - (prec : Int) + 1     -- -1000026
def etop : Int := emax - (prec : Int) + 1      --  999972

/-- number of decimal digits of `n`, with `ndigits 0 = 1` (as `len(str(n))`). -/
def ndigitsAux : Nat → Nat → Nat
  | 0, _ => 1
  | fuel + 1, n => if n < 10 then 1 else ndigitsAux fuel (n / 10) + 1

def ndigits (n : Nat) : Nat := ndigitsAux n n

def digits (d : Dec) : Nat := ndigits d.coeff

def isZero (d : Dec) : Bool := d.coeff == 0

/-- `len(_int) + _exp - 1` -/
def adjusted (d : Dec) : Int := (ndigits d.coeff : Int) + d.exp - 1

inductive Rounding | halfEven | floor | ceiling | down
  deriving DecidableEq, Repr

/-- Drop the last `k` decimal digits of `c` (the coefficient of a number of sign `neg`)
    rounding as `mode` says; numeric form of `_round_*` + `coeff[:digits]`. -/
def roundDiv (mode : Rounding) (neg : Bool) (c : Nat) (k : Nat) : Nat :=
  let p := 10 ^ k
  let q := c / p
  let r := c % p
  match mode with
  | .halfEven => if 2 * r > p then q + 1 else if 2 * r = p ∧ q % 2 = 1 then q + 1 else q
  | .down => q
  | .floor => if neg ∧ r ≠ 0 then q + 1 else q
  | .ceiling => if ¬ neg ∧ r ≠ 0 then q + 1 else q

/-- `Decimal._rescale(exp, rounding)`: quiet, no context. -/
def rescale (d : Dec) (e : Int) (mode : Rounding) : Dec :=
  if d.coeff = 0 then { d with exp := e }
  else if d.exp ≥ e then { d with coeff := d.coeff * 10 ^ (d.exp - e).toNat, exp := e }
  else { d with coeff := roundDiv mode d.neg d.coeff (e - d.exp).toNat, exp := e }

/-- `Decimal._fix(context)` for the default context. -/
def fix (d : Dec) : Except DecSignal Dec :=
  if d.coeff = 0 then
    .ok { d with exp := min (max d.exp etiny) emax }
  else
    let expMin0 : Int := (ndigits d.coeff : Int) + d.exp - prec
    if expMin0 > etop then .error .overflow
    else
      let expMin := max expMin0 etiny
      if d.exp < expMin then
        let q := roundDiv .halfEven d.neg d.coeff (expMin - d.exp).toNat
        if ndigits q > prec then
          if expMin + 1 > etop then .error .overflow
          else .ok { d with coeff := q / 10, exp := expMin + 1 }
        else .ok { d with coeff := q, exp := expMin }
      else .ok d

/-- exact sum (aligned to the smaller exponent); zero results take Python's sign rule. -/
def addExact (a b : Dec) : Dec :=
  let e := min a.exp b.exp
  let ca : Int := (if a.neg then -1 else 1) * ((a.coeff * 10 ^ (a.exp - e).toNat : Nat) : Int)
  let cb : Int := (if b.neg then -1 else 1) * ((b.coeff * 10 ^ (b.exp - e).toNat : Nat) : Int)
  let s := ca + cb
  if s = 0 then { neg := a.neg && b.neg, coeff := 0, exp := e }
  else { neg := decide (s < 0), coeff := s.natAbs, exp := e }

def add (a b : Dec) : Except DecSignal Dec := fix (addExact a b)

def negate (a : Dec) : Dec := { a with neg := !a.neg }

def sub (a b : Dec) : Except DecSignal Dec := add a (negate b)

def mulExact (a b : Dec) : Dec :=
  { neg := a.neg != b.neg, coeff := a.coeff * b.coeff, exp := a.exp + b.exp }

def mul (a b : Dec) : Except DecSignal Dec := fix (mulExact a b)

/-- strip factors of ten while `exp < ideal` (the "ideal exponent" loop of `__truediv__`). -/
def stripTo : Nat → Nat → Int → Int → Nat × Int
  | 0, c, e, _ => (c, e)
  | fuel + 1, c, e, ideal =>
    if e < ideal ∧ c % 10 = 0 ∧ c ≠ 0 then stripTo fuel (c / 10) (e + 1) ideal else (c, e)

def divPre (a b : Dec) : Dec :=
  let sign := a.neg != b.neg
  if a.coeff = 0 then { neg := sign, coeff := 0, exp := a.exp - b.exp }
  else
    let shift : Int := (ndigits b.coeff : Int) - (ndigits a.coeff : Int) + prec + 1
    let e : Int := a.exp - b.exp - shift
    let num := if shift ≥ 0 then a.coeff * 10 ^ shift.toNat else a.coeff
    let den := if shift ≥ 0 then b.coeff else b.coeff * 10 ^ (-shift).toNat
    let q := num / den
    let r := num % den
    if r ≠ 0 then
      { neg := sign, coeff := if q % 5 = 0 then q + 1 else q, exp := e }
    else
      let (c, e') := stripTo (ndigits q) q e (a.exp - b.exp)
      { neg := sign, coeff := c, exp := e' }

def div (a b : Dec) : Except DecSignal Dec :=
  if b.coeff = 0 then
    if a.coeff = 0 then .error .invalidOperation else .error .divisionByZero
  else fix (divPre a b)

/-- `__neg__`: -0 becomes +0; then `_fix`. -/
def neg' (a : Dec) : Except DecSignal Dec :=
  if a.coeff = 0 then fix { a with neg := false } else fix (negate a)

/-- `__pos__` -/
def pos' (a : Dec) : Except DecSignal Dec :=
  if a.coeff = 0 then fix { a with neg := false } else fix a

/-- `__abs__` -/
def abs' (a : Dec) : Except DecSignal Dec :=
  if a.neg then neg' a else pos' a

/-- signed integer scaled comparison key: compare a and b exactly. -/
def cmp (a b : Dec) : Ordering :=
  let e := min a.exp b.exp
  let ca : Int := (if a.neg then -1 else 1) * ((a.coeff * 10 ^ (a.exp - e).toNat : Nat) : Int)
  let cb : Int := (if b.neg then -1 else 1) * ((b.coeff * 10 ^ (b.exp - e).toNat : Nat) : Int)
  compare ca cb

def eq (a b : Dec) : Bool := cmp a b == .eq
def lt (a b : Dec) : Bool := cmp a b == .lt
def le (a b : Dec) : Bool := cmp a b != .gt

/-- `__int__`: truncation toward zero. -/
def toInt (a : Dec) : Int :=
  let m : Nat := if a.exp ≥ 0 then a.coeff * 10 ^ a.exp.toNat else a.coeff / 10 ^ (-a.exp).toNat
  if a.neg then -(m : Int) else m

/-- `int(self._rescale(0, mode))` -/
def toIntRound (a : Dec) (mode : Rounding) : Int := toInt (rescale a 0 mode)

def ofInt (i : Int) : Dec := { neg := decide (i < 0), coeff := i.natAbs, exp := 0 }

/-- value is an integer -/
def isIntegral (a : Dec) : Bool :=
  a.exp ≥ 0 || a.coeff % 10 ^ (-a.exp).toNat == 0

/-- `quantize(Decimal(1).scaleb(-n))` = `quantize(1E-n)` under the default context. -/
def quantize (a : Dec) (e : Int) : Except DecSignal Dec :=
  if ¬ (etiny ≤ e ∧ e ≤ emax) then .error .invalidOperation
  else if a.coeff = 0 then fix { a with exp := e }
  else if adjusted a > emax then .error .invalidOperation
  else if adjusted a - e + 1 > prec then .error .invalidOperation
  else
    let ans := rescale a e .halfEven
    if adjusted ans > emax then .error .invalidOperation
    else if ndigits ans.coeff > prec then .error .invalidOperation
    else fix ans

/-! ### text -/

def digitChar (n : Nat) : Char := Char.ofNat (48 + n % 10)

def natDigitsAux : Nat → Nat → List Char → List Char
  | 0, _, acc => acc
  | fuel + 1, n, acc =>
    if n < 10 then digitChar n :: acc else natDigitsAux fuel (n / 10) (digitChar (n % 10) :: acc)

/-- decimal digits of a natural number (`str(n)`). -/
def natDigits (n : Nat) : List Char := natDigitsAux (n + 1) n []

def intDigits (i : Int) : List Char :=
  if i < 0 then '-' :: natDigits i.natAbs else natDigits i.natAbs

/-- `Decimal.__str__` (scientific notation, capitals = 1). -/
def toStr (d : Dec) : List Char :=
  let ds := natDigits d.coeff
  let n : Int := ds.length
  let leftdigits : Int := d.exp + n
  let dotplace : Int := if d.exp ≤ 0 ∧ leftdigits > -6 then leftdigits else 1
  let body : List Char :=
    if dotplace ≤ 0 then
      '0' :: '.' :: (List.replicate (-dotplace).toNat '0' ++ ds)
    else if dotplace ≥ n then
      ds ++ List.replicate (dotplace - n).toNat '0'
    else
      ds.take dotplace.toNat ++ '.' :: ds.drop dotplace.toNat
  let ex : List Char :=
    if leftdigits = dotplace then []
    else
      let k := leftdigits - dotplace
      'E' :: (if k < 0 then '-' else '+') :: natDigits k.natAbs
  (if d.neg then ['-'] else []) ++ body ++ ex

/-- value of a decimal digit character: ASCII or Arabic-Indic (the two digit ranges the
    lexer model classifies). -/
def digitVal? (c : Char) : Option Nat :=
  if '0' ≤ c ∧ c ≤ '9' then some (c.toNat - 48)
  else if 0x660 ≤ c.toNat ∧ c.toNat ≤ 0x669 then some (c.toNat - 0x660)
  else none

def digitsVal? : List Char → Nat → Option Nat
  | [], acc => some acc
  | c :: cs, acc => match digitVal? c with
    | some v => digitsVal? cs (acc * 10 + v)
    | none => none

/-- `Decimal(text)` for a NUMBER lexeme `digits` or `digits.digits`: exact, never rounded. -/
def ofLiteral (ip fp : List Char) : Option Dec :=
  match digitsVal? (ip ++ fp) 0 with
  | some c => some { neg := false, coeff := c, exp := -(fp.length : Int) }
  | none => none

/-- split at the first `.` -/
def splitDot : List Char → List Char × Option (List Char)
  | [] => ([], none)
  | c :: cs => if c = '.' then ([], some cs) else
      let (a, b) := splitDot cs
      (c :: a, b)

def ofLexeme (s : List Char) : Option Dec :=
  match splitDot s with
  | (ip, none) => ofLiteral ip []
  | (ip, some fp) => ofLiteral ip fp

end Dec
end Sq
