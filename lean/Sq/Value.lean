/-
  Sq/Value.lean — value domain, heap, errors, VM states (DESIGN.md §2.2).
-/
import Sq.Ast
namespace Sq

/-- Python exception classes the model distinguishes.  There is deliberately no constructor
    for a non-`Exception` `BaseException`. -/
inductive PyErr
  | parser (msg : String)          -- smartquery.exceptions.ParserError
  | opsLimit (max : Nat)           -- OpsExecutionLimitExceededError (subclass of ParserError)
  | typeError | valueError | keyError | indexError | attributeError | zeroDivision
  | decimal (sig : DecSignal)      -- decimal.Overflow / DivisionByZero / InvalidOperation
  | unmodelled (why : String)      -- the model does not know what Python does here
  deriving DecidableEq, Repr, Inhabited

def PyErr.cls : PyErr → String
  | .parser _ => "parser" | .opsLimit _ => "opslimit"
  | .typeError => "TypeError" | .valueError => "ValueError" | .keyError => "KeyError"
  | .indexError => "IndexError" | .attributeError => "AttributeError"
  | .zeroDivision => "ZeroDivisionError"
  | .decimal .overflow => "Overflow" | .decimal .divisionByZero => "DivisionByZero"
  | .decimal .invalidOperation => "InvalidOperation"
  | .unmodelled w => "U:" ++ w

/-- is this error a language-level ParserError (or its ops-limit subclass)? -/
def PyErr.isParserError : PyErr → Bool
  | .parser _ => true | .opsLimit _ => true | _ => false

inductive Val
  | none
  | bool (b : Bool)
  | dec (d : Dec) (custom : Bool)     -- custom: smartquery.custom_types.Decimal vs decimal.Decimal
  | int (i : Int)                     -- a Python int (host-supplied, or from len/index_of/…)
  | str (s : List Char)
  | tuple (vs : List Val)
  | slice (a b c : Option Int)
  | ref (addr : Nat)                  -- a list or dict object in the heap
  | builtin (name : String)           -- an entry of FUNCTIONS
  | closure (params : List Op) (body : Op) (vm : Nat)
  | host (id : String)                -- one of the harness' host functions
  | opaque (kind : String)            -- a Python object that is NOT plain data
  deriving Repr, Inhabited

inductive HObj
  | list (xs : List Val)
  | dict (kvs : List (Val × Val))     -- insertion-ordered
  deriving Repr, Inhabited

/-- the heap: allocation = push, address = index, nothing is ever freed -/
abbrev Heap := Array HObj

def Heap.alloc (h : Heap) (o : HObj) : Heap × Nat := (h.push o, h.size)

def Heap.get? (h : Heap) (a : Nat) : Option HObj := h[a]?

def Heap.set (h : Heap) (a : Nat) (o : HObj) : Heap := h.setIfInBounds a o

/-- one VM state (`VMState`): its scope stack above the builtins (top first; heap addresses of
    dicts; the last entry is the host's names mapping) and its op counter.  The budget
    (`max_ops_evaluated`) is kept *outside* the world, in `Cfg.budgets`, so that the only code
    that can read it is the charge-and-compare in `step` — by typing. -/
structure VM where
  scopes : List Nat
  ops : Nat
  deriving Repr, Inhabited

inductive Event
  | probe (arg : Val)                 -- a host probe was called
  | caught (cls : String)             -- try_apply swallowed an exception of this class
  deriving Repr, Inhabited

end Sq
