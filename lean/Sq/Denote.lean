/-
  Sq/Denote.lean — a compositional (big-step) reference semantics of the language, written independently of the abstract
  machine of Sq/Machine.lean: the meaning of a node is a function of the meanings of its children.

  `evalOp B fuel op vmi w` evaluates the node `op` for the VM state `vmi` (budgets `B`) in world `w` and yields
  `some (outcome, world')` — the value returned or the error raised, and the world afterwards — or `none` when `fuel`
  (a bound on the nesting of the recursion, not part of the language) does not suffice.  The clauses read like the
  language manual: every node evaluation is charged first; `and` / `or` / if-else evaluate lazily; binary operators, call
  arguments, dict parts and slice bounds evaluate left to right; an error raised by a child propagates (`andThen`);
  a lambda call binds its parameters in a fresh scope on the VM the lambda was created on and pops it whether the body
  returns or raises; map / filter / reduce / sorted apply their callback to one element after the other.
  The leaf actions (operators, casts, deep copies, scope reads and writes, the pure builtins) are the functions of
  Sq/Prim.lean and Sq/Builtins.lean, shared with the machine.
  SqLemmas/DenoteSound.lean proves: whenever `evalOp` yields an outcome, the machine, started on the same node, reaches
  exactly that outcome and world.
-/
import Sq.Machine
namespace Sq.Den

inductive Out
  | ret (v : Val)
  | raise (e : PyErr)
  deriving Repr, Inhabited

abbrev Res := Option (Out × World)

/-- sequencing: continue with the value; an error (or lack of fuel) propagates -/
@[inline] def andThen (r : Res) (f : Val → World → Res) : Res :=
  match r with
  | some (.ret v, w) => f v w
  | some (.raise e, w) => some (.raise e, w)
  | none => none

def litVal : Lit → Val
  | .none => .none
  | .bool b => .bool b
  | .num d => .dec d true
  | .str s => .str s

/-! ### leaf actions -/

def ofR {α} (r : R α) (w : World) (f : α → Out × World) : Out × World :=
  match r with
  | .error e => (.raise e, w)
  | .ok a => f a

/-- reading a name: innermost scope first, the builtins last -/
def nameAct (n : Name) (vmi : Nat) (w : World) : Out × World :=
  match w.vm? vmi with
  | none => (.raise (.unmodelled "vm"), w)
  | some vm => match lookupName w.heap vm.scopes n with
    | some v => (.ret v, w)
    | none => (.raise (.parser "Undefined variable"), w)

def binAct (bk : BinK) (va vb : Val) (w : World) : Out × World :=
  match applyBin w bk va vb with
  | .ok (r, w') => (.ret r, w')
  | .error e => (.raise e, w)

def unAct (uk : UnK) (v : Val) (w : World) : Out × World :=
  match applyUn w uk v with
  | .ok r => (.ret r, w)
  | .error e => (.raise e, w)

/-- `n = v`: store a deep copy in the top scope; the statement yields None -/
def assignAct (n : Name) (vmi : Nat) (v : Val) (w : World) : Out × World :=
  match deepcopy' w.heap v with
  | .error e => (.raise e, w)
  | .ok (v', h') =>
    match w.vm? vmi with
    | none => (.raise (.unmodelled "vm"), w)
    | some vm => match writeTop h' vm.scopes n v' with
      | some h'' => (.ret .none, { w with heap := h'' })
      | none => (.raise (.unmodelled "scope"), w)

/-- `n op= v`: deep copy, read the current binding, apply the in-place operator, store in the top scope -/
def shortAct (n : Name) (sk : ShortK) (vmi : Nat) (v : Val) (w : World) : Out × World :=
  match deepcopy' w.heap v with
  | .error e => (.raise e, w)
  | .ok (v', h') =>
    match w.vm? vmi with
    | none => (.raise (.unmodelled "vm"), w)
    | some vm =>
      match lookupName h' vm.scopes n with
      | none => (.raise (.parser "Undefined variable"), w)
      | some cur =>
        match pyInplace { heap := h', rng := w.rng, rx := w.rx } sk cur v' with
        | .error e => (.raise e, w)
        | .ok (nv, s) =>
          match writeTop s.heap vm.scopes n nv with
          | some h'' => (.ret .none, { w with heap := h'' })
          | none => (.raise (.unmodelled "scope"), w)

/-- a dict literal from its evaluated parts k₁, v₁, k₂, v₂, … -/
def dictAct (parts : List Val) (w : World) : Out × World :=
  match buildDict w.heap parts [] with
  | .error e => (.raise e, w)
  | .ok kvs => (.ret (.ref (w.heap.alloc (.dict kvs)).2), { w with heap := (w.heap.alloc (.dict kvs)).1 })

def pureAct (name : String) (args : List Val) (w : World) : Out × World :=
  match callPure name args w.bstate with
  | .ok (v, s) => (.ret v, w.withB s)
  | .error e => (.raise e, w)

def probeAct (args : List Val) (w : World) : Out × World :=
  match args with
  | [a] =>
    let w' := { w with log := .probe a :: w.log }
    let key? : Option Int := match a with
      | .dec d _ => if d.isIntegral then some d.toInt else none
      | .int i => some i
      | _ => none
    let act? : Option ProbeAct := key?.bind (fun i => (w.probes.find? (fun p => p.1 == i)).map (·.2))
    (match act? with
     | some (ProbeAct.ret v) => (.ret v, w')
     | some (ProbeAct.raise e) => (.raise e, w')
     | none => (.ret a, w'))
  | _ => (.raise .typeError, w)

def sortAct (keys items : List Val) (rev dictMode : Bool) (w : World) : Out × World :=
  match sortedBy w.heap keys items rev with
  | .error e => (.raise e, w)
  | .ok sorted =>
    if dictMode then
      let kvs := sorted.filterMap (fun v => match v with | .tuple [a, b] => some (a, b) | _ => none)
      (.ret (.ref (w.heap.alloc (.dict kvs)).2), { w with heap := (w.heap.alloc (.dict kvs)).1 })
    else
      (.ret (.ref (w.heap.alloc (.list sorted)).2), { w with heap := (w.heap.alloc (.list sorted)).1 })

/-- what a higher-order builtin does before its first callback: an immediate outcome, or an iteration to run -/
inductive Start
  | now (o : Out) (w : World)
  | iter (kind : IterKind) (g : Val) (src : IterSrc) (acc : List Val)

def mapStart (args : List Val) (w : World) : Start :=
  match args with
  | [c, g] =>
    (match c with
     | .str cs => .iter .map g (.snap (cs.map (fun ch => [Val.str [ch]]))) []
     | .ref a => match w.heap.get? a with
       | some (.list _) => .iter .map g (.live a 0) []
       | some (.dict kvs) => .iter .map g (.snap (kvs.map (fun kv => [kv.1, kv.2]))) []
       | none => .now (.raise (.unmodelled "dangling")) w
     | .opaque _ => .now (.raise (.unmodelled "map-opaque")) w
     | _ => .now (.raise (.parser "not a string, list or dict")) w)
  | _ => .now (.raise .typeError) w

def filterStart (args : List Val) (w : World) : Start :=
  match args with
  | [c, .none] =>
    (match c with
     | .ref a => match w.heap.get? a with
       | some (.list xs) =>
         .now (.ret (.ref (w.heap.alloc (.list (xs.filter (truthy w.heap)))).2))
           { w with heap := (w.heap.alloc (.list (xs.filter (truthy w.heap)))).1 }
       | _ => .now (.raise (.parser "not a list")) w
     | .opaque _ => .now (.raise (.unmodelled "filter-opaque")) w
     | _ => .now (.raise (.parser "not a list")) w)
  | [c, g] =>
    (match c with
     | .ref a => match w.heap.get? a with
       | some (.list _) => .iter .filter g (.live a 0) []
       | _ => .now (.raise (.parser "not a list")) w
     | .opaque _ => .now (.raise (.unmodelled "filter-opaque")) w
     | _ => .now (.raise (.parser "not a list")) w)
  | _ => .now (.raise .typeError) w

def reduceStart (args : List Val) (w : World) : Start :=
  match args with
  | [c, g] =>
    (match c with
     | .opaque _ => .now (.raise (.unmodelled "reduce-opaque")) w
     | _ =>
       match iterItems w.heap c with
       | .error .typeError => .now (.raise (.parser "not an Iterable")) w
       | .error e => .now (.raise e) w
       | .ok [] => .now (.raise .typeError) w
       | .ok (x :: rest) =>
         let src : IterSrc := match c with
           | .ref a => (match w.heap.get? a with
             | some (.list _) => .live a 1
             | _ => .snap (rest.map (fun v => [v])))
           | _ => .snap (rest.map (fun v => [v]))
         .iter .reduce g src [x])
  | _ => .now (.raise .typeError) w

def sortedStart (args : List Val) (w : World) : Start :=
  match args with
  | c :: rest =>
    if rest.length > 2 then .now (.raise .typeError) w else
    let key := rest.headD .none
    let revV := (rest.drop 1).headD (.bool false)
    let dictMode := isDict w.heap c
    let itemsR : R (List Val) :=
      if dictMode then
        (match c with
         | .ref a => match w.heap.get? a with
           | some (.dict kvs) => .ok (kvs.map (fun kv => .tuple [kv.1, kv.2]))
           | _ => U "dangling"
         | _ => U "dangling")
      else iterItems w.heap c
    (match itemsR, reverseFlag w.heap revV with
     | .error e, _ => .now (.raise e) w
     | _, .error e => .now (.raise e) w
     | .ok items, .ok rev =>
       match key with
       | .none => .now (sortAct items items rev dictMode w).1 (sortAct items items rev dictMode w).2
       | .opaque _ => .now (.raise (.unmodelled "sorted-key-opaque")) w
       | _ =>
         if isCallable key then
           let argsOf (itm : Val) : List Val :=
             if dictMode then (match itm with | .tuple [a, b] => [a, b] | v => [v]) else [itm]
           .iter (.sortKeys items rev dictMode) key (.snap (items.map argsOf)) []
         else if items.isEmpty then .now (sortAct [] [] rev dictMode w).1 (sortAct [] [] rev dictMode w).2
         else .now (.raise .typeError) w)
  | [] => .now (.raise .typeError) w

/-- the arguments the callback gets for `item`, and the accumulator after it returned `v` -/
def cbArgs (kind : IterKind) (acc item : List Val) : List Val :=
  match kind with
  | .reduce => acc.headD .none :: item
  | _ => item

def accAfter (kind : IterKind) (h : Heap) (v cur : Val) (acc : List Val) : List Val :=
  match kind with
  | .map => v :: acc
  | .filter => if truthy h v then cur :: acc else acc
  | .reduce => [v]
  | .sortKeys _ _ _ => v :: acc

/-- the result of an iteration after its last callback -/
def iterDone (kind : IterKind) (acc : List Val) (w : World) : Out × World :=
  match kind with
  | .map | .filter => (.ret (.ref (w.heap.alloc (.list acc.reverse)).2), { w with heap := (w.heap.alloc (.list acc.reverse)).1 })
  | .reduce => (.ret (acc.headD .none), w)
  | .sortKeys items rev dictMode => sortAct acc.reverse items rev dictMode w

/-- leaving the scope of a lambda call (on return and on error alike) -/
def popScope (vmi : Nat) (o : Out) (w : World) : Out × World :=
  match w.vm? vmi with
  | none => (match o with | .ret _ => (.raise (.unmodelled "vm"), w) | .raise e => (.raise e, w))
  | some vm => (o, w.setVM vmi { vm with scopes := vm.scopes.tail })

/-- the host's `try_apply`: an error of the language is caught (logged) and None returned -/
def tryAct (o : Out) (w : World) : Out × World :=
  match o with
  | .ret v => (.ret v, w)
  | .raise e =>
    (match e with
     | .unmodelled _ => (.raise e, w)
     | _ => (.ret .none, { w with log := .caught e.cls :: w.log }))

/-! ### the semantics -/

variable (B : List Nat)

mutual
/-- the meaning of a node -/
def evalOp : Nat → Op → Nat → World → Res
  | 0, _, _, _ => none
  | f + 1, op, vmi, w0 =>
    -- every node evaluation is charged first; at the limit nothing of the node happens
    match charge w0 B vmi with
    | none => some (.raise (.unmodelled "vm"), w0)
    | some (w, some m) => some (.raise (.opsLimit m), w)
    | some (w, none) =>
      match op with
      | .noop => some (.ret .none, w)
      | .value l => some (.ret (litVal l), w)
      | .code [] => some (.ret .none, w)
      | .code (l :: rest) => evalLines f l rest vmi w
      | .bin bk a b =>
        andThen (evalOp f a vmi w) fun va w1 =>
          match bk with
          | .and => if truthy w1.heap va then evalOp f b vmi w1 else some (.ret va, w1)
          | .or => if truthy w1.heap va then some (.ret va, w1) else evalOp f b vmi w1
          | _ => andThen (evalOp f b vmi w1) fun vb w2 => some (binAct bk va vb w2)
      | .unary uk a => andThen (evalOp f a vmi w) fun v w1 => some (unAct uk v w1)
      | .assign n a => andThen (evalOp f a vmi w) fun v w1 => some (assignAct n vmi v w1)
      | .short n sk a => andThen (evalOp f a vmi w) fun v w1 => some (shortAct n sk vmi v w1)
      | .name n => some (nameAct n vmi w)
      | .ifx c a b =>
        andThen (evalOp f c vmi w) fun vc w1 => if truthy w1.heap vc then evalOp f a vmi w1 else evalOp f b vmi w1
      | .slice a b c =>
        andThen (evalOp f a vmi w) fun va w1 =>
          match safeCastInt va with
          | .error e => some (.raise e, w1)
          | .ok xa =>
            andThen (evalOp f b vmi w1) fun vb w2 =>
              match safeCastInt vb with
              | .error e => some (.raise e, w2)
              | .ok xb =>
                andThen (evalOp f c vmi w2) fun vc w3 =>
                  match safeCastInt vc with
                  | .error e => some (.raise e, w3)
                  | .ok xc => some (.ret (.slice xa xb xc), w3)
      | .call n args =>
        match evalList f args vmi w with
        | none => none
        | some (.error e, w1) => some (.raise e, w1)
        | some (.ok vs, w1) =>
          -- the callee is looked up AFTER the arguments
          match w1.vm? vmi with
          | none => some (.raise (.unmodelled "vm"), w1)
          | some vm => match lookupName w1.heap vm.scopes n with
            | none => some (.raise (.parser "Undefined function"), w1)
            | some fn => applyVal f callFuel fn vs w1
      | .dict parts =>
        match evalList f parts vmi w with
        | none => none
        | some (.error e, w1) => some (.raise e, w1)
        | some (.ok vs, w1) => some (dictAct vs w1)
      | .lambda ps body => some (.ret (.closure ps body vmi), w)

/-- statements one after the other; the value of the last one is the value of the block -/
def evalLines : Nat → Op → List Op → Nat → World → Res
  | 0, _, _, _, _ => none
  | f + 1, l, rest, vmi, w =>
    andThen (evalOp f l vmi w) fun v w1 =>
      match rest with
      | [] => some (.ret v, w1)
      | l' :: rest' => evalLines f l' rest' vmi w1

/-- expressions left to right, each in the world its predecessor left -/
def evalList : Nat → List Op → Nat → World → Option (Except PyErr (List Val) × World)
  | 0, _, _, _ => none
  | _ + 1, [], _, w => some (.ok [], w)
  | f + 1, a :: rest, vmi, w =>
    match evalOp f a vmi w with
    | none => none
    | some (.raise e, w1) => some (.error e, w1)
    | some (.ret v, w1) =>
      match evalList f rest vmi w1 with
      | none => none
      | some (.error e, w2) => some (.error e, w2)
      | some (.ok vs, w2) => some (.ok (v :: vs), w2)

/-- applying a function value to evaluated arguments (`tf` bounds chains of host trampolines apply(apply(…))) -/
def applyVal : Nat → Nat → Val → List Val → World → Res
  | 0, _, _, _, _ => none
  | _ + 1, 0, _, _, w => some (.raise (.unmodelled "call-fuel"), w)
  | f + 1, tf + 1, fn, args, w =>
    match fn with
    | .closure params body vmi =>
      (match bindParams params args [] with
       | none => some (.raise .attributeError, w)
       | some kvs =>
         match w.vm? vmi with
         | none => some (.raise (.unmodelled "vm"), w)
         | some vm =>
           -- a fresh scope on the VM the lambda was created on; popped whether the body returns or raises
           let w' := ({ w with heap := (w.heap.alloc (.dict kvs)).1 }).setVM vmi
                       { vm with scopes := (w.heap.alloc (.dict kvs)).2 :: vm.scopes }
           match evalOp f body vmi w' with
           | none => none
           | some (o, w1) => some (popScope vmi o w1))
    | .builtin name =>
      if name == "map" then startThen f tf (mapStart args w) w
      else if (args.head?.map isTypeObject).getD false then some (.raise (.unmodelled "type-object-arg"), w)
      else if name == "filter" then startThen f tf (filterStart args w) w
      else if name == "reduce" then startThen f tf (reduceStart args w) w
      else if name == "sorted" then startThen f tf (sortedStart args w) w
      else some (pureAct name args w)
    | .host id =>
      if id == "probe" then some (probeAct args w)
      else if id == "apply" then
        (match args with
         | g :: rest => applyVal f tf g rest w
         | [] => some (.raise .typeError, w))
      else if id == "try_apply" then
        (match args with
         | g :: rest =>
           (match applyVal f tf g rest w with
            | none => none
            | some (o, w1) => some (tryAct o w1))
         | [] => some (.raise .typeError, w))
      else some (.raise (.unmodelled "host"), w)
    | .opaque _ => some (.raise (.unmodelled "call-opaque"), w)
    | _ => some (.raise .typeError, w)

def startThen : Nat → Nat → Start → World → Res
  | 0, _, _, _ => none
  | _ + 1, _, .now o w', _ => some (o, w')
  | f + 1, tf, .iter kind g src acc, w => iterate f tf kind g src acc w

/-- the callbacks of one higher-order call: fetch the next element in the CURRENT world, apply `g`, accumulate -/
def iterate : Nat → Nat → IterKind → Val → IterSrc → List Val → World → Res
  | 0, _, _, _, _, _, _ => none
  | _ + 1, 0, _, _, _, _, w => some (.raise (.unmodelled "call-fuel"), w)
  | f + 1, tf + 1, kind, g, src, acc, w =>
    match nextItem w.heap src with
    | some (item, src') =>
      andThen (applyVal f tf g (cbArgs kind acc item) w) fun v w1 =>
        iterate f callFuel kind g src' (accAfter kind w1.heap v (item.headD .none) acc) w1
    | none => some (iterDone kind acc w)
end


/-! ### a whole `eval` call with AST-supplied names -/

/-- `scoped_names[n] = v`: bound in the top scope (the host's mapping), no copy -/
def astBind (n : Name) (vmi : Nat) (v : Val) (w : World) : Except (Out × World) World :=
  match w.vm? vmi with
  | none => .error (.raise (.unmodelled "vm"), w)
  | some vm => match writeTop w.heap vm.scopes n v with
    | none => .error (.raise (.unmodelled "scope"), w)
    | some h' => .ok { w with heap := h' }

/-- the AST-supplied names (`ast_names`), one after the other, each bound in the top scope; then the program -/
def evalAst (B : List Nat) (f : Nat) : List (Name × Op) → Op → Nat → World → Res
  | [], main, vmi, w => evalOp B f main vmi w
  | (n, op) :: rest, main, vmi, w =>
    andThen (evalOp B f op vmi w) fun v w1 =>
      match astBind n vmi v w1 with
      | .error p => some p
      | .ok w2 => evalAst B f rest main vmi w2

end Sq.Den
