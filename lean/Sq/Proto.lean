/-
  Sq/Proto.lean — line protocol of the model driver (text side): hex coding, S-expressions,
  and the LEX / PARSE / NAMES commands.  Evaluation commands are in Sq/ProtoEval.lean.
-/
import Sq.Parse
namespace Sq
namespace Proto

def hexVal? (c : Char) : Option Nat :=
  if '0' ≤ c ∧ c ≤ '9' then some (c.toNat - 48)
  else if 'a' ≤ c ∧ c ≤ 'f' then some (c.toNat - 87)
  else none

def unhexBytes : List Char → ByteArray → Option ByteArray
  | [], acc => some acc
  | [_], _ => none
  | a :: b :: r, acc =>
    match hexVal? a, hexVal? b with
    | some x, some y => unhexBytes r (acc.push (UInt8.ofNat (x * 16 + y)))
    | _, _ => none

/-- decode the protocol's string coding ("-" is the empty string) -/
def unhex (s : String) : Option (List Char) :=
  if s == "-" then some [] else
  match unhexBytes s.toList ByteArray.empty with
  | some b => (String.fromUTF8? b).map (·.toList)
  | none => none

def hex (s : List Char) : String := if s.isEmpty then "-" else hexOf s

/-! ### S-expressions -/
inductive SExp
  | atom (s : String)
  | list (xs : List SExp)
  deriving Repr, Inhabited

/-- tokenizer: parens and maximal runs of non-blank, non-paren characters -/
def sTokens (cs : List Char) : List String :=
  let rec go : List Char → List Char → List String → List String
    | [], cur, acc => (if cur.isEmpty then acc else String.ofList cur.reverse :: acc).reverse
    | c :: r, cur, acc =>
      if c = '(' ∨ c = ')' then
        let acc' := if cur.isEmpty then acc else String.ofList cur.reverse :: acc
        go r [] (String.singleton c :: acc')
      else if c = ' ' ∨ c = '\n' ∨ c = '\r' ∨ c = '\t' then
        go r [] (if cur.isEmpty then acc else String.ofList cur.reverse :: acc)
      else go r (c :: cur) acc
  go cs [] []

/-- parse a token list with an explicit stack (no recursion on nesting) -/
def sParse (toks : List String) : Option (List SExp) :=
  let rec go : List String → List (List SExp) → Option (List SExp)
    | [], [top] => some top.reverse
    | [], _ => none
    | t :: r, stack =>
      if t == "(" then go r ([] :: stack)
      else if t == ")" then
        match stack with
        | cur :: parent :: rest => go r ((SExp.list cur.reverse :: parent) :: rest)
        | _ => none
      else
        match stack with
        | cur :: rest => go r ((SExp.atom t :: cur) :: rest)
        | [] => none
  go toks [[]]

def sRead (s : String) : Option (List SExp) := sParse (sTokens s.toList)

/-! ### messages as the implementation formats them -/

def tokenText (t : Token) : List Char :=
  match t.ty with
  | .NUMBER => match Dec.ofLexeme t.val with
    | some d => d.toStr
    | none => t.val
  | _ => t.val

def syntaxMessage : List Token → List Char
  | [] => "Syntax error: unexpected end of input".toList
  | t :: _ => "Syntax error: ".toList ++ tokenText t ++ " at line ".toList ++ Dec.natDigits t.line

def reservedMessage (t : Token) : List Char := t.val ++ " is reserved keyword".toList

def illegalMessage (c : Char) : List Char := "Illegal character ".toList ++ [c]

/-- result of `SqParser.parse(text)` in the model -/
inductive ParseOut
  | ok (t : Op)
  | lexErr (c : Char)
  | synErr (pos : Option Nat) (msg : List Char)
  | resErr (msg : List Char)
  | unmodelled (why : String)

def parseText (st : LexSt) (src : List Char) : ParseOut :=
  match lexFrom st src with
  | .error (.illegal c _, _) => .lexErr c
  | .error (.unmodelled c, _) => .unmodelled ("char:" ++ toString c.toNat)
  | .ok (ts, _) =>
    match parseTokens ts with
    | .ok t => .ok t
    | .error (.syn rest) => .synErr (rest.head?.map (·.pos)) (syntaxMessage rest)
    | .error (.res t) => .resErr (reservedMessage t)
    | .error (.badnum _) => .unmodelled "number"
    | .error .fuel => .unmodelled "fuel"

/-- The real parser pulls tokens lazily: a lexical error after the position where the parser
    already failed is never seen.  `parseLazy` reproduces this: the syntax error wins iff the
    offending token (or the token whose look-ahead triggered the action) was delivered before
    the illegal character. -/
def parseLazy (st : LexSt) (src : List Char) : ParseOut :=
  match lexFrom st src with
  | .ok _ => parseText st src
  | .error (.unmodelled c, _) => .unmodelled ("char:" ++ toString c.toNat)
  | .error (.illegal c _, pre) =>
    -- tokens delivered before the illegal character; the parser sees them followed by the error
    match parseTokens pre with
    | .ok _ => .lexErr c
    | .error (.syn []) => .lexErr c            -- would need one more token: the lexer raises first
    | .error (.syn rest) => .synErr (rest.head?.map (·.pos)) (syntaxMessage rest)
    | .error (.res t) =>
      -- the reserved-word action runs on a reduction that needs the *next* token as look-ahead
      if (pre.dropWhile (fun x => x.pos ≤ t.pos)).isEmpty then .lexErr c else .resErr (reservedMessage t)
    | .error (.badnum _) => .unmodelled "number"
    | .error .fuel => .unmodelled "fuel"

inductive PKind | ok | lex | syn | res | unm
  deriving DecidableEq, Repr

def ParseOut.kind : ParseOut → PKind
  | .ok _ => .ok | .lexErr _ => .lex | .synErr _ _ => .syn | .resErr _ => .res | .unmodelled _ => .unm

/-- does the text parse (from the initial lexer state) to exactly this tree? -/
def parsesTo (src : String) (t : Op) : Bool :=
  match parseLazy LexSt.init src.toList with
  | .ok t' => t'.beq t
  | _ => false

/-- do two texts parse to the same tree? -/
def sameTree (a b : String) : Bool :=
  match parseLazy LexSt.init a.toList, parseLazy LexSt.init b.toList with
  | .ok x, .ok y => x.beq y
  | _, _ => false

/-- kind of outcome and, for syntax errors, the message -/
def outcome (src : String) : PKind × List Char :=
  match parseLazy LexSt.init src.toList with
  | .ok _ => (.ok, [])
  | .lexErr c => (.lex, illegalMessage c)
  | .synErr _ m => (.syn, m)
  | .resErr m => (.res, m)
  | .unmodelled _ => (.unm, [])

def ParseOut.render : ParseOut → String
  | .ok t => "ok " ++ t.render
  | .lexErr c => "E lex " ++ hex (illegalMessage c)
  | .synErr p m => "E syn " ++ (match p with | some n => toString n | none => "-1") ++ " " ++ hex m
  | .resErr m => "E res " ++ hex m
  | .unmodelled w => "U " ++ w

def renderToken (t : Token) : String :=
  "(" ++ t.ty.name ++ " " ++ hex t.val ++ " " ++ toString t.pos ++ " " ++ toString t.line ++ ")"

def lexCmd (src : List Char) : String :=
  match lexFrom LexSt.init src with
  | .ok (ts, _) => "toks " ++ " ".intercalate (ts.map renderToken)
  | .error (.illegal c _, pre) =>
    "toks " ++ " ".intercalate (pre.map renderToken) ++ " E lex " ++ hex (illegalMessage c)
  | .error (.unmodelled c, _) => "U char:" ++ toString c.toNat

/-- `list(SqParser.list_names(text))`: the NAME token values, then the lexical error if any -/
def namesCmd (st : LexSt) (src : List Char) : String :=
  let names (ts : List Token) := ts.filter (·.ty == .NAME) |>.map (fun t => hex t.val)
  match lexFrom st src with
  | .ok (ts, _) => "names " ++ " ".intercalate (names ts)
  | .error (.illegal c _, pre) =>
    "names " ++ " ".intercalate (names pre) ++ " E lex " ++ hex (illegalMessage c)
  | .error (.unmodelled c, _) => "U char:" ++ toString c.toNat

end Proto
end Sq
