/-
  Sq/Session.lean — the `SqParser` object (smartquery/sq_parser.py): the per-parser mutable state
  (lexer fields, tree slot, parse cache), the three API calls as functions
  `Session → args → result × Session` that perform the resets the code performs, in the same
  order, and then READ the fields from the session (so a missing reset changes results — see the
  non-vacuity examples in SqProps/C11.lean), and sequences of calls.

  The text→tree function is a parameter (`ParseFn`): theorems hold for every parse function, the
  driver instantiates it with the model's own parser or with the table of fresh-parser answers
  supplied by the harness (DESIGN.md §3.2: a parser defect must not cascade into C11/C17).
-/
import Sq.Machine
import Sq.Proto
namespace Sq

/-- outcome of parsing a text from a given lexer state -/
abbrev ParseFn := LexSt → List Char → Proto.ParseOut

/-- which lexer fields a call resets before lexing (`sq_parser.py` lines 31-35, 46-51) -/
structure Resets where
  pos : Bool := true
  line : Bool := true
  depth : Bool := true
  deriving DecidableEq, Repr

def Resets.all : Resets := {}

def applyResets (r : Resets) (st : LexSt) : LexSt :=
  { pos := if r.pos then 0 else st.pos,
    line := if r.line then 1 else st.line,
    depth := if r.depth then 0 else st.depth }

/-- a parse cache: an insertion-ordered list of (source, tree) plus a retention policy that is
    applied after every insertion and every hit (bounded / evicting mappings forget entries) -/
structure Cache where
  entries : List (List Char × Op)
  deriving Repr

/-- retention policy: what the mapping keeps after an insert / after a hit -/
structure Policy where
  afterInsert : List (List Char × Op) → List (List Char × Op)
  afterHit : List Char → List (List Char × Op) → List (List Char × Op)

def Policy.dict : Policy := { afterInsert := id, afterHit := fun _ e => e }

/-- always-evicting mapping: forgets everything at once -/
def Policy.evict : Policy := { afterInsert := fun _ => [], afterHit := fun _ e => e }

/-- LRU bounded to `n` entries: most recent last; a hit moves the entry to the end -/
def Policy.lru (n : Nat) : Policy :=
  { afterInsert := fun e => e.drop (e.length - n),
    afterHit := fun k e => match e.find? (fun p => p.1 == k) with
      | some p => e.filter (fun q => q.1 != k) ++ [p]
      | none => e }

def cacheFind (e : List (List Char × Op)) (k : List Char) : Option Op :=
  (e.find? (fun p => p.1 == k)).map (·.2)

/-- `cache[k] = t` for a dict-like mapping: replace in place or append -/
def cacheInsert (e : List (List Char × Op)) (k : List Char) (t : Op) : List (List Char × Op) :=
  if e.any (fun p => p.1 == k) then e.map (fun p => if p.1 == k then (k, t) else p) else e ++ [(k, t)]

structure Session where
  lex : LexSt                                  -- lexpos / lineno / paren_count as the last call left them
  cache : Option (List (List Char × Op))       -- `parse_cache` (none: no cache)
  world : World                                -- heap, VM states of earlier evals (alive through closures), log
  budgets : List Nat
  deriving Repr

def Session.fresh (cache : Option (List (List Char × Op))) (w : World) : Session :=
  { lex := LexSt.init, cache := cache, world := w, budgets := w.vms.map (fun _ => 0) }

/-- lexer state after lexing `src` from `st` to the end (or to the lexical error) -/
def lexEndState (st : LexSt) (src : List Char) : LexSt :=
  match lexFrom st src with
  | .ok (_, st') => st'
  | .error _ => st      -- position of the error; the fields are reset by the next call anyway

/-- `SqParser.parse(expr)` -/
def parseCallWith (rs : Resets) (pf : ParseFn) (pol : Policy) (s : Session) (expr : List Char) :
    Proto.ParseOut × Session :=
  let miss (s : Session) : Proto.ParseOut × Session :=
    let st := applyResets rs s.lex
    let r := pf st expr
    let s1 := { s with lex := lexEndState st expr }
    match r, s1.cache with
    | .ok t, some e => (r, { s1 with cache := some (pol.afterInsert (cacheInsert e expr t)) })
    | _, _ => (r, s1)
  match s.cache with
  | none => miss s
  | some e =>
    match cacheFind e expr with
    | some t => (.ok t, { s with cache := some (pol.afterHit expr e) })
    | none => miss s

def parseCall := parseCallWith Resets.all

/-- what `list_names` yields when lexing starts in state `st`: the NAME token values, cut after
    `limit` names if the generator is abandoned there, and the lexical error if it was reached -/
def listNamesResult (st : LexSt) (expr : List Char) (limit : Option Nat) : List (List Char) × Option LexErr :=
  let toksErr : List Token × Option LexErr :=
    match lexFrom st expr with
    | .ok (ts, _) => (ts, none)
    | .error (e, pre) => (pre, some e)
  let names := (toksErr.1.filter (·.ty == .NAME)).map (·.val)
  match limit with
  | none => (names, toksErr.2)
  | some k => if k < names.length then (names.take k, none) else (names, toksErr.2)

/-- `list(SqParser.list_names(expr))`, the generator consumed up to `limit` names (none = fully)
    and then abandoned -/
def listNamesCallWith (rs : Resets) (s : Session) (expr : List Char) (limit : Option Nat) :
    (List (List Char) × Option LexErr) × Session :=
  let st := applyResets rs s.lex
  (listNamesResult st expr limit, { s with lex := lexEndState st expr })

def listNamesCall := listNamesCallWith Resets.all

inductive EvalOut
  | ok (v : Val)
  | err (e : PyErr)
  | parseFail (p : Proto.ParseOut)
  | steps                                   -- the driver's step bound was reached
  deriving Inhabited

/-- `SqParser.eval(expr, names, max_ops_evaluated=budget)`; `names` is the heap address of the
    host's mapping.  `fuel` bounds the machine run (the driver passes a large number). -/
def evalCallWith (rs : Resets) (pf : ParseFn) (pol : Policy) (fuel : Nat) (s : Session)
    (expr : List Char) (namesAddr : Nat) (budget : Nat) : EvalOut × Session :=
  let (r, s1) := parseCallWith rs pf pol s (Str.rstrip expr)
  match r with
  | .ok ast =>
    let c0 := initCfg s1.world s1.budgets namesAddr budget ast
    let c := runUntil fuel c0
    let s2 := { s1 with world := c.w, budgets := c.budgets }
    (match c.ctl with
     | .done v => (.ok v, s2)
     | .failed e => (.err e, s2)
     | _ => (.steps, s2))
  | p => (.parseFail p, s1)

def evalCall := evalCallWith Resets.all

end Sq
