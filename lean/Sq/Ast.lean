/-
  Sq/Ast.lean — the syntax tree of smartquery/ast_ops.py (13 node classes) and its neutral
  S-expression rendering used by the correspondence check.
-/
import Sq.Dec
import Sq.Str
namespace Sq

abbrev Name := List Char

/-- what a `ValueOp` can hold when built by the parser -/
inductive Lit
  | none | bool (b : Bool) | num (d : Dec) | str (s : List Char)
  deriving DecidableEq, Repr, Inhabited

inductive BinK
  | add | sub | mul | pow | div | eq | ne | gt | lt | ge | le | notin | isin | and | or
  deriving DecidableEq, Repr, Inhabited

inductive UnK | neg | not
  deriving DecidableEq, Repr, Inhabited

inductive ShortK | iadd | isub | imul | idiv
  deriving DecidableEq, Repr, Inhabited

inductive Op
  | noop
  | value (v : Lit)
  | code (lines : List Op)
  | bin (k : BinK) (a b : Op)
  | unary (k : UnK) (a : Op)
  | assign (n : Name) (v : Op)
  | short (n : Name) (k : ShortK) (v : Op)
  | name (n : Name)
  | ifx (c a b : Op)                      -- IfExprOp(cond, op1, op2): `a if c else b`
  | slice (a b c : Op)
  | call (n : Name) (args : List Op)
  | dict (kvs : List Op)                  -- k₁, v₁, k₂, v₂, … (evaluation order)
  | lambda (params : List Op) (body : Op)
  deriving Repr, Inhabited

def BinK.text : BinK → String
  | .add => "+" | .sub => "-" | .mul => "*" | .pow => "**" | .div => "/"
  | .eq => "==" | .ne => "!=" | .gt => ">" | .lt => "<" | .ge => ">=" | .le => "<="
  | .notin => "not in" | .isin => "in" | .and => "and" | .or => "or"

def BinK.atom : BinK → String
  | .add => "add" | .sub => "sub" | .mul => "mul" | .pow => "pow" | .div => "div"
  | .eq => "eq" | .ne => "ne" | .gt => "gt" | .lt => "lt" | .ge => "ge" | .le => "le"
  | .notin => "notin" | .isin => "in" | .and => "and" | .or => "or"

def UnK.atom : UnK → String | .neg => "neg" | .not => "not"

def ShortK.text : ShortK → String
  | .iadd => "+=" | .isub => "-=" | .imul => "*=" | .idiv => "/="

def ShortK.atom : ShortK → String
  | .iadd => "iadd" | .isub => "isub" | .imul => "imul" | .idiv => "idiv"

def ShortK.ofText? (s : List Char) : Option ShortK :=
  if s = ['+', '='] then some .iadd else if s = ['-', '='] then some .isub
  else if s = ['*', '='] then some .imul else if s = ['/', '='] then some .idiv else none

/-- lower-case hex of the UTF-8 encoding (the protocol's string coding) -/
def hexOf (s : List Char) : String :=
  if s.isEmpty then "-" else
  let bytes := (String.ofList s).toUTF8
  String.ofList (bytes.toList.flatMap fun b => [Str.hexDigit (b.toNat / 16), Str.hexDigit (b.toNat % 16)])

def Dec.render (d : Dec) : String :=
  "D:" ++ (if d.neg then "1" else "0") ++ ":" ++ toString d.coeff ++ ":" ++ toString d.exp

def Lit.render : Lit → String
  | .none => "N"
  | .bool true => "T"
  | .bool false => "F"
  | .num d => d.render ++ ":c"
  | .str s => "S:" ++ hexOf s

mutual
def Op.render : Op → String
  | .noop => "(noop)"
  | .value v => "(val " ++ v.render ++ ")"
  | .code ls => "(code" ++ renderList ls ++ ")"
  | .bin k a b => "(bin " ++ k.atom ++ " " ++ a.render ++ " " ++ b.render ++ ")"
  | .unary k a => "(un " ++ k.atom ++ " " ++ a.render ++ ")"
  | .assign n v => "(assign " ++ hexOf n ++ " " ++ v.render ++ ")"
  | .short n k v => "(short " ++ hexOf n ++ " " ++ k.atom ++ " " ++ v.render ++ ")"
  | .name n => "(name " ++ hexOf n ++ ")"
  | .ifx c a b => "(if " ++ c.render ++ " " ++ a.render ++ " " ++ b.render ++ ")"
  | .slice a b c => "(slice " ++ a.render ++ " " ++ b.render ++ " " ++ c.render ++ ")"
  | .call n args => "(call " ++ hexOf n ++ renderList args ++ ")"
  | .dict kvs => "(dict" ++ renderList kvs ++ ")"
  | .lambda ps b => "(lambda (params" ++ renderList ps ++ ") " ++ b.render ++ ")"
def renderList : List Op → String
  | [] => ""
  | o :: os => " " ++ o.render ++ renderList os
end

mutual
/-- structural equality of trees (kernel-friendly: used by `decide` in examples and counterexamples) -/
def Op.beq : Op → Op → Bool
  | .noop, .noop => true
  | .value a, .value b => a == b
  | .code a, .code b => beqList a b
  | .bin k a b, .bin k' a' b' => k == k' && a.beq a' && b.beq b'
  | .unary k a, .unary k' a' => k == k' && a.beq a'
  | .assign n v, .assign n' v' => n == n' && v.beq v'
  | .short n k v, .short n' k' v' => n == n' && k == k' && v.beq v'
  | .name n, .name n' => n == n'
  | .ifx c a b, .ifx c' a' b' => c.beq c' && a.beq a' && b.beq b'
  | .slice a b c, .slice a' b' c' => a.beq a' && b.beq b' && c.beq c'
  | .call n a, .call n' a' => n == n' && beqList a a'
  | .dict a, .dict a' => beqList a a'
  | .lambda p b, .lambda p' b' => beqList p p' && b.beq b'
  | _, _ => false
def beqList : List Op → List Op → Bool
  | [], [] => true
  | a :: as, b :: bs => a.beq b && beqList as bs
  | _, _ => false
end

mutual
/-- number of nodes -/
def Op.size : Op → Nat
  | .noop => 1
  | .value _ => 1
  | .code ls => 1 + sizeList ls
  | .bin _ a b => 1 + a.size + b.size
  | .unary _ a => 1 + a.size
  | .assign _ v => 1 + v.size
  | .short _ _ v => 1 + v.size
  | .name _ => 1
  | .ifx c a b => 1 + c.size + a.size + b.size
  | .slice a b c => 1 + a.size + b.size + c.size
  | .call _ args => 1 + sizeList args
  | .dict kvs => 1 + sizeList kvs
  | .lambda ps b => 1 + sizeList ps + b.size
def sizeList : List Op → Nat
  | [] => 0
  | o :: os => o.size + sizeList os
end

end Sq
