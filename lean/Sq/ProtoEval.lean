/-
  Sq/ProtoEval.lean — protocol side of evaluation: reading trees / values / host configuration
  from S-expressions, canonical (aliasing-aware) rendering of values, the EVAL command.
-/
import Sq.Proto
import Sq.Machine
import Sq.Denote
import Sq.Session
namespace Sq
namespace Proto

/-! ### reading -/

def readNat? (s : String) : Option Nat := s.toNat?
def readInt? (s : String) : Option Int := s.toInt?

def readDec? (parts : List String) : Option (Dec × Bool) :=
  match parts with
  | [sg, c, e, k] =>
    match readNat? c, readInt? e with
    | some cn, some en => some ({ neg := sg == "1", coeff := cn, exp := en }, k == "c")
    | _, _ => none
  | _ => none

def readLit? (a : String) : Option Lit :=
  if a == "N" then some .none else if a == "T" then some (.bool true) else if a == "F" then some (.bool false)
  else match a.splitOn ":" with
    | "D" :: rest => (readDec? rest).map (fun p => .num p.1)
    | ["S", h] => (unhex h).map .str
    | _ => none

def binOfAtom? (a : String) : Option BinK :=
  [BinK.add, .sub, .mul, .pow, .div, .eq, .ne, .gt, .lt, .ge, .le, .notin, .isin, .and, .or].find?
    (fun k => k.atom == a)

def shortOfAtom? (a : String) : Option ShortK :=
  [ShortK.iadd, .isub, .imul, .idiv].find? (fun k => k.atom == a)

mutual
def readOp : Nat → SExp → Option Op
  | 0, _ => none
  | f + 1, e =>
    match e with
    | .list [.atom "noop"] => some .noop
    | .list [.atom "val", .atom a] => (readLit? a).map .value
    | .list (.atom "code" :: ls) => (readOps f ls).map .code
    | .list [.atom "bin", .atom k, a, b] =>
      (match binOfAtom? k, readOp f a, readOp f b with
       | some bk, some x, some y => some (.bin bk x y)
       | _, _, _ => none)
    | .list [.atom "un", .atom k, a] =>
      (match readOp f a with
       | some x => if k == "neg" then some (.unary .neg x) else if k == "not" then some (.unary .not x) else none
       | none => none)
    | .list [.atom "assign", .atom n, v] =>
      (match unhex n, readOp f v with
       | some nm, some x => some (.assign nm x)
       | _, _ => none)
    | .list [.atom "short", .atom n, .atom k, v] =>
      (match unhex n, shortOfAtom? k, readOp f v with
       | some nm, some sk, some x => some (.short nm sk x)
       | _, _, _ => none)
    | .list [.atom "name", .atom n] => (unhex n).map .name
    | .list [.atom "if", c, a, b] =>
      (match readOp f c, readOp f a, readOp f b with
       | some x, some y, some z => some (.ifx x y z)
       | _, _, _ => none)
    | .list [.atom "slice", a, b, c] =>
      (match readOp f a, readOp f b, readOp f c with
       | some x, some y, some z => some (.slice x y z)
       | _, _, _ => none)
    | .list (.atom "call" :: .atom n :: args) =>
      (match unhex n, readOps f args with
       | some nm, some xs => some (.call nm xs)
       | _, _ => none)
    | .list (.atom "dict" :: kvs) => (readOps f kvs).map .dict
    | .list [.atom "lambda", .list (.atom "params" :: ps), b] =>
      (match readOps f ps, readOp f b with
       | some xs, some y => some (.lambda xs y)
       | _, _ => none)
    | _ => none
def readOps : Nat → List SExp → Option (List Op)
  | 0, _ => none
  | _ + 1, [] => some []
  | f + 1, e :: es =>
    match readOp f e, readOps f es with
    | some x, some xs => some (x :: xs)
    | _, _ => none
end

def optInt? (a : String) : Option (Option Int) :=
  if a == "N" then some none
  else match a.splitOn ":" with
    | ["I", n] => (readInt? n).map some
    | _ => none

/-- reader state: heap under construction and the object-number ↦ address map -/
structure RdSt where
  heap : Heap
  objs : List (Nat × Nat)

mutual
def readVal : Nat → RdSt → SExp → Option (Val × RdSt)
  | 0, _, _ => none
  | f + 1, st, e =>
    match e with
    | .atom a =>
      if a == "N" then some (.none, st) else if a == "T" then some (.bool true, st)
      else if a == "F" then some (.bool false, st)
      else (match a.splitOn ":" with
        | "D" :: rest => (readDec? rest).map (fun p => (.dec p.1 p.2, st))
        | ["I", n] => (readInt? n).map (fun i => (.int i, st))
        | ["S", h] => (unhex h).map (fun s => (.str s, st))
        | ["B", n] => some (.builtin n, st)
        | ["H", n] => some (.host n, st)
        | ["O", n] => some (.opaque n, st)
        | _ => none)
    | .list (.atom "U" :: vs) => (readVals f st vs).map (fun (xs, st') => (.tuple xs, st'))
    | .list [.atom "SL", .atom a, .atom b, .atom c] =>
      (match optInt? a, optInt? b, optInt? c with
       | some x, some y, some z => some (.slice x y z, st)
       | _, _, _ => none)
    | .list [.atom "R", .atom i] =>
      (match readNat? i with
       | some n => (st.objs.find? (fun p => p.1 == n)).map (fun p => (.ref p.2, st))
       | none => none)
    | .list (.atom "L" :: .atom i :: vs) =>
      (match readNat? i with
       | none => none
       | some n =>
         let (h1, a) := st.heap.alloc (.list [])
         match readVals f { heap := h1, objs := (n, a) :: st.objs } vs with
         | some (xs, st') => some (.ref a, { st' with heap := st'.heap.set a (.list xs) })
         | none => none)
    | .list (.atom "M" :: .atom i :: kvs) =>
      (match readNat? i with
       | none => none
       | some n =>
         let (h1, a) := st.heap.alloc (.dict [])
         match readPairs f { heap := h1, objs := (n, a) :: st.objs } kvs with
         | some (ps, st') => some (.ref a, { st' with heap := st'.heap.set a (.dict ps) })
         | none => none)
    | _ => none
def readVals : Nat → RdSt → List SExp → Option (List Val × RdSt)
  | 0, _, _ => none
  | _ + 1, st, [] => some ([], st)
  | f + 1, st, e :: es =>
    match readVal f st e with
    | none => none
    | some (v, st') => match readVals f st' es with
      | some (vs, st'') => some (v :: vs, st'')
      | none => none
def readPairs : Nat → RdSt → List SExp → Option (List (Val × Val) × RdSt)
  | 0, _, _ => none
  | _ + 1, st, [] => some ([], st)
  | f + 1, st, e :: es =>
    match e with
    | .list [k, v] =>
      (match readVal f st k with
       | none => none
       | some (kv, st1) => match readVal f st1 v with
         | none => none
         | some (vv, st2) => match readPairs f st2 es with
           | some (ps, st3) => some ((kv, vv) :: ps, st3)
           | none => none)
    | _ => none
end

/-! ### canonical rendering (objects numbered in first-visit order) -/

structure WrSt where
  seen : List (Nat × Nat)      -- address ↦ object number
  next : Nat

def optIntAtom : Option Int → String
  | none => "N"
  | some i => "I:" ++ toString i

mutual
def writeVal : Nat → Heap → WrSt → Val → String × WrSt
  | 0, _, st, _ => ("?fuel", st)
  | f + 1, h, st, v =>
    match v with
    | .none => ("N", st)
    | .bool true => ("T", st)
    | .bool false => ("F", st)
    | .dec d c => (d.render ++ (if c then ":c" else ":b"), st)
    | .int i => ("I:" ++ toString i, st)
    | .str s => ("S:" ++ hex s, st)
    | .tuple vs =>
      let (s, st') := writeVals f h st vs
      ("(U" ++ s ++ ")", st')
    | .slice a b c => ("(SL " ++ optIntAtom a ++ " " ++ optIntAtom b ++ " " ++ optIntAtom c ++ ")", st)
    | .builtin n => ("B:" ++ n, st)
    | .closure _ _ _ => ("C", st)
    | .host n => ("H:" ++ n, st)
    | .opaque n => ("O:" ++ n, st)
    | .ref a =>
      match st.seen.find? (fun p => p.1 == a) with
      | some p => ("(R " ++ toString p.2 ++ ")", st)
      | none =>
        let n := st.next
        let st1 : WrSt := { seen := (a, n) :: st.seen, next := n + 1 }
        match h.get? a with
        | some (.list xs) =>
          let (s, st2) := writeVals f h st1 xs
          ("(L " ++ toString n ++ s ++ ")", st2)
        | some (.dict kvs) =>
          let (s, st2) := writePairs f h st1 kvs
          ("(M " ++ toString n ++ s ++ ")", st2)
        | none => ("?dangling", st1)
def writeVals : Nat → Heap → WrSt → List Val → String × WrSt
  | 0, _, st, _ => ("?fuel", st)
  | _ + 1, _, st, [] => ("", st)
  | f + 1, h, st, v :: vs =>
    let (a, st1) := writeVal f h st v
    let (b, st2) := writeVals f h st1 vs
    (" " ++ a ++ b, st2)
def writePairs : Nat → Heap → WrSt → List (Val × Val) → String × WrSt
  | 0, _, st, _ => ("?fuel", st)
  | _ + 1, _, st, [] => ("", st)
  | f + 1, h, st, (k, v) :: r =>
    let (a, st1) := writeVal f h st k
    let (b, st2) := writeVal f h st1 v
    let (c, st3) := writePairs f h st2 r
    (" (" ++ a ++ " " ++ b ++ ")" ++ c, st3)
end

def wrFuel (h : Heap) : Nat := heapWeight h + 1000

/-! ### the EVAL command -/

def field? (name : String) (es : List SExp) : Option (List SExp) :=
  es.findSome? (fun e => match e with
    | .list (.atom n :: rest) => if n == name then some rest else none
    | _ => none)

def readProbes (f : Nat) (st : RdSt) : List SExp → Option (List (Int × ProbeAct) × RdSt)
  | [] => some ([], st)
  | .list [.atom i, .atom "raise", .atom cls] :: r =>
    (match readInt? i, readProbes f st r with
     | some n, some (ps, st') => some ((n, .raise (errOfClass cls)) :: ps, st')
     | _, _ => none)
  | .list [.atom i, .atom "ret", v] :: r =>
    (match readInt? i, readVal f st v with
     | some n, some (vv, st1) => match readProbes f st1 r with
       | some (ps, st2) => some ((n, .ret vv) :: ps, st2)
       | none => none
     | _, _ => none)
  | _ => none

def readRx (f : Nat) (st : RdSt) : List SExp → Option (List RxAns × RdSt)
  | [] => some ([], st)
  | .atom "none" :: r => (readRx f st r).map (fun (xs, s) => (.noMatch :: xs, s))
  | .list [.atom "raised", .atom c] :: r => (readRx f st r).map (fun (xs, s) => (.raised c :: xs, s))
  | .list (.atom "m" :: g0 :: gs) :: r =>
    (match readVal f st g0 with
     | none => none
     | some (v0, st1) => match readVals f st1 gs with
       | none => none
       | some (vs, st2) => (readRx f st2 r).map (fun (xs, s) => (.matched v0 vs :: xs, s)))
  | .list (.atom "all" :: items) :: r =>
    (match readVals f st items with
     | none => none
     | some (vs, st1) => (readRx f st1 r).map (fun (xs, s) => (.all vs :: xs, s)))
  | _ => none

def renderEvent (f : Nat) (h : Heap) (st : WrSt) : Event → String × WrSt
  | .probe a => let (s, st') := writeVal f h st a; ("(p " ++ s ++ ")", st')
  | .caught c => ("(c " ++ c ++ ")", st)

def renderEvents (f : Nat) (h : Heap) : WrSt → List Event → String × WrSt
  | st, [] => ("", st)
  | st, e :: es =>
    let (a, st1) := renderEvent f h st e
    let (b, st2) := renderEvents f h st1 es
    (" " ++ a ++ b, st2)

/-- final report of one eval call: outcome, names-after, ops charged to the call's own VM, log -/
def report (c : Cfg) (namesAddr vmi : Nat) : String :=
  let h := c.w.heap
  let f := wrFuel h
  let st0 : WrSt := { seen := [], next := 0 }
  let (out, st1) : String × WrSt := match c.ctl with
    | .done v => let (s, st) := writeVal f h st0 v; ("ok " ++ s, st)
    | .failed e => ("err " ++ e.cls, st0)
    | _ => ("U steps", st0)
  let (ns, st2) := writeVal f h st1 (.ref namesAddr)
  let (lg, _) := renderEvents f h st2 c.w.log.reverse
  let ops := (c.w.vm? vmi).map (·.ops) |>.getD 0
  out ++ " ;; names " ++ ns ++ " ;; ops " ++ toString ops ++ " ;; log" ++ lg

def maxSteps : Nat := 20000000

/-- recursion bound handed to the compositional semantics in `(dencheck)` runs -/
def denFuel : Nat := 3000

/-- evaluate with the given tree (`ownTree`, from the model's own parser) or, when none is given, with the tree the
    implementation sent along -/
def evalWith (es : List SExp) (rdFuel : Nat) (ownTree : Option Op) : String :=
  match field? "budget" es, field? "rng" es, field? "tree" es, field? "names" es with
  | some [.atom b], some [.atom r], some [t], some [nm] =>
    (match (if b == "default" then some defaultBudget else readNat? b), readNat? r,
           (match ownTree with | some t' => some t' | none => readOp rdFuel t) with
     | some budget, some rng, some ast =>
       (match readVal rdFuel { heap := #[], objs := [] } nm with
        | some (.ref namesAddr, st1) =>
          (match readProbes rdFuel st1 ((field? "probes" es).getD []) with
           | none => "bad-probes"
           | some (probes, st2) =>
             match readRx rdFuel st2 ((field? "rx" es).getD []) with
             | none => "bad-rx"
             | some (rx, st3) =>
               let w : World := { heap := st3.heap, vms := [], log := [], rng := rng, rx := rx, probes := probes }
               let astNames : List (Name × Op) := ((field? "astnames" es).getD []).filterMap (fun e =>
                 match e with
                 | .list [.atom n, t] => (match unhex n, readOp rdFuel t with
                   | some nm, some op => some (nm, op)
                   | _, _ => none)
                 | _ => none)
               let c0 := initCfg w [] namesAddr budget ast astNames
               let c := runUntil maxSteps c0
               let render (c : Cfg) : String := match c.ctl with
                 | .failed (.unmodelled why) => "U " ++ why
                 | _ => report c namesAddr 0
               let line := render c
               -- `(dencheck)`: also evaluate with the compositional semantics of Sq/Denote.lean and say whether it
               -- gives the same report (`same`), has no verdict within the fuel (`nofuel`) or differs (`DIFF` —
               -- impossible by SqLemmas/DenoteSound.lean; the harness counts the three)
               match field? "dencheck" es with
               | some _ =>
                 let w0 : World := { w with vms := w.vms ++ [{ scopes := [namesAddr], ops := 0 }] }
                 let tag := match Den.evalAst [budget] denFuel astNames ast 0 w0 with
                   | none => "nofuel"
                   | some (o, w') =>
                     let ctl : Ctl := match o with | .ret v => .done v | .raise e => .failed e
                     if render { ctl := ctl, k := [], w := w', budgets := [budget] } == line then "same" else "DIFF"
                 line ++ " ;; den=" ++ tag
               | none => line)
        | _ => "bad-names")
     | _, _, _ => "bad-fields")
  | _, _, _, _ => "bad-eval"


def evalCmd (body : String) : String :=
  match sRead body with
  | none => "bad-sexp"
  | some es =>
    let rdFuel := body.length + 16
    -- `(modelparser)`: evaluate the tree the MODEL's parser builds from the source text instead of
    -- the implementation's own tree (used where a parse-time rewrite could hide an evaluation defect)
    let ownParse : Option ParseOut :=
      match field? "modelparser" es, field? "src" es with
      | some _, some [.atom h] => (unhex h).map (fun src => parseLazy LexSt.init (Str.rstrip src))
      | _, _ => none
    let ownTree : Option Op := match ownParse with | some (.ok t) => some t | _ => none
    match field? "modelparser" es, ownParse with
    | some _, some (.unmodelled w) => "U own-parse:" ++ w   -- the model's lexer does not read this text
    | some _, some (.ok _) => evalWith es rdFuel ownTree
    | some _, some _ => "parse-error"                       -- eval() raises the parser's ParserError before evaluating
    | some _, none => "bad-src"
    | none, _ => evalWith es rdFuel none

end Proto
end Sq

namespace Sq
namespace Proto

/-! ### the SESSION command: a sequence of API calls on one SqParser -/

/-- parse function backed by the table of fresh-parser answers supplied by the harness; only
    valid from the initial lexer state (which is what the calls' resets establish) -/
def tableParse (tbl : List (List Char × ParseOut)) : ParseFn := fun st src =>
  if st.pos = 0 ∧ st.line = 1 ∧ st.depth = 0 then
    match tbl.find? (fun p => p.1 == src) with
    | some p => p.2
    | none => .unmodelled "no-table-entry"
  else .unmodelled "stale-lexer-state"

def readParses (f : Nat) : List SExp → Option (List (List Char × ParseOut))
  | [] => some []
  | .list [.atom h, .atom "ok", t] :: r =>
    (match unhex h, readOp f t, readParses f r with
     | some s, some op, some rest => some ((s, .ok op) :: rest)
     | _, _, _ => none)
  | .list [.atom h, .atom "err", .atom cls, .atom m] :: r =>
    (match unhex h, unhex m, readParses f r with
     | some s, some msg, some rest =>
       some ((s, if cls == "lex" then ParseOut.lexErr (msg.getLastD ' ') else if cls == "res" then .resErr msg
                 else .synErr none msg) :: rest)
     | _, _, _ => none)
  | _ => none

def parseOutBrief : ParseOut → String
  | .ok t => "ok " ++ t.render
  | .lexErr c => "err parser " ++ hex (illegalMessage c)
  | .synErr _ m => "err parser " ++ hex m
  | .resErr m => "err parser " ++ hex m
  | .unmodelled w => "U " ++ w

def policyOf (k : String) : Policy :=
  if k == "lru2" then Policy.lru 2 else if k == "evict" then Policy.evict else Policy.dict

def runCalls (f : Nat) (pf : ParseFn) (pol : Policy) (maps : List Nat) :
    List SExp → Session → List String → List String
  | [], _, acc => acc.reverse
  | c :: rest, s, acc =>
    match c with
    | .list [.atom "parse", .atom h] =>
      (match unhex h with
       | none => (("bad-hex") :: acc).reverse
       | some src =>
         let (r, s') := parseCall pf pol s src
         runCalls f pf pol maps rest s' (parseOutBrief r :: acc))
    | .list [.atom "names", .atom h, .atom k] =>
      (match unhex h with
       | none => (("bad-hex") :: acc).reverse
       | some src =>
         let ((ns, err), s') := listNamesCall s src (if k == "all" then none else k.toNat?)
         let out := "names " ++ " ".intercalate (ns.map hex) ++
           (match err with
            | some (.illegal ch _) => " err parser " ++ hex (illegalMessage ch)
            | some (.unmodelled ch) => " U char:" ++ toString ch.toNat
            | none => "")
         runCalls f pf pol maps rest s' (out :: acc))
    | .list [.atom "eval", .atom h, .atom mi, .atom b, .atom rng] =>
      (match unhex h, (if mi == "none" then some maps.length else mi.toNat?),
             (if b == "default" then some defaultBudget else b.toNat?), rng.toNat? with
       | some src, some i, some budget, some seed =>
         -- `names=None`: eval pushes a fresh empty mapping of its own
         let (sA, addr?) : Session × Option Nat :=
           if mi == "none" then
             let (h', a) := s.world.heap.alloc (.dict [])
             ({ s with world := { s.world with heap := h' } }, some a)
           else (s, maps[i]?)
         (match addr? with
          | none => (("bad-map") :: acc).reverse
          | some addr =>
            let s0 := { sA with world := { sA.world with rng := seed } }
            let vmi := s0.world.vms.length
            let (r, s') := evalCall pf pol maxSteps s0 src addr budget
            let h := s'.world.heap
            let fu := wrFuel h
            let st0 : WrSt := { seen := [], next := 0 }
            let (hd, st1) : String × WrSt := match r with
              | .ok v => let (t, st) := writeVal fu h st0 v; ("ok " ++ t, st)
              | .err (.unmodelled w) => ("U " ++ w, st0)
              | .err e => ("err " ++ e.cls, st0)
              | .parseFail p => (parseOutBrief p, st0)
              | .steps => ("U steps", st0)
            let (nm, _) := writeVal fu h st1 (.ref addr)
            let ops := (s'.world.vm? vmi).map (·.ops) |>.getD 0
            let nm := if mi == "none" then "-" else nm
            let out := if hd.startsWith "U " then hd else hd ++ " ;; names " ++ nm ++ " ;; ops " ++ toString ops
            runCalls f pf pol maps rest s' (out :: acc))
       | _, _, _, _ => (("bad-eval") :: acc).reverse)
    | .list [.atom "hostpush", .atom mi, .atom n, v] =>
      -- the host appends a value to the list bound to a name in one of its mappings
      (match mi.toNat?, unhex n, readVal f { heap := s.world.heap, objs := [] } v with
       | some i, some nm, some (vv, st) =>
         (match maps[i]? with
          | some addr =>
            (match scopeFind st.heap addr nm with
             | some (.ref a) =>
               (match st.heap.get? a with
                | some (.list xs) =>
                  let s' := { s with world := { s.world with heap := st.heap.set a (.list (xs ++ [vv])) } }
                  runCalls f pf pol maps rest s' ("host ok" :: acc)
                | _ => runCalls f pf pol maps rest s ("host skip" :: acc))
             | _ => runCalls f pf pol maps rest s ("host skip" :: acc))
          | none => (("bad-map") :: acc).reverse)
       | _, _, _ => (("bad-hostpush") :: acc).reverse)
    | _ => (("bad-call") :: acc).reverse

def sessionCmd (body : String) : String :=
  match sRead body with
  | none => "bad-sexp"
  | some es =>
    let f := body.length + 16
    match field? "cache" es, field? "heap" es, field? "calls" es, field? "parses" es with
    | some [.atom ck], some [hv], some calls, some ps =>
      (match readVal f { heap := #[], objs := [] } hv, readParses f ps with
       | some (.tuple ms, st), some tbl =>
         let maps := ms.filterMap (fun v => match v with | .ref a => some a | _ => none)
         let w : World := { heap := st.heap, vms := [], log := [], rng := 1, rx := [], probes := [] }
         let s0 := Session.fresh (if ck == "none" then none else some []) w
         -- `(modelparser)`: texts are read by the MODEL's parser (default in the correspondence runs), otherwise by the
         -- table of the implementation's fresh-parser answers
         let pf : ParseFn := match field? "modelparser" es with | some _ => parseLazy | none => tableParse tbl
         " || ".intercalate (runCalls f pf (policyOf ck) maps calls s0 [])
       | _, _ => "bad-session-fields")
    | _, _, _, _ => "bad-session"

end Proto
end Sq
