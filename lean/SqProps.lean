import SqProps.C01
