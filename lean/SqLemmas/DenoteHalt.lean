/-
  SqLemmas/DenoteHalt.lean — no transition of the machine produces a halted control except returning / raising out of an
  empty continuation (`Live` sweep); hence completeness of the compositional semantics in its halting form:
  from `done v` / `failed e` back to `evalOp`.
-/
import Sq.Denote
import SqLemmas.DenoteSound
import SqLemmas.DenoteComplete
set_option autoImplicit false
namespace Sq.Den
open Sq

/-- the control is not a halted one -/
def Live (c : Core) : Prop := match c.ctl with | .done _ => False | .failed _ => False | _ => True

theorem live_mk (o : Out) (k : List Frame) (w : World) : Live (mk o k w) := by cases o <;> trivial
theorem live_mkP (p : Out × World) (k : List Frame) : Live (mkP p k) := live_mk _ _ _
theorem live_mkRet (v : Val) (k : List Frame) (w : World) : Live (mkRet v k w) := trivial
theorem live_mkRaise (e : PyErr) (k : List Frame) (w : World) : Live (mkRaise e k w) := trivial
theorem live_ev (op : Op) (vmi : Nat) (k : List Frame) (w : World) : Live { ctl := .ev op vmi, k := k, w := w } := trivial

def LiveIt (it : IterFn) : Prop := ∀ kind g src acc k w, Live (it kind g src acc k w)

theorem live_startCore (st : Start) (it : IterFn) (hit : LiveIt it) (k : List Frame) (w : World) :
    Live (startCore st it k w) := by
  cases st with
  | now o w' => exact live_mk _ _ _
  | iter kind g src acc => exact hit _ _ _ _ _ _

theorem live_callClosure (ps : List Op) (body : Op) (vmi : Nat) (args : List Val) (k : List Frame) (w : World) :
    Live (callClosure ps body vmi args k w) := by
  unfold callClosure
  split
  · trivial
  · split <;> trivial

theorem live_call : ∀ (fuel : Nat), (∀ fn args k w, Live (callVal fuel fn args k w)) ∧ LiveIt (iterNext fuel) := by
  intro fuel
  induction fuel with
  | zero => exact ⟨fun _ _ _ _ => trivial, fun _ _ _ _ _ _ => trivial⟩
  | succ fuel ih =>
    obtain ⟨ihc, ihi⟩ := ih
    constructor
    · intro fn args k w
      cases fn with
      | closure ps body vmi => simp only [callVal]; exact live_callClosure _ _ _ _ _ _
      | builtin name =>
        simp only [callVal]
        split
        · rw [callMap_eq]; exact live_startCore _ _ ihi _ _
        · split
          · trivial
          · split
            · rw [callFilter_eq]; exact live_startCore _ _ ihi _ _
            · split
              · rw [callReduce_eq]; exact live_startCore _ _ ihi _ _
              · split
                · rw [callSorted_eq]; exact live_startCore _ _ ihi _ _
                · rw [ofBR_pure]; exact live_mkP _ _
      | host id =>
        simp only [callVal]
        split
        · rw [callProbe_eq]; exact live_mkP _ _
        · split
          · cases args with
            | nil => trivial
            | cons g rest => exact ihc _ _ _ _
          · split
            · cases args with
              | nil => trivial
              | cons g rest => exact ihc _ _ _ _
            · trivial
      | «opaque» s => simp only [callVal]; trivial
      | none => simp only [callVal]; trivial
      | bool b => simp only [callVal]; trivial
      | dec d c => simp only [callVal]; trivial
      | int i => simp only [callVal]; trivial
      | str s => simp only [callVal]; trivial
      | slice a b c => simp only [callVal]; trivial
      | ref a => simp only [callVal]; trivial
      | tuple vs => simp only [callVal]; trivial
    · intro kind g src acc k w
      cases hn : nextItem w.heap src with
      | none => rw [iterNext_done _ _ _ _ _ _ _ hn]; exact live_mkP _ _
      | some p => obtain ⟨item, src'⟩ := p; rw [iterNext_some _ _ _ _ _ _ _ _ _ hn]; exact ihc _ _ _ _

theorem live_doCall (n : Name) (vs : List Val) (vmi : Nat) (k : List Frame) (w : World) : Live (doCall n vs vmi k w) := by
  rw [doCall_eq]
  split
  · exact live_mk _ _ _
  · split
    · exact live_mk _ _ _
    · exact (live_call _).1 _ _ _ _

theorem live_enter (op : Op) (vmi : Nat) (k : List Frame) (w : World) : Live (enter op vmi k w) := by
  cases op with
  | noop => trivial
  | value l => cases l <;> trivial
  | code ls => cases ls <;> trivial
  | bin bk a b => trivial
  | unary uk a => trivial
  | assign n a => trivial
  | short n sk a => trivial
  | name n => rw [enter_name]; exact live_mkP _ _
  | ifx c a b => trivial
  | slice a b c => trivial
  | call n args =>
    cases args with
    | nil => exact live_doCall _ _ _ _ _
    | cons a rest => trivial
  | dict parts => cases parts <;> trivial
  | lambda ps body => trivial

theorem live_resume (fr : Frame) (v : Val) (k : List Frame) (w : World) : Live (resume fr v k w) := by
  cases fr with
  | codeK rest vmi => cases rest <;> trivial
  | binL bk b vmi =>
    cases bk <;> simp only [resume] <;> first | trivial | (split <;> trivial)
  | binR bk va => rw [resume_binR]; exact live_mkP _ _
  | unK uk => rw [resume_unK]; exact live_mkP _ _
  | assignK n vmi => rw [resume_assignK]; exact live_mkP _ _
  | shortK n sk vmi => rw [resume_shortK]; exact live_mkP _ _
  | ifK a b vmi => simp only [resume]; split <;> trivial
  | sliceK done todo vmi =>
    simp only [resume]
    split
    · trivial
    · split
      · trivial
      · split <;> trivial
  | argsK n done todo vmi =>
    cases todo with
    | nil => exact live_doCall _ _ _ _ _
    | cons nxt rest => trivial
  | dictK done todo vmi =>
    cases todo with
    | nil => rw [resume_dictK_last]; exact live_mkP _ _
    | cons nxt rest => trivial
  | popScopeK vmi => rw [resume_popScopeK]; exact live_mkP _ _
  | iterK kind g src cur acc => rw [resume_iterK]; exact (live_call _).2 _ _ _ _ _ _
  | tryK => trivial
  | astK n rest main vmi =>
    simp only [resume]
    split
    · trivial
    · split
      · trivial
      · split <;> trivial

theorem live_unwind (fr : Frame) (e : PyErr) (k : List Frame) (w : World) : Live (unwind fr e k w) := by
  cases fr with
  | popScopeK vmi => rw [unwind_popScopeK]; exact live_mkP _ _
  | tryK =>
    have := after_tryK (.raise e) k w
    simp only [after] at this
    rw [this]; exact live_mkP _ _
  | _ => trivial

theorem live_step (B : List Nat) (c : Core) (hl : Live c) (hu : ¬ Underflow c) : Live (stepCore B c) := by
  obtain ⟨ctl, k, w⟩ := c
  cases ctl with
  | ev op vmi =>
    simp only [stepCore]
    split
    · trivial
    · trivial
    · exact live_enter _ _ _ _
  | ret v =>
    cases k with
    | nil => exact absurd ⟨rfl, Or.inl ⟨v, rfl⟩⟩ hu
    | cons fr k => exact live_resume _ _ _ _
  | raise e =>
    cases k with
    | nil => exact absurd ⟨rfl, Or.inr ⟨e, rfl⟩⟩ hu
    | cons fr k => exact live_unwind _ _ _ _
  | done v => exact absurd hl (by simp [Live])
  | failed e => exact absurd hl (by simp [Live])

theorem halt_inj {o1 o2 : Out} (h : o1.halt = o2.halt) : o1 = o2 := by
  cases o1 <;> cases o2 <;> simp [Out.halt] at h <;> simp [h]

/-- **from a halted machine back to the semantics**: if the machine started on a node halts — `done v` or `failed e` —
    after any number of steps, some fuel makes `evalOp` yield exactly that outcome and the world it halted in -/
theorem evalOp_complete_halt {B : List Nat} (op : Op) (vmi : Nat) (w : World) (N : Nat) (o : Out) (w' : World) (k' : List Frame)
    (h : run N { ctl := .ev op vmi, k := [], w := w, budgets := B } = { ctl := o.halt, k := k', w := w', budgets := B }) :
    ∃ f, evalOp B f op vmi w = some (o, w') := by
  let c0 : Cfg := { ctl := .ev op vmi, k := [], w := w, budgets := B }
  have hex : ∃ i, i ≤ N ∧ Underflow (run i c0).core := by
    apply Classical.byContradiction
    intro hno
    have hlive : ∀ i, i ≤ N → Live (run i c0).core := by
      intro i
      induction i with
      | zero => intro _; trivial
      | succ i ih =>
        intro hi
        have hl := ih (by omega)
        have hu : ¬ Underflow (run i c0).core := fun hu => hno ⟨i, by omega, hu⟩
        have e : run (i + 1) c0 = step (run i c0) := by rw [run_add' i 1]; rfl
        rw [e]
        have hb := run_budgets i c0
        show Live (stepCore (run i c0).budgets (run i c0).core)
        exact live_step _ _ hl hu
    have := hlive N (Nat.le_refl _)
    rw [h] at this
    cases o <;> simp [Live, Cfg.core, Out.halt] at this
  obtain ⟨n1, hle, hu, hmin⟩ := least_index _ N hex
  obtain ⟨hk, hctl⟩ := hu
  have hb := run_budgets n1 c0
  have hfin : ∃ o1, run n1 c0 = (mk o1 [] (run n1 c0).w).withBudgets B := by
    rcases hctl with ⟨v, hv⟩ | ⟨e, he⟩
    · refine ⟨.ret v, ?_⟩
      cases hc : run n1 c0 with
      | mk ctl k w1 b =>
        rw [hc] at hk hv hb
        simp only [Cfg.core] at hk hv
        simp only at hb
        subst hk; subst hv; subst hb; rfl
    · refine ⟨.raise e, ?_⟩
      cases hc : run n1 c0 with
      | mk ctl k w1 b =>
        rw [hc] at hk he hb
        simp only [Cfg.core] at hk he
        simp only at hb
        subst hk; subst he; subst hb; rfl
  obtain ⟨o1, ho1⟩ := hfin
  generalize (run n1 c0).w = w1 at ho1
  have hne : n1 ≠ N := by
    intro e
    rw [e, h] at ho1
    have := congrArg Cfg.ctl ho1
    cases o <;> cases o1 <;> simp [Out.halt, mk, Out.ctl, Core.withBudgets] at this
  obtain ⟨m, hm⟩ : ∃ m, N = n1 + 1 + m := ⟨N - n1 - 1, by omega⟩
  have hh := fin_then_halts (c := c0) (o := o1) (w' := w1) (n := n1) ho1 m
  rw [← hm, h] at hh
  have hw : w' = w1 := by injection hh
  have ho : o.halt = o1.halt := by injection hh
  have ho' := halt_inj ho
  subst hw; subst ho'
  exact evalOp_complete op vmi w n1 o w' ho1 hmin
end Sq.Den
