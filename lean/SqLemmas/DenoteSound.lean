/-
  SqLemmas/DenoteSound.lean — the compositional semantics of Sq/Denote.lean and the abstract machine agree:
  whenever `evalOp` yields an outcome, the machine started on the same node reaches exactly that outcome and world
  (`evalOp_sound`), never returning out of its own continuation on the way.
-/
import Sq.Denote
import SqLemmas.FrameLemmas
set_option autoImplicit false
namespace Sq.Den
open Sq

variable {B : List Nat}

/-- the machine gets from core `c` to core `c'` in some number of steps, never returning out of its own continuation
    on the way -/
def Steps (B : List Nat) (c c' : Core) : Prop :=
  ∃ n, run n (c.withBudgets B) = c'.withBudgets B ∧ ∀ i, i < n → ¬ Underflow (run i (c.withBudgets B)).core

theorem Steps.refl (c : Core) : Steps B c c := ⟨0, rfl, fun i hi => by omega⟩

theorem run_add' (a b : Nat) (c : Cfg) : run (a + b) c = run b (run a c) := by
  induction a generalizing c with
  | zero => simp [run]
  | succ a ih => rw [Nat.succ_add, run, run, ih]

theorem Steps.trans {a b c : Core} (h1 : Steps B a b) (h2 : Steps B b c) : Steps B a c := by
  obtain ⟨n, e1, u1⟩ := h1
  obtain ⟨m, e2, u2⟩ := h2
  refine ⟨n + m, by rw [run_add', e1, e2], fun i hi => ?_⟩
  by_cases h : i < n
  · exact u1 i h
  · obtain ⟨j, rfl⟩ : ∃ j, i = n + j := ⟨i - n, by omega⟩
    rw [run_add', e1]
    exact u2 j (by omega)

theorem core_withBudgets (c : Core) : (c.withBudgets B).core = c := rfl

/-- one step, from any core that is not returning out of an empty continuation -/
theorem Steps.one (c : Core) (h : ¬ Underflow c) : Steps B c (stepCore B c) :=
  ⟨1, rfl, fun i hi => by
    have : i = 0 := by omega
    subst this; exact h⟩

/-- beneath extra frames `ks` the same steps happen, and `ks` is untouched -/
theorem Steps.under {c c' : Core} (h : Steps B c c') (ks : List Frame) : Steps B (c.app ks) (c'.app ks) := by
  obtain ⟨n, e, u⟩ := h
  have key : ∀ i, i ≤ n → run i ((c.app ks).withBudgets B) = (run i (c.withBudgets B)).app ks := by
    intro i hi
    exact run_app i (c.withBudgets B) ks (fun j hj => u j (by omega))
  refine ⟨n, by rw [key n (Nat.le_refl _), e]; rfl, fun i hi => ?_⟩
  rw [key i (by omega)]
  intro hu
  apply u i hi
  obtain ⟨hk, hc⟩ := hu
  simp only [Cfg.app, Cfg.core] at hk hc
  exact ⟨(List.append_eq_nil_iff.mp hk).1, hc⟩

def Out.ctl : Out → Ctl
  | .ret v => .ret v
  | .raise e => .raise e

/-- the finished core: outcome `o` handed to continuation `k` in world `w` -/
def mk (o : Out) (k : List Frame) (w : World) : Core := { ctl := o.ctl, k := k, w := w }

def mkP (p : Out × World) (k : List Frame) : Core := mk p.1 k p.2

theorem mkRet_eq (v : Val) (k : List Frame) (w : World) : mkRet v k w = mk (.ret v) k w := rfl
theorem mkRaise_eq (e : PyErr) (k : List Frame) (w : World) : mkRaise e k w = mk (.raise e) k w := rfl

/-! ### the leaf actions are what the machine does -/

theorem enter_name (n : Name) (vmi : Nat) (k : List Frame) (w : World) :
    enter (.name n) vmi k w = mkP (nameAct n vmi w) k := by
  unfold nameAct mkP
  simp only [enter]
  repeat' split
  all_goals simp_all [mk, mkRet, mkRaise, Out.ctl]

theorem resume_binR (bk : BinK) (va vb : Val) (k : List Frame) (w : World) :
    resume (.binR bk va) vb k w = mkP (binAct bk va vb w) k := by
  unfold binAct mkP
  simp only [resume]
  repeat' split
  all_goals simp_all [mk, mkRet, mkRaise, Out.ctl]

theorem resume_unK (uk : UnK) (v : Val) (k : List Frame) (w : World) :
    resume (.unK uk) v k w = mkP (unAct uk v w) k := by
  unfold unAct mkP
  simp only [resume]
  repeat' split
  all_goals simp_all [mk, mkRet, mkRaise, Out.ctl]

theorem resume_assignK (n : Name) (vmi : Nat) (v : Val) (k : List Frame) (w : World) :
    resume (.assignK n vmi) v k w = mkP (assignAct n vmi v w) k := by
  unfold assignAct mkP
  simp only [resume]
  repeat' split
  all_goals simp_all [mk, mkRet, mkRaise, Out.ctl]

theorem resume_shortK (n : Name) (sk : ShortK) (vmi : Nat) (v : Val) (k : List Frame) (w : World) :
    resume (.shortK n sk vmi) v k w = mkP (shortAct n sk vmi v w) k := by
  unfold shortAct mkP
  simp only [resume]
  repeat' split
  all_goals simp_all [mk, mkRet, mkRaise, Out.ctl]

theorem resume_dictK_last (done : List Val) (vmi : Nat) (v : Val) (k : List Frame) (w : World) :
    resume (.dictK done [] vmi) v k w = mkP (dictAct (v :: done).reverse w) k := by
  unfold dictAct mkP
  simp only [resume]
  repeat' split
  all_goals simp_all [mk, mkRet, mkRaise, Out.ctl]

theorem enter_dict_nil (vmi : Nat) (k : List Frame) (w : World) :
    enter (.dict []) vmi k w = mkP (dictAct [] w) k := rfl

theorem ofBR_pure (name : String) (args : List Val) (k : List Frame) (w : World) :
    ofBR (callPure name args w.bstate) k w = mkP (pureAct name args w) k := by
  unfold ofBR pureAct mkP
  cases callPure name args w.bstate with
  | error e => rfl
  | ok p => rfl

theorem callProbe_eq (args : List Val) (k : List Frame) (w : World) :
    callProbe args k w = mkP (probeAct args w) k := by
  unfold callProbe probeAct mkP
  cases args with
  | nil => rfl
  | cons a t =>
    cases t with
    | cons b t' => rfl
    | nil =>
      simp only []
      generalize Option.bind _ _ = act
      rcases act with _ | (v | e) <;> rfl

theorem sortFinish_eq (keys items : List Val) (rev dm : Bool) (k : List Frame) (w : World) :
    sortFinish keys items rev dm k w = mkP (sortAct keys items rev dm w) k := by
  unfold sortFinish sortAct mkP
  cases sortedBy w.heap keys items rev with
  | error e => rfl
  | ok sorted => cases dm <;> rfl

/-- the core a higher-order builtin hands over -/
def startCore (st : Start) (it : IterFn) (k : List Frame) (w : World) : Core :=
  match st with
  | .now o w' => mk o k w'
  | .iter kind g src acc => it kind g src acc k w

theorem callMap_eq (it : IterFn) (args : List Val) (k : List Frame) (w : World) :
    callMap it args k w = startCore (mapStart args w) it k w := by
  rcases args with _ | ⟨c, _ | ⟨g, _ | ⟨x, t⟩⟩⟩ <;> try rfl
  cases c <;> try rfl
  rename_i a
  unfold callMap mapStart
  simp only []
  cases w.heap.get? a with
  | none => rfl
  | some o => cases o <;> rfl

theorem callFilter_eq (it : IterFn) (args : List Val) (k : List Frame) (w : World) :
    callFilter it args k w = startCore (filterStart args w) it k w := by
  rcases args with _ | ⟨c, _ | ⟨g, _ | ⟨x, t⟩⟩⟩ <;> try rfl
  all_goals (cases g <;> cases c <;> try rfl)
  all_goals
    unfold callFilter filterStart
    simp only []
    generalize w.heap.get? _ = o
    rcases o with _ | (_ | _) <;> rfl

theorem callReduce_eq (it : IterFn) (args : List Val) (k : List Frame) (w : World) :
    callReduce it args k w = startCore (reduceStart args w) it k w := by
  rcases args with _ | ⟨c, _ | ⟨g, _ | ⟨x, t⟩⟩⟩ <;> try rfl
  unfold callReduce reduceStart
  cases c <;> try rfl
  all_goals
    simp only []
    generalize iterItems w.heap _ = r
    rcases r with e | (_ | ⟨x, rest⟩)
    · cases e <;> rfl
    · rfl
    · rfl

theorem callSorted_eq (it : IterFn) (args : List Val) (k : List Frame) (w : World) :
    callSorted it args k w = startCore (sortedStart args w) it k w := by
  rcases args with _ | ⟨c, rest⟩
  · rfl
  unfold callSorted sortedStart
  simp only []
  split
  · rfl
  · generalize (if isDict w.heap c = true then _ else iterItems w.heap c) = itemsR
    generalize reverseFlag w.heap _ = rv
    rcases itemsR with e | items
    · rfl
    · rcases rv with e | rev
      · rfl
      · simp only []
        generalize hkey : rest.headD Val.none = key
        cases key <;> simp only [sortFinish_eq] <;> first | rfl | (split <;> first | rfl | (split <;> rfl))
/-! ### gluing sub-evaluations -/

/-- the machine, started on core `c`, finishes with outcome `o` in world `w'` -/
def Fin (B : List Nat) (c : Core) (o : Out) (w' : World) : Prop := Steps B c (mk o [] w')

/-- what the machine does when outcome `o` reaches frame `fr` -/
def after (fr : Frame) (o : Out) (k : List Frame) (w : World) : Core :=
  match o with
  | .ret v => resume fr v k w
  | .raise e => unwind fr e k w

theorem Fin.under {c : Core} {o : Out} {w1 : World} (h : Fin B c o w1) (ks : List Frame) :
    Steps B (c.app ks) (mk o ks w1) := Steps.under h ks

/-- a finished sub-evaluation hands its outcome to the frame beneath it -/
theorem sub_then {c : Core} {o : Out} {w1 : World} (h : Fin B c o w1) (fr : Frame) (k : List Frame) :
    Steps B (c.app (fr :: k)) (after fr o k w1) := by
  refine (h.under (fr :: k)).trans ?_
  have hu : ¬ Underflow (mk o (fr :: k) w1) := fun hu => by cases hu.1
  have := Steps.one (B := B) (mk o (fr :: k) w1) hu
  cases o <;> exact this

theorem ev_app (op : Op) (vmi : Nat) (ks : List Frame) (w : World) :
    ({ ctl := .ev op vmi, k := [], w := w } : Core).app ks = { ctl := .ev op vmi, k := ks, w := w } := rfl

/-- entering a node: the charge, then the dispatch -/
theorem enter_steps {op : Op} {vmi : Nat} {k : List Frame} {w0 w : World} (h : charge w0 B vmi = some (w, none)) :
    Steps B { ctl := .ev op vmi, k := k, w := w0 } (enter op vmi k w) := by
  have hu : ¬ Underflow ({ ctl := .ev op vmi, k := k, w := w0 } : Core) := fun hu => by
    rcases hu.2 with ⟨v, hv⟩ | ⟨e, he⟩ <;> cases ‹_›
  have := Steps.one (B := B) _ hu
  simpa [stepCore, h] using this

theorem limit_steps {op : Op} {vmi : Nat} {k : List Frame} {w0 w : World} {m : Nat} (h : charge w0 B vmi = some (w, some m)) :
    Steps B { ctl := .ev op vmi, k := k, w := w0 } (mk (.raise (.opsLimit m)) k w) := by
  have hu : ¬ Underflow ({ ctl := .ev op vmi, k := k, w := w0 } : Core) := fun hu => by
    rcases hu.2 with ⟨v, hv⟩ | ⟨e, he⟩ <;> cases ‹_›
  have := Steps.one (B := B) _ hu
  simpa [stepCore, h, mk, Out.ctl] using this

theorem novm_steps {op : Op} {vmi : Nat} {k : List Frame} {w0 : World} (h : charge w0 B vmi = none) :
    Steps B { ctl := .ev op vmi, k := k, w := w0 } (mk (.raise (.unmodelled "vm")) k w0) := by
  have hu : ¬ Underflow ({ ctl := .ev op vmi, k := k, w := w0 } : Core) := fun hu => by
    rcases hu.2 with ⟨v, hv⟩ | ⟨e, he⟩ <;> cases ‹_›
  have := Steps.one (B := B) _ hu
  simpa [stepCore, h, mk, Out.ctl] using this

theorem andThen_some {r : Res} {g : Val → World → Res} {o : Out} {w' : World} (h : andThen r g = some (o, w')) :
    (∃ e, r = some (.raise e, w') ∧ o = .raise e) ∨ (∃ v w1, r = some (.ret v, w1) ∧ g v w1 = some (o, w')) := by
  unfold andThen at h
  split at h
  · exact Or.inr ⟨_, _, rfl, h⟩
  · cases h; exact Or.inl ⟨_, rfl, rfl⟩
  · cases h

/-- **one operand beneath a frame** that lets errors pass: evaluate the operand (by the induction hypothesis), then
    continue from what the frame does with its value -/
theorem operand_frame {f : Nat} (ihop : ∀ op vmi w o w', evalOp B f op vmi w = some (o, w') → Fin B { ctl := .ev op vmi, k := [], w := w } o w')
    (fr : Frame) (hunw : ∀ e k w, unwind fr e k w = mkRaise e k w)
    {a : Op} {vmi : Nat} {w : World} {g : Val → World → Res} {o : Out} {w' : World}
    (h : andThen (evalOp B f a vmi w) g = some (o, w'))
    (hk : ∀ v w1, g v w1 = some (o, w') → Steps B (resume fr v [] w1) (mk o [] w')) :
    Steps B { ctl := .ev a vmi, k := [fr], w := w } (mk o [] w') := by
  rcases andThen_some h with ⟨e, hr, rfl⟩ | ⟨v, w1, hr, hg⟩
  · have := sub_then (ihop _ _ _ _ _ hr) fr []
    rw [ev_app] at this
    simpa [after, hunw, mkRaise_eq] using this
  · have := sub_then (ihop _ _ _ _ _ hr) fr []
    rw [ev_app] at this
    exact this.trans (hk v w1 hg)

/-- a frame that collects the values of a list of expressions (call arguments, dict parts) -/
structure ListFrame (vmi : Nat) where
  F : List Val → List Op → Frame
  fin : List Val → World → Core
  next : ∀ done nxt rest v w, resume (F done (nxt :: rest)) v [] w = { ctl := .ev nxt vmi, k := [F (v :: done) rest], w := w }
  last : ∀ done v w, resume (F done []) v [] w = fin (v :: done).reverse w
  unw : ∀ done todo e k w, unwind (F done todo) e k w = mkRaise e k w

def argsLF (n : Name) (vmi : Nat) : ListFrame vmi where
  F := fun done todo => .argsK n done todo vmi
  fin := fun vs w => doCall n vs vmi [] w
  next := fun _ _ _ _ _ => rfl
  last := fun _ _ _ => rfl
  unw := fun _ _ _ _ _ => rfl

def dictLF (vmi : Nat) : ListFrame vmi where
  F := fun done todo => .dictK done todo vmi
  fin := fun vs w => mkP (dictAct vs w) []
  next := fun _ _ _ _ _ => rfl
  last := fun done v w => resume_dictK_last done vmi v [] w
  unw := fun _ _ _ _ _ => rfl

def listGoal {vmi : Nat} (LF : ListFrame vmi) (done : List Val) (r : Except PyErr (List Val)) (w1 : World) : Core :=
  match r with
  | .ok vs => LF.fin (done.reverse ++ vs) w1
  | .error e => mk (.raise e) [] w1

/-- the induction hypothesis: soundness of all six functions at fuel `f` -/
structure Sound (B : List Nat) (f : Nat) : Prop where
  op : ∀ op vmi w o w', evalOp B f op vmi w = some (o, w') → Fin B { ctl := .ev op vmi, k := [], w := w } o w'
  lines : ∀ l rest vmi w o w', evalLines B f l rest vmi w = some (o, w') →
    Fin B { ctl := .ev l vmi, k := [.codeK rest vmi], w := w } o w'
  list : ∀ a rest vmi w r w1, evalList B f (a :: rest) vmi w = some (r, w1) → ∀ (LF : ListFrame vmi) (done : List Val),
    Steps B { ctl := .ev a vmi, k := [LF.F done rest], w := w } (listGoal LF done r w1)
  call : ∀ tf fn args w o w', applyVal B f tf fn args w = some (o, w') → Fin B (callVal tf fn args [] w) o w'
  start : ∀ tf st w o w', startThen B f tf st w = some (o, w') → Fin B (startCore st (iterNext tf) [] w) o w'
  iter : ∀ tf kind g src acc w o w', iterate B f tf kind g src acc w = some (o, w') →
    Fin B (iterNext tf kind g src acc [] w) o w'

theorem sound_zero : Sound B 0 where
  op := fun _ _ _ _ _ h => by simp [evalOp] at h
  lines := fun _ _ _ _ _ _ h => by simp [evalLines] at h
  list := fun _ _ _ _ _ _ h => by simp [evalList] at h
  call := fun _ _ _ _ _ _ h => by simp [applyVal] at h
  start := fun _ _ _ _ _ h => by simp [startThen] at h
  iter := fun _ _ _ _ _ _ _ _ h => by simp [iterate] at h

variable {f : Nat}

theorem lines_succ (ih : Sound B f) : ∀ l rest vmi w o w', evalLines B (f + 1) l rest vmi w = some (o, w') →
    Fin B { ctl := .ev l vmi, k := [.codeK rest vmi], w := w } o w' := by
  intro l rest vmi w o w' h
  simp only [evalLines] at h
  refine operand_frame ih.op (.codeK rest vmi) (fun _ _ _ => rfl) h ?_
  intro v w1 hg
  cases rest with
  | nil => cases hg; exact Steps.refl _
  | cons l' rest' => exact ih.lines _ _ _ _ _ _ hg

theorem list_succ (ih : Sound B f) : ∀ a rest vmi w r w1, evalList B (f + 1) (a :: rest) vmi w = some (r, w1) →
    ∀ (LF : ListFrame vmi) (done : List Val),
    Steps B { ctl := .ev a vmi, k := [LF.F done rest], w := w } (listGoal LF done r w1) := by
  intro a rest vmi w r w1 h LF done
  simp only [evalList] at h
  cases ha : evalOp B f a vmi w with
  | none => simp [ha] at h
  | some p =>
    obtain ⟨oa, wa⟩ := p
    have s1 := sub_then (ih.op _ _ _ _ _ ha) (LF.F done rest) []
    rw [ev_app] at s1
    cases oa with
    | raise e =>
      simp only [ha] at h
      cases h
      simpa [after, LF.unw, listGoal, mkRaise_eq] using s1
    | ret v =>
      simp only [ha] at h
      cases rest with
      | nil =>
        cases f with
        | zero => simp [evalList] at h
        | succ f' =>
          simp only [evalList] at h
          cases h
          refine s1.trans ?_
          simp only [after, LF.last, listGoal]
          rw [List.reverse_cons]
          exact Steps.refl _
      | cons b rest' =>
        cases hr : evalList B f (b :: rest') vmi wa with
        | none => simp [hr] at h
        | some q =>
          obtain ⟨r2, w2⟩ := q
          have s2 := ih.list _ _ _ _ _ _ hr LF (v :: done)
          refine s1.trans ?_
          simp only [after, LF.next]
          refine s2.trans ?_
          cases r2 with
          | error e => simp only [hr] at h; cases h; exact Steps.refl _
          | ok vs =>
            simp only [hr] at h; cases h
            simp only [listGoal, List.reverse_cons, List.append_assoc, List.singleton_append]
            exact Steps.refl _

theorem callVal_app_nil (tf : Nat) (fn : Val) (args : List Val) (ks : List Frame) (w : World) :
    (callVal tf fn args [] w).app ks = callVal tf fn args ks w := by
  have := (call_app (k0 := ks) tf).1 fn args [] w
  simpa using this.symm

theorem iterNext_app_nil (tf : Nat) (kind : IterKind) (g : Val) (src : IterSrc) (acc : List Val) (ks : List Frame) (w : World) :
    (iterNext tf kind g src acc [] w).app ks = iterNext tf kind g src acc ks w := by
  have := (call_app (k0 := ks) tf).2 kind g src acc [] w
  simpa using this.symm

theorem iterNext_done (tf : Nat) (kind : IterKind) (g : Val) (src : IterSrc) (acc : List Val) (k : List Frame) (w : World)
    (hn : nextItem w.heap src = none) : iterNext (tf + 1) kind g src acc k w = mkP (iterDone kind acc w) k := by
  simp only [iterNext, hn]
  cases kind <;> first | rfl | exact sortFinish_eq _ _ _ _ _ _

theorem iterNext_some (tf : Nat) (kind : IterKind) (g : Val) (src src' : IterSrc) (item acc : List Val) (k : List Frame)
    (w : World) (hn : nextItem w.heap src = some (item, src')) :
    iterNext (tf + 1) kind g src acc k w =
      callVal tf g (cbArgs kind acc item) (.iterK kind g src' (item.headD .none) acc :: k) w := by
  simp only [iterNext, hn]
  cases kind <;> rfl

theorem resume_iterK (kind : IterKind) (g : Val) (src : IterSrc) (cur : Val) (acc : List Val) (v : Val) (k : List Frame)
    (w : World) : resume (.iterK kind g src cur acc) v k w = iterNext callFuel kind g src (accAfter kind w.heap v cur acc) k w := by
  cases kind <;> rfl

theorem iter_succ (ih : Sound B f) : ∀ tf kind g src acc w o w', iterate B (f + 1) tf kind g src acc w = some (o, w') →
    Fin B (iterNext tf kind g src acc [] w) o w' := by
  intro tf kind g src acc w o w' h
  cases tf with
  | zero =>
    simp only [iterate] at h
    cases h
    exact Steps.refl _
  | succ tf =>
    simp only [iterate] at h
    cases hn : nextItem w.heap src with
    | none =>
      have h' : iterDone kind acc w = (o, w') := by simpa [hn] using h
      rw [iterNext_done _ _ _ _ _ _ _ hn, h']
      exact Steps.refl _
    | some p =>
      obtain ⟨item, src'⟩ := p
      simp only [hn] at h
      rw [iterNext_some _ _ _ _ _ _ _ _ _ hn]
      rcases andThen_some h with ⟨e, hr, rfl⟩ | ⟨v, w1, hr, hg⟩
      · have := sub_then (ih.call _ _ _ _ _ _ hr) (.iterK kind g src' (item.headD .none) acc) []
        rw [callVal_app_nil] at this
        exact this
      · have := sub_then (ih.call _ _ _ _ _ _ hr) (.iterK kind g src' (item.headD .none) acc) []
        rw [callVal_app_nil] at this
        refine this.trans ?_
        simp only [after, resume_iterK]
        exact ih.iter _ _ _ _ _ _ _ _ hg

theorem start_succ (ih : Sound B f) : ∀ tf st w o w', startThen B (f + 1) tf st w = some (o, w') →
    Fin B (startCore st (iterNext tf) [] w) o w' := by
  intro tf st w o w' h
  cases st with
  | now o1 w1 =>
    simp only [startThen] at h
    cases h
    exact Steps.refl _
  | iter kind g src acc =>
    simp only [startThen] at h
    exact ih.iter _ _ _ _ _ _ _ _ h

theorem resume_popScopeK (vmi : Nat) (v : Val) (k : List Frame) (w : World) :
    resume (.popScopeK vmi) v k w = mkP (popScope vmi (.ret v) w) k := by
  unfold popScope mkP
  simp only [resume]
  cases w.vm? vmi <;> rfl

theorem unwind_popScopeK (vmi : Nat) (e : PyErr) (k : List Frame) (w : World) :
    unwind (.popScopeK vmi) e k w = mkP (popScope vmi (.raise e) w) k := by
  unfold popScope mkP
  simp only [unwind]
  cases w.vm? vmi <;> rfl

theorem after_popScopeK (vmi : Nat) (o : Out) (k : List Frame) (w : World) :
    after (.popScopeK vmi) o k w = mkP (popScope vmi o w) k := by
  cases o
  · exact resume_popScopeK vmi _ k w
  · exact unwind_popScopeK vmi _ k w

theorem after_tryK (o : Out) (k : List Frame) (w : World) : after .tryK o k w = mkP (tryAct o w) k := by
  cases o with
  | ret v => rfl
  | raise e =>
    unfold after tryAct mkP
    simp only [unwind]
    cases e <;> rfl

theorem call_succ (ih : Sound B f) : ∀ tf fn args w o w', applyVal B (f + 1) tf fn args w = some (o, w') →
    Fin B (callVal tf fn args [] w) o w' := by
  intro tf fn args w o w' h
  cases tf with
  | zero =>
    simp only [applyVal] at h
    cases h
    exact Steps.refl _
  | succ tf =>
    cases fn with
    | closure params body vmi =>
      simp only [applyVal] at h
      simp only [callVal, callClosure]
      cases hb : bindParams params args [] with
      | none => simp only [hb] at h; cases h; exact Steps.refl _
      | some kvs =>
        simp only [hb] at h ⊢
        cases hv : w.vm? vmi with
        | none => simp only [hv] at h; cases h; exact Steps.refl _
        | some vm =>
          simp only [hv] at h ⊢
          split at h
          · cases h
          · rename_i o1 w1 hbody
            have s1 := sub_then (ih.op _ _ _ _ _ hbody) (.popScopeK vmi) []
            rw [ev_app, after_popScopeK] at s1
            have h' : popScope vmi o1 w1 = (o, w') := by simpa using h
            rw [h'] at s1
            exact s1
    | builtin name =>
      simp only [applyVal] at h
      simp only [callVal]
      split at h
      · rename_i hm
        simp only [hm, if_true, callMap_eq]
        exact ih.start _ _ _ _ _ h
      · rename_i hm
        simp only [hm, if_false]
        split at h
        · rename_i ht
          simp only [ht, if_true]
          cases h; exact Steps.refl _
        · rename_i ht
          simp only [ht, if_false]
          split at h
          · rename_i h1
            simp only [h1, if_true, callFilter_eq]
            exact ih.start _ _ _ _ _ h
          · rename_i h1
            simp only [h1, if_false]
            split at h
            · rename_i h2
              simp only [h2, if_true, callReduce_eq]
              exact ih.start _ _ _ _ _ h
            · rename_i h2
              simp only [h2, if_false]
              split at h
              · rename_i h3
                simp only [h3, if_true, callSorted_eq]
                exact ih.start _ _ _ _ _ h
              · rename_i h3
                simp only [h3, if_false, ofBR_pure]
                have h' : pureAct name args w = (o, w') := by simpa using h
                rw [h']
                exact Steps.refl _
    | host id =>
      unfold applyVal at h
      simp only [] at h
      simp only [callVal]
      split at h
      · rename_i hp
        simp only [hp, if_true, callProbe_eq]
        have h' : probeAct args w = (o, w') := by simpa using h
        rw [h']
        exact Steps.refl _
      · rename_i hp
        simp only [hp, if_false]
        split at h
        · rename_i ha
          simp only [ha, if_true]
          cases args with
          | nil => cases h; exact Steps.refl _
          | cons g rest => exact ih.call _ _ _ _ _ _ h
        · rename_i ha
          simp only [ha, if_false]
          split at h
          · rename_i ht
            simp only [ht, if_true]
            cases args with
            | nil => cases h; exact Steps.refl _
            | cons g rest =>
              simp only [] at h ⊢
              split at h
              · cases h
              · rename_i o1 w1 hin
                have s1 := sub_then (ih.call _ _ _ _ _ _ hin) .tryK []
                rw [callVal_app_nil, after_tryK] at s1
                have h' : tryAct o1 w1 = (o, w') := by simpa using h
                rw [h'] at s1
                exact s1
          · rename_i ht
            simp only [ht, if_false]
            cases h; exact Steps.refl _
    | «opaque» s => simp only [applyVal] at h; cases h; exact Steps.refl _
    | none => simp only [applyVal] at h; cases h; exact Steps.refl _
    | bool b => simp only [applyVal] at h; cases h; exact Steps.refl _
    | dec d c => simp only [applyVal] at h; cases h; exact Steps.refl _
    | int i => simp only [applyVal] at h; cases h; exact Steps.refl _
    | str s => simp only [applyVal] at h; cases h; exact Steps.refl _
    | slice a b c => simp only [applyVal] at h; cases h; exact Steps.refl _
    | ref a => simp only [applyVal] at h; cases h; exact Steps.refl _
    | tuple vs => simp only [applyVal] at h; cases h; exact Steps.refl _

theorem doCall_eq (n : Name) (vs : List Val) (vmi : Nat) (k : List Frame) (w : World) :
    doCall n vs vmi k w =
      match w.vm? vmi with
      | none => mk (.raise (.unmodelled "vm")) k w
      | some vm => match lookupName w.heap vm.scopes n with
        | none => mk (.raise (.parser "Undefined function")) k w
        | some fn => callVal callFuel fn vs k w := by
  unfold doCall
  cases w.vm? vmi with
  | none => rfl
  | some vm => simp only []; cases lookupName w.heap vm.scopes n <;> rfl

/-- the callee lookup and the call, as `evalOp` does them after the arguments -/
theorem call_tail (ih : Sound B f) {n : Name} {vs : List Val} {vmi : Nat} {w1 : World} {o : Out} {w' : World}
    (h : (match w1.vm? vmi with
          | none => some (Out.raise (.unmodelled "vm"), w1)
          | some vm => match lookupName w1.heap vm.scopes n with
            | none => some (Out.raise (.parser "Undefined function"), w1)
            | some fn => applyVal B f callFuel fn vs w1) = some (o, w')) :
    Steps B (doCall n vs vmi [] w1) (mk o [] w') := by
  rw [doCall_eq]
  cases hv : w1.vm? vmi with
  | none => simp only [hv] at h ⊢; cases h; exact Steps.refl _
  | some vm =>
    simp only [hv] at h ⊢
    cases hl : lookupName w1.heap vm.scopes n with
    | none => simp only [hl] at h ⊢; cases h; exact Steps.refl _
    | some fn => simp only [hl] at h ⊢; exact ih.call _ _ _ _ _ _ h

theorem op_succ (ih : Sound B f) : ∀ op vmi w o w', evalOp B (f + 1) op vmi w = some (o, w') →
    Fin B { ctl := .ev op vmi, k := [], w := w } o w' := by
  intro op vmi w0 o w' h
  unfold evalOp at h
  cases hc : charge w0 B vmi with
  | none => simp only [hc] at h; cases h; exact novm_steps hc
  | some p =>
    obtain ⟨w, lim⟩ := p
    cases lim with
    | some m => simp only [hc] at h; cases h; exact limit_steps hc
    | none =>
      simp only [hc] at h
      refine (enter_steps (op := op) (k := []) hc).trans ?_
      cases op with
      | noop => cases h; exact Steps.refl _
      | value l => cases h; cases l <;> exact Steps.refl _
      | code ls =>
        cases ls with
        | nil => cases h; exact Steps.refl _
        | cons l rest => exact ih.lines _ _ _ _ _ _ h
      | bin bk a b =>
        simp only [] at h
        refine operand_frame ih.op (.binL bk b vmi) (fun _ _ _ => rfl) h ?_
        intro va w1 hg
        have hand : bk = .and → Steps B (resume (.binL bk b vmi) va [] w1) (mk o [] w') := by
          rintro rfl
          simp only [resume]
          simp only [] at hg
          split
          · rename_i ht; simp only [ht, if_true] at hg; exact ih.op _ _ _ _ _ hg
          · rename_i ht; simp only [ht] at hg; cases hg; exact Steps.refl _
        have hor : bk = .or → Steps B (resume (.binL bk b vmi) va [] w1) (mk o [] w') := by
          rintro rfl
          simp only [resume]
          simp only [] at hg
          split
          · rename_i ht; simp only [ht, if_true] at hg; cases hg; exact Steps.refl _
          · rename_i ht; simp only [ht] at hg; exact ih.op _ _ _ _ _ hg
        have hstrict : bk ≠ .and → bk ≠ .or →
            andThen (evalOp B f b vmi w1) (fun vb w2 => some (binAct bk va vb w2)) = some (o, w') →
            Steps B (resume (.binL bk b vmi) va [] w1) (mk o [] w') := by
          intro h1 h2 hg'
          have e : resume (.binL bk b vmi) va [] w1 = { ctl := .ev b vmi, k := [.binR bk va], w := w1 } := by
            cases bk <;> first | rfl | exact absurd rfl h1 | exact absurd rfl h2
          rw [e]
          refine operand_frame ih.op (.binR bk va) (fun _ _ _ => rfl) hg' ?_
          intro vb w2 hb
          rw [resume_binR]
          have : binAct bk va vb w2 = (o, w') := by simpa using hb
          rw [this]; exact Steps.refl _
        cases bk
        case and => exact hand rfl
        case or => exact hor rfl
        all_goals exact hstrict (by simp) (by simp) hg
      | unary uk a =>
        refine operand_frame ih.op (.unK uk) (fun _ _ _ => rfl) h ?_
        intro v w1 hg
        rw [resume_unK]
        have : unAct uk v w1 = (o, w') := by simpa using hg
        rw [this]; exact Steps.refl _
      | assign n a =>
        refine operand_frame ih.op (.assignK n vmi) (fun _ _ _ => rfl) h ?_
        intro v w1 hg
        rw [resume_assignK]
        have : assignAct n vmi v w1 = (o, w') := by simpa using hg
        rw [this]; exact Steps.refl _
      | short n sk a =>
        refine operand_frame ih.op (.shortK n sk vmi) (fun _ _ _ => rfl) h ?_
        intro v w1 hg
        rw [resume_shortK]
        have : shortAct n sk vmi v w1 = (o, w') := by simpa using hg
        rw [this]; exact Steps.refl _
      | name n =>
        rw [enter_name]
        have : nameAct n vmi w = (o, w') := by simpa using h
        rw [this]; exact Steps.refl _
      | ifx c a b =>
        refine operand_frame ih.op (.ifK a b vmi) (fun _ _ _ => rfl) h ?_
        intro vc w1 hg
        simp only [resume]
        split
        · rename_i ht; simp only [ht, if_true] at hg; exact ih.op _ _ _ _ _ hg
        · rename_i ht; simp only [ht] at hg; exact ih.op _ _ _ _ _ hg
      | slice a b c =>
        refine operand_frame ih.op (.sliceK [] [b, c] vmi) (fun _ _ _ => rfl) h ?_
        intro va w1 hg
        simp only [resume]
        cases ca : safeCastInt va with
        | error e => simp only [ca] at hg ⊢; cases hg; exact Steps.refl _
        | ok xa =>
          simp only [ca] at hg ⊢
          refine operand_frame ih.op (.sliceK [xa] [c] vmi) (fun _ _ _ => rfl) hg ?_
          intro vb w2 hg2
          simp only [resume]
          cases cb : safeCastInt vb with
          | error e => simp only [cb] at hg2 ⊢; cases hg2; exact Steps.refl _
          | ok xb =>
            simp only [cb] at hg2 ⊢
            refine operand_frame ih.op (.sliceK [xb, xa] [] vmi) (fun _ _ _ => rfl) hg2 ?_
            intro vc w3 hg3
            simp only [resume]
            cases cc : safeCastInt vc with
            | error e => simp only [cc] at hg3 ⊢; cases hg3; exact Steps.refl _
            | ok xc => simp only [cc] at hg3 ⊢; cases hg3; exact Steps.refl _
      | call n args =>
        simp only [] at h
        cases args with
        | nil =>
          cases f with
          | zero => simp [evalList] at h
          | succ f' =>
            simp only [evalList] at h
            exact call_tail ih h
        | cons a rest =>
          cases hl : evalList B f (a :: rest) vmi w with
          | none => simp [hl] at h
          | some q =>
            obtain ⟨r, w1⟩ := q
            have s1 := ih.list _ _ _ _ _ _ hl (argsLF n vmi) []
            simp only [hl] at h
            refine Steps.trans s1 ?_
            cases r with
            | error e => cases h; exact Steps.refl _
            | ok vs =>
              simp only [listGoal, List.reverse_nil, List.nil_append]
              exact call_tail ih h
      | dict parts =>
        simp only [] at h
        cases parts with
        | nil =>
          cases f with
          | zero => simp [evalList] at h
          | succ f' =>
            simp only [evalList] at h
            rw [enter_dict_nil]
            have : dictAct [] w = (o, w') := by simpa using h
            rw [this]; exact Steps.refl _
        | cons a rest =>
          cases hl : evalList B f (a :: rest) vmi w with
          | none => simp [hl] at h
          | some q =>
            obtain ⟨r, w1⟩ := q
            have s1 := ih.list _ _ _ _ _ _ hl (dictLF vmi) []
            simp only [hl] at h
            refine Steps.trans s1 ?_
            cases r with
            | error e => cases h; exact Steps.refl _
            | ok vs =>
              simp only [listGoal, List.reverse_nil, List.nil_append]
              have : dictAct vs w1 = (o, w') := by simpa using h
              show Steps B (mkP (dictAct vs w1) []) _
              rw [this]; exact Steps.refl _
      | lambda ps body => cases h; exact Steps.refl _

/-- soundness at every fuel -/
theorem sound : ∀ f, Sound B f
  | 0 => sound_zero
  | f + 1 =>
    have ih := sound f
    { op := op_succ ih, lines := lines_succ ih, list := list_succ ih, call := call_succ ih,
      start := start_succ ih, iter := iter_succ ih }

/-! ### the statements -/

/-- **the compositional semantics is sound for the machine**: whenever `evalOp` yields outcome `o` and world `w'` for a
    node, the machine started on that node alone reaches exactly `o` (returning the value / raising the error) with an
    empty continuation in exactly the world `w'` — same value, same heap, same scopes, same operation counters, same
    log — and never returns out of its own continuation before -/
theorem evalOp_sound (f : Nat) (op : Op) (vmi : Nat) (w : World) (o : Out) (w' : World)
    (h : evalOp B f op vmi w = some (o, w')) :
    ∃ n, run n { ctl := .ev op vmi, k := [], w := w, budgets := B } = { ctl := o.ctl, k := [], w := w', budgets := B } ∧
      ∀ i, i < n → ¬ Underflow (run i { ctl := .ev op vmi, k := [], w := w, budgets := B }).core :=
  (sound f).op op vmi w o w' h

/-- … and so does every function value applied to arguments -/
theorem applyVal_sound (f tf : Nat) (fn : Val) (args : List Val) (w : World) (o : Out) (w' : World)
    (h : applyVal B f tf fn args w = some (o, w')) :
    ∃ n, run n ((callVal tf fn args [] w).withBudgets B) = { ctl := o.ctl, k := [], w := w', budgets := B } ∧
      ∀ i, i < n → ¬ Underflow (run i ((callVal tf fn args [] w).withBudgets B)).core :=
  (sound f).call tf fn args w o w' h

/-- how the machine halts on an outcome at top level -/
def Out.halt : Out → Ctl
  | .ret v => .done v
  | .raise e => .failed e

theorem run_halted_stable (c : Cfg) (h : c.halted = true) : ∀ n, run n c = c := by
  intro n
  induction n with
  | zero => rfl
  | succ n ih =>
    rw [run]
    have : step c = c := by
      obtain ⟨ctl, k, w, b⟩ := c
      cases ctl <;> simp [Cfg.halted] at h <;> rfl
    rw [this, ih]

/-- the machine's verdict: a finished sub-evaluation at top level halts one step later, for good -/
theorem fin_then_halts {c : Cfg} {o : Out} {w' : World} {n : Nat}
    (h : run n c = { ctl := o.ctl, k := [], w := w', budgets := c.budgets }) (m : Nat) :
    run (n + 1 + m) c = { ctl := o.halt, k := [], w := w', budgets := c.budgets } := by
  rw [run_add', run_add', h]
  have e1 : run 1 { ctl := o.ctl, k := [], w := w', budgets := c.budgets } =
      { ctl := o.halt, k := [], w := w', budgets := c.budgets } := by
    cases o <;> rfl
  rw [e1]
  exact run_halted_stable _ (by cases o <;> rfl) m

/-- **the outcome does not depend on the fuel**: two fuels that both suffice give the same outcome and world — fuel only
    bounds the recursion of the definition, it is not part of the meaning -/
theorem evalOp_fuel_irrelevant (f1 f2 : Nat) (op : Op) (vmi : Nat) (w : World) (r1 r2 : Out × World)
    (h1 : evalOp B f1 op vmi w = some r1) (h2 : evalOp B f2 op vmi w = some r2) : r1 = r2 := by
  obtain ⟨o1, w1⟩ := r1
  obtain ⟨o2, w2⟩ := r2
  obtain ⟨n1, e1, _⟩ := evalOp_sound f1 op vmi w o1 w1 h1
  obtain ⟨n2, e2, _⟩ := evalOp_sound f2 op vmi w o2 w2 h2
  have a1 := fin_then_halts (c := { ctl := .ev op vmi, k := [], w := w, budgets := B }) e1 (n2 + 1)
  have a2 := fin_then_halts (c := { ctl := .ev op vmi, k := [], w := w, budgets := B }) e2 (n1 + 1)
  have : n1 + 1 + (n2 + 1) = n2 + 1 + (n1 + 1) := by omega
  rw [this, a2] at a1
  have hw : w2 = w1 := by injection a1
  have hc : o2.halt = o1.halt := by injection a1
  subst hw
  cases o1 <;> cases o2 <;> simp [Out.halt] at hc <;> subst hc <;> rfl

/-- **a whole `eval` call**: if the semantics gives program `ast` the outcome `o` for the fresh VM state of the call, the
    machine started by `initCfg` halts with exactly that outcome (`done v` / `failed e`) and world -/
theorem eval_call_sound (f : Nat) (w : World) (bs : List Nat) (namesAddr budget : Nat) (ast : Op) (o : Out) (w' : World)
    (h : evalOp (bs ++ [budget]) f ast w.vms.length
          { w with vms := w.vms ++ [{ scopes := [namesAddr], ops := 0 }] } = some (o, w')) :
    ∃ n, ∀ m, run (n + 1 + m) (initCfg w bs namesAddr budget ast) =
      { ctl := o.halt, k := [], w := w', budgets := bs ++ [budget] } := by
  obtain ⟨n, e, _⟩ := evalOp_sound (B := bs ++ [budget]) f ast _ _ o w' h
  exact ⟨n, fun m => fin_then_halts (c := initCfg w bs namesAddr budget ast) e m⟩

-- PART3
end Sq.Den
