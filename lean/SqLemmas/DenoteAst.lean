/-
  SqLemmas/DenoteAst.lean — the compositional semantics for a whole `eval` call INCLUDING AST-supplied names
  (`ast_names`: each entry is evaluated in turn and bound in the top scope, then the program), sound and complete for the
  machine started by `initCfg`.
-/
import Sq.Denote
import SqLemmas.DenoteSound
import SqLemmas.DenoteComplete
import SqLemmas.DenoteHalt
set_option autoImplicit false
namespace Sq.Den
open Sq

variable {B : List Nat}

/-- the core `initCfg` starts from, for the remaining AST names -/
def astCore (names : List (Name × Op)) (main : Op) (vmi : Nat) (w : World) : Core :=
  match names with
  | [] => { ctl := .ev main vmi, k := [], w := w }
  | (n, op) :: rest => { ctl := .ev op vmi, k := [.astK n rest main vmi], w := w }

theorem resume_astK (n : Name) (rest : List (Name × Op)) (main : Op) (vmi : Nat) (v : Val) (w : World) :
    resume (.astK n rest main vmi) v [] w =
      match astBind n vmi v w with
      | .error p => mkP p []
      | .ok w2 => astCore rest main vmi w2 := by
  unfold astBind
  simp only [resume]
  cases w.vm? vmi with
  | none => rfl
  | some vm =>
    simp only []
    cases writeTop w.heap vm.scopes n v with
    | none => rfl
    | some h' => cases rest with
      | nil => rfl
      | cons p rest' => rfl

theorem evalAst_sound (f : Nat) : ∀ (names : List (Name × Op)) (main : Op) (vmi : Nat) (w : World) (o : Out) (w' : World),
    evalAst B f names main vmi w = some (o, w') → Fin B (astCore names main vmi w) o w' := by
  intro names
  induction names with
  | nil => intro main vmi w o w' h; exact (sound f).op _ _ _ _ _ h
  | cons p rest ih =>
    obtain ⟨n, op⟩ := p
    intro main vmi w o w' h
    simp only [evalAst] at h
    refine operand_frame (sound f).op (.astK n rest main vmi) (fun _ _ _ => rfl) h ?_
    intro v w1 hg
    rw [resume_astK]
    cases hb : astBind n vmi v w1 with
    | error p => simp only [hb] at hg ⊢; cases hg; exact Steps.refl _
    | ok w2 => simp only [hb] at hg ⊢; exact ih _ _ _ _ _ hg

theorem evalAst_mono {f g : Nat} (hfg : f ≤ g) : ∀ (names : List (Name × Op)) (main : Op) (vmi : Nat) (w : World)
    (r : Out × World), evalAst B f names main vmi w = some r → evalAst B g names main vmi w = some r := by
  intro names
  induction names with
  | nil => intro main vmi w r h; exact evalOp_mono hfg h
  | cons p rest ih =>
    obtain ⟨n, op⟩ := p
    intro main vmi w r h
    simp only [evalAst] at h ⊢
    refine andThen_mono (fun x hx => evalOp_mono hfg hx) ?_ h
    intro v w1 hg
    cases hb : astBind n vmi v w1 with
    | error p => simpa [hb] using hg
    | ok w2 => simp only [hb] at hg ⊢; exact ih _ _ _ _ hg

theorem evalAst_complete : ∀ (names : List (Name × Op)) (main : Op) (vmi : Nat) (w : World) (n : Nat) (o : Out) (w' : World),
    FinN B (astCore names main vmi w) n o w' → ∃ f, evalAst B f names main vmi w = some (o, w') := by
  intro names
  induction names with
  | nil => intro main vmi w n o w' h; exact (comp n).op _ _ _ _ _ h
  | cons p rest ih =>
    obtain ⟨nm, op⟩ := p
    intro main vmi w n o w' h
    obtain ⟨f1, o1, w1, he, hcase⟩ := operand_complete (N := n) (fun k _ => (comp k).op) (.astK nm rest main vmi)
      (fun _ _ _ => rfl) (Nat.le_refl n) h
    rcases hcase with ⟨e, rfl, rfl, rfl⟩ | ⟨v, m, rfl, hm, hfin⟩
    · exact ⟨f1, by simp only [evalAst]; rw [andThen_raise he]⟩
    · rw [resume_astK] at hfin
      cases hb : astBind nm vmi v w1 with
      | error p =>
        simp only [hb] at hfin
        obtain ⟨_, h2⟩ := hfin.of_mkP
        exact ⟨f1, by simp only [evalAst]; rw [andThen_ret he]; simp only [hb]; rw [h2]⟩
      | ok w2 =>
        simp only [hb] at hfin
        obtain ⟨f2, he2⟩ := ih _ _ _ _ _ _ hfin
        refine ⟨max f1 f2, ?_⟩
        simp only [evalAst]
        rw [andThen_ret (evalOp_mono (Nat.le_max_left f1 f2) he)]
        simp only [hb]
        exact evalAst_mono (Nat.le_max_right f1 f2) _ _ _ _ _ he2

/-- from a halted machine back to "finished": a live core that halts passed, for the first time, through an outcome with
    an empty continuation -/
theorem halt_to_finN (c : Core) (hl0 : Live c) (N : Nat) (o : Out) (w' : World) (k' : List Frame)
    (h : run N (c.withBudgets B) = { ctl := o.halt, k := k', w := w', budgets := B }) : ∃ n, FinN B c n o w' := by
  let c0 : Cfg := c.withBudgets B
  have hex : ∃ i, i ≤ N ∧ Underflow (run i c0).core := by
    apply Classical.byContradiction
    intro hno
    have hlive : ∀ i, i ≤ N → Live (run i c0).core := by
      intro i
      induction i with
      | zero => intro _; exact hl0
      | succ i ih =>
        intro hi
        have hl := ih (by omega)
        have hu : ¬ Underflow (run i c0).core := fun hu => hno ⟨i, by omega, hu⟩
        have e : run (i + 1) c0 = step (run i c0) := by rw [run_add' i 1]; rfl
        rw [e]
        show Live (stepCore (run i c0).budgets (run i c0).core)
        exact live_step _ _ hl hu
    have := hlive N (Nat.le_refl _)
    rw [h] at this
    cases o <;> simp [Live, Cfg.core, Out.halt] at this
  obtain ⟨n1, hle, hu, hmin⟩ := least_index _ N hex
  obtain ⟨hk, hctl⟩ := hu
  have hb : (run n1 c0).budgets = B := run_budgets n1 c0
  have hfin : ∃ o1, run n1 c0 = (mk o1 [] (run n1 c0).w).withBudgets B := by
    rcases hctl with ⟨v, hv⟩ | ⟨e, he⟩
    · refine ⟨.ret v, ?_⟩
      cases hc : run n1 c0 with
      | mk ctl k w1 b =>
        rw [hc] at hk hv hb
        simp only [Cfg.core] at hk hv
        simp only at hb
        subst hk; subst hv; subst hb; rfl
    · refine ⟨.raise e, ?_⟩
      cases hc : run n1 c0 with
      | mk ctl k w1 b =>
        rw [hc] at hk he hb
        simp only [Cfg.core] at hk he
        simp only at hb
        subst hk; subst he; subst hb; rfl
  obtain ⟨o1, ho1⟩ := hfin
  generalize (run n1 c0).w = w1 at ho1
  have hne : n1 ≠ N := by
    intro e
    rw [e, h] at ho1
    have := congrArg Cfg.ctl ho1
    cases o <;> cases o1 <;> simp [Out.halt, mk, Out.ctl, Core.withBudgets] at this
  obtain ⟨m, hm⟩ : ∃ m, N = n1 + 1 + m := ⟨N - n1 - 1, by omega⟩
  have hh := fin_then_halts (c := c0) (o := o1) (w' := w1) (n := n1) ho1 m
  rw [← hm, h] at hh
  have hw : w' = w1 := by injection hh
  have ho : o.halt = o1.halt := by injection hh
  have ho' := halt_inj ho
  subst hw; subst ho'
  exact ⟨n1, ho1, hmin⟩

theorem initCfg_core (w : World) (bs : List Nat) (namesAddr budget : Nat) (ast : Op) (astNames : List (Name × Op)) :
    initCfg w bs namesAddr budget ast astNames =
      (astCore astNames ast w.vms.length { w with vms := w.vms ++ [{ scopes := [namesAddr], ops := 0 }] }).withBudgets
        (bs ++ [budget]) := by
  cases astNames with
  | nil => rfl
  | cons p rest => obtain ⟨n, op⟩ := p; rfl

theorem live_astCore (names : List (Name × Op)) (main : Op) (vmi : Nat) (w : World) : Live (astCore names main vmi w) := by
  cases names with
  | nil => trivial
  | cons p rest => obtain ⟨n, op⟩ := p; trivial

/-- **a whole `eval` call, AST-supplied names included**: the machine started by `initCfg` halts with `done v` / `failed e`
    in world `w'` if and only if the compositional semantics prescribes `ret v` / `raise e` and `w'` -/
theorem eval_call_iff (w : World) (bs : List Nat) (namesAddr budget : Nat) (ast : Op) (astNames : List (Name × Op))
    (o : Out) (w' : World) :
    (∃ N, run N (initCfg w bs namesAddr budget ast astNames) = { ctl := o.halt, k := [], w := w', budgets := bs ++ [budget] }) ↔
    (∃ f, evalAst (bs ++ [budget]) f astNames ast w.vms.length
      { w with vms := w.vms ++ [{ scopes := [namesAddr], ops := 0 }] } = some (o, w')) := by
  rw [initCfg_core]
  constructor
  · rintro ⟨N, h⟩
    obtain ⟨n, hf⟩ := halt_to_finN _ (live_astCore _ _ _ _) N o w' [] h
    exact evalAst_complete _ _ _ _ n o w' hf
  · rintro ⟨f, hf⟩
    obtain ⟨n, hn, _⟩ := evalAst_sound f _ _ _ _ _ _ hf
    exact ⟨n + 1 + 0, fin_then_halts (c := (astCore astNames ast w.vms.length _).withBudgets (bs ++ [budget])) hn 0⟩
end Sq.Den
