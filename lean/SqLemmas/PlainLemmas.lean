/-
  SqLemmas/PlainLemmas.lean — C02 [B]: plain data in, plain data out.  `NP v`: the value contains no opaque (non-plain
  Python object) anywhere; `HeapNP h`: no object of the heap holds one.
-/
import Sq.Builtins
import SqLemmas.CopyLemmas
namespace Sq

/-- no opaque object anywhere inside the value -/
inductive NP : Val → Prop
  | none : NP .none
  | bool {x} : NP (.bool x)
  | dec {d c} : NP (.dec d c)
  | int {i} : NP (.int i)
  | str {s} : NP (.str s)
  | slice {x y z} : NP (.slice x y z)
  | ref {a} : NP (.ref a)
  | builtin {n} : NP (.builtin n)
  | closure {ps body vm} : NP (.closure ps body vm)
  | host {i} : NP (.host i)
  | tuple {vs} : (∀ v, v ∈ vs → NP v) → NP (.tuple vs)

def ObjNP : HObj → Prop
  | .list xs => ∀ v, v ∈ xs → NP v
  | .dict kvs => ∀ kv, kv ∈ kvs → NP kv.1 ∧ NP kv.2

def HeapNP (h : Heap) : Prop := ∀ a o, h.get? a = some o → ObjNP o

def AllNP (vs : List Val) : Prop := ∀ v, v ∈ vs → NP v

theorem heapNP_push {h : Heap} (hh : HeapNP h) {o : HObj} (ho : ObjNP o) : HeapNP (h.push o) := by
  intro a ob hg
  rw [get?_push] at hg
  split at hg
  · injection hg with hg; subst hg; exact ho
  · exact hh a ob hg

theorem heapNP_set {h : Heap} (hh : HeapNP h) (a : Nat) {o : HObj} (ho : ObjNP o) : HeapNP (h.set a o) := by
  intro b ob hg
  rw [get?_set] at hg
  split at hg
  · injection hg with hg; subst hg; exact ho
  · exact hh b ob hg

theorem allocList_np {s : BState} (hh : HeapNP s.heap) {xs : List Val} (hx : AllNP xs) :
    NP (allocList s xs).1 ∧ HeapNP (allocList s xs).2.heap := by
  simp only [allocList, Heap.alloc]
  exact ⟨.ref, heapNP_push hh hx⟩

end Sq
