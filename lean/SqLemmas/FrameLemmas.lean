/-
  SqLemmas/FrameLemmas.lean — the continuation is a stack (C07 `frame_lemma`, C09): every transition function of the
  machine only pushes frames on, or pops the head of, the continuation it is given, and is otherwise independent of it:
  `f … (k ++ k0) w = (f … k w).app k0`.  Hence a sub-evaluation runs the same steps whatever lies beneath it
  (`run_app`): the evaluation of a sub-expression does not depend on its context, and the context is untouched until the
  sub-evaluation returns or raises into it.
-/
import SqLemmas.MachineLemmas
namespace Sq

/-- the same core with `k0` beneath its continuation -/
def Core.app (c : Core) (k0 : List Frame) : Core := { c with k := c.k ++ k0 }

section
variable {k0 : List Frame}

theorem ofBR_app (r : BR) (k : List Frame) (w : World) : ofBR r (k ++ k0) w = (ofBR r k w).app k0 := by
  unfold ofBR
  split <;> rfl

theorem sortFinish_app (keys items : List Val) (rev dm : Bool) (k : List Frame) (w : World) :
    sortFinish keys items rev dm (k ++ k0) w = (sortFinish keys items rev dm k w).app k0 := by
  unfold sortFinish
  split
  · rfl
  · split <;> rfl

/-- an iteration continuation that leaves the op counters alone -/
def IterApp (k0 : List Frame) (it : IterFn) : Prop := ∀ kind g src acc k w, it kind g src acc (k ++ k0) w = (it kind g src acc k w).app k0

theorem callClosure_app (ps : List Op) (body : Op) (vmi : Nat) (args : List Val) (k : List Frame) (w : World) :
    callClosure ps body vmi args (k ++ k0) w = (callClosure ps body vmi args k w).app k0 := by
  unfold callClosure
  split
  · rfl
  · split
    · rfl
    · rename_i vm hv
      simp only [Heap.alloc]
      rfl

theorem callMap_app (it : IterFn) (hit : IterApp k0 it) (args : List Val) (k : List Frame) (w : World) :
    callMap it args (k ++ k0) w = (callMap it args k w).app k0 := by
  unfold callMap
  split
  · split
    · exact hit _ _ _ _ _ _
    · split
      · exact hit _ _ _ _ _ _
      · exact hit _ _ _ _ _ _
      · rfl
    · rfl
    · rfl
  · rfl

theorem callFilter_app (it : IterFn) (hit : IterApp k0 it) (args : List Val) (k : List Frame) (w : World) :
    callFilter it args (k ++ k0) w = (callFilter it args k w).app k0 := by
  unfold callFilter
  split
  · split
    · split <;> rfl
    · rfl
    · rfl
  · split
    · split
      · exact hit _ _ _ _ _ _
      · rfl
    · rfl
    · rfl
  · rfl

theorem callReduce_app (it : IterFn) (hit : IterApp k0 it) (args : List Val) (k : List Frame) (w : World) :
    callReduce it args (k ++ k0) w = (callReduce it args k w).app k0 := by
  unfold callReduce
  split
  · split
    · rfl
    · split
      · rfl
      · rfl
      · rfl
      · exact hit _ _ _ _ _ _
  · rfl

theorem callSorted_app (it : IterFn) (hit : IterApp k0 it) (args : List Val) (k : List Frame) (w : World) :
    callSorted it args (k ++ k0) w = (callSorted it args k w).app k0 := by
  unfold callSorted
  split
  · split
    · rfl
    · simp only []
      split
      · rfl
      · rfl
      · split
        · exact sortFinish_app _ _ _ _ _ _
        · rfl
        · split
          · exact hit _ _ _ _ _ _
          · split
            · exact sortFinish_app _ _ _ _ _ _
            · rfl
  · rfl

theorem callProbe_app (args : List Val) (k : List Frame) (w : World) : callProbe args (k ++ k0) w = (callProbe args k w).app k0 := by
  unfold callProbe
  split
  · simp only []
    split <;> rfl
  · rfl

/-- calling any function value, and continuing any iteration, never moves an op counter:
    the callee's body is charged later, when the machine reaches its `ev` steps -/
theorem call_app : ∀ (fuel : Nat),
    (∀ f args k w, callVal fuel f args (k ++ k0) w = (callVal fuel f args k w).app k0) ∧ IterApp k0 (iterNext fuel) := by
  intro fuel
  induction fuel with
  | zero => exact ⟨fun _ _ _ _ => rfl, fun _ _ _ _ _ _ => rfl⟩
  | succ fuel ih =>
    obtain ⟨ihc, ihi⟩ := ih
    constructor
    · intro f args k w
      unfold callVal
      split
      · exact callClosure_app _ _ _ _ _ _
      · split
        · exact callMap_app _ ihi _ _ _
        · split
          · rfl
          · split
            · exact callFilter_app _ ihi _ _ _
            · split
              · exact callReduce_app _ ihi _ _ _
              · split
                · exact callSorted_app _ ihi _ _ _
                · exact ofBR_app _ _ _
      · split
        · exact callProbe_app _ _ _
        · split
          · split
            · exact ihc _ _ _ _
            · rfl
          · split
            · split
              · exact ihc _ _ (.tryK :: k) _
              · rfl
            · rfl
      · rfl
      · rfl
    · intro kind g src acc k w
      unfold iterNext
      split
      · exact ihc _ _ (_ :: k) _
      · split
        · rfl
        · rfl
        · rfl
        · exact sortFinish_app _ _ _ _ _ _

theorem doCall_app (n : Name) (args : List Val) (vmi : Nat) (k : List Frame) (w : World) :
    doCall n args vmi (k ++ k0) w = (doCall n args vmi k w).app k0 := by
  unfold doCall
  split
  · rfl
  · split
    · rfl
    · exact (call_app callFuel).1 _ _ _ _

/-- dispatching on a node kind moves no op counter -/
theorem enter_app (op : Op) (vmi : Nat) (k : List Frame) (w : World) : enter op vmi (k ++ k0) w = (enter op vmi k w).app k0 := by
  unfold enter
  split <;> first | rfl | (split <;> first | rfl | (split <;> rfl)) | exact doCall_app _ _ _ _ _

/-- a value returned to a frame moves no op counter -/
theorem resume_app (fr : Frame) (v : Val) (k : List Frame) (w : World) : resume fr v (k ++ k0) w = (resume fr v k w).app k0 := by
  cases fr with
  | codeK rest vm => cases rest <;> rfl
  | binL bk b vm =>
    unfold resume
    cases bk <;> simp only [] <;> first | rfl | (split <;> rfl)
  | binR bk va =>
    unfold resume
    simp only []
    split
    · rfl
    · rfl
  | unK uk =>
    unfold resume
    simp only []
    split <;> rfl
  | assignK n vm =>
    unfold resume
    simp only []
    split
    · rfl
    · split
      · rfl
      · split <;> rfl
  | shortK n sk vm =>
    unfold resume
    simp only []
    split
    · rfl
    · split
      · rfl
      · split
        · rfl
        · split
          · rfl
          · split <;> rfl
  | ifK a b vm =>
    unfold resume
    simp only []
    split <;> rfl
  | sliceK done todo vm =>
    unfold resume
    simp only []
    split
    · rfl
    · split
      · rfl
      · split <;> rfl
  | argsK n done todo vm =>
    unfold resume
    simp only []
    split
    · rfl
    · exact doCall_app _ _ _ _ _
  | dictK done todo vm =>
    unfold resume
    simp only []
    split
    · rfl
    · split <;> rfl
  | popScopeK vm =>
    unfold resume
    simp only []
    split
    · rfl
    · rename_i vmv hv
      rfl
  | iterK kind g src cur acc =>
    unfold resume
    simp only []
    exact (call_app callFuel).2 _ _ _ _ _ _
  | tryK => rfl
  | astK n rest main vm =>
    unfold resume
    simp only []
    split
    · rfl
    · split
      · rfl
      · split <;> rfl

/-- an error passing a frame moves no op counter -/
theorem unwind_app (fr : Frame) (e : PyErr) (k : List Frame) (w : World) : unwind fr e (k ++ k0) w = (unwind fr e k w).app k0 := by
  unfold unwind
  split
  · split
    · rfl
    · rename_i vmv hv
      rfl
  · split <;> rfl
  · rfl



/-- the step would have to look beneath the configuration's own continuation -/
def Underflow (c : Core) : Prop := c.k = [] ∧ ((∃ v, c.ctl = .ret v) ∨ (∃ e, c.ctl = .raise e))

/-- **one step under any context**: unless the configuration is returning / raising out of its own (empty)
    continuation, stepping it with `k0` beneath is stepping it alone and putting `k0` beneath the result -/
theorem stepCore_app (budgets : List Nat) (c : Core) (h : ¬ Underflow c) :
    stepCore budgets (c.app k0) = (stepCore budgets c).app k0 := by
  unfold stepCore Core.app
  cases hc : c.ctl with
  | ev op vmi =>
    simp only []
    split
    · rfl
    · rfl
    · exact enter_app _ _ _ _
  | ret v =>
    simp only []
    cases hk : c.k with
    | nil => exact absurd ⟨hk, Or.inl ⟨v, hc⟩⟩ h
    | cons fr k => exact resume_app fr v k c.w
  | raise e =>
    simp only []
    cases hk : c.k with
    | nil => exact absurd ⟨hk, Or.inr ⟨e, hc⟩⟩ h
    | cons fr k => exact unwind_app fr e k c.w
  | done v => simp only [hc]
  | failed e => simp only [hc]

end

def Cfg.app (c : Cfg) (k0 : List Frame) : Cfg := { c with k := c.k ++ k0 }

theorem step_app (c : Cfg) (k0 : List Frame) (h : ¬ Underflow c.core) : step (c.app k0) = (step c).app k0 := by
  have := stepCore_app (k0 := k0) c.budgets c.core h
  unfold step Cfg.app Core.withBudgets
  unfold Core.app Cfg.core at this
  simp only [Cfg.core] at this ⊢
  rw [this]

/-- **frame lemma**: as long as the evaluation started from `c` stays within its own continuation (never returns or
    raises out of it), it runs EXACTLY the same steps with any frames `k0` beneath it, and leaves `k0` untouched -/
theorem run_app (n : Nat) (c : Cfg) (k0 : List Frame) (h : ∀ i, i < n → ¬ Underflow (run i c).core) :
    run n (c.app k0) = (run n c).app k0 := by
  induction n generalizing c with
  | zero => rfl
  | succ n ih =>
    rw [run, run, step_app c k0 (h 0 (by omega))]
    exact ih (step c) (fun i hi => by have := h (i + 1) (by omega); rwa [run] at this)

end Sq
