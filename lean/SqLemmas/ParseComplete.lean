/-
  SqLemmas/ParseComplete.lean — completeness of the parser model w.r.t. the levelled derivation
  relation: whatever `ParseSpec` says reads as a tree, the parser parses back to exactly that tree
  (for every continuation whose first token has the recorded look-ahead type, with enough fuel).
  Proved by mutual structural recursion on derivations.
-/
import SqLemmas.ParseSpec
namespace Sq

/-- arithmetic on token-list lengths -/
macro "lenarith" : tactic =>
  `(tactic| first
    | omega
    | (simp only [List.length_append, List.length_cons, List.length_nil, List.length_singleton]; omega)
    | (simp only [List.length_append, List.length_cons, List.length_nil, List.length_singleton] at *; omega))

theorem peekTy_cons (t : Token) (ts : List Token) : peekTy (t :: ts) = some t.ty := rfl
theorem peekTy_nil : peekTy [] = none := rfl

theorem peekTy_append (ts tl : List Token) : peekTy (ts ++ tl) = (peekTy ts).or (peekTy tl) := by
  cases ts <;> simp [peekTy]

theorem succ_of_le {n f : Nat} (h : n + 1 ≤ f) : ∃ f', f = f' + 1 ∧ n ≤ f' := ⟨f - 1, by omega, by omega⟩

theorem eat_ok (ty : Tk) (t : Token) (ts : List Token) (h : t.ty = ty) : eat ty (t :: ts) = .ok (t, ts) := by
  simp [eat, h]

theorem not_reserved_of_atom (t : Token) (e : Op) (h : atomOf t = some e) : reservedUnused.contains t.ty = false := by
  unfold atomOf at h
  cases ht : t.ty <;> simp [ht] at h <;> decide

theorem pPrefix_atom (f : Nat) (t : Token) (e : Op) (tl : List Token) (ha : atomOf t = some e) :
    pPrefix (f + 1) (t :: tl) = .ok (e, tl) := by
  rw [pPrefix]
  unfold atomOf at ha
  cases ht : t.ty <;> simp [ht] at ha
  · -- NUMBER
    obtain ⟨d, hd, rfl⟩ := ha
    have : Tk.NUMBER ∉ reservedUnused := by decide
    simp [ht, this, hd]
  · subst ha
    have : Tk.STRING ∉ reservedUnused := by decide
    simp [ht, this]
  · subst ha
    have : Tk.TRUE ∉ reservedUnused := by decide
    simp [ht, this]
  · subst ha
    have : Tk.FALSE ∉ reservedUnused := by decide
    simp [ht, this]
  · subst ha
    have : Tk.NONE ∉ reservedUnused := by decide
    simp [ht, this]

/-- the loop of `pExpr` stops at a look-ahead the table does not let the context take -/
theorem pLoop_stops (f m : Nat) (a : Assoc) (l : Op) (b : Bool) (tl : List Token) (nxt : LA)
    (hs : stops m a nxt) (hp : peekTy tl = nxt) : pLoop (f + 1) m a l b tl = .ok ((l, b), tl) := by
  cases tl with
  | nil => rw [pLoop]
  | cons t r =>
    rw [peekTy_cons] at hp
    subst hp
    simp only [stops] at hs
    rw [pLoop]
    simp [hs]

/-- token types an expression can start with -/
def startTk (ty : Tk) : Bool :=
  ty == .NUMBER || ty == .STRING || ty == .TRUE || ty == .FALSE || ty == .NONE || ty == .NAME
  || ty == .LPAREN || ty == .LBRACKET || ty == .LBRACE || ty == .MINUS || ty == .NOT

theorem atom_start (t : Token) (e : Op) (h : atomOf t = some e) : startTk t.ty = true := by
  unfold atomOf at h
  cases ht : t.ty <;> simp [ht] at h <;> rfl

theorem rprim_head {ts : List Token} {t : Op} {la : LA} (h : RPrim ts t la) :
    ∃ hd r, ts = hd :: r ∧ startTk hd.ty = true := by
  cases h with
  | atom ha => exact ⟨_, _, rfl, atom_start _ _ ha⟩
  | name ht _ _ => exact ⟨_, _, rfl, by simp [startTk, ht]⟩
  | call0 hn _ _ => exact ⟨_, _, rfl, by simp [startTk, hn]⟩
  | call hn _ _ => exact ⟨_, _, rfl, by simp [startTk, hn]⟩
  | lam1 hn _ _ => exact ⟨_, _, rfl, by simp [startTk, hn]⟩
  | paren hl _ _ => exact ⟨_, _, rfl, by simp [startTk, hl]⟩
  | lamN hl _ _ _ _ _ => exact ⟨_, _, rfl, by simp [startTk, hl]⟩
  | list0 hl _ => exact ⟨_, _, rfl, by simp [startTk, hl]⟩
  | list hl _ => exact ⟨_, _, rfl, by simp [startTk, hl]⟩
  | dict0 hl _ => exact ⟨_, _, rfl, by simp [startTk, hl]⟩
  | dict hl _ => exact ⟨_, _, rfl, by simp [startTk, hl]⟩
  | neg hm _ => exact ⟨_, _, rfl, by simp [startTk, hm]⟩
  | not hn _ => exact ⟨_, _, rfl, by simp [startTk, hn]⟩

theorem rexpr_head {m : Nat} {a : Assoc} {ts : List Token} {t : Op} {b : Bool} {nxt : LA} (h : RExpr m a ts t b nxt) :
    ∃ hd r, ts = hd :: r ∧ startTk hd.ty = true := by
  cases h with
  | mk hp _ =>
    obtain ⟨hd, r, e, hs⟩ := rprim_head hp
    subst e
    exact ⟨hd, _, List.cons_append, hs⟩

/-- the first token of an expression is not a closing bracket, a colon, a comma … -/
theorem rexpr_peek {m : Nat} {a : Assoc} {ts : List Token} {t : Op} {b : Bool} {nxt : LA} (h : RExpr m a ts t b nxt)
    (tl : List Token) (ty : Tk) (hty : startTk ty = false) : peekTy (ts ++ tl) ≠ some ty := by
  obtain ⟨hd, r, e, hs⟩ := rexpr_head h
  subst e
  simp only [List.cons_append, peekTy_cons]
  intro hc
  simp only [Option.some.injEq] at hc
  rw [hc] at hs
  rw [hs] at hty
  cases hty

/-! ### one-branch equations of the operator loop -/

theorem pLoop_notin (f m : Nat) (a : Assoc) (l : Op) (b : Bool) (o i : Token) (r : List Token) (lv : Nat) (la : Assoc)
    (rhs : Op) (br : Bool) (ts' : List Token)
    (ho : o.ty = .NOT) (hd : decide' m a .NOT = .take lv la) (hi : i.ty = .IN)
    (he : pExpr f inLevel .nonassoc r = .ok ((rhs, br), ts')) :
    pLoop (f + 1) m a l b (o :: i :: r) = pLoop f m a (.bin .notin l rhs) false ts' := by
  rw [pLoop]
  simp [ho, hd, binKind, eat, hi, he]

theorem pLoop_ifx (f m : Nat) (a : Assoc) (l : Op) (b : Bool) (o el : Token) (r r3 ts' : List Token) (lv : Nat) (la : Assoc)
    (c e2 : Op) (bc be : Bool)
    (ho : o.ty = .IF) (hd : decide' m a .IF = .take lv la)
    (hc : pExpr f 0 .right r = .ok ((c, bc), el :: r3)) (hel : el.ty = .ELSE)
    (he : pExpr f 0 .right r3 = .ok ((e2, be), ts')) :
    pLoop (f + 1) m a l b (o :: r) = pLoop f m a (.ifx c l e2) false ts' := by
  rw [pLoop]
  simp [ho, hd, binKind, hc, eat, hel, he]

theorem pLoop_index (f m : Nat) (a : Assoc) (l : Op) (b : Bool) (o : Token) (r ts' : List Token) (lv : Nat) (la : Assoc)
    (k : Op) (plain : Bool)
    (ho : o.ty = .LBRACKET) (hd : decide' m a .LBRACKET = .take lv la)
    (hs : pSubscript f r = .ok ((k, plain), ts')) :
    pLoop (f + 1) m a l b (o :: r) = pLoop f m a (getitem l k) plain ts' := by
  rw [pLoop]
  simp [ho, hd, binKind, hs, getitem]

theorem pLoop_dot0 (f m : Nat) (a : Assoc) (l : Op) (b : Bool) (o n lp rp : Token) (r : List Token) (lv : Nat) (la : Assoc)
    (ho : o.ty = .DOT) (hd : decide' m a .DOT = .take lv la) (hn : n.ty = .NAME) (hl : lp.ty = .LPAREN) (hr : rp.ty = .RPAREN) :
    pLoop (f + 1) m a l b (o :: n :: lp :: rp :: r) = pLoop f m a (.call n.val [l]) false r := by
  rw [pLoop]
  simp [ho, hd, binKind, eat, hn, hl, peekTy, hr]

theorem pLoop_dot (f m : Nat) (a : Assoc) (l : Op) (b : Bool) (o n lp : Token) (r ts' : List Token) (lv : Nat) (la : Assoc)
    (args : List Op)
    (ho : o.ty = .DOT) (hd : decide' m a .DOT = .take lv la) (hn : n.ty = .NAME) (hl : lp.ty = .LPAREN)
    (hne : peekTy r ≠ some .RPAREN) (ha : pArgs f .RPAREN r = .ok (args, ts')) :
    pLoop (f + 1) m a l b (o :: n :: lp :: r) = pLoop f m a (.call n.val (l :: args)) false ts' := by
  rw [pLoop]
  simp [ho, hd, binKind, eat, hn, hl, hne, ha]

theorem pLoop_pipe0 (f m : Nat) (a : Assoc) (l : Op) (b : Bool) (o n : Token) (r : List Token) (lv : Nat) (la : Assoc)
    (ho : o.ty = .PIPE) (hd : decide' m a .PIPE = .take lv la) (hn : n.ty = .NAME) (hne : peekTy r ≠ some .LPAREN) :
    pLoop (f + 1) m a l b (o :: n :: r) = pLoop f m a (.call n.val [l]) false r := by
  rw [pLoop]
  simp [ho, hd, binKind, eat, hn, hne]

theorem pLoop_pipe (f m : Nat) (a : Assoc) (l : Op) (b : Bool) (o n lp : Token) (r ts' : List Token) (lv : Nat) (la : Assoc)
    (args : List Op)
    (ho : o.ty = .PIPE) (hd : decide' m a .PIPE = .take lv la) (hn : n.ty = .NAME) (hl : lp.ty = .LPAREN)
    (ha : pArgs f .RPAREN r = .ok (args, ts')) :
    pLoop (f + 1) m a l b (o :: n :: lp :: r) = pLoop f m a (.call n.val (l :: args)) false ts' := by
  rw [pLoop]
  simp [ho, hd, binKind, eat, hn, peekTy, hl, ha]

theorem pParams_more (f : Nat) (acc : List Op) (L : List Token) (hs : startsNameRparen L = false) :
    pParams (f + 1) acc L =
      match pExpr f 0 .right L with
      | .error e => .error e
      | .ok ((e, _), r1) =>
        match eat .COMMA r1 with
        | .error e => .error e
        | .ok (_, r2) => pParams f (e :: acc) r2 := by
  cases L with
  | nil => rw [pParams] <;> first | rfl | (intro _ _ _ h; cases h)
  | cons n t =>
    cases t with
    | nil => rw [pParams] <;> first | rfl | (intro _ _ _ h; cases h)
    | cons r x =>
      rw [pParams]
      simp only [startsNameRparen, Bool.and_eq_false_imp, beq_iff_eq] at hs
      have hnr : ¬ (n.ty = Tk.NAME ∧ r.ty = Tk.RPAREN) := fun h => by
        have := hs h.1
        simp [h.2] at this
      simp only [hnr, if_false]
      try rfl

theorem startsNameRparen_append (a x : List Token) (h : 2 ≤ a.length) :
    startsNameRparen (a ++ x) = startsNameRparen a := by
  match a, h with
  | n :: r :: y, _ => rfl

theorem rargs_peek {close : Tk} {ts : List Token} {args : List Op} (h : RArgs close ts args)
    (tl : List Token) (ty : Tk) (hty : startTk ty = false) : peekTy (ts ++ tl) ≠ some ty := by
  cases h with
  | mk he _ =>
    rw [List.append_assoc]
    exact rexpr_peek he _ ty hty

theorem rdict_peek {acc : List Op} {ts : List Token} {out : List Op} (h : RDict acc ts out)
    (tl : List Token) (ty : Tk) (hty : startTk ty = false) : peekTy (ts ++ tl) ≠ some ty := by
  cases h with
  | last hk _ _ _ => rw [List.append_assoc, List.append_assoc]; exact rexpr_peek hk _ ty hty
  | lastComma hk _ _ _ _ => rw [List.append_assoc, List.append_assoc]; exact rexpr_peek hk _ ty hty
  | more hk _ _ _ _ _ => rw [List.append_assoc, List.append_assoc]; exact rexpr_peek hk _ ty hty

theorem name_not_res : Tk.NAME ∉ reservedUnused := by decide
theorem lparen_not_res : Tk.LPAREN ∉ reservedUnused := by decide
theorem lbracket_not_res : Tk.LBRACKET ∉ reservedUnused := by decide
theorem lbrace_not_res : Tk.LBRACE ∉ reservedUnused := by decide
theorem minus_not_res : Tk.MINUS ∉ reservedUnused := by decide
theorem not_not_res : Tk.NOT ∉ reservedUnused := by decide

theorem rargsTail_ne {close : Tk} {acc : List Op} {ts : List Token} {out : List Op} (h : RArgsTail close acc ts out) : ts ≠ [] := by
  cases h <;> simp

theorem peekTy_append_ne (ts tl : List Token) (h : ts ≠ []) : peekTy (ts ++ tl) = peekTy ts := by
  cases ts with
  | nil => exact absurd rfl h
  | cons t r => rfl

mutual

theorem cExpr : ∀ {m a ts t b nxt}, RExpr m a ts t b nxt →
    ∃ n, n ≤ 2 * ts.length + 1 ∧ ∀ f, n ≤ f → ∀ tl, peekTy tl = nxt → pExpr f m a (ts ++ tl) = .ok ((t, b), tl)
  | _, _, _, _, _, _, .mk (m := m) (a := a) (ts0 := ts0) (ts := ts) hp hs => by
    obtain ⟨n1, b1, h1⟩ := cPrim hp
    obtain ⟨n2, b2, h2⟩ := cSpine hs
    have hl0 : 1 ≤ ts0.length := by
      obtain ⟨hd, r, e, _⟩ := rprim_head hp
      subst e; simp
    refine ⟨max n1 n2 + 1, by lenarith, fun f hf tl htl => ?_⟩
    obtain ⟨f', rfl, hf'⟩ := succ_of_le hf
    have e1 := h1 f' (by omega) (ts ++ tl) (by rw [peekTy_append, htl])
    have e2 := h2 f' (by omega) tl htl
    rw [List.append_assoc, pExpr, e1]
    exact e2

theorem cPrim : ∀ {ts t la}, RPrim ts t la →
    ∃ n, n ≤ 2 * ts.length ∧ ∀ f, n ≤ f → ∀ tl, peekTy tl = la → pPrefix f (ts ++ tl) = .ok (t, tl)
  | _, _, _, .atom (t := t) (e := e) ha => by
    refine ⟨1, by lenarith, fun f hf tl _ => ?_⟩
    obtain ⟨f', rfl, _⟩ := succ_of_le hf
    have hr := not_reserved_of_atom t e ha
    rw [List.singleton_append]
    exact pPrefix_atom f' t e tl ha
  | _, _, _, .name (t := t) ht h1 h2 => by
    refine ⟨1, by lenarith, fun f hf tl htl => ?_⟩
    obtain ⟨f', rfl, _⟩ := succ_of_le hf
    rw [List.singleton_append, pPrefix]
    subst htl
    simp [ht, reservedUnused, h1, h2]
  | _, _, _, .call0 (n := n) (lp := lp) (rp := rp) hn hl hr => by
    refine ⟨1, by lenarith, fun f hf tl _ => ?_⟩
    obtain ⟨f', rfl, _⟩ := succ_of_le hf
    simp only [List.cons_append, List.nil_append]
    rw [pPrefix]
    simp [hn, reservedUnused, peekTy, hl, hr]
  | _, _, _, .call (n := n) (lp := lp) (ts := ts) hn hl ha => by
    obtain ⟨n1, b1, h1⟩ := cArgs ha
    refine ⟨n1 + 1, by lenarith, fun f hf tl _ => ?_⟩
    obtain ⟨f', rfl, hf'⟩ := succ_of_le hf
    have e1 := h1 f' hf' tl
    have hne := rargs_peek ha tl .RPAREN rfl
    simp only [List.cons_append]
    rw [pPrefix]
    simp [hn, name_not_res, peekTy_cons, hl, hne, e1]
  | _, _, _, .lam1 (n := n) (lam := lam) (ts := ts) hn hl he => by
    obtain ⟨n1, b1, h1⟩ := cExpr he
    refine ⟨n1 + 1, by lenarith, fun f hf tl htl => ?_⟩
    obtain ⟨f', rfl, hf'⟩ := succ_of_le hf
    have e1 := h1 f' hf' tl htl
    simp only [List.cons_append]
    rw [pPrefix]
    simp [hn, name_not_res, peekTy_cons, hl, e1]
  | _, _, _, .paren (lp := lp) (ts := ts) (rp := rp) hl he hr => by
    obtain ⟨n1, b1, h1⟩ := cExpr he
    refine ⟨n1 + 1, by lenarith, fun f hf tl _ => ?_⟩
    obtain ⟨f', rfl, hf'⟩ := succ_of_le hf
    have e1 := h1 f' hf' (rp :: tl) (by rw [peekTy_cons, hr])
    simp only [List.cons_append, List.append_assoc, List.nil_append]
    rw [pPrefix]
    simp [hl, lparen_not_res, e1, peekTy_cons, hr]
  | _, _, _, .lamN (lp := lp) (ts0 := ts0) (comma := comma) (ps := ps) (lam := lam) (body := body) hl he0 hc hp hlam hb => by
    obtain ⟨n1, b1, h1⟩ := cExpr he0
    obtain ⟨n2, b2, h2⟩ := cParams hp
    obtain ⟨n3, b3, h3⟩ := cExpr hb
    refine ⟨max n1 (max n2 n3) + 1, by lenarith, fun f hf tl htl => ?_⟩
    obtain ⟨f', rfl, hf'⟩ := succ_of_le hf
    have e1 := h1 f' (by omega) (comma :: ps ++ lam :: body ++ tl) (by simp [peekTy_cons, hc])
    have e2 := h2 f' (by omega) (lam :: body ++ tl)
    have e3 := h3 f' (by omega) tl htl
    simp only [List.cons_append, List.append_assoc] at e1 e2 ⊢
    rw [pPrefix]
    have hcr : comma.ty ≠ Tk.RPAREN := by rw [hc]; decide
    simp [hl, lparen_not_res, e1, peekTy_cons, hcr, eat, hc, e2, hlam, e3]
  | _, _, _, .list0 (lb := lb) (rb := rb) hl hr => by
    refine ⟨1, by lenarith, fun f hf tl _ => ?_⟩
    obtain ⟨f', rfl, _⟩ := succ_of_le hf
    simp only [List.cons_append, List.nil_append]
    rw [pPrefix]
    simp [hl, lbracket_not_res, peekTy_cons, hr]
  | _, _, _, .list (lb := lb) (ts := ts) hl ha => by
    obtain ⟨n1, b1, h1⟩ := cArgs ha
    refine ⟨n1 + 1, by lenarith, fun f hf tl _ => ?_⟩
    obtain ⟨f', rfl, hf'⟩ := succ_of_le hf
    have e1 := h1 f' hf' tl
    have hne := rargs_peek ha tl .RBRACKET rfl
    simp only [List.cons_append]
    rw [pPrefix]
    simp [hl, lbracket_not_res, hne, e1]
  | _, _, _, .dict0 (lb := lb) (rb := rb) hl hr => by
    refine ⟨1, by lenarith, fun f hf tl _ => ?_⟩
    obtain ⟨f', rfl, _⟩ := succ_of_le hf
    simp only [List.cons_append, List.nil_append]
    rw [pPrefix]
    simp [hl, lbrace_not_res, peekTy_cons, hr]
  | _, _, _, .dict (lb := lb) (ts := ts) hl hd => by
    obtain ⟨n1, b1, h1⟩ := cDict hd
    refine ⟨n1 + 1, by lenarith, fun f hf tl _ => ?_⟩
    obtain ⟨f', rfl, hf'⟩ := succ_of_le hf
    have e1 := h1 f' hf' tl
    have hne := rdict_peek hd tl .RBRACE rfl
    simp only [List.cons_append]
    rw [pPrefix]
    simp [hl, lbrace_not_res, hne, e1]
  | _, _, _, .neg (mi := mi) (ts := ts) hm he => by
    obtain ⟨n1, b1, h1⟩ := cExpr he
    refine ⟨n1 + 1, by lenarith, fun f hf tl htl => ?_⟩
    obtain ⟨f', rfl, hf'⟩ := succ_of_le hf
    have e1 := h1 f' hf' tl htl
    simp only [List.cons_append]
    rw [pPrefix]
    simp [hm, minus_not_res, e1]
  | _, _, _, .not (nt := nt) (ts := ts) hn he => by
    obtain ⟨n1, b1, h1⟩ := cExpr he
    refine ⟨n1 + 1, by lenarith, fun f hf tl htl => ?_⟩
    obtain ⟨f', rfl, hf'⟩ := succ_of_le hf
    have e1 := h1 f' hf' tl htl
    simp only [List.cons_append]
    rw [pPrefix]
    simp [hn, not_not_res, e1]

theorem cSpine : ∀ {m a l b ts t bt nxt}, RSpine m a l b ts t bt nxt →
    ∃ n, n ≤ 2 * ts.length + 1 ∧ ∀ f, n ≤ f → ∀ tl, peekTy tl = nxt → pLoop f m a l b (ts ++ tl) = .ok ((t, bt), tl)
  | _, _, _, _, _, _, _, _, .nil (m := m) (a := a) hstop => by
    refine ⟨1, by lenarith, fun f hf tl htl => ?_⟩
    obtain ⟨f', rfl, _⟩ := succ_of_le hf
    rw [List.nil_append]
    exact pLoop_stops f' m a _ _ tl _ hstop htl
  | _, _, _, _, _, _, _, _, .bin (o := o) (tsr := tsr) (rest := rest) hd hk he hs => by
    obtain ⟨n1, b1, h1⟩ := cExpr he
    obtain ⟨n2, b2, h2⟩ := cSpine hs
    refine ⟨max n1 n2 + 1, by lenarith, fun f hf tl htl => ?_⟩
    obtain ⟨f', rfl, hf'⟩ := succ_of_le hf
    have e1 := h1 f' (by omega) (rest ++ tl) (by rw [peekTy_append, htl])
    have e2 := h2 f' (by omega) tl htl
    simp only [List.cons_append, List.append_assoc]
    rw [pLoop]
    simp only [hd, hk, e1]
    exact e2
  | _, _, _, _, _, _, _, _, .notin (o := o) (i := i) (tsr := tsr) (rest := rest) ho hd hi he hs => by
    obtain ⟨n1, b1, h1⟩ := cExpr he
    obtain ⟨n2, b2, h2⟩ := cSpine hs
    refine ⟨max n1 n2 + 1, by lenarith, fun f hf tl htl => ?_⟩
    obtain ⟨f', rfl, hf'⟩ := succ_of_le hf
    have e1 := h1 f' (by omega) (rest ++ tl) (by rw [peekTy_append, htl])
    have e2 := h2 f' (by omega) tl htl
    simp only [List.cons_append, List.append_assoc]
    rw [pLoop_notin f' _ _ _ _ o i _ _ _ _ _ _ ho hd hi e1]
    exact e2
  | _, _, _, _, _, _, _, _, .ifx (o := o) (tsc := tsc) (el := el) (tse := tse) (rest := rest) ho hd hc hel he hs => by
    obtain ⟨n1, b1, h1⟩ := cExpr hc
    obtain ⟨n2, b2, h2⟩ := cExpr he
    obtain ⟨n3, b3, h3⟩ := cSpine hs
    refine ⟨max n1 (max n2 n3) + 1, by lenarith, fun f hf tl htl => ?_⟩
    obtain ⟨f', rfl, hf'⟩ := succ_of_le hf
    have e1 := h1 f' (by omega) (el :: (tse ++ (rest ++ tl))) (by simp [peekTy_cons, hel])
    have e2 := h2 f' (by omega) (rest ++ tl) (by rw [peekTy_append, htl])
    have e3 := h3 f' (by omega) tl htl
    simp only [List.cons_append, List.append_assoc]
    rw [pLoop_ifx f' _ _ _ _ o el _ _ _ _ _ _ _ _ _ ho hd e1 hel e2]
    exact e3
  | _, _, _, _, _, _, _, _, .index (o := o) (tss := tss) (rest := rest) ho hd hsub hs => by
    obtain ⟨n1, b1, h1⟩ := cSub hsub
    obtain ⟨n2, b2, h2⟩ := cSpine hs
    refine ⟨max n1 n2 + 1, by lenarith, fun f hf tl htl => ?_⟩
    obtain ⟨f', rfl, hf'⟩ := succ_of_le hf
    have e1 := h1 f' (by omega) (rest ++ tl)
    have e2 := h2 f' (by omega) tl htl
    simp only [List.cons_append, List.append_assoc]
    rw [pLoop_index f' _ _ _ _ o _ _ _ _ _ _ ho hd e1]
    exact e2
  | _, _, _, _, _, _, _, _, .dot0 (o := o) (n := n) (lp := lp) (rp := rp) (rest := rest) ho hd hn hl hr hs => by
    obtain ⟨n2, b2, h2⟩ := cSpine hs
    refine ⟨n2 + 1, by lenarith, fun f hf tl htl => ?_⟩
    obtain ⟨f', rfl, hf'⟩ := succ_of_le hf
    have e2 := h2 f' hf' tl htl
    simp only [List.cons_append]
    rw [pLoop_dot0 f' _ _ _ _ o n lp rp _ _ _ ho hd hn hl hr]
    exact e2
  | _, _, _, _, _, _, _, _, .dot (o := o) (n := n) (lp := lp) (tsa := tsa) (rest := rest) ho hd hn hl ha hs => by
    obtain ⟨n1, b1, h1a⟩ := cArgs ha
    obtain ⟨n2, b2, h2⟩ := cSpine hs
    refine ⟨max n1 n2 + 1, by lenarith, fun f hf tl htl => ?_⟩
    obtain ⟨f', rfl, hf'⟩ := succ_of_le hf
    have e1 := h1a f' (by omega) (rest ++ tl)
    have e2 := h2 f' (by omega) tl htl
    have hne := rargs_peek ha (rest ++ tl) .RPAREN rfl
    simp only [List.cons_append, List.append_assoc]
    rw [pLoop_dot f' _ _ _ _ o n lp _ _ _ _ _ ho hd hn hl hne e1]
    exact e2
  | _, _, _, _, _, _, _, _, .pipe0 (o := o) (n := n) (rest := rest) ho hd hn hnl hs => by
    obtain ⟨n2, b2, h2⟩ := cSpine hs
    refine ⟨n2 + 1, by lenarith, fun f hf tl htl => ?_⟩
    obtain ⟨f', rfl, hf'⟩ := succ_of_le hf
    have e2 := h2 f' hf' tl htl
    have hne : peekTy (rest ++ tl) ≠ some .LPAREN := by rw [peekTy_append, htl]; exact hnl
    simp only [List.cons_append]
    rw [pLoop_pipe0 f' _ _ _ _ o n _ _ _ ho hd hn hne]
    exact e2
  | _, _, _, _, _, _, _, _, .pipe (o := o) (n := n) (lp := lp) (tsa := tsa) (rest := rest) ho hd hn hl ha hs => by
    obtain ⟨n1, b1, h1a⟩ := cArgs ha
    obtain ⟨n2, b2, h2⟩ := cSpine hs
    refine ⟨max n1 n2 + 1, by lenarith, fun f hf tl htl => ?_⟩
    obtain ⟨f', rfl, hf'⟩ := succ_of_le hf
    have e1 := h1a f' (by omega) (rest ++ tl)
    have e2 := h2 f' (by omega) tl htl
    simp only [List.cons_append, List.append_assoc]
    rw [pLoop_pipe f' _ _ _ _ o n lp _ _ _ _ _ ho hd hn hl e1]
    exact e2

theorem cArgs : ∀ {close ts args}, RArgs close ts args →
    ∃ n, n ≤ 2 * ts.length + 1 ∧ ∀ f, n ≤ f → ∀ tl, pArgs f close (ts ++ tl) = .ok (args, tl)
  | _, _, _, .mk (close := close) (ts0 := ts0) (rest := rest) he ht => by
    obtain ⟨n1, b1, h1⟩ := cExpr he
    obtain ⟨n2, b2, h2⟩ := cArgsTail ht
    have hl0 : 1 ≤ ts0.length := by
      obtain ⟨hd, r, e, _⟩ := rexpr_head he
      subst e; simp
    have hl1 : 1 ≤ rest.length := by
      have := rargsTail_ne ht
      cases rest with
      | nil => exact absurd rfl this
      | cons _ _ => simp
    refine ⟨max n1 n2 + 1, by lenarith, fun f hf tl => ?_⟩
    obtain ⟨f', rfl, hf'⟩ := succ_of_le hf
    have e1 := h1 f' (by omega) (rest ++ tl) (peekTy_append_ne _ _ (rargsTail_ne ht))
    have e2 := h2 f' (by omega) tl
    rw [List.append_assoc, pArgs, e1]
    exact e2

theorem cArgsTail : ∀ {close acc ts out}, RArgsTail close acc ts out →
    ∃ n, n ≤ 2 * ts.length + 1 ∧ ∀ f, n ≤ f → ∀ tl, pArgsTail f close acc (ts ++ tl) = .ok (out, tl)
  | _, _, _, _, .close (close := close) (c := c) hc hne => by
    refine ⟨1, by lenarith, fun f hf tl => ?_⟩
    obtain ⟨f', rfl, _⟩ := succ_of_le hf
    rw [List.singleton_append, pArgsTail]
    subst hc
    simp [hne]
  | _, _, _, _, .trailing (close := close) (cm := cm) (c := c) hcm hc => by
    refine ⟨1, by lenarith, fun f hf tl => ?_⟩
    obtain ⟨f', rfl, _⟩ := succ_of_le hf
    simp only [List.cons_append, List.nil_append]
    rw [pArgsTail]
    simp [hcm, peekTy_cons, hc]
  | _, _, _, _, .more (close := close) (cm := cm) (ts0 := ts0) (rest := rest) hcm hne he ht => by
    obtain ⟨n1, b1, h1⟩ := cExpr he
    obtain ⟨n2, b2, h2⟩ := cArgsTail ht
    refine ⟨max n1 n2 + 1, by lenarith, fun f hf tl => ?_⟩
    obtain ⟨f', rfl, hf'⟩ := succ_of_le hf
    have e1 := h1 f' (by omega) (rest ++ tl) (peekTy_append_ne _ _ (rargsTail_ne ht))
    have e2 := h2 f' (by omega) tl
    have hne' : peekTy (ts0 ++ (rest ++ tl)) ≠ some close := by
      obtain ⟨hd, r, e, _⟩ := rexpr_head he
      subst e
      simpa [peekTy_cons] using hne
    simp only [List.cons_append, List.append_assoc]
    rw [pArgsTail]
    simp only [hcm, if_true, hne', if_false, e1]
    exact e2

theorem cDict : ∀ {acc ts out}, RDict acc ts out →
    ∃ n, n ≤ 2 * ts.length + 1 ∧ ∀ f, n ≤ f → ∀ tl, pDictItems f acc (ts ++ tl) = .ok (out, tl)
  | _, _, _, .last (acc := acc) (tsk := tsk) (col := col) (tsv := tsv) (rb := rb) hk hc hv hr => by
    obtain ⟨n1, b1, h1⟩ := cExpr hk
    obtain ⟨n2, b2, h2⟩ := cExpr hv
    refine ⟨max n1 n2 + 1, by lenarith, fun f hf tl => ?_⟩
    obtain ⟨f', rfl, hf'⟩ := succ_of_le hf
    have e1 := h1 f' (by omega) (col :: tsv ++ [rb] ++ tl) (by simp [peekTy_cons, hc])
    have e2 := h2 f' (by omega) ([rb] ++ tl) (by simp [peekTy_cons, hr])
    simp only [List.cons_append, List.append_assoc, List.nil_append] at e1 e2 ⊢
    rw [pDictItems]
    simp [e1, eat, hc, e2, hr]
  | _, _, _, .lastComma (acc := acc) (tsk := tsk) (col := col) (tsv := tsv) (cm := cm) (rb := rb) hk hc hv hcm hr => by
    obtain ⟨n1, b1, h1⟩ := cExpr hk
    obtain ⟨n2, b2, h2⟩ := cExpr hv
    refine ⟨max n1 n2 + 1, by lenarith, fun f hf tl => ?_⟩
    obtain ⟨f', rfl, hf'⟩ := succ_of_le hf
    have e1 := h1 f' (by omega) (col :: tsv ++ [cm, rb] ++ tl) (by simp [peekTy_cons, hc])
    have e2 := h2 f' (by omega) ([cm, rb] ++ tl) (by simp [peekTy_cons, hcm])
    simp only [List.cons_append, List.append_assoc, List.nil_append] at e1 e2 ⊢
    rw [pDictItems]
    have hnr : cm.ty ≠ Tk.RBRACE := by rw [hcm]; decide
    simp [e1, eat, hc, e2, hnr, hcm, peekTy_cons, hr]
  | _, _, _, .more (acc := acc) (tsk := tsk) (col := col) (tsv := tsv) (cm := cm) (rest := rest) hk hc hv hcm hne hd => by
    obtain ⟨n1, b1, h1⟩ := cExpr hk
    obtain ⟨n2, b2, h2⟩ := cExpr hv
    obtain ⟨n3, b3, h3⟩ := cDict hd
    refine ⟨max n1 (max n2 n3) + 1, by lenarith, fun f hf tl => ?_⟩
    obtain ⟨f', rfl, hf'⟩ := succ_of_le hf
    have e1 := h1 f' (by omega) (col :: tsv ++ cm :: rest ++ tl) (by simp [peekTy_cons, hc])
    have e2 := h2 f' (by omega) (cm :: rest ++ tl) (by simp [peekTy_cons, hcm])
    have e3 := h3 f' (by omega) tl
    have hne' : peekTy (rest ++ tl) ≠ some .RBRACE := rdict_peek hd tl .RBRACE rfl
    simp only [List.cons_append, List.append_assoc] at e1 e2 ⊢
    rw [pDictItems]
    have hnr : cm.ty ≠ Tk.RBRACE := by rw [hcm]; decide
    simp only [e1, eat_ok .COLON col _ hc, e2, hnr, hcm, if_false, if_true, hne']
    exact e3

theorem cParams : ∀ {acc ts out}, RParams acc ts out →
    ∃ n, n ≤ 2 * ts.length + 1 ∧ ∀ f, n ≤ f → ∀ tl, pParams f acc (ts ++ tl) = .ok (out, tl)
  | _, _, _, .last (acc := acc) (n := n) (rp := rp) hn hr => by
    refine ⟨1, by lenarith, fun f hf tl => ?_⟩
    obtain ⟨f', rfl, _⟩ := succ_of_le hf
    simp only [List.cons_append, List.nil_append]
    rw [pParams]
    simp [hn, hr]
  | _, _, _, .more (acc := acc) (ts0 := ts0) (cm := cm) (rest := rest) hnot he hcm hp => by
    obtain ⟨n1, b1, h1⟩ := cExpr he
    obtain ⟨n2, b2, h2⟩ := cParams hp
    refine ⟨max n1 n2 + 1, by lenarith, fun f hf tl => ?_⟩
    obtain ⟨f', rfl, hf'⟩ := succ_of_le hf
    have e1 := h1 f' (by omega) (cm :: rest ++ tl) (by simp [peekTy_cons, hcm])
    have e2 := h2 f' (by omega) tl
    have hlen : 2 ≤ (ts0 ++ [cm]).length := by
      obtain ⟨hd, r, e, _⟩ := rexpr_head he
      subst e; simp
    have hs : startsNameRparen (ts0 ++ (cm :: (rest ++ tl))) = false := by
      have : ts0 ++ (cm :: (rest ++ tl)) = (ts0 ++ [cm]) ++ (rest ++ tl) := by simp
      rw [this, startsNameRparen_append _ _ hlen]; exact hnot
    simp only [List.cons_append, List.append_assoc] at e1 ⊢
    rw [pParams_more f' _ _ hs, e1]
    simp only [eat_ok .COMMA cm _ hcm]
    exact e2


theorem cSub : ∀ {ts k plain}, RSub ts k plain →
    ∃ n, n ≤ 2 * ts.length + 1 ∧ ∀ f, n ≤ f → ∀ tl, pSubscript f (ts ++ tl) = .ok ((k, plain), tl)
  | _, _, _, .idx (ts := ts) (rb := rb) he hr => by
    obtain ⟨n1, b1, h1⟩ := cExpr he
    refine ⟨n1 + 1, by lenarith, fun f hf tl => ?_⟩
    obtain ⟨f', rfl, hf'⟩ := succ_of_le hf
    have e1 := h1 f' hf' (rb :: tl) (by rw [peekTy_cons, hr])
    have hnc := rexpr_peek he (rb :: tl) .COLON rfl
    simp only [List.append_assoc, List.cons_append, List.nil_append]
    rw [pSubscript]
    simp [hnc, e1, peekTy_cons, hr]
  | _, _, _, .all (c := c) (rb := rb) hc hr => by
    refine ⟨1, by lenarith, fun f hf tl => ?_⟩
    obtain ⟨f', rfl, _⟩ := succ_of_le hf
    simp only [List.cons_append, List.nil_append]
    rw [pSubscript]
    simp [peekTy_cons, hc, hr]
  | _, _, _, .step (c1 := c1) (c2 := c2) (ts := ts) (rb := rb) h1c h2c he hr => by
    obtain ⟨n1, b1, h1⟩ := cExpr he
    refine ⟨n1 + 1, by lenarith, fun f hf tl => ?_⟩
    obtain ⟨f', rfl, hf'⟩ := succ_of_le hf
    have e1 := h1 f' hf' (rb :: tl) (by rw [peekTy_cons, hr])
    simp only [List.append_assoc, List.cons_append, List.nil_append]
    rw [pSubscript]
    have hn : c2.ty ≠ Tk.RBRACKET := by rw [h2c]; decide
    simp [peekTy_cons, h1c, h2c, hn, e1, eat, hr]
  | _, _, _, .stop (c := c) (ts := ts) (rb := rb) hc he hr => by
    obtain ⟨n1, b1, h1⟩ := cExpr he
    refine ⟨n1 + 1, by lenarith, fun f hf tl => ?_⟩
    obtain ⟨f', rfl, hf'⟩ := succ_of_le hf
    have e1 := h1 f' hf' (rb :: tl) (by rw [peekTy_cons, hr])
    have hn1 := rexpr_peek he (rb :: tl) .RBRACKET rfl
    have hn2 := rexpr_peek he (rb :: tl) .COLON rfl
    simp only [List.append_assoc, List.cons_append, List.nil_append]
    rw [pSubscript]
    have hn : rb.ty ≠ Tk.COLON := by rw [hr]; decide
    simp [peekTy_cons, hc, hn1, hn2, e1, hn, eat, hr]
  | _, _, _, .stopColon (c := c) (ts := ts) (c2 := c2) (rb := rb) hc he h2c hr => by
    obtain ⟨n1, b1, h1⟩ := cExpr he
    refine ⟨n1 + 1, by lenarith, fun f hf tl => ?_⟩
    obtain ⟨f', rfl, hf'⟩ := succ_of_le hf
    have e1 := h1 f' hf' (c2 :: rb :: tl) (by rw [peekTy_cons, h2c])
    have hn1 := rexpr_peek he (c2 :: rb :: tl) .RBRACKET rfl
    have hn2 := rexpr_peek he (c2 :: rb :: tl) .COLON rfl
    simp only [List.append_assoc, List.cons_append, List.nil_append]
    rw [pSubscript]
    simp [peekTy_cons, hc, hn1, hn2, e1, h2c, eat, hr]
  | _, _, _, .start (ts := ts) (c := c) (rb := rb) he hc hr => by
    obtain ⟨n1, b1, h1⟩ := cExpr he
    refine ⟨n1 + 1, by lenarith, fun f hf tl => ?_⟩
    obtain ⟨f', rfl, hf'⟩ := succ_of_le hf
    have e1 := h1 f' hf' (c :: rb :: tl) (by rw [peekTy_cons, hc])
    have hnc := rexpr_peek he (c :: rb :: tl) .COLON rfl
    simp only [List.append_assoc, List.cons_append, List.nil_append]
    rw [pSubscript]
    have hn : c.ty ≠ Tk.RBRACKET := by rw [hc]; decide
    simp [hnc, e1, peekTy_cons, hn, eat, hc, hr]
  | _, _, _, .startColon (ts := ts) (c := c) (c2 := c2) (rb := rb) he hc h2c hr => by
    obtain ⟨n1, b1, h1⟩ := cExpr he
    refine ⟨n1 + 1, by lenarith, fun f hf tl => ?_⟩
    obtain ⟨f', rfl, hf'⟩ := succ_of_le hf
    have e1 := h1 f' hf' (c :: c2 :: rb :: tl) (by rw [peekTy_cons, hc])
    have hnc := rexpr_peek he (c :: c2 :: rb :: tl) .COLON rfl
    simp only [List.append_assoc, List.cons_append, List.nil_append]
    rw [pSubscript]
    have hn : c.ty ≠ Tk.RBRACKET := by rw [hc]; decide
    have hn2 : c2.ty ≠ Tk.RBRACKET := by rw [h2c]; decide
    simp [hnc, e1, peekTy_cons, hn, eat, hc, hn2, h2c, hr]
  | _, _, _, .startStop (ts := ts) (c := c) (ts2 := ts2) (rb := rb) he hc he2 hr => by
    obtain ⟨n1, b1, h1⟩ := cExpr he
    obtain ⟨n2, b2, h2⟩ := cExpr he2
    refine ⟨max n1 n2 + 1, by lenarith, fun f hf tl => ?_⟩
    obtain ⟨f', rfl, hf'⟩ := succ_of_le hf
    have e1 := h1 f' (by omega) (c :: (ts2 ++ (rb :: tl))) (by rw [peekTy_cons, hc])
    have e2 := h2 f' (by omega) (rb :: tl) (by rw [peekTy_cons, hr])
    have hnc := rexpr_peek he (c :: (ts2 ++ (rb :: tl))) .COLON rfl
    have hm1 := rexpr_peek he2 (rb :: tl) .RBRACKET rfl
    have hm2 := rexpr_peek he2 (rb :: tl) .COLON rfl
    simp only [List.append_assoc, List.cons_append, List.nil_append]
    rw [pSubscript]
    have hn : c.ty ≠ Tk.RBRACKET := by rw [hc]; decide
    simp [hnc, e1, peekTy_cons, hn, eat, hc, hm1, hm2, e2, hr]

end

/-! ### statements and programs -/

theorem assign_stops (m : Nat) (a : Assoc) : decide' m a .ASSIGN = .stop := rfl
theorem shortop_stops (m : Nat) (a : Assoc) : decide' m a .SHORT_OP = .stop := rfl
theorem newline_stops (m : Nat) (a : Assoc) : decide' m a .NEWLINE = .stop := rfl

/-- a non-empty spine starts with a token its context takes -/
theorem rspine_peek {m : Nat} {a : Assoc} {l : Op} {b : Bool} {ts : List Token} {t : Op} {bt : Bool} {nxt : LA}
    (h : RSpine m a l b ts t bt nxt) (tl : List Token) (ty : Tk) (hstop : ∀ m a, decide' m a ty = .stop)
    (hp : peekTy (ts ++ tl) = some ty) : ts = [] ∧ bt = b := by
  cases h with
  | nil _ => exact ⟨rfl, rfl⟩
  | bin hd _ _ _ =>
    simp only [List.cons_append, peekTy_cons, Option.some.injEq] at hp
    rw [hp, hstop] at hd; cases hd
  | notin ho hd _ _ _ =>
    simp only [List.cons_append, peekTy_cons, Option.some.injEq] at hp
    rw [ho] at hp; rw [hp, hstop] at hd; cases hd
  | ifx ho hd _ _ _ _ =>
    simp only [List.cons_append, peekTy_cons, Option.some.injEq] at hp
    rw [ho] at hp; rw [hp, hstop] at hd; cases hd
  | index ho hd _ _ =>
    simp only [List.cons_append, peekTy_cons, Option.some.injEq] at hp
    rw [ho] at hp; rw [hp, hstop] at hd; cases hd
  | dot0 ho hd _ _ _ _ =>
    simp only [List.cons_append, peekTy_cons, Option.some.injEq] at hp
    rw [ho] at hp; rw [hp, hstop] at hd; cases hd
  | dot ho hd _ _ _ _ =>
    simp only [List.cons_append, peekTy_cons, Option.some.injEq] at hp
    rw [ho] at hp; rw [hp, hstop] at hd; cases hd
  | pipe0 ho hd _ _ _ =>
    simp only [List.cons_append, peekTy_cons, Option.some.injEq] at hp
    rw [ho] at hp; rw [hp, hstop] at hd; cases hd
  | pipe ho hd _ _ _ _ =>
    simp only [List.cons_append, peekTy_cons, Option.some.injEq] at hp
    rw [ho] at hp; rw [hp, hstop] at hd; cases hd

theorem atom_not_name (t : Token) (e : Op) (h : atomOf t = some e) : t.ty ≠ .NAME := by
  intro hn
  simp [atomOf, hn] at h

/-- in an expression that starts with a NAME, the second token is never `=` / an augmented
    assignment operator (unless the expression is that bare name and the look-ahead says so) -/
theorem rexpr_name_second {m : Nat} {a : Assoc} {ts : List Token} {t : Op} {b : Bool} {nxt : LA}
    (h : RExpr m a ts t b nxt) (tl : List Token) (htl : peekTy tl = nxt) (ty : Tk)
    (hstop : ∀ m a, decide' m a ty = .stop) (hty : ty ≠ .LPAREN ∧ ty ≠ .LAMBDA) (hn : nxt ≠ some ty ∨ b = true)
    (n : Token) (r : List Token) (e : ts ++ tl = n :: r) (hname : n.ty = .NAME) : peekTy r ≠ some ty := by
  cases h with
  | mk hp hs =>
    rename_i ts0 t0 tsS
    cases hp with
    | atom ha =>
      simp only [List.cons_append, List.nil_append, List.append_assoc, List.cons.injEq] at e
      obtain ⟨rfl, _⟩ := e
      exact absurd hname (atom_not_name _ _ ha)
    | name ht _ _ =>
      simp only [List.cons_append, List.nil_append, List.append_assoc, List.cons.injEq] at e
      obtain ⟨rfl, rfl⟩ := e
      intro hp
      obtain ⟨he, hb⟩ := rspine_peek hs tl ty hstop hp
      subst he
      rw [List.nil_append, htl] at hp
      rcases hn with hn | hn
      · exact hn hp
      · rw [hb] at hn; cases hn
    | call0 _ hl _ =>
      simp only [List.cons_append, List.nil_append, List.append_assoc, List.cons.injEq] at e
      obtain ⟨rfl, rfl⟩ := e
      rw [peekTy_cons, hl]; intro hc; exact hty.1 (by injection hc with hc; exact hc.symm)
    | call _ hl _ =>
      simp only [List.cons_append, List.nil_append, List.append_assoc, List.cons.injEq] at e
      obtain ⟨rfl, rfl⟩ := e
      rw [peekTy_cons, hl]; intro hc; exact hty.1 (by injection hc with hc; exact hc.symm)
    | lam1 _ hl _ =>
      simp only [List.cons_append, List.nil_append, List.append_assoc, List.cons.injEq] at e
      obtain ⟨rfl, rfl⟩ := e
      rw [peekTy_cons, hl]; intro hc; exact hty.2 (by injection hc with hc; exact hc.symm)
    | paren hl _ _ =>
      simp only [List.cons_append, List.append_assoc, List.cons.injEq] at e
      obtain ⟨rfl, _⟩ := e; rw [hl] at hname; cases hname
    | lamN hl _ _ _ _ _ =>
      simp only [List.cons_append, List.append_assoc, List.cons.injEq] at e
      obtain ⟨rfl, _⟩ := e; rw [hl] at hname; cases hname
    | list0 hl _ =>
      simp only [List.cons_append, List.append_assoc, List.cons.injEq] at e
      obtain ⟨rfl, _⟩ := e; rw [hl] at hname; cases hname
    | list hl _ =>
      simp only [List.cons_append, List.append_assoc, List.cons.injEq] at e
      obtain ⟨rfl, _⟩ := e; rw [hl] at hname; cases hname
    | dict0 hl _ =>
      simp only [List.cons_append, List.append_assoc, List.cons.injEq] at e
      obtain ⟨rfl, _⟩ := e; rw [hl] at hname; cases hname
    | dict hl _ =>
      simp only [List.cons_append, List.append_assoc, List.cons.injEq] at e
      obtain ⟨rfl, _⟩ := e; rw [hl] at hname; cases hname
    | neg hl _ =>
      simp only [List.cons_append, List.append_assoc, List.cons.injEq] at e
      obtain ⟨rfl, _⟩ := e; rw [hl] at hname; cases hname
    | not hl _ =>
      simp only [List.cons_append, List.append_assoc, List.cons.injEq] at e
      obtain ⟨rfl, _⟩ := e; rw [hl] at hname; cases hname

theorem start_not (ty : Tk) (h : startTk ty = true) : ty ≠ .NEWLINE ∧ ty ≠ .DEL := by
  constructor <;> (intro hc; subst hc; cases h)

theorem stmtEnd_head {nxt : LA} (hend : stmtEnd nxt) {o : Token} {r : List Token} (htl : peekTy (o :: r) = nxt) :
    o.ty = .NEWLINE := by
  rw [peekTy_cons] at htl
  rcases hend with h | h
  · rw [h] at htl; cases htl
  · rw [h] at htl; injection htl

theorem cStmt {ts : List Token} {s : Option Op} {nxt : LA} (h : RStmt ts s nxt) :
    ∀ f, 2 * ts.length + 1 ≤ f → ∀ tl, peekTy tl = nxt → pStatement f (ts ++ tl) = .ok (s, tl) := by
  intro f hf tl htl
  cases h with
  | empty hend =>
    rw [List.nil_append]
    cases tl with
    | nil => rfl
    | cons o r =>
      have ho : o.ty = .NEWLINE := stmtEnd_head hend htl
      unfold pStatement
      simp only [ho, if_true]
  | expr hend he =>
    rename_i e b
    obtain ⟨n1, b1, h1⟩ := cExpr he
    have e1 := h1 f (by omega) tl htl
    obtain ⟨hd, r, hts, hst⟩ := rexpr_head he
    have hcons : ts ++ tl = hd :: (r ++ tl) := by rw [hts]; rfl
    obtain ⟨hnl, hdel⟩ := start_not _ hst
    have hna : nxt ≠ some .ASSIGN := by rcases hend with h | h <;> (rw [h]; simp)
    have hns : nxt ≠ some .SHORT_OP := by rcases hend with h | h <;> (rw [h]; simp)
    have ha : ¬ (hd.ty = .NAME ∧ peekTy (r ++ tl) = some .ASSIGN) := fun hc =>
      rexpr_name_second he tl htl .ASSIGN assign_stops ⟨by decide, by decide⟩ (Or.inl hna) hd _ hcons hc.1 hc.2
    have hs : ¬ (hd.ty = .NAME ∧ peekTy (r ++ tl) = some .SHORT_OP) := fun hc =>
      rexpr_name_second he tl htl .SHORT_OP shortop_stops ⟨by decide, by decide⟩ (Or.inl hns) hd _ hcons hc.1 hc.2
    rw [hcons] at e1 ⊢
    unfold pStatement
    simp only [hnl, if_false, ha, hs, hdel, e1]
    cases tl with
    | nil => cases b <;> cases indexParts e <;> rfl
    | cons o r2 =>
      have ho : o.ty = .NEWLINE := stmtEnd_head hend htl
      cases b <;> cases hi : indexParts e <;> simp [ho]
  | assign hend hn heq he =>
    rename_i n eq ts' v b
    obtain ⟨n1, b1, h1⟩ := cExpr he
    have e1 := h1 f (by simp at hf; omega) tl htl
    simp only [List.cons_append]
    unfold pStatement
    have hnl : n.ty ≠ .NEWLINE := by rw [hn]; decide
    simp [hnl, hn, peekTy_cons, heq, e1]
  | short hend hn ho hk he =>
    rename_i n o k ts' v b
    obtain ⟨n1, b1, h1⟩ := cExpr he
    have e1 := h1 f (by simp at hf; omega) tl htl
    simp only [List.cons_append]
    unfold pStatement
    have hnl : n.ty ≠ .NEWLINE := by rw [hn]; decide
    have hoa : o.ty ≠ .ASSIGN := by rw [ho]; decide
    simp [hnl, hn, peekTy_cons, ho, hoa, hk, e1]
  | del hend hd he hi =>
    rename_i d ts' e c k
    obtain ⟨n1, b1, h1⟩ := cExpr he
    have e1 := h1 f (by simp at hf; omega) tl htl
    simp only [List.cons_append]
    unfold pStatement
    have hnl : d.ty ≠ .NEWLINE := by rw [hd]; decide
    have hnn : d.ty ≠ .NAME := by rw [hd]; decide
    simp [hnl, hnn, hd, e1, hi]
  | setitem hend he hi heq hv =>
    rename_i ts0 e c k eq tsv v b
    obtain ⟨n1, b1, h1⟩ := cExpr he
    obtain ⟨n2, b2, h2⟩ := cExpr hv
    have e1 := h1 f (by simp at hf; omega) (eq :: (tsv ++ tl)) (by rw [peekTy_cons, heq])
    have e2 := h2 f (by simp at hf; omega) tl htl
    obtain ⟨hd, r, hts, hst⟩ := rexpr_head he
    have hcons : ts0 ++ (eq :: (tsv ++ tl)) = hd :: (r ++ (eq :: (tsv ++ tl))) := by rw [hts]; rfl
    obtain ⟨hnl, hdel⟩ := start_not _ hst
    have ha : ¬ (hd.ty = .NAME ∧ peekTy (r ++ (eq :: (tsv ++ tl))) = some .ASSIGN) := fun hc =>
      rexpr_name_second he (eq :: (tsv ++ tl)) (by rw [peekTy_cons, heq]) .ASSIGN assign_stops ⟨by decide, by decide⟩ (Or.inr rfl) hd _ hcons hc.1 hc.2
    have hs : ¬ (hd.ty = .NAME ∧ peekTy (r ++ (eq :: (tsv ++ tl))) = some .SHORT_OP) := fun hc =>
      rexpr_name_second he (eq :: (tsv ++ tl)) (by rw [peekTy_cons, heq]) .SHORT_OP shortop_stops ⟨by decide, by decide⟩ (Or.inr rfl) hd _ hcons hc.1 hc.2
    simp only [List.append_assoc, List.cons_append]
    rw [hcons] at e1 ⊢
    unfold pStatement
    simp only [hnl, if_false, ha, hs, hdel, e1, hi, heq, if_true, e2]
  | setop hend he hi ho hv =>
    rename_i ts0 e c k o tsv v b
    obtain ⟨n1, b1, h1⟩ := cExpr he
    obtain ⟨n2, b2, h2⟩ := cExpr hv
    have e1 := h1 f (by simp at hf; omega) (o :: (tsv ++ tl)) (by rw [peekTy_cons, ho])
    have e2 := h2 f (by simp at hf; omega) tl htl
    obtain ⟨hd, r, hts, hst⟩ := rexpr_head he
    have hcons : ts0 ++ (o :: (tsv ++ tl)) = hd :: (r ++ (o :: (tsv ++ tl))) := by rw [hts]; rfl
    obtain ⟨hnl, hdel⟩ := start_not _ hst
    have ha : ¬ (hd.ty = .NAME ∧ peekTy (r ++ (o :: (tsv ++ tl))) = some .ASSIGN) := fun hc =>
      rexpr_name_second he (o :: (tsv ++ tl)) (by rw [peekTy_cons, ho]) .ASSIGN assign_stops ⟨by decide, by decide⟩ (Or.inr rfl) hd _ hcons hc.1 hc.2
    have hs : ¬ (hd.ty = .NAME ∧ peekTy (r ++ (o :: (tsv ++ tl))) = some .SHORT_OP) := fun hc =>
      rexpr_name_second he (o :: (tsv ++ tl)) (by rw [peekTy_cons, ho]) .SHORT_OP shortop_stops ⟨by decide, by decide⟩ (Or.inr rfl) hd _ hcons hc.1 hc.2
    have hoa : o.ty ≠ .ASSIGN := by rw [ho]; decide
    simp only [List.append_assoc, List.cons_append]
    rw [hcons] at e1 ⊢
    unfold pStatement
    simp only [hnl, if_false, ha, hs, hdel, e1, hi, hoa, ho, if_true, e2]
    rw [if_neg (by decide)]

theorem cCode {acc : List Op} {ts : List Token} {out : List Op} (h : RCode acc ts out) :
    ∀ n f, ts.length + 1 ≤ n → 2 * ts.length + 1 ≤ f → pCode n f acc ts = .ok out := by
  induction h with
  | @last acc ts s hs =>
    intro n f hn hf
    have e1 := cStmt hs f hf [] rfl
    rw [List.append_nil] at e1
    cases n with
    | zero => omega
    | succ n =>
      unfold pCode
      simp only [e1]
      cases s <;> rfl
  | @more acc ts s nl rest out hs hnl _ ih =>
    intro n f hn hf
    have e1 := cStmt hs f (by simp at hf; omega) (nl :: rest) (by rw [peekTy_cons, hnl])
    cases n with
    | zero => omega
    | succ n =>
      unfold pCode
      simp only [e1, hnl, if_true]
      have := ih n f (by simp at hn; omega) (by simp at hf; omega)
      cases s <;> exact this

/-- **completeness of the parser for whole programs**: every token list the levelled grammar derives as a program
    is accepted by `parseTokens`, with exactly the derived tree -/
theorem complete {ts : List Token} {out : List Op} (h : RCode [] ts out) : parseTokens ts = .ok (.code out) := by
  unfold parseTokens
  simp only [cCode h (ts.length + 1) (4 * ts.length + 8) (by omega) (by omega)]

end Sq
