/-
  SqLemmas/LogLemmas.lean — the host-visible event log only grows (C01 prefix clause, C09): every machine step
  leaves the log as it was or puts new events in front of it (newest first).  Same sweep over all call paths as
  MachineLemmas / ScopeLemmas.
-/
import SqLemmas.MachineLemmas
namespace Sq

/-- `w'` has the log of `w` plus possibly newer events -/
def LogExt (w w' : World) : Prop := ∃ new, w'.log = new ++ w.log

theorem LogExt.refl (w : World) : LogExt w w := ⟨[], rfl⟩
theorem LogExt.trans {a b c : World} (h1 : LogExt a b) (h2 : LogExt b c) : LogExt a c := by
  obtain ⟨n1, e1⟩ := h1; obtain ⟨n2, e2⟩ := h2
  exact ⟨n2 ++ n1, by rw [e2, e1, List.append_assoc]⟩
theorem LogExt.of_eq {w w' : World} (h : w'.log = w.log) : LogExt w w' := ⟨[], by simp [h]⟩

macro "lrefl" : tactic => `(tactic| first | exact LogExt.refl _ | exact LogExt.of_eq rfl | exact ⟨[_], rfl⟩)

theorem ofBR_log (r : BR) (k : List Frame) (w : World) : LogExt w (ofBR r k w).w := by
  unfold ofBR
  split <;> lrefl

theorem sortFinish_log (keys items : List Val) (rev dm : Bool) (k : List Frame) (w : World) :
    LogExt w (sortFinish keys items rev dm k w).w := by
  unfold sortFinish
  split
  · lrefl
  · split <;> lrefl

/-- an iteration continuation that leaves the op counters alone -/
def IterLog (it : IterFn) : Prop := ∀ kind g src acc k w, LogExt w (it kind g src acc k w).w

theorem callClosure_log (ps : List Op) (body : Op) (vmi : Nat) (args : List Val) (k : List Frame) (w : World) :
    LogExt w (callClosure ps body vmi args k w).w := by
  unfold callClosure
  split
  · lrefl
  · split
    · lrefl
    · rename_i vm hv
      simp only [Heap.alloc]
      lrefl

theorem callMap_log (it : IterFn) (hit : IterLog it) (args : List Val) (k : List Frame) (w : World) :
    LogExt w (callMap it args k w).w := by
  unfold callMap
  split
  · split
    · exact hit _ _ _ _ _ _
    · split
      · exact hit _ _ _ _ _ _
      · exact hit _ _ _ _ _ _
      · lrefl
    · lrefl
    · lrefl
  · lrefl

theorem callFilter_log (it : IterFn) (hit : IterLog it) (args : List Val) (k : List Frame) (w : World) :
    LogExt w (callFilter it args k w).w := by
  unfold callFilter
  split
  · split
    · split <;> lrefl
    · lrefl
    · lrefl
  · split
    · split
      · exact hit _ _ _ _ _ _
      · lrefl
    · lrefl
    · lrefl
  · lrefl

theorem callReduce_log (it : IterFn) (hit : IterLog it) (args : List Val) (k : List Frame) (w : World) :
    LogExt w (callReduce it args k w).w := by
  unfold callReduce
  split
  · split
    · lrefl
    · split
      · lrefl
      · lrefl
      · lrefl
      · exact hit _ _ _ _ _ _
  · lrefl

theorem callSorted_log (it : IterFn) (hit : IterLog it) (args : List Val) (k : List Frame) (w : World) :
    LogExt w (callSorted it args k w).w := by
  unfold callSorted
  split
  · split
    · lrefl
    · simp only []
      split
      · lrefl
      · lrefl
      · split
        · exact sortFinish_log _ _ _ _ _ _
        · lrefl
        · split
          · exact hit _ _ _ _ _ _
          · split
            · exact sortFinish_log _ _ _ _ _ _
            · lrefl
  · lrefl

theorem callProbe_log (args : List Val) (k : List Frame) (w : World) : LogExt w (callProbe args k w).w := by
  unfold callProbe
  split
  · simp only []
    split <;> lrefl
  · lrefl

/-- calling any function value, and continuing any iteration, never moves an op counter:
    the callee's body is charged later, when the machine reaches its `ev` steps -/
theorem call_log : ∀ (fuel : Nat),
    (∀ f args k w, LogExt w (callVal fuel f args k w).w) ∧ IterLog (iterNext fuel) := by
  intro fuel
  induction fuel with
  | zero => exact ⟨fun _ _ _ _ => LogExt.refl _, fun _ _ _ _ _ _ => LogExt.refl _⟩
  | succ fuel ih =>
    obtain ⟨ihc, ihi⟩ := ih
    constructor
    · intro f args k w
      unfold callVal
      split
      · exact callClosure_log _ _ _ _ _ _
      · split
        · exact callMap_log _ ihi _ _ _
        · split
          · lrefl
          · split
            · exact callFilter_log _ ihi _ _ _
            · split
              · exact callReduce_log _ ihi _ _ _
              · split
                · exact callSorted_log _ ihi _ _ _
                · exact ofBR_log _ _ _
      · split
        · exact callProbe_log _ _ _
        · split
          · split
            · exact ihc _ _ _ _
            · lrefl
          · split
            · split
              · exact ihc _ _ _ _
              · lrefl
            · lrefl
      · lrefl
      · lrefl
    · intro kind g src acc k w
      unfold iterNext
      split
      · exact ihc _ _ _ _
      · split
        · lrefl
        · lrefl
        · lrefl
        · exact sortFinish_log _ _ _ _ _ _

theorem doCall_log (n : Name) (args : List Val) (vmi : Nat) (k : List Frame) (w : World) :
    LogExt w (doCall n args vmi k w).w := by
  unfold doCall
  split
  · lrefl
  · split
    · lrefl
    · exact (call_log callFuel).1 _ _ _ _

/-- dispatching on a node kind moves no op counter -/
theorem enter_log (op : Op) (vmi : Nat) (k : List Frame) (w : World) : LogExt w (enter op vmi k w).w := by
  unfold enter
  split <;> first | lrefl | (split <;> first | lrefl | (split <;> lrefl)) | exact doCall_log _ _ _ _ _

theorem map_log {α : Type} (e : R α) (f : α → Val × World) (w : World) (r : Val) (w' : World)
    (hf : ∀ x, (f x).2.log = w.log) (h : e.map f = .ok (r, w')) : w'.log = w.log := by
  cases e with
  | error e => simp [Except.map] at h
  | ok x =>
    simp [Except.map] at h
    have := hf x
    rw [h] at this
    exact this

theorem applyBin_log (w : World) (bk : BinK) (a b r : Val) (w' : World)
    (h : applyBin w bk a b = .ok (r, w')) : w'.log = w.log := by
  unfold applyBin at h
  cases bk <;> simp only [] at h
  · split at h
    · simp at h
    · exact map_log _ _ w r w' (fun _ => rfl) h
  · exact map_log _ _ w r w' (fun _ => rfl) h
  · split at h
    · split at h <;> simp [U] at h
    · split at h
      · exact map_log _ _ w r w' (fun _ => rfl) h
      · simp [U] at h
  · split at h
    · simp at h
    · split at h
      · simp at h
      · exact map_log _ _ w r w' (fun _ => rfl) h
  all_goals first
    | exact map_log _ _ w r w' (fun _ => rfl) h
    | (simp [U] at h)

/-- a value returned to a frame moves no op counter -/
theorem resume_log (fr : Frame) (v : Val) (k : List Frame) (w : World) : LogExt w (resume fr v k w).w := by
  cases fr with
  | codeK rest vm => cases rest <;> lrefl
  | binL bk b vm =>
    unfold resume
    cases bk <;> simp only [] <;> first | lrefl | (split <;> lrefl)
  | binR bk va =>
    unfold resume
    simp only []
    split
    · rename_i r w' happ
      exact LogExt.of_eq (applyBin_log w bk va v r w' happ)
    · lrefl
  | unK uk =>
    unfold resume
    simp only []
    split <;> lrefl
  | assignK n vm =>
    unfold resume
    simp only []
    split
    · lrefl
    · split
      · lrefl
      · split <;> lrefl
  | shortK n sk vm =>
    unfold resume
    simp only []
    split
    · lrefl
    · split
      · lrefl
      · split
        · lrefl
        · split
          · lrefl
          · split <;> lrefl
  | ifK a b vm =>
    unfold resume
    simp only []
    split <;> lrefl
  | sliceK done todo vm =>
    unfold resume
    simp only []
    split
    · lrefl
    · split
      · lrefl
      · split <;> lrefl
  | argsK n done todo vm =>
    unfold resume
    simp only []
    split
    · lrefl
    · exact doCall_log _ _ _ _ _
  | dictK done todo vm =>
    unfold resume
    simp only []
    split
    · lrefl
    · split <;> lrefl
  | popScopeK vm =>
    unfold resume
    simp only []
    split
    · lrefl
    · rename_i vmv hv
      lrefl
  | iterK kind g src cur acc =>
    unfold resume
    simp only []
    exact (call_log callFuel).2 _ _ _ _ _ _
  | tryK => lrefl
  | astK n rest main vm =>
    unfold resume
    simp only []
    split
    · lrefl
    · split
      · lrefl
      · split <;> lrefl

/-- an error passing a frame moves no op counter -/
theorem unwind_log (fr : Frame) (e : PyErr) (k : List Frame) (w : World) : LogExt w (unwind fr e k w).w := by
  unfold unwind
  split
  · split
    · lrefl
    · rename_i vmv hv
      lrefl
  · split <;> lrefl
  · lrefl



theorem charge_log (w : World) (budgets : List Nat) (vmi : Nat) (w' : World) (lim : Option Nat)
    (h : charge w budgets vmi = some (w', lim)) : w'.log = w.log := by
  unfold charge at h
  split at h
  · injection h with h
    injection h with h1 h2
    subst h1
    rfl
  · cases h

/-- **the log only grows**: one step -/
theorem stepCore_log (budgets : List Nat) (c : Core) : LogExt c.w (stepCore budgets c).w := by
  unfold stepCore
  split
  · rename_i op vmi hctl
    split
    · exact LogExt.refl _
    · rename_i w' m hc
      exact LogExt.of_eq (charge_log c.w budgets vmi w' (some m) hc)
    · rename_i w' hc
      exact (LogExt.of_eq (charge_log c.w budgets vmi w' none hc)).trans (enter_log op vmi c.k w')
  · split
    · exact LogExt.refl _
    · exact resume_log _ _ _ _
  · split
    · exact LogExt.refl _
    · exact unwind_log _ _ _ _
  · exact LogExt.refl _
  · exact LogExt.refl _

theorem step_log (c : Cfg) : LogExt c.w (step c).w := stepCore_log c.budgets c.core

/-- … any number of steps -/
theorem run_log (n : Nat) (c : Cfg) : LogExt c.w (run n c).w := by
  induction n generalizing c with
  | zero => exact LogExt.refl _
  | succ n ih => rw [run]; exact (step_log c).trans (ih (step c))

theorem run_add (a b : Nat) (c : Cfg) : run (a + b) c = run b (run a c) := by
  induction a generalizing c with
  | zero => simp [run]
  | succ a ih => rw [Nat.succ_add, run, run, ih]

end Sq
