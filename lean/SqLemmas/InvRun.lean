/-
  SqLemmas/InvRun.lean — the generic configuration invariant over whole runs, and its instance for C18:
  every name the evaluator looks up during a run is mentioned by the program (or by a closure / ast_names tree the
  host supplied).
-/
import SqLemmas.InvMachine
import SqLemmas.ParseNames
namespace Sq.Inv

variable {Pc : List Op → Op → Nat → Prop} {Pb : String → Prop} {Pq : String → Prop} {Pr : Nat → Prop}
variable {Po : Op → Prop} {Pn : Name → Prop} {Psh : Prop}
local notation "NP" => NPg Pc Pb Pq Pr
local notation "PD" => PDg Pc Pb Pq Pr
local notation "FrameP" => FramePg Po Pn Psh
local notation "CtlP" => CtlPg Po
local notation "CoreNP" => CoreNPg Pc Pb Pq Pr Po Pn Psh
local notation "CorePD" => CorePDg Pc Pb Pq Pr Po Pn Psh
local notation "WorldNP" => WorldNPg Pc Pb Pq Pr
local notation "WorldPD" => WorldPDg Pc Pb Pq Pr

theorem frameP_pd (hq : ∀ q, Pq q) {fr : Frame} (h : FrameP NP fr) : FrameP PD fr := by
  cases fr with
  | binR k va => exact np_pd hq h
  | argsK n done todo vm => exact ⟨fun v hv => np_pd hq (h.1 v hv), h.2⟩
  | dictK done todo vm => exact ⟨fun v hv => np_pd hq (h.1 v hv), h.2⟩
  | codeK rest vm => exact h
  | binL k b vm => exact h
  | ifK a b vm => exact h
  | sliceK done todo vm => exact h
  | shortK n k vm => exact h
  | astK n rest main vm => exact h
  | iterK kind f src cur acc =>
    obtain ⟨h1, h2, h3, h4, h5⟩ := h
    refine ⟨?_, np_pd hq h2, ?_, np_pd hq h4, fun v hv => np_pd hq (h5 v hv)⟩
    · cases kind with
      | sortKeys items rev dm => exact fun v hv => np_pd hq (h1 v hv)
      | map => trivial
      | filter => trivial
      | reduce => trivial
    · cases src with
      | live a i => trivial
      | snap items => exact fun l hl v hv => np_pd hq (h3 l hl v hv)
  | _ => trivial

theorem world_pd (hq : ∀ q, Pq q) {w : World} (h : WorldNP w) : WorldPD w := by
  refine ⟨⟨?_, h.heap.2⟩, ?_, ?_⟩
  · intro a o hg
    have := h.heap.1 a o hg
    cases o with
    | list xs => exact fun v hv => np_pd hq (this v hv)
    | dict kvs => exact fun kv hkv => ⟨np_pd hq (this kv hkv).1, np_pd hq (this kv hkv).2⟩
  · intro a ha
    have := h.rx a ha
    cases a with
    | matched g0 gs => exact ⟨np_pd hq this.1, fun v hv => np_pd hq (this.2 v hv)⟩
    | all items => exact fun v hv => np_pd hq (this v hv)
    | noMatch => trivial
    | raised c => trivial
  · intro p hp
    have := h.probes p hp
    cases hpq : p.2 with
    | ret v => rw [hpq] at this; exact np_pd hq this
    | raise e => trivial

/-- when opaque objects are allowed, the invariant and its `dict`-free strengthening coincide -/
theorem core_pd (hq : ∀ q, Pq q) {c : Core} (h : CoreNP c) : CorePD c := by
  refine ⟨?_, fun fr hfr => frameP_pd hq (h.frames fr hfr), world_pd hq h.world⟩
  have := h.ctl
  cases hc : c.ctl with
  | ret v => rw [hc] at this; exact np_pd hq this
  | done v => rw [hc] at this; exact np_pd hq this
  | ev a b => rw [hc] at this; exact this
  | raise e => trivial
  | failed e => trivial

/-- **the invariant is inductive**: one machine step preserves it … -/
theorem inv_step' (hok : OpsOK Pc Pb Po Pn Psh) (hq : ∀ q, Pq q) (budgets : List Nat) (c : Core) (hc : CoreNP c) :
    CoreNP (stepCore budgets c) := inv_step hok budgets c (core_pd hq hc)

/-- … hence every configuration of every run satisfies it -/
theorem inv_run (hok : OpsOK Pc Pb Po Pn Psh) (hq : ∀ q, Pq q) (c : Cfg) (h0 : CoreNP c.core) :
    ∀ i, CoreNP (run i c).core := by
  intro i
  induction i with
  | zero => exact h0
  | succ i ih => rw [run_succ_right, step_core]; exact inv_step' hok hq _ _ ih

/-- the invariant is monotone in its three predicates -/
theorem NPg.mono {Pc' : List Op → Op → Nat → Prop} {Pb' Pq' : String → Prop}
    (hc : ∀ ps b vm, Pc ps b vm → Pc' ps b vm) (hb : ∀ n, Pb n → Pb' n) (hq : ∀ q, Pq q → Pq' q) :
    ∀ {v : Val}, NPg Pc Pb Pq Pr v → NPg Pc' Pb' Pq' Pr v
  | _, .none => .none
  | _, .bool => .bool
  | _, .dec => .dec
  | _, .int => .int
  | _, .str => .str
  | _, .slice => .slice
  | _, .ref h => .ref h
  | _, .builtin h => .builtin (hb _ h)
  | _, .closure h => .closure (hc _ _ _ h)
  | _, .host => .host
  | _, .opaque h => .opaque (hq _ h)
  | _, .tuple h => .tuple (fun v hv => NPg.mono hc hb hq (h v hv))

theorem WorldNPg.mono {Pc' : List Op → Op → Nat → Prop} {Pb' Pq' : String → Prop}
    (hc : ∀ ps b vm, Pc ps b vm → Pc' ps b vm) (hb : ∀ n, Pb n → Pb' n) (hq : ∀ q, Pq q → Pq' q) {w : World}
    (h : WorldNPg Pc Pb Pq Pr w) : WorldNPg Pc' Pb' Pq' Pr w := by
  refine ⟨⟨?_, h.heap.2⟩, ?_, ?_⟩
  · intro a o hg
    have := h.heap.1 a o hg
    cases o with
    | list xs => exact fun v hv => (this v hv).mono hc hb hq
    | dict kvs => exact fun kv hkv => ⟨(this kv hkv).1.mono hc hb hq, (this kv hkv).2.mono hc hb hq⟩
  · intro a ha
    have := h.rx a ha
    cases a with
    | matched g0 gs => exact ⟨this.1.mono hc hb hq, fun v hv => (this.2 v hv).mono hc hb hq⟩
    | all items => exact fun v hv => (this v hv).mono hc hb hq
    | noMatch => trivial
    | raised c => trivial
  · intro p hp
    have := h.probes p hp
    cases hpq : p.2 with
    | ret v => rw [hpq] at this; exact this.mono hc hb hq
    | raise e => trivial

/-! ### instance: names -/

/-- the name the next step looks up in the scopes (host names mapping, then builtins), if any: a variable node, a
    call node (after its last argument), a compound assignment (after its right-hand side).  These are the only places
    where the machine calls `lookupName` (`enter (.name n)`, `doCall`, `resume (.shortK n …)`). -/
def lookupOf (c : Core) : Option Name :=
  match c.ctl, c.k with
  | .ev (.name n) _, _ => some n
  | .ev (.call n []) _, _ => some n
  | .ret _, .argsK n _ [] _ :: _ => some n
  | .ret _, .shortK n _ _ :: _ => some n
  | _, _ => none

/-- every identifier the node mentions is in `S` -/
def MentionsIn (S : Name → Prop) (op : Op) : Prop := ∀ x, Mentions op x → S x

theorem opsOK_names (S : Name → Prop) :
    OpsOK (fun _ body _ => MentionsIn S body) (fun _ => True) (MentionsIn S) S True where
  builtin := fun _ _ _ => trivial
  name := fun n h => h n .name
  call := fun n args h => ⟨h n .callee, fun a ha x hx => h x (.arg ha hx)⟩
  short := fun n k v h => ⟨trivial, h n .shortTarget, fun x hx => h x (.shortVal hx)⟩
  assign := fun n v h x hx => h x (.assigned hx)
  lambda := fun ps body _ h x hx => h x (.body hx)
  body := fun _ _ _ h => h
  code := fun ls h l hl x hx => h x (.line hl hx)
  bin := fun k a b h => ⟨fun x hx => h x (.binL hx), fun x hx => h x (.binR hx)⟩
  unary := fun k a h x hx => h x (.unary hx)
  ifx := fun c a b h => ⟨fun x hx => h x (.ifC hx), fun x hx => h x (.ifA hx), fun x hx => h x (.ifB hx)⟩
  slice := fun a b c h => ⟨fun x hx => h x (.sliceA hx), fun x hx => h x (.sliceB hx), fun x hx => h x (.sliceC hx)⟩
  dict := fun kvs h a ha x hx => h x (.entry ha hx)

/-- the invariant instantiated: every closure anywhere in the configuration has a body mentioning only names in `S`,
    every pending node mentions only names in `S`, every pending call / compound-assignment name is in `S` -/
abbrev NamesInv (S : Name → Prop) (c : Core) : Prop :=
  CoreNPg (fun _ body _ => MentionsIn S body) (fun _ => True) (fun _ => True) (fun _ => True) (MentionsIn S) S True c

theorem lookup_in (S : Name → Prop) {c : Core} (h : NamesInv S c) {n : Name} (hl : lookupOf c = some n) : S n := by
  unfold lookupOf at hl
  have hctl := h.ctl
  split at hl
  · rename_i n' vmi hc
    cases hl
    rw [hc] at hctl
    exact hctl n .name
  · rename_i n' vmi hc
    cases hl
    rw [hc] at hctl
    exact hctl n .callee
  · rename_i v n' done vm k hc hk
    cases hl
    have := h.frames (.argsK n done [] vm) (by rw [hk]; simp)
    exact this.2.1
  · rename_i v n' sk vm k hc hk
    cases hl
    have := h.frames (.shortK n sk vm) (by rw [hk]; simp)
    exact this.2
  · cases hl

/-- **every lookup of every run is for a name in `S`**, given that the initial configuration satisfies the invariant -/
theorem run_lookups_in (S : Name → Prop) (c : Cfg) (h0 : NamesInv S c.core) (i : Nat) (n : Name)
    (hl : lookupOf (run i c).core = some n) : S n :=
  lookup_in S (inv_run (opsOK_names S) (fun _ => trivial) c h0 i) hl

/-- the initial configuration of an evaluation satisfies the invariant when the program, the `ast_names` trees and the
    closures the host's world already holds mention only names in `S` -/
theorem init_names_inv (S : Name → Prop) (w : World) (bs : List Nat) (namesAddr budget : Nat) (tree : Op)
    (astNames : List (Name × Op))
    (hw : WorldNPg (fun _ body _ => MentionsIn S body) (fun _ => True) (fun _ => True) (fun _ => True) w)
    (ht : MentionsIn S tree) (ha : ∀ p, p ∈ astNames → MentionsIn S p.2) :
    NamesInv S (initCfg w bs namesAddr budget tree astNames).core := by
  have hw' : WorldNPg (fun _ body _ => MentionsIn S body) (fun _ => True) (fun _ => True) (fun _ => True)
      { w with vms := w.vms ++ [{ scopes := [namesAddr], ops := 0 }] } := ⟨hw.heap, hw.rx, hw.probes⟩
  cases astNames with
  | nil => exact ⟨ht, fun fr hfr => (by cases hfr), hw'⟩
  | cons p rest =>
    obtain ⟨n, op⟩ := p
    refine ⟨ha (n, op) (by simp), ?_, hw'⟩
    intro fr hfr
    simp only [initCfg, Cfg.core, List.mem_singleton] at hfr
    subst hfr
    exact ⟨fun q hq => ha q (by simp [hq]), ht⟩

end Sq.Inv
