/-
  SqLemmas/CopyLemmas.lean — C12 [B] `deepcopy_fresh`: every object reachable from the result of `copy.deepcopy`
  is NEW.  With the frame theorem (old objects are unchanged) this is the independence of the stored copy:
  the copy contains no address that existed before the assignment, so no mutation of an old object can be seen
  through it, and every object it reaches was created by this very copy.
-/
import Sq.Prim
namespace Sq

/-- every heap address occurring in the value (also inside tuples) is at least `b` -/
inductive RefsGe (b : Nat) : Val → Prop
  | none : RefsGe b .none
  | bool {x} : RefsGe b (.bool x)
  | dec {d c} : RefsGe b (.dec d c)
  | int {i} : RefsGe b (.int i)
  | str {s} : RefsGe b (.str s)
  | slice {x y z} : RefsGe b (.slice x y z)
  | builtin {n} : RefsGe b (.builtin n)
  | closure {ps body vm} : RefsGe b (.closure ps body vm)
  | host {i} : RefsGe b (.host i)
  | opaque {k} : RefsGe b (.opaque k)
  | ref {a} : a ≥ b → RefsGe b (.ref a)
  | tuple {vs} : (∀ v, v ∈ vs → RefsGe b v) → RefsGe b (.tuple vs)

/-- the values held by an object mention only addresses ≥ `b` (dict keys included) -/
def ObjGe (b : Nat) : HObj → Prop
  | .list xs => ∀ v, v ∈ xs → RefsGe b v
  | .dict kvs => ∀ kv, kv ∈ kvs → RefsGe b kv.1 ∧ RefsGe b kv.2

/-- dict keys hold no heap address at all (they are hashable: strings, numbers, tuples of such) -/
def KeysPlain (h : Heap) : Prop :=
  ∀ a kvs, h.get? a = some (.dict kvs) → ∀ kv, kv ∈ kvs → ∀ b, RefsGe b kv.1

/-- invariant of a copy in progress with base `b` (= heap size when the copy started): the memo maps to new
    addresses only, and every new object mentions new addresses only -/
structure CopyInv (b : Nat) (h : Heap) (memo : List (Nat × Nat)) : Prop where
  memo_new : ∀ p, p ∈ memo → p.2 ≥ b
  objs_new : ∀ a, a ≥ b → ∀ o, h.get? a = some o → ObjGe b o
  keys : KeysPlain h

theorem get?_push (h : Heap) (o : HObj) (a : Nat) :
    Heap.get? (h.push o) a = if a = h.size then some o else Heap.get? h a := by
  unfold Heap.get?
  rw [Array.getElem?_push]

theorem get?_set (h : Heap) (a b : Nat) (o : HObj) :
    Heap.get? (h.set a o) b = if a = b ∧ a < h.size then some o else Heap.get? h b := by
  unfold Heap.get? Heap.set
  rw [Array.getElem?_setIfInBounds]
  by_cases hab : a = b
  · subst hab
    by_cases hl : a < h.size
    · simp [hl]
    · simp [hl]
  · simp [hab]

theorem size_set (h : Heap) (a : Nat) (o : HObj) : (h.set a o).size = h.size := by
  simp [Heap.set]

theorem copyInv_push {b : Nat} {h : Heap} {memo : List (Nat × Nat)} (hi : CopyInv b h memo) (hb : b ≤ h.size)
    (a : Nat) (o : HObj) (ho : o = .list [] ∨ o = .dict []) : CopyInv b (h.push o) ((a, h.size) :: memo) := by
  refine ⟨?_, ?_, ?_⟩
  · intro p hp
    rcases List.mem_cons.mp hp with e | e
    · rw [e]; exact hb
    · exact hi.memo_new p e
  · intro x hx ob hg
    rw [get?_push] at hg
    split at hg
    · injection hg with hg
      subst hg
      rcases ho with e | e <;> subst e <;> intro v hv <;> cases hv
    · exact hi.objs_new x hx ob hg
  · intro x kvs hg kv hkv
    rw [get?_push] at hg
    split at hg
    · injection hg with hg
      rcases ho with e | e <;> subst e
      · cases hg
      · injection hg with hg; subst hg; cases hkv
    · exact hi.keys x kvs hg kv hkv

theorem copyInv_set {b : Nat} {h : Heap} {memo : List (Nat × Nat)} (hi : CopyInv b h memo) (a : Nat) (o : HObj)
    (ho : ObjGe b o) (hk : ∀ kvs, o = .dict kvs → ∀ kv, kv ∈ kvs → ∀ b, RefsGe b kv.1) :
    CopyInv b (h.set a o) memo := by
  refine ⟨hi.memo_new, ?_, ?_⟩
  · intro x hx ob hg
    rw [get?_set] at hg
    split at hg
    · injection hg with hg; subst hg; exact ho
    · exact hi.objs_new x hx ob hg
  · intro x kvs hg kv hkv
    rw [get?_set] at hg
    split at hg
    · injection hg with hg
      exact hk kvs hg kv hkv
    · exact hi.keys x kvs hg kv hkv

/-- **fresh**: the result of a copy mentions new addresses only, and the invariant is kept -/
theorem deepcopy_fresh (b : Nat) : ∀ (f : Nat),
    (∀ h memo v v' h' memo', deepcopy f h memo v = some (v', h', memo') → b ≤ h.size → CopyInv b h memo →
      CopyInv b h' memo' ∧ RefsGe b v' ∧ h.size ≤ h'.size) ∧
    (∀ h memo vs vs' h' memo', deepcopy.copyList f h memo vs = some (vs', h', memo') → b ≤ h.size → CopyInv b h memo →
      CopyInv b h' memo' ∧ (∀ v, v ∈ vs' → RefsGe b v) ∧ h.size ≤ h'.size ∧ vs'.length = vs.length) := by
  intro f
  induction f with
  | zero => exact ⟨by intro h memo v v' h' memo' hh; simp [deepcopy] at hh,
                   by intro h memo vs vs' h' memo' hh; simp [deepcopy.copyList] at hh⟩
  | succ f ih =>
    obtain ⟨ihd, ihl⟩ := ih
    constructor
    · intro h memo v v' h' memo' hh hb hi
      unfold deepcopy at hh
      split at hh
      · -- tuple
        split at hh
        · rename_i r hr
          simp only [Option.some.injEq, Prod.mk.injEq] at hh
          obtain ⟨rfl, rfl, rfl⟩ := hh
          obtain ⟨i1, f1, s1, _⟩ := ihl _ _ _ _ _ _ hr hb hi
          exact ⟨i1, RefsGe.tuple f1, s1⟩
        · simp at hh
      · -- ref
        split at hh
        · rename_i p hp
          simp only [Option.some.injEq, Prod.mk.injEq] at hh
          obtain ⟨rfl, rfl, rfl⟩ := hh
          exact ⟨hi, RefsGe.ref (hi.memo_new p (List.mem_of_find?_eq_some hp)), Nat.le_refl _⟩
        · split at hh
          · -- list
            rename_i a _ hfind _ xs hg
            simp only [Heap.alloc] at hh
            split at hh
            · rename_i xs' h2 m2 hr
              simp only [Option.some.injEq, Prod.mk.injEq] at hh
              obtain ⟨rfl, rfl, rfl⟩ := hh
              have hi1 := copyInv_push hi hb a (.list []) (Or.inl rfl)
              obtain ⟨i2, f2, s2, _⟩ := ihl _ _ _ _ _ _ hr (by simp; omega) hi1
              refine ⟨copyInv_set i2 _ _ f2 (fun kvs e => by cases e), RefsGe.ref hb, ?_⟩
              rw [size_set]; simp at s2; omega
            · simp at hh
          · -- dict
            rename_i a _ hfind _ kvs hg
            simp only [Heap.alloc] at hh
            split at hh
            · rename_i vs' h2 m2 hr
              simp only [Option.some.injEq, Prod.mk.injEq] at hh
              obtain ⟨rfl, rfl, rfl⟩ := hh
              have hi1 := copyInv_push hi hb a (.dict []) (Or.inr rfl)
              obtain ⟨i2, f2, s2, _⟩ := ihl _ _ _ _ _ _ hr (by simp; omega) hi1
              have hkeys : ∀ kv, kv ∈ (kvs.map (·.1)).zip vs' → ∀ b', RefsGe b' kv.1 := by
                intro kv hkv b'
                obtain ⟨k, v⟩ := kv
                have hk := (List.of_mem_zip hkv).1
                obtain ⟨kv0, hm0, e0⟩ := List.mem_map.mp hk
                have := hi.keys a kvs hg kv0 hm0 b'
                rw [e0] at this
                exact this
              refine ⟨copyInv_set i2 _ _ ?_ ?_, RefsGe.ref hb, ?_⟩
              · intro kv hkv
                obtain ⟨k, v⟩ := kv
                exact ⟨hkeys (k, v) hkv b, f2 v (List.of_mem_zip hkv).2⟩
              · intro kvs' e kv hkv b'
                injection e with e
                subst e
                exact hkeys kv hkv b'
              · rw [size_set]; simp at s2; omega
            · simp at hh
          · simp at hh
      · -- scalar: neither a tuple nor a reference
        rename_i hnt hnr
        simp only [Option.some.injEq, Prod.mk.injEq] at hh
        obtain ⟨rfl, rfl, rfl⟩ := hh
        refine ⟨hi, ?_, Nat.le_refl _⟩
        cases v <;> first | exact absurd rfl (hnt _) | exact absurd rfl (hnr _) | constructor
    · intro h memo vs vs' h' memo' hh hb hi
      cases vs with
      | nil =>
        simp only [deepcopy.copyList, Option.some.injEq, Prod.mk.injEq] at hh
        obtain ⟨rfl, rfl, rfl⟩ := hh
        exact ⟨hi, fun v hv => (by cases hv), Nat.le_refl _, rfl⟩
      | cons x xs =>
        simp only [deepcopy.copyList] at hh
        split at hh
        · simp at hh
        · rename_i x' h1 m1 hx
          split at hh
          · rename_i xs' h2 m2 hxs
            simp only [Option.some.injEq, Prod.mk.injEq] at hh
            obtain ⟨rfl, rfl, rfl⟩ := hh
            obtain ⟨i1, f1, s1⟩ := ihd _ _ _ _ _ _ hx hb hi
            obtain ⟨i2, f2, s2, l2⟩ := ihl _ _ _ _ _ _ hxs (by omega) i1
            refine ⟨i2, ?_, by omega, by simp [l2]⟩
            intro v hv
            rcases List.mem_cons.mp hv with e | e
            · rw [e]; exact f1
            · exact f2 v e
          · simp at hh

/-- the public form: after `copy.deepcopy` of a value in a heap whose dict keys are plain, every address the
    copy mentions, and every address mentioned by any object created by the copy, is NEW (≥ the old heap size) -/
theorem deepcopy'_fresh (h : Heap) (v v' : Val) (h' : Heap) (hk : KeysPlain h)
    (hc : deepcopy' h v = .ok (v', h')) :
    RefsGe h.size v' ∧ (∀ a, a ≥ h.size → ∀ o, h'.get? a = some o → ObjGe h.size o) ∧ KeysPlain h' := by
  unfold deepcopy' at hc
  split at hc
  · rename_i v1 h1 m1 hr
    simp only [Except.ok.injEq, Prod.mk.injEq] at hc
    obtain ⟨rfl, rfl⟩ := hc
    have hi0 : CopyInv h.size h [] := by
      refine ⟨fun p hp => (by cases hp), ?_, hk⟩
      intro a ha o hg
      unfold Heap.get? at hg
      have : h[a]? = none := by
        apply Array.getElem?_eq_none
        exact ha
      rw [this] at hg
      cases hg
    obtain ⟨i1, f1, _⟩ := (deepcopy_fresh h.size _).1 _ _ _ _ _ _ hr (Nat.le_refl _) hi0
    exact ⟨f1, i1.objs_new, i1.keys⟩
  · simp [U] at hc

/-- `Reach h v c`: the object at address `c` can be reached from the value `v` in heap `h`
    (through tuples, list elements, dict keys and values) — everything a mutation through `v` could touch and
    everything a read through `v` could see -/
inductive Reach (h : Heap) : Val → Nat → Prop
  | here {a} : Reach h (.ref a) a
  | tuple {vs v c} : v ∈ vs → Reach h v c → Reach h (.tuple vs) c
  | elem {a xs v c} : h.get? a = some (.list xs) → v ∈ xs → Reach h v c → Reach h (.ref a) c
  | key {a kvs kv c} : h.get? a = some (.dict kvs) → kv ∈ kvs → Reach h kv.1 c → Reach h (.ref a) c
  | value {a kvs kv c} : h.get? a = some (.dict kvs) → kv ∈ kvs → Reach h kv.2 c → Reach h (.ref a) c

/-- from a value that mentions only addresses ≥ `b`, in a heap whose objects at addresses ≥ `b` mention only
    addresses ≥ `b`, only addresses ≥ `b` can be reached -/
theorem reach_ge {b : Nat} {h : Heap} (hobj : ∀ a, a ≥ b → ∀ o, h.get? a = some o → ObjGe b o)
    {v : Val} {c : Nat} (hr : Reach h v c) : RefsGe b v → c ≥ b := by
  induction hr with
  | here => intro hv; cases hv with | ref h => exact h
  | tuple hm _ ih => intro hv; cases hv with | tuple hall => exact ih (hall _ hm)
  | elem hg hm _ ih =>
    intro hv
    cases hv with
    | ref ha => exact ih (hobj _ ha _ hg _ hm)
  | key hg hm _ ih =>
    intro hv
    cases hv with
    | ref ha => exact ih (hobj _ ha _ hg _ hm).1
  | value hg hm _ ih =>
    intro hv
    cases hv with
    | ref ha => exact ih (hobj _ ha _ hg _ hm).2

/-- every address occurring in the value is below `n` -/
inductive RefsLt (n : Nat) : Val → Prop
  | none : RefsLt n .none
  | bool {x} : RefsLt n (.bool x)
  | dec {d c} : RefsLt n (.dec d c)
  | int {i} : RefsLt n (.int i)
  | str {s} : RefsLt n (.str s)
  | slice {x y z} : RefsLt n (.slice x y z)
  | builtin {m} : RefsLt n (.builtin m)
  | closure {ps body vm} : RefsLt n (.closure ps body vm)
  | host {i} : RefsLt n (.host i)
  | opaque {k} : RefsLt n (.opaque k)
  | ref {a} : a < n → RefsLt n (.ref a)
  | tuple {vs} : (∀ v, v ∈ vs → RefsLt n v) → RefsLt n (.tuple vs)

def ObjLt (n : Nat) : HObj → Prop
  | .list xs => ∀ v, v ∈ xs → RefsLt n v
  | .dict kvs => ∀ kv, kv ∈ kvs → RefsLt n kv.1 ∧ RefsLt n kv.2

/-- a heap is closed: objects mention existing objects only -/
def Closed (h : Heap) : Prop := ∀ a o, h.get? a = some o → ObjLt h.size o

/-- from an old value (addresses < `n`), in any heap whose first `n` objects mention only addresses < `n`,
    only addresses < `n` can be reached -/
theorem reach_lt {n : Nat} {h : Heap} (hobj : ∀ a, a < n → ∀ o, h.get? a = some o → ObjLt n o)
    {v : Val} {c : Nat} (hr : Reach h v c) : RefsLt n v → c < n := by
  induction hr with
  | here => intro hv; cases hv with | ref h => exact h
  | tuple hm _ ih => intro hv; cases hv with | tuple hall => exact ih (hall _ hm)
  | elem hg hm _ ih =>
    intro hv
    cases hv with
    | ref ha => exact ih (hobj _ ha _ hg _ hm)
  | key hg hm _ ih =>
    intro hv
    cases hv with
    | ref ha => exact ih (hobj _ ha _ hg _ hm).1
  | value hg hm _ ih =>
    intro hv
    cases hv with
    | ref ha => exact ih (hobj _ ha _ hg _ hm).2

end Sq
