/-
  SqLemmas/FixLemmas.lean — C08 [B]: what `fix` (Decimal._fix under the default context) returns, case by case, and
  the assembly with DivLemmas: the result of `/` IS the half-even rounding of the true quotient.
-/
import Sq.Dec
import SqLemmas.DecLemmas
import SqLemmas.DivLemmas
namespace Sq.Dec

/-- arithmetic core of half-even rounding, with the products named: `c = m + r`, `r < p`, and the
    kept multiple `qp` is `m` or `m + p` -/
theorem halfEven_core' (c m r p : Nat) (hc : c = m + r) (hr : r < p) :
    (2 * r > p → (2 * c ≤ 2 * (m + p) + p ∧ 2 * (m + p) ≤ 2 * c + p) ∧ ¬ (2 * c = 2 * (m + p) + p) ∧ ¬ (2 * (m + p) = 2 * c + p)) ∧
    (2 * r = p → (2 * c ≤ 2 * (m + p) + p ∧ 2 * (m + p) ≤ 2 * c + p) ∧ (2 * c ≤ 2 * m + p ∧ 2 * m ≤ 2 * c + p)) ∧
    (2 * r < p → (2 * c ≤ 2 * m + p ∧ 2 * m ≤ 2 * c + p) ∧ ¬ (2 * c = 2 * m + p) ∧ ¬ (2 * m = 2 * c + p)) := by
  refine ⟨?_, ?_, ?_⟩ <;> intro h <;> omega

/-- rounding half-even is to the NEAREST multiple of 10^k, ties to the EVEN quotient -/
theorem roundDiv_nearest (neg : Bool) (c k : Nat) :
    (2 * c ≤ 2 * (roundDiv .halfEven neg c k * 10 ^ k) + 10 ^ k ∧
     2 * (roundDiv .halfEven neg c k * 10 ^ k) ≤ 2 * c + 10 ^ k) ∧
    ((2 * c = 2 * (roundDiv .halfEven neg c k * 10 ^ k) + 10 ^ k ∨
      2 * (roundDiv .halfEven neg c k * 10 ^ k) = 2 * c + 10 ^ k) → roundDiv .halfEven neg c k % 2 = 0) := by
  generalize hp : 10 ^ k = p
  have hpos : 0 < p := by rw [← hp]; exact Nat.pos_of_ne_zero (by simp)
  have hr : c % p < p := Nat.mod_lt c hpos
  have hdm : c = p * (c / p) + c % p := (Nat.div_add_mod c p).symm
  obtain ⟨hup, htie, hdown⟩ := halfEven_core' c (p * (c / p)) (c % p) p hdm hr
  have e1 : (c / p + 1) * p = p * (c / p) + p := by rw [Nat.add_mul, Nat.mul_comm]; simp
  have e0 : (c / p) * p = p * (c / p) := Nat.mul_comm _ _
  unfold roundDiv
  simp only [hp]
  by_cases h1 : 2 * (c % p) > p
  · simp only [h1, if_true, e1]
    obtain ⟨hb, hn1, hn2⟩ := hup h1
    exact ⟨hb, fun h => by rcases h with h | h; exact absurd h hn1; exact absurd h hn2⟩
  · simp only [h1, if_false]
    by_cases h2 : 2 * (c % p) = p ∧ c / p % 2 = 1
    · simp only [h2, and_self, if_true, e1]
      obtain ⟨hb, _⟩ := htie h2.1
      exact ⟨hb, fun _ => by omega⟩
    · simp only [h2, if_false, e0]
      by_cases h3 : 2 * (c % p) = p
      · obtain ⟨_, hb⟩ := htie h3
        refine ⟨hb, fun _ => ?_⟩
        rcases Nat.mod_two_eq_zero_or_one (c / p) with h0 | h1'
        · exact h0
        · exact absurd ⟨h3, h1'⟩ h2
      · have hlt : 2 * (c % p) < p := by omega
        obtain ⟨hb, hn1, hn2⟩ := hdown hlt
        exact ⟨hb, fun h => by rcases h with h | h; exact absurd h hn1; exact absurd h hn2⟩

/-- the exponent `fix` rounds to: 28 significant digits, but not below Etiny -/
def fixExp (d : Dec) : Int := max ((ndigits d.coeff : Int) + d.exp - prec) etiny

/-- the number of low digits `fix` drops -/
def fixK (d : Dec) : Nat := (fixExp d - d.exp).toNat

/-- the coefficient after dropping them, rounded half-even -/
def fixQ (d : Dec) : Nat := roundDiv .halfEven d.neg d.coeff (fixK d)

theorem fixQ_le (d : Dec) : fixQ d ≤ 10 ^ 28 := by
  unfold fixQ
  have h1 := roundDiv_le .halfEven d.neg d.coeff (fixK d)
  have h2 := lt_pow_ndigits d.coeff
  have hnd : ndigits d.coeff ≤ fixK d + 28 := by unfold fixK fixExp; simp only [prec]; omega
  have h3 : d.coeff < 10 ^ (fixK d + 28) := Nat.lt_of_lt_of_le h2 (Nat.pow_le_pow_right (by omega) hnd)
  rw [Nat.pow_add] at h3
  have h4 : d.coeff / 10 ^ fixK d < 10 ^ 28 := Nat.div_lt_of_lt_mul h3
  omega

/-- **`fix`, case by case** (non-zero coefficient): unchanged when nothing has to be dropped; otherwise the half-even
    quotient at exponent `fixExp`; and when rounding up carried into a 29th digit, that quotient is exactly 10^28 and
    is returned as 10^27 at the next exponent -/
theorem fix_cases (d r : Dec) (h : fix d = .ok r) (hnz : d.coeff ≠ 0) :
    (fixExp d ≤ d.exp ∧ r = d) ∨
    (d.exp < fixExp d ∧ ndigits (fixQ d) ≤ 28 ∧ r = { d with coeff := fixQ d, exp := fixExp d }) ∨
    (d.exp < fixExp d ∧ fixQ d = 10 ^ 28 ∧ r = { d with coeff := 10 ^ 27, exp := fixExp d + 1 }) := by
  unfold fix at h
  simp only [hnz, if_false] at h
  split at h
  · cases h
  · split at h
    · rename_i hlt
      have hlt' : d.exp < fixExp d := hlt
      right
      split at h
      · rename_i hbig
        split at h
        · cases h
        · right
          have hq : fixQ d = 10 ^ 28 := by
            have hge := pow_le_of_lt_ndigits (fixQ d) 28 (by omega) (by unfold fixQ fixK fixExp; simpa [prec] using hbig)
            have := fixQ_le d
            omega
          refine ⟨hlt', hq, ?_⟩
          simp only [Except.ok.injEq] at h
          rw [← h]
          have e : roundDiv .halfEven d.neg d.coeff (max ((ndigits d.coeff : Int) + d.exp - (prec : Int)) etiny - d.exp).toNat
              = fixQ d := rfl
          rw [e, hq]
          have : (10 : Nat) ^ 28 / 10 = 10 ^ 27 := by decide
          rw [this]
          rfl
      · rename_i hsmall
        left
        simp only [Except.ok.injEq] at h
        refine ⟨hlt', by unfold fixQ fixK fixExp; simpa [prec] using hsmall, ?_⟩
        rw [← h]
        rfl
    · rename_i hge
      left
      simp only [Except.ok.injEq] at h
      exact ⟨by unfold fixExp; simpa using hge, h.symm⟩

/-- **`fix` rounds to nearest, ties to even**: the result keeps the sign, stands at an exponent `j ≥ 0` places higher,
    differs from the exact value by at most half a unit of ITS last place (`10^j` in units of the argument's last
    place), and when the exact value lies exactly half-way the kept coefficient is even -/
theorem fix_nearest (d r : Dec) (h : fix d = .ok r) (hnz : d.coeff ≠ 0) :
    r.neg = d.neg ∧ ∃ j : Nat, r.exp = d.exp + j ∧
      (2 * d.coeff ≤ 2 * (r.coeff * 10 ^ j) + 10 ^ j ∧ 2 * (r.coeff * 10 ^ j) ≤ 2 * d.coeff + 10 ^ j) ∧
      ((2 * d.coeff = 2 * (r.coeff * 10 ^ j) + 10 ^ j ∨ 2 * (r.coeff * 10 ^ j) = 2 * d.coeff + 10 ^ j) → r.coeff % 2 = 0) := by
  rcases fix_cases d r h hnz with ⟨_, rfl⟩ | ⟨hlt, _, rfl⟩ | ⟨hlt, hq, rfl⟩
  · refine ⟨rfl, 0, by simp, by simp, ?_⟩
    intro h; simp at h
  · refine ⟨rfl, fixK d, ?_, ?_⟩
    · show fixExp d = d.exp + ((fixK d : Nat) : Int)
      unfold fixK; omega
    · exact roundDiv_nearest d.neg d.coeff (fixK d)
  · refine ⟨rfl, fixK d + 1, ?_, ?_, ?_⟩
    · show fixExp d + 1 = d.exp + ((fixK d + 1 : Nat) : Int)
      unfold fixK; omega
    · have := (roundDiv_nearest d.neg d.coeff (fixK d)).1
      have e : fixQ d = roundDiv .halfEven d.neg d.coeff (fixK d) := rfl
      rw [← e, hq] at this
      have e2 : (10 : Nat) ^ 27 * 10 ^ (fixK d + 1) = 10 ^ 28 * 10 ^ fixK d := by
        have key : ∀ X : Nat, 10 ^ 27 * (X * 10) = 10 ^ 28 * X := by intro X; omega
        rw [show (10 : Nat) ^ (fixK d + 1) = 10 ^ fixK d * 10 from Nat.pow_succ ..]; exact key _
      show 2 * d.coeff ≤ 2 * (10 ^ 27 * 10 ^ (fixK d + 1)) + 10 ^ (fixK d + 1) ∧
        2 * (10 ^ 27 * 10 ^ (fixK d + 1)) ≤ 2 * d.coeff + 10 ^ (fixK d + 1)
      rw [e2]
      have : 10 ^ fixK d ≤ 10 ^ (fixK d + 1) := Nat.pow_le_pow_right (by omega) (by omega)
      omega
    · intro _
      show 10 ^ 27 % 2 = 0
      decide

/-- what the sticky quotient of an inexact division is rounded to -/
theorem divPre_fixK_pos (a b : Dec) (ha : a.coeff ≠ 0) (hb : b.coeff ≠ 0) (hr : divNum a b % divDen a b ≠ 0) :
    1 ≤ fixK (divPre a b) ∧ (divPre a b).exp < fixExp (divPre a b) := by
  have hd := divPre_digits a b ha hb hr
  unfold Dec.digits at hd
  unfold fixK fixExp
  simp only [prec]
  omega

/-- **division is correctly rounded**: for non-zero operands with an inexact quotient, whenever `/` returns `r`,
    `r.coeff` is the half-even rounding of the TRUE quotient `divNum / divDen` (a rational) at the digit position
    `k ≥ 1` that `fix` chose — or, when that rounding is exactly 10^28, the same value written as 10^27 one exponent
    higher.  The exponent of `r` is `divExp + k` (resp. `+ k + 1`), so `r` denotes that rounded value of `a / b`. -/
theorem div_correctly_rounded (a b r : Dec) (ha : a.coeff ≠ 0) (hb : b.coeff ≠ 0)
    (hr : divNum a b % divDen a b ≠ 0) (h : Dec.div a b = .ok r) :
    r.neg = (a.neg != b.neg) ∧ ∃ k : Nat, 1 ≤ k ∧
      ((r.coeff = roundRat (divNum a b) (divDen a b * 10 ^ k) ∧ r.exp = divExp a b + (k : Int) ∧ r.digits ≤ 28) ∨
       (roundRat (divNum a b) (divDen a b * 10 ^ k) = 10 ^ 28 ∧ r.coeff = 10 ^ 27 ∧ r.exp = divExp a b + (k : Int) + 1)) := by
  unfold Dec.div at h
  simp only [hb, if_false] at h
  have hpre := divPre_inexact a b ha hr
  have hnz : (divPre a b).coeff ≠ 0 := by
    rw [hpre]; show sticky _ _ ≠ 0
    have := div_quot_big a b ha hb
    have := sticky_ge (divNum a b) (divDen a b)
    have : 0 < 10 ^ 28 := Nat.pow_pos (by decide)
    omega
  obtain ⟨hk, hlt⟩ := divPre_fixK_pos a b ha hb hr
  have hround := div_rounding_correct a b ha hb hr (fixK (divPre a b)) hk
  have hexp : fixExp (divPre a b) = divExp a b + (fixK (divPre a b) : Nat) := by
    have : (divPre a b).exp = divExp a b := by rw [hpre]
    unfold fixK; omega
  have hneg : (divPre a b).neg = (a.neg != b.neg) := by rw [hpre]
  rcases fix_cases (divPre a b) r h hnz with ⟨hge, _⟩ | ⟨_, hdig, rfl⟩ | ⟨_, hq, rfl⟩
  · omega
  · refine ⟨hneg, fixK (divPre a b), hk, Or.inl ⟨?_, hexp, hdig⟩⟩
    exact hround
  · refine ⟨hneg, fixK (divPre a b), hk, Or.inr ⟨?_, rfl, ?_⟩⟩
    · rw [← hround]; exact hq
    · show fixExp (divPre a b) + 1 = _
      omega

/-- `roundRat n d` IS the nearest integer to the rational `n / d`, ties to even: `|n − roundRat·d| ≤ d / 2` -/
theorem roundRat_nearest (n d : Nat) (hd : 0 < d) :
    (2 * n ≤ 2 * (roundRat n d * d) + d ∧ 2 * (roundRat n d * d) ≤ 2 * n + d) ∧
    ((2 * n = 2 * (roundRat n d * d) + d ∨ 2 * (roundRat n d * d) = 2 * n + d) → roundRat n d % 2 = 0) := by
  have hr : n % d < d := Nat.mod_lt n hd
  have hdm : n = d * (n / d) + n % d := (Nat.div_add_mod n d).symm
  have e1 : (n / d + 1) * d = d * (n / d) + d := by rw [Nat.add_mul, Nat.mul_comm]; simp
  have e0 : (n / d) * d = d * (n / d) := Nat.mul_comm _ _
  unfold roundRat
  by_cases h1 : 2 * (n % d) > d
  · simp only [h1, if_true, e1]
    generalize d * (n / d) = m at *
    exact ⟨by omega, fun h => by omega⟩
  · simp only [h1, if_false]
    by_cases h2 : 2 * (n % d) = d ∧ n / d % 2 = 1
    · simp only [h2, and_self, if_true, e1]
      generalize hm : d * (n / d) = m at *
      exact ⟨by omega, fun _ => by omega⟩
    · simp only [h2, if_false, e0]
      generalize hm : d * (n / d) = m at *
      refine ⟨by omega, fun h => ?_⟩
      have h3 : 2 * (n % d) = d := by omega
      rcases Nat.mod_two_eq_zero_or_one (n / d) with h0 | h1'
      · exact h0
      · exact absurd ⟨h3, h1'⟩ h2

end Sq.Dec
