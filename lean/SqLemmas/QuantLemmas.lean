/-
  SqLemmas/QuantLemmas.lean — C08 [B]: what `quantize` (the arithmetic of `round(x, n)`) returns, case by case:
  the sign is kept, the exponent is the one asked for, and the coefficient is the argument's scaled up exactly
  (nothing dropped) or its half-even quotient by the power of ten that is dropped.
-/
import Sq.Dec
import SqLemmas.DecLemmas
import SqLemmas.FixLemmas
namespace Sq.Dec

/-- `fix` leaves a number alone that already fits: at most 28 digits, exponent inside the context's range -/
theorem fix_of_fits (d r : Dec) (hd : ndigits d.coeff ≤ prec) (he : etiny ≤ d.exp) (he2 : d.exp ≤ emax)
    (h : fix d = .ok r) : r = d := by
  unfold fix at h
  by_cases hz : d.coeff = 0
  · simp only [hz, if_true] at h
    have : min (max d.exp etiny) emax = d.exp := by omega
    rw [this] at h
    cases h
    cases d; simp only at hz; subst hz; rfl
  · simp only [hz, if_false] at h
    split at h
    · cases h
    · have hmin : ¬ d.exp < max ((ndigits d.coeff : Int) + d.exp - (prec : Nat)) etiny := by
        have : (ndigits d.coeff : Int) ≤ (prec : Nat) := by exact_mod_cast hd
        omega
      simp only [hmin, if_false] at h
      cases h; rfl

/-- **`rescale` (half-even), case by case**: sign kept, exponent as asked, coefficient scaled up exactly or the half-even
    quotient by the power of ten that is dropped -/
theorem rescale_cases (a : Dec) (e : Int) :
    (rescale a e .halfEven).neg = a.neg ∧ (rescale a e .halfEven).exp = e ∧
    ((a.coeff = 0 ∧ (rescale a e .halfEven).coeff = 0) ∨
     (a.coeff ≠ 0 ∧ e ≤ a.exp ∧ (rescale a e .halfEven).coeff = a.coeff * 10 ^ (a.exp - e).toNat) ∨
     (a.coeff ≠ 0 ∧ a.exp < e ∧ (rescale a e .halfEven).coeff = roundDiv .halfEven a.neg a.coeff (e - a.exp).toNat)) := by
  by_cases hz : a.coeff = 0
  · refine ⟨?_, ?_, Or.inl ⟨hz, ?_⟩⟩ <;> unfold rescale <;> simp only [hz, if_true]
  · by_cases hge : a.exp ≥ e
    · refine ⟨?_, ?_, Or.inr (Or.inl ⟨hz, hge, ?_⟩)⟩ <;> unfold rescale <;> simp only [hz, if_false, hge, if_true]
    · refine ⟨?_, ?_, Or.inr (Or.inr ⟨hz, by omega, ?_⟩)⟩ <;> unfold rescale <;> simp only [hz, if_false, hge]

/-- whenever `quantize` returns, it returns the half-even rescaling of its argument (the guards only refuse) -/
theorem quantize_is_rescale (a r : Dec) (e : Int) (h : quantize a e = .ok r) : r = rescale a e .halfEven := by
  unfold quantize at h
  split at h
  · cases h
  · rename_i hrange
    have hr : etiny ≤ e ∧ e ≤ emax := Decidable.of_not_not hrange
    split at h
    · rename_i hz
      have := fix_of_fits { a with exp := e } r (by simp [hz, ndigits, ndigitsAux, prec]) hr.1 hr.2 h
      subst this
      unfold rescale; simp only [hz, if_true]
    · rename_i hz
      split at h
      · cases h
      · split at h
        · cases h
        · simp only at h
          split at h
          · cases h
          · split at h
            · cases h
            · rename_i hnd
              have hexp := (rescale_cases a e).2.1
              exact fix_of_fits _ r (Nat.le_of_not_lt hnd) (by rw [hexp]; exact hr.1) (by rw [hexp]; exact hr.2) h

/-- **`quantize`, case by case** -/
theorem quantize_cases (a r : Dec) (e : Int) (h : quantize a e = .ok r) :
    r.neg = a.neg ∧ r.exp = e ∧
    ((a.coeff = 0 ∧ r.coeff = 0) ∨
     (a.coeff ≠ 0 ∧ e ≤ a.exp ∧ r.coeff = a.coeff * 10 ^ (a.exp - e).toNat) ∨
     (a.coeff ≠ 0 ∧ a.exp < e ∧ r.coeff = roundDiv .halfEven a.neg a.coeff (e - a.exp).toNat)) := by
  rw [quantize_is_rescale a r e h]; exact rescale_cases a e

/-- ties go to the even coefficient: when the argument lies exactly half-way between two multiples of the kept place,
    the coefficient kept is even -/
theorem rescale_tie_even (a : Dec) (e : Int) (hz : a.coeff ≠ 0) (hlt : a.exp < e) :
    (2 * a.coeff = 2 * ((rescale a e .halfEven).coeff * 10 ^ (e - a.exp).toNat) + 10 ^ (e - a.exp).toNat ∨
     2 * ((rescale a e .halfEven).coeff * 10 ^ (e - a.exp).toNat) = 2 * a.coeff + 10 ^ (e - a.exp).toNat) →
    (rescale a e .halfEven).coeff % 2 = 0 := by
  rcases (rescale_cases a e).2.2 with ⟨h0, _⟩ | ⟨_, hge, _⟩ | ⟨_, _, hco⟩
  · exact absurd h0 hz
  · omega
  · rw [hco]; exact (roundDiv_nearest a.neg a.coeff _).2

end Sq.Dec
