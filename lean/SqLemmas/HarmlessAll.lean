/-
  SqLemmas/HarmlessAll.lean — C13 [B]: EVERY non-mutating entry of the builtin table leaves every existing
  object as it was (it may only allocate new objects): one lemma per `b_*`, then the table-level theorem.
-/
import SqProps.C13
namespace Sq
open SqProps.C13

/-- the builtin returns an error, or a state whose heap extends the old one -/
def Pres (f : List Val → BState → BR) : Prop :=
  ∀ args s v s', f args s = .ok (v, s') → HeapExt s.heap s'.heap

theorem pres_ok_same {s : BState} {x v : Val} {s' : BState} (h : (Except.ok (x, s) : BR) = .ok (v, s')) :
    HeapExt s.heap s'.heap := by
  injection h with h; injection h with h1 h2; subst h2; exact HeapExt.refl _

theorem pres_map {α : Type} {e : R α} {f : α → Val} {s : BState} {v : Val} {s' : BState}
    (h : e.map (fun x => (f x, s)) = .ok (v, s')) : HeapExt s.heap s'.heap := by
  cases e with
  | error e => cases h
  | ok x => exact pres_ok_same h

theorem pres_alloc {s : BState} {xs : List Val} {v : Val} {s' : BState}
    (h : (Except.ok (allocList s xs) : BR) = .ok (v, s')) : HeapExt s.heap s'.heap := by
  injection h with h
  exact of_allocList h

theorem pres_allocD {s : BState} {kvs : List (Val × Val)} {v : Val} {s' : BState}
    (h : (Except.ok (allocDict s kvs) : BR) = .ok (v, s')) : HeapExt s.heap s'.heap := by
  injection h with h
  have := allocDict_ext s kvs; rw [h] at this; exact this

/-- close one leaf of a fully split builtin body -/
macro "leaf" : tactic => `(tactic| first
  | (rename_i h; first
      | cases h
      | exact of_ret h
      | exact pres_ok_same h
      | exact pres_map h
      | exact pres_alloc h
      | exact pres_allocD h
      | (simp only [U] at h; cases h)))

syntax "harmless" (ppSpace ident)+ : tactic
macro_rules
  | `(tactic| harmless $fs*) => `(tactic| (
  intro args s v s' h
  unfold $fs* at h
  try dsimp only at h
  repeat' (first | split at h | (dsimp only at h; split at h))
  all_goals first
    | exact of_ret h
    | exact pres_ok_same h
    | exact pres_map h
    | exact pres_alloc h
    | exact pres_allocD h
    | (cases h; done)
    | (cases h; exact HeapExt.refl _)
    | (simp only [U] at h; cases h; done)
    | (simp only [ret] at h; first | exact pres_ok_same h | (cases h; exact HeapExt.refl _))))

theorem pres_len : Pres b_len := by harmless b_len
theorem pres_int : Pres b_int := by harmless b_int
theorem pres_float : Pres b_float := by harmless b_float
theorem pres_str : Pres b_str := by harmless b_str
theorem pres_startswith : Pres b_startswith := by harmless b_startswith
theorem pres_endswith : Pres b_endswith := by harmless b_endswith
theorem pres_lower : Pres b_lower := by harmless b_lower
theorem pres_upper : Pres b_upper := by harmless b_upper
theorem pres_strip : Pres b_strip := by harmless b_strip
theorem pres_replace : Pres b_replace := by harmless b_replace
theorem pres_pretty : Pres b_pretty := by harmless b_pretty
theorem pres_get : Pres b_get := by harmless b_get
theorem pres_join : Pres b_join := by harmless b_join
theorem pres_split : Pres b_split := by harmless b_split
theorem pres_round : Pres b_round := by harmless b_round
theorem pres_floor : Pres b_floor := by harmless b_floor
theorem pres_ceil : Pres b_ceil := by harmless b_ceil
theorem pres_abs : Pres b_abs := by harmless b_abs
theorem pres_min : Pres b_min := by harmless b_min
theorem pres_max : Pres b_max := by harmless b_max
theorem map_pair_heap {e : R Val} {h : Heap} {v : Val} {h' : Heap}
    (hh : e.map (fun x => (x, h)) = .ok (v, h')) : HeapExt h h' := by
  cases e with
  | error e => cases hh
  | ok x => cases hh; exact HeapExt.refl _

theorem pyAdd_ext (h : Heap) (a b v : Val) (h' : Heap) (hh : pyAdd h a b = .ok (v, h')) : HeapExt h h' := by
  unfold pyAdd at hh
  split at hh
  · cases hh; exact HeapExt.refl _
  · split at hh
    · exact map_pair_heap hh
    · split at hh
      · cases hh; exact HeapExt.refl _
      · cases hh; exact HeapExt.refl _
      · split at hh
        · simp only [Heap.alloc] at hh
          cases hh
          simpa [Heap.alloc] using alloc_ext h (.list _)
        · cases hh
      · simp only [U] at hh; cases hh
      · simp only [U] at hh; cases hh
      · cases hh

theorem foldl_add_ext (xs : List Val) : ∀ (acc : Val) (h : Heap) (v : Val) (h' : Heap),
    xs.foldlM (fun (acc : Val × Heap) x => pyAdd acc.2 acc.1 x) (acc, h) = .ok (v, h') → HeapExt h h' := by
  induction xs with
  | nil =>
    intro acc h v h' hh
    simp [List.foldlM, pure, Except.pure] at hh
    rw [hh.2]; exact HeapExt.refl _
  | cons x r ih =>
    intro acc h v h' hh
    simp only [List.foldlM_cons, bind, Except.bind] at hh
    split at hh
    · cases hh
    · rename_i p hp
      obtain ⟨v1, h1⟩ := p
      exact HeapExt.trans (pyAdd_ext _ _ _ _ _ hp) (ih _ _ _ _ hh)

theorem pres_sum : Pres b_sum := by
  intro args s v s' h
  unfold b_sum at h
  dsimp only at h
  split at h
  · split at h
    · split at h
      · rename_i v0 h0 hr
        simp only [ret] at h
        cases h
        exact foldl_add_ext _ _ _ _ _ hr
      · cases h
    · exact of_ret h
  · exact of_ret h
  · cases h
theorem pres_index_of : Pres b_index_of := by harmless b_index_of
theorem pres_dict : Pres b_dict := by harmless b_dict
theorem pres_getitem : Pres b_getitem := by harmless b_getitem bGetItem pyGetItem

theorem pres_of_harmless {f : List Val → BState → BR} (hf : ∀ args s, Harmless s (f args s)) : Pres f :=
  fun args s v s' h => (hf args s).ext v s' h

theorem pres_keys : Pres b_keys := pres_of_harmless keys_harmless
theorem pres_values : Pres b_values := pres_of_harmless values_harmless
theorem pres_items : Pres b_items := pres_of_harmless items_harmless
theorem pres_reversed : Pres b_reversed := pres_of_harmless reversed_harmless
theorem pres_list : Pres b_list := pres_of_harmless list_harmless
theorem pres_enumerate : Pres b_enumerate := pres_of_harmless enumerate_harmless
theorem pres_bRegex (name : String) : Pres (bRegex name) := by
  intro args s v s' h
  unfold bRegex at h
  split at h
  · cases h
  · split at h
    · simp only [U] at h; cases h
    · dsimp only at h
      split at h
      all_goals first
        | (cases h; done)
        | (have := of_ret h; exact this)
        | (have := pres_alloc h; exact this)
        | (simp only [U] at h; cases h; done)

theorem pres_match : Pres b_match := fun args s v s' h => pres_bRegex "match" args s v s' h
theorem pres_match_groups : Pres b_match_groups := fun args s v s' h => pres_bRegex "match_groups" args s v s' h
theorem pres_match_all : Pres b_match_all := fun args s v s' h => pres_bRegex "match_all" args s v s' h

theorem shuffle_go_fst_len : True := trivial

theorem pres_shuffle : Pres b_shuffle := by
  intro args s v s' h
  unfold b_shuffle at h
  split at h
  · split at h
    · dsimp only at h
      have := pres_alloc h
      exact this
    · simp only [U] at h; cases h
  · simp only [U] at h; cases h
  · cases h

theorem pres_rand : Pres b_rand := by
  intro args s v s' h
  unfold b_rand at h
  split at h
  · unfold randUnit at h
    have := of_ret h
    exact this
  · split at h
    · unfold randChoice at h
      split at h
      · cases h
      · dsimp only at h
        split at h
        · have := of_ret h
          exact this
        · simp only [U] at h; cases h
    · cases h
  · split at h
    · unfold randInt at h
      split at h
      · cases h
      · have := of_ret h
        exact this
    · cases h
    · cases h
  · cases h

/-- **every non-mutating entry of the builtin table** leaves all existing objects — in particular its
    arguments and everything reachable from them — exactly as they were -/
theorem table_nonmutating : ∀ p, p ∈ callPureTable → p.1 ∉ mutatorNames → Pres p.2 := by
  intro p hp hn
  simp only [callPureTable, List.mem_cons, List.mem_nil_iff, or_false] at hp
  rcases hp with rfl | rfl | rfl | rfl | rfl | rfl | rfl | rfl | rfl | rfl | rfl | rfl | rfl | rfl | rfl | rfl | rfl |
    rfl | rfl | rfl | rfl | rfl | rfl | rfl | rfl | rfl | rfl | rfl | rfl | rfl | rfl | rfl | rfl | rfl | rfl | rfl |
    rfl | rfl | rfl | rfl | rfl | rfl
  all_goals first
    | exact pres_len | exact pres_int | exact pres_float | exact pres_str | exact pres_dict | exact pres_list
    | exact pres_startswith | exact pres_endswith | exact pres_lower | exact pres_upper | exact pres_strip
    | exact pres_replace | exact pres_match | exact pres_match_groups | exact pres_match_all | exact pres_pretty
    | exact pres_keys | exact pres_values | exact pres_items | exact pres_sum | exact pres_get | exact pres_getitem
    | exact pres_join | exact pres_split | exact pres_round | exact pres_floor | exact pres_ceil | exact pres_abs
    | exact pres_min | exact pres_max | exact pres_rand | exact pres_reversed | exact pres_enumerate
    | exact pres_shuffle | exact pres_index_of
    | exact absurd (by decide) hn

/-- … stated for the dispatcher the machine uses: whatever non-mutator name is called with whatever arguments -/
theorem callPure_nonmutating (name : String) (hn : name ∉ mutatorNames) (args : List Val) (s : BState) (v : Val)
    (s' : BState) (h : callPure name args s = .ok (v, s')) : HeapExt s.heap s'.heap := by
  unfold callPure at h
  split at h
  · simp only [U] at h; cases h
  · split at h
    · rename_i p hp
      have hm := List.mem_of_find?_eq_some hp
      have hname : p.1 = name := by
        have := List.find?_some hp
        simpa using this
      exact table_nonmutating p hm (by rw [hname]; exact hn) args s v s' h
    · simp only [U] at h; cases h

end Sq
