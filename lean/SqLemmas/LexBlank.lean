/-
  SqLemmas/LexBlank.lean — C15, character level (suffix half): a blank or tab standing where the lexer begins a step is
  skipped, and everything after it is lexed exactly as without it — same token kinds, values and line numbers, every
  offset moved by one.  (`lexStep` reads its state only to stamp tokens and to decide about line breaks inside brackets:
  shifting `pos` shifts the stamps and nothing else.)
-/
import Sq.Lex
namespace Sq

def LexSt.shift (d : Nat) (st : LexSt) : LexSt := { st with pos := st.pos + d }
def Token.shift (d : Nat) (t : Token) : Token := { t with pos := t.pos + d }

def LexErr.shift (d : Nat) : LexErr → LexErr
  | .illegal c p => .illegal c (p + d)
  | .unmodelled c => .unmodelled c

def LexRes.shift (d : Nat) : LexRes → LexRes
  | .tok t st rest => .tok (t.shift d) (st.shift d) rest
  | .skip st rest => .skip (st.shift d) rest
  | .eof => .eof
  | .err e => .err (e.shift d)

theorem mk_shift (d : Nat) (ty : Tk) (v : List Char) (st : LexSt) (n : Nat) (dd : Int) (rest : List Char) :
    mk ty v (st.shift d) n dd rest = (mk ty v st n dd rest).shift d := by
  simp [mk, LexRes.shift, LexSt.shift, Token.shift, Nat.add_right_comm]

theorem mkNL_shift (d : Nat) (v : List Char) (st : LexSt) (n : Nat) (rest : List Char) :
    mkNL v (st.shift d) n rest = (mkNL v st n rest).shift d := by
  simp [mkNL, LexRes.shift, LexSt.shift, Token.shift, Nat.add_right_comm]

theorem lexPunct_shift (d : Nat) (st : LexSt) (c : Char) (cs : List Char) :
    lexPunct (st.shift d) c cs = (lexPunct st c cs).shift d := by
  unfold lexPunct
  split
  · split
    · exact mk_shift _ _ _ _ _ _ _
    · simp [LexRes.shift, LexErr.shift, LexSt.shift]
  · split
    · simp [LexRes.shift, LexSt.shift]; omega
    · split
      · exact mk_shift _ _ _ _ _ _ _
      · split
        · exact mk_shift _ _ _ _ _ _ _
        · split
          · exact mk_shift _ _ _ _ _ _ _
          · split
            · exact mk_shift _ _ _ _ _ _ _
            · simp [LexRes.shift, LexErr.shift, LexSt.shift]

theorem lexNumber_shift (d : Nat) (st : LexSt) (c : Char) (cs : List Char) :
    lexNumber (st.shift d) c cs = (lexNumber st c cs).shift d := by
  unfold lexNumber
  split
  · rfl
  · split
    · split
      · rfl
      · split
        · rfl
        · exact mk_shift _ _ _ _ _ _ _
      · exact mk_shift _ _ _ _ _ _ _
    · exact mk_shift _ _ _ _ _ _ _

theorem lexWord_shift (d : Nat) (st : LexSt) (c : Char) (cs : List Char) :
    lexWord (st.shift d) c cs = (lexWord st c cs).shift d := by
  unfold lexWord
  split
  · exact mk_shift _ _ _ _ _ _ _
  · split
    · rfl
    · exact lexNumber_shift d st c cs
    · split
      · rfl
      · exact mk_shift _ _ _ _ _ _ _
    · exact lexPunct_shift d st c cs

theorem lexBracket_shift (d : Nat) (st : LexSt) (c : Char) (cs : List Char) :
    lexBracket (st.shift d) c cs = (lexBracket st c cs).shift d := by
  unfold lexBracket
  repeat' split
  all_goals first | exact mk_shift _ _ _ _ _ _ _ | exact lexWord_shift d st c cs

/-- **one step is offset-invariant** -/
theorem lexStep_shift (d : Nat) (st : LexSt) (s : List Char) : lexStep (st.shift d) s = (lexStep st s).shift d := by
  unfold lexStep
  split
  · rfl
  · rename_i c cs
    have hdep : (st.shift d).depth = st.depth := rfl
    split
    · simp [LexRes.shift, LexSt.shift, Nat.add_right_comm]
    · split
      · rw [hdep]
        split
        · exact mkNL_shift _ _ _ _ _
        · simp [LexRes.shift, LexSt.shift, Nat.add_right_comm]
      · split
        · rw [hdep]
          split
          · exact mkNL_shift _ _ _ _ _
          · simp [LexRes.shift, LexSt.shift, Nat.add_right_comm]
        · split
          · exact mk_shift _ _ _ _ _ _ _
          · exact lexBracket_shift d st c cs

abbrev LexOut := Except (LexErr × List Token) (List Token × LexSt)

/-- put already delivered tokens in front of an outcome -/
def preOut (acc : List Token) : LexOut → LexOut
  | .ok (ts, st) => .ok (acc.reverse ++ ts, st)
  | .error (e, ts) => .error (e, acc.reverse ++ ts)

/-- the accumulator of `lexAllAux` is only a prefix of its answer -/
theorem lexAllAux_acc : ∀ (fuel : Nat) (st : LexSt) (s : List Char) (acc : List Token),
    lexAllAux fuel st s acc = preOut acc (lexAllAux fuel st s []) := by
  intro fuel
  induction fuel with
  | zero => intro st s acc; simp [lexAllAux, preOut]
  | succ fuel ih =>
    intro st s acc
    simp only [lexAllAux]
    cases hr : lexStep st s with
    | eof => simp [preOut]
    | err e => simp [preOut]
    | skip st' rest => exact ih st' rest acc
    | tok t st' rest =>
      simp only []
      rw [ih st' rest (t :: acc), ih st' rest [t]]
      cases lexAllAux fuel st' rest [] with
      | ok p => obtain ⟨ts, st1⟩ := p; simp [preOut]
      | error p => obtain ⟨e, ts⟩ := p; simp [preOut]

/-- an outcome with every offset moved by `d` -/
def shiftOut (d : Nat) : LexOut → LexOut
  | .ok (ts, st) => .ok (ts.map (Token.shift d), st.shift d)
  | .error (e, ts) => .error (e.shift d, ts.map (Token.shift d))

/-- **all the remaining steps are offset-invariant** -/
theorem lexAllAux_shift (d : Nat) : ∀ (fuel : Nat) (st : LexSt) (s : List Char),
    lexAllAux fuel (st.shift d) s [] = shiftOut d (lexAllAux fuel st s []) := by
  intro fuel
  induction fuel with
  | zero => intro st s; simp [lexAllAux, shiftOut]
  | succ fuel ih =>
    intro st s
    simp only [lexAllAux]
    rw [lexStep_shift]
    cases hr : lexStep st s with
    | eof => simp [LexRes.shift, shiftOut]
    | err e => simp [LexRes.shift, shiftOut]
    | skip st' rest => simp only [LexRes.shift]; exact ih st' rest
    | tok t st' rest =>
      simp only [LexRes.shift]
      rw [lexAllAux_acc fuel (st'.shift d) rest [t.shift d], lexAllAux_acc fuel st' rest [t], ih st' rest]
      cases lexAllAux fuel st' rest [] with
      | ok p => obtain ⟨ts, st1⟩ := p; simp [preOut, shiftOut]
      | error p => obtain ⟨e, ts⟩ := p; simp [preOut, shiftOut]

/-- a blank or a tab -/
def isBlank (b : Char) : Prop := b = ' ' ∨ b = '\t'

/-- a blank where the lexer begins a step is skipped … -/
theorem lexStep_blank (st : LexSt) (b : Char) (hb : isBlank b) (s : List Char) :
    lexStep st (b :: s) = .skip (st.shift 1) s := by
  unfold lexStep
  simp only [isBlank] at hb
  simp [hb, LexSt.shift]

/-- **… and everything after it is lexed as without it, one offset further**: for every lexer state (any bracket depth,
    any line), every remaining text `s` and any amount of fuel, lexing `b :: s` gives the tokens, the lexical error (if
    any) and the final state of lexing `s`, with `pos` fields moved by one — kinds, values and line numbers are the same -/
theorem blank_before_rest (fuel : Nat) (st : LexSt) (b : Char) (hb : isBlank b) (s : List Char) :
    lexAllAux (fuel + 1) st (b :: s) [] = shiftOut 1 (lexAllAux fuel st s []) := by
  simp only [lexAllAux]
  rw [lexStep_blank st b hb s]
  exact lexAllAux_shift 1 fuel st s

/-- leading blanks of a text: `lex ("  \t" ++ s)` = `lex s` up to offsets -/
theorem leading_blank (b : Char) (hb : isBlank b) (s : List Char) :
    lexFrom LexSt.init (b :: s) = shiftOut 1 (lexFrom LexSt.init s) := by
  unfold lexFrom
  simp only [List.length_cons]
  exact blank_before_rest (s.length + 1) LexSt.init b hb s

end Sq
