/-
  SqLemmas/DictRefine.lean — C14 [B] `ops_refine` for dicts: under ANY sequence of writes and deletes the
  association list the model keeps for a dict object refines the mathematical dict — a finite map from string
  keys together with the insertion order of its keys (what `keys` / `values` / `items` / `len` observe).
-/
import Sq.Builtins
namespace Sq

/-- one container-level operation on a dict, after the key cast (`_dict_key_cast` → `str`) -/
inductive DOp
  | set (n : Name) (v : Val)
  | del (n : Name)

/-- the mathematical dict: the map … -/
def specMap (m : Name → Option Val) : DOp → (Name → Option Val)
  | .set n v => fun k => if k = n then some v else m k
  | .del n => fun k => if k = n then none else m k

/-- … and the insertion order of its keys (Python: a rebound key keeps its place, a deleted key leaves) -/
def specOrder (o : List Name) : DOp → List Name
  | .set n _ => if n ∈ o then o else o ++ [n]
  | .del n => o.filter (· ≠ n)

/-- what the model does to the association list -/
def implStep (kvs : List (Val × Val)) : DOp → List (Val × Val)
  | .set n v => kvSet kvs n v
  | .del n => kvErase kvs n

/-- abstraction: the map an association list denotes … -/
def absMap (kvs : List (Val × Val)) : Name → Option Val :=
  fun n => (kvs.find? (fun kv => keyIsName kv.1 n)).map (·.2)

def keyName : Val → Option Name
  | .str s => some s
  | _ => none

/-- … and its key order -/
def absOrder (kvs : List (Val × Val)) : List Name := kvs.filterMap (fun kv => keyName kv.1)

/-- representation invariant: every key is a string, no key occurs twice -/
def WFD (kvs : List (Val × Val)) : Prop := (∀ p, p ∈ kvs → ∃ s, p.1 = .str s) ∧ (absOrder kvs).Nodup

theorem keyIsName_str (s n : Name) : keyIsName (.str s) n = true ↔ s = n := by
  simp [keyIsName]

theorem absMap_nil (n : Name) : absMap [] n = none := rfl

theorem absMap_cons_str (s : Name) (v : Val) (r : List (Val × Val)) (n : Name) :
    absMap ((.str s, v) :: r) n = if s = n then some v else absMap r n := by
  unfold absMap
  by_cases h : s = n
  · subst h; simp [keyIsName]
  · have : keyIsName (.str s) n = false := by simp [keyIsName, h]
    simp [List.find?_cons, this, h]

theorem absOrder_cons_str (s : Name) (v : Val) (r : List (Val × Val)) :
    absOrder ((.str s, v) :: r) = s :: absOrder r := by
  simp [absOrder, keyName]

theorem absMap_none_of_not_mem (kvs : List (Val × Val)) (hs : ∀ p, p ∈ kvs → ∃ s, p.1 = .str s) (n : Name)
    (h : n ∉ absOrder kvs) : absMap kvs n = none := by
  induction kvs with
  | nil => rfl
  | cons kv r ih =>
    obtain ⟨k, v⟩ := kv
    obtain ⟨s, e⟩ := hs (k, v) (by simp)
    simp at e; subst e
    rw [absOrder_cons_str] at h
    rw [absMap_cons_str]
    have hne : s ≠ n := fun e => h (by simp [e])
    simp only [hne, if_false]
    exact ih (fun p hp => hs p (by simp [hp])) (fun hm => h (by simp [hm]))

theorem set_spec (kvs : List (Val × Val)) (hw : WFD kvs) (n : Name) (v : Val) :
    absMap (kvSet kvs n v) = specMap (absMap kvs) (.set n v) ∧
    absOrder (kvSet kvs n v) = specOrder (absOrder kvs) (.set n v) ∧ WFD (kvSet kvs n v) := by
  induction kvs with
  | nil =>
    refine ⟨?_, ?_, ?_⟩
    · funext k
      simp only [kvSet, specMap]
      rw [absMap_cons_str]
      by_cases h : n = k
      · subst h; simp
      · have : k ≠ n := fun e => h e.symm
        simp [h, this, absMap_nil]
    · simp [kvSet, specOrder, absOrder, keyName]
    · refine ⟨?_, ?_⟩
      · intro p hp; simp [kvSet] at hp; subst hp; exact ⟨n, rfl⟩
      · simp [kvSet, absOrder, keyName]
  | cons kv r ih =>
    obtain ⟨k, v'⟩ := kv
    obtain ⟨hs, hnd⟩ := hw
    obtain ⟨s, e⟩ := hs (k, v') (by simp)
    simp at e; subst e
    rw [absOrder_cons_str] at hnd
    have hr : WFD r := ⟨fun p hp => hs p (by simp [hp]), (List.nodup_cons.mp hnd).2⟩
    have hsr : s ∉ absOrder r := (List.nodup_cons.mp hnd).1
    obtain ⟨ih1, ih2, ih3⟩ := ih hr
    by_cases hk : s = n
    · subst hk
      have hkn : keyIsName (Val.str s) s = true := by simp [keyIsName]
      refine ⟨?_, ?_, ?_⟩
      · funext k
        simp only [kvSet, hkn, if_true, specMap]
        rw [absMap_cons_str, absMap_cons_str]
        by_cases h : s = k
        · subst h; simp
        · have : k ≠ s := fun e => h e.symm
          simp [h, this]
      · simp only [kvSet, hkn, if_true, specOrder]
        rw [absOrder_cons_str, absOrder_cons_str]
        simp
      · simp only [kvSet, hkn, if_true]
        refine ⟨?_, ?_⟩
        · intro p hp
          rcases List.mem_cons.mp hp with e | e
          · rw [e]; exact ⟨s, rfl⟩
          · exact hs p (by simp [e])
        · rw [absOrder_cons_str]; exact hnd
    · have hkn : keyIsName (Val.str s) n = false := by simp [keyIsName, hk]
      refine ⟨?_, ?_, ?_⟩
      · funext k
        simp only [kvSet, hkn, Bool.false_eq_true, if_false, specMap]
        rw [absMap_cons_str, absMap_cons_str, ih1]
        simp only [specMap]
        by_cases h : s = k
        · subst h
          have : ¬ s = n := hk
          simp [this]
        · simp [h]
      · simp only [kvSet, hkn, Bool.false_eq_true, if_false, specOrder]
        rw [absOrder_cons_str, absOrder_cons_str, ih2]
        simp only [specOrder]
        have hns : ¬ n = s := fun e => hk e.symm
        by_cases hm : n ∈ absOrder r
        · simp [hm]
        · simp [hm, hns]
      · simp only [kvSet, hkn, Bool.false_eq_true, if_false]
        refine ⟨?_, ?_⟩
        · intro p hp
          rcases List.mem_cons.mp hp with e | e
          · rw [e]; exact ⟨s, rfl⟩
          · exact ih3.1 p e
        · rw [absOrder_cons_str, ih2]
          simp only [specOrder]
          refine List.nodup_cons.mpr ⟨?_, ?_⟩
          · by_cases hm : n ∈ absOrder r
            · simp [hm]; exact hsr
            · simp [hm]; exact ⟨hsr, hk⟩
          · have := ih3.2
            rw [ih2] at this
            simpa only [specOrder] using this

theorem del_spec (kvs : List (Val × Val)) (hw : WFD kvs) (n : Name) :
    absMap (kvErase kvs n) = specMap (absMap kvs) (.del n) ∧
    absOrder (kvErase kvs n) = specOrder (absOrder kvs) (.del n) ∧ WFD (kvErase kvs n) := by
  induction kvs with
  | nil =>
    refine ⟨?_, ?_, ?_⟩
    · funext k; simp [kvErase, specMap, absMap_nil]
    · simp [kvErase, specOrder, absOrder]
    · exact ⟨fun p hp => by simp [kvErase] at hp, by simp [kvErase, absOrder]⟩
  | cons kv r ih =>
    obtain ⟨k, v'⟩ := kv
    obtain ⟨hs, hnd⟩ := hw
    obtain ⟨s, e⟩ := hs (k, v') (by simp)
    simp at e; subst e
    rw [absOrder_cons_str] at hnd
    have hsr : s ∉ absOrder r := (List.nodup_cons.mp hnd).1
    have hr : WFD r := ⟨fun p hp => hs p (by simp [hp]), (List.nodup_cons.mp hnd).2⟩
    obtain ⟨ih1, ih2, ih3⟩ := ih hr
    by_cases hk : s = n
    · subst hk
      have hkn : keyIsName (Val.str s) s = true := by simp [keyIsName]
      refine ⟨?_, ?_, by simp only [kvErase, hkn, if_true]; exact hr⟩
      · funext k
        simp only [kvErase, hkn, if_true, specMap]
        rw [absMap_cons_str]
        by_cases h : s = k
        · subst h
          simp
          exact absMap_none_of_not_mem r hr.1 s hsr
        · have : k ≠ s := fun e => h e.symm
          simp [h, this]
      · simp only [kvErase, hkn, if_true, specOrder]
        rw [absOrder_cons_str]
        simp
        symm
        apply List.filter_eq_self.mpr
        intro a ha
        simp
        intro e; subst e; exact hsr ha
    · have hkn : keyIsName (Val.str s) n = false := by simp [keyIsName, hk]
      refine ⟨?_, ?_, ?_⟩
      · funext k
        simp only [kvErase, hkn, Bool.false_eq_true, if_false, specMap]
        rw [absMap_cons_str, absMap_cons_str, ih1]
        simp only [specMap]
        by_cases h : s = k
        · subst h
          have : ¬ s = n := hk
          simp [this]
        · simp [h]
      · simp only [kvErase, hkn, Bool.false_eq_true, if_false, specOrder]
        rw [absOrder_cons_str, absOrder_cons_str, ih2]
        simp [specOrder, hk]
      · simp only [kvErase, hkn, Bool.false_eq_true, if_false]
        refine ⟨?_, ?_⟩
        · intro p hp
          rcases List.mem_cons.mp hp with e | e
          · rw [e]; exact ⟨s, rfl⟩
          · exact ih3.1 p e
        · rw [absOrder_cons_str, ih2]
          simp only [specOrder]
          refine List.nodup_cons.mpr ⟨?_, ?_⟩
          · intro hm
            exact hsr (List.mem_filter.mp hm).1
          · have := ih3.2
            rw [ih2] at this
            simpa only [specOrder] using this

theorem step_spec (kvs : List (Val × Val)) (hw : WFD kvs) (op : DOp) :
    absMap (implStep kvs op) = specMap (absMap kvs) op ∧
    absOrder (implStep kvs op) = specOrder (absOrder kvs) op ∧ WFD (implStep kvs op) := by
  cases op with
  | set n v => exact set_spec kvs hw n v
  | del n => exact del_spec kvs hw n

/-- **ops_refine (dict)**: any operation sequence, from any well-formed dict -/
theorem dict_ops_refine (ops : List DOp) : ∀ (kvs : List (Val × Val)), WFD kvs →
    absMap (ops.foldl implStep kvs) = ops.foldl specMap (absMap kvs) ∧
    absOrder (ops.foldl implStep kvs) = ops.foldl specOrder (absOrder kvs) ∧
    WFD (ops.foldl implStep kvs) := by
  induction ops with
  | nil => intro kvs hw; exact ⟨rfl, rfl, hw⟩
  | cons op rest ih =>
    intro kvs hw
    obtain ⟨h1, h2, h3⟩ := step_spec kvs hw op
    obtain ⟨i1, i2, i3⟩ := ih (implStep kvs op) h3
    simp only [List.foldl_cons]
    rw [i1, i2, h1, h2]
    exact ⟨rfl, rfl, i3⟩

theorem wfd_nil : WFD [] := ⟨fun p hp => (by cases hp), by simp [absOrder]⟩

/-- `len(d)` is the number of keys of the mathematical dict -/
theorem len_is_order_length (kvs : List (Val × Val)) (hw : WFD kvs) : kvs.length = (absOrder kvs).length := by
  induction kvs with
  | nil => rfl
  | cons kv r ih =>
    obtain ⟨k, v⟩ := kv
    obtain ⟨s, e⟩ := hw.1 (k, v) (by simp)
    simp at e; subst e
    obtain ⟨h1, h2⟩ := hw
    rw [absOrder_cons_str] at h2 ⊢
    simp only [List.length_cons]
    rw [ih ⟨fun p hp => h1 p (by simp [hp]), (List.nodup_cons.mp h2).2⟩]

/-- what `keys(d)` returns is the insertion order of the mathematical dict -/
theorem keys_are_order (kvs : List (Val × Val)) (hw : WFD kvs) : kvs.map (·.1) = (absOrder kvs).map Val.str := by
  induction kvs with
  | nil => rfl
  | cons kv r ih =>
    obtain ⟨k, v⟩ := kv
    obtain ⟨h1, h2⟩ := hw
    obtain ⟨s, e⟩ := h1 (k, v) (by simp)
    simp at e; subst e
    rw [absOrder_cons_str] at h2 ⊢
    simp only [List.map_cons]
    rw [ih ⟨fun p hp => h1 p (by simp [hp]), (List.nodup_cons.mp h2).2⟩]

/-- every entry the association list holds is what the mathematical dict maps its key to
    (so `values`, `items`, reads and `get` all observe the same map) -/
theorem entry_is_mapped (kvs : List (Val × Val)) (hw : WFD kvs) (s : Name) (v : Val)
    (hm : (Val.str s, v) ∈ kvs) : absMap kvs s = some v := by
  induction kvs with
  | nil => cases hm
  | cons kv r ih =>
    obtain ⟨k, v'⟩ := kv
    obtain ⟨h1, h2⟩ := hw
    obtain ⟨s', e⟩ := h1 (k, v') (by simp)
    simp at e; subst e
    rw [absOrder_cons_str] at h2
    have hr : WFD r := ⟨fun p hp => h1 p (by simp [hp]), (List.nodup_cons.mp h2).2⟩
    rw [absMap_cons_str]
    rcases List.mem_cons.mp hm with e | e
    · injection e with e1 e2
      injection e1 with e1
      subst e1; subst e2; simp
    · have hne : s' ≠ s := by
        intro e'; subst e'
        apply (List.nodup_cons.mp h2).1
        unfold absOrder
        exact List.mem_filterMap.mpr ⟨(Val.str s', v), e, rfl⟩
      simp only [hne, if_false]
      exact ih hr e

end Sq
