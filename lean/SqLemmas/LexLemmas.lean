/-
  SqLemmas/LexLemmas.lean — what one lexer step consumes, and the loop invariant of the token loop:
  the line counter equals 1 + the number of line feeds consumed, so every token carries the physical
  line of its first character (C20), for every text.
-/
import Sq.Lex
namespace Sq

/-- number of line-feed characters -/
def nl (cs : List Char) : Nat := cs.count '\n'

theorem nl_append (a b : List Char) : nl (a ++ b) = nl a + nl b := by simp [nl, List.count_append]
theorem nl_cons_ne (c : Char) (cs : List Char) (h : c ≠ '\n') : nl (c :: cs) = nl cs := by
  simp [nl, List.count_cons, h]
theorem nl_cons_eq (cs : List Char) : nl ('\n' :: cs) = nl cs + 1 := by simp [nl]

/-- `strBody` consumes its body and the closing quote; the body holds no line feed -/
theorem strBody_spec (q : Char) (hq : q ≠ '\n') : ∀ (n : Nat) (cs b r : List Char), cs.length ≤ n →
    strBody q cs = some (b, r) → cs = b ++ q :: r ∧ nl b = 0 := by
  intro n
  induction n with
  | zero => intro cs b r hl h; cases cs with
    | nil => simp [strBody] at h
    | cons c t => simp at hl
  | succ n ih =>
    intro cs b r hl h
    match cs, h with
    | [], h => simp [strBody] at h
    | [c], h =>
      simp only [strBody] at h
      split at h
      · rename_i hc; simp at h; obtain ⟨rfl, rfl⟩ := h; subst hc; simp [nl]
      · simp at h
    | c :: d :: ds, h =>
      simp only [strBody] at h
      split at h
      · rename_i hc; simp at h; obtain ⟨rfl, rfl⟩ := h; subst hc; simp [nl]
      · rename_i hcq
        split at h
        · rename_i hbs
          split at h
          · simp at h
          · rename_i hdn
            split at h
            · rename_i b' r' hrec
              simp at h; obtain ⟨rfl, rfl⟩ := h
              have := ih ds b' r' (by simp at hl; omega) hrec
              obtain ⟨e, hn⟩ := this
              subst hbs
              refine ⟨by simp [e], ?_⟩
              rw [nl_cons_ne _ _ (by decide), nl_cons_ne _ _ hdn, hn]
            · simp at h
        · rename_i hnbs
          split at h
          · simp at h
          · rename_i hcn
            split at h
            · rename_i b' r' hrec
              simp at h; obtain ⟨rfl, rfl⟩ := h
              have := ih (d :: ds) b' r' (by simp at hl ⊢; omega) hrec
              obtain ⟨e, hn⟩ := this
              refine ⟨by simp [e], ?_⟩
              rw [nl_cons_ne _ _ hcn, hn]
            · simp at h

theorem classify_nl : classify '\n' = .other := by decide

/-- `spanClass` splits its input; the taken characters are digits / letters, hence not line feeds -/
theorem spanClass_spec (p : CC → Bool) (hp : p .other = false) : ∀ (s a r : List Char),
    spanClass p s = some (a, r) → s = a ++ r ∧ nl a = 0 := by
  intro s
  induction s with
  | nil => intro a r h; simp [spanClass] at h; obtain ⟨rfl, rfl⟩ := h; simp [nl]
  | cons c cs ih =>
    intro a r h
    simp only [spanClass] at h
    split at h
    · simp at h
    · rename_i k hk
      split at h
      · rename_i hpk
        split at h
        · rename_i a' r' hrec
          simp at h; obtain ⟨rfl, rfl⟩ := h
          obtain ⟨e, hn⟩ := ih a' r' hrec
          have hc : c ≠ '\n' := by
            intro hcn; subst hcn
            rw [classify_nl] at hpk
            rw [hp] at hpk; cases hpk
          exact ⟨by simp [e], by rw [nl_cons_ne _ _ hc, hn]⟩
        · simp at h
      · simp at h; obtain ⟨rfl, rfl⟩ := h; simp [nl]

theorem pctBody_spec : ∀ (cs b r : List Char), pctBody cs = some (b, r) → cs = b ++ '%' :: r ∧ nl b = 0 := by
  intro cs
  induction cs with
  | nil => intro b r h; simp [pctBody] at h
  | cons c t ih =>
    intro b r h
    simp only [pctBody] at h
    split at h
    · rename_i hc; simp at h; obtain ⟨rfl, rfl⟩ := h; subst hc; simp [nl]
    · split at h
      · simp at h
      · rename_i hcn
        split at h
        · rename_i b' r' hrec
          simp at h; obtain ⟨rfl, rfl⟩ := h
          obtain ⟨e, hn⟩ := ih b' r' hrec
          exact ⟨by simp [e], by rw [nl_cons_ne _ _ hcn, hn]⟩
        · simp at h

theorem dropLine_spec : ∀ (cs : List Char), ∃ pre, cs = pre ++ dropLine cs ∧ nl pre = 0 := by
  intro cs
  induction cs with
  | nil => exact ⟨[], by simp [dropLine], by simp [nl]⟩
  | cons c t ih =>
    simp only [dropLine]
    split
    · exact ⟨[], by simp, by simp [nl]⟩
    · rename_i hc
      obtain ⟨pre, e, hn⟩ := ih
      exact ⟨c :: pre, by simp [← e], by rw [nl_cons_ne _ _ hc, hn]⟩

/-- what one step of the lexer did: it consumed a non-empty prefix `pre` of its input, advanced `pos` by its length and
    `line` by the number of line feeds in it; a token carries the position and line counter at its start -/
def ResOK (st : LexSt) (s : List Char) : LexRes → Prop
  | .tok t st' rest => (∃ pre, s = pre ++ rest ∧ pre ≠ [] ∧ st'.pos = st.pos + pre.length ∧ st'.line = st.line + nl pre)
      ∧ t.pos = st.pos ∧ t.line = st.line
  | .skip st' rest => ∃ pre, s = pre ++ rest ∧ pre ≠ [] ∧ st'.pos = st.pos + pre.length ∧ st'.line = st.line + nl pre
  | .eof => s = []
  | .err _ => True

theorem ResOK_skip (st : LexSt) (s : List Char) (st' : LexSt) (rest : List Char) :
    ResOK st s (.skip st' rest) ↔ ∃ pre, s = pre ++ rest ∧ pre ≠ [] ∧ st'.pos = st.pos + pre.length ∧ st'.line = st.line + nl pre := Iff.rfl

theorem ResOK_tok (st : LexSt) (s : List Char) (t : Token) (st' : LexSt) (rest : List Char) :
    ResOK st s (.tok t st' rest) ↔ (∃ pre, s = pre ++ rest ∧ pre ≠ [] ∧ st'.pos = st.pos + pre.length ∧ st'.line = st.line + nl pre)
      ∧ t.pos = st.pos ∧ t.line = st.line := Iff.rfl

theorem mk_ok (ty : Tk) (v : List Char) (st : LexSt) (dd : Int) (s pre rest : List Char)
    (e : s = pre ++ rest) (hne : pre ≠ []) (hn : nl pre = 0) : ResOK st s (mk ty v st pre.length dd rest) := by
  unfold mk
  rw [ResOK_tok]
  exact ⟨⟨pre, e, hne, rfl, by simp [hn]⟩, rfl, rfl⟩

theorem simpleOps_no_nl : ∀ p ∈ simpleOps, nl p.1 = 0 ∧ p.1 ≠ [] := by decide

theorem startsWith_split : ∀ (s p : List Char), Str.startsWith s p = true → s = p ++ s.drop p.length := by
  intro s p
  induction p generalizing s with
  | nil => intro _; simp
  | cons c cs ih =>
    intro h
    cases s with
    | nil => simp [Str.startsWith] at h
    | cons d ds =>
      simp [Str.startsWith] at h
      obtain ⟨rfl, h2⟩ := h
      simp [← ih ds h2]

theorem lexPunct_ok (st : LexSt) (c : Char) (cs : List Char) (hc : c ≠ '\n') : ResOK st (c :: cs) (lexPunct st c cs) := by
  unfold lexPunct
  split
  · rename_i h; subst h
    split
    · rename_i b rest hb
      obtain ⟨e, hn⟩ := pctBody_spec cs b rest hb
      have := mk_ok (lookupReserved ('%' :: b ++ ['%'])) ('%' :: b ++ ['%']) st 0 ('%' :: cs) ('%' :: b ++ ['%']) rest
        (by simp [e]) (by simp) (by show nl ('%' :: (b ++ ['%'])) = 0; rw [nl_cons_ne _ _ (by decide), nl_append, hn]; decide)
      simpa using this
    · trivial
  · split
    · rename_i h1 h2; subst h2
      obtain ⟨pre, e, hn⟩ := dropLine_spec cs
      rw [ResOK_skip]
      refine ⟨'#' :: pre, by simp [← e], by simp, ?_, ?_⟩
      · have : cs.length = pre.length + (dropLine cs).length := by rw [← List.length_append, ← e]
        simp; omega
      · rw [nl_cons_ne _ _ (by decide), hn]; simp
    · split
      · rename_i h
        obtain ⟨hop, hh⟩ := h
        cases cs with
        | nil => simp at hh
        | cons d ds =>
          simp at hh; subst hh
          have := mk_ok .SHORT_OP [c, '='] st 0 (c :: '=' :: ds) [c, '='] ds rfl (by simp)
            (by rw [nl_cons_ne _ _ hc]; decide)
          simpa using this
      · split
        · rename_i h
          obtain ⟨h1, hh⟩ := h
          subst h1
          cases cs with
          | nil => simp at hh
          | cons d ds =>
            simp at hh; subst hh
            have := mk_ok .POWER ['*', '*'] st 0 ('*' :: '*' :: ds) ['*', '*'] ds rfl (by simp) (by decide)
            simpa using this
        · split
          · rename_i h; subst h
            exact mk_ok _ _ st _ ('.' :: cs) ['.'] cs rfl (by simp) (by decide)
          · split
            · rename_i lit ty hm
              have hmem : (lit, ty) ∈ simpleOps := List.mem_of_find?_eq_some hm
              have hsw : Str.startsWith (c :: cs) lit = true := by
                have := List.find?_some hm; simpa using this
              obtain ⟨hn, hne⟩ := simpleOps_no_nl (lit, ty) hmem
              exact mk_ok ty lit st 0 (c :: cs) lit _ (startsWith_split _ _ hsw) hne hn
            · trivial

theorem lexNumber_ok (st : LexSt) (c : Char) (cs : List Char) (hd : classify c = .digit) :
    ResOK st (c :: cs) (lexNumber st c cs) := by
  unfold lexNumber
  split
  · trivial
  · rename_i ip rest hsp
    obtain ⟨e, hn⟩ := spanClass_spec isDigitCC rfl _ _ _ hsp
    have hne : ip ≠ [] := by
      intro h; subst h
      simp [spanClass, hd, isDigitCC] at hsp
      split at hsp <;> simp at hsp
    split
    · rename_i d r2
      split
      · trivial
      · split
        · trivial
        · rename_i fp rest2 hsp2
          obtain ⟨e2, hn2⟩ := spanClass_spec isDigitCC rfl _ _ _ hsp2
          have := mk_ok .NUMBER (ip ++ '.' :: fp) st 0 (c :: cs) (ip ++ '.' :: fp) rest2
            (by rw [e, e2]; simp) (by simp) (by rw [nl_append, nl_cons_ne _ _ (by decide), hn, hn2])
          have hlen : (ip ++ '.' :: fp).length = ip.length + 1 + fp.length := by simp; omega
          rw [hlen] at this
          exact this
      · exact mk_ok .NUMBER ip st 0 (c :: cs) ip _ e hne hn
    · exact mk_ok .NUMBER ip st 0 (c :: cs) ip _ e hne hn

theorem matchString_spec (s v : List Char) (n : Nat) (rest : List Char) (h : matchString s = some (v, n, rest)) :
    ∃ pre, s = pre ++ rest ∧ pre.length = n ∧ nl pre = 0 ∧ pre ≠ [] := by
  unfold matchString at h
  split at h
  · rename_i q cs
    split at h
    · rename_i hq
      split at h
      · rename_i b r hb
        simp at h; obtain ⟨_, rfl, rfl⟩ := h
        have hqn : q ≠ '\n' := by intro hh; subst hh; simp [isQuote] at hq
        obtain ⟨e, hn⟩ := strBody_spec q hqn cs.length cs b r (Nat.le_refl _) hb
        refine ⟨'r' :: q :: b ++ [q], by simp [e], by simp, ?_, by simp⟩
        show nl ('r' :: (q :: (b ++ [q]))) = 0
        rw [nl_cons_ne _ _ (by decide), nl_cons_ne _ _ hqn, nl_append, hn]
        simp [nl, List.count_cons, hqn]
      · simp at h
    · simp at h
  · rename_i q cs hnr
    split at h
    · rename_i hq
      split at h
      · rename_i b r hb
        simp at h; obtain ⟨_, rfl, rfl⟩ := h
        have hqn : q ≠ '\n' := by intro hh; subst hh; simp [isQuote] at hq
        obtain ⟨e, hn⟩ := strBody_spec q hqn cs.length cs b r (Nat.le_refl _) hb
        refine ⟨q :: b ++ [q], by simp [e], by simp, ?_, by simp⟩
        show nl (q :: (b ++ [q])) = 0
        rw [nl_cons_ne _ _ hqn, nl_append, hn]
        simp [nl, List.count_cons, hqn]
      · simp at h
    · simp at h
  · simp at h

theorem lexWord_ok (st : LexSt) (c : Char) (cs : List Char) (hc : c ≠ '\n') : ResOK st (c :: cs) (lexWord st c cs) := by
  unfold lexWord
  split
  · rename_i v n rest hm
    obtain ⟨pre, e, hl, hn, hne⟩ := matchString_spec _ _ _ _ hm
    have := mk_ok .STRING v st 0 (c :: cs) pre rest e hne hn
    rw [hl] at this
    exact this
  · split
    · trivial
    · rename_i hd; exact lexNumber_ok st c cs hd
    · rename_i hl
      split
      · trivial
      · rename_i w rest hsp
        obtain ⟨e, hn⟩ := spanClass_spec isWordCC rfl _ _ _ hsp
        have hne : w ≠ [] := by
          intro h; subst h
          simp [spanClass, hl, isWordCC] at hsp
          split at hsp <;> simp at hsp
        exact mk_ok (lookupReserved w) w st 0 (c :: cs) w rest e hne hn
    · exact lexPunct_ok st c cs hc

theorem lexBracket_ok (st : LexSt) (c : Char) (cs : List Char) (hc : c ≠ '\n') : ResOK st (c :: cs) (lexBracket st c cs) := by
  unfold lexBracket
  split
  · rename_i h; subst h; exact mk_ok _ _ st _ ('(' :: cs) ['('] cs rfl (by simp) (by decide)
  · split
    · rename_i h; subst h; exact mk_ok _ _ st _ (')' :: cs) [')'] cs rfl (by simp) (by decide)
    · split
      · rename_i h; subst h; exact mk_ok _ _ st _ ('[' :: cs) ['['] cs rfl (by simp) (by decide)
      · split
        · rename_i h; subst h; exact mk_ok _ _ st _ (']' :: cs) [']'] cs rfl (by simp) (by decide)
        · split
          · rename_i h; subst h; exact mk_ok _ _ st _ ('{' :: cs) ['{'] cs rfl (by simp) (by decide)
          · split
            · rename_i h; subst h; exact mk_ok _ _ st _ ('}' :: cs) ['}'] cs rfl (by simp) (by decide)
            · exact lexWord_ok st c cs hc

theorem lexStep_ok (st : LexSt) (s : List Char) : ResOK st s (lexStep st s) := by
  unfold lexStep
  split
  · rfl
  · rename_i c cs
    split
    · rename_i hb
      rw [ResOK_skip]
      have hc : c ≠ '\n' := by rcases hb with h | h <;> (subst h; decide)
      exact ⟨[c], by simp, by simp, by simp, by rw [nl_cons_ne _ _ hc]; simp [nl]⟩
    · split
      · rename_i hcr
        obtain ⟨hc, hh⟩ := hcr
        subst hc
        cases cs with
        | nil => simp at hh
        | cons d ds =>
          simp at hh; subst hh
          split
          · unfold mkNL
            rw [ResOK_tok]
            exact ⟨⟨['\r', '\n'], by simp, by simp, by simp, by simp [nl]⟩, rfl, rfl⟩
          · rw [ResOK_skip]
            exact ⟨['\r', '\n'], by simp, by simp, by simp, by simp [nl]⟩
      · split
        · rename_i hlf
          subst hlf
          split
          · unfold mkNL
            rw [ResOK_tok]
            exact ⟨⟨['\n'], by simp, by simp, by simp, by simp [nl]⟩, rfl, rfl⟩
          · rw [ResOK_skip]
            exact ⟨['\n'], by simp, by simp, by simp, by simp [nl]⟩
        · rename_i hnl
          split
          · rename_i h; subst h
            exact mk_ok _ _ st _ (';' :: cs) [';'] cs rfl (by simp) (by decide)
          · exact lexBracket_ok st c cs hnl

/-- the tokens delivered (also those delivered before a lexical error) -/
def tokensOf : Except (LexErr × List Token) (List Token × LexSt) → List Token
  | .ok (ts, _) => ts
  | .error (_, ts) => ts

/-- **loop invariant**: if the lexer is at offset `pfx.length` of `text = pfx ++ s` with its line counter equal to
    1 + the number of line feeds in `pfx`, every token it goes on to deliver carries the physical line of its first
    character: 1 + the number of line feeds before its offset -/
theorem lexAll_lines (text : List Char) : ∀ (fuel : Nat) (st : LexSt) (s pfx : List Char) (acc : List Token),
    text = pfx ++ s → st.pos = pfx.length → st.line = 1 + nl pfx →
    (∀ t ∈ acc, t.line = 1 + nl (text.take t.pos)) →
    ∀ t ∈ tokensOf (lexAllAux fuel st s acc), t.line = 1 + nl (text.take t.pos) := by
  intro fuel
  induction fuel with
  | zero => intro st s pfx acc _ _ _ hacc t ht; simp [lexAllAux, tokensOf] at ht; exact hacc t ht
  | succ fuel ih =>
    intro st s pfx acc htext hpos hline hacc t ht
    have hok := lexStep_ok st s
    simp only [lexAllAux] at ht
    split at ht
    · simp [tokensOf] at ht; exact hacc t ht
    · simp [tokensOf] at ht; exact hacc t ht
    · rename_i st' rest hstep
      rw [hstep, ResOK_skip] at hok
      obtain ⟨pre, e, _, hp, hl⟩ := hok
      exact ih st' rest (pfx ++ pre) acc (by rw [htext, e]; simp) (by rw [hp, hpos]; simp)
        (by rw [hl, hline, nl_append]; omega) hacc t ht
    · rename_i tk st' rest hstep
      rw [hstep, ResOK_tok] at hok
      obtain ⟨⟨pre, e, _, hp, hl⟩, htp, htl⟩ := hok
      refine ih st' rest (pfx ++ pre) (tk :: acc) (by rw [htext, e]; simp) (by rw [hp, hpos]; simp)
        (by rw [hl, hline, nl_append]; omega) ?_ t ht
      intro t' ht'
      rcases List.mem_cons.mp ht' with h | h
      · subst h
        rw [htl, htp, hline, hpos, htext]
        simp
      · exact hacc t' h

end Sq
