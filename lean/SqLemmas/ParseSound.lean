/-
  SqLemmas/ParseSound.lean — soundness of the parser w.r.t. the levelled derivation relation:
  whatever `pExpr / pLoop / … / pStatement / pCode / parseTokens` accept, with whatever fuel, is derived
  by the relation, with exactly the returned tree, the consumed tokens being a prefix of the input.
  Together with SqLemmas/ParseComplete.lean: the parser accepts EXACTLY what the relation derives.

  Organisation: `Snd f` bundles the eight statements at fuel `f`; one step lemma per parser function
  shows `Snd f → (statement at f + 1)`; `snd_all` is the induction.
-/
import SqLemmas.ParseComplete
namespace Sq

structure Snd (f : Nat) : Prop where
  expr : ∀ m a ts t b tl, pExpr f m a ts = .ok ((t, b), tl) →
    ∃ ts0, ts = ts0 ++ tl ∧ RExpr m a ts0 t b (peekTy tl)
  loop : ∀ m a l b0 ts t b tl, pLoop f m a l b0 ts = .ok ((t, b), tl) →
    ∃ ts0, ts = ts0 ++ tl ∧ RSpine m a l b0 ts0 t b (peekTy tl)
  args : ∀ close ts out tl, pArgs f close ts = .ok (out, tl) → ∃ ts0, ts = ts0 ++ tl ∧ RArgs close ts0 out
  argsTail : ∀ close acc ts out tl, pArgsTail f close acc ts = .ok (out, tl) →
    ∃ ts0, ts = ts0 ++ tl ∧ RArgsTail close acc ts0 out
  dict : ∀ acc ts out tl, pDictItems f acc ts = .ok (out, tl) → ∃ ts0, ts = ts0 ++ tl ∧ RDict acc ts0 out
  params : ∀ acc ts out tl, pParams f acc ts = .ok (out, tl) → ∃ ts0, ts = ts0 ++ tl ∧ RParams acc ts0 out
  sub : ∀ ts k plain tl, pSubscript f ts = .ok ((k, plain), tl) → ∃ ts0, ts = ts0 ++ tl ∧ RSub ts0 k plain
  pre : ∀ ts t tl, pPrefix f ts = .ok (t, tl) → ∃ ts0, ts = ts0 ++ tl ∧ RPrim ts0 t (peekTy tl)

theorem snd_zero : Snd 0 := by
  constructor <;> intros <;> rename_i h
  · rw [pExpr] at h; cases h
  · rw [pLoop] at h; cases h
  · rw [pArgs] at h; cases h
  · rw [pArgsTail] at h; cases h
  · rw [pDictItems] at h; cases h
  · rw [pParams] at h; cases h
  · rw [pSubscript] at h; cases h
  · rw [pPrefix] at h; cases h

/-- `eat` succeeds only on a head token of the wanted type, and consumes exactly it -/
theorem eat_inv {ty : Tk} {ts : List Token} {t : Token} {r : List Token} (h : eat ty ts = .ok (t, r)) :
    ts = t :: r ∧ t.ty = ty := by
  cases ts with
  | nil => cases h
  | cons x xs =>
    simp only [eat] at h
    split at h
    · injection h with h; injection h with h1 h2; subst h1; subst h2; exact ⟨rfl, ‹_›⟩
    · cases h

theorem peek_inv {ts : List Token} {ty : Tk} (h : peekTy ts = some ty) : ∃ t r, ts = t :: r ∧ t.ty = ty := by
  cases ts with
  | nil => cases h
  | cons t r => exact ⟨t, r, rfl, by rw [peekTy_cons] at h; injection h⟩

/-- the only non-binary tokens an operator loop can take -/
theorem take_kinds {m : Nat} {a : Assoc} {ty : Tk} {l : Nat} {la : Assoc} (h : decide' m a ty = .take l la)
    (hb : binKind ty = none) : ty = .NOT ∨ ty = .IF ∨ ty = .LBRACKET ∨ ty = .DOT ∨ ty = .PIPE := by
  cases ty <;> first | (simp [decide', opLevel, binKind] at h; done) | (simp [binKind] at hb; done) | simp

theorem sExpr_step {f : Nat} (S : Snd f) : ∀ m a ts t b tl, pExpr (f + 1) m a ts = .ok ((t, b), tl) →
    ∃ ts0, ts = ts0 ++ tl ∧ RExpr m a ts0 t b (peekTy tl) := by
  intro m a ts t b tl h
  rw [pExpr] at h
  split at h
  · cases h
  · rename_i lhs ts' hp
    obtain ⟨ts1, e1, r1⟩ := S.pre _ _ _ hp
    obtain ⟨ts2, e2, r2⟩ := S.loop _ _ _ _ _ _ _ _ h
    refine ⟨ts1 ++ ts2, by rw [e1, e2, List.append_assoc], ?_⟩
    rw [e2, peekTy_append] at r1
    exact RExpr.mk r1 r2

/-- result equality of a successful parse -/
theorem ok_inj {α : Type} {x y : α} {r s : List Token} (h : (Except.ok (x, r) : PR α) = .ok (y, s)) : x = y ∧ r = s := by
  injection h with h; injection h with h1 h2; exact ⟨h1, h2⟩

theorem sLoop_step {f : Nat} (S : Snd f) : ∀ m a l b0 ts t b tl, pLoop (f + 1) m a l b0 ts = .ok ((t, b), tl) →
    ∃ ts0, ts = ts0 ++ tl ∧ RSpine m a l b0 ts0 t b (peekTy tl) := by
  intro m a l b0 ts t b tl h
  unfold pLoop at h
  split at h
  · -- end of input
    obtain ⟨e1, e2⟩ := ok_inj h
    injection e1 with e1 e1'
    subst e1; subst e1'; subst e2
    exact ⟨[], rfl, RSpine.nil trivial⟩
  · rename_i o rest
    split at h
    · -- stop
      rename_i hd
      obtain ⟨e1, e2⟩ := ok_inj h
      injection e1 with e1 e1'
      subst e1; subst e1'; subst e2
      exact ⟨[], rfl, RSpine.nil hd⟩
    · cases h
    · rename_i lv la hd
      split at h
      · -- binary operator
        rename_i k hk
        split at h
        · cases h
        · rename_i rhs br ts' he
          obtain ⟨ts1, e1, r1⟩ := S.expr _ _ _ _ _ _ he
          obtain ⟨ts2, e2, r2⟩ := S.loop _ _ _ _ _ _ _ _ h
          refine ⟨o :: ts1 ++ ts2, by rw [e1, e2]; simp, ?_⟩
          rw [e2, peekTy_append] at r1
          exact RSpine.bin hd hk r1 r2
      · rename_i hk
        split at h
        · -- not in
          rename_i hnot
          split at h
          · cases h
          · rename_i i r2 hi
            obtain ⟨ei, hity⟩ := eat_inv hi
            split at h
            · cases h
            · rename_i rhs br ts' he
              obtain ⟨ts1, e1, r1⟩ := S.expr _ _ _ _ _ _ he
              obtain ⟨ts2, e2, r2'⟩ := S.loop _ _ _ _ _ _ _ _ h
              refine ⟨o :: i :: ts1 ++ ts2, by rw [ei, e1, e2]; simp, ?_⟩
              rw [e2, peekTy_append] at r1
              rw [hnot] at hd
              exact RSpine.notin hnot hd hity r1 r2'
        · split at h
          · -- conditional
            rename_i hnn hif
            split at h
            · cases h
            · rename_i c bc r2 hc
              split at h
              · cases h
              · rename_i el r3 hel
                obtain ⟨eel, helty⟩ := eat_inv hel
                split at h
                · cases h
                · rename_i e2 be ts' he2
                  obtain ⟨ts1, e1, r1⟩ := S.expr _ _ _ _ _ _ hc
                  obtain ⟨ts3, e3, r3'⟩ := S.expr _ _ _ _ _ _ he2
                  obtain ⟨ts4, e4, r4⟩ := S.loop _ _ _ _ _ _ _ _ h
                  refine ⟨o :: ts1 ++ el :: ts3 ++ ts4, by rw [e1, eel, e3, e4]; simp, ?_⟩
                  rw [eel, peekTy_cons, helty] at r1
                  rw [e4, peekTy_append] at r3'
                  rw [hif] at hd
                  exact RSpine.ifx hif hd r1 helty r3' r4
          · split at h
            · -- subscript
              rename_i hnn hnif hlb
              split at h
              · cases h
              · rename_i k plain ts' hsub
                obtain ⟨ts1, e1, r1⟩ := S.sub _ _ _ _ hsub
                obtain ⟨ts2, e2, r2⟩ := S.loop _ _ _ _ _ _ _ _ h
                refine ⟨o :: ts1 ++ ts2, by rw [e1, e2]; simp, ?_⟩
                rw [hlb] at hd
                exact RSpine.index hlb hd r1 r2
            · split at h
              · -- method call
                rename_i hnn hnif hnlb hdot
                rw [hdot] at hd
                split at h
                · cases h
                · rename_i n r2 hn
                  obtain ⟨en, hnty⟩ := eat_inv hn
                  split at h
                  · cases h
                  · rename_i lp r3 hlp
                    obtain ⟨elp, hlpty⟩ := eat_inv hlp
                    split at h
                    · rename_i hrp
                      obtain ⟨rp, r4, erp, hrpty⟩ := peek_inv hrp
                      subst erp
                      obtain ⟨ts2, e2, r2'⟩ := S.loop _ _ _ _ _ _ _ _ h
                      refine ⟨o :: n :: lp :: rp :: ts2, by rw [en, elp]; simp at e2 ⊢; exact e2, ?_⟩
                      exact RSpine.dot0 hdot hd hnty hlpty hrpty r2'
                    · split at h
                      · cases h
                      · rename_i args ts' ha
                        obtain ⟨ts1, e1, r1⟩ := S.args _ _ _ _ ha
                        obtain ⟨ts2, e2, r2'⟩ := S.loop _ _ _ _ _ _ _ _ h
                        refine ⟨o :: n :: lp :: ts1 ++ ts2, by rw [en, elp, e1, e2]; simp, ?_⟩
                        exact RSpine.dot hdot hd hnty hlpty r1 r2'
              · -- pipe
                rename_i hnn hnif hnlb hndot
                have hpipe : o.ty = .PIPE := by
                  rcases take_kinds hd hk with h1 | h1 | h1 | h1 | h1
                  · exact absurd h1 hnn
                  · exact absurd h1 hnif
                  · exact absurd h1 hnlb
                  · exact absurd h1 hndot
                  · exact h1
                rw [hpipe] at hd
                split at h
                · cases h
                · rename_i n r2 hn
                  obtain ⟨en, hnty⟩ := eat_inv hn
                  split at h
                  · rename_i hlp
                    obtain ⟨lp, r3, elp, hlpty⟩ := peek_inv hlp
                    subst elp
                    split at h
                    · cases h
                    · rename_i args ts' ha
                      obtain ⟨ts1, e1, r1⟩ := S.args _ _ _ _ ha
                      obtain ⟨ts2, e2, r2'⟩ := S.loop _ _ _ _ _ _ _ _ h
                      simp only [List.tail_cons] at e1
                      refine ⟨o :: n :: lp :: ts1 ++ ts2, by rw [en, e1, e2]; simp, ?_⟩
                      exact RSpine.pipe hpipe hd hnty hlpty r1 r2'
                  · rename_i hnlp
                    obtain ⟨ts2, e2, r2'⟩ := S.loop _ _ _ _ _ _ _ _ h
                    refine ⟨o :: n :: ts2, by rw [en, e2]; simp, ?_⟩
                    rw [e2, peekTy_append] at hnlp
                    exact RSpine.pipe0 hpipe hd hnty hnlp r2'

theorem sArgsTail_step {f : Nat} (S : Snd f) : ∀ close acc ts out tl, pArgsTail (f + 1) close acc ts = .ok (out, tl) →
    ∃ ts0, ts = ts0 ++ tl ∧ RArgsTail close acc ts0 out := by
  intro close acc ts out tl h
  unfold pArgsTail at h
  split at h
  · cases h
  · rename_i t rest
    split at h
    · rename_i hcm
      split at h
      · rename_i hcl
        obtain ⟨c, r, ec, hcty⟩ := peek_inv hcl
        subst ec
        obtain ⟨e1, e2⟩ := ok_inj h
        subst e1; simp only [List.tail_cons] at e2; subst e2
        exact ⟨[t, c], rfl, RArgsTail.trailing hcm hcty⟩
      · rename_i hncl
        split at h
        · cases h
        · rename_i e be ts' he
          obtain ⟨ts1, e1, r1⟩ := S.expr _ _ _ _ _ _ he
          obtain ⟨ts2, e2, r2⟩ := S.argsTail _ _ _ _ _ h
          refine ⟨t :: ts1 ++ ts2, by rw [e1, e2]; simp, ?_⟩
          have hne := rargsTail_ne r2
          rw [e2, peekTy_append_ne _ _ hne] at r1
          refine RArgsTail.more hcm ?_ r1 r2
          rw [e1, e2, ← List.append_assoc, peekTy_append_ne _ _ (by simp [hne])] at hncl
          exact hncl
    · rename_i hncm
      split at h
      · rename_i hcl
        obtain ⟨e1, e2⟩ := ok_inj h
        subst e1; subst e2
        exact ⟨[t], rfl, RArgsTail.close hcl (fun hc => hncm (hcl.trans hc))⟩
      · cases h

theorem sArgs_step {f : Nat} (S : Snd f) : ∀ close ts out tl, pArgs (f + 1) close ts = .ok (out, tl) →
    ∃ ts0, ts = ts0 ++ tl ∧ RArgs close ts0 out := by
  intro close ts out tl h
  rw [pArgs] at h
  split at h
  · cases h
  · rename_i e be ts' he
    obtain ⟨ts1, e1, r1⟩ := S.expr _ _ _ _ _ _ he
    obtain ⟨ts2, e2, r2⟩ := S.argsTail _ _ _ _ _ h
    refine ⟨ts1 ++ ts2, by rw [e1, e2]; simp, ?_⟩
    rw [e2, peekTy_append_ne _ _ (rargsTail_ne r2)] at r1
    exact RArgs.mk r1 r2

theorem sDict_step {f : Nat} (S : Snd f) : ∀ acc ts out tl, pDictItems (f + 1) acc ts = .ok (out, tl) →
    ∃ ts0, ts = ts0 ++ tl ∧ RDict acc ts0 out := by
  intro acc ts out tl h
  rw [pDictItems] at h
  split at h
  · cases h
  · rename_i k bk r1 hk
    obtain ⟨tsk, ek, rk⟩ := S.expr _ _ _ _ _ _ hk
    split at h
    · cases h
    · rename_i col r2 hcol
      obtain ⟨ecol, hcolty⟩ := eat_inv hcol
      rw [ecol, peekTy_cons, hcolty] at rk
      split at h
      · cases h
      · rename_i v bv r3 hv
        obtain ⟨tsv, ev, rv⟩ := S.expr _ _ _ _ _ _ hv
        simp only at h
        split at h
        · cases h
        · rename_i t rest
          rw [peekTy_cons] at rv
          split at h
          · rename_i hrb
            obtain ⟨e1, e2⟩ := ok_inj h
            subst e1; subst e2
            rw [hrb] at rv
            refine ⟨tsk ++ col :: tsv ++ [t], by rw [ek, ecol, ev]; simp, RDict.last rk hcolty rv hrb⟩
          · split at h
            · rename_i hnrb hcm
              rw [hcm] at rv
              split at h
              · rename_i hpk
                obtain ⟨rb, r4, erb, hrbty⟩ := peek_inv hpk
                subst erb
                obtain ⟨e1, e2⟩ := ok_inj h
                subst e1; simp only [List.tail_cons] at e2; subst e2
                refine ⟨tsk ++ col :: tsv ++ [t, rb], by rw [ek, ecol, ev]; simp, RDict.lastComma rk hcolty rv hcm hrbty⟩
              · rename_i hnpk
                obtain ⟨ts4, e4, r4⟩ := S.dict _ _ _ _ h
                refine ⟨tsk ++ col :: tsv ++ t :: ts4, by rw [ek, ecol, ev, e4]; simp, ?_⟩
                refine RDict.more rk hcolty rv hcm ?_ r4
                intro hc
                apply hnpk
                rw [e4]
                have : ts4 ≠ [] := by cases r4 <;> simp
                rw [peekTy_append_ne _ _ this]
                exact hc
            · cases h

theorem rexpr_ne {m : Nat} {a : Assoc} {ts : List Token} {t : Op} {b : Bool} {nxt : LA} (h : RExpr m a ts t b nxt) :
    ts ≠ [] := by
  obtain ⟨hd, r, e, _⟩ := rexpr_head h
  rw [e]; simp

/-- the parameter loop after one more `expr ,` -/
theorem sParams_more {f : Nat} (S : Snd f) (acc : List Op) (ts : List Token) (out : List Op) (tl : List Token)
    (hs : startsNameRparen ts = false)
    (h : (match pExpr f 0 .right ts with
          | .error e => Except.error e
          | .ok ((e, _), r1) =>
            match eat .COMMA r1 with
            | .error e => Except.error e
            | .ok (_, r2) => pParams f (e :: acc) r2 : PR (List Op)) = .ok (out, tl)) :
    ∃ ts0, ts = ts0 ++ tl ∧ RParams acc ts0 out := by
  split at h
  · cases h
  · rename_i e be r1 he
    obtain ⟨ts1, e1, r1'⟩ := S.expr _ _ _ _ _ _ he
    split at h
    · cases h
    · rename_i cm r2 hcm
      obtain ⟨ecm, hcmty⟩ := eat_inv hcm
      obtain ⟨ts2, e2, r2'⟩ := S.params _ _ _ _ h
      rw [ecm, peekTy_cons, hcmty] at r1'
      refine ⟨ts1 ++ cm :: ts2, by rw [e1, ecm, e2]; simp, RParams.more ?_ r1' hcmty r2'⟩
      -- the two-token test sees the same two tokens
      have hne := rexpr_ne r1'
      rw [e1, ecm] at hs
      match ts1, hne with
      | [x], _ =>
        simp [startsNameRparen, hcmty]
      | x :: y :: r, _ =>
        simpa [startsNameRparen] using hs

theorem sParams_step {f : Nat} (S : Snd f) : ∀ acc ts out tl, pParams (f + 1) acc ts = .ok (out, tl) →
    ∃ ts0, ts = ts0 ++ tl ∧ RParams acc ts0 out := by
  intro acc ts out tl h
  unfold pParams at h
  split at h
  · rename_i n r rest
    split at h
    · rename_i hc
      obtain ⟨e1, e2⟩ := ok_inj h
      subst e1; subst e2
      exact ⟨[n, r], rfl, RParams.last hc.1 hc.2⟩
    · rename_i hc
      refine sParams_more S acc _ out tl ?_ h
      simp only [startsNameRparen]
      cases hn : n.ty == Tk.NAME <;> cases hr : r.ty == Tk.RPAREN <;> simp_all
  · rename_i hshape
    refine sParams_more S acc _ out tl ?_ h
    match ts, hshape with
    | [], _ => rfl
    | [x], _ => rfl
    | x :: y :: r, hshape => exact absurd rfl (hshape x y r)

theorem pair_inj {α β : Type} {a a' : α} {b b' : β} (h : (a, b) = (a', b')) : a = a' ∧ b = b' := by
  injection h with h1 h2; exact ⟨h1, h2⟩

theorem sSub_step {f : Nat} (S : Snd f) : ∀ ts k plain tl, pSubscript (f + 1) ts = .ok ((k, plain), tl) →
    ∃ ts0, ts = ts0 ++ tl ∧ RSub ts0 k plain := by
  intro ts k plain tl h
  rw [pSubscript] at h
  split at h
  · rename_i hc1
    obtain ⟨c1, r1, ec1, hc1ty⟩ := peek_inv hc1
    subst ec1
    rw [List.tail_cons] at h
    by_cases hrb : peekTy r1 = some .RBRACKET
    · -- [:]
      rw [if_pos hrb] at h
      obtain ⟨rb, r2, erb, hrbty⟩ := peek_inv hrb
      subst erb
      obtain ⟨e1, e2⟩ := ok_inj h
      obtain ⟨e3, e4⟩ := pair_inj e1
      subst e3; subst e4; simp only [List.tail_cons] at e2; subst e2
      exact ⟨[c1, rb], rfl, RSub.all hc1ty hrbty⟩
    · rw [if_neg hrb] at h
      by_cases hc2 : peekTy r1 = some .COLON
      · -- [::e]
        rw [if_pos hc2] at h
        obtain ⟨c2, r2, ec2, hc2ty⟩ := peek_inv hc2
        subst ec2
        rw [List.tail_cons] at h
        split at h
        · cases h
        · rename_i e be r3 he
          obtain ⟨ts1, e1, r1'⟩ := S.expr _ _ _ _ _ _ he
          split at h
          · cases h
          · rename_i rb r4 hrb
            obtain ⟨erb, hrbty⟩ := eat_inv hrb
            obtain ⟨e2, e3⟩ := ok_inj h
            obtain ⟨e4, e5⟩ := pair_inj e2
            subst e4; subst e5; subst e3
            rw [erb, peekTy_cons, hrbty] at r1'
            exact ⟨c1 :: c2 :: ts1 ++ [rb], by rw [e1, erb]; simp, RSub.step hc1ty hc2ty r1' hrbty⟩
      · -- [:e] / [:e:]
        rw [if_neg hc2] at h
        split at h
        · cases h
        · rename_i e be r2 he
          obtain ⟨ts1, e1, r1'⟩ := S.expr _ _ _ _ _ _ he
          split at h
          · rename_i hcol
            obtain ⟨c2, r3, ec2, hc2ty⟩ := peek_inv hcol
            subst ec2
            rw [List.tail_cons] at h
            split at h
            · cases h
            · rename_i rb r4 hrb
              obtain ⟨erb, hrbty⟩ := eat_inv hrb
              obtain ⟨e2, e3⟩ := ok_inj h
              obtain ⟨e4, e5⟩ := pair_inj e2
              subst e4; subst e5; subst e3
              rw [peekTy_cons, hc2ty] at r1'
              exact ⟨c1 :: ts1 ++ [c2, rb], by rw [e1, erb]; simp, RSub.stopColon hc1ty r1' hc2ty hrbty⟩
          · split at h
            · cases h
            · rename_i rb r4 hrb
              obtain ⟨erb, hrbty⟩ := eat_inv hrb
              obtain ⟨e2, e3⟩ := ok_inj h
              obtain ⟨e4, e5⟩ := pair_inj e2
              subst e4; subst e5; subst e3
              rw [erb, peekTy_cons, hrbty] at r1'
              exact ⟨c1 :: ts1 ++ [rb], by rw [e1, erb]; simp, RSub.stop hc1ty r1' hrbty⟩
  · rename_i hnc
    split at h
    · cases h
    · rename_i e be r1 he
      obtain ⟨ts1, e1, r1'⟩ := S.expr _ _ _ _ _ _ he
      split at h
      · -- [e]
        rename_i hrb
        obtain ⟨rb, r2, erb, hrbty⟩ := peek_inv hrb
        subst erb
        obtain ⟨e2, e3⟩ := ok_inj h
        obtain ⟨e4, e5⟩ := pair_inj e2
        subst e4; subst e5; simp only [List.tail_cons] at e3; subst e3
        rw [peekTy_cons, hrbty] at r1'
        exact ⟨ts1 ++ [rb], by rw [e1]; simp, RSub.idx r1' hrbty⟩
      · rename_i hnrb
        split at h
        · cases h
        · rename_i c r2 hcol
          obtain ⟨ec, hcty⟩ := eat_inv hcol
          rw [ec, peekTy_cons, hcty] at r1'
          split at h
          · -- [e:]
            rename_i hrb
            obtain ⟨rb, r3, erb, hrbty⟩ := peek_inv hrb
            subst erb
            obtain ⟨e2, e3⟩ := ok_inj h
            obtain ⟨e4, e5⟩ := pair_inj e2
            subst e4; subst e5; simp only [List.tail_cons] at e3; subst e3
            exact ⟨ts1 ++ [c, rb], by rw [e1, ec]; simp, RSub.start r1' hcty hrbty⟩
          · split at h
            · -- [e::]
              rename_i hnrb2 hc2
              obtain ⟨c2, r3, ec2, hc2ty⟩ := peek_inv hc2
              subst ec2
              rw [List.tail_cons] at h
              split at h
              · cases h
              · rename_i rb r4 hrb
                obtain ⟨erb, hrbty⟩ := eat_inv hrb
                obtain ⟨e2, e3⟩ := ok_inj h
                obtain ⟨e4, e5⟩ := pair_inj e2
                subst e4; subst e5; subst e3
                exact ⟨ts1 ++ [c, c2, rb], by rw [e1, ec, erb]; simp, RSub.startColon r1' hcty hc2ty hrbty⟩
            · -- [e:e2]
              split at h
              · cases h
              · rename_i e2 be2 r3 he2
                obtain ⟨ts2, e2', r2'⟩ := S.expr _ _ _ _ _ _ he2
                split at h
                · cases h
                · rename_i rb r4 hrb
                  obtain ⟨erb, hrbty⟩ := eat_inv hrb
                  obtain ⟨e3, e4⟩ := ok_inj h
                  obtain ⟨e5, e6⟩ := pair_inj e3
                  subst e5; subst e6; subst e4
                  rw [erb, peekTy_cons, hrbty] at r2'
                  exact ⟨ts1 ++ c :: ts2 ++ [rb], by rw [e1, ec, e2', erb]; simp, RSub.startStop r1' hcty r2' hrbty⟩

theorem sPrefix_step {f : Nat} (S : Snd f) : ∀ ts t tl, pPrefix (f + 1) ts = .ok (t, tl) →
    ∃ ts0, ts = ts0 ++ tl ∧ RPrim ts0 t (peekTy tl) := by
  intro ts t tl h
  unfold pPrefix at h
  split at h
  · cases h
  · rename_i o rest
    split at h
    · split at h <;> cases h
    · split at h
      · -- NUMBER
        rename_i hty
        split at h
        · rename_i d hd
          obtain ⟨e1, e2⟩ := ok_inj h
          subst e1; subst e2
          exact ⟨[o], rfl, RPrim.atom (by simp [atomOf, hty, hd])⟩
        · cases h
      · rename_i hty
        obtain ⟨e1, e2⟩ := ok_inj h
        subst e1; subst e2
        exact ⟨[o], rfl, RPrim.atom (by simp [atomOf, hty])⟩
      · rename_i hty
        obtain ⟨e1, e2⟩ := ok_inj h
        subst e1; subst e2
        exact ⟨[o], rfl, RPrim.atom (by simp [atomOf, hty])⟩
      · rename_i hty
        obtain ⟨e1, e2⟩ := ok_inj h
        subst e1; subst e2
        exact ⟨[o], rfl, RPrim.atom (by simp [atomOf, hty])⟩
      · rename_i hty
        obtain ⟨e1, e2⟩ := ok_inj h
        subst e1; subst e2
        exact ⟨[o], rfl, RPrim.atom (by simp [atomOf, hty])⟩
      · -- NAME
        rename_i hty
        by_cases hlp : peekTy rest = some .LPAREN
        · rw [if_pos hlp] at h
          obtain ⟨lp, r1, elp, hlpty⟩ := peek_inv hlp
          subst elp
          rw [List.tail_cons] at h
          by_cases hrp : peekTy r1 = some .RPAREN
          · rw [if_pos hrp] at h
            obtain ⟨rp, r2, erp, hrpty⟩ := peek_inv hrp
            subst erp
            obtain ⟨e1, e2⟩ := ok_inj h
            subst e1; rw [List.tail_cons] at e2; subst e2
            exact ⟨[o, lp, rp], rfl, RPrim.call0 hty hlpty hrpty⟩
          · rw [if_neg hrp] at h
            split at h
            · cases h
            · rename_i args ts' ha
              obtain ⟨ts1, e1, r1'⟩ := S.args _ _ _ _ ha
              obtain ⟨e2, e3⟩ := ok_inj h
              subst e2; subst e3
              exact ⟨o :: lp :: ts1, by rw [e1]; simp, RPrim.call hty hlpty r1'⟩
        · rw [if_neg hlp] at h
          by_cases hlam : peekTy rest = some .LAMBDA
          · rw [if_pos hlam] at h
            obtain ⟨lam, r1, elam, hlamty⟩ := peek_inv hlam
            subst elam
            rw [List.tail_cons] at h
            split at h
            · cases h
            · rename_i body bb ts' hb
              obtain ⟨ts1, e1, r1'⟩ := S.expr _ _ _ _ _ _ hb
              obtain ⟨e2, e3⟩ := ok_inj h
              subst e2; subst e3
              exact ⟨o :: lam :: ts1, by rw [e1]; simp, RPrim.lam1 hty hlamty r1'⟩
          · rw [if_neg hlam] at h
            obtain ⟨e1, e2⟩ := ok_inj h
            subst e1; subst e2
            exact ⟨[o], rfl, RPrim.name hty hlp hlam⟩
      · -- LPAREN
        rename_i hty
        split at h
        · cases h
        · rename_i e be r1 he
          obtain ⟨ts1, e1, r1'⟩ := S.expr _ _ _ _ _ _ he
          by_cases hrp : peekTy r1 = some .RPAREN
          · rw [if_pos hrp] at h
            obtain ⟨rp, r2, erp, hrpty⟩ := peek_inv hrp
            subst erp
            obtain ⟨e2, e3⟩ := ok_inj h
            subst e2; rw [List.tail_cons] at e3; subst e3
            rw [peekTy_cons, hrpty] at r1'
            exact ⟨o :: ts1 ++ [rp], by rw [e1]; simp, RPrim.paren hty r1' hrpty⟩
          · rw [if_neg hrp] at h
            split at h
            · cases h
            · rename_i cm r2 hcm
              obtain ⟨ecm, hcmty⟩ := eat_inv hcm
              rw [ecm, peekTy_cons, hcmty] at r1'
              split at h
              · cases h
              · rename_i ps r3 hps
                obtain ⟨ts2, e2, r2'⟩ := S.params _ _ _ _ hps
                split at h
                · cases h
                · rename_i lam r4 hlam
                  obtain ⟨elam, hlamty⟩ := eat_inv hlam
                  split at h
                  · cases h
                  · rename_i body bb ts' hb
                    obtain ⟨ts3, e3, r3'⟩ := S.expr _ _ _ _ _ _ hb
                    obtain ⟨e4, e5⟩ := ok_inj h
                    subst e4; subst e5
                    exact ⟨o :: ts1 ++ cm :: ts2 ++ lam :: ts3, by rw [e1, ecm, e2, elam, e3]; simp,
                      RPrim.lamN hty r1' hcmty r2' hlamty r3'⟩
      · -- LBRACKET
        rename_i hty
        by_cases hrb : peekTy rest = some .RBRACKET
        · rw [if_pos hrb] at h
          obtain ⟨rb, r1, erb, hrbty⟩ := peek_inv hrb
          subst erb
          obtain ⟨e1, e2⟩ := ok_inj h
          subst e1; rw [List.tail_cons] at e2; subst e2
          exact ⟨[o, rb], rfl, RPrim.list0 hty hrbty⟩
        · rw [if_neg hrb] at h
          split at h
          · cases h
          · rename_i args ts' ha
            obtain ⟨ts1, e1, r1'⟩ := S.args _ _ _ _ ha
            obtain ⟨e2, e3⟩ := ok_inj h
            subst e2; subst e3
            exact ⟨o :: ts1, by rw [e1]; simp, RPrim.list hty r1'⟩
      · -- LBRACE
        rename_i hty
        by_cases hrb : peekTy rest = some .RBRACE
        · rw [if_pos hrb] at h
          obtain ⟨rb, r1, erb, hrbty⟩ := peek_inv hrb
          subst erb
          obtain ⟨e1, e2⟩ := ok_inj h
          subst e1; rw [List.tail_cons] at e2; subst e2
          exact ⟨[o, rb], rfl, RPrim.dict0 hty hrbty⟩
        · rw [if_neg hrb] at h
          split at h
          · cases h
          · rename_i kvs ts' hd
            obtain ⟨ts1, e1, r1'⟩ := S.dict _ _ _ _ hd
            obtain ⟨e2, e3⟩ := ok_inj h
            subst e2; subst e3
            exact ⟨o :: ts1, by rw [e1]; simp, RPrim.dict hty r1'⟩
      · -- MINUS
        rename_i hty
        split at h
        · cases h
        · rename_i e be ts' he
          obtain ⟨ts1, e1, r1'⟩ := S.expr _ _ _ _ _ _ he
          obtain ⟨e2, e3⟩ := ok_inj h
          subst e2; subst e3
          exact ⟨o :: ts1, by rw [e1]; simp, RPrim.neg hty r1'⟩
      · -- NOT
        rename_i hty
        split at h
        · cases h
        · rename_i e be ts' he
          obtain ⟨ts1, e1, r1'⟩ := S.expr _ _ _ _ _ _ he
          obtain ⟨e2, e3⟩ := ok_inj h
          subst e2; subst e3
          exact ⟨o :: ts1, by rw [e1]; simp, RPrim.not hty r1'⟩
      · cases h

theorem snd_succ {f : Nat} (S : Snd f) : Snd (f + 1) :=
  ⟨sExpr_step S, sLoop_step S, sArgs_step S, sArgsTail_step S, sDict_step S, sParams_step S, sSub_step S,
   sPrefix_step S⟩

theorem snd_all : ∀ f, Snd f
  | 0 => snd_zero
  | f + 1 => snd_succ (snd_all f)

theorem sExpr {f m : Nat} {a : Assoc} {ts : List Token} {t : Op} {b : Bool} {tl : List Token}
    (h : pExpr f m a ts = .ok ((t, b), tl)) : ∃ ts0, ts = ts0 ++ tl ∧ RExpr m a ts0 t b (peekTy tl) :=
  (snd_all f).expr _ _ _ _ _ _ h

theorem opt_pair_inj {α : Type} {x y : Option α} {r s : List Token}
    (h : (Except.ok (x, r) : PR (Option α)) = .ok (y, s)) : x = y ∧ r = s := ok_inj h

theorem sStmt {f : Nat} {ts : List Token} {s : Option Op} {tl : List Token}
    (h : pStatement f ts = .ok (s, tl)) (hend : stmtEnd (peekTy tl)) :
    ∃ ts0, ts = ts0 ++ tl ∧ RStmt ts0 s (peekTy tl) := by
  unfold pStatement at h
  split at h
  · obtain ⟨e1, e2⟩ := ok_inj h
    subst e1; subst e2
    exact ⟨[], rfl, RStmt.empty hend⟩
  · rename_i t rest
    split at h
    · obtain ⟨e1, e2⟩ := ok_inj h
      subst e1; subst e2
      exact ⟨[], rfl, RStmt.empty hend⟩
    · rename_i hnnl
      split at h
      · -- NAME = expr
        rename_i hc
        obtain ⟨eq, r1, eeq, heqty⟩ := peek_inv hc.2
        subst eeq
        rw [List.tail_cons] at h
        split at h
        · cases h
        · rename_i v bv ts' hv
          obtain ⟨ts1, e1, r1'⟩ := sExpr hv
          obtain ⟨e2, e3⟩ := ok_inj h
          subst e2; subst e3
          exact ⟨t :: eq :: ts1, by rw [e1]; simp, RStmt.assign hend hc.1 heqty r1'⟩
      · split at h
        · -- NAME op= expr
          rename_i hna hc
          split at h
          · rename_i o r2
            have hoty : o.ty = .SHORT_OP := by
              have := hc.2; rw [peekTy_cons] at this; injection this
            split at h
            · cases h
            · rename_i k hk
              split at h
              · cases h
              · rename_i v bv ts' hv
                obtain ⟨ts1, e1, r1'⟩ := sExpr hv
                obtain ⟨e2, e3⟩ := ok_inj h
                subst e2; subst e3
                exact ⟨t :: o :: ts1, by rw [e1]; simp, RStmt.short hend hc.1 hoty hk r1'⟩
          · cases h
        · split at h
          · -- del e[k]
            rename_i hna hns hdel
            split at h
            · cases h
            · rename_i e topidx ts' he
              obtain ⟨ts1, e1, r1'⟩ := sExpr he
              split at h
              · rename_i c k hi
                obtain ⟨e2, e3⟩ := ok_inj h
                subst e2; subst e3
                exact ⟨t :: ts1, by rw [e1]; simp, RStmt.del hend hdel r1' hi⟩
              · cases h
          · -- expression statement / index assignment
            rename_i hna hns hndel
            split at h
            · cases h
            · rename_i e topidx ts' he
              obtain ⟨ts1, e1, r1'⟩ := sExpr he
              split at h
              · rename_i c k o r2 hi
                rw [peekTy_cons] at r1'
                split at h
                · rename_i hoa
                  rw [hoa] at r1'
                  split at h
                  · cases h
                  · rename_i v bv r3 hv
                    obtain ⟨ts2, e2, r2'⟩ := sExpr hv
                    obtain ⟨e3, e4⟩ := ok_inj h
                    subst e3; subst e4
                    exact ⟨ts1 ++ o :: ts2, by rw [e1, e2]; simp, RStmt.setitem hend r1' hi hoa r2'⟩
                · split at h
                  · rename_i hnoa hos
                    rw [hos] at r1'
                    split at h
                    · cases h
                    · rename_i v bv r3 hv
                      obtain ⟨ts2, e2, r2'⟩ := sExpr hv
                      obtain ⟨e3, e4⟩ := ok_inj h
                      subst e3; subst e4
                      exact ⟨ts1 ++ o :: ts2, by rw [e1, e2]; simp, RStmt.setop hend r1' hi hos r2'⟩
                  · obtain ⟨e3, e4⟩ := ok_inj h
                    subst e3; subst e4
                    rw [← peekTy_cons o r2] at r1'
                    exact ⟨ts1, e1, RStmt.expr hend r1'⟩
              · obtain ⟨e3, e4⟩ := ok_inj h
                subst e3; subst e4
                exact ⟨ts1, e1, RStmt.expr hend r1'⟩

theorem sCode : ∀ (n f : Nat) (acc : List Op) (ts : List Token) (out : List Op),
    pCode n f acc ts = .ok out → RCode acc ts out
  | 0, _, _, _, _, h => by rw [pCode] at h; cases h
  | n + 1, f, acc, ts, out, h => by
    rw [pCode] at h
    split at h
    · cases h
    · rename_i s ts' hs
      simp only at h
      split at h
      · injection h with h
        obtain ⟨ts0, e0, r0⟩ := sStmt hs (Or.inl rfl)
        rw [List.append_nil] at e0
        subst e0
        have := RCode.last (acc := acc) r0
        rw [← h]
        cases s <;> exact this
      · rename_i t rest
        split at h
        · rename_i hnl
          obtain ⟨ts0, e0, r0⟩ := sStmt hs (Or.inr (by rw [peekTy_cons, hnl]))
          rw [peekTy_cons, hnl] at r0
          have ih := sCode n f _ rest out h
          rw [e0]
          refine RCode.more r0 hnl ?_
          cases s <;> exact ih
        · cases h

/-- **soundness of the parser**: whatever `parseTokens` accepts is a program the levelled grammar derives,
    with exactly the returned tree -/
theorem sound {ts : List Token} {tree : Op} (h : parseTokens ts = .ok tree) :
    ∃ out, tree = .code out ∧ RCode [] ts out := by
  unfold parseTokens at h
  simp only at h
  split at h
  · rename_i ls hc
    injection h with h
    exact ⟨ls, h.symm, sCode _ _ _ _ _ hc⟩
  · cases h

/-- **the parser accepts exactly the levelled grammar, with exactly the derived tree** -/
theorem parse_iff (ts : List Token) (out : List Op) : parseTokens ts = .ok (.code out) ↔ RCode [] ts out := by
  constructor
  · intro h
    obtain ⟨out', e, r⟩ := sound h
    injection e with e
    rw [e]; exact r
  · exact complete

end Sq
