/-
  SqLemmas/ParseErase.lean — the parser reads only the KIND and the VALUE of a token: a derivation of the levelled relation
  survives any change of the tokens that keeps `ty` and `val` (offsets, line stamps).  With `parse_iff` (ParseSound) the
  same holds for `parseTokens`.  Used by C15 (offsets moved by an inserted blank) and C20 (line stamps never influence the tree).
-/
import SqLemmas.ParseSound
namespace Sq

section
variable (f : Token → Token) (hty : ∀ t, (f t).ty = t.ty) (hval : ∀ t, (f t).val = t.val)

theorem peekTy_map (ts : List Token) (hty : ∀ t, (f t).ty = t.ty) : peekTy (ts.map f) = peekTy ts := by
  cases ts with
  | nil => rfl
  | cons t r => simp [peekTy, hty]

theorem atomOf_map (t : Token) (hty : ∀ t, (f t).ty = t.ty) (hval : ∀ t, (f t).val = t.val) : atomOf (f t) = atomOf t := by
  unfold atomOf; rw [hty, hval]

theorem startsNameRparen_map (ts : List Token) (hty : ∀ t, (f t).ty = t.ty) : startsNameRparen (ts.map f) = startsNameRparen ts := by
  match ts with
  | [] => rfl
  | [_] => rfl
  | n :: r :: _ => simp [startsNameRparen, hty]

end

/-- rewriting tactic for one constructor: map the token list apart, put kinds / values / look-aheads back -/
macro "erase_simp" : tactic =>
  `(tactic| simp only [List.map_append, List.map_cons, List.map_nil, List.cons_append, List.nil_append, List.append_assoc])

theorem RExpr.cast {m a ts ts' t b nxt} (h : RExpr m a ts t b nxt) (e : ts = ts') : RExpr m a ts' t b nxt := e ▸ h
theorem RPrim.cast {ts ts' t la} (h : RPrim ts t la) (e : ts = ts') : RPrim ts' t la := e ▸ h
theorem RSpine.cast {m a l b ts ts' t bt nxt} (h : RSpine m a l b ts t bt nxt) (e : ts = ts') : RSpine m a l b ts' t bt nxt := e ▸ h
theorem RArgs.cast {c ts ts' out} (h : RArgs c ts out) (e : ts = ts') : RArgs c ts' out := e ▸ h
theorem RArgsTail.cast {c acc ts ts' out} (h : RArgsTail c acc ts out) (e : ts = ts') : RArgsTail c acc ts' out := e ▸ h
theorem RDict.cast {acc ts ts' out} (h : RDict acc ts out) (e : ts = ts') : RDict acc ts' out := e ▸ h
theorem RParams.cast {acc ts ts' out} (h : RParams acc ts out) (e : ts = ts') : RParams acc ts' out := e ▸ h
theorem RSub.cast {ts ts' k p} (h : RSub ts k p) (e : ts = ts') : RSub ts' k p := e ▸ h

mutual

theorem mExpr (f : Token → Token) (hty : ∀ t, (f t).ty = t.ty) (hval : ∀ t, (f t).val = t.val) :
    ∀ {m a ts t b nxt}, RExpr m a ts t b nxt → RExpr m a (ts.map f) t b nxt
  | _, _, _, _, _, _, .mk (ts := ts) hp hs => by
    exact RExpr.cast (RExpr.mk (by rw [peekTy_map f ts hty]; exact mPrim f hty hval hp) (mSpine f hty hval hs)) (by simp)

theorem mPrim (f : Token → Token) (hty : ∀ t, (f t).ty = t.ty) (hval : ∀ t, (f t).val = t.val) :
    ∀ {ts t la}, RPrim ts t la → RPrim (ts.map f) t la
  | _, _, _, .atom (t := t) ha => by
    exact RPrim.cast (RPrim.atom (by rw [atomOf_map f t hty hval]; exact ha)) (by simp)
  | _, _, _, .name (t := t) ht h1 h2 => by
    erase_simp; rw [← hval t]; exact .name (by rw [hty]; exact ht) h1 h2
  | _, _, _, .call0 (n := n) hn hl hr => by
    erase_simp; rw [← hval n]; exact .call0 (by rw [hty]; exact hn) (by rw [hty]; exact hl) (by rw [hty]; exact hr)
  | _, _, _, .call (n := n) hn hl ha => by
    erase_simp; rw [← hval n]; exact .call (by rw [hty]; exact hn) (by rw [hty]; exact hl) (mArgs f hty hval ha)
  | _, _, _, .lam1 (n := n) hn hl he => by
    erase_simp; rw [← hval n]; exact .lam1 (by rw [hty]; exact hn) (by rw [hty]; exact hl) (mExpr f hty hval he)
  | _, _, _, .paren hl he hr => by
    exact RPrim.cast (RPrim.paren (by rw [hty]; exact hl) (mExpr f hty hval he) (by rw [hty]; exact hr)) (by simp)
  | _, _, _, .lamN hl h0 hc hp hlam hb => by
    exact RPrim.cast (RPrim.lamN (by rw [hty]; exact hl) (mExpr f hty hval h0) (by rw [hty]; exact hc) (mParams f hty hval hp)
      (by rw [hty]; exact hlam) (mExpr f hty hval hb)) (by simp)
  | _, _, _, .list0 hl hr => by 
    exact RPrim.cast (RPrim.list0 (by rw [hty]; exact hl) (by rw [hty]; exact hr)) (by simp)
  | _, _, _, .list hl ha => by 
    exact RPrim.cast (RPrim.list (by rw [hty]; exact hl) (mArgs f hty hval ha)) (by simp)
  | _, _, _, .dict0 hl hr => by 
    exact RPrim.cast (RPrim.dict0 (by rw [hty]; exact hl) (by rw [hty]; exact hr)) (by simp)
  | _, _, _, .dict hl hd => by 
    exact RPrim.cast (RPrim.dict (by rw [hty]; exact hl) (mDict f hty hval hd)) (by simp)
  | _, _, _, .neg hm he => by 
    exact RPrim.cast (RPrim.neg (by rw [hty]; exact hm) (mExpr f hty hval he)) (by simp)
  | _, _, _, .not hn he => by 
    exact RPrim.cast (RPrim.not (by rw [hty]; exact hn) (mExpr f hty hval he)) (by simp)

theorem mSpine (f : Token → Token) (hty : ∀ t, (f t).ty = t.ty) (hval : ∀ t, (f t).val = t.val) :
    ∀ {m a l b ts t bt nxt}, RSpine m a l b ts t bt nxt → RSpine m a l b (ts.map f) t bt nxt
  | _, _, _, _, _, _, _, _, .nil h => by 
    exact RSpine.cast (RSpine.nil h) (by simp)
  | _, _, _, _, _, _, _, _, .bin (rest := rest) hd hk he hs => by
    exact RSpine.cast (RSpine.bin (by rw [hty]; exact hd) (by rw [hty]; exact hk) (by rw [peekTy_map f rest hty]; exact mExpr f hty hval he)
      (mSpine f hty hval hs)) (by simp)
  | _, _, _, _, _, _, _, _, .notin (rest := rest) ho hd hi he hs => by
    exact RSpine.cast (RSpine.notin (by rw [hty]; exact ho) hd (by rw [hty]; exact hi) (by rw [peekTy_map f rest hty]; exact mExpr f hty hval he)
      (mSpine f hty hval hs)) (by simp)
  | _, _, _, _, _, _, _, _, .ifx (rest := rest) ho hd hc hel he hs => by
    exact RSpine.cast (RSpine.ifx (by rw [hty]; exact ho) hd (mExpr f hty hval hc) (by rw [hty]; exact hel)
      (by rw [peekTy_map f rest hty]; exact mExpr f hty hval he) (mSpine f hty hval hs)) (by simp)
  | _, _, _, _, _, _, _, _, .index ho hd hsub hs => by
    exact RSpine.cast (RSpine.index (by rw [hty]; exact ho) hd (mSub f hty hval hsub) (mSpine f hty hval hs)) (by simp)
  | _, _, _, _, _, _, _, _, .dot0 (n := n) ho hd hn hl hr hs => by
    exact RSpine.cast (RSpine.dot0 (by rw [hty]; exact ho) hd (by rw [hty]; exact hn) (by rw [hty]; exact hl) (by rw [hty]; exact hr)
      (by rw [hval n]; exact mSpine f hty hval hs)) (by simp)
  | _, _, _, _, _, _, _, _, .dot (n := n) ho hd hn hl ha hs => by
    exact RSpine.cast (RSpine.dot (by rw [hty]; exact ho) hd (by rw [hty]; exact hn) (by rw [hty]; exact hl) (mArgs f hty hval ha)
      (by rw [hval n]; exact mSpine f hty hval hs)) (by simp)
  | _, _, _, _, _, _, _, _, .pipe0 (n := n) (rest := rest) ho hd hn hla hs => by
    exact RSpine.cast (RSpine.pipe0 (by rw [hty]; exact ho) hd (by rw [hty]; exact hn) (by rw [peekTy_map f rest hty]; exact hla)
      (by rw [hval n]; exact mSpine f hty hval hs)) (by simp)
  | _, _, _, _, _, _, _, _, .pipe (n := n) ho hd hn hl ha hs => by
    exact RSpine.cast (RSpine.pipe (by rw [hty]; exact ho) hd (by rw [hty]; exact hn) (by rw [hty]; exact hl) (mArgs f hty hval ha)
      (by rw [hval n]; exact mSpine f hty hval hs)) (by simp)

theorem mArgs (f : Token → Token) (hty : ∀ t, (f t).ty = t.ty) (hval : ∀ t, (f t).val = t.val) :
    ∀ {close ts out}, RArgs close ts out → RArgs close (ts.map f) out
  | _, _, _, .mk (rest := rest) he ht => by
    exact RArgs.cast (RArgs.mk (by rw [peekTy_map f rest hty]; exact mExpr f hty hval he) (mArgsTail f hty hval ht)) (by simp)

theorem mArgsTail (f : Token → Token) (hty : ∀ t, (f t).ty = t.ty) (hval : ∀ t, (f t).val = t.val) :
    ∀ {close acc ts out}, RArgsTail close acc ts out → RArgsTail close acc (ts.map f) out
  | _, _, _, _, .close hc hne => by 
    exact RArgsTail.cast (RArgsTail.close (by rw [hty]; exact hc) hne) (by simp)
  | _, _, _, _, .trailing hcm hc => by 
    exact RArgsTail.cast (RArgsTail.trailing (by rw [hty]; exact hcm) (by rw [hty]; exact hc)) (by simp)
  | _, _, _, _, .more (ts0 := ts0) (rest := rest) hcm hpk he ht => by
    erase_simp
    refine RArgsTail.more (by rw [hty]; exact hcm) ?_ (by rw [peekTy_map f rest hty]; exact mExpr f hty hval he) (mArgsTail f hty hval ht)
    rw [← List.map_append, peekTy_map f _ hty]; exact hpk

theorem mDict (f : Token → Token) (hty : ∀ t, (f t).ty = t.ty) (hval : ∀ t, (f t).val = t.val) :
    ∀ {acc ts out}, RDict acc ts out → RDict acc (ts.map f) out
  | _, _, _, .last hk hc hv hr => by
    exact RDict.cast (RDict.last (mExpr f hty hval hk) (by rw [hty]; exact hc) (mExpr f hty hval hv) (by rw [hty]; exact hr)) (by simp)
  | _, _, _, .lastComma hk hc hv hcm hr => by
    exact RDict.cast (RDict.lastComma (mExpr f hty hval hk) (by rw [hty]; exact hc) (mExpr f hty hval hv) (by rw [hty]; exact hcm) (by rw [hty]; exact hr)) (by simp)
  | _, _, _, .more (rest := rest) hk hc hv hcm hpk hd => by
    exact RDict.cast (RDict.more (mExpr f hty hval hk) (by rw [hty]; exact hc) (mExpr f hty hval hv) (by rw [hty]; exact hcm)
      (by rw [peekTy_map f rest hty]; exact hpk) (mDict f hty hval hd)) (by simp)

theorem mParams (f : Token → Token) (hty : ∀ t, (f t).ty = t.ty) (hval : ∀ t, (f t).val = t.val) :
    ∀ {acc ts out}, RParams acc ts out → RParams acc (ts.map f) out
  | _, _, _, .last (n := n) hn hr => by
    erase_simp; rw [← hval n]; exact .last (by rw [hty]; exact hn) (by rw [hty]; exact hr)
  | _, _, _, .more (ts0 := ts0) (cm := cm) hs he hc hp => by
    erase_simp
    refine RParams.more ?_ (mExpr f hty hval he) (by rw [hty]; exact hc) (mParams f hty hval hp)
    have := startsNameRparen_map f (ts0 ++ [cm]) hty
    simp only [List.map_append, List.map_cons, List.map_nil] at this
    rw [this]; exact hs

theorem mSub (f : Token → Token) (hty : ∀ t, (f t).ty = t.ty) (hval : ∀ t, (f t).val = t.val) :
    ∀ {ts k plain}, RSub ts k plain → RSub (ts.map f) k plain
  | _, _, _, .idx he hr => by 
    exact RSub.cast (RSub.idx (mExpr f hty hval he) (by rw [hty]; exact hr)) (by simp)
  | _, _, _, .all hc hr => by 
    exact RSub.cast (RSub.all (by rw [hty]; exact hc) (by rw [hty]; exact hr)) (by simp)
  | _, _, _, .step h1 h2 he hr => by
    exact RSub.cast (RSub.step (by rw [hty]; exact h1) (by rw [hty]; exact h2) (mExpr f hty hval he) (by rw [hty]; exact hr)) (by simp)
  | _, _, _, .stop hc he hr => by 
    exact RSub.cast (RSub.stop (by rw [hty]; exact hc) (mExpr f hty hval he) (by rw [hty]; exact hr)) (by simp)
  | _, _, _, .stopColon hc he h2 hr => by
    exact RSub.cast (RSub.stopColon (by rw [hty]; exact hc) (mExpr f hty hval he) (by rw [hty]; exact h2) (by rw [hty]; exact hr)) (by simp)
  | _, _, _, .start he hc hr => by 
    exact RSub.cast (RSub.start (mExpr f hty hval he) (by rw [hty]; exact hc) (by rw [hty]; exact hr)) (by simp)
  | _, _, _, .startColon he hc h2 hr => by
    exact RSub.cast (RSub.startColon (mExpr f hty hval he) (by rw [hty]; exact hc) (by rw [hty]; exact h2) (by rw [hty]; exact hr)) (by simp)
  | _, _, _, .startStop he hc he2 hr => by
    exact RSub.cast (RSub.startStop (mExpr f hty hval he) (by rw [hty]; exact hc) (mExpr f hty hval he2) (by rw [hty]; exact hr)) (by simp)

end

theorem RStmt.cast {ts ts' s nxt} (h : RStmt ts s nxt) (e : ts = ts') : RStmt ts' s nxt := e ▸ h
theorem RCode.cast {acc ts ts' out} (h : RCode acc ts out) (e : ts = ts') : RCode acc ts' out := e ▸ h

theorem mStmt (f : Token → Token) (hty : ∀ t, (f t).ty = t.ty) (hval : ∀ t, (f t).val = t.val) :
    ∀ {ts s nxt}, RStmt ts s nxt → RStmt (ts.map f) s nxt
  | _, _, _, .empty he => RStmt.empty he
  | _, _, _, .expr he h => RStmt.expr he (mExpr f hty hval h)
  | _, _, _, .assign (n := n) he hn heq h => by
    rw [← hval n]
    exact RStmt.cast (RStmt.assign he (by rw [hty]; exact hn) (by rw [hty]; exact heq) (mExpr f hty hval h)) (by simp)
  | _, _, _, .short (n := n) (o := o) he hn ho hk h => by
    rw [← hval n]
    exact RStmt.cast (RStmt.short he (by rw [hty]; exact hn) (by rw [hty]; exact ho) (by rw [hval]; exact hk) (mExpr f hty hval h)) (by simp)
  | _, _, _, .del he hd h hi => RStmt.cast (RStmt.del he (by rw [hty]; exact hd) (mExpr f hty hval h) hi) (by simp)
  | _, _, _, .setitem he h hi heq hv =>
    RStmt.cast (RStmt.setitem he (mExpr f hty hval h) hi (by rw [hty]; exact heq) (mExpr f hty hval hv)) (by simp)
  | _, _, _, .setop (o := o) he h hi ho hv => by
    rw [← hval o]
    exact RStmt.cast (RStmt.setop he (mExpr f hty hval h) hi (by rw [hty]; exact ho) (mExpr f hty hval hv)) (by simp)

theorem mCode (f : Token → Token) (hty : ∀ t, (f t).ty = t.ty) (hval : ∀ t, (f t).val = t.val) :
    ∀ {acc ts out}, RCode acc ts out → RCode acc (ts.map f) out
  | _, _, _, .last h => RCode.last (mStmt f hty hval h)
  | _, _, _, .more h hnl hc =>
    RCode.cast (RCode.more (mStmt f hty hval h) (by rw [hty]; exact hnl) (mCode f hty hval hc)) (by simp)

/-- **the parser reads only the kind and the value of a token**: a token list changed by any function that keeps `ty`
    and `val` (offsets, line stamps) is accepted with exactly the same program -/
theorem parse_reads_kind_and_value (f : Token → Token) (hty : ∀ t, (f t).ty = t.ty) (hval : ∀ t, (f t).val = t.val)
    (ts : List Token) (out : List Op) (h : parseTokens ts = .ok (.code out)) : parseTokens (ts.map f) = .ok (.code out) :=
  (parse_iff _ _).mpr (mCode f hty hval ((parse_iff _ _).mp h))

/-- … in both directions when the change can be undone -/
theorem parse_ok_iff_of_map (f g : Token → Token) (hty : ∀ t, (f t).ty = t.ty) (hval : ∀ t, (f t).val = t.val)
    (hty' : ∀ t, (g t).ty = t.ty) (hval' : ∀ t, (g t).val = t.val) (hgf : ∀ t, g (f t) = t)
    (ts : List Token) (tree : Op) : parseTokens (ts.map f) = .ok tree ↔ parseTokens ts = .ok tree := by
  constructor
  · intro h
    obtain ⟨out, e, _⟩ := sound h
    subst e
    have := parse_reads_kind_and_value g hty' hval' _ _ h
    simpa [List.map_map, Function.comp_def, hgf] using this
  · intro h
    obtain ⟨out, e, _⟩ := sound h
    subst e
    exact parse_reads_kind_and_value f hty hval _ _ h

end Sq
