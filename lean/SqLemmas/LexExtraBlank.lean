/-
  SqLemmas/LexExtraBlank.lean — C15, character level, the whole statement: an extra space or tab BETWEEN TOKENS never
  changes the tokens.  "Between tokens" = at a point the lexer passes through when it lexes the text (`LexReach`): not inside a
  string literal, a %…% name or a multi-character token.  The tokens before the blank are delivered unchanged; the tokens
  after it — and a lexical error, if any — are the same with every offset one further.
-/
import SqLemmas.LexCont
import SqLemmas.ParseErase
import Sq.Proto
import SqLemmas.LexLine
namespace Sq

/-- one more unit of fuel than needed changes nothing -/
theorem lexAllAux_succ : ∀ (n : Nat) (st : LexSt) (s : List Char) (acc : List Token), s.length + 1 ≤ n →
    lexAllAux (n + 1) st s acc = lexAllAux n st s acc := by
  intro n
  induction n with
  | zero => intro st s acc h; omega
  | succ n ih =>
    intro st s acc hn
    have hok := lexStep_ok st s
    rw [lexAllAux, lexAllAux]
    cases hr : lexStep st s with
    | eof => rfl
    | err e => rfl
    | skip st' rest =>
      rw [hr, ResOK_skip] at hok
      obtain ⟨pre, e, hne, _, _⟩ := hok
      have hl : rest.length + 1 ≤ s.length := by
        rw [e]; cases pre with
        | nil => exact absurd rfl hne
        | cons _ _ => simp
      exact ih st' rest acc (by omega)
    | tok t st' rest =>
      rw [hr, ResOK_tok] at hok
      obtain ⟨⟨pre, e, hne, _, _⟩, _, _⟩ := hok
      have hl : rest.length + 1 ≤ s.length := by
        rw [e]; cases pre with
        | nil => exact absurd rfl hne
        | cons _ _ => simp
      exact ih st' rest (t :: acc) (by omega)

theorem lexAllAux_more (k : Nat) : ∀ (n : Nat) (st : LexSt) (s : List Char) (acc : List Token), s.length + 1 ≤ n →
    lexAllAux (n + k) st s acc = lexAllAux n st s acc := by
  induction k with
  | zero => intro n st s acc _; rfl
  | succ k ih =>
    intro n st s acc hn
    rw [← Nat.add_assoc, lexAllAux_succ (n + k) st s acc (by omega)]
    exact ih n st s acc hn

/-- `lexAllAux` with the fuel `lexFrom` gives it -/
def lexAll (st : LexSt) (s : List Char) (acc : List Token) : LexOut := lexAllAux (s.length + 1) st s acc

theorem lexFrom_eq (st : LexSt) (s : List Char) : lexFrom st s = lexAll st s [] := rfl

theorem lexAllAux_enough (n : Nat) (st : LexSt) (s : List Char) (acc : List Token) (h : s.length + 1 ≤ n) :
    lexAllAux n st s acc = lexAll st s acc := by
  obtain ⟨k, rfl⟩ : ∃ k, n = (s.length + 1) + k := ⟨n - (s.length + 1), by omega⟩
  exact lexAllAux_more k _ st s acc (Nat.le_refl _)

/-- the unfolding equation of the lexer loop, free of fuel -/
theorem lexAll_step (st : LexSt) (s : List Char) (acc : List Token) :
    lexAll st s acc = (match lexStep st s with
      | .eof => .ok (acc.reverse, st)
      | .err e => .error (e, acc.reverse)
      | .skip st' rest => lexAll st' rest acc
      | .tok t st' rest => lexAll st' rest (t :: acc)) := by
  have hok := lexStep_ok st s
  unfold lexAll
  rw [lexAllAux]
  cases hr : lexStep st s with
  | eof => rfl
  | err e => rfl
  | skip st' rest =>
    rw [hr, ResOK_skip] at hok
    obtain ⟨pre, e, hne, _, _⟩ := hok
    have hl : rest.length + 1 ≤ s.length := by
      rw [e]; cases pre with
      | nil => exact absurd rfl hne
      | cons _ _ => simp
    exact lexAllAux_enough _ st' rest acc hl
  | tok t st' rest =>
    rw [hr, ResOK_tok] at hok
    obtain ⟨⟨pre, e, hne, _, _⟩, _, _⟩ := hok
    have hl : rest.length + 1 ≤ s.length := by
      rw [e]; cases pre with
      | nil => exact absurd rfl hne
      | cons _ _ => simp
    exact lexAllAux_enough _ st' rest (t :: acc) hl

/-- lexing from `(st, s)` with `acc` delivered so far arrives — after some steps — at the point where `post` remains -/
inductive LexReach (post : List Char) : LexSt → List Char → List Token → LexSt → List Token → Prop
  | here (st : LexSt) (acc : List Token) : LexReach post st post acc st acc
  | tok {st s t st' r acc st1 acc1} : lexStep st s = .tok t st' r → LexReach post st' r (t :: acc) st1 acc1 →
      LexReach post st s acc st1 acc1
  | skip {st s st' r acc st1 acc1} : lexStep st s = .skip st' r → LexReach post st' r acc st1 acc1 →
      LexReach post st s acc st1 acc1

/-- the rest of the run is the run from the point reached -/
theorem reach_lexAll {post : List Char} {st s acc st1 acc1} (h : LexReach post st s acc st1 acc1) :
    lexAll st s acc = lexAll st1 post acc1 := by
  induction h with
  | here => rfl
  | tok hs _ ih => rw [lexAll_step, hs]; exact ih
  | skip hs _ ih => rw [lexAll_step, hs]; exact ih

/-- what is left at a reached point is a suffix of the text; if it is all of `post`, nothing was consumed -/
theorem reach_suffix {post : List Char} {st s acc st1 acc1} (h : LexReach post st s acc st1 acc1) : ∃ u, s = u ++ post := by
  induction h with
  | here => exact ⟨[], rfl⟩
  | @tok st0 s0 t st' r acc0 st2 acc2 hs _ ih =>
    have hok := lexStep_ok st0 s0
    rw [hs, ResOK_tok] at hok
    obtain ⟨⟨pre, e, _, _, _⟩, _, _⟩ := hok
    obtain ⟨u, eu⟩ := ih
    exact ⟨pre ++ u, by rw [e, eu]; simp⟩
  | @skip st0 s0 st' r acc0 st2 acc2 hs _ ih =>
    have hok := lexStep_ok st0 s0
    rw [hs, ResOK_skip] at hok
    obtain ⟨pre, e, _, _, _⟩ := hok
    obtain ⟨u, eu⟩ := ih
    exact ⟨pre ++ u, by rw [e, eu]; simp⟩

theorem append_self_nil {u post : List Char} (h : post = u ++ post) : u = [] := by
  have := congrArg List.length h
  rw [List.length_append] at this
  exact List.eq_nil_of_length_eq_zero (by omega)

/-- a run that "reaches" the text it starts with has made no step -/
theorem reach_self {post : List Char} {st acc st1 acc1} (h : LexReach post st post acc st1 acc1) : st1 = st ∧ acc1 = acc := by
  cases h with
  | here => exact ⟨rfl, rfl⟩
  | @tok _ _ t st' r _ _ _ hs hrest =>
    exfalso
    have hok := lexStep_ok st post
    rw [hs, ResOK_tok] at hok
    obtain ⟨⟨pre, e, hne, _, _⟩, _, _⟩ := hok
    obtain ⟨u, eu⟩ := reach_suffix hrest
    have := congrArg List.length e
    rw [eu] at this
    simp only [List.length_append] at this
    cases pre with
    | nil => exact hne rfl
    | cons _ _ => simp at this; omega
  | @skip _ _ st' r _ _ _ hs hrest =>
    exfalso
    have hok := lexStep_ok st post
    rw [hs, ResOK_skip] at hok
    obtain ⟨pre, e, hne, _, _⟩ := hok
    obtain ⟨u, eu⟩ := reach_suffix hrest
    have := congrArg List.length e
    rw [eu] at this
    simp only [List.length_append] at this
    cases pre with
    | nil => exact hne rfl
    | cons _ _ => simp at this; omega

/-- from a reached point the next old step is no error unless the point is the insertion point itself -/
theorem reach_next {post : List Char} {st s acc st1 acc1} (h : LexReach post st s acc st1 acc1) :
    s = post ∨ ∀ e, lexStep st s ≠ .err e := by
  cases h with
  | here => exact Or.inl rfl
  | tok hs _ => exact Or.inr (fun e he => by rw [hs] at he; cases he)
  | skip hs _ => exact Or.inr (fun e he => by rw [hs] at he; cases he)

/-- **the prefix half, for any insertion that begins with a separator**: `b :: tail` is inserted in front of `post`, where
    `b` is a blank, `#`, a line feed or a carriage return.  If the old run reaches the insertion point in state `st1`, and
    lexing `b :: tail` from `st1` continues as lexing `post` from some state `T` (`hins`) — also when a comment of the old
    text runs up to the insertion point and swallows the rest of the inserted line (`hline`) — then the run on the new text
    delivers the same tokens up to there and continues on `post` from `T` -/
theorem reach_with_insert (b : Char) (hb : isSepC b) (tail : List Char) (T : LexSt) {post : List Char}
    {st s acc st1 acc1} (h : LexReach post st s acc st1 acc1)
    (hins : ∀ acc0, lexAll st1 (b :: tail) acc0 = lexAll T post acc0)
    (hline : b ≠ '\n' → (post = [] ∨ ∃ t, post = '\n' :: t) → ∀ acc0,
      lexAll (st1.shift (1 + (tail.length - (dropLine tail).length))) (dropLine tail) acc0 = lexAll T post acc0) :
    ∃ u, s = u ++ post ∧ lexAll st (u ++ b :: tail) acc = lexAll T post acc1 := by
  induction h with
  | here st0 acc0 =>
    refine ⟨[], rfl, ?_⟩
    rw [List.nil_append]
    exact hins acc0
  | @tok st0 s0 t st' r acc0 st2 acc2 hs hrest ih =>
    obtain ⟨u', er, ihq⟩ := ih hins hline
    obtain ⟨u, es, hz⟩ := lexStep_cont_tok (tail := tail) st0 s0 b hb post hs
    have hcont : Cont b tail post r (u' ++ b :: tail) := by rw [er]; exact Cont.append u'
    have hside : (∃ t, (u' ++ b :: tail) = b :: t) ∨ ∀ e, lexStep st' r ≠ .err e := by
      rcases reach_next hrest with h1 | h1
      · left
        have : u' = [] := append_self_nil (h1.symm.trans er)
        rw [this, List.nil_append]
        exact ⟨tail, rfl⟩
      · exact Or.inr h1
    refine ⟨u ++ u', by rw [es, er]; simp, ?_⟩
    rw [List.append_assoc, lexAll_step, hz _ hcont hside]
    exact ihq
  | @skip st0 s0 st' r acc0 st2 acc2 hs hrest ih =>
    obtain ⟨u', er, ihq⟩ := ih hins hline
    obtain ⟨u, es, hz⟩ := lexStep_cont_skip (tail := tail) st0 s0 b hb post hs
    have hcont : Cont b tail post r (u' ++ b :: tail) := by rw [er]; exact Cont.append u'
    refine ⟨u ++ u', by rw [es, er]; simp, ?_⟩
    rw [List.append_assoc, lexAll_step]
    rcases hz _ hcont with h1 | ⟨hbn, hrp, hzeq, hshape, h1⟩
    · rw [h1]; exact ihq
    · -- a comment of the old text ran up to the insertion point: it swallows the insertion up to the end of its line
      rw [h1]
      subst hrp
      obtain ⟨rfl, rfl⟩ := reach_self hrest
      exact hline hbn hshape _

/-- the blank: one character skipped -/
theorem reach_with_blank (b : Char) (hb : isBlank b) {post : List Char} {st s acc st1 acc1}
    (h : LexReach post st s acc st1 acc1) :
    ∃ u, s = u ++ post ∧ lexAll st (u ++ b :: post) acc = lexAll (st1.shift 1) post acc1 := by
  refine reach_with_insert b (isSepC_of_blank hb) post (st1.shift 1) h ?_ ?_
  · intro acc0
    rw [lexAll_step, lexStep_blank st1 b hb post]
  · intro _ hshape acc0
    rw [dropLine_fix post hshape]
    simp

theorem lexAll_acc (st : LexSt) (s : List Char) (acc : List Token) : lexAll st s acc = preOut acc (lexAll st s []) :=
  lexAllAux_acc _ st s acc

theorem lexAll_shift (d : Nat) (st : LexSt) (s : List Char) : lexAll (st.shift d) s [] = shiftOut d (lexAll st s []) :=
  lexAllAux_shift d _ st s

/-- **an extra blank between tokens never changes the tokens** (lexer level): if lexing `s` passes through the point where
    `post` remains — with `acc1` delivered and the lexer in state `st1` — then `s = u ++ post`, and lexing `u ++ b :: post`
    delivers the same `acc1`, then what lexing `post` from `st1` delivers with every offset moved by one -/
theorem lex_extra_blank (b : Char) (hb : isBlank b) {post s : List Char} {st1 : LexSt} {acc1 : List Token}
    (h : LexReach post LexSt.init s [] st1 acc1) :
    ∃ u, s = u ++ post ∧
      lexFrom LexSt.init s = preOut acc1 (lexAll st1 post []) ∧
      lexFrom LexSt.init (u ++ b :: post) = preOut acc1 (shiftOut 1 (lexAll st1 post [])) := by
  obtain ⟨u, es, hnew⟩ := reach_with_blank b hb h
  refine ⟨u, es, ?_, ?_⟩
  · rw [lexFrom_eq, reach_lexAll h, lexAll_acc]
  · rw [lexFrom_eq, hnew, lexAll_acc, lexAll_shift]

/-! ### offsets tell the two halves apart -/

/-- tokens delivered from state `st` on stand at offsets ≥ `st.pos` -/
theorem lexAllAux_pos_ge : ∀ (n : Nat) (st : LexSt) (s : List Char) (acc : List Token) (p : Nat), p ≤ st.pos →
    (∀ t ∈ acc, p ≤ t.pos) → ∀ t ∈ tokensOf (lexAllAux n st s acc), p ≤ t.pos := by
  intro n
  induction n with
  | zero => intro st s acc p _ hacc t ht; simp [lexAllAux, tokensOf] at ht; exact hacc t ht
  | succ n ih =>
    intro st s acc p hp hacc t ht
    have hok := lexStep_ok st s
    simp only [lexAllAux] at ht
    split at ht
    · simp [tokensOf] at ht; exact hacc t ht
    · simp [tokensOf] at ht; exact hacc t ht
    · rename_i st' rest hstep
      rw [hstep, ResOK_skip] at hok
      obtain ⟨pre, _, _, hpos, _⟩ := hok
      exact ih st' rest acc p (by omega) hacc t ht
    · rename_i tk st' rest hstep
      rw [hstep, ResOK_tok] at hok
      obtain ⟨⟨pre, _, _, hpos, _⟩, htp, _⟩ := hok
      refine ih st' rest (tk :: acc) p (by omega) ?_ t ht
      intro t' ht'
      rcases List.mem_cons.mp ht' with e | e
      · rw [e, htp]; exact hp
      · exact hacc t' e

/-- tokens delivered before a reached point stand at offsets < the offset of that point -/
theorem reach_pos_lt {post : List Char} {st s acc st1 acc1} (h : LexReach post st s acc st1 acc1)
    (hacc : ∀ t ∈ acc, t.pos < st.pos) : ∀ t ∈ acc1, t.pos < st1.pos := by
  induction h with
  | here => exact hacc
  | @tok st0 s0 t st' r acc0 st2 acc2 hs _ ih =>
    have hok := lexStep_ok st0 s0
    rw [hs, ResOK_tok] at hok
    obtain ⟨⟨pre, _, hne, hpos, _⟩, htp, _⟩ := hok
    have hpl : 0 < pre.length := by cases pre with
      | nil => exact absurd rfl hne
      | cons _ _ => simp
    apply ih
    intro t' ht'
    rcases List.mem_cons.mp ht' with e | e
    · rw [e, htp, hpos]; omega
    · have := hacc t' e; omega
  | @skip st0 s0 st' r acc0 st2 acc2 hs _ ih =>
    have hok := lexStep_ok st0 s0
    rw [hs, ResOK_skip] at hok
    obtain ⟨pre, _, _, hpos, _⟩ := hok
    apply ih
    intro t' ht'
    have := hacc t' ht'; omega

open Proto in
theorem parseText_ok_iff (st : LexSt) (src : List Char) (tree : Op) :
    parseText st src = .ok tree ↔ ∃ ts stf, lexFrom st src = .ok (ts, stf) ∧ parseTokens ts = .ok tree := by
  unfold parseText
  cases hl : lexFrom st src with
  | error p =>
    obtain ⟨e, ts⟩ := p
    cases e <;> simp
  | ok p =>
    obtain ⟨ts, stf⟩ := p
    constructor
    · intro h
      refine ⟨ts, stf, rfl, ?_⟩
      simp only [] at h
      cases hp : parseTokens ts with
      | ok t => rw [hp] at h; simp at h; rw [h]
      | error e => rw [hp] at h; cases e <;> simp at h
    · rintro ⟨ts', stf', e, hp⟩
      simp only [Except.ok.injEq, Prod.mk.injEq] at e
      obtain ⟨rfl, rfl⟩ := e
      simp only [hp]

open Proto in
/-- two texts whose tokens agree up to a point and differ by a constant offset afterwards parse alike -/
theorem same_program_of_shift (d : Nat) {s s2 post : List Char} {st1 : LexSt} {acc1 : List Token}
    (h : LexReach post LexSt.init s [] st1 acc1)
    (hold : lexFrom LexSt.init s = preOut acc1 (lexAll st1 post []))
    (hnew : lexFrom LexSt.init s2 = preOut acc1 (shiftOut d (lexAll st1 post []))) (tree : Op) :
    parseText LexSt.init s2 = .ok tree ↔ parseText LexSt.init s = .ok tree := by
  rw [parseText_ok_iff, parseText_ok_iff, hold, hnew]
  have hlt := reach_pos_lt h (fun t ht => by cases ht)
  have hge : ∀ t ∈ tokensOf (lexAll st1 post []), st1.pos ≤ t.pos :=
    lexAllAux_pos_ge _ st1 post [] st1.pos (Nat.le_refl _) (fun t ht => by cases ht)
  cases hx : lexAll st1 post [] with
  | error p =>
    obtain ⟨e, ts⟩ := p
    simp [preOut, shiftOut]
  | ok p =>
    obtain ⟨ts2, stf⟩ := p
    rw [hx] at hge
    simp only [tokensOf] at hge
    simp only [preOut, shiftOut, Except.ok.injEq, Prod.mk.injEq]
    let f : Token → Token := fun t => if st1.pos ≤ t.pos then t.shift d else t
    let g : Token → Token := fun t => if st1.pos + d ≤ t.pos then { t with pos := t.pos - d } else t
    have hmap : (acc1.reverse ++ ts2).map f = acc1.reverse ++ ts2.map (Token.shift d) := by
      rw [List.map_append]
      congr 1
      · have hid : ∀ t ∈ acc1.reverse, f t = id t := by
          intro t ht
          have := hlt t (List.mem_reverse.mp ht)
          show (if st1.pos ≤ t.pos then t.shift d else t) = t
          rw [if_neg (by omega)]
        rw [List.map_congr_left hid, List.map_id]
      · apply List.map_congr_left
        intro t ht
        show (if st1.pos ≤ t.pos then t.shift d else t) = t.shift d
        rw [if_pos (hge t ht)]
    have key := parse_ok_iff_of_map f g
      (fun t => by show (if st1.pos ≤ t.pos then t.shift d else t).ty = t.ty; split <;> rfl)
      (fun t => by show (if st1.pos ≤ t.pos then t.shift d else t).val = t.val; split <;> rfl)
      (fun t => by show (if st1.pos + d ≤ t.pos then ({ t with pos := t.pos - d } : Token) else t).ty = t.ty; split <;> rfl)
      (fun t => by show (if st1.pos + d ≤ t.pos then ({ t with pos := t.pos - d } : Token) else t).val = t.val; split <;> rfl)
      (fun t => by
        show g (f t) = t
        by_cases hp : st1.pos ≤ t.pos
        · have e1 : f t = t.shift d := if_pos hp
          rw [e1]
          show (if st1.pos + d ≤ (t.shift d).pos then ({ (t.shift d) with pos := (t.shift d).pos - d } : Token) else t.shift d) = t
          have : st1.pos + d ≤ (t.shift d).pos := by simp [Token.shift]; omega
          rw [if_pos this]
          cases t; simp [Token.shift]
        · have e1 : f t = t := if_neg hp
          rw [e1]
          show (if st1.pos + d ≤ t.pos then ({ t with pos := t.pos - d } : Token) else t) = t
          rw [if_neg (by omega)])
      (acc1.reverse ++ ts2) tree
    rw [hmap] at key
    constructor
    · rintro ⟨ts, st2, ⟨rfl, _⟩, hp⟩
      exact ⟨_, _, ⟨rfl, rfl⟩, key.mp hp⟩
    · rintro ⟨ts, st2, ⟨rfl, _⟩, hp⟩
      exact ⟨_, _, ⟨rfl, rfl⟩, key.mpr hp⟩

open Proto in
/-- **an extra space or tab between tokens never changes the parsed program**: if lexing `s` passes through the point where
    `post` remains, then `s = u ++ post`, and the text with a blank inserted there parses to a tree iff `s` does — the same tree -/
theorem extra_blank_same_program (b : Char) (hb : isBlank b) {post s : List Char} {st1 : LexSt} {acc1 : List Token}
    (h : LexReach post LexSt.init s [] st1 acc1) (tree : Op) :
    ∃ u, s = u ++ post ∧ (parseText LexSt.init (u ++ b :: post) = .ok tree ↔ parseText LexSt.init s = .ok tree) := by
  obtain ⟨u, es, hold, hnew⟩ := lex_extra_blank b hb h
  exact ⟨u, es, same_program_of_shift 1 h hold hnew tree⟩

/-! ### a comment in front of a line end -/

/-- a comment — `#`, then characters without a line feed — in front of the end of the text or of a line feed is skipped in
    one step -/
theorem lexStep_comment (st0 : LexSt) (cs post : List Char) (hcs : nl cs = 0) (hp : post = [] ∨ ∃ t, post = '\n' :: t) :
    lexStep st0 ('#' :: (cs ++ post)) = .skip (st0.shift (1 + cs.length)) post := by
  rw [lexStep_hash, dropLine_append cs post hcs, dropLine_fix post hp]
  congr 1
  simp only [LexSt.shift, List.length_append]
  congr 1
  omega

/-- **a comment inserted between tokens at the end of a line never changes the tokens**: if lexing `s` passes through the
    point where `post` remains and `post` is empty or starts with a line feed, then `s = u ++ post`, and lexing
    `u ++ '#' :: cs ++ post` (any comment text `cs` without a line feed) delivers the same tokens before and the same tokens
    after — kinds, values, line numbers; offsets `1 + cs.length` further — and the same lexical error if any -/
theorem lex_extra_comment (cs : List Char) (hcs : nl cs = 0) {post s : List Char} (hp : post = [] ∨ ∃ t, post = '\n' :: t)
    {st1 : LexSt} {acc1 : List Token} (h : LexReach post LexSt.init s [] st1 acc1) :
    ∃ u, s = u ++ post ∧
      lexFrom LexSt.init s = preOut acc1 (lexAll st1 post []) ∧
      lexFrom LexSt.init (u ++ '#' :: (cs ++ post)) = preOut acc1 (shiftOut (1 + cs.length) (lexAll st1 post [])) := by
  obtain ⟨u, es, hnew⟩ := reach_with_insert '#' (Or.inr (Or.inr (Or.inl rfl))) (cs ++ post) (st1.shift (1 + cs.length)) h
    (fun acc0 => by rw [lexAll_step, lexStep_comment st1 cs post hcs hp])
    (fun _ _ acc0 => by
      rw [dropLine_append cs post hcs, dropLine_fix post hp]
      have : 1 + ((cs ++ post).length - post.length) = 1 + cs.length := by simp only [List.length_append]; omega
      rw [this])
  refine ⟨u, es, ?_, ?_⟩
  · rw [lexFrom_eq, reach_lexAll h, lexAll_acc]
  · rw [lexFrom_eq, hnew, lexAll_acc, lexAll_shift]

open Proto in
/-- **… and never changes the parsed program** -/
theorem extra_comment_same_program (cs : List Char) (hcs : nl cs = 0) {post s : List Char}
    (hp : post = [] ∨ ∃ t, post = '\n' :: t) {st1 : LexSt} {acc1 : List Token}
    (h : LexReach post LexSt.init s [] st1 acc1) (tree : Op) :
    ∃ u, s = u ++ post ∧
      (parseText LexSt.init (u ++ '#' :: (cs ++ post)) = .ok tree ↔ parseText LexSt.init s = .ok tree) := by
  obtain ⟨u, es, hold, hnew⟩ := lex_extra_comment cs hcs hp h
  exact ⟨u, es, same_program_of_shift (1 + cs.length) h hold hnew tree⟩

/-! ### a line break inside brackets -/

theorem lexAll_lshift (d : Nat) (st : LexSt) (s : List Char) : lexAll (st.lshift d) s [] = lshiftOut d (lexAll st s []) :=
  lexAllAux_lshift d _ st s

/-- a line feed inside brackets is skipped: one offset and one line further -/
theorem lexStep_lf_in_brackets (st0 : LexSt) (hd : st0.depth ≠ 0) (post : List Char) :
    lexStep st0 ('\n' :: post) = .skip ((st0.shift 1).lshift 1) post := by
  simp [lexStep, hd, LexSt.shift, LexSt.lshift]

/-- … and so is carriage return + line feed: two offsets and one line further -/
theorem lexStep_crlf_in_brackets (st0 : LexSt) (hd : st0.depth ≠ 0) (post : List Char) :
    lexStep st0 ('\r' :: '\n' :: post) = .skip ((st0.shift 2).lshift 1) post := by
  simp [lexStep, hd, LexSt.shift, LexSt.lshift]

/-- **a line break inserted between tokens inside brackets never changes the tokens**: if lexing `s` passes through the
    point where `post` remains with the lexer inside brackets (`st1.depth ≠ 0`), then `s = u ++ post`, and lexing
    `u ++ '\n' :: post` delivers the same tokens before, and after it the same tokens one offset and one LINE further -/
theorem lex_extra_linefeed {post s : List Char} {st1 : LexSt} {acc1 : List Token}
    (h : LexReach post LexSt.init s [] st1 acc1) (hd : st1.depth ≠ 0) :
    ∃ u, s = u ++ post ∧
      lexFrom LexSt.init s = preOut acc1 (lexAll st1 post []) ∧
      lexFrom LexSt.init (u ++ '\n' :: post) = preOut acc1 (lshiftOut 1 (shiftOut 1 (lexAll st1 post []))) := by
  obtain ⟨u, es, hnew⟩ := reach_with_insert '\n' (Or.inr (Or.inr (Or.inr (Or.inl rfl)))) post ((st1.shift 1).lshift 1) h
    (fun acc0 => by rw [lexAll_step, lexStep_lf_in_brackets st1 hd post])
    (fun hne => absurd rfl hne)
  refine ⟨u, es, ?_, ?_⟩
  · rw [lexFrom_eq, reach_lexAll h, lexAll_acc]
  · rw [lexFrom_eq, hnew, lexAll_acc, lexAll_lshift, lexAll_shift]

/-- the same for carriage return + line feed -/
theorem lex_extra_crlf {post s : List Char} {st1 : LexSt} {acc1 : List Token}
    (h : LexReach post LexSt.init s [] st1 acc1) (hd : st1.depth ≠ 0) :
    ∃ u, s = u ++ post ∧
      lexFrom LexSt.init s = preOut acc1 (lexAll st1 post []) ∧
      lexFrom LexSt.init (u ++ '\r' :: '\n' :: post) = preOut acc1 (lshiftOut 1 (shiftOut 2 (lexAll st1 post []))) := by
  obtain ⟨u, es, hnew⟩ := reach_with_insert '\r' (Or.inr (Or.inr (Or.inr (Or.inr rfl)))) ('\n' :: post)
    ((st1.shift 2).lshift 1) h
    (fun acc0 => by rw [lexAll_step, lexStep_crlf_in_brackets st1 hd post])
    (fun _ _ acc0 => by
      -- a comment of the old text swallowed the carriage return: the line feed is skipped next
      have e : dropLine ('\n' :: post) = '\n' :: post := by simp [dropLine]
      rw [e]
      have : 1 + (('\n' :: post).length - ('\n' :: post).length) = 1 := by omega
      rw [this, lexAll_step, lexStep_lf_in_brackets (st1.shift 1) hd post]
      rfl)
  refine ⟨u, es, ?_, ?_⟩
  · rw [lexFrom_eq, reach_lexAll h, lexAll_acc]
  · rw [lexFrom_eq, hnew, lexAll_acc, lexAll_lshift, lexAll_shift]

open Proto in
/-- two texts whose tokens agree up to a point and differ by a constant offset AND a constant number of lines afterwards
    parse alike -/
theorem same_program_of_shift2 (dp dl : Nat) {s s2 post : List Char} {st1 : LexSt} {acc1 : List Token}
    (h : LexReach post LexSt.init s [] st1 acc1)
    (hold : lexFrom LexSt.init s = preOut acc1 (lexAll st1 post []))
    (hnew : lexFrom LexSt.init s2 = preOut acc1 (lshiftOut dl (shiftOut dp (lexAll st1 post [])))) (tree : Op) :
    parseText LexSt.init s2 = .ok tree ↔ parseText LexSt.init s = .ok tree := by
  rw [parseText_ok_iff, parseText_ok_iff, hold, hnew]
  have hlt := reach_pos_lt h (fun t ht => by cases ht)
  have hge : ∀ t ∈ tokensOf (lexAll st1 post []), st1.pos ≤ t.pos :=
    lexAllAux_pos_ge _ st1 post [] st1.pos (Nat.le_refl _) (fun t ht => by cases ht)
  cases hx : lexAll st1 post [] with
  | error p =>
    obtain ⟨e, ts⟩ := p
    simp [preOut, shiftOut, lshiftOut]
  | ok p =>
    obtain ⟨ts2, stf⟩ := p
    rw [hx] at hge
    simp only [tokensOf] at hge
    simp only [preOut, shiftOut, lshiftOut, Except.ok.injEq, Prod.mk.injEq]
    let f : Token → Token := fun t => if st1.pos ≤ t.pos then (t.shift dp).lshift dl else t
    let g : Token → Token := fun t => if st1.pos + dp ≤ t.pos then { t with pos := t.pos - dp, line := t.line - dl } else t
    have hmap : (acc1.reverse ++ ts2).map f = acc1.reverse ++ (ts2.map (Token.shift dp)).map (Token.lshift dl) := by
      rw [List.map_append]
      congr 1
      · have hid : ∀ t ∈ acc1.reverse, f t = id t := by
          intro t ht
          have := hlt t (List.mem_reverse.mp ht)
          show (if st1.pos ≤ t.pos then (t.shift dp).lshift dl else t) = t
          rw [if_neg (by omega)]
        rw [List.map_congr_left hid, List.map_id]
      · rw [List.map_map]
        apply List.map_congr_left
        intro t ht
        show (if st1.pos ≤ t.pos then (t.shift dp).lshift dl else t) = _
        rw [if_pos (hge t ht)]
        rfl
    have key := parse_ok_iff_of_map f g
      (fun t => by show (if st1.pos ≤ t.pos then (t.shift dp).lshift dl else t).ty = t.ty; split <;> rfl)
      (fun t => by show (if st1.pos ≤ t.pos then (t.shift dp).lshift dl else t).val = t.val; split <;> rfl)
      (fun t => by show (if st1.pos + dp ≤ t.pos then ({ t with pos := t.pos - dp, line := t.line - dl } : Token) else t).ty = t.ty; split <;> rfl)
      (fun t => by show (if st1.pos + dp ≤ t.pos then ({ t with pos := t.pos - dp, line := t.line - dl } : Token) else t).val = t.val; split <;> rfl)
      (fun t => by
        show g (f t) = t
        by_cases hp : st1.pos ≤ t.pos
        · have e1 : f t = (t.shift dp).lshift dl := if_pos hp
          rw [e1]
          show (if st1.pos + dp ≤ ((t.shift dp).lshift dl).pos then
            ({ ((t.shift dp).lshift dl) with pos := ((t.shift dp).lshift dl).pos - dp, line := ((t.shift dp).lshift dl).line - dl } : Token)
            else (t.shift dp).lshift dl) = t
          have : st1.pos + dp ≤ ((t.shift dp).lshift dl).pos := by simp [Token.shift, Token.lshift]; omega
          rw [if_pos this]
          cases t; simp [Token.shift, Token.lshift]
        · have e1 : f t = t := if_neg hp
          rw [e1]
          show (if st1.pos + dp ≤ t.pos then ({ t with pos := t.pos - dp, line := t.line - dl } : Token) else t) = t
          rw [if_neg (by omega)])
      (acc1.reverse ++ ts2) tree
    rw [hmap] at key
    constructor
    · rintro ⟨ts, st2, ⟨rfl, _⟩, hp⟩
      exact ⟨_, _, ⟨rfl, rfl⟩, key.mp hp⟩
    · rintro ⟨ts, st2, ⟨rfl, _⟩, hp⟩
      exact ⟨_, _, ⟨rfl, rfl⟩, key.mpr hp⟩

open Proto in
/-- **a line break inside brackets never changes the parsed program** (`\n` and `\r\n`) -/
theorem extra_linebreak_same_program {post s : List Char} {st1 : LexSt} {acc1 : List Token}
    (h : LexReach post LexSt.init s [] st1 acc1) (hd : st1.depth ≠ 0) (tree : Op) :
    ∃ u, s = u ++ post ∧
      (parseText LexSt.init (u ++ '\n' :: post) = .ok tree ↔ parseText LexSt.init s = .ok tree) ∧
      (parseText LexSt.init (u ++ '\r' :: '\n' :: post) = .ok tree ↔ parseText LexSt.init s = .ok tree) := by
  obtain ⟨u, es, hold, hnew⟩ := lex_extra_linefeed h hd
  obtain ⟨u2, es2, _, hnew2⟩ := lex_extra_crlf h hd
  have : u2 = u := List.append_cancel_right (es2.symm.trans es)
  subst this
  exact ⟨u2, es, same_program_of_shift2 1 1 h hold hnew tree, same_program_of_shift2 2 1 h hold hnew2 tree⟩

end Sq
