/-
  SqLemmas/DivLemmas.lean — C08 [B] `div_correct`: the sticky digit of `Decimal.__truediv__`.
  `divPre` computes the integer quotient of suitably scaled coefficients and, when the division is inexact, bumps a last
  digit 0 or 5 by one.  Theorem: rounding THAT number half-even at any digit position k ≥ 1 gives exactly the half-even
  rounding of the TRUE (rational) quotient at that position — so `fix`, which rounds to 28 significant digits, returns
  the correctly rounded exact quotient.
-/
import Sq.Dec
import SqLemmas.DecLemmas
namespace Sq.Dec

/-- half-even rounding of the rational `n / d` to an integer -/
def roundRat (n d : Nat) : Nat :=
  if 2 * (n % d) > d then n / d + 1 else if 2 * (n % d) = d ∧ (n / d) % 2 = 1 then n / d + 1 else n / d

/-- the quotient with its sticky digit, as `divPre` builds it for an inexact division -/
def sticky (num den : Nat) : Nat := if (num / den) % 5 = 0 then num / den + 1 else num / den

theorem pow10_split (k : Nat) (hk : 1 ≤ k) : ∃ h, 10 ^ k = 2 * h ∧ h % 5 = 0 ∧ 0 < h := by
  obtain ⟨j, rfl⟩ : ∃ j, k = j + 1 := ⟨k - 1, by omega⟩
  refine ⟨5 * 10 ^ j, ?_, ?_, ?_⟩
  · rw [Nat.pow_succ]; omega
  · exact Nat.mul_mod_right 5 _
  · have := Nat.pow_pos (n := j) (by decide : 0 < 10); omega

/-- decomposition of the exact quotient: with `q = num / den = Q·p + s` and `0 < r = num % den`,
    `num / (den·p) = Q` and `num % (den·p) = s·den + r` -/
theorem div_mul_decomp (num den p : Nat) (hd : 0 < den) (hp : 0 < p) :
    num / (den * p) = (num / den) / p ∧ num % (den * p) = ((num / den) % p) * den + num % den := by
  have h1 : num / (den * p) = (num / den) / p := (Nat.div_div_eq_div_mul num den p).symm
  refine ⟨h1, ?_⟩
  have e1 := Nat.div_add_mod num (den * p)
  have e2 := Nat.div_add_mod num den
  have e3 := Nat.div_add_mod (num / den) p
  rw [h1] at e1
  -- num = den*p*Q + R  and  num = den*(p*Q + s) + r
  have : den * p * ((num / den) / p) + num % (den * p) = den * (p * ((num / den) / p) + (num / den) % p) + num % den := by
    rw [e1, e3, e2]
  rw [Nat.mul_add, ← Nat.mul_assoc] at this
  have h2 : num % (den * p) = den * ((num / den) % p) + num % den := by omega
  rw [h2, Nat.mul_comm]

/-- the rational rounding, computed: with `q = Q·p + s`, `p = 2h`, `0 < r < den`: round up iff `s ≥ h` (never a tie) -/
theorem roundRat_inexact (num den p h : Nat) (hd : 0 < den) (hp : p = 2 * h) (hh : 0 < h)
    (hr : num % den ≠ 0) :
    roundRat num (den * p) = if (num / den) % p ≥ h then (num / den) / p + 1 else (num / den) / p := by
  have hp0 : 0 < p := by omega
  obtain ⟨e1, e2⟩ := div_mul_decomp num den p hd hp0
  have hrl : num % den < den := Nat.mod_lt _ hd
  have hsl : (num / den) % p < p := Nat.mod_lt _ hp0
  unfold roundRat
  rw [e1, e2]
  generalize (num / den) % p = s at *
  generalize num % den = r at *
  generalize (num / den) / p = Q at *
  have hB : den * p = 2 * (h * den) := by rw [hp]; rw [Nat.mul_comm den, Nat.mul_assoc]
  rw [hB]
  by_cases hs : s ≥ h
  · have hA : h * den ≤ s * den := Nat.mul_le_mul_right den hs
    simp only [hs, if_true]
    have : 2 * (s * den + r) > 2 * (h * den) := by omega
    simp [this]
  · have hs' : s + 1 ≤ h := by omega
    have hA : (s + 1) * den ≤ h * den := Nat.mul_le_mul_right den hs'
    rw [Nat.add_mul, Nat.one_mul] at hA
    simp only [hs, if_false]
    have h1 : ¬ (2 * (s * den + r) > 2 * (h * den)) := by omega
    have h2 : ¬ (2 * (s * den + r) = 2 * (h * den)) := by omega
    simp [h1, h2]

/-- **the sticky digit is enough**: rounding the sticky quotient half-even at digit `k ≥ 1` equals the half-even
    rounding of the exact rational quotient at that digit -/
theorem sticky_round (neg : Bool) (num den k : Nat) (hd : 0 < den) (hk : 1 ≤ k) (hr : num % den ≠ 0) :
    roundDiv .halfEven neg (sticky num den) k = roundRat num (den * 10 ^ k) := by
  obtain ⟨h, hp, h5, hh⟩ := pow10_split k hk
  rw [roundRat_inexact num den (10 ^ k) h hd hp hh hr]
  have hp0 : 0 < 10 ^ k := by omega
  have hp5 : (10 ^ k) % 5 = 0 := by omega
  have hq := Nat.div_add_mod (num / den) (10 ^ k)
  have hsl : (num / den) % (10 ^ k) < 10 ^ k := Nat.mod_lt _ hp0
  have hs5 : ((num / den) % (10 ^ k)) % 5 = (num / den) % 5 :=
    Nat.mod_mod_of_dvd _ (Nat.dvd_of_mod_eq_zero hp5)
  unfold sticky roundDiv
  generalize hqq : num / den = q at *
  generalize hP : 10 ^ k = P at *
  by_cases h0 : q % 5 = 0
  · -- the last digit was 0 or 5: the quotient was bumped by one
    simp only [h0, if_true]
    have hs1 : q % P + 1 < P := by omega
    have ediv : (q + 1) / P = q / P := by
      have : q + 1 = (q % P + 1) + P * (q / P) := by omega
      rw [this, Nat.add_mul_div_left _ _ hp0, Nat.div_eq_of_lt hs1, Nat.zero_add]
    have emod : (q + 1) % P = q % P + 1 := by
      have : q + 1 = (q % P + 1) + P * (q / P) := by omega
      rw [this, Nat.add_mul_mod_self_left, Nat.mod_eq_of_lt hs1]
    simp only [ediv, emod]
    by_cases hs : q % P ≥ h
    · have : 2 * (q % P + 1) > P := by omega
      simp [this, hs]
    · have h1 : ¬ (2 * (q % P + 1) > P) := by omega
      have h2 : ¬ (2 * (q % P + 1) = P) := by omega
      simp [h1, h2, hs]
  · simp only [h0, if_false]
    have hne : q % P ≠ h := by
      intro e; rw [e] at hs5; omega
    by_cases hs : q % P ≥ h
    · have : 2 * (q % P) > P := by omega
      simp [this, hs]
    · have h1 : ¬ (2 * (q % P) > P) := by omega
      have h2 : ¬ (2 * (q % P) = P) := by omega
      simp [h1, h2, hs]

/-- the exact case: when the division leaves no remainder the quotient is exact, and rounding it is rounding the true
    quotient -/
theorem exact_round (neg : Bool) (num den k : Nat) (hd : 0 < den) (hr : num % den = 0) :
    roundDiv .halfEven neg (num / den) k = roundRat num (den * 10 ^ k) := by
  have hp0 : 0 < 10 ^ k := Nat.pow_pos (by decide)
  obtain ⟨e1, e2⟩ := div_mul_decomp num den (10 ^ k) hd hp0
  unfold roundRat roundDiv
  rw [e1, e2, hr, Nat.add_zero]
  dsimp only
  generalize (num / den) % 10 ^ k = s
  generalize (num / den) / 10 ^ k = Q
  generalize 10 ^ k = P
  have key : ∀ (x y : Nat), (2 * (x * den) > den * y ↔ 2 * x > y) ∧ (2 * (x * den) = den * y ↔ 2 * x = y) := by
    intro x y
    have e : 2 * (x * den) = den * (2 * x) := by rw [Nat.mul_comm x den, ← Nat.mul_assoc, Nat.mul_comm 2 den, Nat.mul_assoc]
    rw [e]
    exact ⟨⟨fun h => Nat.lt_of_mul_lt_mul_left h, fun h => Nat.mul_lt_mul_of_pos_left h hd⟩,
           ⟨fun h => Nat.eq_of_mul_eq_mul_left hd h, fun h => by rw [h]⟩⟩
  simp only [(key s P).1, (key s P).2]

/-- the scaled integers `__truediv__` divides: `a / b = (divNum a b / divDen a b) · 10^(divExp a b)` exactly -/
def divShift (a b : Dec) : Int := (ndigits b.coeff : Int) - (ndigits a.coeff : Int) + prec + 1
def divNum (a b : Dec) : Nat := if divShift a b ≥ 0 then a.coeff * 10 ^ (divShift a b).toNat else a.coeff
def divDen (a b : Dec) : Nat := if divShift a b ≥ 0 then b.coeff else b.coeff * 10 ^ (-(divShift a b)).toNat
def divExp (a b : Dec) : Int := a.exp - b.exp - divShift a b

theorem divDen_pos (a b : Dec) (hb : b.coeff ≠ 0) : 0 < divDen a b := by
  unfold divDen
  split
  · omega
  · exact Nat.mul_pos (by omega) (Nat.pow_pos (by decide))

/-- what `divPre` returns for an inexact division: the sticky quotient at exponent `divExp` -/
theorem divPre_inexact (a b : Dec) (ha : a.coeff ≠ 0) (hr : divNum a b % divDen a b ≠ 0) :
    divPre a b = { neg := a.neg != b.neg, coeff := sticky (divNum a b) (divDen a b), exp := divExp a b } := by
  unfold divPre
  simp only [ha, if_false]
  have h1 : (if (ndigits b.coeff : Int) - (ndigits a.coeff : Int) + prec + 1 ≥ 0
      then a.coeff * 10 ^ ((ndigits b.coeff : Int) - (ndigits a.coeff : Int) + prec + 1).toNat else a.coeff) = divNum a b := rfl
  have h2 : (if (ndigits b.coeff : Int) - (ndigits a.coeff : Int) + prec + 1 ≥ 0
      then b.coeff else b.coeff * 10 ^ (-((ndigits b.coeff : Int) - (ndigits a.coeff : Int) + prec + 1)).toNat) = divDen a b := rfl
  rw [h1, h2]
  simp only [hr, ne_eq, not_false_eq_true, if_true]
  rfl

/-- **div_correct**: for an inexact division, rounding what `divPre` computed half-even at any digit position
    `k ≥ 1` — which is what `fix` does to bring it to 28 significant digits — yields exactly the half-even rounding,
    at that position, of the TRUE quotient `divNum / divDen` -/
theorem div_rounding_correct (a b : Dec) (ha : a.coeff ≠ 0) (hb : b.coeff ≠ 0)
    (hr : divNum a b % divDen a b ≠ 0) (k : Nat) (hk : 1 ≤ k) :
    roundDiv .halfEven (divPre a b).neg (divPre a b).coeff k = roundRat (divNum a b) (divDen a b * 10 ^ k) := by
  rw [divPre_inexact a b ha hr]
  exact sticky_round _ _ _ k (divDen_pos a b hb) hk hr

theorem pow_pred_ndigits_le (n : Nat) (hn : 0 < n) : 10 ^ (ndigits n - 1) ≤ n := by
  by_cases h1 : ndigits n - 1 = 0
  · rw [h1, Nat.pow_zero]; exact hn
  · exact pow_le_of_lt_ndigits n (ndigits n - 1) (by omega) (by have := ndigits_pos n; omega)

theorem ndigits_ge_of_pow_le (n k : Nat) (h : 10 ^ k ≤ n) : k + 1 ≤ ndigits n := by
  by_cases hc : k + 1 ≤ ndigits n
  · exact hc
  · exfalso
    have h1 : n < 10 ^ ndigits n := lt_pow_ndigits n
    have h2 : 10 ^ ndigits n ≤ 10 ^ k := Nat.pow_le_pow_right (by decide) (by omega)
    omega

/-- the scaled quotient has at least 29 digits: `fix` always has at least one digit to round away -/
theorem div_quot_big (a b : Dec) (ha : a.coeff ≠ 0) (hb : b.coeff ≠ 0) : 10 ^ 28 ≤ divNum a b / divDen a b := by
  have hden := divDen_pos a b hb
  rw [Nat.le_div_iff_mul_le hden]
  have ha1 := pow_pred_ndigits_le a.coeff (by omega)
  have hb1 := lt_pow_ndigits b.coeff
  have hla := ndigits_pos a.coeff
  have hlb := ndigits_pos b.coeff
  unfold divNum divDen divShift prec
  split
  · rename_i hs
    -- shift ≥ 0: num = a·10^s with (la - 1) + s = lb + 28
    generalize hsv : ((ndigits b.coeff : Int) - (ndigits a.coeff : Int) + (28 : Nat) + 1).toNat = sh
    have e : ndigits a.coeff - 1 + sh = ndigits b.coeff + 28 := by omega
    calc 10 ^ 28 * b.coeff ≤ 10 ^ 28 * 10 ^ ndigits b.coeff := Nat.mul_le_mul_left _ (Nat.le_of_lt hb1)
      _ = 10 ^ (ndigits a.coeff - 1 + sh) := by rw [← Nat.pow_add, e, Nat.add_comm]
      _ = 10 ^ (ndigits a.coeff - 1) * 10 ^ sh := Nat.pow_add _ _ _
      _ ≤ a.coeff * 10 ^ sh := Nat.mul_le_mul_right _ ha1
  · rename_i hs
    generalize hsv : (-((ndigits b.coeff : Int) - (ndigits a.coeff : Int) + (28 : Nat) + 1)).toNat = t
    have e : ndigits b.coeff + t + 28 = ndigits a.coeff - 1 := by omega
    calc 10 ^ 28 * (b.coeff * 10 ^ t) ≤ 10 ^ 28 * (10 ^ ndigits b.coeff * 10 ^ t) :=
          Nat.mul_le_mul_left _ (Nat.mul_le_mul_right _ (Nat.le_of_lt hb1))
      _ = 10 ^ (ndigits a.coeff - 1) := by rw [← Nat.pow_add, ← Nat.pow_add, ← e]; congr 1; omega
      _ ≤ a.coeff := ha1

theorem sticky_ge (num den : Nat) : num / den ≤ sticky num den := by
  unfold sticky; split <;> omega

/-- hence the value `divPre` hands to `fix` has at least 29 significant digits -/
theorem divPre_digits (a b : Dec) (ha : a.coeff ≠ 0) (hb : b.coeff ≠ 0) (hr : divNum a b % divDen a b ≠ 0) :
    29 ≤ ndigits (divPre a b).coeff := by
  rw [divPre_inexact a b ha hr]
  exact ndigits_ge_of_pow_le _ 28 (Nat.le_trans (div_quot_big a b ha hb) (sticky_ge _ _))

end Sq.Dec
