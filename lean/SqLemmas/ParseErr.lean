/-
  SqLemmas/ParseErr.lean — C20 [B]: the token a syntax error is reported at is a token of the text.
  Whatever error `parseTokens` returns, the `rest` it carries (whose head the message names, `[]` = end of input)
  is a SUFFIX of the token list, and a reserved-word / bad-number error names a token of the list.
  Same organisation as ParseSound: `Esnd f` bundles the statements at fuel `f`.
-/
import SqLemmas.ParseSound
namespace Sq

/-- the error refers to the given token list only -/
def ErrOK (ts : List Token) : PErr → Prop
  | .syn rest => ∃ pre, ts = pre ++ rest
  | .res t => t ∈ ts
  | .badnum t => t ∈ ts
  | .fuel => True

theorem errOK_mono {ts ts' : List Token} {e : PErr} (pre : List Token) (h : ts = pre ++ ts') (he : ErrOK ts' e) :
    ErrOK ts e := by
  cases e with
  | syn rest => obtain ⟨p, hp⟩ := he; exact ⟨pre ++ p, by rw [h, hp, List.append_assoc]⟩
  | res t => rw [h]; exact List.mem_append_right _ he
  | badnum t => rw [h]; exact List.mem_append_right _ he
  | fuel => trivial

theorem errOK_self (ts : List Token) : ErrOK ts (.syn ts) := ⟨[], rfl⟩
theorem errOK_nil (ts : List Token) : ErrOK ts (.syn []) := ⟨ts, by simp⟩
theorem errOK_tail (t : Token) (ts : List Token) : ErrOK (t :: ts) (.syn ts) := ⟨[t], rfl⟩

structure Esnd (f : Nat) : Prop where
  expr : ∀ m a ts e, pExpr f m a ts = .error e → ErrOK ts e
  loop : ∀ m a l b0 ts e, pLoop f m a l b0 ts = .error e → ErrOK ts e
  args : ∀ close ts e, pArgs f close ts = .error e → ErrOK ts e
  argsTail : ∀ close acc ts e, pArgsTail f close acc ts = .error e → ErrOK ts e
  dict : ∀ acc ts e, pDictItems f acc ts = .error e → ErrOK ts e
  params : ∀ acc ts e, pParams f acc ts = .error e → ErrOK ts e
  sub : ∀ ts e, pSubscript f ts = .error e → ErrOK ts e
  pre : ∀ ts e, pPrefix f ts = .error e → ErrOK ts e

theorem esnd_zero : Esnd 0 := by
  constructor <;> intros <;> rename_i h
  · rw [pExpr] at h; cases h; trivial
  · rw [pLoop] at h; cases h; trivial
  · rw [pArgs] at h; cases h; trivial
  · rw [pArgsTail] at h; cases h; trivial
  · rw [pDictItems] at h; cases h; trivial
  · rw [pParams] at h; cases h; trivial
  · rw [pSubscript] at h; cases h; trivial
  · rw [pPrefix] at h; cases h; trivial

/-- what a successful sub-parse tells about its remainder -/
theorem ok_suffix_expr {f m : Nat} {a : Assoc} {ts : List Token} {t : Op} {b : Bool} {tl : List Token}
    (h : pExpr f m a ts = .ok ((t, b), tl)) : ∃ pre, ts = pre ++ tl := by
  obtain ⟨ts0, e, _⟩ := (snd_all f).expr _ _ _ _ _ _ h; exact ⟨ts0, e⟩

theorem eat_err {ty : Tk} {ts : List Token} {e : PErr} (h : eat ty ts = .error e) : ErrOK ts e := by
  cases ts with
  | nil => simp only [eat] at h; cases h; exact errOK_nil _
  | cons x xs =>
    simp only [eat] at h
    split at h
    · cases h
    · cases h; exact errOK_self _

/-- chaining: an error of a later stage, on the remainder of an earlier successful stage -/
theorem errOK_after {ts tl : List Token} {e : PErr} (hs : ∃ pre, ts = pre ++ tl) (he : ErrOK tl e) : ErrOK ts e := by
  obtain ⟨pre, h⟩ := hs; exact errOK_mono pre h he

theorem err_inj {α : Type} {e e' : PErr} (h : (Except.error e : PR α) = .error e') : e = e' := by
  injection h

abbrev Sfx (ts tl : List Token) : Prop := ∃ pre, ts = pre ++ tl

theorem Sfx.refl (ts : List Token) : Sfx ts ts := ⟨[], rfl⟩
theorem Sfx.trans {a b c : List Token} (h1 : Sfx a b) (h2 : Sfx b c) : Sfx a c := by
  obtain ⟨p, hp⟩ := h1; obtain ⟨q, hq⟩ := h2
  exact ⟨p ++ q, by rw [hp, hq, List.append_assoc]⟩
theorem Sfx.cons (t : Token) (ts : List Token) : Sfx (t :: ts) ts := ⟨[t], rfl⟩
theorem Sfx.cons_of {t : Token} {ts tl : List Token} (h : Sfx ts tl) : Sfx (t :: ts) tl := (Sfx.cons t ts).trans h

theorem sfx_expr {f m : Nat} {a : Assoc} {ts : List Token} {r : Op × Bool} {tl : List Token}
    (h : pExpr f m a ts = .ok (r, tl)) : Sfx ts tl := by
  obtain ⟨t, b⟩ := r
  obtain ⟨ts0, e, _⟩ := (snd_all f).expr _ _ _ _ _ _ h; exact ⟨ts0, e⟩
theorem sfx_pre {f : Nat} {ts : List Token} {t : Op} {tl : List Token} (h : pPrefix f ts = .ok (t, tl)) : Sfx ts tl := by
  obtain ⟨ts0, e, _⟩ := (snd_all f).pre _ _ _ h; exact ⟨ts0, e⟩
theorem sfx_args {f : Nat} {c : Tk} {ts : List Token} {o : List Op} {tl : List Token}
    (h : pArgs f c ts = .ok (o, tl)) : Sfx ts tl := by
  obtain ⟨ts0, e, _⟩ := (snd_all f).args _ _ _ _ h; exact ⟨ts0, e⟩
theorem sfx_params {f : Nat} {acc : List Op} {ts : List Token} {o : List Op} {tl : List Token}
    (h : pParams f acc ts = .ok (o, tl)) : Sfx ts tl := by
  obtain ⟨ts0, e, _⟩ := (snd_all f).params _ _ _ _ h; exact ⟨ts0, e⟩
theorem sfx_sub {f : Nat} {ts : List Token} {r : Op × Bool} {tl : List Token}
    (h : pSubscript f ts = .ok (r, tl)) : Sfx ts tl := by
  obtain ⟨k, pl⟩ := r
  obtain ⟨ts0, e, _⟩ := (snd_all f).sub _ _ _ _ h; exact ⟨ts0, e⟩
theorem sfx_eat {ty : Tk} {ts : List Token} {t : Token} {r : List Token} (h : eat ty ts = .ok (t, r)) : Sfx ts r := by
  obtain ⟨e, _⟩ := eat_inv h; exact ⟨[t], by rw [e]; rfl⟩
theorem sfx_tail (ts : List Token) : Sfx ts ts.tail := by
  cases ts with
  | nil => exact ⟨[], rfl⟩
  | cons t r => exact Sfx.cons t r

theorem errOK_sfx {ts tl : List Token} {e : PErr} (hs : Sfx ts tl) (he : ErrOK tl e) : ErrOK ts e := errOK_after hs he
theorem errOK_syn {ts tl : List Token} (hs : Sfx ts tl) : ErrOK ts (.syn tl) := hs

theorem eExpr_step {f : Nat} (E : Esnd f) : ∀ m a ts e, pExpr (f + 1) m a ts = .error e → ErrOK ts e := by
  intro m a ts e h
  rw [pExpr] at h
  split at h
  · rename_i e' hp
    cases h
    exact E.pre _ _ hp
  · rename_i lhs ts' hp
    exact errOK_sfx (sfx_pre hp) (E.loop _ _ _ _ _ _ h)

theorem eLoop_step {f : Nat} (E : Esnd f) : ∀ m a l b0 ts e, pLoop (f + 1) m a l b0 ts = .error e → ErrOK ts e := by
  intro m a l b0 ts e h
  unfold pLoop at h
  split at h
  · cases h
  · rename_i o rest
    split at h
    · cases h
    · cases h; exact errOK_self _
    · split at h
      · split at h
        · rename_i e' he; cases h
          exact errOK_sfx (Sfx.cons _ _) (E.expr _ _ _ _ he)
        · rename_i rhs br ts' he
          exact errOK_sfx ((Sfx.cons _ _).trans (sfx_expr he)) (E.loop _ _ _ _ _ _ h)
      · split at h
        · split at h
          · rename_i e' he; cases h
            exact errOK_sfx (Sfx.cons _ _) (eat_err he)
          · rename_i i r2 hi
            have s2 : Sfx (o :: rest) r2 := (Sfx.cons _ _).trans (sfx_eat hi)
            split at h
            · rename_i e' he; cases h
              exact errOK_sfx s2 (E.expr _ _ _ _ he)
            · rename_i rhs br ts' he
              exact errOK_sfx (s2.trans (sfx_expr he)) (E.loop _ _ _ _ _ _ h)
        · split at h
          · split at h
            · rename_i e' he; cases h
              exact errOK_sfx (Sfx.cons _ _) (E.expr _ _ _ _ he)
            · rename_i c bc r2 hc
              have s2 : Sfx (o :: rest) r2 := (Sfx.cons _ _).trans (sfx_expr hc)
              split at h
              · rename_i e' he; cases h
                exact errOK_sfx s2 (eat_err he)
              · rename_i el r3 hel
                have s3 := s2.trans (sfx_eat hel)
                split at h
                · rename_i e' he; cases h
                  exact errOK_sfx s3 (E.expr _ _ _ _ he)
                · rename_i e2 be ts' he2
                  exact errOK_sfx (s3.trans (sfx_expr he2)) (E.loop _ _ _ _ _ _ h)
          · split at h
            · split at h
              · rename_i e' he; cases h
                exact errOK_sfx (Sfx.cons _ _) (E.sub _ _ he)
              · rename_i k plain ts' hsub
                exact errOK_sfx ((Sfx.cons _ _).trans (sfx_sub hsub)) (E.loop _ _ _ _ _ _ h)
            · split at h
              · split at h
                · rename_i e' he; cases h
                  exact errOK_sfx (Sfx.cons _ _) (eat_err he)
                · rename_i n r2 hn
                  have s2 : Sfx (o :: rest) r2 := (Sfx.cons _ _).trans (sfx_eat hn)
                  split at h
                  · rename_i e' he; cases h
                    exact errOK_sfx s2 (eat_err he)
                  · rename_i lp r3 hlp
                    have s3 := s2.trans (sfx_eat hlp)
                    split at h
                    · exact errOK_sfx (s3.trans (sfx_tail _)) (E.loop _ _ _ _ _ _ h)
                    · split at h
                      · rename_i e' he; cases h
                        exact errOK_sfx s3 (E.args _ _ _ he)
                      · rename_i args ts' ha
                        exact errOK_sfx (s3.trans (sfx_args ha)) (E.loop _ _ _ _ _ _ h)
              · split at h
                · rename_i e' he; cases h
                  exact errOK_sfx (Sfx.cons _ _) (eat_err he)
                · rename_i n r2 hn
                  have s2 : Sfx (o :: rest) r2 := (Sfx.cons _ _).trans (sfx_eat hn)
                  split at h
                  · split at h
                    · rename_i e' he; cases h
                      exact errOK_sfx (s2.trans (sfx_tail _)) (E.args _ _ _ he)
                    · rename_i args ts' ha
                      exact errOK_sfx ((s2.trans (sfx_tail _)).trans (sfx_args ha)) (E.loop _ _ _ _ _ _ h)
                  · exact errOK_sfx s2 (E.loop _ _ _ _ _ _ h)

theorem sfx_argsTail {f : Nat} {c : Tk} {acc : List Op} {ts : List Token} {o : List Op} {tl : List Token}
    (h : pArgsTail f c acc ts = .ok (o, tl)) : Sfx ts tl := by
  obtain ⟨ts0, e, _⟩ := (snd_all f).argsTail _ _ _ _ _ h; exact ⟨ts0, e⟩
theorem sfx_dict {f : Nat} {acc : List Op} {ts : List Token} {o : List Op} {tl : List Token}
    (h : pDictItems f acc ts = .ok (o, tl)) : Sfx ts tl := by
  obtain ⟨ts0, e, _⟩ := (snd_all f).dict _ _ _ _ h; exact ⟨ts0, e⟩

theorem eArgsTail_step {f : Nat} (E : Esnd f) : ∀ close acc ts e, pArgsTail (f + 1) close acc ts = .error e → ErrOK ts e := by
  intro close acc ts e h
  unfold pArgsTail at h
  split at h
  · cases h; exact errOK_nil _
  · rename_i t rest
    split at h
    · split at h
      · cases h
      · split at h
        · rename_i e' he; cases h
          exact errOK_sfx (Sfx.cons _ _) (E.expr _ _ _ _ he)
        · rename_i x bx ts' he
          exact errOK_sfx ((Sfx.cons _ _).trans (sfx_expr he)) (E.argsTail _ _ _ _ h)
    · split at h
      · cases h
      · cases h; exact errOK_self _

theorem eArgs_step {f : Nat} (E : Esnd f) : ∀ close ts e, pArgs (f + 1) close ts = .error e → ErrOK ts e := by
  intro close ts e h
  rw [pArgs] at h
  split at h
  · rename_i e' he; cases h; exact E.expr _ _ _ _ he
  · rename_i x bx ts' he
    exact errOK_sfx (sfx_expr he) (E.argsTail _ _ _ _ h)

theorem eDict_step {f : Nat} (E : Esnd f) : ∀ acc ts e, pDictItems (f + 1) acc ts = .error e → ErrOK ts e := by
  intro acc ts e h
  rw [pDictItems] at h
  split at h
  · rename_i e' he; cases h; exact E.expr _ _ _ _ he
  · rename_i k bk r1 hk
    have s1 := sfx_expr hk
    split at h
    · rename_i e' he; cases h; exact errOK_sfx s1 (eat_err he)
    · rename_i col r2 hcol
      have s2 := s1.trans (sfx_eat hcol)
      split at h
      · rename_i e' he; cases h; exact errOK_sfx s2 (E.expr _ _ _ _ he)
      · rename_i v bv r3 hv
        have s3 := s2.trans (sfx_expr hv)
        simp only at h
        split at h
        · cases h; exact errOK_sfx s3 (errOK_nil _)
        · rename_i t rest
          split at h
          · cases h
          · split at h
            · split at h
              · cases h
              · exact errOK_sfx (s3.trans (Sfx.cons _ _)) (E.dict _ _ _ h)
            · cases h; exact errOK_sfx s3 (errOK_self _)

theorem eParams_more {f : Nat} (E : Esnd f) (acc : List Op) (ts : List Token) (e : PErr)
    (h : (match pExpr f 0 .right ts with
          | .error e => Except.error e
          | .ok ((x, _), r1) =>
            match eat .COMMA r1 with
            | .error e => Except.error e
            | .ok (_, r2) => pParams f (x :: acc) r2 : PR (List Op)) = .error e) : ErrOK ts e := by
  split at h
  · rename_i e' he; cases h; exact E.expr _ _ _ _ he
  · rename_i x bx r1 he
    have s1 := sfx_expr he
    split at h
    · rename_i e' hc; cases h; exact errOK_sfx s1 (eat_err hc)
    · rename_i cm r2 hcm
      exact errOK_sfx (s1.trans (sfx_eat hcm)) (E.params _ _ _ h)

theorem eParams_step {f : Nat} (E : Esnd f) : ∀ acc ts e, pParams (f + 1) acc ts = .error e → ErrOK ts e := by
  intro acc ts e h
  unfold pParams at h
  split at h
  · split at h
    · cases h
    · exact eParams_more E acc _ e h
  · exact eParams_more E acc _ e h

theorem eSub_step {f : Nat} (E : Esnd f) : ∀ ts e, pSubscript (f + 1) ts = .error e → ErrOK ts e := by
  intro ts e h
  rw [pSubscript] at h
  split at h
  · have st := sfx_tail ts
    by_cases hrb : peekTy ts.tail = some .RBRACKET
    · simp only [hrb, if_true] at h; cases h
    · simp only [hrb, if_false] at h
      by_cases hc2 : peekTy ts.tail = some .COLON
      · simp only [hc2, if_true] at h
        have st2 := st.trans (sfx_tail ts.tail)
        split at h
        · rename_i e' he; cases h; exact errOK_sfx st2 (E.expr _ _ _ _ he)
        · rename_i x bx r2 he
          split at h
          · rename_i e' hb; cases h; exact errOK_sfx (st2.trans (sfx_expr he)) (eat_err hb)
          · cases h
      · simp only [hc2, if_false] at h
        split at h
        · rename_i e' he; cases h; exact errOK_sfx st (E.expr _ _ _ _ he)
        · rename_i x bx r2 he
          have s2 := st.trans (sfx_expr he)
          split at h
          · split at h
            · rename_i e' hb; cases h; exact errOK_sfx (s2.trans (sfx_tail _)) (eat_err hb)
            · cases h
          · split at h
            · rename_i e' hb; cases h; exact errOK_sfx s2 (eat_err hb)
            · cases h
  · split at h
    · rename_i e' he; cases h; exact E.expr _ _ _ _ he
    · rename_i x bx r1 he
      have s1 := sfx_expr he
      split at h
      · cases h
      · split at h
        · rename_i e' hc; cases h; exact errOK_sfx s1 (eat_err hc)
        · rename_i c r2 hcol
          have s2 := s1.trans (sfx_eat hcol)
          split at h
          · cases h
          · split at h
            · split at h
              · rename_i e' hb; cases h; exact errOK_sfx (s2.trans (sfx_tail _)) (eat_err hb)
              · cases h
            · split at h
              · rename_i e' he2; cases h; exact errOK_sfx s2 (E.expr _ _ _ _ he2)
              · rename_i x2 bx2 r3 he2
                split at h
                · rename_i e' hb; cases h; exact errOK_sfx (s2.trans (sfx_expr he2)) (eat_err hb)
                · cases h

theorem ePrefix_step {f : Nat} (E : Esnd f) : ∀ ts e, pPrefix (f + 1) ts = .error e → ErrOK ts e := by
  intro ts e h
  unfold pPrefix at h
  split at h
  · cases h; exact errOK_nil _
  · rename_i o rest
    split at h
    · split at h
      · cases h; exact List.mem_cons_self
      · cases h; exact errOK_tail _ _
    · split at h
      · split at h
        · cases h
        · cases h; exact List.mem_cons_self
      · cases h
      · cases h
      · cases h
      · cases h
      · -- NAME
        by_cases hlp : peekTy rest = some .LPAREN
        · simp only [hlp, if_true] at h
          have s1 : Sfx (o :: rest) rest.tail := (Sfx.cons _ _).trans (sfx_tail _)
          by_cases hrp : peekTy rest.tail = some .RPAREN
          · simp only [hrp, if_true] at h; cases h
          · simp only [hrp, if_false] at h
            split at h
            · rename_i e' he; cases h; exact errOK_sfx s1 (E.args _ _ _ he)
            · cases h
        · simp only [hlp, if_false] at h
          by_cases hlam : peekTy rest = some .LAMBDA
          · simp only [hlam, if_true] at h
            split at h
            · rename_i e' he; cases h
              exact errOK_sfx ((Sfx.cons _ _).trans (sfx_tail _)) (E.expr _ _ _ _ he)
            · cases h
          · simp only [hlam, if_false] at h; cases h
      · -- LPAREN
        split at h
        · rename_i e' he; cases h; exact errOK_sfx (Sfx.cons _ _) (E.expr _ _ _ _ he)
        · rename_i x bx r1 he
          have s1 : Sfx (o :: rest) r1 := (Sfx.cons _ _).trans (sfx_expr he)
          split at h
          · cases h
          · split at h
            · rename_i e' hc; cases h; exact errOK_sfx s1 (eat_err hc)
            · rename_i cm r2 hcm
              have s2 := s1.trans (sfx_eat hcm)
              split at h
              · rename_i e' hp; cases h; exact errOK_sfx s2 (E.params _ _ _ hp)
              · rename_i ps r3 hps
                have s3 := s2.trans (sfx_params hps)
                split at h
                · rename_i e' hl; cases h; exact errOK_sfx s3 (eat_err hl)
                · rename_i lam r4 hlam
                  split at h
                  · rename_i e' hb; cases h; exact errOK_sfx (s3.trans (sfx_eat hlam)) (E.expr _ _ _ _ hb)
                  · cases h
      · -- LBRACKET
        split at h
        · cases h
        · split at h
          · rename_i e' he; cases h; exact errOK_sfx (Sfx.cons _ _) (E.args _ _ _ he)
          · cases h
      · -- LBRACE
        split at h
        · cases h
        · split at h
          · rename_i e' he; cases h; exact errOK_sfx (Sfx.cons _ _) (E.dict _ _ _ he)
          · cases h
      · -- MINUS
        split at h
        · rename_i e' he; cases h; exact errOK_sfx (Sfx.cons _ _) (E.expr _ _ _ _ he)
        · cases h
      · -- NOT
        split at h
        · rename_i e' he; cases h; exact errOK_sfx (Sfx.cons _ _) (E.expr _ _ _ _ he)
        · cases h
      · cases h; exact errOK_self _

theorem esnd_succ {f : Nat} (E : Esnd f) : Esnd (f + 1) :=
  ⟨eExpr_step E, eLoop_step E, eArgs_step E, eArgsTail_step E, eDict_step E, eParams_step E, eSub_step E, ePrefix_step E⟩

theorem esnd_all : ∀ f, Esnd f
  | 0 => esnd_zero
  | f + 1 => esnd_succ (esnd_all f)

theorem eExpr {f m : Nat} {a : Assoc} {ts : List Token} {e : PErr} (h : pExpr f m a ts = .error e) : ErrOK ts e :=
  (esnd_all f).expr _ _ _ _ h

theorem sfx_stmt {f : Nat} {ts : List Token} {s : Option Op} {tl : List Token} (h : pStatement f ts = .ok (s, tl)) :
    Sfx ts tl := by
  unfold pStatement at h
  split at h
  · obtain ⟨_, e2⟩ := ok_inj h; subst e2; exact Sfx.refl _
  · rename_i t rest
    split at h
    · obtain ⟨_, e2⟩ := ok_inj h; subst e2; exact Sfx.refl _
    · split at h
      · split at h
        · cases h
        · rename_i v bv ts' hv
          obtain ⟨_, e2⟩ := ok_inj h; subst e2
          exact ((Sfx.cons _ _).trans (sfx_tail _)).trans (sfx_expr hv)
      · split at h
        · split at h
          · rename_i o r2
            split at h
            · cases h
            · split at h
              · cases h
              · rename_i v bv ts' hv
                obtain ⟨_, e2⟩ := ok_inj h; subst e2
                exact ((Sfx.cons _ _).trans (Sfx.cons _ _)).trans (sfx_expr hv)
          · cases h
        · split at h
          · split at h
            · cases h
            · rename_i x tx ts' hx
              split at h
              · obtain ⟨_, e2⟩ := ok_inj h; subst e2
                exact (Sfx.cons _ _).trans (sfx_expr hx)
              · cases h
          · split at h
            · cases h
            · rename_i x tx ts' hx
              have s1 := sfx_expr hx
              split at h
              · rename_i c k o r2 hi
                split at h
                · split at h
                  · cases h
                  · rename_i v bv r3 hv
                    obtain ⟨_, e2⟩ := ok_inj h; subst e2
                    exact (s1.trans (Sfx.cons _ _)).trans (sfx_expr hv)
                · split at h
                  · split at h
                    · cases h
                    · rename_i v bv r3 hv
                      obtain ⟨_, e2⟩ := ok_inj h; subst e2
                      exact (s1.trans (Sfx.cons _ _)).trans (sfx_expr hv)
                  · obtain ⟨_, e2⟩ := ok_inj h; subst e2; exact s1
              · obtain ⟨_, e2⟩ := ok_inj h; subst e2; exact s1

theorem eStmt {f : Nat} {ts : List Token} {e : PErr} (h : pStatement f ts = .error e) : ErrOK ts e := by
  unfold pStatement at h
  split at h
  · cases h
  · rename_i t rest
    split at h
    · cases h
    · split at h
      · split at h
        · rename_i e' he; cases h
          exact errOK_sfx ((Sfx.cons _ _).trans (sfx_tail _)) (eExpr he)
        · cases h
      · split at h
        · split at h
          · rename_i o r2
            split at h
            · cases h; exact errOK_tail _ _
            · split at h
              · rename_i e' he; cases h
                exact errOK_sfx ((Sfx.cons _ _).trans (Sfx.cons _ _)) (eExpr he)
              · cases h
          · cases h; exact errOK_nil _
        · split at h
          · split at h
            · rename_i e' he; cases h; exact errOK_sfx (Sfx.cons _ _) (eExpr he)
            · rename_i x tx ts' hx
              split at h
              · cases h
              · cases h; exact errOK_syn ((Sfx.cons _ _).trans (sfx_expr hx))
          · split at h
            · rename_i e' he; cases h; exact eExpr he
            · rename_i x tx ts' hx
              have s1 := sfx_expr hx
              split at h
              · rename_i c k o r2 hi
                split at h
                · split at h
                  · rename_i e' he; cases h; exact errOK_sfx (s1.trans (Sfx.cons _ _)) (eExpr he)
                  · cases h
                · split at h
                  · split at h
                    · rename_i e' he; cases h; exact errOK_sfx (s1.trans (Sfx.cons _ _)) (eExpr he)
                    · cases h
                  · cases h
              · cases h

theorem eCode : ∀ (n f : Nat) (acc : List Op) (ts : List Token) (e : PErr), pCode n f acc ts = .error e → ErrOK ts e
  | 0, _, _, _, _, h => by rw [pCode] at h; cases h; trivial
  | n + 1, f, acc, ts, e, h => by
    rw [pCode] at h
    split at h
    · rename_i e' he; cases h; exact eStmt he
    · rename_i s ts' hs
      have s1 := sfx_stmt hs
      simp only at h
      split at h
      · cases h
      · rename_i t rest
        split at h
        · exact errOK_sfx (s1.trans (Sfx.cons _ _)) (eCode n f _ rest e h)
        · cases h; exact errOK_syn s1

/-- **the reported token is a token of the text**: whatever error the parser returns for a token list, the
    remainder it points at is a suffix of that list (its head is the offending token; `[]` means the end of the
    input was reached), and a reserved-word / unreadable-number error names a token of the list -/
theorem parse_error_in_text {ts : List Token} {e : PErr} (h : parseTokens ts = .error e) : ErrOK ts e := by
  unfold parseTokens at h
  simp only at h
  split at h
  · cases h
  · rename_i e' he
    cases h
    exact eCode _ _ _ _ _ he

end Sq
