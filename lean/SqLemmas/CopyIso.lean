/-
  SqLemmas/CopyIso.lean — C12 [B] `deepcopy_iso`: the copy made by `copy.deepcopy` has the same CONTENT as the original.
  `deepcopy` walks the object graph with a memo (old address ↦ new address).  `Via m v v'`: `v'` is `v` with every address
  replaced through `m`.  Invariant of the walk (`copy_spec`): the result is `Via` of the argument, the memo only grows,
  addresses already in the memo are left alone, and every pair the call added is DONE — the new object is the old one with
  its children replaced through the memo.  Consequence (`deepcopy'_unfold`): original and copy unfold to the same tree at
  every depth (so they are bisimilar as rooted graphs, cycles included).
-/
import Sq.Prim
import SqLemmas.CopyLemmas
set_option autoImplicit false
namespace Sq

abbrev Memo := List (Nat × Nat)

def Memo.get (m : Memo) (a : Nat) : Option (Nat × Nat) := m.find? (fun p => p.1 == a)

/-- `v'` is `v` with every heap address replaced through the memo (all of them are in the memo) -/
inductive Via (m : Memo) : Val → Val → Prop
  | ref {a p} : m.get a = some p → Via m (.ref a) (.ref p.2)
  | tuple {vs vs'} : vs.length = vs'.length → (∀ (i : Nat) (v v' : Val), vs[i]? = some v → vs'[i]? = some v' → Via m v v') →
      Via m (.tuple vs) (.tuple vs')
  | same {v} : (∀ a, v ≠ .ref a) → (∀ vs, v ≠ .tuple vs) → Via m v v

def ViaL (m : Memo) (xs xs' : List Val) : Prop :=
  xs.length = xs'.length ∧ ∀ (i : Nat) (v v' : Val), xs[i]? = some v → xs'[i]? = some v' → Via m v v'

/-- the new object is the old one with its children replaced through the memo; dict keys are kept -/
def ViaObj (m : Memo) : HObj → HObj → Prop
  | .list xs, .list xs' => ViaL m xs xs'
  | .dict kvs, .dict kvs' => kvs.map (·.1) = kvs'.map (·.1) ∧ ViaL m (kvs.map (·.2)) (kvs'.map (·.2))
  | _, _ => False

/-- the memo only grows: what it maps stays mapped the same way -/
def Ext (m m' : Memo) : Prop := ∀ a p, m.get a = some p → m'.get a = some p

theorem Ext.refl (m : Memo) : Ext m m := fun _ _ h => h
theorem Ext.trans {a b c : Memo} (h1 : Ext a b) (h2 : Ext b c) : Ext a c := fun x p h => h2 x p (h1 x p h)

theorem Ext.cons {m : Memo} {a a' : Nat} (h : m.get a = none) : Ext m ((a, a') :: m) := by
  intro x p hx
  unfold Memo.get at *
  rw [List.find?_cons]
  by_cases e : (a == x) = true
  · have : a = x := by simpa using e
    subst this
    rw [h] at hx; cases hx
  · simp only [e]
    exact hx

theorem Via.mono {m m' : Memo} {v v' : Val} (h : Via m v v') (he : Ext m m') : Via m' v v' := by
  induction h with
  | ref hp => exact .ref (he _ _ hp)
  | tuple hl _ ih => exact .tuple hl (fun i v v' h1 h2 => ih i v v' h1 h2)
  | same h1 h2 => exact .same h1 h2

theorem ViaL.mono {m m' : Memo} {xs xs' : List Val} (h : ViaL m xs xs') (he : Ext m m') : ViaL m' xs xs' :=
  ⟨h.1, fun i v v' h1 h2 => (h.2 i v v' h1 h2).mono he⟩

theorem ViaObj.mono {m m' : Memo} {o o' : HObj} (h : ViaObj m o o') (he : Ext m m') : ViaObj m' o o' := by
  cases o <;> cases o' <;> simp only [ViaObj] at h ⊢
  · exact h.mono he
  · exact ⟨h.1, h.2.mono he⟩

theorem ViaL.nil (m : Memo) : ViaL m [] [] := ⟨rfl, fun i v v' h => by simp at h⟩

theorem ViaL.cons {m : Memo} {x x' : Val} {xs xs' : List Val} (h1 : Via m x x') (h2 : ViaL m xs xs') :
    ViaL m (x :: xs) (x' :: xs') := by
  refine ⟨by simp [h2.1], ?_⟩
  intro i v v' hv hv'
  cases i with
  | zero => simp at hv hv'; subst hv; subst hv'; exact h1
  | succ i => simp at hv hv'; exact h2.2 i v v' hv hv'


theorem Memo.get_mem {m : Memo} {a : Nat} {p : Nat × Nat} (h : m.get a = some p) : p ∈ m ∧ p.1 = a := by
  unfold Memo.get at h
  exact ⟨List.mem_of_find?_eq_some h, by simpa using List.find?_some h⟩

theorem Memo.get_cons_self (m : Memo) (a a' : Nat) : Memo.get ((a, a') :: m) a = some (a, a') := by
  simp [Memo.get]

/-- invariant of a copy in progress: `b` is the heap size when the copy started, `h0` the heap then -/
structure CI (b : Nat) (h0 h : Heap) (m : Memo) : Prop where
  old : ∀ x, x < b → h.get? x = h0.get? x
  size : b ≤ h.size
  pairs : ∀ p, p ∈ m → p.1 < b ∧ b ≤ p.2 ∧ p.2 < h.size
  inj : ∀ p q, p ∈ m → q ∈ m → p.2 = q.2 → p = q

/-- the pair is finished: the new object is the old one replaced through the memo -/
def Done (h0 h : Heap) (m : Memo) (p : Nat × Nat) : Prop :=
  ∃ o o', h0.get? p.1 = some o ∧ h.get? p.2 = some o' ∧ ViaObj m o o'

/-- what one call of the walk guarantees -/
structure Spec (b : Nat) (h0 h : Heap) (m : Memo) (h2 : Heap) (m2 : Memo) : Prop where
  ext : Ext m m2
  mem : ∀ p, p ∈ m → p ∈ m2
  ci : CI b h0 h2 m2
  keep : ∀ p, p ∈ m → h2.get? p.2 = h.get? p.2
  fresh : ∀ p, p ∈ m2 → p ∈ m ∨ (h.size ≤ p.2 ∧ Done h0 h2 m2 p)
  grow : h.size ≤ h2.size

theorem Spec.refl {b : Nat} {h0 h : Heap} {m : Memo} (hi : CI b h0 h m) : Spec b h0 h m h m :=
  ⟨Ext.refl m, fun _ hp => hp, hi, fun _ _ => rfl, fun p hp => Or.inl hp, Nat.le_refl _⟩

theorem Done.mono {h0 h h' : Heap} {m m' : Memo} {p : Nat × Nat} (hd : Done h0 h m p) (he : Ext m m')
    (hk : h'.get? p.2 = h.get? p.2) : Done h0 h' m' p := by
  obtain ⟨o, o', h1, h2, h3⟩ := hd
  exact ⟨o, o', h1, by rw [hk]; exact h2, h3.mono he⟩

/-- two calls one after the other -/
theorem Spec.trans {b : Nat} {h0 h h1 h2 : Heap} {m m1 m2 : Memo} (s1 : Spec b h0 h m h1 m1) (s2 : Spec b h0 h1 m1 h2 m2) :
    Spec b h0 h m h2 m2 := by
  refine ⟨s1.ext.trans s2.ext, fun p hp => s2.mem p (s1.mem p hp), s2.ci, ?_, ?_, Nat.le_trans s1.grow s2.grow⟩
  · intro p hp
    rw [s2.keep p (s1.mem p hp), s1.keep p hp]
  · intro p hp
    rcases s2.fresh p hp with h1' | ⟨hs, hd⟩
    · rcases s1.fresh p h1' with h' | ⟨hs, hd⟩
      · exact Or.inl h'
      · exact Or.inr ⟨hs, hd.mono s2.ext (s2.keep p h1')⟩
    · exact Or.inr ⟨Nat.le_trans s1.grow hs, hd⟩

theorem CI.push {b : Nat} {h0 h : Heap} {m : Memo} (hi : CI b h0 h m) (a : Nat) (ha : a < b) (o : HObj) :
    CI b h0 (h.push o) ((a, h.size) :: m) := by
  refine ⟨?_, ?_, ?_, ?_⟩
  · intro x hx
    rw [get?_push]
    have : x ≠ h.size := by have := hi.size; omega
    simp only [this, if_false]
    exact hi.old x hx
  · simp; have := hi.size; omega
  · intro p hp
    rcases List.mem_cons.mp hp with e | e
    · subst e; simp; exact ⟨ha, hi.size⟩
    · have := hi.pairs p e
      simp; omega
  · -- the new pair's value is the next free address: above every value the memo holds
    intro p q hp hq hpq
    rcases List.mem_cons.mp hp with e1 | e1 <;> rcases List.mem_cons.mp hq with e2 | e2
    · rw [e1, e2]
    · subst e1; have := (hi.pairs q e2).2.2; simp at hpq; omega
    · subst e2; have := (hi.pairs p e1).2.2; simp at hpq; omega
    · exact hi.inj p q e1 e2 hpq

theorem CI.set {b : Nat} {h0 h : Heap} {m : Memo} (hi : CI b h0 h m) (a' : Nat) (ha : b ≤ a') (o : HObj) :
    CI b h0 (h.set a' o) m := by
  refine ⟨?_, ?_, ?_, hi.inj⟩
  · intro x hx
    rw [get?_set]
    have : ¬ (a' = x ∧ a' < h.size) := by omega
    simp only [this, if_false]
    exact hi.old x hx
  · rw [size_set]; exact hi.size
  · intro p hp
    rw [size_set]; exact hi.pairs p hp

/-- finishing a node: allocate at `h.size`, copy the children with the pair in the memo, store the copied children -/
theorem finish_node {b : Nat} {h0 h h2 : Heap} {m m2 : Memo} {a : Nat} {o o' placeholder : HObj}
    (hi : CI b h0 h m) (ha : a < b) (hfind : m.get a = none) (hg : h0.get? a = some o)
    (s : Spec b h0 (h.push placeholder) ((a, h.size) :: m) h2 m2) (hv : ViaObj m2 o o') :
    Spec b h0 h m (h2.set h.size o') m2 ∧ Via m2 (.ref a) (.ref h.size) := by
  have hext : Ext m m2 := (Ext.cons (a' := h.size) hfind).trans s.ext
  have hget : m2.get a = some (a, h.size) := s.ext _ _ (Memo.get_cons_self m a h.size)
  have hsz : h.size < h2.size := by have := s.grow; simp at this; omega
  refine ⟨⟨hext, fun p hp => s.mem p (List.mem_cons_of_mem _ hp), s.ci.set _ hi.size _, ?_, ?_, ?_⟩, ?_⟩
  · intro p hp
    have hlt := (hi.pairs p hp).2.2
    rw [get?_set]
    have : ¬ (h.size = p.2 ∧ h.size < h2.size) := by omega
    simp only [this, if_false]
    rw [s.keep p (List.mem_cons_of_mem _ hp), get?_push]
    have : p.2 ≠ h.size := by omega
    simp only [this, if_false]
  · intro p hp
    rcases s.fresh p hp with h1 | ⟨hs, hd⟩
    · rcases List.mem_cons.mp h1 with e | e
      · subst e
        refine Or.inr ⟨Nat.le_refl _, o, o', hg, ?_, hv⟩
        rw [get?_set]; simp [hsz]
      · exact Or.inl e
    · refine Or.inr ⟨by simp at hs; omega, ?_⟩
      refine hd.mono (Ext.refl _) ?_
      rw [get?_set]
      have : ¬ (h.size = p.2 ∧ h.size < h2.size) := by simp at hs; omega
      simp only [this, if_false]
  · rw [size_set]; have := s.grow; simp at this; omega
  · exact Via.ref (p := (a, h.size)) hget

theorem viaL_map_snd {m : Memo} {kvs : List (Val × Val)} {vs' : List Val} (h : ViaL m (kvs.map (·.2)) vs') :
    ViaObj m (.dict kvs) (.dict ((kvs.map (·.1)).zip vs')) := by
  have hl : (kvs.map (·.1)).length = vs'.length := by have := h.1; simpa using this
  simp only [ViaObj]
  rw [List.map_fst_zip (by omega), List.map_snd_zip (by omega)]
  exact ⟨rfl, h⟩

/-- **the walk**: each call returns its argument replaced through the final memo and keeps the invariant -/
theorem copy_spec (b : Nat) (h0 : Heap) (hcl : ∀ a o, a < b → h0.get? a = some o → ObjLt b o) : ∀ (f : Nat),
    (∀ h m v v' h2 m2, deepcopy f h m v = some (v', h2, m2) → CI b h0 h m → RefsLt b v →
      Spec b h0 h m h2 m2 ∧ Via m2 v v') ∧
    (∀ h m vs vs' h2 m2, deepcopy.copyList f h m vs = some (vs', h2, m2) → CI b h0 h m → (∀ v, v ∈ vs → RefsLt b v) →
      Spec b h0 h m h2 m2 ∧ ViaL m2 vs vs') := by
  intro f
  induction f with
  | zero => exact ⟨by intro h m v v' h2 m2 hh; simp [deepcopy] at hh,
                   by intro h m vs vs' h2 m2 hh; simp [deepcopy.copyList] at hh⟩
  | succ f ih =>
    obtain ⟨ihd, ihl⟩ := ih
    constructor
    · intro h m v v' h2 m2 hh hi hlt
      unfold deepcopy at hh
      split at hh
      · -- tuple
        rename_i vs
        split at hh
        · rename_i r hr
          simp only [Option.some.injEq, Prod.mk.injEq] at hh
          obtain ⟨rfl, rfl, rfl⟩ := hh
          have hvs : ∀ v, v ∈ vs → RefsLt b v := by cases hlt with | tuple h => exact h
          obtain ⟨s1, l1⟩ := ihl _ _ _ _ _ _ hr hi hvs
          exact ⟨s1, Via.tuple l1.1 l1.2⟩
        · simp at hh
      · -- ref
        rename_i a
        have ha : a < b := by cases hlt with | ref h => exact h
        split at hh
        · rename_i p hp
          simp only [Option.some.injEq, Prod.mk.injEq] at hh
          obtain ⟨rfl, rfl, rfl⟩ := hh
          exact ⟨Spec.refl hi, Via.ref hp⟩
        · rename_i hfind
          have hfind' : Memo.get m a = none := hfind
          split at hh
          · -- list
            rename_i xs hg
            simp only [Heap.alloc] at hh
            split at hh
            · rename_i xs' h3 m3 hr
              simp only [Option.some.injEq, Prod.mk.injEq] at hh
              obtain ⟨rfl, rfl, rfl⟩ := hh
              have hg0 : h0.get? a = some (.list xs) := by rw [← hi.old a ha]; exact hg
              have hxs : ∀ v, v ∈ xs → RefsLt b v := hcl a _ ha hg0
              obtain ⟨s1, l1⟩ := ihl _ _ _ _ _ _ hr (hi.push a ha _) hxs
              exact finish_node hi ha hfind' hg0 s1 (o' := .list xs') l1
            · simp at hh
          · -- dict
            rename_i kvs hg
            simp only [Heap.alloc] at hh
            split at hh
            · rename_i vs' h3 m3 hr
              simp only [Option.some.injEq, Prod.mk.injEq] at hh
              obtain ⟨rfl, rfl, rfl⟩ := hh
              have hg0 : h0.get? a = some (.dict kvs) := by rw [← hi.old a ha]; exact hg
              have hvs : ∀ v, v ∈ kvs.map (·.2) → RefsLt b v := by
                intro v hv
                obtain ⟨kv, hkv, rfl⟩ := List.mem_map.mp hv
                exact (hcl a _ ha hg0 kv hkv).2
              obtain ⟨s1, l1⟩ := ihl _ _ _ _ _ _ hr (hi.push a ha _) hvs
              exact finish_node hi ha hfind' hg0 s1 (viaL_map_snd l1)
            · simp at hh
          · simp at hh
      · -- scalar
        rename_i hnt hnr
        simp only [Option.some.injEq, Prod.mk.injEq] at hh
        obtain ⟨rfl, rfl, rfl⟩ := hh
        exact ⟨Spec.refl hi, Via.same (fun a e => hnr a e) (fun vs e => hnt vs e)⟩
    · intro h m vs vs' h2 m2 hh hi hlt
      cases vs with
      | nil =>
        simp only [deepcopy.copyList, Option.some.injEq, Prod.mk.injEq] at hh
        obtain ⟨rfl, rfl, rfl⟩ := hh
        exact ⟨Spec.refl hi, ViaL.nil _⟩
      | cons x xs =>
        simp only [deepcopy.copyList] at hh
        split at hh
        · simp at hh
        · rename_i x' h1 m1 hx
          split at hh
          · rename_i xs' h3 m3 hxs
            simp only [Option.some.injEq, Prod.mk.injEq] at hh
            obtain ⟨rfl, rfl, rfl⟩ := hh
            obtain ⟨s1, v1⟩ := ihd _ _ _ _ _ _ hx hi (hlt x (List.mem_cons_self ..))
            obtain ⟨s2, l2⟩ := ihl _ _ _ _ _ _ hxs s1.ci (fun v hv => hlt v (List.mem_cons_of_mem _ hv))
            exact ⟨s1.trans s2, ViaL.cons (v1.mono s2.ext) l2⟩
          · simp at hh


/-- **the copy preserves the aliasing structure**: through the final memo, two addresses of the original go to the same new
    address exactly when they are the same address — two paths to one object stay two paths to one object, two objects
    stay two objects -/
theorem memo_preserves_sharing {b : Nat} {h0 h : Heap} {m : Memo} (hi : CI b h0 h m) {a1 a2 : Nat} {p1 p2 : Nat × Nat}
    (h1 : m.get a1 = some p1) (h2 : m.get a2 = some p2) : p1.2 = p2.2 ↔ a1 = a2 := by
  obtain ⟨m1, e1⟩ := Memo.get_mem h1
  obtain ⟨m2, e2⟩ := Memo.get_mem h2
  constructor
  · intro hv
    have := hi.inj p1 p2 m1 m2 hv
    rw [← e1, ← e2, this]
  · intro ha
    subst ha
    rw [h1] at h2
    injection h2 with h2
    rw [h2]

/-! ### content: unfolding a value to a tree of bounded depth -/

inductive Tree
  | cut
  | dangling
  | leaf (v : Val)
  | tuple (ts : List Tree)
  | list (ts : List Tree)
  | dict (ks : List Val) (ts : List Tree)

/-- what can be read through `v` down to depth `n`: scalars, tuple / list elements, dict keys and values — no addresses -/
def unfoldT : Nat → Heap → Val → Tree
  | 0, _, _ => .cut
  | n + 1, h, .tuple vs => .tuple (vs.map (unfoldT n h))
  | n + 1, h, .ref a =>
    (match h.get? a with
     | some (.list xs) => .list (xs.map (unfoldT n h))
     | some (.dict kvs) => .dict (kvs.map (·.1)) (kvs.map (fun kv => unfoldT n h kv.2))
     | none => .dangling)
  | _ + 1, _, v => .leaf v

theorem unfoldT_scalar (n : Nat) (h : Heap) (v : Val) (h1 : ∀ a, v ≠ .ref a) (h2 : ∀ vs, v ≠ .tuple vs) :
    unfoldT (n + 1) h v = .leaf v := by
  cases v <;> first | rfl | exact absurd rfl (h1 _) | exact absurd rfl (h2 _)

theorem map_via {b : Nat} {m : Memo} {f g : Val → Tree}
    (ih : ∀ v v', Via m v v' → RefsLt b v → f v' = g v) {xs xs' : List Val} (hl : ViaL m xs xs')
    (hlt : ∀ v, v ∈ xs → RefsLt b v) : xs'.map f = xs.map g := by
  apply List.ext_getElem?
  intro i
  simp only [List.getElem?_map]
  cases hx : xs[i]? with
  | none =>
    have : xs'[i]? = none := by
      rw [List.getElem?_eq_none_iff] at hx ⊢
      have := hl.1; omega
    rw [this]; rfl
  | some v =>
    cases hx' : xs'[i]? with
    | none =>
      rw [List.getElem?_eq_none_iff] at hx'
      have : i < xs.length := (List.getElem?_eq_some_iff.mp hx).1
      have := hl.1; omega
    | some v' =>
      simp only [Option.map_some]
      rw [ih v v' (hl.2 i v v' hx hx') (hlt v (List.mem_of_getElem? hx))]

/-- with every memo pair DONE, a value and its image under the memo unfold to the same tree, at every depth -/
theorem unfold_via {b : Nat} {h0 h' : Heap} {m : Memo}
    (hcl : ∀ a o, a < b → h0.get? a = some o → ObjLt b o) (hdone : ∀ p, p ∈ m → Done h0 h' m p) :
    ∀ (n : Nat) (v v' : Val), Via m v v' → RefsLt b v → unfoldT n h' v' = unfoldT n h0 v := by
  intro n
  induction n with
  | zero => intro v v' _ _; rfl
  | succ n ih =>
    intro v v' hv hlt
    cases hv with
    | ref hp =>
      rename_i a p
      obtain ⟨hmem, hp1⟩ := Memo.get_mem hp
      obtain ⟨o, o', g0, g', hobj⟩ := hdone p hmem
      rw [hp1] at g0
      have ha : a < b := by cases hlt with | ref h => exact h
      have hlo := hcl a o ha g0
      cases o with
      | list xs =>
        cases o' with
        | list xs' =>
          simp only [unfoldT, g0, g']
          simp only [ViaObj] at hobj
          rw [map_via ih hobj hlo]
        | dict kvs' => simp [ViaObj] at hobj
      | dict kvs =>
        cases o' with
        | list xs' => simp [ViaObj] at hobj
        | dict kvs' =>
          simp only [unfoldT, g0, g']
          simp only [ViaObj] at hobj
          have hvals : ∀ v, v ∈ kvs.map (·.2) → RefsLt b v := by
            intro v hv
            obtain ⟨kv, hkv, rfl⟩ := List.mem_map.mp hv
            exact (hlo kv hkv).2
          have := map_via ih hobj.2 hvals
          simp only [List.map_map] at this
          rw [hobj.1]
          congr 1
    | tuple hl hall =>
      rename_i vs vs'
      have hvs : ∀ v, v ∈ vs → RefsLt b v := by cases hlt with | tuple h => exact h
      simp only [unfoldT]
      rw [map_via ih ⟨hl, hall⟩ hvs]
    | same h1 h2 => rw [unfoldT_scalar n h' v h1 h2, unfoldT_scalar n h0 v h1 h2]

/-- reading an old value in a heap that agrees with `h0` on the old addresses gives what it gave in `h0` -/
theorem unfold_frame {b : Nat} {h0 h' : Heap} (hold : ∀ x, x < b → h'.get? x = h0.get? x)
    (hcl : ∀ a o, a < b → h0.get? a = some o → ObjLt b o) :
    ∀ (n : Nat) (v : Val), RefsLt b v → unfoldT n h' v = unfoldT n h0 v := by
  intro n
  induction n with
  | zero => intro v _; rfl
  | succ n ih =>
    intro v hlt
    cases hlt with
    | ref ha =>
      rename_i a
      simp only [unfoldT, hold a ha]
      cases g0 : h0.get? a with
      | none => rfl
      | some o =>
        have hlo := hcl a o ha g0
        cases o with
        | list xs =>
          simp only []
          congr 1
          exact List.map_congr_left (fun v hv => ih v (hlo v hv))
        | dict kvs =>
          simp only []
          congr 1
          exact List.map_congr_left (fun kv hkv => ih kv.2 (hlo kv hkv).2)
    | tuple hall =>
      simp only [unfoldT]
      congr 1
      exact List.map_congr_left (fun v hv => ih v (hall v hv))
    | _ => rfl

/-- **deepcopy_iso**: in a closed heap, the copy `v'` made by `copy.deepcopy(v)` has exactly the content of `v` —
    at every depth `n` the two unfold to the same tree (same scalars, same lengths, same dict keys, in the same
    places; cycles included: they are bisimilar) — and the original still reads as before -/
theorem deepcopy'_unfold (h : Heap) (v v' : Val) (h' : Heap) (hcl : Closed h) (hv : RefsLt h.size v)
    (hc : deepcopy' h v = .ok (v', h')) :
    ∀ n, unfoldT n h' v' = unfoldT n h v ∧ unfoldT n h' v = unfoldT n h v := by
  unfold deepcopy' at hc
  split at hc
  · rename_i v1 h1 m1 hr
    simp only [Except.ok.injEq, Prod.mk.injEq] at hc
    obtain ⟨rfl, rfl⟩ := hc
    have hcl' : ∀ a o, a < h.size → h.get? a = some o → ObjLt h.size o := fun a o _ hg => hcl a o hg
    have hi0 : CI h.size h h [] := ⟨fun _ _ => rfl, Nat.le_refl _, fun p hp => (by cases hp), fun p _ hp _ _ => (by cases hp)⟩
    obtain ⟨s1, via1⟩ := (copy_spec h.size h hcl' _).1 _ _ _ _ _ _ hr hi0 hv
    have hdone : ∀ p, p ∈ m1 → Done h h1 m1 p := by
      intro p hp
      rcases s1.fresh p hp with e | ⟨_, hd⟩
      · cases e
      · exact hd
    intro n
    exact ⟨unfold_via hcl' hdone n v v1 via1 hv, unfold_frame s1.ci.old hcl' n v hv⟩
  · simp [U] at hc

/-- **deepcopy preserves sharing**: the copy is the original with every address replaced through one injective map — -/
theorem deepcopy'_sharing (h : Heap) (v v' : Val) (h' : Heap) (hcl : Closed h) (hv : RefsLt h.size v)
    (hc : deepcopy' h v = .ok (v', h')) :
    ∃ m : Memo, Via m v v' ∧ (∀ p, p ∈ m → Done h h' m p) ∧
      ∀ a1 a2 p1 p2, m.get a1 = some p1 → m.get a2 = some p2 → (p1.2 = p2.2 ↔ a1 = a2) := by
  unfold deepcopy' at hc
  split at hc
  · rename_i v1 h1 m1 hr
    simp only [Except.ok.injEq, Prod.mk.injEq] at hc
    obtain ⟨rfl, rfl⟩ := hc
    have hcl' : ∀ a o, a < h.size → h.get? a = some o → ObjLt h.size o := fun a o _ hg => hcl a o hg
    have hi0 : CI h.size h h [] := ⟨fun _ _ => rfl, Nat.le_refl _, fun p hp => (by cases hp), fun p _ hp _ _ => (by cases hp)⟩
    obtain ⟨s1, via1⟩ := (copy_spec h.size h hcl' _).1 _ _ _ _ _ _ hr hi0 hv
    refine ⟨m1, via1, ?_, fun a1 a2 p1 p2 g1 g2 => memo_preserves_sharing s1.ci g1 g2⟩
    intro p hp
    rcases s1.fresh p hp with e | ⟨_, hd⟩
    · cases e
    · exact hd
  · simp [U] at hc
end Sq
