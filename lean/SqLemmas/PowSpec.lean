/-
  SqLemmas/PowSpec.lean — C08 [B]: `**` against ℚ, for the part of `**` the model speaks about (integral exponent 0..200 written
  without exponent form, exact power of at most 28 digits — everything else is `unmodelled` and decided by correspondence).
  Imports Mathlib tactic modules through RatSpec.
-/
import Sq.Prim
import SqLemmas.RatSpec
namespace Sq
open Sq.Dec

theorem sgn_pow (b : Bool) (N : Nat) : Dec.sgn (b && decide ((N : Int) % 2 = 1)) = (Dec.sgn b) ^ N := by
  cases b
  · simp [Dec.sgn]
  · rcases Nat.even_or_odd N with he | ho
    · have : ¬ ((N : Int) % 2 = 1) := by
        obtain ⟨k, hk⟩ := he; omega
      simp [Dec.sgn, this, he.neg_one_pow]
    · have : ((N : Int) % 2 = 1) := by
        obtain ⟨k, hk⟩ := ho; omega
      simp [Dec.sgn, this, ho.neg_one_pow]

/-- the exact power, as a decimal, denotes the power of the denoted rational -/
theorem powExact_toRat (x : Dec) (N : Nat) :
    Dec.toRat { neg := x.neg && decide ((N : Int) % 2 = 1), coeff := x.coeff ^ N, exp := x.exp * (N : Int) } = x.toRat ^ N := by
  unfold Dec.toRat
  simp only []
  rw [sgn_pow, mul_pow, mul_pow, zpow_mul, zpow_natCast]
  push_cast
  ring

/-- an exponent written without exponent form and without sign denotes its own coefficient -/
theorem plain_exponent (y : Dec) (he : y.exp = 0) (hn : y.neg = false) :
    y.toInt = (y.coeff : Int) ∧ y.toRat = (y.coeff : ℚ) := by
  constructor
  · unfold Dec.toInt; simp [he, hn]
  · unfold Dec.toRat; simp [he, hn, Dec.sgn]

/-- **`**` in ℚ** (modelled part): whenever the model's `**` returns a decimal `r`, the exponent denotes a natural number
    `N` and `r` is within half a unit of its last place of the real power `x ^ N` -/
theorem decPow_half_ulp (x y r : Dec) (c : Bool) (h : decPow x y = .ok (.dec r c)) :
    ∃ N : Nat, y.toRat = (N : ℚ) ∧ |r.toRat - x.toRat ^ N| ≤ (1 / 2) * 10 ^ r.exp := by
  unfold decPow at h
  split at h
  · cases h
  · simp only at h
    split at h
    · cases h
    · rename_i hneg
      split at h
      · cases h
      · split at h
        · cases h
        · split at h
          · rename_i h00 hz
            split at h
            · cases h
            · rename_i hform
              have hform' : y.exp = 0 ∧ y.neg = false := by
                constructor
                · exact Decidable.of_not_not (fun hne => hform (Or.inl hne))
                · cases hy : y.neg
                  · rfl
                  · exact absurd (Or.inr hy) hform
              obtain ⟨hi, hq⟩ := plain_exponent y hform'.1 hform'.2
              refine ⟨y.coeff, hq, ?_⟩
              injection h with h; injection h with h1 h2; subst h1
              have hpos : y.coeff ≠ 0 := by
                intro h0
                apply h00
                exact ⟨hz, by rw [hi, h0]; rfl⟩
              rw [Dec.toRat_zero x hz, Dec.toRat_zero _ rfl, zero_pow hpos]
              simp
          · rename_i hnz
            split at h
            · cases h
            · split at h
              · cases h
              · rename_i hform
                have hform' : y.exp = 0 ∧ y.neg = false := by
                  constructor
                  · exact Decidable.of_not_not (fun hne => hform (Or.inl hne))
                  · cases hy : y.neg
                    · rfl
                    · exact absurd (Or.inr hy) hform
                obtain ⟨hi, hq⟩ := plain_exponent y hform'.1 hform'.2
                refine ⟨y.coeff, hq, ?_⟩
                unfold liftDec at h
                split at h
                · rename_i d hd
                  injection h with h; injection h with h1 h2; subst h1
                  rw [hi] at hd
                  simp only [Int.toNat_natCast] at hd
                  have := Dec.fix_half_ulp _ _ hd
                  rw [powExact_toRat] at this
                  exact this
                · cases h
end Sq
