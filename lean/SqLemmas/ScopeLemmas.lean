/-
  SqLemmas/ScopeLemmas.lean — the scope discipline of the evaluator machine (C10 `scope_balanced`).

  `popCount i k`: how many `popScopeK i` frames (pending `finally: pop scope` of lambda calls on VM `i`) the
  continuation holds.  `bal w k i`: the scope stack of VM `i` with that many scopes removed from the top —
  what the scopes WILL be once every pending lambda call has returned or raised.
  Theorem `step_bal`: no machine step changes `bal`.  Hence (`run_bal`) along every run, of any length,
  through every builtin, host callback, iteration and error path, the scopes beneath the pending lambda
  scopes are exactly the initial ones, and whenever no lambda call is pending the scope stack IS the initial one.
-/
import SqLemmas.MachineLemmas
namespace Sq

def popCount (i : Nat) : List Frame → Nat
  | [] => 0
  | .popScopeK j :: k => (if j = i then 1 else 0) + popCount i k
  | _ :: k => popCount i k

def bal (w : World) (k : List Frame) (i : Nat) : Option (List Nat) :=
  (w.vms[i]?).map (fun vm => vm.scopes.drop (popCount i k))

def balC (c : Core) (i : Nat) : Option (List Nat) := bal c.w c.k i

theorem getElem?_set_vm (w : World) (j i : Nat) (vm : VM) :
    (w.setVM j vm).vms[i]? = if j = i then (w.vms[i]?).map (fun _ => vm) else w.vms[i]? := by
  unfold World.setVM
  simp only [List.getElem?_set]
  by_cases h : j = i
  · subst h
    by_cases hl : j < w.vms.length
    · simp [hl]
    · simp [hl]
  · simp [h]

/-- a lambda call pushes one scope and one `popScopeK` frame: `bal` unchanged -/
theorem bal_push (w : World) (k : List Frame) (vmi : Nat) (vm : VM) (a : Nat) (hv : w.vm? vmi = some vm) (i : Nat) :
    bal (w.setVM vmi { vm with scopes := a :: vm.scopes }) (.popScopeK vmi :: k) i = bal w k i := by
  unfold bal
  rw [getElem?_set_vm]
  unfold World.vm? at hv
  by_cases h : vmi = i
  · subst h
    simp only [if_true, hv, Option.map_some, popCount]
    rw [Nat.add_comm]; rfl
  · simp [h, popCount]

/-- returning from (or raising through) a lambda call pops both: `bal` unchanged -/
theorem bal_pop (w : World) (k : List Frame) (vmi : Nat) (vm : VM) (hv : w.vm? vmi = some vm) (i : Nat) :
    bal (w.setVM vmi { vm with scopes := vm.scopes.tail }) k i = bal w (.popScopeK vmi :: k) i := by
  unfold bal
  rw [getElem?_set_vm]
  unfold World.vm? at hv
  by_cases h : vmi = i
  · subst h
    simp only [if_true, hv, Option.map_some, popCount]
    rw [Nat.add_comm, List.drop_tail]
  · simp [h, popCount]

theorem bal_pop_none (w : World) (k : List Frame) (vmi : Nat) (hv : w.vm? vmi = none) (i : Nat) :
    bal w k i = bal w (.popScopeK vmi :: k) i := by
  unfold bal
  simp only [popCount]
  unfold World.vm? at hv
  by_cases h : vmi = i
  · subst h; simp [hv]
  · simp [h]

/-- the charge step changes an op counter only -/
theorem bal_ops (w : World) (k : List Frame) (vmi : Nat) (vm : VM) (n : Nat) (hv : w.vm? vmi = some vm) (i : Nat) :
    bal (w.setVM vmi { vm with ops := n }) k i = bal w k i := by
  unfold bal
  rw [getElem?_set_vm]
  unfold World.vm? at hv
  by_cases h : vmi = i
  · subst h
    simp [hv]
  · simp [h]

section
variable {i : Nat}

theorem ofBR_bal (r : BR) (k : List Frame) (w : World) : balC (ofBR r k w) i = bal w k i := by
  unfold ofBR
  split <;> rfl

theorem sortFinish_bal (keys items : List Val) (rev dm : Bool) (k : List Frame) (w : World) :
    balC (sortFinish keys items rev dm k w) i = bal w k i := by
  unfold sortFinish
  split
  · rfl
  · split <;> rfl

/-- an iteration continuation that leaves the op counters alone -/
def IterBal (i : Nat) (it : IterFn) : Prop := ∀ kind g src acc k w, balC (it kind g src acc k w) i = bal w k i

theorem callClosure_bal (ps : List Op) (body : Op) (vmi : Nat) (args : List Val) (k : List Frame) (w : World) :
    balC (callClosure ps body vmi args k w) i = bal w k i := by
  unfold callClosure
  split
  · rfl
  · split
    · rfl
    · rename_i vm hv
      simp only [Heap.alloc]
      exact bal_push { w with heap := _ } k vmi vm _ hv i

theorem callMap_bal (it : IterFn) (hit : IterBal i it) (args : List Val) (k : List Frame) (w : World) :
    balC (callMap it args k w) i = bal w k i := by
  unfold callMap
  split
  · split
    · exact hit _ _ _ _ _ _
    · split
      · exact hit _ _ _ _ _ _
      · exact hit _ _ _ _ _ _
      · rfl
    · rfl
    · rfl
  · rfl

theorem callFilter_bal (it : IterFn) (hit : IterBal i it) (args : List Val) (k : List Frame) (w : World) :
    balC (callFilter it args k w) i = bal w k i := by
  unfold callFilter
  split
  · split
    · split <;> rfl
    · rfl
    · rfl
  · split
    · split
      · exact hit _ _ _ _ _ _
      · rfl
    · rfl
    · rfl
  · rfl

theorem callReduce_bal (it : IterFn) (hit : IterBal i it) (args : List Val) (k : List Frame) (w : World) :
    balC (callReduce it args k w) i = bal w k i := by
  unfold callReduce
  split
  · split
    · rfl
    · split
      · rfl
      · rfl
      · rfl
      · exact hit _ _ _ _ _ _
  · rfl

theorem callSorted_bal (it : IterFn) (hit : IterBal i it) (args : List Val) (k : List Frame) (w : World) :
    balC (callSorted it args k w) i = bal w k i := by
  unfold callSorted
  split
  · split
    · rfl
    · simp only []
      split
      · rfl
      · rfl
      · split
        · exact sortFinish_bal _ _ _ _ _ _
        · rfl
        · split
          · exact hit _ _ _ _ _ _
          · split
            · exact sortFinish_bal _ _ _ _ _ _
            · rfl
  · rfl

theorem callProbe_bal (args : List Val) (k : List Frame) (w : World) : balC (callProbe args k w) i = bal w k i := by
  unfold callProbe
  split
  · simp only []
    split <;> rfl
  · rfl

/-- calling any function value, and continuing any iteration, never moves an op counter:
    the callee's body is charged later, when the machine reaches its `ev` steps -/
theorem call_bal : ∀ (fuel : Nat),
    (∀ f args k w, balC (callVal fuel f args k w) i = bal w k i) ∧ IterBal i (iterNext fuel) := by
  intro fuel
  induction fuel with
  | zero => exact ⟨fun _ _ _ _ => rfl, fun _ _ _ _ _ _ => rfl⟩
  | succ fuel ih =>
    obtain ⟨ihc, ihi⟩ := ih
    constructor
    · intro f args k w
      unfold callVal
      split
      · exact callClosure_bal _ _ _ _ _ _
      · split
        · exact callMap_bal _ ihi _ _ _
        · split
          · rfl
          · split
            · exact callFilter_bal _ ihi _ _ _
            · split
              · exact callReduce_bal _ ihi _ _ _
              · split
                · exact callSorted_bal _ ihi _ _ _
                · exact ofBR_bal _ _ _
      · split
        · exact callProbe_bal _ _ _
        · split
          · split
            · exact ihc _ _ _ _
            · rfl
          · split
            · split
              · exact ihc _ _ _ _
              · rfl
            · rfl
      · rfl
      · rfl
    · intro kind g src acc k w
      unfold iterNext
      split
      · exact ihc _ _ _ _
      · split
        · rfl
        · rfl
        · rfl
        · exact sortFinish_bal _ _ _ _ _ _

theorem doCall_bal (n : Name) (args : List Val) (vmi : Nat) (k : List Frame) (w : World) :
    balC (doCall n args vmi k w) i = bal w k i := by
  unfold doCall
  split
  · rfl
  · split
    · rfl
    · exact (call_bal callFuel).1 _ _ _ _

/-- dispatching on a node kind moves no op counter -/
theorem enter_bal (op : Op) (vmi : Nat) (k : List Frame) (w : World) : balC (enter op vmi k w) i = bal w k i := by
  unfold enter
  split <;> first | rfl | (split <;> first | rfl | (split <;> rfl)) | exact doCall_bal _ _ _ _ _

theorem map_vms {α : Type} (e : R α) (f : α → Val × World) (w : World) (r : Val) (w' : World)
    (hf : ∀ x, (f x).2.vms = w.vms) (h : e.map f = .ok (r, w')) : w'.vms = w.vms := by
  cases e with
  | error e => simp [Except.map] at h
  | ok x =>
    simp [Except.map] at h
    have := hf x
    rw [h] at this
    exact this

/-- applying a binary operator may allocate (list `+`) but touches no VM state -/
theorem applyBin_vms (w : World) (bk : BinK) (a b r : Val) (w' : World)
    (h : applyBin w bk a b = .ok (r, w')) : w'.vms = w.vms := by
  unfold applyBin at h
  cases bk <;> simp only [] at h
  · -- add
    split at h
    · simp at h
    · exact map_vms _ _ w r w' (fun _ => rfl) h
  · exact map_vms _ _ w r w' (fun _ => rfl) h
  · -- mul
    split at h
    · split at h <;> simp [U] at h
    · split at h
      · exact map_vms _ _ w r w' (fun _ => rfl) h
      · simp [U] at h
  · -- pow
    split at h
    · simp at h
    · split at h
      · simp at h
      · exact map_vms _ _ w r w' (fun _ => rfl) h
  all_goals first
    | exact map_vms _ _ w r w' (fun _ => rfl) h
    | (simp [U] at h)

theorem bal_of_vms (w w' : World) (k : List Frame) (h : w'.vms = w.vms) : bal w' k i = bal w k i := by
  unfold bal; rw [h]

/-- a value returned to a frame moves no op counter -/
theorem resume_bal (fr : Frame) (v : Val) (k : List Frame) (w : World) :
    balC (resume fr v k w) i = bal w (fr :: k) i := by
  cases fr with
  | codeK rest vm => cases rest <;> rfl
  | binL bk b vm =>
    unfold resume
    cases bk <;> simp only [] <;> first | rfl | (split <;> rfl)
  | binR bk va =>
    unfold resume
    simp only []
    split
    · rename_i r w' happ
      exact bal_of_vms w w' k (applyBin_vms w bk va v r w' happ)
    · rfl
  | unK uk =>
    unfold resume
    simp only []
    split <;> rfl
  | assignK n vm =>
    unfold resume
    simp only []
    split
    · rfl
    · split
      · rfl
      · split <;> rfl
  | shortK n sk vm =>
    unfold resume
    simp only []
    split
    · rfl
    · split
      · rfl
      · split
        · rfl
        · split
          · rfl
          · split <;> rfl
  | ifK a b vm =>
    unfold resume
    simp only []
    split <;> rfl
  | sliceK done todo vm =>
    unfold resume
    simp only []
    split
    · rfl
    · split
      · rfl
      · split <;> rfl
  | argsK n done todo vm =>
    unfold resume
    simp only []
    split
    · rfl
    · exact doCall_bal _ _ _ _ _
  | dictK done todo vm =>
    unfold resume
    simp only []
    split
    · rfl
    · split <;> rfl
  | popScopeK vm =>
    unfold resume
    simp only []
    split
    · rename_i hv
      exact bal_pop_none w k vm hv i
    · rename_i vmv hv
      exact bal_pop w k vm vmv hv i
  | iterK kind g src cur acc =>
    unfold resume
    simp only []
    exact (call_bal callFuel).2 _ _ _ _ _ _
  | tryK => rfl
  | astK n rest main vm =>
    unfold resume
    simp only []
    split
    · rfl
    · split
      · rfl
      · split <;> rfl

/-- an error passing a frame: `bal` of the configuration before (frame still on the stack) is kept -/
theorem unwind_bal (fr : Frame) (e : PyErr) (k : List Frame) (w : World) :
    balC (unwind fr e k w) i = bal w (fr :: k) i := by
  cases fr with
  | popScopeK vm =>
    unfold unwind
    simp only []
    split
    · rename_i hv
      exact bal_pop_none w k vm hv i
    · rename_i vmv hv
      exact bal_pop w k _ vmv hv i
  | tryK =>
    unfold unwind
    simp only []
    split <;> rfl
  | _ => rfl

theorem charge_bal (w : World) (budgets : List Nat) (vmi : Nat) (w' : World) (lim : Option Nat) (k : List Frame)
    (h : charge w budgets vmi = some (w', lim)) : bal w' k i = bal w k i := by
  unfold charge at h
  split at h
  · rename_i vm mx hv hb
    injection h with h
    injection h with h1 h2
    subst h1
    exact bal_ops w k vmi vm _ hv i
  · cases h

/-- **no machine step changes `bal`** -/
theorem stepCore_bal (budgets : List Nat) (c : Core) : balC (stepCore budgets c) i = balC c i := by
  unfold stepCore
  split
  · rename_i op vmi hctl
    split
    · rfl
    · rename_i w' m hc
      exact charge_bal c.w budgets vmi w' (some m) c.k hc
    · rename_i w' hc
      have h1 := enter_bal (i := i) op vmi c.k w'
      rw [h1]
      exact charge_bal c.w budgets vmi w' none c.k hc
  · rename_i v
    split
    · rename_i hk
      unfold balC; simp only [hk]
    · rename_i fr k hk
      rw [resume_bal]
      unfold balC; rw [hk]
  · rename_i e
    split
    · rename_i hk
      unfold balC; simp only [hk]
    · rename_i fr k hk
      rw [unwind_bal]
      unfold balC; rw [hk]
  · rfl
  · rfl

end

theorem step_bal (c : Cfg) (i : Nat) : bal (step c).w (step c).k i = bal c.w c.k i :=
  stepCore_bal c.budgets c.core

theorem run_bal (n : Nat) (c : Cfg) (i : Nat) : bal (run n c).w (run n c).k i = bal c.w c.k i := by
  induction n generalizing c with
  | zero => rfl
  | succ n ih => rw [run, ih, step_bal]

theorem runUntil_bal (n : Nat) (c : Cfg) (i : Nat) : bal (runUntil n c).w (runUntil n c).k i = bal c.w c.k i := by
  induction n generalizing c with
  | zero => rfl
  | succ n ih =>
    rw [runUntil]
    split
    · rfl
    · rw [ih, step_bal]

end Sq
