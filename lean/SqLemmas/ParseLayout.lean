/-
  SqLemmas/ParseLayout.lean — layout facts about the levelled derivation relation (C15, token level).

  `closer`: the look-aheads at which every operator loop stops and which start neither a call nor a
  lambda (end of text, `)`, `]`, `}`, `,`, `:`, NEWLINE, `else`, `=`, …).  Theorem `swExpr`: the tree an
  expression reads as does not depend on WHICH closer follows it.  Consequences: a trailing comma after
  the last argument / element / entry, a trailing separator after the last statement and a blank
  statement never change the derived program — and, by completeness, never change what the parser returns.
-/
import SqLemmas.ParseComplete
namespace Sq

/-- look-aheads that end every expression -/
def closer : LA → Prop
  | none => True
  | some ty => (∀ m a, decide' m a ty = .stop) ∧ ty ≠ .LPAREN ∧ ty ≠ .LAMBDA

/-- the look-ahead is unchanged, or one closer is exchanged for another -/
def Sw (la la' : LA) : Prop := la' = la ∨ (closer la ∧ closer la')

theorem sw_or (ts : List Token) {nxt nxt' : LA} (h : Sw nxt nxt') :
    Sw ((peekTy ts).or nxt) ((peekTy ts).or nxt') := by
  rcases h with h | h
  · left; rw [h]
  · cases ts with
    | nil => right; exact h
    | cons x r => left; rfl

theorem sw_ne {la la' : LA} (h : Sw la la') {ty : Tk} (hty : ty = .LPAREN ∨ ty = .LAMBDA) (hne : la ≠ some ty) :
    la' ≠ some ty := by
  rcases h with h | ⟨_, h⟩
  · rw [h]; exact hne
  · intro hc
    rw [hc] at h
    rcases hty with e | e
    · exact h.2.1 e
    · exact h.2.2 e

theorem sw_stops {m : Nat} {a : Assoc} {nxt nxt' : LA} (h : Sw nxt nxt') (hs : stops m a nxt) : stops m a nxt' := by
  rcases h with h | ⟨_, h⟩
  · rw [h]; exact hs
  · cases nxt' with
    | none => trivial
    | some ty => exact h.1 m a

mutual

theorem swExpr : ∀ {m a ts t b nxt}, RExpr m a ts t b nxt → ∀ nxt', Sw nxt nxt' → RExpr m a ts t b nxt'
  | _, _, _, _, _, _, .mk (ts := ts) hp hs, nxt', hsw =>
    .mk (swPrim hp _ (sw_or ts hsw)) (swSpine hs nxt' hsw)

theorem swPrim : ∀ {ts t la}, RPrim ts t la → ∀ la', Sw la la' → RPrim ts t la'
  | _, _, _, .atom ha, _, _ => .atom ha
  | _, _, _, .name ht h1 h2, _, hsw => .name ht (sw_ne hsw (Or.inl rfl) h1) (sw_ne hsw (Or.inr rfl) h2)
  | _, _, _, .call0 hn hl hr, _, _ => .call0 hn hl hr
  | _, _, _, .call hn hl ha, _, _ => .call hn hl ha
  | _, _, _, .lam1 hn hl he, la', hsw => .lam1 hn hl (swExpr he la' hsw)
  | _, _, _, .paren hl he hr, _, _ => .paren hl he hr
  | _, _, _, .lamN hl h0 hc hp hlam hb, la', hsw => .lamN hl h0 hc hp hlam (swExpr hb la' hsw)
  | _, _, _, .list0 hl hr, _, _ => .list0 hl hr
  | _, _, _, .list hl ha, _, _ => .list hl ha
  | _, _, _, .dict0 hl hr, _, _ => .dict0 hl hr
  | _, _, _, .dict hl hd, _, _ => .dict hl hd
  | _, _, _, .neg hm he, la', hsw => .neg hm (swExpr he la' hsw)
  | _, _, _, .not hn he, la', hsw => .not hn (swExpr he la' hsw)

theorem swSpine : ∀ {m a l b ts t bt nxt}, RSpine m a l b ts t bt nxt → ∀ nxt', Sw nxt nxt' →
    RSpine m a l b ts t bt nxt'
  | _, _, _, _, _, _, _, _, .nil hs, _, hsw => .nil (sw_stops hsw hs)
  | _, _, _, _, _, _, _, _, .bin (rest := rest) hd hk he hs, nxt', hsw =>
    .bin hd hk (swExpr he _ (sw_or rest hsw)) (swSpine hs nxt' hsw)
  | _, _, _, _, _, _, _, _, .notin (rest := rest) ho hd hi he hs, nxt', hsw =>
    .notin ho hd hi (swExpr he _ (sw_or rest hsw)) (swSpine hs nxt' hsw)
  | _, _, _, _, _, _, _, _, .ifx (rest := rest) ho hd hc hel he hs, nxt', hsw =>
    .ifx ho hd hc hel (swExpr he _ (sw_or rest hsw)) (swSpine hs nxt' hsw)
  | _, _, _, _, _, _, _, _, .index ho hd hsub hs, nxt', hsw => .index ho hd hsub (swSpine hs nxt' hsw)
  | _, _, _, _, _, _, _, _, .dot0 ho hd hn hl hr hs, nxt', hsw => .dot0 ho hd hn hl hr (swSpine hs nxt' hsw)
  | _, _, _, _, _, _, _, _, .dot ho hd hn hl ha hs, nxt', hsw => .dot ho hd hn hl ha (swSpine hs nxt' hsw)
  | _, _, _, _, _, _, _, _, .pipe0 (rest := rest) ho hd hn hne hs, nxt', hsw =>
    .pipe0 ho hd hn (sw_ne (sw_or rest hsw) (Or.inl rfl) hne) (swSpine hs nxt' hsw)
  | _, _, _, _, _, _, _, _, .pipe ho hd hn hl ha hs, nxt', hsw => .pipe ho hd hn hl ha (swSpine hs nxt' hsw)

end

theorem closer_none : closer none := trivial
theorem closer_newline : closer (some .NEWLINE) := ⟨fun _ _ => rfl, by decide, by decide⟩
theorem closer_comma : closer (some .COMMA) := ⟨fun _ _ => rfl, by decide, by decide⟩
theorem closer_rparen : closer (some .RPAREN) := ⟨fun _ _ => rfl, by decide, by decide⟩
theorem closer_rbracket : closer (some .RBRACKET) := ⟨fun _ _ => rfl, by decide, by decide⟩
theorem closer_rbrace : closer (some .RBRACE) := ⟨fun _ _ => rfl, by decide, by decide⟩
theorem closer_colon : closer (some .COLON) := ⟨fun _ _ => rfl, by decide, by decide⟩

theorem closer_stmtEnd {nxt : LA} (h : stmtEnd nxt) : closer nxt := by
  rcases h with h | h <;> rw [h]
  · exact closer_none
  · exact closer_newline

/-- a statement reads the same whether a separator or the end of the text follows it -/
theorem swStmt {ts : List Token} {s : Option Op} {nxt : LA} (h : RStmt ts s nxt) (nxt' : LA) (h' : stmtEnd nxt') :
    RStmt ts s nxt' := by
  cases h with
  | empty _ => exact .empty h'
  | expr hend he => exact .expr h' (swExpr he nxt' (Or.inr ⟨closer_stmtEnd hend, closer_stmtEnd h'⟩))
  | assign hend hn heq he =>
    exact .assign h' hn heq (swExpr he nxt' (Or.inr ⟨closer_stmtEnd hend, closer_stmtEnd h'⟩))
  | short hend hn ho hk he =>
    exact .short h' hn ho hk (swExpr he nxt' (Or.inr ⟨closer_stmtEnd hend, closer_stmtEnd h'⟩))
  | del hend hd he hi =>
    exact .del h' hd (swExpr he nxt' (Or.inr ⟨closer_stmtEnd hend, closer_stmtEnd h'⟩)) hi
  | setitem hend he hi heq hv =>
    exact .setitem h' he hi heq (swExpr hv nxt' (Or.inr ⟨closer_stmtEnd hend, closer_stmtEnd h'⟩))
  | setop hend he hi ho hv =>
    exact .setop h' he hi ho (swExpr hv nxt' (Or.inr ⟨closer_stmtEnd hend, closer_stmtEnd h'⟩))

/-- a blank statement in front changes nothing -/
theorem rcode_leading_blank {acc : List Op} {rest : List Token} {out : List Op} {nl : Token}
    (hnl : nl.ty = .NEWLINE) (h : RCode acc rest out) : RCode acc (nl :: rest) out :=
  RCode.more (ts := []) (RStmt.empty (Or.inr rfl)) hnl h

/-- a separator after the last statement changes nothing -/
theorem rcode_trailing_sep {acc : List Op} {ts : List Token} {out : List Op} (h : RCode acc ts out) :
    ∀ {nl : Token}, nl.ty = .NEWLINE → RCode acc (ts ++ [nl]) out := by
  induction h with
  | @last acc ts s hs =>
    intro nl hnl
    have := RCode.more (acc := acc) (swStmt hs (some .NEWLINE) (Or.inr rfl)) hnl
      (RCode.last (acc := pushStmt acc s) (RStmt.empty (Or.inl rfl)))
    exact this
  | @more acc ts s nl0 rest out hs hnl0 _ ih =>
    intro nl hnl
    have := RCode.more hs hnl0 (ih hnl)
    rw [List.append_assoc]
    exact this

/-- a blank statement anywhere between two statements changes nothing: `… ; ; …` -/
theorem rcode_double_sep {acc : List Op} {ts : List Token} {s : Option Op} {nl nl2 : Token} {rest : List Token}
    {out : List Op} (hs : RStmt ts s (some .NEWLINE)) (hnl : nl.ty = .NEWLINE) (hnl2 : nl2.ty = .NEWLINE)
    (h : RCode (pushStmt acc s) rest out) : RCode acc (ts ++ nl :: nl2 :: rest) out :=
  RCode.more hs hnl (rcode_leading_blank hnl2 h)

/-- **trailing comma after the last argument / element**: with the last expression `e` read from `ts0`,
    `… , ts0 )` and `… , ts0 , )` derive the same argument list -/
theorem last_arg_trailing_comma {close : Tk} {acc : List Op} {cm cm' c : Token} {ts0 : List Token} {e : Op} {b : Bool}
    (hclose : closer (some close)) (hne : close ≠ .COMMA)
    (hcm : cm.ty = .COMMA) (hcm' : cm'.ty = .COMMA) (hc : c.ty = close)
    (hfirst : peekTy (ts0 ++ [c]) ≠ some close)
    (he : RExpr 0 .right ts0 e b (some close)) :
    RArgsTail close acc (cm :: ts0 ++ [c]) (e :: acc).reverse ∧
    RArgsTail close acc (cm :: ts0 ++ [cm', c]) (e :: acc).reverse := by
  constructor
  · exact RArgsTail.more hcm hfirst (by rw [peekTy_cons, hc]; exact he) (RArgsTail.close hc hne)
  · have he' : RExpr 0 .right ts0 e b (some .COMMA) := swExpr he _ (Or.inr ⟨hclose, closer_comma⟩)
    refine RArgsTail.more hcm ?_ (by rw [peekTy_cons, hcm']; exact he') (RArgsTail.trailing hcm' hc)
    cases ts0 with
    | nil => simp [peekTy_cons, hcm']; exact fun h => hne h.symm
    | cons x r => simpa [peekTy_cons] using hfirst

/-- … and likewise when it is the only argument: `( ts0 )` vs `( ts0 , )` -/
theorem only_arg_trailing_comma {close : Tk} {cm c : Token} {ts0 : List Token} {e : Op} {b : Bool}
    (hclose : closer (some close)) (hne : close ≠ .COMMA) (hcm : cm.ty = .COMMA) (hc : c.ty = close)
    (he : RExpr 0 .right ts0 e b (some close)) :
    RArgs close (ts0 ++ [c]) [e] ∧ RArgs close (ts0 ++ [cm, c]) [e] := by
  constructor
  · exact RArgs.mk (by rw [peekTy_cons, hc]; exact he) (RArgsTail.close hc hne)
  · have he' : RExpr 0 .right ts0 e b (some .COMMA) := swExpr he _ (Or.inr ⟨hclose, closer_comma⟩)
    exact RArgs.mk (by rw [peekTy_cons, hcm]; exact he') (RArgsTail.trailing hcm hc)

/-- trailing comma after the last dict entry: `k : v }` and `k : v , }` derive the same entries -/
theorem last_entry_trailing_comma {acc : List Op} {tsk tsv : List Token} {k v : Op} {bk bv : Bool} {col cm rb : Token}
    (hk : RExpr 0 .right tsk k bk (some .COLON)) (hcol : col.ty = .COLON)
    (hv : RExpr 0 .right tsv v bv (some .RBRACE)) (hcm : cm.ty = .COMMA) (hrb : rb.ty = .RBRACE) :
    RDict acc (tsk ++ col :: tsv ++ [rb]) (v :: k :: acc).reverse ∧
    RDict acc (tsk ++ col :: tsv ++ [cm, rb]) (v :: k :: acc).reverse :=
  ⟨RDict.last hk hcol hv hrb,
   RDict.lastComma hk hcol (swExpr hv _ (Or.inr ⟨closer_rbrace, closer_comma⟩)) hcm hrb⟩

end Sq
