/-
  SqLemmas/DenoteScopes.lean — C10 [B] on the compositional semantics: EVERY evaluation of EVERY node, and every application of
  a function value, leaves the scope stack of every VM state exactly as it found it — whether it returns or raises.
  (From `run_bal`, the machine's scope discipline, through the soundness of the semantics: a finished evaluation has an empty
  continuation, so no lambda scope is pending.)
-/
import Sq.Denote
import SqLemmas.DenoteSound
import SqLemmas.ScopeLemmas
set_option autoImplicit false
namespace Sq.Den
open Sq

variable {B : List Nat}

/-- the scope stack of VM state `i` -/
def scopesAt (w : World) (i : Nat) : Option (List Nat) := (w.vms[i]?).map (·.scopes)

theorem bal_nil (w : World) (i : Nat) : bal w [] i = scopesAt w i := by
  unfold bal scopesAt popCount
  cases w.vms[i]? <;> simp

theorem fin_keeps_scopes {c : Core} {o : Out} {w' : World} (h : Fin B c o w') (hk : c.k = []) (i : Nat) :
    scopesAt w' i = scopesAt c.w i := by
  obtain ⟨n, hn, _⟩ := h
  have := run_bal n (c.withBudgets B) i
  rw [hn] at this
  simp only [Core.withBudgets, mk] at this
  rw [hk] at this
  rw [← bal_nil, ← bal_nil]
  exact this

/-- **every evaluation keeps every scope stack**: parameter bindings and assignments made during lambda calls inside the
    evaluation of `op` are gone when it ends — on return and on error alike -/
theorem evalOp_keeps_scopes (f : Nat) (op : Op) (vmi : Nat) (w : World) (o : Out) (w' : World)
    (h : evalOp B f op vmi w = some (o, w')) (i : Nat) : scopesAt w' i = scopesAt w i :=
  fin_keeps_scopes (c := { ctl := .ev op vmi, k := [], w := w }) ((sound f).op op vmi w o w' h) rfl i

/-- … and so does every application of a function value: a lambda's parameter scope is pushed and popped, builtins and
    host callables touch no scope stack -/
theorem applyVal_keeps_scopes (f tf : Nat) (fn : Val) (args : List Val) (w : World) (o : Out) (w' : World)
    (h : applyVal B f tf fn args w = some (o, w')) (i : Nat) : scopesAt w' i = scopesAt w i := by
  obtain ⟨n, hn, _⟩ := (sound f).call tf fn args w o w' h
  have := run_bal n ((callVal tf fn args [] w).withBudgets B) i
  rw [hn] at this
  simp only [Core.withBudgets, mk] at this
  have hb := (call_bal (i := i) tf).1 fn args [] w
  unfold balC at hb
  rw [← bal_nil, ← bal_nil, this]
  exact hb

end Sq.Den
