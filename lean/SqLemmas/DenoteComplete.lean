/-
  SqLemmas/DenoteComplete.lean — the compositional semantics is COMPLETE for the machine: whenever the machine, started on
  a node alone, finishes with an outcome, some fuel makes `evalOp` yield exactly that outcome and world.  By strong
  induction on the number of machine steps; the key lemma `FinN.split` reads the frame lemma backwards: a run beneath a
  frame that ends with an empty continuation passes through the point where the part above the frame finishes, and that
  part, run alone, finishes the same way.  With DenoteSound: `evalOp` and the machine define the same relation.
-/
import Sq.Denote
import SqLemmas.DenoteSound
import SqLemmas.DenoteMono
set_option autoImplicit false
namespace Sq.Den
open Sq

variable {B : List Nat}

/-- the machine, started on core `c`, is finished with outcome `o` in world `w'` after exactly `n` steps -/
def FinN (B : List Nat) (c : Core) (n : Nat) (o : Out) (w' : World) : Prop :=
  run n (c.withBudgets B) = (mk o [] w').withBudgets B ∧ ∀ i, i < n → ¬ Underflow (run i (c.withBudgets B)).core

theorem FinN.toFin {c : Core} {n : Nat} {o : Out} {w' : World} (h : FinN B c n o w') : Fin B c o w' := ⟨n, h.1, h.2⟩

theorem underflow_mk (o : Out) (w : World) : Underflow (mk o [] w) := by
  refine ⟨rfl, ?_⟩
  cases o
  · exact Or.inl ⟨_, rfl⟩
  · exact Or.inr ⟨_, rfl⟩

theorem run_budgets (n : Nat) (c : Cfg) : (run n c).budgets = c.budgets := by
  induction n generalizing c with
  | zero => rfl
  | succ n ih => rw [run, ih]; rfl

theorem cfg_eq_core (c : Cfg) : c = c.core.withBudgets c.budgets := rfl

/-- a finished core is finished at once -/
theorem FinN.of_finished {o1 : Out} {w1 : World} {n : Nat} {o : Out} {w' : World} (h : FinN B (mk o1 [] w1) n o w') :
    n = 0 ∧ o = o1 ∧ w' = w1 := by
  have hn : n = 0 := by
    cases n with
    | zero => rfl
    | succ n => exact absurd (underflow_mk o1 w1) (h.2 0 (Nat.succ_pos _))
  subst hn
  have e := h.1
  simp only [run, Core.withBudgets, mk] at e
  have hc : o1.ctl = o.ctl := by injection e
  have hw : w1 = w' := by injection e
  refine ⟨rfl, ?_, hw.symm⟩
  cases o <;> cases o1 <;> simp [Out.ctl] at hc <;> simp [hc]

/-- from a core that is not finished, the first step is forced -/
theorem FinN.step {c : Core} {n : Nat} {o : Out} {w' : World} (h : FinN B c n o w') (hu : ¬ Underflow c) :
    ∃ m, n = m + 1 ∧ FinN B (stepCore B c) m o w' := by
  cases n with
  | zero =>
    exfalso
    have e := h.1
    simp only [run] at e
    have : c = mk o [] w' := by
      have := congrArg Cfg.core e
      exact this
    exact hu (this ▸ underflow_mk o w')
  | succ m =>
    refine ⟨m, rfl, ?_, ?_⟩
    · have := h.1; rw [run] at this; exact this
    · intro i hi
      have := h.2 (i + 1) (by omega)
      rw [run] at this
      exact this

theorem least_index (P : Nat → Prop) : ∀ n, (∃ i, i ≤ n ∧ P i) → ∃ i, i ≤ n ∧ P i ∧ ∀ j, j < i → ¬ P j := by
  intro n
  induction n with
  | zero =>
    rintro ⟨i, hi, hp⟩
    have : i = 0 := by omega
    subst this
    exact ⟨0, Nat.le_refl _, hp, fun j hj => by omega⟩
  | succ n ih =>
    intro hex
    by_cases h : ∃ i, i ≤ n ∧ P i
    · obtain ⟨i, hi, hp, hm⟩ := ih h
      exact ⟨i, by omega, hp, hm⟩
    · obtain ⟨i, hi, hp⟩ := hex
      have : i = n + 1 := by
        by_cases e : i ≤ n
        · exact absurd ⟨i, e, hp⟩ h
        · omega
      subst this
      refine ⟨n + 1, Nat.le_refl _, hp, fun j hj hpj => h ⟨j, by omega, hpj⟩⟩

/-- **a run beneath a frame that ends with an empty continuation splits**: the part on top of the frame finishes first
    (alone, it would finish the same way), the frame takes its outcome, and the rest runs from there -/
theorem FinN.split {c : Core} {fr : Frame} {n : Nat} {o : Out} {w' : World} (h : FinN B (c.app [fr]) n o w') :
    ∃ n1 o1 w1 m, FinN B c n1 o1 w1 ∧ n = n1 + 1 + m ∧ FinN B (after fr o1 [] w1) m o w' := by
  have happ : ∀ i, (∀ j, j < i → ¬ Underflow (run j (c.withBudgets B)).core) →
      run i ((c.app [fr]).withBudgets B) = (run i (c.withBudgets B)).app [fr] := fun i hi =>
    run_app i (c.withBudgets B) [fr] hi
  have hex : ∃ i, i ≤ n ∧ Underflow (run i (c.withBudgets B)).core := by
    apply Classical.byContradiction
    intro hno
    have hall : ∀ j, j < n → ¬ Underflow (run j (c.withBudgets B)).core := fun j hj hu => hno ⟨j, by omega, hu⟩
    have e := happ n hall
    rw [h.1] at e
    have hk := congrArg Cfg.k e
    simp [Cfg.app, Core.withBudgets, mk] at hk
  obtain ⟨n1, hle, hu, hmin⟩ := least_index _ n hex
  obtain ⟨hk, hctl⟩ := hu
  -- the core reached at n1
  have hb := run_budgets n1 (c.withBudgets B)
  have hcfg : run n1 (c.withBudgets B) = (run n1 (c.withBudgets B)).core.withBudgets B := by
    conv => lhs; rw [cfg_eq_core (run n1 (c.withBudgets B))]
    rw [hb]; rfl
  have hfin : ∃ o1, (run n1 (c.withBudgets B)).core = mk o1 [] (run n1 (c.withBudgets B)).core.w := by
    rcases hctl with ⟨v, hv⟩ | ⟨e, he⟩
    · refine ⟨.ret v, ?_⟩
      cases hcore : (run n1 (c.withBudgets B)).core with
      | mk ctl k w => rw [hcore] at hk hv; simp only at hk hv; subst hk; subst hv; rfl
    · refine ⟨.raise e, ?_⟩
      cases hcore : (run n1 (c.withBudgets B)).core with
      | mk ctl k w => rw [hcore] at hk he; simp only at hk he; subst hk; subst he; rfl
  obtain ⟨o1, ho1⟩ := hfin
  generalize hw1 : (run n1 (c.withBudgets B)).core.w = w1 at ho1
  have hrun1 : run n1 (c.withBudgets B) = (mk o1 [] w1).withBudgets B := by rw [hcfg, ho1]
  have hF1 : FinN B c n1 o1 w1 := ⟨hrun1, hmin⟩
  have hframed : run n1 ((c.app [fr]).withBudgets B) = (mk o1 [fr] w1).withBudgets B := by
    rw [happ n1 hmin, hrun1]; rfl
  have hne : n1 ≠ n := by
    intro e
    subst e
    rw [h.1] at hframed
    have hk := congrArg Cfg.k hframed
    simp [Core.withBudgets, mk] at hk
  obtain ⟨m, hm⟩ : ∃ m, n = n1 + 1 + m := ⟨n - n1 - 1, by omega⟩
  have hstep : run (n1 + 1) ((c.app [fr]).withBudgets B) = (after fr o1 [] w1).withBudgets B := by
    rw [run_add', hframed]
    cases o1 <;> rfl
  refine ⟨n1, o1, w1, m, hF1, hm, ?_, ?_⟩
  · rw [← hstep, ← run_add', ← hm]; exact h.1
  · intro i hi
    rw [← hstep, ← run_add']
    exact h.2 (n1 + 1 + i) (by omega)

theorem ev_not_underflow (op : Op) (vmi : Nat) (k : List Frame) (w : World) :
    ¬ Underflow ({ ctl := .ev op vmi, k := k, w := w } : Core) := fun hu => by
  rcases hu.2 with ⟨v, hv⟩ | ⟨e, he⟩ <;> cases ‹_›

theorem FinN.of_mkP {p : Out × World} {n : Nat} {o : Out} {w' : World} (h : FinN B (mkP p []) n o w') :
    n = 0 ∧ (o, w') = p := by
  obtain ⟨h1, h2, h3⟩ := FinN.of_finished (o1 := p.1) (w1 := p.2) h
  exact ⟨h1, by rw [h2, h3]⟩

theorem FinN.of_mkRaise {e : PyErr} {w1 : World} {n : Nat} {o : Out} {w' : World} (h : FinN B (mkRaise e [] w1) n o w') :
    n = 0 ∧ o = .raise e ∧ w' = w1 := FinN.of_finished (o1 := .raise e) h

theorem FinN.of_mkRet {v : Val} {w1 : World} {n : Nat} {o : Out} {w' : World} (h : FinN B (mkRet v [] w1) n o w') :
    n = 0 ∧ o = .ret v ∧ w' = w1 := FinN.of_finished (o1 := .ret v) h

/-- the first step of a node evaluation -/
theorem FinN.enter {op : Op} {vmi : Nat} {w0 : World} {n : Nat} {o : Out} {w' : World}
    (h : FinN B { ctl := .ev op vmi, k := [], w := w0 } n o w') :
    (charge w0 B vmi = none ∧ o = .raise (.unmodelled "vm") ∧ w' = w0) ∨
    (∃ w m, charge w0 B vmi = some (w, some m) ∧ o = .raise (.opsLimit m) ∧ w' = w) ∨
    (∃ w m, charge w0 B vmi = some (w, none) ∧ n = m + 1 ∧ FinN B (Sq.enter op vmi [] w) m o w') := by
  obtain ⟨m, hm, hs⟩ := h.step (ev_not_underflow _ _ _ _)
  cases hc : charge w0 B vmi with
  | none =>
    have : stepCore B { ctl := .ev op vmi, k := [], w := w0 } = mk (.raise (.unmodelled "vm")) [] w0 := by
      simp [stepCore, hc, mk, Out.ctl]
    rw [this] at hs
    obtain ⟨_, h2, h3⟩ := hs.of_finished
    exact Or.inl ⟨rfl, h2, h3⟩
  | some p =>
    obtain ⟨w, lim⟩ := p
    cases lim with
    | some l =>
      have : stepCore B { ctl := .ev op vmi, k := [], w := w0 } = mk (.raise (.opsLimit l)) [] w := by
        simp [stepCore, hc, mk, Out.ctl]
      rw [this] at hs
      obtain ⟨_, h2, h3⟩ := hs.of_finished
      exact Or.inr (Or.inl ⟨w, l, rfl, h2, h3⟩)
    | none =>
      have : stepCore B { ctl := .ev op vmi, k := [], w := w0 } = Sq.enter op vmi [] w := by
        simp [stepCore, hc]
      rw [this] at hs
      exact Or.inr (Or.inr ⟨w, m, rfl, hm, hs⟩)

/-- one operand beneath a frame that lets errors pass, read backwards: the operand finishes first -/
theorem operand_complete {N : Nat}
    (ihop : ∀ k, k < N → ∀ op vmi w o w', FinN B { ctl := .ev op vmi, k := [], w := w } k o w' →
      ∃ f, evalOp B f op vmi w = some (o, w'))
    (fr : Frame) (hunw : ∀ e k w, unwind fr e k w = mkRaise e k w)
    {a : Op} {vmi : Nat} {w : World} {n : Nat} {o : Out} {w' : World} (hn : n ≤ N)
    (h : FinN B { ctl := .ev a vmi, k := [fr], w := w } n o w') :
    ∃ f1 o1 w1, evalOp B f1 a vmi w = some (o1, w1) ∧
      ((∃ e, o1 = .raise e ∧ o = .raise e ∧ w' = w1) ∨
       (∃ v m, o1 = .ret v ∧ m < n ∧ FinN B (resume fr v [] w1) m o w')) := by
  have h' : FinN B (({ ctl := .ev a vmi, k := [], w := w } : Core).app [fr]) n o w' := h
  obtain ⟨n1, o1, w1, m, hF1, hnm, hrest⟩ := h'.split
  obtain ⟨f1, he⟩ := ihop n1 (by omega) _ _ _ _ _ hF1
  refine ⟨f1, o1, w1, he, ?_⟩
  cases o1 with
  | raise e =>
    simp only [after, hunw] at hrest
    obtain ⟨_, h2, h3⟩ := hrest.of_mkRaise
    exact Or.inl ⟨e, rfl, h2, h3⟩
  | ret v => exact Or.inr ⟨v, m, rfl, by omega, hrest⟩

theorem andThen_ret {r : Res} {g : Val → World → Res} {v : Val} {w1 : World} (h : r = some (.ret v, w1)) :
    andThen r g = g v w1 := by subst h; rfl

theorem andThen_raise {r : Res} {g : Val → World → Res} {e : PyErr} {w1 : World} (h : r = some (.raise e, w1)) :
    andThen r g = some (.raise e, w1) := by subst h; rfl


/-- completeness at exactly `n` machine steps -/
structure Comp (B : List Nat) (n : Nat) : Prop where
  op : ∀ op vmi w o w', FinN B { ctl := .ev op vmi, k := [], w := w } n o w' → ∃ f, evalOp B f op vmi w = some (o, w')
  call : ∀ tf fn args w o w', FinN B (callVal tf fn args [] w) n o w' → ∃ f, applyVal B f tf fn args w = some (o, w')
  iter : ∀ tf kind g src acc w o w', FinN B (iterNext tf kind g src acc [] w) n o w' →
    ∃ f, iterate B f tf kind g src acc w = some (o, w')
  lines : ∀ l rest vmi w o w', FinN B { ctl := .ev l vmi, k := [.codeK rest vmi], w := w } n o w' →
    ∃ f, evalLines B f l rest vmi w = some (o, w')
  list : ∀ a rest vmi w o w' (LF : ListFrame vmi) (done : List Val),
    FinN B { ctl := .ev a vmi, k := [LF.F done rest], w := w } n o w' →
    ∃ f r w1 m, evalList B f (a :: rest) vmi w = some (r, w1) ∧ m ≤ n ∧ FinN B (listGoal LF done r w1) m o w'

variable {n : Nat}

theorem comp_lines (ih : ∀ k, k < n → Comp B k) : ∀ l rest vmi w o w',
    FinN B { ctl := .ev l vmi, k := [.codeK rest vmi], w := w } n o w' → ∃ f, evalLines B f l rest vmi w = some (o, w') := by
  intro l rest vmi w o w' h
  obtain ⟨f1, o1, w1, he, hcase⟩ := operand_complete (fun k hk => (ih k hk).op) (.codeK rest vmi) (fun _ _ _ => rfl)
    (Nat.le_refl n) h
  rcases hcase with ⟨e, rfl, rfl, rfl⟩ | ⟨v, m, rfl, hm, hfin⟩
  · exact ⟨f1 + 1, by rw [evalLines, andThen_raise he]⟩
  · cases rest with
    | nil =>
      obtain ⟨_, h2, h3⟩ := (show FinN B (mkRet v [] w1) m o w' from hfin).of_mkRet
      subst h2; subst h3
      exact ⟨f1 + 1, by rw [evalLines, andThen_ret he]⟩
    | cons l' rest' =>
      obtain ⟨f2, he2⟩ := (ih m hm).lines _ _ _ _ _ _ (show FinN B { ctl := .ev l' vmi, k := [.codeK rest' vmi], w := w1 } m o w' from hfin)
      refine ⟨max f1 f2 + 1, ?_⟩
      rw [evalLines, andThen_ret (evalOp_mono (Nat.le_max_left f1 f2) he)]
      exact evalLines_mono (Nat.le_max_right f1 f2) he2

theorem comp_list (ih : ∀ k, k < n → Comp B k) : ∀ a rest vmi w o w' (LF : ListFrame vmi) (done : List Val),
    FinN B { ctl := .ev a vmi, k := [LF.F done rest], w := w } n o w' →
    ∃ f r w1 m, evalList B f (a :: rest) vmi w = some (r, w1) ∧ m ≤ n ∧ FinN B (listGoal LF done r w1) m o w' := by
  intro a rest vmi w o w' LF done h
  obtain ⟨f1, o1, w1, he, hcase⟩ := operand_complete (fun k hk => (ih k hk).op) (LF.F done rest) (LF.unw done rest)
    (Nat.le_refl n) h
  rcases hcase with ⟨e, rfl, rfl, rfl⟩ | ⟨v, m, rfl, hm, hfin⟩
  · refine ⟨f1 + 1, .error e, w', 0, ?_, Nat.zero_le _, ?_⟩
    · simp only [evalList, he]
    · exact ⟨rfl, fun i hi => by omega⟩
  · cases rest with
    | nil =>
      rw [LF.last] at hfin
      refine ⟨f1 + 2, .ok [v], w1, m, ?_, by omega, ?_⟩
      · have he' := evalOp_mono (Nat.le_succ f1) he
        simp only [evalList, he']
      · simpa [listGoal, List.reverse_cons] using hfin
    | cons b rest' =>
      rw [LF.next] at hfin
      obtain ⟨f2, r2, w2, m2, he2, hm2, hfin2⟩ := (ih m hm).list _ _ _ _ _ _ LF (v :: done) hfin
      refine ⟨max f1 f2 + 1, (match r2 with | .ok vs => .ok (v :: vs) | .error e => .error e), w2, m2, ?_, by omega, ?_⟩
      · have he' := evalOp_mono (Nat.le_max_left f1 f2) he
        have he2' := evalList_mono (Nat.le_max_right f1 f2) he2
        simp only [evalList, he', he2']
        cases r2 <;> rfl
      · cases r2 with
        | error e => exact hfin2
        | ok vs => simpa [listGoal, List.reverse_cons, List.append_assoc] using hfin2

theorem unwind_iterK (kind : IterKind) (g : Val) (src : IterSrc) (cur : Val) (acc : List Val) (e : PyErr) (k : List Frame)
    (w : World) : unwind (.iterK kind g src cur acc) e k w = mkRaise e k w := rfl

theorem comp_iter (ih : ∀ k, k < n → Comp B k) : ∀ tf kind g src acc w o w',
    FinN B (iterNext tf kind g src acc [] w) n o w' → ∃ f, iterate B f tf kind g src acc w = some (o, w') := by
  intro tf kind g src acc w o w' h
  cases tf with
  | zero =>
    obtain ⟨_, h2, h3⟩ := (show FinN B (mkRaise (.unmodelled "call-fuel") [] w) n o w' from h).of_mkRaise
    subst h2; subst h3
    exact ⟨1, by simp only [iterate]⟩
  | succ tf =>
    cases hn : nextItem w.heap src with
    | none =>
      rw [iterNext_done _ _ _ _ _ _ _ hn] at h
      obtain ⟨_, h2⟩ := h.of_mkP
      exact ⟨1, by simp only [iterate, hn]; rw [h2]⟩
    | some p =>
      obtain ⟨item, src'⟩ := p
      rw [iterNext_some _ _ _ _ _ _ _ _ _ hn, ← callVal_app_nil] at h
      obtain ⟨n1, o1, w1, m, hF1, hnm, hrest⟩ := h.split
      obtain ⟨f1, he⟩ := (ih n1 (by omega)).call _ _ _ _ _ _ hF1
      cases o1 with
      | raise e =>
        simp only [after, unwind_iterK] at hrest
        obtain ⟨_, h2, h3⟩ := hrest.of_mkRaise
        subst h2; subst h3
        exact ⟨f1 + 1, by simp only [iterate, hn]; rw [andThen_raise he]⟩
      | ret v =>
        simp only [after, resume_iterK] at hrest
        obtain ⟨f2, he2⟩ := (ih m (by omega)).iter _ _ _ _ _ _ _ _ hrest
        refine ⟨max f1 f2 + 1, ?_⟩
        simp only [iterate, hn]
        rw [andThen_ret (applyVal_mono (Nat.le_max_left f1 f2) he)]
        exact iterate_mono (Nat.le_max_right f1 f2) he2

/-- a higher-order builtin's start, read backwards -/
theorem comp_start (hiter : ∀ tf kind g src acc w o w',
      FinN B (iterNext tf kind g src acc [] w) n o w' → ∃ f, iterate B f tf kind g src acc w = some (o, w'))
    (tf : Nat) (st : Start) (w : World) (o : Out) (w' : World) (h : FinN B (startCore st (iterNext tf) [] w) n o w') :
    ∃ f, startThen B f tf st w = some (o, w') := by
  cases st with
  | now o1 w1 =>
    obtain ⟨_, h2, h3⟩ := (show FinN B (mk o1 [] w1) n o w' from h).of_finished
    subst h2; subst h3
    exact ⟨1, by simp only [startThen]⟩
  | iter kind g src acc =>
    obtain ⟨f, hf⟩ := hiter _ _ _ _ _ _ _ _ (show FinN B (iterNext tf kind g src acc [] w) n o w' from h)
    exact ⟨f + 1, by simp only [startThen]; exact hf⟩

theorem iht_lt (ih : ∀ k, k < n → Comp B k) (n1 : Nat) (h : n1 < n) :
    ∀ tf fn args w o w', FinN B (callVal tf fn args [] w) n1 o w' → ∃ f, applyVal B f tf fn args w = some (o, w') :=
  (ih n1 h).call

theorem comp_call (ih : ∀ k, k < n → Comp B k)
    (hiter : ∀ tf kind g src acc w o w',
      FinN B (iterNext tf kind g src acc [] w) n o w' → ∃ f, iterate B f tf kind g src acc w = some (o, w')) :
    ∀ tf fn args w o w', FinN B (callVal tf fn args [] w) n o w' → ∃ f, applyVal B f tf fn args w = some (o, w') := by
  intro tf
  induction tf with
  | zero =>
    intro fn args w o w' h
    obtain ⟨_, h2, h3⟩ := (show FinN B (mkRaise (.unmodelled "call-fuel") [] w) n o w' from h).of_mkRaise
    subst h2; subst h3
    exact ⟨1, by simp only [applyVal]⟩
  | succ tf iht =>
    intro fn args w o w' h
    -- a finished core decides at once
    have fin1 : ∀ (e : PyErr), FinN B (mkRaise e [] w) n o w' → applyVal B 1 (tf + 1) fn args w = some (.raise e, w) →
        ∃ f, applyVal B f (tf + 1) fn args w = some (o, w') := by
      intro e hf he
      obtain ⟨_, h2, h3⟩ := hf.of_mkRaise
      subst h2; subst h3
      exact ⟨1, he⟩
    cases fn with
    | closure params body vmi =>
      simp only [callVal, callClosure] at h
      cases hb : bindParams params args [] with
      | none => simp only [hb] at h; exact fin1 _ h (by simp only [applyVal, hb])
      | some kvs =>
        simp only [hb] at h
        cases hv : w.vm? vmi with
        | none => simp only [hv] at h; exact fin1 _ h (by simp only [applyVal, hb, hv])
        | some vm =>
          simp only [hv] at h
          obtain ⟨n1, o1, w1, m, hF1, hnm, hrest⟩ := FinN.split (c := { ctl := .ev body vmi, k := [], w := _ }) (fr := .popScopeK vmi) h
          obtain ⟨f1, he⟩ := (ih n1 (by omega)).op _ _ _ _ _ hF1
          rw [after_popScopeK] at hrest
          obtain ⟨_, h2⟩ := hrest.of_mkP
          refine ⟨f1 + 1, ?_⟩
          simp only [applyVal, hb, hv]
          split
          · rename_i hnone
            have : (none : Res) = some (o1, w1) := hnone.symm.trans he
            cases this
          · rename_i o2 w2 hsome
            have : (some (o2, w2) : Res) = some (o1, w1) := hsome.symm.trans he
            cases this
            rw [h2]
    | builtin name =>
      simp only [callVal] at h
      by_cases hm : (name == "map") = true
      · simp only [hm, if_true, callMap_eq] at h
        obtain ⟨f, hf⟩ := comp_start hiter _ _ _ _ _ h
        exact ⟨f + 1, by simp only [applyVal, hm, if_true]; exact hf⟩
      · simp only [hm] at h
        by_cases ht : (args.head?.map isTypeObject).getD false = true
        · simp only [ht, if_true] at h
          exact fin1 _ h (by simp only [applyVal, hm, ht, if_true]; rfl)
        · simp only [ht] at h
          by_cases h1 : (name == "filter") = true
          · simp only [h1, if_true, callFilter_eq] at h
            obtain ⟨f, hf⟩ := comp_start hiter _ _ _ _ _ h
            exact ⟨f + 1, by simp only [applyVal, hm, ht, h1, if_true]; exact hf⟩
          · simp only [h1] at h
            by_cases h2 : (name == "reduce") = true
            · simp only [h2, if_true, callReduce_eq] at h
              obtain ⟨f, hf⟩ := comp_start hiter _ _ _ _ _ h
              exact ⟨f + 1, by simp only [applyVal, hm, ht, h1, h2, if_true]; exact hf⟩
            · simp only [h2] at h
              by_cases h3 : (name == "sorted") = true
              · simp only [h3, if_true, callSorted_eq] at h
                obtain ⟨f, hf⟩ := comp_start hiter _ _ _ _ _ h
                exact ⟨f + 1, by simp only [applyVal, hm, ht, h1, h2, h3, if_true]; exact hf⟩
              · simp only [h3, ofBR_pure] at h
                obtain ⟨_, hp⟩ := h.of_mkP
                exact ⟨1, by simp only [applyVal, hm, ht, h1, h2, h3]; rw [hp]; rfl⟩
    | host id =>
      simp only [callVal] at h
      by_cases hp : (id == "probe") = true
      · simp only [hp, if_true, callProbe_eq] at h
        obtain ⟨_, hq⟩ := h.of_mkP
        exact ⟨1, by unfold applyVal; simp only [hp, if_true]; rw [hq]⟩
      · simp only [hp, Bool.false_eq_true, ↓reduceIte] at h
        by_cases ha : (id == "apply") = true
        · simp only [ha, if_true] at h
          cases args with
          | nil => exact fin1 _ h (by unfold applyVal; simp only [hp, ha, if_true]; rfl)
          | cons g rest =>
            obtain ⟨f, hf⟩ := iht _ _ _ _ _ h
            exact ⟨f + 1, by unfold applyVal; simp only [hp, ha, if_true]; exact hf⟩
        · simp only [ha, Bool.false_eq_true, ↓reduceIte] at h
          by_cases ht : (id == "try_apply") = true
          · simp only [ht, if_true] at h
            cases args with
            | nil => exact fin1 _ h (by unfold applyVal; simp only [hp, ha, ht, if_true]; rfl)
            | cons g rest =>
              simp only [] at h
              rw [← callVal_app_nil] at h
              obtain ⟨n1, o1, w1, m, hF1, hnm, hrest⟩ := h.split
              obtain ⟨f1, he⟩ := iht_lt ih n1 (by omega) _ _ _ _ _ _ hF1
              rw [after_tryK] at hrest
              obtain ⟨_, h2⟩ := hrest.of_mkP
              refine ⟨f1 + 1, ?_⟩
              unfold applyVal
              simp only [hp, ha, ht, if_true, he, Bool.false_eq_true, ↓reduceIte]
              rw [h2]
          · simp only [ht, Bool.false_eq_true, ↓reduceIte] at h
            exact fin1 _ h (by unfold applyVal; simp only [hp, ha, ht]; rfl)
    | «opaque» s => exact fin1 _ h (by simp only [applyVal])
    | none => exact fin1 _ h (by simp only [applyVal])
    | bool b => exact fin1 _ h (by simp only [applyVal])
    | dec d c => exact fin1 _ h (by simp only [applyVal])
    | int i => exact fin1 _ h (by simp only [applyVal])
    | str s => exact fin1 _ h (by simp only [applyVal])
    | slice a b c => exact fin1 _ h (by simp only [applyVal])
    | ref a => exact fin1 _ h (by simp only [applyVal])
    | tuple vs => exact fin1 _ h (by simp only [applyVal])

/-- the callee lookup and the call, read backwards -/
theorem comp_call_tail {m : Nat} (hcall : ∀ tf fn args w o w', FinN B (callVal tf fn args [] w) m o w' →
      ∃ f, applyVal B f tf fn args w = some (o, w'))
    {nm : Name} {vs : List Val} {vmi : Nat} {w1 : World} {o : Out} {w' : World}
    (h : FinN B (doCall nm vs vmi [] w1) m o w') :
    ∃ f, (match w1.vm? vmi with
          | none => some (Out.raise (.unmodelled "vm"), w1)
          | some vm => match lookupName w1.heap vm.scopes nm with
            | none => some (Out.raise (.parser "Undefined function"), w1)
            | some fn => applyVal B f callFuel fn vs w1) = some (o, w') := by
  rw [doCall_eq] at h
  cases hv : w1.vm? vmi with
  | none =>
    simp only [hv] at h ⊢
    obtain ⟨_, h2, h3⟩ := h.of_finished
    subst h2; subst h3; exact ⟨0, rfl⟩
  | some vm =>
    simp only [hv] at h ⊢
    cases hl : lookupName w1.heap vm.scopes nm with
    | none =>
      simp only [hl] at h ⊢
      obtain ⟨_, h2, h3⟩ := h.of_finished
      subst h2; subst h3; exact ⟨0, rfl⟩
    | some fn =>
      simp only [hl] at h ⊢
      exact hcall _ _ _ _ _ _ h

theorem comp_op (ih : ∀ k, k < n → Comp B k) : ∀ op vmi w o w',
    FinN B { ctl := .ev op vmi, k := [], w := w } n o w' → ∃ f, evalOp B f op vmi w = some (o, w') := by
  intro op vmi w0 o w' h
  rcases h.enter with ⟨hc, rfl, rfl⟩ | ⟨w, l, hc, rfl, rfl⟩ | ⟨w, m, hc, hnm, hs⟩
  · exact ⟨1, by rw [evalOp]; simp only [hc]⟩
  · exact ⟨1, by rw [evalOp]; simp only [hc]⟩
  · have ihop : ∀ k, k < n → ∀ op vmi w o w', FinN B { ctl := .ev op vmi, k := [], w := w } k o w' →
        ∃ f, evalOp B f op vmi w = some (o, w') := fun k hk => (ih k hk).op
    have hmn : m ≤ n := by omega
    -- a node whose `enter` is finished at once
    have leaf : ∀ (p : Out × World), FinN B (mkP p []) m o w' → evalOp B 1 op vmi w0 = some p →
        ∃ f, evalOp B f op vmi w0 = some (o, w') := by
      intro p hf he
      obtain ⟨_, h2⟩ := hf.of_mkP
      exact ⟨1, by rw [he, h2]⟩
    -- one operand, then a finished frame action
    have unary1 : ∀ (fr : Frame) (a : Op) (act : Val → World → Out × World),
        (∀ e k w, unwind fr e k w = mkRaise e k w) → (∀ v w1, resume fr v [] w1 = mkP (act v w1) []) →
        FinN B { ctl := .ev a vmi, k := [fr], w := w } m o w' →
        (∀ f, evalOp B (f + 1) op vmi w0 = andThen (evalOp B f a vmi w) fun v w1 => some (act v w1)) →
        ∃ f, evalOp B f op vmi w0 = some (o, w') := by
      intro fr a act hunw hres hf heq
      obtain ⟨f1, o1, w1, he, hcase⟩ := operand_complete ihop fr hunw hmn hf
      rcases hcase with ⟨e, rfl, rfl, rfl⟩ | ⟨v, m2, rfl, hm2, hfin⟩
      · exact ⟨f1 + 1, by rw [heq, andThen_raise he]⟩
      · rw [hres] at hfin
        obtain ⟨_, h2⟩ := hfin.of_mkP
        exact ⟨f1 + 1, by rw [heq, andThen_ret he, h2]⟩
    cases op with
    | noop => exact leaf (.ret .none, w) hs (by rw [evalOp]; simp only [hc])
    | value l =>
      refine leaf (.ret (litVal l), w) ?_ (by rw [evalOp]; simp only [hc])
      cases l <;> exact hs
    | code ls =>
      cases ls with
      | nil => exact leaf (.ret .none, w) hs (by rw [evalOp]; simp only [hc])
      | cons l rest =>
        obtain ⟨f, hf⟩ := (ih m (by omega)).lines _ _ _ _ _ _ hs
        exact ⟨f + 1, by rw [evalOp]; simp only [hc]; exact hf⟩
    | name nm =>
      rw [enter_name] at hs
      exact leaf _ hs (by rw [evalOp]; simp only [hc])
    | lambda ps body => exact leaf (.ret (.closure ps body vmi), w) hs (by rw [evalOp]; simp only [hc])
    | unary uk a =>
      exact unary1 (.unK uk) a (unAct uk) (fun _ _ _ => rfl) (fun v w1 => resume_unK uk v [] w1) hs
        (fun f => by rw [evalOp]; simp only [hc])
    | assign nm a =>
      exact unary1 (.assignK nm vmi) a (assignAct nm vmi) (fun _ _ _ => rfl) (fun v w1 => resume_assignK nm vmi v [] w1) hs
        (fun f => by rw [evalOp]; simp only [hc])
    | short nm sk a =>
      exact unary1 (.shortK nm sk vmi) a (shortAct nm sk vmi) (fun _ _ _ => rfl)
        (fun v w1 => resume_shortK nm sk vmi v [] w1) hs (fun f => by rw [evalOp]; simp only [hc])
    | ifx c a b =>
      obtain ⟨f1, o1, w1, he, hcase⟩ := operand_complete ihop (.ifK a b vmi) (fun _ _ _ => rfl) hmn hs
      rcases hcase with ⟨e, rfl, rfl, rfl⟩ | ⟨vc, m2, rfl, hm2, hfin⟩
      · exact ⟨f1 + 1, by rw [evalOp]; simp only [hc]; rw [andThen_raise he]⟩
      · simp only [resume] at hfin
        by_cases ht : truthy w1.heap vc = true
        · simp only [ht, if_true] at hfin
          obtain ⟨f2, he2⟩ := ihop m2 (by omega) _ _ _ _ _ hfin
          refine ⟨max f1 f2 + 1, ?_⟩
          rw [evalOp]; simp only [hc]
          rw [andThen_ret (evalOp_mono (Nat.le_max_left f1 f2) he)]
          simp only [ht, if_true]
          exact evalOp_mono (Nat.le_max_right f1 f2) he2
        · simp only [ht] at hfin
          obtain ⟨f2, he2⟩ := ihop m2 (by omega) _ _ _ _ _ hfin
          refine ⟨max f1 f2 + 1, ?_⟩
          rw [evalOp]; simp only [hc]
          rw [andThen_ret (evalOp_mono (Nat.le_max_left f1 f2) he)]
          simp only [ht]
          exact evalOp_mono (Nat.le_max_right f1 f2) he2
    | bin bk a b =>
      obtain ⟨f1, o1, w1, he, hcase⟩ := operand_complete ihop (.binL bk b vmi) (fun _ _ _ => rfl) hmn hs
      rcases hcase with ⟨e, rfl, rfl, rfl⟩ | ⟨va, m2, rfl, hm2, hfin⟩
      · exact ⟨f1 + 1, by rw [evalOp]; simp only [hc]; rw [andThen_raise he]⟩
      · cases bk
        case and =>
          simp only [resume] at hfin
          by_cases ht : truthy w1.heap va = true
          · simp only [ht, if_true] at hfin
            obtain ⟨f2, he2⟩ := ihop m2 (by omega) _ _ _ _ _ hfin
            refine ⟨max f1 f2 + 1, ?_⟩
            rw [evalOp]; simp only [hc]
            rw [andThen_ret (evalOp_mono (Nat.le_max_left f1 f2) he)]
            simp only [ht, if_true]
            exact evalOp_mono (Nat.le_max_right f1 f2) he2
          · simp only [ht] at hfin
            obtain ⟨_, h2, h3⟩ := (show FinN B (mkRet va [] w1) m2 o w' from hfin).of_mkRet
            subst h2; subst h3
            refine ⟨f1 + 1, ?_⟩
            rw [evalOp]; simp only [hc]
            rw [andThen_ret he]
            simp only [ht]; rfl
        case or =>
          simp only [resume] at hfin
          by_cases ht : truthy w1.heap va = true
          · simp only [ht, if_true] at hfin
            obtain ⟨_, h2, h3⟩ := (show FinN B (mkRet va [] w1) m2 o w' from hfin).of_mkRet
            subst h2; subst h3
            refine ⟨f1 + 1, ?_⟩
            rw [evalOp]; simp only [hc]
            rw [andThen_ret he]
            simp only [ht, if_true]
          · simp only [ht] at hfin
            obtain ⟨f2, he2⟩ := ihop m2 (by omega) _ _ _ _ _ hfin
            refine ⟨max f1 f2 + 1, ?_⟩
            rw [evalOp]; simp only [hc]
            rw [andThen_ret (evalOp_mono (Nat.le_max_left f1 f2) he)]
            simp only [ht]
            exact evalOp_mono (Nat.le_max_right f1 f2) he2
        all_goals
          simp only [resume] at hfin
          obtain ⟨f2, o2, w2, he2, hcase2⟩ := operand_complete ihop (.binR _ va) (fun _ _ _ => rfl) (by omega) hfin
          refine ⟨max f1 f2 + 1, ?_⟩
          rw [evalOp]; simp only [hc]
          rw [andThen_ret (evalOp_mono (Nat.le_max_left f1 f2) he)]
          rcases hcase2 with ⟨e, rfl, rfl, rfl⟩ | ⟨vb, m3, rfl, hm3, hfin3⟩
          · rw [andThen_raise (evalOp_mono (Nat.le_max_right f1 f2) he2)]
          · rw [resume_binR] at hfin3
            obtain ⟨_, h2⟩ := hfin3.of_mkP
            rw [andThen_ret (evalOp_mono (Nat.le_max_right f1 f2) he2), h2]
    | slice a b c =>
      obtain ⟨f1, o1, w1, he, hcase⟩ := operand_complete ihop (.sliceK [] [b, c] vmi) (fun _ _ _ => rfl) hmn hs
      rcases hcase with ⟨e, rfl, rfl, rfl⟩ | ⟨va, m2, rfl, hm2, hfin⟩
      · exact ⟨f1 + 1, by rw [evalOp]; simp only [hc]; rw [andThen_raise he]⟩
      · simp only [resume] at hfin
        cases ca : safeCastInt va with
        | error e =>
          simp only [ca] at hfin
          obtain ⟨_, h2, h3⟩ := hfin.of_mkRaise
          subst h2; subst h3
          exact ⟨f1 + 1, by rw [evalOp]; simp only [hc]; rw [andThen_ret he]; simp only [ca]⟩
        | ok xa =>
          simp only [ca] at hfin
          obtain ⟨f2, o2, w2, he2, hcase2⟩ := operand_complete ihop (.sliceK [xa] [c] vmi) (fun _ _ _ => rfl) (by omega) hfin
          rcases hcase2 with ⟨e, rfl, rfl, rfl⟩ | ⟨vb, m3, rfl, hm3, hfin3⟩
          · refine ⟨max f1 f2 + 1, ?_⟩
            rw [evalOp]; simp only [hc]
            rw [andThen_ret (evalOp_mono (Nat.le_max_left f1 f2) he)]
            simp only [ca]
            rw [andThen_raise (evalOp_mono (Nat.le_max_right f1 f2) he2)]
          · simp only [resume] at hfin3
            cases cb : safeCastInt vb with
            | error e =>
              simp only [cb] at hfin3
              obtain ⟨_, h2, h3⟩ := hfin3.of_mkRaise
              subst h2; subst h3
              refine ⟨max f1 f2 + 1, ?_⟩
              rw [evalOp]; simp only [hc]
              rw [andThen_ret (evalOp_mono (Nat.le_max_left f1 f2) he)]
              simp only [ca]
              rw [andThen_ret (evalOp_mono (Nat.le_max_right f1 f2) he2)]
              simp only [cb]
            | ok xb =>
              simp only [cb] at hfin3
              obtain ⟨f3, o3, w3, he3, hcase3⟩ := operand_complete ihop (.sliceK [xb, xa] [] vmi) (fun _ _ _ => rfl)
                (by omega) hfin3
              have e1 := evalOp_mono (show f1 ≤ max (max f1 f2) f3 by omega) he
              have e2 := evalOp_mono (show f2 ≤ max (max f1 f2) f3 by omega) he2
              have e3 := evalOp_mono (show f3 ≤ max (max f1 f2) f3 by omega) he3
              refine ⟨max (max f1 f2) f3 + 1, ?_⟩
              rw [evalOp]; simp only [hc]
              rw [andThen_ret e1]; simp only [ca]
              rw [andThen_ret e2]; simp only [cb]
              rcases hcase3 with ⟨e, rfl, rfl, rfl⟩ | ⟨vc, m4, rfl, hm4, hfin4⟩
              · rw [andThen_raise e3]
              · rw [andThen_ret e3]
                simp only [resume] at hfin4
                cases cc : safeCastInt vc with
                | error e =>
                  simp only [cc] at hfin4 ⊢
                  obtain ⟨_, h2, h3⟩ := hfin4.of_mkRaise
                  rw [h2, h3]
                | ok xc =>
                  simp only [cc] at hfin4 ⊢
                  obtain ⟨_, h2, h3⟩ := (show FinN B (mkRet (.slice xa xb xc) [] w3) m4 o w' from hfin4).of_mkRet
                  rw [h2, h3]
    | call nm args =>
      cases args with
      | nil =>
        obtain ⟨f, hf⟩ := comp_call_tail (ih m (by omega)).call (show FinN B (doCall nm [] vmi [] w) m o w' from hs)
        refine ⟨f + 1 + 1, ?_⟩
        rw [evalOp]; simp only [hc, evalList]
        cases hv : w.vm? vmi with
        | none => simpa [hv] using hf
        | some vm =>
          simp only [hv] at hf ⊢
          cases hl : lookupName w.heap vm.scopes nm with
          | none => simpa [hl] using hf
          | some fn => simp only [hl] at hf ⊢; exact applyVal_mono (Nat.le_succ f) hf
      | cons a rest =>
        obtain ⟨f1, r, w1, m2, he, hm2, hfin⟩ := (ih m (by omega)).list _ _ _ _ _ _ (argsLF nm vmi) [] hs
        cases r with
        | error e =>
          obtain ⟨_, h2, h3⟩ := (show FinN B (mk (.raise e) [] w1) m2 o w' from hfin).of_finished
          subst h2; subst h3
          exact ⟨f1 + 1, by rw [evalOp]; simp only [hc, he]⟩
        | ok vs =>
          simp only [listGoal, List.reverse_nil, List.nil_append] at hfin
          obtain ⟨f2, hf⟩ := comp_call_tail (ih m2 (by omega)).call (show FinN B (doCall nm vs vmi [] w1) m2 o w' from hfin)
          refine ⟨max f1 f2 + 1, ?_⟩
          rw [evalOp]; simp only [hc, evalList_mono (Nat.le_max_left f1 f2) he]
          cases hv : w1.vm? vmi with
          | none => simpa [hv] using hf
          | some vm =>
            simp only [hv] at hf ⊢
            cases hl : lookupName w1.heap vm.scopes nm with
            | none => simpa [hl] using hf
            | some fn => simp only [hl] at hf ⊢; exact applyVal_mono (Nat.le_max_right f1 f2) hf
    | dict parts =>
      cases parts with
      | nil =>
        rw [enter_dict_nil] at hs
        obtain ⟨_, h2⟩ := hs.of_mkP
        exact ⟨2, by rw [evalOp]; simp only [hc, evalList]; rw [h2]⟩
      | cons a rest =>
        obtain ⟨f1, r, w1, m2, he, hm2, hfin⟩ := (ih m (by omega)).list _ _ _ _ _ _ (dictLF vmi) [] hs
        cases r with
        | error e =>
          obtain ⟨_, h2, h3⟩ := (show FinN B (mk (.raise e) [] w1) m2 o w' from hfin).of_finished
          subst h2; subst h3
          exact ⟨f1 + 1, by rw [evalOp]; simp only [hc, he]⟩
        | ok vs =>
          simp only [listGoal, List.reverse_nil, List.nil_append] at hfin
          obtain ⟨_, h2⟩ := (show FinN B (mkP (dictAct vs w1) []) m2 o w' from hfin).of_mkP
          exact ⟨f1 + 1, by rw [evalOp]; simp only [hc, he]; rw [h2]⟩

/-- completeness at every step count -/
theorem comp : ∀ n, Comp B n := by
  intro n
  induction n using Nat.strongRecOn with
  | _ n ih =>
    have hiter := comp_iter ih
    exact { op := comp_op ih, call := comp_call ih hiter, iter := hiter, lines := comp_lines ih, list := comp_list ih }

/-- **the compositional semantics is complete for the machine**: whenever the machine, started on a node alone, finishes
    with an outcome (a value returned or an error raised to an empty continuation), some fuel makes `evalOp` yield exactly
    that outcome and world -/
theorem evalOp_complete (op : Op) (vmi : Nat) (w : World) (n : Nat) (o : Out) (w' : World)
    (h : run n { ctl := .ev op vmi, k := [], w := w, budgets := B } = { ctl := o.ctl, k := [], w := w', budgets := B })
    (hu : ∀ i, i < n → ¬ Underflow (run i { ctl := .ev op vmi, k := [], w := w, budgets := B }).core) :
    ∃ f, evalOp B f op vmi w = some (o, w') :=
  (comp n).op op vmi w o w' ⟨h, hu⟩
end Sq.Den
