/-
  SqLemmas/PlainAll.lean — C02 [B]: every entry of the builtin table maps plain arguments and a plain heap to a plain
  result and a plain heap — with the single exception recorded as finding D15 (`dict[k]` subscripts the type object).
-/
import SqLemmas.InvLemmas
import SqLemmas.RandLemmas
namespace Sq.Inv

variable {Pc : List Op → Op → Nat → Prop} {Pb : String → Prop} {Pq : String → Prop} {Pr : Nat → Prop}
local notation "NP" => NPg Pc Pb Pq Pr
local notation "ObjNP" => ObjNPg Pc Pb Pq Pr
local notation "HeapNP" => HeapNPg Pc Pb Pq Pr
local notation "AllNP" => AllNPg Pc Pb Pq Pr

variable (Pc Pb Pq Pr) in
/-- the invariant for the engine answers still to be consumed -/
def RxNPg (rx : List RxAns) : Prop :=
  ∀ a, a ∈ rx → match a with
    | .matched g0 gs => NP g0 ∧ AllNP gs
    | .all items => AllNP items
    | _ => True

local notation "RxNP" => RxNPg Pc Pb Pq Pr

variable (Pc Pb Pq Pr) in
def StNPg (s : BState) : Prop := HeapNP s.heap ∧ RxNP s.rx

local notation "StNP" => StNPg Pc Pb Pq Pr

variable (Pc Pb Pq Pr) in
def PresNPg (f : List Val → BState → BR) : Prop :=
  ∀ args s v s', AllNP args → StNP s → f args s = .ok (v, s') → NP v ∧ StNP s'

local notation "PresNP" => PresNPg Pc Pb Pq Pr

theorem allNP_nil : AllNP [] := fun _ h => by cases h
theorem allNP_cons {v : Val} {vs : List Val} (h : NP v) (hs : AllNP vs) : AllNP (v :: vs) := by
  intro x hx
  rcases List.mem_cons.mp hx with e | e
  · rw [e]; exact h
  · exact hs x e
theorem allNP_head {v : Val} {vs : List Val} (h : AllNP (v :: vs)) : NP v := h v (by simp)
theorem allNP_tail {v : Val} {vs : List Val} (h : AllNP (v :: vs)) : AllNP vs := fun x hx => h x (by simp [hx])
theorem allNP_append {a b : List Val} (ha : AllNP a) (hb : AllNP b) : AllNP (a ++ b) := by
  intro x hx
  rcases List.mem_append.mp hx with e | e
  · exact ha x e
  · exact hb x e
theorem allNP_reverse {a : List Val} (ha : AllNP a) : AllNP a.reverse := fun x hx => ha x (List.mem_reverse.mp hx)
theorem allNP_of_perm {a b : List Val} (hp : List.Perm a b) (hb : AllNP b) : AllNP a :=
  fun x hx => hb x (hp.mem_iff.mp hx)
theorem allNP_filter {a : List Val} (p : Val → Bool) (ha : AllNP a) : AllNP (a.filter p) :=
  fun x hx => ha x (List.mem_filter.mp hx).1
theorem allNP_map_of {α : Type} (xs : List α) (f : α → Val) (hf : ∀ x, x ∈ xs → NP (f x)) : AllNP (xs.map f) := by
  intro v hv
  obtain ⟨x, hx, e⟩ := List.mem_map.mp hv
  rw [← e]; exact hf x hx

theorem heap_list {h : Heap} (hh : HeapNP h) {a : Nat} {xs : List Val} (hg : h.get? a = some (.list xs)) : AllNP xs :=
  hh.1 a _ hg
theorem heap_keys {h : Heap} (hh : HeapNP h) {a : Nat} {kvs : List (Val × Val)} (hg : h.get? a = some (.dict kvs)) :
    AllNP (kvs.map (·.1)) := allNP_map_of kvs _ (fun kv hkv => (hh.1 a _ hg kv hkv).1)
theorem heap_vals {h : Heap} (hh : HeapNP h) {a : Nat} {kvs : List (Val × Val)} (hg : h.get? a = some (.dict kvs)) :
    AllNP (kvs.map (·.2)) := allNP_map_of kvs _ (fun kv hkv => (hh.1 a _ hg kv hkv).2)

theorem st_alloc {s : BState} (hs : StNP s) {xs : List Val} (hx : AllNP xs) {v : Val} {s' : BState}
    (h : (Except.ok (allocList s xs) : BR) = .ok (v, s')) : NP v ∧ StNP s' := by
  injection h with h
  simp only [allocList, Heap.alloc] at h
  injection h with h1 h2
  subst h1; subst h2
  exact ⟨.ref (heapNP_fresh hs.1), heapNP_push hs.1 hx, hs.2⟩

theorem st_allocD {s : BState} (hs : StNP s) {kvs : List (Val × Val)} (hx : ∀ kv, kv ∈ kvs → NP kv.1 ∧ NP kv.2) {v : Val}
    {s' : BState} (h : (Except.ok (allocDict s kvs) : BR) = .ok (v, s')) : NP v ∧ StNP s' := by
  injection h with h
  simp only [allocDict, Heap.alloc] at h
  injection h with h1 h2
  subst h1; subst h2
  exact ⟨.ref (heapNP_fresh hs.1), heapNP_push hs.1 hx, hs.2⟩

theorem st_ret {s : BState} (hs : StNP s) {r v : Val} {s' : BState} (hr : NP r) (h : ret r s = .ok (v, s')) :
    NP v ∧ StNP s' := by
  simp [ret] at h; obtain ⟨rfl, rfl⟩ := h; exact ⟨hr, hs⟩

theorem st_map {α : Type} {e : R α} {f : α → Val} {s : BState} (hs : StNP s) {v : Val} {s' : BState}
    (hf : ∀ x, e = .ok x → NP (f x)) (h : e.map (fun x => (f x, s)) = .ok (v, s')) : NP v ∧ StNP s' := by
  cases e with
  | error e => cases h
  | ok x => simp [Except.map] at h; obtain ⟨rfl, rfl⟩ := h; exact ⟨hf x rfl, hs⟩

theorem iterItems_np {h : Heap} (hh : HeapNP h) {c : Val} (hc : NP c) {items : List Val}
    (hi : iterItems h c = .ok items) : AllNP items := by
  unfold iterItems at hi
  split at hi
  · cases hi; exact allNP_map_of _ _ (fun _ _ => .str)
  · cases hi; cases hc with | tuple hall => exact hall
  · split at hi
    · rename_i hg; cases hi; exact heap_list hh hg
    · rename_i hg; cases hi; exact heap_keys hh hg
    · simp [U] at hi
  · simp [U] at hi
  · cases hi

theorem extreme_go_np (h : Heap) (isMax : Bool) : ∀ (ys : List Val) (best r : Val), AllNP ys → NP best →
    extreme.go h isMax ys best = .ok r → NP r := by
  intro ys
  induction ys with
  | nil => intro best r _ hb hr; simp [extreme.go] at hr; rw [← hr]; exact hb
  | cons y ys ih =>
    intro best r hys hb hr
    simp only [extreme.go] at hr
    split at hr
    · cases hr
    · exact ih y r (allNP_tail hys) (allNP_head hys) hr
    · exact ih best r (allNP_tail hys) hb hr

theorem extreme_np {h : Heap} {isMax : Bool} {xs : List Val} (hx : AllNP xs) {r : Val}
    (hr : extreme h isMax xs = .ok r) : NP r := by
  cases xs with
  | nil => simp [extreme] at hr
  | cons x xs => exact extreme_go_np h isMax xs x r (allNP_tail hx) (allNP_head hx) hr

/-! ### the entries -/

theorem np_list : PresNP b_list := by
  intro args s v s' ha hs h
  exact st_alloc hs ha h

theorem np_dict : PresNP b_dict := by
  intro args s v s' ha hs h
  unfold b_dict at h
  split at h
  · exact st_allocD hs (fun kv hkv => by cases hkv) h
  · split at h
    · rename_i hg; exact st_allocD hs (hs.1.1 _ _ hg) h
    · simp [U] at h
  · simp [U] at h

theorem np_keys : PresNP b_keys := by
  intro args s v s' ha hs h
  unfold b_keys at h
  split at h
  · split at h
    · rename_i hg; exact st_alloc hs (heap_keys hs.1 hg) h
    · cases h
  · simp [U] at h
  · cases h
  · cases h

theorem np_values : PresNP b_values := by
  intro args s v s' ha hs h
  unfold b_values at h
  split at h
  · split at h
    · rename_i hg; exact st_alloc hs (heap_vals hs.1 hg) h
    · cases h
  · simp [U] at h
  · cases h
  · cases h

theorem np_items : PresNP b_items := by
  intro args s v s' ha hs h
  unfold b_items at h
  split at h
  · split at h
    · rename_i hg
      refine st_alloc hs (allNP_map_of _ _ (fun kv hkv => ?_)) h
      have := hs.1.1 _ _ hg kv hkv
      exact .tuple (allNP_cons this.1 (allNP_cons this.2 allNP_nil))
    · cases h
  · simp [U] at h
  · cases h
  · cases h

theorem np_reversed : PresNP b_reversed := by
  intro args s v s' ha hs h
  unfold b_reversed at h
  split at h
  · exact st_ret hs .str h
  · have := allNP_head ha
    cases this with | tuple hall => exact st_alloc hs (allNP_reverse hall) h
  · split at h
    · rename_i hg; exact st_alloc hs (allNP_reverse (heap_list hs.1 hg)) h
    · rename_i hg; exact st_alloc hs (allNP_reverse (heap_keys hs.1 hg)) h
    · simp [U] at h
  · simp [U] at h
  · cases h

theorem np_enumerate : PresNP b_enumerate := by
  intro args s v s' ha hs h
  unfold b_enumerate at h
  split at h
  · split at h
    · rename_i items hi
      have hit := iterItems_np hs.1 (allNP_head ha) hi
      refine st_alloc hs (allNP_map_of _ _ (fun p hp => ?_)) h
      obtain ⟨x, i⟩ := p
      have hx : x ∈ items := List.mem_of_getElem? (List.mem_zipIdx_iff_getElem?.mp hp)
      exact .tuple (allNP_cons .int (allNP_cons (hit x hx) allNP_nil))
    · cases h
  · cases h

theorem np_min : PresNP b_min := by
  intro args s v s' ha hs h
  unfold b_min at h
  split at h
  · cases h
  · split at h
    · rename_i items hi
      exact st_map hs (fun x hx => extreme_np (iterItems_np hs.1 (allNP_head ha) hi) hx) h
    · cases h
  · exact st_map hs (fun x hx => extreme_np ha hx) h

theorem np_max : PresNP b_max := by
  intro args s v s' ha hs h
  unfold b_max at h
  split at h
  · cases h
  · split at h
    · rename_i items hi
      exact st_map hs (fun x hx => extreme_np (iterItems_np hs.1 (allNP_head ha) hi) hx) h
    · cases h
  · exact st_map hs (fun x hx => extreme_np ha hx) h

/-! ### primitives -/

theorem liftDec_np {r : Except DecSignal Dec} {v : Val} (h : liftDec r = .ok v) : NP v := by
  unfold liftDec at h
  split at h
  · cases h; exact .dec
  · cases h

theorem keyCast_np {h : Heap} {c k k' : Val} (hk : NP k) (hc : keyCast h c k = .ok k') : NP k' := by
  unfold keyCast at hc
  split at hc
  · unfold dictKeyCast at hc
    cases hs : pyStr h k with
    | error e => rw [hs] at hc; cases hc
    | ok x => rw [hs] at hc; cases hc; exact .str
  · cases hc
    unfold listKeyCast
    split
    · exact .int
    · exact hk

theorem kvSet_np {kvs : List (Val × Val)} (hk : ∀ kv, kv ∈ kvs → NP kv.1 ∧ NP kv.2) (n : Name) {v : Val} (hv : NP v) :
    ∀ kv, kv ∈ kvSet kvs n v → NP kv.1 ∧ NP kv.2 := by
  induction kvs with
  | nil => intro kv h; simp [kvSet] at h; subst h; exact ⟨.str, hv⟩
  | cons p r ih =>
    obtain ⟨k, v'⟩ := p
    intro kv h
    simp only [kvSet] at h
    split at h
    · rcases List.mem_cons.mp h with e | e
      · subst e; exact ⟨(hk (k, v') (by simp)).1, hv⟩
      · exact hk kv (by simp [e])
    · rcases List.mem_cons.mp h with e | e
      · subst e; exact hk (k, v') (by simp)
      · exact ih (fun q hq => hk q (by simp [hq])) kv e

theorem kvErase_np {kvs : List (Val × Val)} (hk : ∀ kv, kv ∈ kvs → NP kv.1 ∧ NP kv.2) (n : Name) :
    ∀ kv, kv ∈ kvErase kvs n → NP kv.1 ∧ NP kv.2 := by
  induction kvs with
  | nil => intro kv h; simp [kvErase] at h
  | cons p r ih =>
    obtain ⟨k, v'⟩ := p
    intro kv h
    simp only [kvErase] at h
    split at h
    · exact hk kv (by simp [h])
    · rcases List.mem_cons.mp h with e | e
      · subst e; exact hk (k, v') (by simp)
      · exact ih (fun q hq => hk q (by simp [hq])) kv e

theorem dictSetAux_np (h : Heap) : ∀ (kvs : List (Val × Val)) (k v : Val) (out : List (Val × Val)),
    (∀ kv, kv ∈ kvs → NP kv.1 ∧ NP kv.2) → NP k → NP v → dictSetAux h kvs k v = .ok out →
    ∀ kv, kv ∈ out → NP kv.1 ∧ NP kv.2 := by
  intro kvs
  induction kvs with
  | nil => intro k v out _ hk hv ho kv hm; simp [dictSetAux] at ho; subst ho; simp at hm; subst hm; exact ⟨hk, hv⟩
  | cons p r ih =>
    obtain ⟨k', v'⟩ := p
    intro k v out hkvs hk hv ho kv hm
    simp only [dictSetAux] at ho
    split at ho
    · cases ho
    · cases ho
      rcases List.mem_cons.mp hm with e | e
      · subst e; exact ⟨(hkvs (k', v') (by simp)).1, hv⟩
      · exact hkvs kv (by simp [e])
    · cases hr : dictSetAux h r k v with
      | error e => rw [hr] at ho; cases ho
      | ok out' =>
        rw [hr] at ho
        simp [Except.map] at ho
        subst ho
        rcases List.mem_cons.mp hm with e | e
        · subst e; exact hkvs (k', v') (by simp)
        · exact ih k v out' (fun q hq => hkvs q (by simp [hq])) hk hv hr kv e

theorem dictSet_np {h : Heap} {kvs : List (Val × Val)} {k v : Val} {out : List (Val × Val)}
    (hkvs : ∀ kv, kv ∈ kvs → NP kv.1 ∧ NP kv.2) (hk : NP k) (hv : NP v) (ho : dictSet h kvs k v = .ok out) :
    ∀ kv, kv ∈ out → NP kv.1 ∧ NP kv.2 := by
  unfold dictSet at ho
  split at ho
  · cases ho; exact kvSet_np hkvs _ hv
  · exact dictSetAux_np h kvs k v out hkvs hk hv ho

theorem dictEraseAux_np (h : Heap) : ∀ (kvs : List (Val × Val)) (k : Val) (out : List (Val × Val)),
    (∀ kv, kv ∈ kvs → NP kv.1 ∧ NP kv.2) → dictEraseAux h kvs k = .ok out → ∀ kv, kv ∈ out → NP kv.1 ∧ NP kv.2 := by
  intro kvs
  induction kvs with
  | nil => intro k out _ ho kv hm; simp [dictEraseAux] at ho; subst ho; cases hm
  | cons p r ih =>
    obtain ⟨k', v'⟩ := p
    intro k out hkvs ho kv hm
    simp only [dictEraseAux] at ho
    split at ho
    · cases ho
    · cases ho; exact hkvs kv (by simp [hm])
    · cases hr : dictEraseAux h r k with
      | error e => rw [hr] at ho; cases ho
      | ok out' =>
        rw [hr] at ho
        simp [Except.map] at ho
        subst ho
        rcases List.mem_cons.mp hm with e | e
        · subst e; exact hkvs (k', v') (by simp)
        · exact ih k out' (fun q hq => hkvs q (by simp [hq])) hr kv e

theorem dictErase_np {h : Heap} {kvs : List (Val × Val)} {k : Val} {out : List (Val × Val)}
    (hkvs : ∀ kv, kv ∈ kvs → NP kv.1 ∧ NP kv.2) (ho : dictErase h kvs k = .ok out) :
    ∀ kv, kv ∈ out → NP kv.1 ∧ NP kv.2 := by
  unfold dictErase at ho
  split at ho
  · cases ho; exact kvErase_np hkvs _
  · exact dictEraseAux_np h kvs k out hkvs ho

theorem dictFindAux_np : ∀ (f : Nat) (h : Heap) (kvs : List (Val × Val)) (k v : Val),
    (∀ kv, kv ∈ kvs → NP kv.1 ∧ NP kv.2) → dictFindAux f h kvs k = some (some v) → NP v := by
  intro f
  induction f with
  | zero => intro h kvs k v _ hf; simp [dictFindAux] at hf
  | succ f ih =>
    intro h kvs k v hkvs hf
    cases kvs with
    | nil => simp [dictFindAux] at hf
    | cons p r =>
      obtain ⟨k', v'⟩ := p
      simp only [dictFindAux] at hf
      split at hf
      · injection hf with hf; injection hf with hf; subst hf; exact (hkvs (k', v') (by simp)).2
      · exact ih h r k v (fun q hq => hkvs q (by simp [hq])) hf
      · cases hf

theorem dictFind_np {h : Heap} {kvs : List (Val × Val)} {k v : Val}
    (hkvs : ∀ kv, kv ∈ kvs → NP kv.1 ∧ NP kv.2) (hf : dictFind h kvs k = .ok (some v)) : NP v := by
  unfold dictFind at hf
  split at hf
  · injection hf with hf
    cases hq : kvs.find? (fun kv => keyIsName kv.1 _) with
    | none => rw [hq] at hf; cases hf
    | some p => rw [hq] at hf; simp at hf; subst hf; exact (hkvs p (List.mem_of_find?_eq_some hq)).2
  · split at hf
    · rename_i r hr
      injection hf with hf
      subst hf
      exact dictFindAux_np _ h kvs k v hkvs hr
    · simp [U] at hf

/-! ### deepcopy keeps data plain -/

theorem deepcopy_np : ∀ (f : Nat),
    (∀ h memo v v' h' memo', deepcopy f h memo v = some (v', h', memo') → HeapNP h → (∀ p, p ∈ memo → Pr p.2) → NP v →
      HeapNP h' ∧ NP v' ∧ ∀ p, p ∈ memo' → Pr p.2) ∧
    (∀ h memo vs vs' h' memo', deepcopy.copyList f h memo vs = some (vs', h', memo') → HeapNP h →
      (∀ p, p ∈ memo → Pr p.2) → AllNP vs → HeapNP h' ∧ AllNP vs' ∧ ∀ p, p ∈ memo' → Pr p.2) := by
  intro f
  induction f with
  | zero => exact ⟨by intro h memo v v' h' memo' hh; simp [deepcopy] at hh,
                   by intro h memo vs vs' h' memo' hh; simp [deepcopy.copyList] at hh⟩
  | succ f ih =>
    obtain ⟨ihd, ihl⟩ := ih
    constructor
    · intro h memo v v' h' memo' hh hhp hm hv
      unfold deepcopy at hh
      split at hh
      · split at hh
        · rename_i r hr
          simp only [Option.some.injEq, Prod.mk.injEq] at hh
          obtain ⟨rfl, rfl, rfl⟩ := hh
          cases hv with
          | tuple hall =>
            obtain ⟨i1, f1, m1⟩ := ihl _ _ _ _ _ _ hr hhp hm hall
            exact ⟨i1, .tuple f1, m1⟩
        · simp at hh
      · split at hh
        · rename_i p hp
          simp only [Option.some.injEq, Prod.mk.injEq] at hh
          obtain ⟨rfl, rfl, rfl⟩ := hh
          exact ⟨hhp, .ref (hm p (List.mem_of_find?_eq_some hp)), hm⟩
        · split at hh
          · rename_i a _ hfind _ xs hg
            simp only [Heap.alloc] at hh
            split at hh
            · rename_i xs' h2 m2 hr
              simp only [Option.some.injEq, Prod.mk.injEq] at hh
              obtain ⟨rfl, rfl, rfl⟩ := hh
              have h1 : HeapNP (h.push (HObj.list [])) := heapNP_push hhp (fun v hv => by cases hv)
              have hm1 : ∀ p, p ∈ (a, h.size) :: memo → Pr p.2 := by
                intro p hp
                rcases List.mem_cons.mp hp with e | e
                · rw [e]; exact heapNP_fresh hhp
                · exact hm p e
              obtain ⟨i2, f2, m2'⟩ := ihl _ _ _ _ _ _ hr h1 hm1 (heap_list hhp hg)
              exact ⟨heapNP_set i2 _ f2, .ref (heapNP_fresh hhp), m2'⟩
            · simp at hh
          · rename_i a _ hfind _ kvs hg
            simp only [Heap.alloc] at hh
            split at hh
            · rename_i vs' h2 m2 hr
              simp only [Option.some.injEq, Prod.mk.injEq] at hh
              obtain ⟨rfl, rfl, rfl⟩ := hh
              have h1 : HeapNP (h.push (HObj.dict [])) := heapNP_push hhp (fun v hv => by cases hv)
              have hm1 : ∀ p, p ∈ (a, h.size) :: memo → Pr p.2 := by
                intro p hp
                rcases List.mem_cons.mp hp with e | e
                · rw [e]; exact heapNP_fresh hhp
                · exact hm p e
              obtain ⟨i2, f2, m2'⟩ := ihl _ _ _ _ _ _ hr h1 hm1 (heap_vals hhp hg)
              refine ⟨heapNP_set i2 _ ?_, .ref (heapNP_fresh hhp), m2'⟩
              intro kv hkv
              obtain ⟨k, v⟩ := kv
              have hz := List.of_mem_zip hkv
              exact ⟨heap_keys hhp hg k hz.1, f2 v hz.2⟩
            · simp at hh
          · simp at hh
      · simp only [Option.some.injEq, Prod.mk.injEq] at hh
        obtain ⟨rfl, rfl, rfl⟩ := hh
        exact ⟨hhp, hv, hm⟩
    · intro h memo vs vs' h' memo' hh hhp hm hvs
      cases vs with
      | nil =>
        simp only [deepcopy.copyList, Option.some.injEq, Prod.mk.injEq] at hh
        obtain ⟨rfl, rfl, rfl⟩ := hh
        exact ⟨hhp, allNP_nil, hm⟩
      | cons x xs =>
        simp only [deepcopy.copyList] at hh
        split at hh
        · simp at hh
        · rename_i x' h1 m1 hx
          split at hh
          · rename_i xs' h2 m2 hxs
            simp only [Option.some.injEq, Prod.mk.injEq] at hh
            obtain ⟨rfl, rfl, rfl⟩ := hh
            obtain ⟨i1, f1, mm1⟩ := ihd _ _ _ _ _ _ hx hhp hm (allNP_head hvs)
            obtain ⟨i2, f2, mm2⟩ := ihl _ _ _ _ _ _ hxs i1 mm1 (allNP_tail hvs)
            exact ⟨i2, allNP_cons f1 f2, mm2⟩
          · simp at hh

theorem deepcopy'_np {h : Heap} {v v' : Val} {h' : Heap} (hh : HeapNP h) (hv : NP v)
    (hc : deepcopy' h v = .ok (v', h')) : HeapNP h' ∧ NP v' := by
  unfold deepcopy' at hc
  split at hc
  · rename_i v1 h1 m1 hr
    simp only [Except.ok.injEq, Prod.mk.injEq] at hc
    obtain ⟨rfl, rfl⟩ := hc
    obtain ⟨a1, a2, _⟩ := (deepcopy_np _).1 _ _ _ _ _ _ hr hh (fun p hp => by cases hp) hv
    exact ⟨a1, a2⟩
  · simp [U] at hc

/-! ### arithmetic and item access -/

theorem map_pair_np {e : R Val} {h : Heap} {v : Val} {h' : Heap} (hf : ∀ x, e = .ok x → NP x)
    (hh : e.map (fun x => (x, h)) = .ok (v, h')) : NP v ∧ h' = h := by
  cases e with
  | error e => cases hh
  | ok x => simp [Except.map] at hh; obtain ⟨rfl, rfl⟩ := hh; exact ⟨hf x rfl, rfl⟩

theorem pyAdd_np {h : Heap} {a b v : Val} {h' : Heap} (hh : HeapNP h) (ha : NP a) (hb : NP b)
    (he : pyAdd h a b = .ok (v, h')) : NP v ∧ HeapNP h' := by
  unfold pyAdd at he
  split at he
  · cases he; exact ⟨.int, hh⟩
  · split at he
    · obtain ⟨h1, h2⟩ := map_pair_np (fun x hx => liftDec_np hx) he
      exact ⟨h1, h2 ▸ hh⟩
    · split at he
      · cases he; exact ⟨.str, hh⟩
      · cases he
        cases ha with | tuple h1 => cases hb with | tuple h2 => exact ⟨.tuple (allNP_append h1 h2), hh⟩
      · split at he
        · rename_i hx hy
          simp only [Heap.alloc] at he
          cases he
          exact ⟨.ref (heapNP_fresh hh), heapNP_push hh (allNP_append (heap_list hh hx) (heap_list hh hy))⟩
        · cases he
      · simp [U] at he
      · simp [U] at he
      · cases he

theorem pySub_np {a b v : Val} (he : pySub a b = .ok v) : NP v := by
  unfold pySub at he
  split at he
  · cases he; exact .int
  · split at he
    · exact liftDec_np he
    · split at he <;> simp [U] at he

theorem pyDiv_np {a b v : Val} (he : pyDiv a b = .ok v) : NP v := by
  unfold pyDiv at he
  split at he
  · split at he
    · cases he
    · simp [U] at he
  · split at he
    · exact liftDec_np he
    · split at he <;> simp [U] at he

theorem allNP_repList {xs : List Val} (hx : AllNP xs) (n : Int) : AllNP (repList xs n) := by
  intro v hv
  unfold repList at hv
  obtain ⟨l, hl, hvl⟩ := List.mem_flatten.mp hv
  have := List.eq_of_mem_replicate hl
  subst this
  exact hx v hvl

theorem pyMulNative_np {h : Heap} {a b v : Val} {h' : Heap} (hh : HeapNP h) (ha : NP a) (hb : NP b)
    (he : pyMulNative h a b = .ok (v, h')) : NP v ∧ HeapNP h' := by
  unfold pyMulNative at he
  split at he
  · cases he; exact ⟨.int, hh⟩
  · split at he
    · obtain ⟨h1, h2⟩ := map_pair_np (fun x hx => liftDec_np hx) he
      exact ⟨h1, h2 ▸ hh⟩
    · split at he
      · simp [U] at he
      · split at he
        · cases he; exact ⟨.str, hh⟩
        · cases he; exact ⟨.str, hh⟩
        · cases he; exact ⟨.str, hh⟩
        · cases he; exact ⟨.str, hh⟩
        · cases he
          cases ha with | tuple h1 => exact ⟨.tuple (allNP_repList h1 _), hh⟩
        · cases he
          cases hb with | tuple h1 => exact ⟨.tuple (allNP_repList h1 _), hh⟩
        · split at he
          · rename_i hx _
            simp only [Heap.alloc] at he
            cases he
            exact ⟨.ref (heapNP_fresh hh), heapNP_push hh (allNP_repList (heap_list hh hx) _)⟩
          · cases he
        · split at he
          · rename_i hx _
            simp only [Heap.alloc] at he
            cases he
            exact ⟨.ref (heapNP_fresh hh), heapNP_push hh (allNP_repList (heap_list hh hx) _)⟩
          · cases he
        · simp [U] at he
        · simp [U] at he
        · cases he

/-! ### state-changing helpers -/

theorem st_set {s : BState} (hs : StNP s) (a : Nat) {o : HObj} (ho : ObjNP o) : StNP { s with heap := s.heap.set a o } :=
  ⟨heapNP_set hs.1 a ho, hs.2⟩

theorem st_setList {s : BState} (hs : StNP s) (a : Nat) {xs : List Val} (hx : AllNP xs) :
    StNP { s with heap := s.heap.set a (.list xs) } := st_set hs a (o := .list xs) hx
theorem st_setDict {s : BState} (hs : StNP s) (a : Nat) {kvs : List (Val × Val)} (hx : ∀ kv, kv ∈ kvs → NP kv.1 ∧ NP kv.2) :
    StNP { s with heap := s.heap.set a (.dict kvs) } := st_set hs a (o := .dict kvs) hx

theorem allNP_eraseIdx {xs : List Val} (hx : AllNP xs) (j : Nat) : AllNP (xs.eraseIdx j) :=
  fun v hv => hx v (List.mem_of_mem_eraseIdx hv)

theorem allNP_take {xs : List Val} (hx : AllNP xs) (j : Nat) : AllNP (xs.take j) :=
  fun v hv => hx v (List.mem_of_mem_take hv)
theorem allNP_drop {xs : List Val} (hx : AllNP xs) (j : Nat) : AllNP (xs.drop j) :=
  fun v hv => hx v (List.mem_of_mem_drop hv)
theorem allNP_set {xs : List Val} (hx : AllNP xs) (j : Nat) {v : Val} (hv : NP v) : AllNP (xs.set j v) := by
  intro x hm
  rcases List.mem_or_eq_of_mem_set hm with e | e
  · exact hx x e
  · rw [e]; exact hv
theorem allNP_pick {xs : List Val} (hx : AllNP xs) (idx : List Nat) : AllNP (pick xs idx) := by
  intro v hv
  unfold pick at hv
  obtain ⟨i, _, hi⟩ := List.mem_filterMap.mp hv
  exact hx v (List.mem_of_getElem? hi)

theorem np_push : PresNP b_push := by
  intro args s v s' ha hs h
  unfold b_push at h
  split at h
  · split at h
    · cases h
    · split at h
      · split at h
        · rename_i hg
          refine st_ret (st_setList hs _ ?_) .none h
          exact allNP_append (heap_list hs.1 hg) (allNP_cons (ha _ (by simp)) allNP_nil)
        · cases h
      · simp [U] at h
      · cases h
  · cases h

theorem np_insert : PresNP b_insert := by
  intro args s v s' ha hs h
  unfold b_insert at h
  split at h
  · split at h
    · cases h
    · split at h
      · split at h
        · rename_i hg
          split at h
          · cases h
          · dsimp only at h
            refine st_ret (st_setList hs _ ?_) .none h
            exact allNP_append (allNP_take (heap_list hs.1 hg) _) (allNP_cons (ha _ (by simp)) (allNP_drop (heap_list hs.1 hg) _))
        · cases h
      · simp [U] at h
      · cases h
  · cases h

theorem np_pop : PresNP b_pop := by
  intro args s v s' ha hs h
  unfold b_pop at h
  split at h
  · split at h
    · cases h
    · split at h
      · split at h
        · rename_i hg
          dsimp only at h
          split at h
          · cases h
          · split at h
            · cases h
            · split at h
              · split at h
                · rename_i x hx
                  exact st_ret (st_setList hs _ (allNP_eraseIdx (heap_list hs.1 hg) _)) (heap_list hs.1 hg x (List.mem_of_getElem? hx)) h
                · cases h
              · cases h
        · simp [U] at h
      · simp [U] at h
      · cases h
  · cases h

theorem np_remove : PresNP b_remove := by
  intro args s v s' ha hs h
  unfold b_remove at h
  split at h
  · split at h
    · split at h
      · rename_i hg
        split at h
        · cases h
        · exact st_ret hs .none h
        · exact st_ret (st_setList hs _ (allNP_eraseIdx (heap_list hs.1 hg) _)) .none h
      · rename_i hg
        split at h
        · cases h
        · split at h
          · rename_i kvs' hd
            exact st_ret (st_setDict hs _ (dictErase_np (hs.1.1 _ _ hg) hd)) .none h
          · cases h
      · simp [U] at h
    · simp [U] at h
  · cases h

/-! ### item access -/

/-- `container[key]`: plain in, plain out — unless the container is the TYPE OBJECT `dict` (finding D15) -/
theorem pyGetItem_np {s : BState} {c k v : Val} {s' : BState} (hs : StNP s) (hc : NP c) (hnd : c ≠ .builtin "dict" ∨ ∀ q, Pq q)
    (h : pyGetItem s c k = .ok (v, s')) : NP v ∧ StNP s' := by
  unfold pyGetItem at h
  dsimp only at h
  split at h
  · -- str
    split at h
    · split at h
      · cases h; exact ⟨.str, hs⟩
      · cases h
    · simp [U] at h
    · split at h
      · split at h
        · split at h
          · exact st_ret hs .str h
          · cases h
        · cases h
      · cases h
  · -- tuple
    cases hc with
    | tuple hall =>
      split at h
      · split at h
        · cases h; exact ⟨.tuple (allNP_pick hall _), hs⟩
        · cases h
      · simp [U] at h
      · split at h
        · split at h
          · split at h
            · rename_i x hx
              exact st_ret hs (hall x (List.mem_of_getElem? hx)) h
            · cases h
          · cases h
        · cases h
  · -- ref
    split at h
    · rename_i hg
      have hall := heap_list hs.1 hg
      split at h
      · split at h
        · exact st_alloc hs (allNP_pick hall _) h
        · cases h
      · simp [U] at h
      · split at h
        · split at h
          · split at h
            · rename_i x hx
              exact st_ret hs (hall x (List.mem_of_getElem? hx)) h
            · cases h
          · cases h
        · cases h
    · rename_i hg
      split at h
      · cases h
      · split at h
        · cases h
        · rename_i x hf
          exact st_ret hs (dictFind_np (hs.1.1 _ _ hg) hf) h
        · cases h
    · simp [U] at h
  · rcases hnd with hnd | hq
    · exact absurd rfl hnd
    · exact st_ret hs (.opaque (hq _)) h
  · simp [U] at h
  · cases h

theorem pySetItem_np {s : BState} {c k v : Val} {s' : BState} (hs : StNP s) (hk : NP k) (hv : NP v)
    (h : pySetItem s c k v = .ok s') : StNP s' := by
  unfold pySetItem at h
  split at h
  · split at h
    · rename_i hg
      split at h
      · simp [U] at h
      · simp [U] at h
      · split at h
        · split at h
          · cases h; exact st_setList hs _ (allNP_set (heap_list hs.1 hg) _ hv)
          · cases h
        · cases h
    · rename_i hg
      split at h
      · cases h
      · split at h
        · rename_i kvs' hd
          cases h
          exact st_setDict hs _ (dictSet_np (hs.1.1 _ _ hg) hk hv hd)
        · cases h
    · simp [U] at h
  · simp [U] at h
  · cases h

theorem pyInplace_np {s : BState} {k : ShortK} {cur v r : Val} {s' : BState} (hs : StNP s) (hc : NP cur) (hv : NP v)
    (h : pyInplace s k cur v = .ok (r, s')) : NP r ∧ StNP s' := by
  unfold pyInplace at h
  cases k <;> (try dsimp only at h)
  · -- +=
    split at h
    · split at h
      · rename_i hg
        try dsimp only at h
        split at h
        · rename_i ys hext
          have hys : AllNP ys := by
            split at hext
            · cases hext; exact allNP_map_of _ _ (fun _ _ => .str)
            · cases hext; cases hv with | tuple hall => exact hall
            · split at hext
              · rename_i hb; cases hext; exact heap_list hs.1 hb
              · rename_i hb; cases hext; exact heap_keys hs.1 hb
              · simp [U] at hext
            · simp [U] at hext
            · cases hext
          exact st_ret (st_setList hs _ (allNP_append (heap_list hs.1 hg) hys)) hc h
        · cases h
      · cases h
    · cases ha : pyAdd s.heap cur v with
      | error e => rw [ha] at h; cases h
      | ok p =>
        obtain ⟨r0, h0⟩ := p
        rw [ha] at h
        simp [Except.map] at h
        obtain ⟨rfl, rfl⟩ := h
        obtain ⟨h1, h2⟩ := pyAdd_np hs.1 hc hv ha
        exact ⟨h1, h2, hs.2⟩
  · -- -=
    exact st_map hs (fun x hx => pySub_np hx) h
  · -- *=
    split at h
    · split at h
      · rename_i hg _
        split at h
        · simp [U] at h
        · refine st_ret (st_setList hs _ ?_) hc h
          intro x hx
          obtain ⟨l, hl, hxl⟩ := List.mem_flatten.mp hx
          have := List.eq_of_mem_replicate hl
          subst this
          exact heap_list hs.1 hg x hxl
      · cases h
    · cases ha : pyMulNative s.heap cur v with
      | error e => rw [ha] at h; cases h
      | ok p =>
        obtain ⟨r0, h0⟩ := p
        rw [ha] at h
        simp [Except.map] at h
        obtain ⟨rfl, rfl⟩ := h
        obtain ⟨h1, h2⟩ := pyMulNative_np hs.1 hc hv ha
        exact ⟨h1, h2, hs.2⟩
  · -- /=
    exact st_map hs (fun x hx => pyDiv_np hx) h

/-! ### the remaining entries -/

theorem bRound_np {args : List Val} {v : Val} (h : bRound args = .ok v) : NP v := by
  unfold bRound at h
  repeat' (first | split at h | (dsimp only at h; split at h))
  all_goals first
    | (cases h; done)
    | (simp only [U] at h; cases h; done)
    | (cases h; exact .dec)

theorem bFloorCeil_np {m : Dec.Rounding} {args : List Val} {v : Val} (h : bFloorCeil m args = .ok v) : NP v := by
  unfold bFloorCeil at h
  repeat' (first | split at h | (dsimp only at h; split at h))
  all_goals first
    | (cases h; done)
    | (simp only [U] at h; cases h; done)
    | (cases h; exact .dec)

theorem np_round : PresNP b_round := by
  intro args s v s' _ hs h
  unfold b_round at h
  exact st_map hs (fun x hx => bRound_np hx) h

theorem np_floor : PresNP b_floor := by
  intro args s v s' _ hs h
  unfold b_floor at h
  exact st_map hs (fun x hx => bFloorCeil_np hx) h

theorem np_ceil : PresNP b_ceil := by
  intro args s v s' _ hs h
  unfold b_ceil at h
  exact st_map hs (fun x hx => bFloorCeil_np hx) h

theorem np_split : PresNP b_split := by
  intro args s v s' _ hs h
  unfold b_split at h
  split at h
  · split at h
    · cases h
    · split at h
      · dsimp only at h
        split at h
        · cases h
        · split at h
          · cases h
          · exact st_alloc hs (allNP_map_of _ _ (fun _ _ => .str)) h
          · simp [U] at h
          · simp [U] at h
          · cases h
      · simp [U] at h
      · cases h
  · cases h

theorem np_index_of : PresNP b_index_of := by
  intro args s v s' _ hs h
  unfold b_index_of at h
  split at h
  · split at h
    · split at h
      · exact st_map hs (fun x _ => by cases x <;> constructor) h
      · cases h
    · exact st_map hs (fun x _ => by cases x <;> constructor) h
    · simp [U] at h
    · simp [U] at h
    · cases h
  · cases h

theorem st_rng {s : BState} (hs : StNP s) (r : Nat) : StNP { s with rng := r } := ⟨hs.1, hs.2⟩

theorem np_shuffle : PresNP b_shuffle := by
  intro args s v s' _ hs h
  unfold b_shuffle at h
  split at h
  · split at h
    · rename_i hg
      dsimp only at h
      exact st_alloc (st_rng hs _) (allNP_of_perm (shuffle_go_perm _ _ _) (heap_list hs.1 hg)) h
    · simp [U] at h
  · simp [U] at h
  · cases h

theorem np_rand : PresNP b_rand := by
  intro args s v s' ha hs h
  unfold b_rand at h
  split at h
  · unfold randUnit at h
    dsimp only at h
    exact st_ret (st_rng hs _) .dec h
  · split at h
    · rename_i hg
      unfold randChoice at h
      split at h
      · cases h
      · dsimp only at h
        split at h
        · rename_i x hx
          exact st_ret (st_rng hs _) (heap_list hs.1 hg x (List.mem_of_getElem? hx)) h
        · simp [U] at h
    · cases h
  · split at h
    · unfold randInt at h
      split at h
      · cases h
      · dsimp only at h
        exact st_ret (st_rng hs _) .dec h
    · cases h
    · cases h
  · cases h

theorem np_bRegex (name : String) : PresNP (bRegex name) := by
  intro args s v s' _ hs h
  unfold bRegex at h
  split at h
  · cases h
  · split at h
    · simp [U] at h
    · rename_i ans rest hrx
      have hans := hs.2 ans (by rw [hrx]; simp)
      have hrest : StNP { s with rx := rest } := ⟨hs.1, fun a ha => hs.2 a (by rw [hrx]; simp [ha])⟩
      dsimp only at h
      split at h
      all_goals first
        | (cases h; done)
        | (simp only [U] at h; cases h; done)
        | exact st_ret hrest .none h
        | exact st_ret hrest hans.1 h
        | exact st_alloc hrest (allNP_cons hans.1 hans.2) h
        | exact st_alloc hrest hans h

theorem np_match : PresNP b_match := fun args s v s' ha hs h => np_bRegex "match" args s v s' ha hs h
theorem np_match_groups : PresNP b_match_groups := fun args s v s' ha hs h => np_bRegex "match_groups" args s v s' ha hs h
theorem np_match_all : PresNP b_match_all := fun args s v s' ha hs h => np_bRegex "match_all" args s v s' ha hs h

theorem checkArraySize_ok {h : Heap} {c : Val} : True := trivial

theorem bGetItem_np {s : BState} {c k v : Val} {s' : BState} (hs : StNP s) (hc : NP c) (hk : NP k)
    (hnd : c ≠ .builtin "dict" ∨ ∀ q, Pq q) (h : bGetItem s c k = .ok (v, s')) : NP v ∧ StNP s' := by
  unfold bGetItem at h
  split at h
  · cases h
  · rename_i k' hkc
    split at h
    · cases h
    · cases h
    · rename_i r _ _
      exact pyGetItem_np hs hc hnd h

theorem bSetItem_np {s : BState} {c k v r : Val} {s' : BState} (hs : StNP s) (hk : NP k) (hv : NP v)
    (h : bSetItem s c k v = .ok (r, s')) : NP r ∧ StNP s' := by
  unfold bSetItem at h
  split at h
  · cases h
  · split at h
    · cases h
    · rename_i k' hkc
      split at h
      · cases h
      · rename_i v' h' hd
        obtain ⟨hh', hv'⟩ := deepcopy'_np hs.1 hv hd
        split at h
        · rename_i s2 hset
          have hs2 := pySetItem_np (s := { s with heap := h' }) ⟨hh', hs.2⟩ (keyCast_np hk hkc) hv' hset
          exact st_ret hs2 hv h
        · cases h

theorem bDelItem_np {s : BState} {c k r : Val} {s' : BState} (hs : StNP s) (hk : NP k)
    (h : bDelItem s c k = .ok (r, s')) : NP r ∧ StNP s' := by
  unfold bDelItem at h
  split at h
  · cases h
  · split at h
    · split at h
      · rename_i hg
        split at h
        · cases h
        · split at h
          · rename_i kvs' hd
            exact st_ret (st_setDict hs _ (dictErase_np (hs.1.1 _ _ hg) hd)) .none h
          · cases h
      · rename_i hg
        split at h
        · simp [U] at h
        · split at h
          · split at h
            · split at h
              · exact st_ret (st_setList hs _ (allNP_eraseIdx (heap_list hs.1 hg) _)) .none h
              · cases h
            · exact st_ret hs .none h
          · cases h
      · simp [U] at h
    · split at h
      · split at h
        · cases h
        · exact st_ret hs .none h
      · cases h
    · split at h
      · split at h
        · cases h
        · exact st_ret hs .none h
      · cases h
    · simp [U] at h
    · cases h

theorem bSetItemWithOp_np {s : BState} {c k o v r : Val} {s' : BState} (hs : StNP s) (hc : NP c) (hk : NP k) (hv : NP v)
    (hnd : c ≠ .builtin "dict" ∨ ∀ q, Pq q) (h : bSetItemWithOp s c k o v = .ok (r, s')) : NP r ∧ StNP s' := by
  unfold bSetItemWithOp at h
  split at h
  · cases h
  · split at h
    · cases h
    · rename_i k' hkc
      have hk' := keyCast_np hk hkc
      split at h
      · cases h
      · rename_i v' h' hd
        obtain ⟨hh', hv'⟩ := deepcopy'_np hs.1 hv hd
        have hs1 : StNP { s with heap := h' } := ⟨hh', hs.2⟩
        dsimp only at h
        split at h
        · cases h
        · split at h
          · cases h
          · rename_i cur s2 hget
            obtain ⟨hcur, hs2⟩ := pyGetItem_np hs1 hc hnd hget
            split at h
            · cases h
            · rename_i nv s3 hin
              obtain ⟨hnv, hs3⟩ := pyInplace_np hs2 hcur hv' hin
              split at h
              · rename_i s4 hset
                exact st_ret (pySetItem_np hs3 hk' hnv hset) hv' h
              · split at h <;> simp [U] at h

theorem foldl_add_np (xs : List Val) : ∀ (acc : Val) (h : Heap) (v : Val) (h' : Heap), AllNP xs → NP acc → HeapNP h →
    xs.foldlM (fun (acc : Val × Heap) x => pyAdd acc.2 acc.1 x) (acc, h) = .ok (v, h') → NP v ∧ HeapNP h' := by
  induction xs with
  | nil =>
    intro acc h v h' _ ha hh he
    simp [List.foldlM, pure, Except.pure] at he
    obtain ⟨rfl, rfl⟩ := he
    exact ⟨ha, hh⟩
  | cons x r ih =>
    intro acc h v h' hx ha hh he
    simp only [List.foldlM_cons, bind, Except.bind] at he
    split at he
    · cases he
    · rename_i p hp
      obtain ⟨v1, h1⟩ := p
      obtain ⟨n1, n2⟩ := pyAdd_np hh ha (allNP_head hx) hp
      exact ih _ _ _ _ (allNP_tail hx) n1 n2 he

theorem np_sum : PresNP b_sum := by
  intro args s v s' ha hs h
  unfold b_sum at h
  dsimp only at h
  split at h
  · split at h
    · rename_i hg
      split at h
      · rename_i v0 h0 hr
        obtain ⟨n1, n2⟩ := foldl_add_np _ _ _ _ _ (heap_list hs.1 hg) .int hs.1 hr
        exact st_ret (s := { s with heap := h0 }) ⟨n2, hs.2⟩ n1 h
      · cases h
    · exact st_ret hs (allNP_head ha) h
  · exact st_ret hs (allNP_head ha) h
  · cases h

theorem np_get : PresNP b_get := by
  intro args s v s' ha hs h
  unfold b_get at h
  split at h
  · rename_i c k rest
    split at h
    · cases h
    · split at h
      · cases h
      · split at h
        · split at h
          · rename_i hg
            split at h
            · cases h
            · split at h
              · cases h
              · rename_i x hf
                exact st_ret hs (dictFind_np (hs.1.1 _ _ hg) hf) h
              · refine st_ret hs ?_ h
                cases rest with
                | nil => exact .none
                | cons d r => exact ha d (by simp)
          · cases h
        · simp [U] at h
        · cases h
  · cases h

theorem np_delitem : PresNP b_delitem := by
  intro args s v s' ha hs h
  unfold b_delitem at h
  split at h
  · exact bDelItem_np hs (ha _ (by simp)) h
  · cases h

theorem np_setitem : PresNP b_setitem := by
  intro args s v s' ha hs h
  unfold b_setitem at h
  split at h
  · exact bSetItem_np hs (ha _ (by simp)) (ha _ (by simp)) h
  · cases h

/-- `__getitem__` / `__setitem_with_op__`: plain unless the container is the type object `dict` (D15) -/
theorem np_getitem (args : List Val) (s : BState) (v : Val) (s' : BState) (ha : AllNP args) (hs : StNP s)
    (hnd : args.head? ≠ some (.builtin "dict") ∨ ∀ q, Pq q) (h : b_getitem args s = .ok (v, s')) : NP v ∧ StNP s' := by
  unfold b_getitem at h
  split at h
  · exact bGetItem_np hs (ha _ (by simp)) (ha _ (by simp)) (hnd.imp (fun hn e => hn (by simp [e])) id) h
  · cases h

theorem np_setitem_with_op (args : List Val) (s : BState) (v : Val) (s' : BState) (ha : AllNP args) (hs : StNP s)
    (hnd : args.head? ≠ some (.builtin "dict") ∨ ∀ q, Pq q) (h : b_setitem_with_op args s = .ok (v, s')) : NP v ∧ StNP s' := by
  unfold b_setitem_with_op at h
  split at h
  · exact bSetItemWithOp_np hs (ha _ (by simp)) (ha _ (by simp)) (ha _ (by simp)) (hnd.imp (fun hn e => hn (by simp [e])) id) h
  · cases h

/-- entries whose result is a fresh string / number / bool built from the arguments -/
syntax "plainb" (ppSpace ident)+ : tactic
macro_rules
  | `(tactic| plainb $fs*) => `(tactic| (
  intro args s v s' ha hs h
  unfold $fs* at h
  try dsimp only at h
  repeat' (first | split at h | (dsimp only at h; split at h))
  all_goals first
    | (cases h; done)
    | (simp only [U] at h; cases h; done)
    | exact st_ret hs (by first | constructor | (apply ha; simp)) h
    | exact st_map hs (fun _ _ => by constructor) h))

theorem np_len : PresNP b_len := by plainb b_len
theorem np_int : PresNP b_int := by plainb b_int
theorem np_float : PresNP b_float := by plainb b_float
theorem np_str : PresNP b_str := by plainb b_str
theorem np_startswith : PresNP b_startswith := by plainb b_startswith
theorem np_endswith : PresNP b_endswith := by plainb b_endswith
theorem np_lower : PresNP b_lower := by plainb b_lower
theorem np_upper : PresNP b_upper := by plainb b_upper
theorem np_strip : PresNP b_strip := by plainb b_strip
theorem np_replace : PresNP b_replace := by plainb b_replace
theorem np_pretty : PresNP b_pretty := by plainb b_pretty
theorem np_join : PresNP b_join := by plainb b_join
theorem np_abs : PresNP b_abs := by plainb b_abs

/-- **every entry of the builtin table**: plain arguments, a plain heap and plain engine answers give a plain result, a
    plain heap and plain answers — the only exception being an index read (plain or compound) whose container is the
    type object `dict` itself (finding D15) -/
theorem table_plain : ∀ p, p ∈ callPureTable → ∀ args s v s', AllNP args → StNP s →
    (args.head? ≠ some (.builtin "dict") ∨ ∀ q, Pq q) → p.2 args s = .ok (v, s') → NP v ∧ StNP s' := by
  intro p hp args s v s' ha hs hnd h
  simp only [callPureTable, List.mem_cons, List.mem_nil_iff, or_false] at hp
  rcases hp with rfl | rfl | rfl | rfl | rfl | rfl | rfl | rfl | rfl | rfl | rfl | rfl | rfl | rfl | rfl | rfl | rfl |
    rfl | rfl | rfl | rfl | rfl | rfl | rfl | rfl | rfl | rfl | rfl | rfl | rfl | rfl | rfl | rfl | rfl | rfl | rfl |
    rfl | rfl | rfl | rfl | rfl | rfl
  all_goals first
    | exact np_len args s v s' ha hs h | exact np_int args s v s' ha hs h | exact np_float args s v s' ha hs h
    | exact np_str args s v s' ha hs h | exact np_dict args s v s' ha hs h | exact np_list args s v s' ha hs h
    | exact np_startswith args s v s' ha hs h | exact np_endswith args s v s' ha hs h | exact np_lower args s v s' ha hs h
    | exact np_upper args s v s' ha hs h | exact np_strip args s v s' ha hs h | exact np_replace args s v s' ha hs h
    | exact np_match args s v s' ha hs h | exact np_match_groups args s v s' ha hs h | exact np_match_all args s v s' ha hs h
    | exact np_pretty args s v s' ha hs h | exact np_keys args s v s' ha hs h | exact np_values args s v s' ha hs h
    | exact np_items args s v s' ha hs h | exact np_sum args s v s' ha hs h | exact np_get args s v s' ha hs h
    | exact np_getitem args s v s' ha hs hnd h | exact np_delitem args s v s' ha hs h | exact np_setitem args s v s' ha hs h
    | exact np_setitem_with_op args s v s' ha hs hnd h | exact np_join args s v s' ha hs h | exact np_split args s v s' ha hs h
    | exact np_round args s v s' ha hs h | exact np_floor args s v s' ha hs h | exact np_ceil args s v s' ha hs h
    | exact np_abs args s v s' ha hs h | exact np_min args s v s' ha hs h | exact np_max args s v s' ha hs h
    | exact np_rand args s v s' ha hs h | exact np_push args s v s' ha hs h | exact np_pop args s v s' ha hs h
    | exact np_insert args s v s' ha hs h | exact np_remove args s v s' ha hs h | exact np_reversed args s v s' ha hs h
    | exact np_enumerate args s v s' ha hs h | exact np_shuffle args s v s' ha hs h | exact np_index_of args s v s' ha hs h

/-- … through the dispatcher the machine uses -/
theorem callPure_plain (name : String) (args : List Val) (s : BState) (v : Val) (s' : BState) (ha : AllNP args)
    (hs : StNP s) (hnd : args.head? ≠ some (.builtin "dict") ∨ ∀ q, Pq q) (h : callPure name args s = .ok (v, s')) :
    NP v ∧ StNP s' := by
  unfold callPure at h
  split at h
  · simp only [U] at h; cases h
  · split at h
    · rename_i p hp
      exact table_plain p (List.mem_of_find?_eq_some hp) args s v s' ha hs hnd h
    · simp only [U] at h; cases h

end Sq.Inv
