/-
  SqLemmas/ParseCFG.lean — C06 [B] `reads_derives`: everything the levelled derivation relation derives is a
  sentence of the PUBLISHED context-free grammar — the 77 productions of `Sq.Spec.productions`, which the tie theorem
  `SqTie.grammar_tie` identifies with the productions PLY builds from /repo's rules.py on every run.
  With soundness of the parser: every accepted token list is derivable from the start symbol of that grammar.
-/
import SqLemmas.ParseSound
import Sq.Spec
namespace Sq

/-- (lhs, rhs) of every production -/
def cfg : List (String × List String) := Spec.productions.map (fun p => (p.1, p.2.1))

mutual
/-- `Der A w`: the nonterminal `A` derives the terminal string `w` (token types) in the published grammar -/
inductive Der : String → List Tk → Prop
  | rule {lhs rhs w} : (lhs, rhs) ∈ cfg → DerSeq rhs w → Der lhs w
/-- a right-hand side derives `w`: terminals match their own type name, nonterminals derive a factor -/
inductive DerSeq : List String → List Tk → Prop
  | nil : DerSeq [] []
  | term {tk rest w} : DerSeq rest w → DerSeq (tk.name :: rest) (tk :: w)
  | nt {x rest w1 w2} : Der x w1 → DerSeq rest w2 → DerSeq (x :: rest) (w1 ++ w2)
end

theorem Der.rule' {lhs : String} {rhs : List String} {w w' : List Tk} (hm : (lhs, rhs) ∈ cfg) (hs : DerSeq rhs w')
    (e : w = w') : Der lhs w := e ▸ .rule hm hs

abbrev tys (ts : List Token) : List Tk := ts.map (·.ty)

theorem tys_append (a b : List Token) : tys (a ++ b) = tys a ++ tys b := List.map_append
theorem tys_cons (t : Token) (r : List Token) : tys (t :: r) = t.ty :: tys r := rfl

/-- one terminal -/
theorem DerSeq.t1 {tk : Tk} : DerSeq [tk.name] [tk] := .term .nil

/-- a nonterminal followed by the rest, with the result string given explicitly -/
theorem DerSeq.nt' {x : String} {rest : List String} {w1 w2 w : List Tk} (h1 : Der x w1) (h2 : DerSeq rest w2)
    (e : w = w1 ++ w2) : DerSeq (x :: rest) w := e ▸ .nt h1 h2

theorem DerSeq.term' {s : String} {tk : Tk} {rest : List String} {w : List Tk} (e : s = tk.name) (h : DerSeq rest w) :
    DerSeq (s :: rest) (tk :: w) := e ▸ .term h

/-! ### one lemma per production (generated from the right-hand sides) -/

theorem g_name  : Der "expression" ([.NAME]) :=
  .rule' (rhs := ["NAME"]) (by decide) (w' := (Tk.NAME :: [])) (.term (tk := Tk.NAME) .nil) (by simp)

theorem g_call0  : Der "expression" ([.NAME, .LPAREN, .RPAREN]) :=
  .rule' (rhs := ["NAME", "LPAREN", "RPAREN"]) (by decide) (w' := (Tk.NAME :: (Tk.LPAREN :: (Tk.RPAREN :: [])))) (.term (tk := Tk.NAME) (.term (tk := Tk.LPAREN) (.term (tk := Tk.RPAREN) .nil))) (by simp)

theorem g_call {w : List Tk} (h : Der "arglist" w) : Der "expression" (Tk.NAME :: .LPAREN :: w ++ [.RPAREN]) :=
  .rule' (rhs := ["NAME", "LPAREN", "arglist", "RPAREN"]) (by decide) (w' := (Tk.NAME :: (Tk.LPAREN :: (w ++ (Tk.RPAREN :: []))))) (.term (tk := Tk.NAME) (.term (tk := Tk.LPAREN) (.nt (w1 := w) (w2 := (Tk.RPAREN :: [])) h (.term (tk := Tk.RPAREN) .nil)))) (by simp)

theorem g_callc {w : List Tk} (h : Der "arglist" w) : Der "expression" (Tk.NAME :: .LPAREN :: w ++ [.COMMA, .RPAREN]) :=
  .rule' (rhs := ["NAME", "LPAREN", "arglist", "COMMA", "RPAREN"]) (by decide) (w' := (Tk.NAME :: (Tk.LPAREN :: (w ++ (Tk.COMMA :: (Tk.RPAREN :: [])))))) (.term (tk := Tk.NAME) (.term (tk := Tk.LPAREN) (.nt (w1 := w) (w2 := (Tk.COMMA :: (Tk.RPAREN :: []))) h (.term (tk := Tk.COMMA) (.term (tk := Tk.RPAREN) .nil))))) (by simp)

theorem g_lam1 {w : List Tk} (h : Der "expression" w) : Der "expression" (Tk.NAME :: .LAMBDA :: w) :=
  .rule' (rhs := ["NAME", "LAMBDA", "expression"]) (by decide) (w' := (Tk.NAME :: (Tk.LAMBDA :: (w ++ [])))) (.term (tk := Tk.NAME) (.term (tk := Tk.LAMBDA) (.nt (w1 := w) (w2 := []) h .nil))) (by simp)

theorem g_paren {w : List Tk} (h : Der "expression" w) : Der "expression" (Tk.LPAREN :: w ++ [.RPAREN]) :=
  .rule' (rhs := ["LPAREN", "expression", "RPAREN"]) (by decide) (w' := (Tk.LPAREN :: (w ++ (Tk.RPAREN :: [])))) (.term (tk := Tk.LPAREN) (.nt (w1 := w) (w2 := (Tk.RPAREN :: [])) h (.term (tk := Tk.RPAREN) .nil))) (by simp)

theorem g_lamN {wd wb : List Tk} (hd : Der "arglist_def" wd) (hb : Der "expression" wb) : Der "expression" (Tk.LPAREN :: wd ++ .RPAREN :: .LAMBDA :: wb) :=
  .rule' (rhs := ["LPAREN", "arglist_def", "RPAREN", "LAMBDA", "expression"]) (by decide) (w' := (Tk.LPAREN :: (wd ++ (Tk.RPAREN :: (Tk.LAMBDA :: (wb ++ [])))))) (.term (tk := Tk.LPAREN) (.nt (w1 := wd) (w2 := (Tk.RPAREN :: (Tk.LAMBDA :: (wb ++ [])))) hd (.term (tk := Tk.RPAREN) (.term (tk := Tk.LAMBDA) (.nt (w1 := wb) (w2 := []) hb .nil))))) (by simp)

theorem g_list0  : Der "expression" ([.LBRACKET, .RBRACKET]) :=
  .rule' (rhs := ["LBRACKET", "RBRACKET"]) (by decide) (w' := (Tk.LBRACKET :: (Tk.RBRACKET :: []))) (.term (tk := Tk.LBRACKET) (.term (tk := Tk.RBRACKET) .nil)) (by simp)

theorem g_list {w : List Tk} (h : Der "arglist" w) : Der "expression" (Tk.LBRACKET :: w ++ [.RBRACKET]) :=
  .rule' (rhs := ["LBRACKET", "arglist", "RBRACKET"]) (by decide) (w' := (Tk.LBRACKET :: (w ++ (Tk.RBRACKET :: [])))) (.term (tk := Tk.LBRACKET) (.nt (w1 := w) (w2 := (Tk.RBRACKET :: [])) h (.term (tk := Tk.RBRACKET) .nil))) (by simp)

theorem g_listc {w : List Tk} (h : Der "arglist" w) : Der "expression" (Tk.LBRACKET :: w ++ [.COMMA, .RBRACKET]) :=
  .rule' (rhs := ["LBRACKET", "arglist", "COMMA", "RBRACKET"]) (by decide) (w' := (Tk.LBRACKET :: (w ++ (Tk.COMMA :: (Tk.RBRACKET :: []))))) (.term (tk := Tk.LBRACKET) (.nt (w1 := w) (w2 := (Tk.COMMA :: (Tk.RBRACKET :: []))) h (.term (tk := Tk.COMMA) (.term (tk := Tk.RBRACKET) .nil)))) (by simp)

theorem g_dict0  : Der "expression" ([.LBRACE, .RBRACE]) :=
  .rule' (rhs := ["LBRACE", "RBRACE"]) (by decide) (w' := (Tk.LBRACE :: (Tk.RBRACE :: []))) (.term (tk := Tk.LBRACE) (.term (tk := Tk.RBRACE) .nil)) (by simp)

theorem g_dict {w : List Tk} (h : Der "dict_item" w) : Der "expression" (Tk.LBRACE :: w ++ [.RBRACE]) :=
  .rule' (rhs := ["LBRACE", "dict_item", "RBRACE"]) (by decide) (w' := (Tk.LBRACE :: (w ++ (Tk.RBRACE :: [])))) (.term (tk := Tk.LBRACE) (.nt (w1 := w) (w2 := (Tk.RBRACE :: [])) h (.term (tk := Tk.RBRACE) .nil))) (by simp)

theorem g_dictc {w : List Tk} (h : Der "dict_item" w) : Der "expression" (Tk.LBRACE :: w ++ [.COMMA, .RBRACE]) :=
  .rule' (rhs := ["LBRACE", "dict_item", "COMMA", "RBRACE"]) (by decide) (w' := (Tk.LBRACE :: (w ++ (Tk.COMMA :: (Tk.RBRACE :: []))))) (.term (tk := Tk.LBRACE) (.nt (w1 := w) (w2 := (Tk.COMMA :: (Tk.RBRACE :: []))) h (.term (tk := Tk.COMMA) (.term (tk := Tk.RBRACE) .nil)))) (by simp)

theorem g_neg {w : List Tk} (h : Der "expression" w) : Der "expression" (Tk.MINUS :: w) :=
  .rule' (rhs := ["MINUS", "expression"]) (by decide) (w' := (Tk.MINUS :: (w ++ []))) (.term (tk := Tk.MINUS) (.nt (w1 := w) (w2 := []) h .nil)) (by simp)

theorem g_not {w : List Tk} (h : Der "expression" w) : Der "expression" (Tk.NOT :: w) :=
  .rule' (rhs := ["NOT", "expression"]) (by decide) (w' := (Tk.NOT :: (w ++ []))) (.term (tk := Tk.NOT) (.nt (w1 := w) (w2 := []) h .nil)) (by simp)

theorem g_notin {w1 w2 : List Tk} (h1 : Der "expression" w1) (h2 : Der "expression" w2) : Der "expression" (w1 ++ .NOT :: .IN :: w2) :=
  .rule' (rhs := ["expression", "NOT", "IN", "expression"]) (by decide) (w' := (w1 ++ (Tk.NOT :: (Tk.IN :: (w2 ++ []))))) (.nt (w1 := w1) (w2 := (Tk.NOT :: (Tk.IN :: (w2 ++ [])))) h1 (.term (tk := Tk.NOT) (.term (tk := Tk.IN) (.nt (w1 := w2) (w2 := []) h2 .nil)))) (by simp)

theorem g_if {wl wc we : List Tk} (hl : Der "expression" wl) (hc : Der "expression" wc) (he : Der "expression" we) : Der "expression" (wl ++ .IF :: wc ++ .ELSE :: we) :=
  .rule' (rhs := ["expression", "IF", "expression", "ELSE", "expression"]) (by decide) (w' := (wl ++ (Tk.IF :: (wc ++ (Tk.ELSE :: (we ++ [])))))) (.nt (w1 := wl) (w2 := (Tk.IF :: (wc ++ (Tk.ELSE :: (we ++ []))))) hl (.term (tk := Tk.IF) (.nt (w1 := wc) (w2 := (Tk.ELSE :: (we ++ []))) hc (.term (tk := Tk.ELSE) (.nt (w1 := we) (w2 := []) he .nil))))) (by simp)

theorem g_index {wl ws : List Tk} (hl : Der "expression" wl) (hs : Der "slice" ws) : Der "expression" (wl ++ .LBRACKET :: ws ++ [.RBRACKET]) :=
  .rule' (rhs := ["expression", "LBRACKET", "slice", "RBRACKET"]) (by decide) (w' := (wl ++ (Tk.LBRACKET :: (ws ++ (Tk.RBRACKET :: []))))) (.nt (w1 := wl) (w2 := (Tk.LBRACKET :: (ws ++ (Tk.RBRACKET :: [])))) hl (.term (tk := Tk.LBRACKET) (.nt (w1 := ws) (w2 := (Tk.RBRACKET :: [])) hs (.term (tk := Tk.RBRACKET) .nil)))) (by simp)

theorem g_dot0 {wl : List Tk} (hl : Der "expression" wl) : Der "expression" (wl ++ [.DOT, .NAME, .LPAREN, .RPAREN]) :=
  .rule' (rhs := ["expression", "DOT", "NAME", "LPAREN", "RPAREN"]) (by decide) (w' := (wl ++ (Tk.DOT :: (Tk.NAME :: (Tk.LPAREN :: (Tk.RPAREN :: [])))))) (.nt (w1 := wl) (w2 := (Tk.DOT :: (Tk.NAME :: (Tk.LPAREN :: (Tk.RPAREN :: []))))) hl (.term (tk := Tk.DOT) (.term (tk := Tk.NAME) (.term (tk := Tk.LPAREN) (.term (tk := Tk.RPAREN) .nil))))) (by simp)

theorem g_dot {wl wa : List Tk} (hl : Der "expression" wl) (ha : Der "arglist" wa) : Der "expression" (wl ++ .DOT :: .NAME :: .LPAREN :: wa ++ [.RPAREN]) :=
  .rule' (rhs := ["expression", "DOT", "NAME", "LPAREN", "arglist", "RPAREN"]) (by decide) (w' := (wl ++ (Tk.DOT :: (Tk.NAME :: (Tk.LPAREN :: (wa ++ (Tk.RPAREN :: []))))))) (.nt (w1 := wl) (w2 := (Tk.DOT :: (Tk.NAME :: (Tk.LPAREN :: (wa ++ (Tk.RPAREN :: [])))))) hl (.term (tk := Tk.DOT) (.term (tk := Tk.NAME) (.term (tk := Tk.LPAREN) (.nt (w1 := wa) (w2 := (Tk.RPAREN :: [])) ha (.term (tk := Tk.RPAREN) .nil)))))) (by simp)

theorem g_dotc {wl wa : List Tk} (hl : Der "expression" wl) (ha : Der "arglist" wa) : Der "expression" (wl ++ .DOT :: .NAME :: .LPAREN :: wa ++ [.COMMA, .RPAREN]) :=
  .rule' (rhs := ["expression", "DOT", "NAME", "LPAREN", "arglist", "COMMA", "RPAREN"]) (by decide) (w' := (wl ++ (Tk.DOT :: (Tk.NAME :: (Tk.LPAREN :: (wa ++ (Tk.COMMA :: (Tk.RPAREN :: [])))))))) (.nt (w1 := wl) (w2 := (Tk.DOT :: (Tk.NAME :: (Tk.LPAREN :: (wa ++ (Tk.COMMA :: (Tk.RPAREN :: []))))))) hl (.term (tk := Tk.DOT) (.term (tk := Tk.NAME) (.term (tk := Tk.LPAREN) (.nt (w1 := wa) (w2 := (Tk.COMMA :: (Tk.RPAREN :: []))) ha (.term (tk := Tk.COMMA) (.term (tk := Tk.RPAREN) .nil))))))) (by simp)

theorem g_pipe0 {wl : List Tk} (hl : Der "expression" wl) : Der "expression" (wl ++ [.PIPE, .NAME]) :=
  .rule' (rhs := ["expression", "PIPE", "NAME"]) (by decide) (w' := (wl ++ (Tk.PIPE :: (Tk.NAME :: [])))) (.nt (w1 := wl) (w2 := (Tk.PIPE :: (Tk.NAME :: []))) hl (.term (tk := Tk.PIPE) (.term (tk := Tk.NAME) .nil))) (by simp)

theorem g_pipe {wl wa : List Tk} (hl : Der "expression" wl) (ha : Der "arglist" wa) : Der "expression" (wl ++ .PIPE :: .NAME :: .LPAREN :: wa ++ [.RPAREN]) :=
  .rule' (rhs := ["expression", "PIPE", "NAME", "LPAREN", "arglist", "RPAREN"]) (by decide) (w' := (wl ++ (Tk.PIPE :: (Tk.NAME :: (Tk.LPAREN :: (wa ++ (Tk.RPAREN :: []))))))) (.nt (w1 := wl) (w2 := (Tk.PIPE :: (Tk.NAME :: (Tk.LPAREN :: (wa ++ (Tk.RPAREN :: [])))))) hl (.term (tk := Tk.PIPE) (.term (tk := Tk.NAME) (.term (tk := Tk.LPAREN) (.nt (w1 := wa) (w2 := (Tk.RPAREN :: [])) ha (.term (tk := Tk.RPAREN) .nil)))))) (by simp)

theorem g_pipec {wl wa : List Tk} (hl : Der "expression" wl) (ha : Der "arglist" wa) : Der "expression" (wl ++ .PIPE :: .NAME :: .LPAREN :: wa ++ [.COMMA, .RPAREN]) :=
  .rule' (rhs := ["expression", "PIPE", "NAME", "LPAREN", "arglist", "COMMA", "RPAREN"]) (by decide) (w' := (wl ++ (Tk.PIPE :: (Tk.NAME :: (Tk.LPAREN :: (wa ++ (Tk.COMMA :: (Tk.RPAREN :: [])))))))) (.nt (w1 := wl) (w2 := (Tk.PIPE :: (Tk.NAME :: (Tk.LPAREN :: (wa ++ (Tk.COMMA :: (Tk.RPAREN :: []))))))) hl (.term (tk := Tk.PIPE) (.term (tk := Tk.NAME) (.term (tk := Tk.LPAREN) (.nt (w1 := wa) (w2 := (Tk.COMMA :: (Tk.RPAREN :: []))) ha (.term (tk := Tk.COMMA) (.term (tk := Tk.RPAREN) .nil))))))) (by simp)

theorem g_arg1 {w : List Tk} (h : Der "expression" w) : Der "arglist" (w) :=
  .rule' (rhs := ["expression"]) (by decide) (w' := (w ++ [])) (.nt (w1 := w) (w2 := []) h .nil) (by simp)

theorem g_argn {w0 w : List Tk} (h0 : Der "arglist" w0) (h : Der "expression" w) : Der "arglist" (w0 ++ .COMMA :: w) :=
  .rule' (rhs := ["arglist", "COMMA", "expression"]) (by decide) (w' := (w0 ++ (Tk.COMMA :: (w ++ [])))) (.nt (w1 := w0) (w2 := (Tk.COMMA :: (w ++ []))) h0 (.term (tk := Tk.COMMA) (.nt (w1 := w) (w2 := []) h .nil))) (by simp)

theorem g_def {w0 : List Tk} (h0 : Der "arglist" w0) : Der "arglist_def" (w0 ++ [.COMMA, .NAME]) :=
  .rule' (rhs := ["arglist", "COMMA", "NAME"]) (by decide) (w' := (w0 ++ (Tk.COMMA :: (Tk.NAME :: [])))) (.nt (w1 := w0) (w2 := (Tk.COMMA :: (Tk.NAME :: []))) h0 (.term (tk := Tk.COMMA) (.term (tk := Tk.NAME) .nil))) (by simp)

theorem g_item1 {wk wv : List Tk} (hk : Der "expression" wk) (hv : Der "expression" wv) : Der "dict_item" (wk ++ .COLON :: wv) :=
  .rule' (rhs := ["expression", "COLON", "expression"]) (by decide) (w' := (wk ++ (Tk.COLON :: (wv ++ [])))) (.nt (w1 := wk) (w2 := (Tk.COLON :: (wv ++ []))) hk (.term (tk := Tk.COLON) (.nt (w1 := wv) (w2 := []) hv .nil))) (by simp)

theorem g_itemn {w0 wk wv : List Tk} (h0 : Der "dict_item" w0) (hk : Der "expression" wk) (hv : Der "expression" wv) : Der "dict_item" (w0 ++ .COMMA :: wk ++ .COLON :: wv) :=
  .rule' (rhs := ["dict_item", "COMMA", "expression", "COLON", "expression"]) (by decide) (w' := (w0 ++ (Tk.COMMA :: (wk ++ (Tk.COLON :: (wv ++ [])))))) (.nt (w1 := w0) (w2 := (Tk.COMMA :: (wk ++ (Tk.COLON :: (wv ++ []))))) h0 (.term (tk := Tk.COMMA) (.nt (w1 := wk) (w2 := (Tk.COLON :: (wv ++ []))) hk (.term (tk := Tk.COLON) (.nt (w1 := wv) (w2 := []) hv .nil))))) (by simp)

theorem g_sl_e {w : List Tk} (h : Der "expression" w) : Der "slice" (w) :=
  .rule' (rhs := ["expression"]) (by decide) (w' := (w ++ [])) (.nt (w1 := w) (w2 := []) h .nil) (by simp)

theorem g_sl_all  : Der "slice" ([.COLON]) :=
  .rule' (rhs := ["COLON"]) (by decide) (w' := (Tk.COLON :: [])) (.term (tk := Tk.COLON) .nil) (by simp)

theorem g_sl_step {w : List Tk} (h : Der "expression" w) : Der "slice" (Tk.COLON :: .COLON :: w) :=
  .rule' (rhs := ["COLON", "COLON", "expression"]) (by decide) (w' := (Tk.COLON :: (Tk.COLON :: (w ++ [])))) (.term (tk := Tk.COLON) (.term (tk := Tk.COLON) (.nt (w1 := w) (w2 := []) h .nil))) (by simp)

theorem g_sl_stop {w : List Tk} (h : Der "expression" w) : Der "slice" (Tk.COLON :: w) :=
  .rule' (rhs := ["COLON", "expression"]) (by decide) (w' := (Tk.COLON :: (w ++ []))) (.term (tk := Tk.COLON) (.nt (w1 := w) (w2 := []) h .nil)) (by simp)

theorem g_sl_stopc {w : List Tk} (h : Der "expression" w) : Der "slice" (Tk.COLON :: w ++ [.COLON]) :=
  .rule' (rhs := ["COLON", "expression", "COLON"]) (by decide) (w' := (Tk.COLON :: (w ++ (Tk.COLON :: [])))) (.term (tk := Tk.COLON) (.nt (w1 := w) (w2 := (Tk.COLON :: [])) h (.term (tk := Tk.COLON) .nil))) (by simp)

theorem g_sl_start {w : List Tk} (h : Der "expression" w) : Der "slice" (w ++ [.COLON]) :=
  .rule' (rhs := ["expression", "COLON"]) (by decide) (w' := (w ++ (Tk.COLON :: []))) (.nt (w1 := w) (w2 := (Tk.COLON :: [])) h (.term (tk := Tk.COLON) .nil)) (by simp)

theorem g_sl_startc {w : List Tk} (h : Der "expression" w) : Der "slice" (w ++ [.COLON, .COLON]) :=
  .rule' (rhs := ["expression", "COLON", "COLON"]) (by decide) (w' := (w ++ (Tk.COLON :: (Tk.COLON :: [])))) (.nt (w1 := w) (w2 := (Tk.COLON :: (Tk.COLON :: []))) h (.term (tk := Tk.COLON) (.term (tk := Tk.COLON) .nil))) (by simp)

theorem g_sl_ss {w w2 : List Tk} (h : Der "expression" w) (h2 : Der "expression" w2) : Der "slice" (w ++ .COLON :: w2) :=
  .rule' (rhs := ["expression", "COLON", "expression"]) (by decide) (w' := (w ++ (Tk.COLON :: (w2 ++ [])))) (.nt (w1 := w) (w2 := (Tk.COLON :: (w2 ++ []))) h (.term (tk := Tk.COLON) (.nt (w1 := w2) (w2 := []) h2 .nil))) (by simp)

theorem g_st_expr {w : List Tk} (h : Der "expression" w) : Der "statement" (w) :=
  .rule' (rhs := ["expression"]) (by decide) (w' := (w ++ [])) (.nt (w1 := w) (w2 := []) h .nil) (by simp)

theorem g_st_empty  : Der "statement" ([]) :=
  .rule' (rhs := []) (by decide) (w' := []) .nil (by simp)

theorem g_st_assign {w : List Tk} (h : Der "expression" w) : Der "statement" (Tk.NAME :: .ASSIGN :: w) :=
  .rule' (rhs := ["NAME", "ASSIGN", "expression"]) (by decide) (w' := (Tk.NAME :: (Tk.ASSIGN :: (w ++ [])))) (.term (tk := Tk.NAME) (.term (tk := Tk.ASSIGN) (.nt (w1 := w) (w2 := []) h .nil))) (by simp)

theorem g_st_short {w : List Tk} (h : Der "expression" w) : Der "statement" (Tk.NAME :: .SHORT_OP :: w) :=
  .rule' (rhs := ["NAME", "SHORT_OP", "expression"]) (by decide) (w' := (Tk.NAME :: (Tk.SHORT_OP :: (w ++ [])))) (.term (tk := Tk.NAME) (.term (tk := Tk.SHORT_OP) (.nt (w1 := w) (w2 := []) h .nil))) (by simp)

theorem g_st_del {wc wk : List Tk} (hc : Der "expression" wc) (hk : Der "expression" wk) : Der "statement" (Tk.DEL :: wc ++ .LBRACKET :: wk ++ [.RBRACKET]) :=
  .rule' (rhs := ["DEL", "expression", "LBRACKET", "expression", "RBRACKET"]) (by decide) (w' := (Tk.DEL :: (wc ++ (Tk.LBRACKET :: (wk ++ (Tk.RBRACKET :: [])))))) (.term (tk := Tk.DEL) (.nt (w1 := wc) (w2 := (Tk.LBRACKET :: (wk ++ (Tk.RBRACKET :: [])))) hc (.term (tk := Tk.LBRACKET) (.nt (w1 := wk) (w2 := (Tk.RBRACKET :: [])) hk (.term (tk := Tk.RBRACKET) .nil))))) (by simp)

theorem g_st_set {wc wk wv : List Tk} (hc : Der "expression" wc) (hk : Der "expression" wk) (hv : Der "expression" wv) : Der "statement" (wc ++ .LBRACKET :: wk ++ .RBRACKET :: .ASSIGN :: wv) :=
  .rule' (rhs := ["expression", "LBRACKET", "expression", "RBRACKET", "ASSIGN", "expression"]) (by decide) (w' := (wc ++ (Tk.LBRACKET :: (wk ++ (Tk.RBRACKET :: (Tk.ASSIGN :: (wv ++ []))))))) (.nt (w1 := wc) (w2 := (Tk.LBRACKET :: (wk ++ (Tk.RBRACKET :: (Tk.ASSIGN :: (wv ++ [])))))) hc (.term (tk := Tk.LBRACKET) (.nt (w1 := wk) (w2 := (Tk.RBRACKET :: (Tk.ASSIGN :: (wv ++ [])))) hk (.term (tk := Tk.RBRACKET) (.term (tk := Tk.ASSIGN) (.nt (w1 := wv) (w2 := []) hv .nil)))))) (by simp)

theorem g_st_setop {wc wk wv : List Tk} (hc : Der "expression" wc) (hk : Der "expression" wk) (hv : Der "expression" wv) : Der "statement" (wc ++ .LBRACKET :: wk ++ .RBRACKET :: .SHORT_OP :: wv) :=
  .rule' (rhs := ["expression", "LBRACKET", "expression", "RBRACKET", "SHORT_OP", "expression"]) (by decide) (w' := (wc ++ (Tk.LBRACKET :: (wk ++ (Tk.RBRACKET :: (Tk.SHORT_OP :: (wv ++ []))))))) (.nt (w1 := wc) (w2 := (Tk.LBRACKET :: (wk ++ (Tk.RBRACKET :: (Tk.SHORT_OP :: (wv ++ [])))))) hc (.term (tk := Tk.LBRACKET) (.nt (w1 := wk) (w2 := (Tk.RBRACKET :: (Tk.SHORT_OP :: (wv ++ [])))) hk (.term (tk := Tk.RBRACKET) (.term (tk := Tk.SHORT_OP) (.nt (w1 := wv) (w2 := []) hv .nil)))))) (by simp)

theorem g_line {w : List Tk} (h : Der "statement" w) : Der "line" (w) :=
  .rule' (rhs := ["statement"]) (by decide) (w' := (w ++ [])) (.nt (w1 := w) (w2 := []) h .nil) (by simp)

theorem g_code1 {w : List Tk} (h : Der "line" w) : Der "code" (w) :=
  .rule' (rhs := ["line"]) (by decide) (w' := (w ++ [])) (.nt (w1 := w) (w2 := []) h .nil) (by simp)

theorem g_coden {w0 w : List Tk} (h0 : Der "code" w0) (h : Der "line" w) : Der "code" (w0 ++ .NEWLINE :: w) :=
  .rule' (rhs := ["code", "NEWLINE", "line"]) (by decide) (w' := (w0 ++ (Tk.NEWLINE :: (w ++ [])))) (.nt (w1 := w0) (w2 := (Tk.NEWLINE :: (w ++ []))) h0 (.term (tk := Tk.NEWLINE) (.nt (w1 := w) (w2 := []) h .nil))) (by simp)

theorem g_start {w : List Tk} (h : Der "code" w) : Der "S'" (w) :=
  .rule' (rhs := ["code"]) (by decide) (w' := (w ++ [])) (.nt (w1 := w) (w2 := []) h .nil) (by simp)

theorem g_atom {t : Token} {e : Op} (h : atomOf t = some e) : Der "expression" [t.ty] := by
  unfold atomOf at h
  split at h
  · rename_i ht; rw [ht]; exact .rule (rhs := ["NUMBER"]) (by decide) (.term (tk := .NUMBER) .nil)
  · rename_i ht; rw [ht]; exact .rule (rhs := ["STRING"]) (by decide) (.term (tk := .STRING) .nil)
  · rename_i ht; rw [ht]; exact .rule (rhs := ["TRUE"]) (by decide) (.term (tk := .TRUE) .nil)
  · rename_i ht; rw [ht]; exact .rule (rhs := ["FALSE"]) (by decide) (.term (tk := .FALSE) .nil)
  · rename_i ht; rw [ht]; exact .rule (rhs := ["NONE"]) (by decide) (.term (tk := .NONE) .nil)
  · cases h

theorem g_bin {o : Tk} {k : BinK} (hk : binKind o = some k) {w1 w2 : List Tk} (h1 : Der "expression" w1)
    (h2 : Der "expression" w2) : Der "expression" (w1 ++ o :: w2) := by
  have mk : ("expression", ["expression", o.name, "expression"]) ∈ cfg → Der "expression" (w1 ++ o :: w2) := by
    intro hm
    exact .rule hm (.nt' h1 (.term (tk := o) (.nt' h2 .nil (by simp))) rfl)
  cases o <;> first
    | (simp [binKind] at hk; done)
    | exact mk (by decide)

/-! ### the levelled relation derives only sentences of the grammar -/

local notation "E" => Der "expression"

/-- `w` has the form `container [ key ]` -/
def IdxForm (w : List Tk) : Prop := ∃ wc wk, w = wc ++ Tk.LBRACKET :: wk ++ [Tk.RBRACKET] ∧ E wc ∧ E wk

/-- previous items of a left-recursive list, followed by the next one -/
def comb (sep : Tk) : Option (List Tk) → List Tk → List Tk
  | none, w => w
  | some w0, w => w0 ++ sep :: w

theorem tys_single (t : Token) : tys [t] = [t.ty] := rfl

mutual

theorem dExpr : ∀ {m a ts t b nxt}, RExpr m a ts t b nxt → E (tys ts) ∧ (b = true → IdxForm (tys ts))
  | _, _, _, _, _, _, .mk (ts0 := ts0) (ts := ts) hp hs => by
    obtain ⟨h1, h2⟩ := dSpine hs (tys ts0) (dPrim hp)
    rw [tys_append]
    refine ⟨h1, fun hb => ?_⟩
    rcases h2 hb with ⟨_, hf⟩ | hi
    · cases hf
    · exact hi

theorem dPrim : ∀ {ts t la}, RPrim ts t la → E (tys ts)
  | _, _, _, .atom ha => by rw [tys_single]; exact g_atom ha
  | _, _, _, .name ht _ _ => by rw [tys_single, ht]; exact g_name
  | _, _, _, .call0 hn hl hr => by simp only [tys, List.map, hn, hl, hr]; exact g_call0
  | _, _, _, .call (ts := ts) hn hl ha => by
    obtain ⟨w, hw, he⟩ := dArgs ha
    rw [tys_cons, tys_cons, hn, hl]
    rcases he with e | e <;> rw [e]
    · exact g_call hw
    · exact g_callc hw
  | _, _, _, .lam1 hn hl he => by
    rw [tys_cons, tys_cons, hn, hl]; exact g_lam1 (dExpr he).1
  | _, _, _, .paren hl he hr => by
    rw [tys_append, tys_cons, tys_single, hl, hr]; exact g_paren (dExpr he).1
  | _, _, _, .lamN (ts0 := ts0) (ps := ps) (body := body) hl h0 hc hp hlam hb => by
    obtain ⟨w, hw, he⟩ := dParams hp (tys ts0) (g_arg1 (dExpr h0).1)
    have := g_lamN hw (dExpr hb).1
    simp only [tys_cons, tys_append, hl, hc, hlam, he]
    simpa [List.append_assoc] using this
  | _, _, _, .list0 hl hr => by simp only [tys, List.map, hl, hr]; exact g_list0
  | _, _, _, .list hl ha => by
    obtain ⟨w, hw, he⟩ := dArgs ha
    rw [tys_cons, hl]
    rcases he with e | e <;> rw [e]
    · exact g_list hw
    · exact g_listc hw
  | _, _, _, .dict0 hl hr => by simp only [tys, List.map, hl, hr]; exact g_dict0
  | _, _, _, .dict hl hd => by
    obtain ⟨w, hw, he⟩ := dDict hd none (fun _ h => by cases h)
    rw [tys_cons, hl]
    rcases he with e | e <;> rw [e]
    · exact g_dict hw
    · exact g_dictc hw
  | _, _, _, .neg hm he => by rw [tys_cons, hm]; exact g_neg (dExpr he).1
  | _, _, _, .not hn he => by rw [tys_cons, hn]; exact g_not (dExpr he).1

theorem dSpine : ∀ {m a l b ts t bt nxt}, RSpine m a l b ts t bt nxt → ∀ w, E w →
    E (w ++ tys ts) ∧ (bt = true → (ts = [] ∧ b = true) ∨ IdxForm (w ++ tys ts))
  | _, _, _, _, _, _, _, _, .nil _, w, hw => by
    exact ⟨by simpa [tys] using hw, fun hb => Or.inl ⟨rfl, hb⟩⟩
  | _, _, _, _, _, _, _, _, .bin (o := o) (tsr := tsr) (rest := rest) _ hk he hs, w, hw => by
    obtain ⟨h1, h2⟩ := dSpine hs (w ++ o.ty :: tys tsr) (g_bin hk hw (dExpr he).1)
    have e : w ++ tys (o :: tsr ++ rest) = w ++ o.ty :: tys tsr ++ tys rest := by simp [tys]
    rw [e]
    refine ⟨h1, fun hb => ?_⟩
    rcases h2 hb with ⟨_, hf⟩ | hi
    · cases hf
    · exact Or.inr hi
  | _, _, _, _, _, _, _, _, .notin (o := o) (i := i) (tsr := tsr) (rest := rest) ho _ hi he hs, w, hw => by
    obtain ⟨h1, h2⟩ := dSpine hs (w ++ Tk.NOT :: Tk.IN :: tys tsr) (g_notin hw (dExpr he).1)
    have e : w ++ tys (o :: i :: tsr ++ rest) = w ++ Tk.NOT :: Tk.IN :: tys tsr ++ tys rest := by simp [tys, ho, hi]
    rw [e]
    refine ⟨h1, fun hb => ?_⟩
    rcases h2 hb with ⟨_, hf⟩ | hx
    · cases hf
    · exact Or.inr hx
  | _, _, _, _, _, _, _, _, .ifx (o := o) (tsc := tsc) (el := el) (tse := tse) (rest := rest) ho _ hc hel he hs, w, hw => by
    obtain ⟨h1, h2⟩ := dSpine hs (w ++ Tk.IF :: tys tsc ++ Tk.ELSE :: tys tse) (g_if hw (dExpr hc).1 (dExpr he).1)
    have e : w ++ tys (o :: tsc ++ el :: tse ++ rest) = w ++ Tk.IF :: tys tsc ++ Tk.ELSE :: tys tse ++ tys rest := by
      simp [tys, ho, hel]
    rw [e]
    refine ⟨h1, fun hb => ?_⟩
    rcases h2 hb with ⟨_, hf⟩ | hx
    · cases hf
    · exact Or.inr hx
  | _, _, _, _, _, _, _, _, .index (o := o) (tss := tss) (plain := plain) (rest := rest) ho _ hsub hs, w, hw => by
    obtain ⟨ws, es, hsl, hpl⟩ := dSub hsub
    obtain ⟨h1, h2⟩ := dSpine hs (w ++ Tk.LBRACKET :: ws ++ [Tk.RBRACKET]) (g_index hw hsl)
    have e : w ++ tys (o :: tss ++ rest) = w ++ Tk.LBRACKET :: ws ++ [Tk.RBRACKET] ++ tys rest := by
      simp [tys_cons, tys_append, ho, es]
    rw [e]
    refine ⟨h1, fun hb => ?_⟩
    rcases h2 hb with ⟨hr, hp⟩ | hx
    · right
      subst hr
      exact ⟨w, ws, by simp [tys], hw, hpl hp⟩
    · exact Or.inr hx
  | _, _, _, _, _, _, _, _, .dot0 (o := o) (n := n) (lp := lp) (rp := rp) (rest := rest) ho _ hn hl hr hs, w, hw => by
    obtain ⟨h1, h2⟩ := dSpine hs (w ++ [Tk.DOT, Tk.NAME, Tk.LPAREN, Tk.RPAREN]) (g_dot0 hw)
    have e : w ++ tys (o :: n :: lp :: rp :: rest) = w ++ [Tk.DOT, Tk.NAME, Tk.LPAREN, Tk.RPAREN] ++ tys rest := by
      simp [tys, ho, hn, hl, hr]
    rw [e]
    refine ⟨h1, fun hb => ?_⟩
    rcases h2 hb with ⟨_, hf⟩ | hx
    · cases hf
    · exact Or.inr hx
  | _, _, _, _, _, _, _, _, .dot (o := o) (n := n) (lp := lp) (tsa := tsa) (rest := rest) ho _ hn hl ha hs, w, hw => by
    obtain ⟨wa, hwa, hea⟩ := dArgs ha
    rcases hea with ea | ea
    · obtain ⟨h1, h2⟩ := dSpine hs (w ++ Tk.DOT :: Tk.NAME :: Tk.LPAREN :: wa ++ [Tk.RPAREN]) (g_dot hw hwa)
      have e : w ++ tys (o :: n :: lp :: tsa ++ rest) = w ++ Tk.DOT :: Tk.NAME :: Tk.LPAREN :: wa ++ [Tk.RPAREN] ++ tys rest := by
        simp [tys_cons, tys_append, ho, hn, hl, ea]
      rw [e]
      refine ⟨h1, fun hb => ?_⟩
      rcases h2 hb with ⟨_, hf⟩ | hx
      · cases hf
      · exact Or.inr hx
    · obtain ⟨h1, h2⟩ := dSpine hs (w ++ Tk.DOT :: Tk.NAME :: Tk.LPAREN :: wa ++ [Tk.COMMA, Tk.RPAREN]) (g_dotc hw hwa)
      have e : w ++ tys (o :: n :: lp :: tsa ++ rest) = w ++ Tk.DOT :: Tk.NAME :: Tk.LPAREN :: wa ++ [Tk.COMMA, Tk.RPAREN] ++ tys rest := by
        simp [tys_cons, tys_append, ho, hn, hl, ea]
      rw [e]
      refine ⟨h1, fun hb => ?_⟩
      rcases h2 hb with ⟨_, hf⟩ | hx
      · cases hf
      · exact Or.inr hx
  | _, _, _, _, _, _, _, _, .pipe0 (o := o) (n := n) (rest := rest) ho _ hn _ hs, w, hw => by
    obtain ⟨h1, h2⟩ := dSpine hs (w ++ [Tk.PIPE, Tk.NAME]) (g_pipe0 hw)
    have e : w ++ tys (o :: n :: rest) = w ++ [Tk.PIPE, Tk.NAME] ++ tys rest := by simp [tys, ho, hn]
    rw [e]
    refine ⟨h1, fun hb => ?_⟩
    rcases h2 hb with ⟨_, hf⟩ | hx
    · cases hf
    · exact Or.inr hx
  | _, _, _, _, _, _, _, _, .pipe (o := o) (n := n) (lp := lp) (tsa := tsa) (rest := rest) ho _ hn hl ha hs, w, hw => by
    obtain ⟨wa, hwa, hea⟩ := dArgs ha
    rcases hea with ea | ea
    · obtain ⟨h1, h2⟩ := dSpine hs (w ++ Tk.PIPE :: Tk.NAME :: Tk.LPAREN :: wa ++ [Tk.RPAREN]) (g_pipe hw hwa)
      have e : w ++ tys (o :: n :: lp :: tsa ++ rest) = w ++ Tk.PIPE :: Tk.NAME :: Tk.LPAREN :: wa ++ [Tk.RPAREN] ++ tys rest := by
        simp [tys_cons, tys_append, ho, hn, hl, ea]
      rw [e]
      refine ⟨h1, fun hb => ?_⟩
      rcases h2 hb with ⟨_, hf⟩ | hx
      · cases hf
      · exact Or.inr hx
    · obtain ⟨h1, h2⟩ := dSpine hs (w ++ Tk.PIPE :: Tk.NAME :: Tk.LPAREN :: wa ++ [Tk.COMMA, Tk.RPAREN]) (g_pipec hw hwa)
      have e : w ++ tys (o :: n :: lp :: tsa ++ rest) = w ++ Tk.PIPE :: Tk.NAME :: Tk.LPAREN :: wa ++ [Tk.COMMA, Tk.RPAREN] ++ tys rest := by
        simp [tys_cons, tys_append, ho, hn, hl, ea]
      rw [e]
      refine ⟨h1, fun hb => ?_⟩
      rcases h2 hb with ⟨_, hf⟩ | hx
      · cases hf
      · exact Or.inr hx

theorem dArgs : ∀ {close ts out}, RArgs close ts out →
    ∃ w, Der "arglist" w ∧ (tys ts = w ++ [close] ∨ tys ts = w ++ [Tk.COMMA, close])
  | _, _, _, .mk (ts0 := ts0) (rest := rest) he ht => by
    obtain ⟨w, hw, e⟩ := dArgsTail ht (tys ts0) (g_arg1 (dExpr he).1)
    refine ⟨tys ts0 ++ w, hw, ?_⟩
    rw [tys_append]
    rcases e with e | e <;> rw [e]
    · left; simp
    · right; simp

theorem dArgsTail : ∀ {close acc ts out}, RArgsTail close acc ts out → ∀ w0, Der "arglist" w0 →
    ∃ w, Der "arglist" (w0 ++ w) ∧ (tys ts = w ++ [close] ∨ tys ts = w ++ [Tk.COMMA, close])
  | _, _, _, _, .close hc _, w0, h0 => ⟨[], by simpa using h0, Or.inl (by simp [tys, hc])⟩
  | _, _, _, _, .trailing hcm hc, w0, h0 => ⟨[], by simpa using h0, Or.inr (by simp [tys, hcm, hc])⟩
  | _, _, _, _, .more (cm := cm) (ts0 := ts0) (rest := rest) hcm _ he ht, w0, h0 => by
    obtain ⟨w, hw, e⟩ := dArgsTail ht (w0 ++ Tk.COMMA :: tys ts0) (g_argn h0 (dExpr he).1)
    refine ⟨Tk.COMMA :: tys ts0 ++ w, by simpa [List.append_assoc] using hw, ?_⟩
    rcases e with e | e
    · left; simp [tys_cons, tys_append, hcm, e]
    · right; simp [tys_cons, tys_append, hcm, e]

theorem dDict : ∀ {acc ts out}, RDict acc ts out → ∀ (p : Option (List Tk)), (∀ w0, p = some w0 → Der "dict_item" w0) →
    ∃ w, Der "dict_item" (comb Tk.COMMA p w) ∧ (tys ts = w ++ [Tk.RBRACE] ∨ tys ts = w ++ [Tk.COMMA, Tk.RBRACE])
  | _, _, _, .last (tsk := tsk) (tsv := tsv) hk hcol hv hrb, p, hp => by
    refine ⟨tys tsk ++ Tk.COLON :: tys tsv, ?_, Or.inl (by simp [tys_cons, tys_append, hcol, hrb])⟩
    cases p with
    | none => exact g_item1 (dExpr hk).1 (dExpr hv).1
    | some w0 => simpa [comb, List.append_assoc] using g_itemn (hp w0 rfl) (dExpr hk).1 (dExpr hv).1
  | _, _, _, .lastComma (tsk := tsk) (tsv := tsv) hk hcol hv hcm hrb, p, hp => by
    refine ⟨tys tsk ++ Tk.COLON :: tys tsv, ?_, Or.inr (by simp [tys_cons, tys_append, hcol, hcm, hrb])⟩
    cases p with
    | none => exact g_item1 (dExpr hk).1 (dExpr hv).1
    | some w0 => simpa [comb, List.append_assoc] using g_itemn (hp w0 rfl) (dExpr hk).1 (dExpr hv).1
  | _, _, _, .more (tsk := tsk) (tsv := tsv) (rest := rest) hk hcol hv hcm _ hd, p, hp => by
    have hitem : Der "dict_item" (comb Tk.COMMA p (tys tsk ++ Tk.COLON :: tys tsv)) := by
      cases p with
      | none => exact g_item1 (dExpr hk).1 (dExpr hv).1
      | some w0 => simpa [comb, List.append_assoc] using g_itemn (hp w0 rfl) (dExpr hk).1 (dExpr hv).1
    obtain ⟨w, hw, e⟩ := dDict hd (some (comb Tk.COMMA p (tys tsk ++ Tk.COLON :: tys tsv)))
      (fun w0 h => by injection h with h; rw [← h]; exact hitem)
    refine ⟨tys tsk ++ Tk.COLON :: tys tsv ++ Tk.COMMA :: w, ?_, ?_⟩
    · cases p with
      | none => simpa [comb, List.append_assoc] using hw
      | some w0 => simpa [comb, List.append_assoc] using hw
    · rcases e with e | e
      · left; simp [tys_cons, tys_append, hcol, hcm, e]
      · right; simp [tys_cons, tys_append, hcol, hcm, e]

theorem dParams : ∀ {acc ts out}, RParams acc ts out → ∀ w0, Der "arglist" w0 →
    ∃ w, Der "arglist_def" (w0 ++ Tk.COMMA :: w) ∧ tys ts = w ++ [Tk.RPAREN]
  | _, _, _, .last hn hr, w0, h0 => ⟨[Tk.NAME], g_def h0, by simp [tys, hn, hr]⟩
  | _, _, _, .more (ts0 := ts0) (cm := cm) (rest := rest) _ he hcm hp, w0, h0 => by
    obtain ⟨w, hw, e⟩ := dParams hp (w0 ++ Tk.COMMA :: tys ts0) (g_argn h0 (dExpr he).1)
    refine ⟨tys ts0 ++ Tk.COMMA :: w, by simpa [List.append_assoc] using hw, ?_⟩
    simp [tys_cons, tys_append, hcm, e]

theorem dSub : ∀ {ts k plain}, RSub ts k plain → ∃ w, tys ts = w ++ [Tk.RBRACKET] ∧ Der "slice" w ∧ (plain = true → E w)
  | _, _, _, .idx (ts := ts) he hr => ⟨tys ts, by simp [tys_append, tys, hr], g_sl_e (dExpr he).1, fun _ => (dExpr he).1⟩
  | _, _, _, .all hc hr => ⟨[Tk.COLON], by simp [tys, hc, hr], g_sl_all, fun h => by cases h⟩
  | _, _, _, .step (ts := ts) h1 h2 he hr =>
    ⟨Tk.COLON :: Tk.COLON :: tys ts, by simp [tys_cons, tys_append, tys, h1, h2, hr], g_sl_step (dExpr he).1, fun h => by cases h⟩
  | _, _, _, .stop (ts := ts) hc he hr =>
    ⟨Tk.COLON :: tys ts, by simp [tys_cons, tys_append, tys, hc, hr], g_sl_stop (dExpr he).1, fun h => by cases h⟩
  | _, _, _, .stopColon (ts := ts) hc he hc2 hr =>
    ⟨Tk.COLON :: tys ts ++ [Tk.COLON], by simp [tys_cons, tys_append, tys, hc, hc2, hr], g_sl_stopc (dExpr he).1, fun h => by cases h⟩
  | _, _, _, .start (ts := ts) he hc hr =>
    ⟨tys ts ++ [Tk.COLON], by simp [tys_append, tys, hc, hr], g_sl_start (dExpr he).1, fun h => by cases h⟩
  | _, _, _, .startColon (ts := ts) he hc hc2 hr =>
    ⟨tys ts ++ [Tk.COLON, Tk.COLON], by simp [tys_append, tys, hc, hc2, hr], g_sl_startc (dExpr he).1, fun h => by cases h⟩
  | _, _, _, .startStop (ts := ts) (ts2 := ts2) he hc he2 hr =>
    ⟨tys ts ++ Tk.COLON :: tys ts2, by simp [tys_cons, tys_append, tys, hc, hr], g_sl_ss (dExpr he).1 (dExpr he2).1, fun h => by cases h⟩

end

theorem dStmt {ts : List Token} {s : Option Op} {nxt : LA} (h : RStmt ts s nxt) : Der "statement" (tys ts) := by
  cases h with
  | empty _ => exact g_st_empty
  | expr _ he => exact g_st_expr (dExpr he).1
  | assign _ hn heq he => rw [tys_cons, tys_cons, hn, heq]; exact g_st_assign (dExpr he).1
  | short _ hn ho _ he => rw [tys_cons, tys_cons, hn, ho]; exact g_st_short (dExpr he).1
  | del _ hd he _ =>
    obtain ⟨wc, wk, e, hc, hk⟩ := (dExpr he).2 rfl
    rw [tys_cons, hd, e]
    simpa [List.append_assoc] using g_st_del hc hk
  | setitem _ he _ heq hv =>
    obtain ⟨wc, wk, e, hc, hk⟩ := (dExpr he).2 rfl
    rw [tys_append, tys_cons, heq, e]
    simpa [List.append_assoc] using g_st_set hc hk (dExpr hv).1
  | setop _ he _ ho hv =>
    obtain ⟨wc, wk, e, hc, hk⟩ := (dExpr he).2 rfl
    rw [tys_append, tys_cons, ho, e]
    simpa [List.append_assoc] using g_st_setop hc hk (dExpr hv).1

theorem dCode {acc : List Op} {ts : List Token} {out : List Op} (h : RCode acc ts out) :
    ∀ (p : Option (List Tk)), (∀ w0, p = some w0 → Der "code" w0) → Der "code" (comb Tk.NEWLINE p (tys ts)) := by
  induction h with
  | @last acc ts s hs =>
    intro p hp
    cases p with
    | none => exact g_code1 (g_line (dStmt hs))
    | some w0 => exact g_coden (hp w0 rfl) (g_line (dStmt hs))
  | @more acc ts s nl rest out hs hnl _ ih =>
    intro p hp
    have hitem : Der "code" (comb Tk.NEWLINE p (tys ts)) := by
      cases p with
      | none => exact g_code1 (g_line (dStmt hs))
      | some w0 => exact g_coden (hp w0 rfl) (g_line (dStmt hs))
    have := ih (some (comb Tk.NEWLINE p (tys ts))) (fun w0 h => by injection h with h; rw [← h]; exact hitem)
    cases p with
    | none => simpa [comb, tys_append, tys_cons, hnl, List.append_assoc] using this
    | some w0 => simpa [comb, tys_append, tys_cons, hnl, List.append_assoc] using this

/-- **reads_derives**: every program the levelled relation derives is a sentence of the published grammar -/
theorem relation_derives_grammar {ts : List Token} {out : List Op} (h : RCode [] ts out) : Der "S'" (tys ts) :=
  g_start (dCode h none (fun _ h => by cases h))

/-- **every accepted token list is derivable from the start symbol of the published grammar** -/
theorem accepted_is_grammatical {ts : List Token} {tree : Op} (h : parseTokens ts = .ok tree) : Der "S'" (tys ts) := by
  obtain ⟨out, _, hr⟩ := sound h
  exact relation_derives_grammar hr

end Sq
