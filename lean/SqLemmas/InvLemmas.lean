/-
  SqLemmas/InvLemmas.lean — generic value invariant (generalisation of PlainLemmas: closures / builtin values / opaque objects constrained by predicates).  `NP v`: the value contains no opaque (non-plain
  Python object) anywhere; `HeapNP h`: no object of the heap holds one.
-/
import Sq.Builtins
import SqLemmas.CopyLemmas
namespace Sq.Inv

/-- every closure inside the value satisfies `Pc`, every builtin-function value `Pb`, every opaque object `Pq` -/
inductive NPg (Pc : List Op → Op → Nat → Prop) (Pb : String → Prop) (Pq : String → Prop) (Pr : Nat → Prop) : Val → Prop
  | none : NPg Pc Pb Pq Pr .none
  | bool {x} : NPg Pc Pb Pq Pr (.bool x)
  | dec {d c} : NPg Pc Pb Pq Pr (.dec d c)
  | int {i} : NPg Pc Pb Pq Pr (.int i)
  | str {s} : NPg Pc Pb Pq Pr (.str s)
  | slice {x y z} : NPg Pc Pb Pq Pr (.slice x y z)
  | ref {a} : Pr a → NPg Pc Pb Pq Pr (.ref a)
  | builtin {n} : Pb n → NPg Pc Pb Pq Pr (.builtin n)
  | closure {ps body vm} : Pc ps body vm → NPg Pc Pb Pq Pr (.closure ps body vm)
  | host {i} : NPg Pc Pb Pq Pr (.host i)
  | opaque {s} : Pq s → NPg Pc Pb Pq Pr (.opaque s)
  | tuple {vs} : (∀ v, v ∈ vs → NPg Pc Pb Pq Pr v) → NPg Pc Pb Pq Pr (.tuple vs)

def ObjNPg (Pc : List Op → Op → Nat → Prop) (Pb : String → Prop) (Pq : String → Prop) (Pr : Nat → Prop) : HObj → Prop
  | .list xs => ∀ v, v ∈ xs → NPg Pc Pb Pq Pr v
  | .dict kvs => ∀ kv, kv ∈ kvs → NPg Pc Pb Pq Pr kv.1 ∧ NPg Pc Pb Pq Pr kv.2

def HeapNPg (Pc : List Op → Op → Nat → Prop) (Pb : String → Prop) (Pq : String → Prop) (Pr : Nat → Prop) (h : Heap) : Prop :=
  (∀ a o, h.get? a = some o → ObjNPg Pc Pb Pq Pr o) ∧ ∀ a, h.size ≤ a → Pr a

def AllNPg (Pc : List Op → Op → Nat → Prop) (Pb : String → Prop) (Pq : String → Prop) (Pr : Nat → Prop) (vs : List Val) : Prop :=
  ∀ v, v ∈ vs → NPg Pc Pb Pq Pr v

variable {Pc : List Op → Op → Nat → Prop} {Pb : String → Prop} {Pq : String → Prop} {Pr : Nat → Prop}
local notation "NP" => NPg Pc Pb Pq Pr
local notation "ObjNP" => ObjNPg Pc Pb Pq Pr
local notation "HeapNP" => HeapNPg Pc Pb Pq Pr
local notation "AllNP" => AllNPg Pc Pb Pq Pr

theorem heapNP_push {h : Heap} (hh : HeapNP h) {o : HObj} (ho : ObjNP o) : HeapNP (h.push o) := by
  refine ⟨?_, fun a ha => hh.2 a (by simp at ha; omega)⟩
  intro a ob hg
  rw [get?_push] at hg
  split at hg
  · injection hg with hg; subst hg; exact ho
  · exact hh.1 a ob hg

theorem heapNP_set {h : Heap} (hh : HeapNP h) (a : Nat) {o : HObj} (ho : ObjNP o) : HeapNP (h.set a o) := by
  refine ⟨?_, fun b hb => hh.2 b (by rw [size_set] at hb; exact hb)⟩
  intro b ob hg
  rw [get?_set] at hg
  split at hg
  · injection hg with hg; subst hg; exact ho
  · exact hh.1 b ob hg

/-- the next address to be allocated may be mentioned -/
theorem heapNP_fresh {h : Heap} (hh : HeapNP h) : Pr h.size := hh.2 _ (Nat.le_refl _)

theorem allocList_np {s : BState} (hh : HeapNP s.heap) {xs : List Val} (hx : AllNP xs) :
    NP (allocList s xs).1 ∧ HeapNP (allocList s xs).2.heap := by
  simp only [allocList, Heap.alloc]
  exact ⟨.ref (heapNP_fresh hh), heapNP_push hh hx⟩

end Sq.Inv
