/-
  SqLemmas/InvLemmas.lean — generic value invariant (generalisation of PlainLemmas: closures / builtin values / opaque objects constrained by predicates).  `NP v`: the value contains no opaque (non-plain
  Python object) anywhere; `HeapNP h`: no object of the heap holds one.
-/
import Sq.Builtins
import SqLemmas.CopyLemmas
namespace Sq.Inv

/-- every closure inside the value satisfies `Pc`, every builtin-function value `Pb`, every opaque object `Pq` -/
inductive NPg (Pc : List Op → Op → Nat → Prop) (Pb : String → Prop) (Pq : String → Prop) : Val → Prop
  | none : NPg Pc Pb Pq .none
  | bool {x} : NPg Pc Pb Pq (.bool x)
  | dec {d c} : NPg Pc Pb Pq (.dec d c)
  | int {i} : NPg Pc Pb Pq (.int i)
  | str {s} : NPg Pc Pb Pq (.str s)
  | slice {x y z} : NPg Pc Pb Pq (.slice x y z)
  | ref {a} : NPg Pc Pb Pq (.ref a)
  | builtin {n} : Pb n → NPg Pc Pb Pq (.builtin n)
  | closure {ps body vm} : Pc ps body vm → NPg Pc Pb Pq (.closure ps body vm)
  | host {i} : NPg Pc Pb Pq (.host i)
  | opaque {s} : Pq s → NPg Pc Pb Pq (.opaque s)
  | tuple {vs} : (∀ v, v ∈ vs → NPg Pc Pb Pq v) → NPg Pc Pb Pq (.tuple vs)

def ObjNPg (Pc : List Op → Op → Nat → Prop) (Pb : String → Prop) (Pq : String → Prop) : HObj → Prop
  | .list xs => ∀ v, v ∈ xs → NPg Pc Pb Pq v
  | .dict kvs => ∀ kv, kv ∈ kvs → NPg Pc Pb Pq kv.1 ∧ NPg Pc Pb Pq kv.2

def HeapNPg (Pc : List Op → Op → Nat → Prop) (Pb : String → Prop) (Pq : String → Prop) (h : Heap) : Prop :=
  ∀ a o, h.get? a = some o → ObjNPg Pc Pb Pq o

def AllNPg (Pc : List Op → Op → Nat → Prop) (Pb : String → Prop) (Pq : String → Prop) (vs : List Val) : Prop :=
  ∀ v, v ∈ vs → NPg Pc Pb Pq v

variable {Pc : List Op → Op → Nat → Prop} {Pb : String → Prop} {Pq : String → Prop}
local notation "NP" => NPg Pc Pb Pq
local notation "ObjNP" => ObjNPg Pc Pb Pq
local notation "HeapNP" => HeapNPg Pc Pb Pq
local notation "AllNP" => AllNPg Pc Pb Pq

theorem heapNP_push {h : Heap} (hh : HeapNP h) {o : HObj} (ho : ObjNP o) : HeapNP (h.push o) := by
  intro a ob hg
  rw [get?_push] at hg
  split at hg
  · injection hg with hg; subst hg; exact ho
  · exact hh a ob hg

theorem heapNP_set {h : Heap} (hh : HeapNP h) (a : Nat) {o : HObj} (ho : ObjNP o) : HeapNP (h.set a o) := by
  intro b ob hg
  rw [get?_set] at hg
  split at hg
  · injection hg with hg; subst hg; exact ho
  · exact hh b ob hg

theorem allocList_np {s : BState} (hh : HeapNP s.heap) {xs : List Val} (hx : AllNP xs) :
    NP (allocList s xs).1 ∧ HeapNP (allocList s xs).2.heap := by
  simp only [allocList, Heap.alloc]
  exact ⟨.ref, heapNP_push hh hx⟩

end Sq.Inv
