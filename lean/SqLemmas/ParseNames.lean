/-
  SqLemmas/ParseNames.lean — every name a parsed tree mentions is the value of a NAME token of the
  token list it was parsed from, or one of the fixed implicit names syntax sugar maps to (C18 [B]).
  Mutual induction over the levelled derivation relation; lifted to the parser by soundness.
-/
import SqLemmas.ParseSound
namespace Sq

/-- `Mentions e x`: the tree `e` contains the identifier `x` — as a variable, a called function, a lambda
    parameter, or the target of an assignment / compound assignment -/
inductive Mentions : Op → Name → Prop
  | name {n} : Mentions (.name n) n
  | callee {n args} : Mentions (.call n args) n
  | arg {n args a x} : a ∈ args → Mentions a x → Mentions (.call n args) x
  | line {ls a x} : a ∈ ls → Mentions a x → Mentions (.code ls) x
  | binL {k a b x} : Mentions a x → Mentions (.bin k a b) x
  | binR {k a b x} : Mentions b x → Mentions (.bin k a b) x
  | unary {k a x} : Mentions a x → Mentions (.unary k a) x
  | target {n v} : Mentions (.assign n v) n
  | assigned {n v x} : Mentions v x → Mentions (.assign n v) x
  | shortTarget {n k v} : Mentions (.short n k v) n
  | shortVal {n k v x} : Mentions v x → Mentions (.short n k v) x
  | ifC {c a b x} : Mentions c x → Mentions (.ifx c a b) x
  | ifA {c a b x} : Mentions a x → Mentions (.ifx c a b) x
  | ifB {c a b x} : Mentions b x → Mentions (.ifx c a b) x
  | sliceA {a b c x} : Mentions a x → Mentions (.slice a b c) x
  | sliceB {a b c x} : Mentions b x → Mentions (.slice a b c) x
  | sliceC {a b c x} : Mentions c x → Mentions (.slice a b c) x
  | entry {kvs a x} : a ∈ kvs → Mentions a x → Mentions (.dict kvs) x
  | param {ps body a x} : a ∈ ps → Mentions a x → Mentions (.lambda ps body) x
  | body {ps body x} : Mentions body x → Mentions (.lambda ps body) x

/-- the implicit names that syntax sugar maps to -/
def implicitNameList : List Name :=
  ["list".toList, "dict".toList, "__getitem__".toList, "__setitem__".toList, "__delitem__".toList,
   "__setitem_with_op__".toList]

/-- `x` is the value of a NAME token of `ts` -/
def TokName (ts : List Token) (x : Name) : Prop := ∃ t, t ∈ ts ∧ t.ty = .NAME ∧ t.val = x

/-- every identifier of `e` is a NAME token of `ts` or an implicit name -/
def OK (ts : List Token) (e : Op) : Prop := ∀ x, Mentions e x → TokName ts x ∨ x ∈ implicitNameList

theorem ok_mono {ts ts' : List Token} {e : Op} (h : OK ts e) (hs : ∀ t, t ∈ ts → t ∈ ts') : OK ts' e := by
  intro x hx
  rcases h x hx with ⟨t, ht, h1, h2⟩ | hi
  · exact Or.inl ⟨t, hs t ht, h1, h2⟩
  · exact Or.inr hi

theorem ok_value (ts : List Token) (l : Lit) : OK ts (.value l) := by intro x hx; cases hx

theorem ok_atom {ts : List Token} {t : Token} {e : Op} (h : atomOf t = some e) : OK ts e := by
  unfold atomOf at h
  split at h
  · cases hd : Dec.ofLexeme t.val with
    | none => rw [hd] at h; cases h
    | some d => rw [hd] at h; injection h with h; subst h; exact ok_value _ _
  all_goals first | (injection h with h; subst h; exact ok_value _ _) | cases h

theorem ok_name {ts : List Token} {t : Token} (hm : t ∈ ts) (ht : t.ty = .NAME) : OK ts (.name t.val) := by
  intro x hx; cases hx; exact Or.inl ⟨t, hm, ht, rfl⟩

theorem ok_call {ts : List Token} {n : Name} {args : List Op} (hn : TokName ts n ∨ n ∈ implicitNameList)
    (ha : ∀ a, a ∈ args → OK ts a) : OK ts (.call n args) := by
  intro x hx
  cases hx with
  | callee => exact hn
  | arg hm hx => exact ha _ hm x hx

theorem ok_bin {ts : List Token} {k : BinK} {a b : Op} (ha : OK ts a) (hb : OK ts b) : OK ts (.bin k a b) := by
  intro x hx
  cases hx with
  | binL h => exact ha x h
  | binR h => exact hb x h

theorem ok_unary {ts : List Token} {k : UnK} {a : Op} (ha : OK ts a) : OK ts (.unary k a) := by
  intro x hx; cases hx with | unary h => exact ha x h

theorem ok_ifx {ts : List Token} {c a b : Op} (hc : OK ts c) (ha : OK ts a) (hb : OK ts b) : OK ts (.ifx c a b) := by
  intro x hx
  cases hx with
  | ifC h => exact hc x h
  | ifA h => exact ha x h
  | ifB h => exact hb x h

theorem ok_slice {ts : List Token} {a b c : Op} (ha : OK ts a) (hb : OK ts b) (hc : OK ts c) : OK ts (.slice a b c) := by
  intro x hx
  cases hx with
  | sliceA h => exact ha x h
  | sliceB h => exact hb x h
  | sliceC h => exact hc x h

theorem ok_dict {ts : List Token} {kvs : List Op} (h : ∀ a, a ∈ kvs → OK ts a) : OK ts (.dict kvs) := by
  intro x hx; cases hx with | entry hm hx => exact h _ hm x hx

theorem ok_lambda {ts : List Token} {ps : List Op} {body : Op} (hp : ∀ a, a ∈ ps → OK ts a) (hb : OK ts body) :
    OK ts (.lambda ps body) := by
  intro x hx
  cases hx with
  | param hm hx => exact hp _ hm x hx
  | body h => exact hb x h

theorem ok_assign {ts : List Token} {t : Token} {v : Op} (hm : t ∈ ts) (ht : t.ty = .NAME) (hv : OK ts v) :
    OK ts (.assign t.val v) := by
  intro x hx
  cases hx with
  | target => exact Or.inl ⟨t, hm, ht, rfl⟩
  | assigned h => exact hv x h

theorem ok_short {ts : List Token} {t : Token} {k : ShortK} {v : Op} (hm : t ∈ ts) (ht : t.ty = .NAME) (hv : OK ts v) :
    OK ts (.short t.val k v) := by
  intro x hx
  cases hx with
  | shortTarget => exact Or.inl ⟨t, hm, ht, rfl⟩
  | shortVal h => exact hv x h

theorem ok_noneOp (ts : List Token) : OK ts noneOp := ok_value _ _

/-- list-membership side goals `t ∈ part → t ∈ whole` -/
macro "sub" : tactic =>
  `(tactic| (intro t ht
             simp only [List.mem_append, List.mem_cons, List.mem_singleton, List.nil_append] at ht ⊢
             first
               | (simp [ht]; done)
               | (rcases ht with h | h <;> simp [h]; done)
               | (rcases ht with h | h | h <;> simp [h]; done)))

theorem impl_getitem : "__getitem__".toList ∈ implicitNameList := by decide
theorem impl_list : "list".toList ∈ implicitNameList := by decide
theorem impl_dict : "dict".toList ∈ implicitNameList := by decide
theorem impl_setitem : "__setitem__".toList ∈ implicitNameList := by decide
theorem impl_delitem : "__delitem__".toList ∈ implicitNameList := by decide
theorem impl_setop : "__setitem_with_op__".toList ∈ implicitNameList := by decide

theorem all_cons {ts : List Token} {e : Op} {acc : List Op} (he : OK ts e) (ha : ∀ a, a ∈ acc → OK ts a) :
    ∀ a, a ∈ e :: acc → OK ts a := by
  intro a hm
  rcases List.mem_cons.mp hm with h | h
  · rw [h]; exact he
  · exact ha a h

theorem all_mono {ts ts' : List Token} {acc : List Op} (ha : ∀ a, a ∈ acc → OK ts a) (hs : ∀ t, t ∈ ts → t ∈ ts') :
    ∀ a, a ∈ acc → OK ts' a := fun a hm => ok_mono (ha a hm) hs

theorem all_reverse {ts : List Token} {acc : List Op} (ha : ∀ a, a ∈ acc → OK ts a) :
    ∀ a, a ∈ acc.reverse → OK ts a := fun a hm => ha a (List.mem_reverse.mp hm)

theorem ok_cast {ts ts' : List Token} {e : Op} (h : OK ts e) (hs : ts = ts') : OK ts' e := hs ▸ h
theorem all_cast {ts ts' : List Token} {out : List Op} (h : ∀ a, a ∈ out → OK ts a) (hs : ts = ts') :
    ∀ a, a ∈ out → OK ts' a := hs ▸ h

mutual

theorem nExpr : ∀ {m a ts t b nxt}, RExpr m a ts t b nxt → OK ts t
  | _, _, _, _, _, _, .mk hp hs => nSpine hs _ (nPrim hp)

theorem nPrim : ∀ {ts t la}, RPrim ts t la → OK ts t
  | _, _, _, .atom ha => ok_atom ha
  | _, _, _, .name ht _ _ => ok_name (List.mem_singleton.mpr rfl) ht
  | _, _, _, .call0 (n := n) hn _ _ =>
    ok_call (Or.inl ⟨n, by simp, hn, rfl⟩) (fun a h => by cases h)
  | _, _, _, .call (n := n) hn _ ha =>
    ok_call (Or.inl ⟨n, by simp, hn, rfl⟩) (fun a h => ok_mono (nArgs ha a h) (by sub))
  | _, _, _, .lam1 (n := n) hn _ he =>
    ok_lambda (fun a h => by
        rw [List.mem_singleton] at h; rw [h]
        exact ok_name (by simp) hn)
      (ok_mono (nExpr he) (by sub))
  | _, _, _, .paren _ he _ => ok_mono (nExpr he) (by sub)
  | _, _, _, .lamN _ h0 _ hp _ hb =>
    ok_lambda (fun a h => ok_mono (nParams hp _ (all_cons (nExpr h0) (fun a h => by cases h)) a h) (by
        intro t ht
        simp only [List.mem_append, List.mem_cons] at ht ⊢
        rcases ht with h | h
        · simp [h]
        · simp [h]))
      (ok_mono (nExpr hb) (by sub))
  | _, _, _, .list0 _ _ => ok_call (Or.inr impl_list) (fun a h => by cases h)
  | _, _, _, .list _ ha => ok_call (Or.inr impl_list) (fun a h => ok_mono (nArgs ha a h) (by sub))
  | _, _, _, .dict0 _ _ => ok_call (Or.inr impl_dict) (fun a h => by cases h)
  | _, _, _, .dict _ hd =>
    ok_dict (fun a h => ok_mono (nDict hd [] (fun a h => by cases h) a h) (by sub))
  | _, _, _, .neg _ he => ok_unary (ok_mono (nExpr he) (by sub))
  | _, _, _, .not _ he => ok_unary (ok_mono (nExpr he) (by sub))

theorem nSpine : ∀ {m a l b ts t bt nxt}, RSpine m a l b ts t bt nxt → ∀ pre, OK pre l → OK (pre ++ ts) t
  | _, _, _, _, _, _, _, _, .nil _, pre, hl => by rw [List.append_nil]; exact hl
  | _, _, _, _, _, _, _, _, .bin (o := o) (tsr := tsr) (rest := rest) _ _ he hs, pre, hl => by
    exact ok_cast (nSpine hs (pre ++ (o :: tsr)) (ok_bin (ok_mono hl (by sub)) (ok_mono (nExpr he) (by sub))))
      (by simp [List.append_assoc])
  | _, _, _, _, _, _, _, _, .notin (o := o) (i := i) (tsr := tsr) _ _ _ he hs, pre, hl => by
    exact ok_cast (nSpine hs (pre ++ (o :: i :: tsr)) (ok_bin (ok_mono hl (by sub)) (ok_mono (nExpr he) (by sub))))
      (by simp [List.append_assoc])
  | _, _, _, _, _, _, _, _, .ifx (o := o) (tsc := tsc) (el := el) (tse := tse) _ _ hc _ he hs, pre, hl => by
    have h1 : OK (pre ++ (o :: tsc ++ el :: tse)) _ :=
      ok_ifx (ok_mono (nExpr hc) (by sub)) (ok_mono hl (by sub)) (ok_mono (nExpr he) (by sub))
    exact ok_cast (nSpine hs _ h1) (by simp [List.append_assoc])
  | _, _, _, _, _, _, _, _, .index (o := o) (tss := tss) _ _ hsub hs, pre, hl => by
    have h1 : OK (pre ++ (o :: tss)) (getitem _ _) :=
      ok_call (Or.inr impl_getitem) (all_cons (ok_mono hl (by sub))
        (all_cons (ok_mono (nSub hsub) (by sub)) (fun a h => by cases h)))
    exact ok_cast (nSpine hs _ h1) (by simp [List.append_assoc])
  | _, _, _, _, _, _, _, _, .dot0 (o := o) (n := n) (lp := lp) (rp := rp) _ _ hn _ _ hs, pre, hl => by
    have h1 : OK (pre ++ [o, n, lp, rp]) (.call n.val [_]) :=
      ok_call (Or.inl ⟨n, by simp, hn, rfl⟩) (all_cons (ok_mono hl (by sub)) (fun a h => by cases h))
    exact ok_cast (nSpine hs _ h1) (by simp [List.append_assoc])
  | _, _, _, _, _, _, _, _, .dot (o := o) (n := n) (lp := lp) (tsa := tsa) _ _ hn _ ha hs, pre, hl => by
    have h1 : OK (pre ++ (o :: n :: lp :: tsa)) (.call n.val (_ :: _)) :=
      ok_call (Or.inl ⟨n, by simp, hn, rfl⟩)
        (all_cons (ok_mono hl (by sub)) (fun a h => ok_mono (nArgs ha a h) (by sub)))
    exact ok_cast (nSpine hs _ h1) (by simp [List.append_assoc])
  | _, _, _, _, _, _, _, _, .pipe0 (o := o) (n := n) _ _ hn _ hs, pre, hl => by
    have h1 : OK (pre ++ [o, n]) (.call n.val [_]) :=
      ok_call (Or.inl ⟨n, by simp, hn, rfl⟩) (all_cons (ok_mono hl (by sub)) (fun a h => by cases h))
    exact ok_cast (nSpine hs _ h1) (by simp [List.append_assoc])
  | _, _, _, _, _, _, _, _, .pipe (o := o) (n := n) (lp := lp) (tsa := tsa) _ _ hn _ ha hs, pre, hl => by
    have h1 : OK (pre ++ (o :: n :: lp :: tsa)) (.call n.val (_ :: _)) :=
      ok_call (Or.inl ⟨n, by simp, hn, rfl⟩)
        (all_cons (ok_mono hl (by sub)) (fun a h => ok_mono (nArgs ha a h) (by sub)))
    exact ok_cast (nSpine hs _ h1) (by simp [List.append_assoc])

theorem nArgs : ∀ {close ts out}, RArgs close ts out → ∀ a, a ∈ out → OK ts a
  | _, _, _, .mk he ht => nArgsTail ht _ (all_cons (nExpr he) (fun a h => by cases h))

theorem nArgsTail : ∀ {close acc ts out}, RArgsTail close acc ts out →
    ∀ pre, (∀ a, a ∈ acc → OK pre a) → ∀ a, a ∈ out → OK (pre ++ ts) a
  | _, _, _, _, .close _ _, pre, hacc => all_reverse (all_mono hacc (by sub))
  | _, _, _, _, .trailing _ _, pre, hacc => all_reverse (all_mono hacc (by sub))
  | _, _, _, _, .more (cm := cm) (ts0 := ts0) _ _ he ht, pre, hacc => by
    have h1 : ∀ a, a ∈ _ :: _ → OK (pre ++ (cm :: ts0)) a :=
      all_cons (ok_mono (nExpr he) (by sub)) (all_mono hacc (by sub))
    exact all_cast (nArgsTail ht _ h1) (by simp [List.append_assoc])

theorem nDict : ∀ {acc ts out}, RDict acc ts out →
    ∀ pre, (∀ a, a ∈ acc → OK pre a) → ∀ a, a ∈ out → OK (pre ++ ts) a
  | _, _, _, .last hk _ hv _, pre, hacc =>
    all_reverse (all_cons (ok_mono (nExpr hv) (by sub)) (all_cons (ok_mono (nExpr hk) (by sub)) (all_mono hacc (by sub))))
  | _, _, _, .lastComma hk _ hv _ _, pre, hacc =>
    all_reverse (all_cons (ok_mono (nExpr hv) (by sub)) (all_cons (ok_mono (nExpr hk) (by sub)) (all_mono hacc (by sub))))
  | _, _, _, .more (tsk := tsk) (col := col) (tsv := tsv) (cm := cm) hk _ hv _ _ hd, pre, hacc => by
    have h1 : ∀ a, a ∈ _ :: _ :: _ → OK (pre ++ (tsk ++ col :: tsv ++ [cm])) a :=
      all_cons (ok_mono (nExpr hv) (by sub)) (all_cons (ok_mono (nExpr hk) (by sub)) (all_mono hacc (by sub)))
    exact all_cast (nDict hd _ h1) (by simp [List.append_assoc])

theorem nParams : ∀ {acc ts out}, RParams acc ts out →
    ∀ pre, (∀ a, a ∈ acc → OK pre a) → ∀ a, a ∈ out → OK (pre ++ ts) a
  | _, _, _, .last (n := n) hn _, pre, hacc =>
    all_reverse (all_cons (ok_name (by simp) hn) (all_mono hacc (by sub)))
  | _, _, _, .more (ts0 := ts0) (cm := cm) _ he _ hp, pre, hacc => by
    have h1 : ∀ a, a ∈ _ :: _ → OK (pre ++ (ts0 ++ [cm])) a :=
      all_cons (ok_mono (nExpr he) (by sub)) (all_mono hacc (by sub))
    exact all_cast (nParams hp _ h1) (by simp [List.append_assoc])

theorem nSub : ∀ {ts k plain}, RSub ts k plain → OK ts k
  | _, _, _, .idx he _ => ok_mono (nExpr he) (by sub)
  | _, _, _, .all _ _ => ok_slice (ok_noneOp _) (ok_noneOp _) (ok_noneOp _)
  | _, _, _, .step _ _ he _ => ok_slice (ok_noneOp _) (ok_noneOp _) (ok_mono (nExpr he) (by sub))
  | _, _, _, .stop _ he _ => ok_slice (ok_noneOp _) (ok_mono (nExpr he) (by sub)) (ok_noneOp _)
  | _, _, _, .stopColon _ he _ _ => ok_slice (ok_noneOp _) (ok_mono (nExpr he) (by sub)) (ok_noneOp _)
  | _, _, _, .start he _ _ => ok_slice (ok_mono (nExpr he) (by sub)) (ok_noneOp _) (ok_noneOp _)
  | _, _, _, .startColon he _ _ _ => ok_slice (ok_mono (nExpr he) (by sub)) (ok_noneOp _) (ok_noneOp _)
  | _, _, _, .startStop he _ he2 _ =>
    ok_slice (ok_mono (nExpr he) (by sub)) (ok_mono (nExpr he2) (by sub)) (ok_noneOp _)

end

theorem ok_indexParts {ts : List Token} {e c k : Op} (h0 : OK ts e) (hi : indexParts e = some (c, k)) :
    OK ts c ∧ OK ts k := by
  unfold indexParts at hi
  split at hi
  · injection hi with hi; injection hi with h1 h2; subst h1; subst h2
    exact ⟨fun x hx => h0 x (.arg (by simp) hx), fun x hx => h0 x (.arg (by simp) hx)⟩
  · cases hi

theorem nStmt {ts : List Token} {s : Option Op} {nxt : LA} (h : RStmt ts s nxt) : ∀ e, s = some e → OK ts e := by
  intro e he
  cases h with
  | empty _ => cases he
  | expr _ hx => injection he with he; subst he; exact nExpr hx
  | @assign n eq ts' v b nxt _ hn _ hx =>
    injection he with he; subst he
    exact ok_assign (by simp) hn (ok_mono (nExpr hx) (by sub))
  | @short n o k ts' v b nxt _ hn _ _ hx =>
    injection he with he; subst he
    exact ok_short (by simp) hn (ok_mono (nExpr hx) (by sub))
  | @del d ts' e0 c k nxt _ _ hx hi =>
    injection he with he; subst he
    have hparts := ok_indexParts (nExpr hx) hi
    exact ok_call (Or.inr impl_delitem)
      (all_cons (ok_mono hparts.1 (by sub)) (all_cons (ok_mono hparts.2 (by sub)) (fun a h => by cases h)))
  | @setitem ts0 e0 c k eq tsv v b nxt _ hx hi _ hv =>
    injection he with he; subst he
    have hparts := ok_indexParts (nExpr hx) hi
    exact ok_call (Or.inr impl_setitem)
      (all_cons (ok_mono hparts.1 (by sub)) (all_cons (ok_mono hparts.2 (by sub))
        (all_cons (ok_mono (nExpr hv) (by sub)) (fun a h => by cases h))))
  | @setop ts0 e0 c k o tsv v b nxt _ hx hi _ hv =>
    injection he with he; subst he
    have hparts := ok_indexParts (nExpr hx) hi
    exact ok_call (Or.inr impl_setop)
      (all_cons (ok_mono hparts.1 (by sub)) (all_cons (ok_mono hparts.2 (by sub))
        (all_cons (ok_value _ _) (all_cons (ok_mono (nExpr hv) (by sub)) (fun a h => by cases h)))))

theorem all_push {ts : List Token} {acc : List Op} {s : Option Op} (ha : ∀ a, a ∈ acc → OK ts a)
    (hs : ∀ e, s = some e → OK ts e) : ∀ a, a ∈ pushStmt acc s → OK ts a := by
  cases s with
  | none => exact ha
  | some e => exact all_cons (hs e rfl) ha

theorem nCode {acc : List Op} {ts : List Token} {out : List Op} (h : RCode acc ts out) :
    ∀ pre, (∀ a, a ∈ acc → OK pre a) → ∀ a, a ∈ out → OK (pre ++ ts) a := by
  induction h with
  | @last acc ts s hs =>
    intro pre hacc
    exact all_reverse (all_push (all_mono hacc (by sub)) (fun e he => ok_mono (nStmt hs e he) (by sub)))
  | @more acc ts s nl rest out hs _ _ ih =>
    intro pre hacc
    have h1 : ∀ a, a ∈ pushStmt acc s → OK (pre ++ (ts ++ [nl])) a :=
      all_push (all_mono hacc (by sub)) (fun e he => ok_mono (nStmt hs e he) (by sub))
    exact all_cast (ih _ h1) (by simp [List.append_assoc])

/-- **every identifier of a parsed program is a NAME token of its text** (or an implicit name) -/
theorem parsed_names_are_tokens {ts : List Token} {tree : Op} (h : parseTokens ts = .ok tree) :
    ∀ x, Mentions tree x → TokName ts x ∨ x ∈ implicitNameList := by
  obtain ⟨out, e, r⟩ := sound h
  subst e
  intro x hx
  cases hx with
  | line hm hx =>
    have := nCode r [] (fun a h => by cases h) _ hm x hx
    simpa using this

end Sq
